import IQE.Props.C31
#print axioms IQE.Props.C31.C31_checker_sound
#print axioms IQE.Props.C31.C31_wf_runs
#print axioms IQE.Props.C31.C31_wf_runs_scoped
