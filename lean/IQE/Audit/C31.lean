import IQE.Props.C31
#print axioms IQE.Props.C31.C31_checker_sound
