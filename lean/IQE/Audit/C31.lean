import IQE.Props.C31
#print axioms IQE.Props.C31.C31_checker_sound
#print axioms IQE.Props.C31.C31_wf_runs
#print axioms IQE.Props.C31.C31_wf_runs_scoped
#print axioms IQE.Props.C31.C31_qual_sound
#print axioms IQE.Props.C31.C31_qual_reads
#print axioms IQE.Props.C31.C31_wfq_wf
#print axioms IQE.Props.C31.C31_no_new_bad
