import IQE.Props.C37
open IQE.Props.C37
#print axioms C37_count
#print axioms C37_sum
#print axioms C37_filter
#print axioms C37_compare_values
#print axioms C37_compare
#print axioms C37_arith
#print axioms C37_add
#print axioms C37_multiply
#print axioms C37_compare_orders
#print axioms C37_roundtrip
