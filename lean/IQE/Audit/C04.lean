import IQE.Props.C04
open IQE.Props.C04
#print axioms C04_layout_invariance_partial
#print axioms C04_no_new_errors_partial
#print axioms C04_layouts_same_bag
#print axioms C04_path_eager
#print axioms C04_path_streaming
#print axioms C04_path_prescan
#print axioms C04_path_morsel
#print axioms C04_groupAcc_lawful
#print axioms C04_no_new_errors
