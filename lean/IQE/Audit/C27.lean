import IQE.Props.C27
#print axioms IQE.Props.C27.goodSet_range
#print axioms IQE.Props.C27.goodSet_sublist
#print axioms IQE.Props.C27.C27_expand
#print axioms IQE.Props.C27.C27_desugar
#print axioms IQE.Props.C27.C27_desugar_run
#print axioms IQE.Props.C27.C27_grouping_bits
#print axioms IQE.Props.C27.C27_mask_determines_set
