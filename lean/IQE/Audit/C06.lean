import IQE.Props.C06
open IQE.Props.C06
#print axioms C06_pack_chunks
#print axioms C06_compile_correct
#print axioms C06_fused_eq_strict_interpreter
#print axioms C06_regs_ssa
#print axioms C06_null_strict_validity
#print axioms C06_ieee_eq_total_on_plain
#print axioms C06_witness_nan
#print axioms C06_witness_negzero
#print axioms C06_current_is_intended
