import IQE.Props.C20
open IQE.Props.C20
#print axioms C20_inprocess
#print axioms C20_crossprocess_partial
#print axioms C20_crossprocess_of_shared_lock
#print axioms C20_crossprocess_witness
#print axioms C20_roundtrip_partial
