import IQE.Props.C15Gen
open IQE.Props.C15Gen
#print axioms C15Gen_status_bijection
#print axioms C15Gen_record_up_step
#print axioms C15Gen_record_down_step
#print axioms C15Gen_inRange
