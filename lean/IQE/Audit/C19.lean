import IQE.Props.C19
open IQE.Props.C19
#print axioms C19_coherent_of_sound_stamp
#print axioms C19_content_stamp_coherent
#print axioms C19_stale_of_collision
#print axioms C19_current_stamps_unsound
