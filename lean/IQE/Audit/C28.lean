import IQE.Props.C28
#print axioms IQE.Props.C28.C28_ref_is_def
#print axioms IQE.Props.C28.C28_ref_body
#print axioms IQE.Props.C28.C28_lexical_scope
#print axioms IQE.Props.C28.C28_materialize_eq_inline_partial
#print axioms IQE.Props.C28.C28_model_refines
#print axioms IQE.Props.C28.C28_unique_names_binder
#print axioms IQE.Props.C28.C28_unique_names
#print axioms IQE.Props.C28.C28_shadowing_violates
