import IQE.Props.C01Pipeline
#print axioms IQE.Props.C01.C01_pipeline_run_unordered
#print axioms IQE.Props.C01.C01_pipeline_refines_spec_bag
#print axioms IQE.Props.C01.C01_pipeline_error_or_right_bag
#print axioms IQE.Props.C01.C01_pipeline_refines_spec_sort
#print axioms IQE.Props.C01.C01_pipeline_refines_spec_sort_limit
#print axioms IQE.Props.C01.C01_pipeline_limit_aux
#print axioms IQE.Props.C01.C01_pipeline_refines_spec_limit
#print axioms IQE.Props.C01.C01_pipeline_refines_spec
#print axioms IQE.Props.C01.C01_pipeline_acceptable_error
#print axioms IQE.Props.C01.C01_pipeline_error_or_right
