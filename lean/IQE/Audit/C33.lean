import IQE.Props.C33
open IQE.Props.C33
#print axioms C33_inv
#print axioms C33_inv_exact
#print axioms C33_try_within_limit
#print axioms reachable_of_cond
#print axioms C33_try_only_never_exceeds
#print axioms C33_no_underflow
#print axioms C33_returns_to_zero
#print axioms C33_run_reachable
