import IQE.Props.C41
open IQE.Props.C41
#print axioms C41_roundtrip
#print axioms C41_total
#print axioms C41_malformed_rejected
#print axioms C41_nonhex_size_rejected
