import IQE.Props.C18
open IQE.Props.C18
#print axioms C18_rows_exact
#print axioms C18_nulls_exact
#print axioms C18_nulls_present_iff
#print axioms C18_nulls_exact_table
#print axioms C18_minmax_sound
#print axioms C18_minmax_sound_table
#print axioms C18_minmax_published
#print axioms C18_stats_total
#print axioms C18_ndv_le_rows
#print axioms C18_statsless_keeps_minmax_unsound
#print axioms C18_ndv_range_overflow_panics
#print axioms C18_unsigned_as_signed_unsound
