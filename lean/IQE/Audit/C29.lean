import IQE.Props.C29
open IQE.Props.C29
#print axioms C29_eval_total
#print axioms C29_engine_eval_total
#print axioms C29_run_total
#print axioms C29_typed_no_type_error
#print axioms C29_typed_no_bad_reference
#print axioms C29_typed_preservation
#print axioms C29_optimizer_terminates
#print axioms C29_optimizer_fuel_suffices
