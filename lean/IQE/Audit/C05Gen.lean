import IQE.Props.C05Gen
open IQE.Props.C05Gen
#print axioms C05Gen_definiteInt_is_translated
#print axioms C05Gen_definite_table_int_sound
#print axioms C05Gen_definite_table_int_cmp_only
#print axioms C05Gen_exact_beyond_2p53
#print axioms C05Gen_definite_table_int_inRange
