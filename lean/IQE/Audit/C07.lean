import IQE.Props.C07
open IQE.Props.C07
#print axioms C07_mod_partition
#print axioms C07_mod_partition_gate
#print axioms C07_batching
#print axioms C07_batching_join
#print axioms C07_merge_order
#print axioms C07_merge_order_states
#print axioms C07_merge_order_intAgg
#print axioms C07_limit_global
#print axioms C07_union_drains_all
#print axioms C07_tracker_safety
#print axioms C07_tracker_terminates
#print axioms C07_tracker_no_blocking
#print axioms C07_tracker
#print axioms C07_declared_partitions
