import IQE.Props.C44
#print axioms IQE.Props.C44.evalList_lits
#print axioms IQE.Props.C44.mapM_lits
#print axioms IQE.Props.C44.C44_values_exprs
#print axioms IQE.Props.C44.C44_values
#print axioms IQE.Props.C44.C44_values_as_table
#print axioms IQE.Props.C44.C44_values_congr
#print axioms IQE.Props.C44.C44_values_derived
#print axioms IQE.Props.C44.C44_lower_refines
#print axioms IQE.Props.C44.C44_lower_values
#print axioms IQE.Props.C44.C44_valuesEmpty_violates
#print axioms IQE.Props.C44.C44_devPlan_off
#print axioms IQE.Props.C44.C44_devPlans_off
