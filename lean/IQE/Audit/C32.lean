import IQE.Props.C32
#print axioms IQE.Props.C32.C32_checker_sound
#print axioms IQE.Props.C32.C32_checker_complete
#print axioms IQE.Props.C32.C32_exists
#print axioms IQE.Props.C32.C32_dpsize_pairs
#print axioms IQE.Props.C32.C32_dev_conservative
