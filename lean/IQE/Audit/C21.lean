import IQE.Props.C21
import IQE.Props.C21Gen
open IQE.Props.C21
#print axioms C21_hash_hom
#print axioms C21_vectorized_hom
#print axioms C21_morsel_hom
#print axioms C21_rawSum_hom
#print axioms C21_hash_hom_count_distinct
#print axioms C21_hash_hom_sum_distinct_int
#print axioms C21_hash_hom_sum_distinct_f64
#print axioms C21_order_irrelevant
#print axioms C21_ignores_null
#print axioms C21_empty_group
#print axioms C21_null_key_one_group
#print axioms C21_null_key_group_rows
#print axioms C21_global_one_row
#print axioms C21_global_empty_values

open IQE.Props.C21Gen
#print axioms C21Gen_dispatch_order
#print axioms C21Gen_merge_count
#print axioms C21Gen_merge_sum
#print axioms C21Gen_merge_sum_int
#print axioms C21Gen_merge_avg
#print axioms C21Gen_merge_min
#print axioms C21Gen_merge_max
#print axioms C21Gen_merge_eq_model
#print axioms C21Gen_finalize_count
#print axioms C21Gen_finalize_sum
#print axioms C21Gen_finalize_sum_int
#print axioms C21Gen_finalize_avg
#print axioms C21Gen_finalize_min
#print axioms C21Gen_finalize_max
#print axioms C21Gen_finalize_eq_model
#print axioms C21Gen_merge_inRange
