import IQE.Props.C01
#print axioms IQE.Props.C01.C01_bagEq_iff_perm
#print axioms IQE.Props.C01.C01_bagEq_equivalence
#print axioms IQE.Props.C01.C01_acceptable_bag
#print axioms IQE.Props.C01.C01_acceptable_refl
#print axioms IQE.Props.C01.C01_acceptable_perm_invariant
#print axioms IQE.Props.C01.C01_error_or_right
#print axioms IQE.Props.C01.C01_acceptable_refl_limit
