import IQE.Props.C11
open IQE.Props.C11
#print axioms C11_cut_covers
#print axioms C11_bytes_exact
#print axioms C11_totals
#print axioms C11_sorted
#print axioms C11_canonical_distinct_names
#print axioms C11_canonical
#print axioms C11_duplicate_names_order_dependent
#print axioms C11_digest_function_of_content
#print axioms C11_digest_sensitive_partial
#print axioms C11_gen_bridge_target
#print axioms C11_gen_bridge_cut
#print axioms C11_target_clamp
#print axioms C11_cut_in_range
