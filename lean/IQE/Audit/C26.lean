import IQE.Props.C26
open IQE.Props.C26
#print axioms C26_rank
#print axioms C26_cume_dist
#print axioms C26_percent_rank
#print axioms C26_dense_rank
#print axioms C26_distinctKeys_is_distinctBy
#print axioms C26_peerEq_is_tie
#print axioms C26_row_number
#print axioms C26_frame_rows
#print axioms C26_frame_rows_spec
#print axioms C26_frame_range_partial
#print axioms C26_frame_agg
#print axioms C26_lag_lead
#print axioms C26_first_last_nth
#print axioms C26_scatter
#print axioms C26_ntile
