import IQE.Props.C02
open IQE.Props.C02
#print axioms C02_eval_refines
#print axioms C02_filter_keeps_eq
#print axioms C02_filter_keeps_iff_true
#print axioms C02_null_exactly
#print axioms C02_fold_sound
#print axioms C02_eq_self_not_true
#print axioms C02_strict_invisible_on_conjunctive
#print axioms C02_strict_invisible_kernel_free
#print axioms C02_strict_eq_kleene_nonnull
#print axioms C02_witness_strict_or
#print axioms C02_witness_strict_and
#print axioms C02_witness_or_drops_row
#print axioms C02_witness_not_and_drops_row
#print axioms C02_witness_inlist_null
#print axioms C02_witness_between_null
#print axioms C02_strict_does_not_refine
#print axioms C02_current_is_intended
