import IQE.Props.C38
open IQE.Props.C38
#print axioms C38_chunks_cover
#print axioms C38_chunked_regroup
#print axioms C38_dot_chunked
#print axioms C38_l2_chunked
#print axioms C38_dim_mismatch_errors
#print axioms C38_null_row_null
#print axioms C38_null_row_null_columns
#print axioms C38_zero_norm
#print axioms C38_slice_invariance
