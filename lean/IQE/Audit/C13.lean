import IQE.Props.C13
open IQE.Props.C13
#print axioms C13_reassembly
#print axioms C13_reassembly_lpt
#print axioms C13_range_checked
#print axioms C13_no_whole_file
