import IQE.Props.C05
open IQE.Props.C05
#print axioms C05_op_bijection
#print axioms C05_tables_are_translated
#print axioms C05_toGen_ofGen
#print axioms C05_eval_range_sound
#print axioms C05_eval_range_f64_sound
#print axioms C05_eval_range_str_sound
#print axioms C05_definite_table_sound
#print axioms C05_might_match_sound
#print axioms C05_definite_sound
#print axioms C05_prune_answer_invariant
#print axioms C05_narrowing_not_monotone
#print axioms C05_witness_definite_f64
#print axioms C05_witness_i32_narrowing
#print axioms C05_witness_nan_and_zero
#print axioms C05_current_is_intended
