import IQE.Props.C05
import IQE.Props.C05Gen
open IQE.Props.C05
open IQE.Props.C05Gen
#print axioms C05_op_bijection
#print axioms C05_tables_are_translated
#print axioms C05_toGen_ofGen
#print axioms C05_eval_range_sound
#print axioms C05_eval_range_f64_sound
#print axioms C05_eval_range_str_sound
#print axioms C05_definite_table_sound
#print axioms C05_might_match_sound
#print axioms C05_definite_sound
#print axioms C05_prune_answer_invariant
#print axioms C05_narrowing_not_monotone
#print axioms C05_witness_definite_f64
#print axioms C05_witness_i32_narrowing
#print axioms C05_witness_nan_and_zero
#print axioms C05_current_is_intended
#print axioms C05Gen_definiteInt_is_translated
#print axioms C05Gen_definite_table_int_sound
#print axioms C05Gen_definite_table_int_cmp_only
#print axioms C05Gen_exact_beyond_2p53
#print axioms C05Gen_definite_table_int_inRange
