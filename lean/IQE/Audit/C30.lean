import IQE.Props.C30
open IQE.Props.C30
#print axioms C30_schema_sound_partial
#print axioms C30_typed_plan_no_static_error
#print axioms C30_empty_result_schema
#print axioms C30_names
