import IQE.Props.C42
open IQE.Props.C42
#print axioms C42_sorted_nodup
#print axioms C42_mem_iff_collected
#print axioms C42_workers_bounds
#print axioms C42_workers_never_exceeds
