import IQE.Props.C42
open IQE.Props.C42
#print axioms C42_sorted_nodup
#print axioms C42_mem_iff_collected
#print axioms C42_workers_bounds
#print axioms C42_workers_never_exceeds
#print axioms C42_workers_gen_bounds
#print axioms C42_workers_gen_eq_model
