import IQE.Props.C42
open IQE.Props.C42
#print axioms C42_sorted_nodup
#print axioms C42_mem_iff_collected
#print axioms C42_workers_bounds
#print axioms C42_workers_never_exceeds
#print axioms C42_workers_gen_bounds
#print axioms C42_workers_gen_eq_model
#print axioms C42_mem_range
#print axioms C42_numtxt_iff_parse
#print axioms C42_renders_no_comma
#print axioms C42_part_denotes
#print axioms C42_collect_denotes
#print axioms C42_denotes
#print axioms C42_canonical
#print axioms C42_junk_ignored
#print axioms C42_renders_total
#print axioms C42_every_input_rendered
