import IQE.Props.C14
open IQE.Props.C14
#print axioms C14_runs_only_on_equal_digest
#print axioms C14_mismatch_refuses
#print axioms C14_index_range
#print axioms C14_attribute_detected_partial
