import IQE.Props.C10
open IQE.Props.C10
#print axioms C10_any_failure_fails
#print axioms C10_ok_is_complete
#print axioms C10_ok_is_complete_bag
#print axioms C10_any_failure_fails_query
#print axioms C10_ok_is_complete_query
#print axioms C10_decode_complete
#print axioms C10_truncation_detected
#print axioms C10_truncation_is_bad_payload
#print axioms C10_truncated_fragment_fails_query
#print axioms C10_truncation_detected_by_declared_rows
#print axioms C10_truncation_detected_by_declared_length
#print axioms toyStream_wf
#print axioms C10_F1_witness
