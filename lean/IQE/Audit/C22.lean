import IQE.Props.C22
open IQE.Props.C22
#print axioms C22_refines
#print axioms C22_refines_spec
#print axioms C22_batching_irrelevant
#print axioms C22_tracker_invariant
#print axioms C22_build_side_irrelevant
#print axioms C22_null_key_iff
#print axioms C22_null_keys_never_match
#print axioms C22_null_keys_never_match_right
#print axioms C22_outer_null_extends
#print axioms C22_filter_before_tracking
#print axioms C22_filter_before_tracking_right
#print axioms C22_runtime_filter_sound
