import IQE.Props.C17
open IQE.Props.C17
#print axioms C17_refine
#print axioms C17_refine_snapshots
#print axioms C17_files_sorted_nodup
#print axioms C17_live_iff
#print axioms C17_current
#print axioms C17_refusals
#print axioms C17_refusals_open
#print axioms C17_resolve_uri
