import IQE.Props.C35
open IQE.Props.C35
#print axioms C35_not_ready_503
#print axioms C35_not_ready_503_fragment
#print axioms C35_not_ready_503_statement
#print axioms C35_auto
#print axioms C35_auto_reason
#print axioms C35_off_never
#print axioms C35_force_always
#print axioms C35_response_reports_decision
#print axioms C35_no_fallback
#print axioms C35_ok_only_when
#print axioms C35_http_mode_vocabulary
#print axioms C35_flight_mode_vocabulary
#print axioms C35_unknown_mode_is_error
#print axioms C35_bridge_http_vocabulary
#print axioms C35_flight_mode_table
#print axioms C35_bridge_flight_vocabulary
