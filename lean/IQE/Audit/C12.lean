import IQE.Props.C12
open IQE.Props.C12
#print axioms C12_partition
#print axioms C12_sums
#print axioms C12_deterministic
#print axioms C12_tiebreak
#print axioms C12_graham
#print axioms C12_graham_two
#print axioms C12_lpt_bound_partial
