import IQE.Props.C30Gen
open IQE.Props.C30Gen
#print axioms C30Gen_exec_same
#print axioms C30Gen_plan_exec_agree
#print axioms C30Gen_agree_one_numeric
#print axioms C30Gen_exec_total_numeric
