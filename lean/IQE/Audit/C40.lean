import IQE.Props.C40
open IQE.Props.C40
#print axioms C40_csv_roundtrip
#print axioms C40_csv_cells
#print axioms C40_json_roundtrip
