import IQE.Props.C34
open IQE.Props.C34
#print axioms C34_slicing_batch
#print axioms C34_slicing
#print axioms C34_trailer_rows
#print axioms C34_ticket
#print axioms C34_command
#print axioms C34_same_decision
#print axioms C34_bridge_constants
#print axioms C34_flight_mode_table
#print axioms C34_bridge_flight_vocabulary
