import IQE.Props.C21Gen
open IQE.Props.C21Gen
#print axioms C21Gen_dispatch_order
#print axioms C21Gen_merge_count
#print axioms C21Gen_merge_sum
#print axioms C21Gen_merge_sum_int
#print axioms C21Gen_merge_avg
#print axioms C21Gen_merge_min
#print axioms C21Gen_merge_max
#print axioms C21Gen_merge_eq_model
#print axioms C21Gen_finalize_count
#print axioms C21Gen_finalize_sum
#print axioms C21Gen_finalize_sum_int
#print axioms C21Gen_finalize_avg
#print axioms C21Gen_finalize_min
#print axioms C21Gen_finalize_max
#print axioms C21Gen_finalize_eq_model
#print axioms C21Gen_merge_inRange
