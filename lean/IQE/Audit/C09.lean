import IQE.Props.C09
open IQE.Props.C09
#print axioms C09_shard_safe_additive
#print axioms C09_shard_safe_additive_n
#print axioms C09_shard_safe_no_new_errors
#print axioms C09_empty_shard
#print axioms C09_replicas_invariant
#print axioms C09_two_phase_value
#print axioms C09_two_phase
#print axioms C09_two_phase_post
#print axioms C09_two_phase_needs_a_row
#print axioms C09_topn
#print axioms C09_concat_shard_safe
#print axioms C09_concat
#print axioms C09_gather_partial
#print axioms C09_block_topn
#print axioms C09_shape_exact_topn
#print axioms C09_block_two_phase
#print axioms C09_shape_exact_two_phase
#print axioms C09_shape_exact_refuses_distinct
