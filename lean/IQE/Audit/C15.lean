import IQE.Props.C15
import IQE.Props.C15Gen
open IQE.Props.C15
open IQE.Props.C15Gen
#print axioms C15_init_inv
#print axioms C15_step_inv
#print axioms C15_run_inv
#print axioms C15_view_of_inv
#print axioms C15_reachable
#print axioms C15_resolve_error_keeps
#print axioms C15_generation_monotone_step
#print axioms C15_generation_monotone
#print axioms C15_set_members_exact
#print axioms C15_reresolve_preserves
#print axioms C15_generation_advances
#print axioms C15_generation_advances_set
#print axioms C15_string_env_wf
#print axioms C15Gen_status_bijection
#print axioms C15Gen_record_up_step
#print axioms C15Gen_record_down_step
#print axioms C15Gen_inRange
