import IQE.Props.C08
open IQE.Props.C08
#print axioms C08_external_sort
#print axioms C08_external_sort_comparator
#print axioms C08_merge_comparator_is_sort_comparator
#print axioms C08_grace_join
#print axioms C08_spilled_agg
#print axioms C08_either
