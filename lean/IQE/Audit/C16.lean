import IQE.Props.C16
open IQE.Props.C16
#print axioms C16_total
#print axioms C16_complete_or_error
#print axioms C16_roundtrip
#print axioms C16_prefix_rejected
