import IQE.Props.C39
open IQE.Props.C39
#print axioms C39_pk_dense
#print axioms sample_in_range
#print axioms orderLine_in_range
#print axioms C39_fk_in_range
#print axioms C39_counts
#print axioms mod_eq_iff_dvd_sub
#print axioms mem_partsuppKeys
#print axioms C39_ps_fk
#print axioms C39_ps_fk_fixed
#print axioms C39_ps_fk_round_sf
#print axioms C39_pure
