import IQE.Props.C45
open IQE.Props.C45
#print axioms C45_covers_plan_acc
#print axioms C45_covers_plan
#print axioms C45_covers_plan_children
#print axioms C45_merge_union
#print axioms C45_columnless_scan
#print axioms C45_F1_witness
#print axioms C45_rebind_findIdx
#print axioms C45_rebind_findIdx_none
#print axioms C45_rebind
#print axioms C45_rebind_all
