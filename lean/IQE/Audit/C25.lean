import IQE.Props.C25
open IQE.Props.C25
#print axioms C25_order
#print axioms C25_order_nulls
#print axioms C25_limit_stream
#print axioms C25_limit_stream_stops
#print axioms C25_topk_fusion
#print axioms C25_topk_fusion_any_selection
#print axioms C25_ties_any_order
#print axioms C25_ties
#print axioms C25_spilled
