/-
  Lemmas for IQE.Engine.JoinGraph (property C32).
-/
import IQE.Engine.JoinGraph
namespace IQE.Engine.JoinGraph

/-! ### the boolean checker against its specification -/

theorem crosses_iff (p : Pred) (L R : List Nat) :
    p.crosses L R = true ↔ (p.a ∈ L ∧ p.b ∈ R) ∨ (p.b ∈ L ∧ p.a ∈ R) := by
  simp [Pred.crosses]

theorem crossFree_iff (t : Tree) : t.crossFree = true ↔ CrossFree t := by
  induction t with
  | leaf r => simp [Tree.crossFree]; exact CrossFree.leaf r
  | node on l r ihl ihr =>
    simp only [Tree.crossFree, Bool.and_eq_true, List.any_eq_true, crosses_iff]
    constructor
    · rintro ⟨⟨p, hp, hc⟩, hl, hr⟩
      exact CrossFree.node ⟨p, hp, hc⟩ (ihl.mp hl) (ihr.mp hr)
    · intro h
      cases h with
      | node hx hl hr =>
        obtain ⟨p, hp, hc⟩ := hx
        exact ⟨⟨p, hp, hc⟩, ihl.mpr hl, ihr.mpr hr⟩
  | filt ps t ih =>
    simp only [Tree.crossFree]
    constructor
    · intro h; exact CrossFree.filt (ih.mp h)
    · intro h; cases h with | filt h => exact ih.mpr h

theorem validReorder_iff (g : Graph) (t : Tree) :
    validReorder g t = true ↔
      t.leaves.Perm g.rels ∧ CrossFree t ∧ (t.preds.map Pred.norm).Perm (g.preds.map Pred.norm) := by
  simp only [validReorder, Bool.and_eq_true, List.isPerm_iff, crossFree_iff]

theorem crossFree_imp_seen (seen : List Pred) (t : Tree) (h : t.crossFree = true) : t.crossFreeSeen seen = true := by
  induction t with
  | leaf r => rfl
  | node on l r ihl ihr =>
    simp only [Tree.crossFree, Bool.and_eq_true] at h
    simp only [Tree.crossFreeSeen, Bool.and_eq_true, Bool.or_eq_true]
    exact ⟨Or.inl h.1, ihl h.2.1, ihr h.2.2⟩
  | filt ps t ih => exact ih h

/-- whatever the strict checker accepts is accepted with the deviation switch on -/
theorem validReorder_imp_dev (g : Graph) (blind : List Nat) (t : Tree) (h : validReorder g t = true) :
    validReorderDev g blind t = true := by
  simp only [validReorder, Bool.and_eq_true] at h
  simp only [validReorderDev, Bool.and_eq_true]
  exact ⟨h.1, crossFree_imp_seen _ t h.2.1, h.2.2⟩

/-! ### reachability -/

theorem Pred.links_symm {p : Pred} {x y : Nat} (h : p.links x y) : p.links y x := by
  rcases h with h | h
  · exact Or.inr h
  · exact Or.inl h

theorem ReachIn.mono {g : Graph} {S S' : List Nat} (hs : ∀ x ∈ S, x ∈ S') {x y : Nat}
    (h : ReachIn g S x y) : ReachIn g S' x y := by
  induction h with
  | refl hx => exact ReachIn.refl (hs _ hx)
  | step _ hl hz ih => exact ReachIn.step ih hl (hs _ hz)

theorem ReachIn.left_mem {g : Graph} {S : List Nat} {x y : Nat} (h : ReachIn g S x y) : x ∈ S := by
  induction h with
  | refl hx => exact hx
  | step _ _ _ ih => exact ih

theorem ReachIn.right_mem {g : Graph} {S : List Nat} {x y : Nat} (h : ReachIn g S x y) : y ∈ S := by
  cases h with
  | refl hx => exact hx
  | step _ _ hz => exact hz

theorem ReachIn.trans {g : Graph} {S : List Nat} {x y z : Nat}
    (h1 : ReachIn g S x y) (h2 : ReachIn g S y z) : ReachIn g S x z := by
  induction h2 with
  | refl _ => exact h1
  | step _ hl hz ih => exact ReachIn.step ih hl hz

/-- one predicate between two relations of `S` is a path -/
theorem ReachIn.single {g : Graph} {S : List Nat} {x y : Nat} (hx : x ∈ S) (hy : y ∈ S)
    (hl : ∃ p ∈ g.preds, p.links x y) : ReachIn g S x y :=
  ReachIn.step (ReachIn.refl hx) hl hy

theorem ReachIn.symm {g : Graph} {S : List Nat} {x y : Nat} (h : ReachIn g S x y) : ReachIn g S y x := by
  induction h with
  | refl hx => exact ReachIn.refl hx
  | step hxy hl hz ih =>
    obtain ⟨p, hp, hlk⟩ := hl
    exact ReachIn.trans (ReachIn.single hz (ReachIn.right_mem hxy) ⟨p, hp, Pred.links_symm hlk⟩) ih

/-- DPsize invariant: two connected sub-plans linked by a predicate form a connected sub-plan -/
theorem connectedOn_append {g : Graph} {S1 S2 : List Nat}
    (h1 : ConnectedOn g S1) (h2 : ConnectedOn g S2)
    (hl : ∃ p ∈ g.preds, (p.a ∈ S1 ∧ p.b ∈ S2) ∨ (p.b ∈ S1 ∧ p.a ∈ S2)) :
    ConnectedOn g (S1 ++ S2) := by
  have m1 : ∀ x ∈ S1, x ∈ S1 ++ S2 := fun x hx => List.mem_append.mpr (Or.inl hx)
  have m2 : ∀ x ∈ S2, x ∈ S1 ++ S2 := fun x hx => List.mem_append.mpr (Or.inr hx)
  -- the bridge u ∈ S1, v ∈ S2
  obtain ⟨u, v, hu, hv, huv⟩ : ∃ u v, u ∈ S1 ∧ v ∈ S2 ∧ ∃ p ∈ g.preds, p.links u v := by
    obtain ⟨p, hp, h | h⟩ := hl
    · exact ⟨p.a, p.b, h.1, h.2, p, hp, Or.inl ⟨rfl, rfl⟩⟩
    · exact ⟨p.b, p.a, h.1, h.2, p, hp, Or.inr ⟨rfl, rfl⟩⟩
  have bridge : ReachIn g (S1 ++ S2) u v := ReachIn.single (m1 _ hu) (m2 _ hv) huv
  have cross : ∀ x ∈ S1, ∀ y ∈ S2, ReachIn g (S1 ++ S2) x y := fun x hx y hy =>
    ReachIn.trans (ReachIn.trans ((h1 x hx u hu).mono m1) bridge) ((h2 v hv y hy).mono m2)
  intro x hx y hy
  rcases List.mem_append.mp hx with hx | hx <;> rcases List.mem_append.mp hy with hy | hy
  · exact (h1 x hx y hy).mono m1
  · exact cross x hx y hy
  · exact (cross y hy x hx).symm
  · exact (h2 x hx y hy).mono m2

/-- a path that starts inside `S` and ends outside passes a predicate leaving `S` -/
theorem ReachIn.exit {g : Graph} {R S : List Nat} {x y : Nat} (h : ReachIn g R x y)
    (hx : x ∈ S) (hy : y ∉ S) :
    ∃ u v, u ∈ S ∧ v ∉ S ∧ v ∈ R ∧ ∃ p ∈ g.preds, p.links u v := by
  induction h with
  | refl _ => exact absurd hx hy
  | @step y' z' hxy hl hz ih =>
    by_cases hy' : y' ∈ S
    · exact ⟨y', z', hy', hy, hz, hl⟩
    · exact ih hy'

/-! ### list helpers -/

theorem filter_or_perm {α : Type} (f p q : α → Bool) (l : List α)
    (hf : ∀ x ∈ l, f x = (p x || q x)) (hd : ∀ x ∈ l, ¬(p x = true ∧ q x = true)) :
    (l.filter f).Perm (l.filter p ++ l.filter q) := by
  induction l with
  | nil => simp
  | cons a l ih =>
    have ih' := ih (fun x hx => hf x (List.mem_cons_of_mem _ hx)) (fun x hx => hd x (List.mem_cons_of_mem _ hx))
    have hfa := hf a (List.mem_cons_self)
    have hda := hd a (List.mem_cons_self)
    cases hp : p a <;> cases hq : q a
    · simp [hfa, hp, hq]; exact ih'
    · simp only [List.filter_cons, hfa, hp, hq, Bool.false_or, if_true, Bool.false_eq_true, if_false]
      exact (List.Perm.cons a ih').trans (List.perm_middle).symm
    · simp only [List.filter_cons, hfa, hp, hq, Bool.or_false, if_true, Bool.false_eq_true, if_false, List.cons_append]
      exact List.Perm.cons a ih'
    · exact absurd ⟨hp, hq⟩ hda

theorem length_filter_lt {α : Type} (p q : α → Bool) (l : List α)
    (himp : ∀ x ∈ l, q x = true → p x = true) (hex : ∃ x ∈ l, p x = true ∧ q x = false) :
    (l.filter q).length < (l.filter p).length := by
  induction l with
  | nil => obtain ⟨x, hx, _⟩ := hex; cases hx
  | cons a l ih =>
    have hle : (l.filter q).length ≤ (l.filter p).length := by
      clear ih hex
      induction l with
      | nil => simp
      | cons b l ih2 =>
        have := ih2 (fun x hx => himp x (by
          rcases List.mem_cons.mp hx with h | h
          · exact List.mem_cons.mpr (Or.inl h)
          · exact List.mem_cons.mpr (Or.inr (List.mem_cons_of_mem _ h))))
        have hb := himp b (List.mem_cons_of_mem _ List.mem_cons_self)
        cases hqb : q b <;> cases hpb : p b <;> simp [hqb, hpb] <;> first | omega | (simp [hqb, hpb] at hb)
    obtain ⟨x, hx, hpx, hqx⟩ := hex
    have ha := himp a List.mem_cons_self
    rcases List.mem_cons.mp hx with rfl | hx
    · simp [hpx, hqx]; omega
    · have := ih (fun y hy => himp y (List.mem_cons_of_mem _ hy)) ⟨x, hx, hpx, hqx⟩
      cases hqa : q a <;> cases hpa : p a <;> simp [hqa, hpa] <;> first | omega | (simp [hqa, hpa] at ha)

/-! ### the greedy order never gets stuck on a connected graph -/

/-- predicates with both endpoints among `S` -/
def within (S : List Nat) (p : Pred) : Bool := S.contains p.a && S.contains p.b

structure Inv (g : Graph) (S : List Nat) (t : Tree) : Prop where
  sub : ∀ x ∈ S, x ∈ g.rels
  nodup : S.Nodup
  ne : S ≠ []
  leaves : t.leaves.Perm S
  cf : CrossFree t
  preds : t.preds.Perm (g.preds.filter (within S))

theorem mem_linking {g : Graph} {S : List Nat} {r : Nat} {p : Pred} :
    p ∈ linking g S r ↔ p ∈ g.preds ∧ ((p.a = r ∧ p.b ∈ S) ∨ (p.b = r ∧ p.a ∈ S)) := by
  simp [linking, List.mem_filter]

theorem nextRel_spec {g : Graph} {S : List Nat} {r : Nat} (h : nextRel g S = some r) :
    r ∈ g.rels ∧ r ∉ S ∧ ∃ p, p ∈ linking g S r := by
  have hm := List.mem_of_find?_eq_some h
  have hp := List.find?_some h
  simp only [Bool.and_eq_true, Bool.not_eq_true', List.contains_eq_mem, decide_eq_false_iff_not] at hp
  refine ⟨hm, hp.1, ?_⟩
  cases hl : linking g S r with
  | nil => simp [hl] at hp
  | cons p _ => exact ⟨p, List.mem_cons_self⟩

theorem inv_step {g : Graph} (wf : WellFormed g) {S : List Nat} {t : Tree} {r : Nat}
    (inv : Inv g S t) (h : nextRel g S = some r) :
    Inv g (r :: S) (.node (linking g S r) t (.leaf r)) := by
  obtain ⟨hr, hrS, p0, hp0⟩ := nextRel_spec h
  refine ⟨?_, ?_, by simp, ?_, ?_, ?_⟩
  · intro x hx
    rcases List.mem_cons.mp hx with rfl | hx
    · exact hr
    · exact inv.sub x hx
  · exact List.nodup_cons.mpr ⟨hrS, inv.nodup⟩
  · -- leaves: t.leaves ++ [r] ~ r :: S
    simp only [Tree.leaves]
    exact (List.perm_append_comm).trans (List.Perm.cons r inv.leaves)
  · refine CrossFree.node ⟨p0, hp0, ?_⟩ inv.cf (CrossFree.leaf r)
    obtain ⟨_, h | h⟩ := mem_linking.mp hp0
    · exact Or.inr ⟨inv.leaves.mem_iff.mpr h.2, by simp [Tree.leaves, h.1]⟩
    · exact Or.inl ⟨inv.leaves.mem_iff.mpr h.2, by simp [Tree.leaves, h.1]⟩
  · -- predicates: linking ++ t.preds ++ [] ~ filter (within (r :: S))
    simp only [Tree.preds, List.append_nil]
    have hsplit : (g.preds.filter (within (r :: S))).Perm
        (g.preds.filter (within S) ++ g.preds.filter (fun p => (p.a == r && S.contains p.b) || (p.b == r && S.contains p.a))) := by
      apply filter_or_perm
      · intro p hp
        have hne := (wf.endpoints p hp).2.2
        simp only [within, List.contains_cons]
        by_cases ha : p.a = r <;> by_cases hb : p.b = r
        · exact absurd (ha.trans hb.symm) hne
        · simp [ha, hb, hrS]
        · simp [ha, hb, hrS]
        · have ha' : (p.a == r) = false := by simp [ha]
          have hb' : (p.b == r) = false := by simp [hb]
          simp [ha', hb']
      · intro p _ ⟨hw, hl⟩
        simp only [within, Bool.and_eq_true, List.contains_eq_mem, decide_eq_true_eq] at hw
        simp only [Bool.or_eq_true, Bool.and_eq_true, beq_iff_eq, List.contains_eq_mem, decide_eq_true_eq] at hl
        rcases hl with hl | hl
        · exact hrS (hl.1 ▸ hw.1)
        · exact hrS (hl.1 ▸ hw.2)
    exact ((List.Perm.append_left _ inv.preds).trans List.perm_append_comm).trans hsplit.symm

theorem nextRel_some {g : Graph} (conn : Connected g) {S : List Nat} {t : Tree}
    (inv : Inv g S t) (hu : uncovered g S ≠ []) : ∃ r, nextRel g S = some r := by
  -- some relation y is not yet joined, some x is
  obtain ⟨y, hy⟩ := List.exists_mem_of_ne_nil _ hu
  simp only [uncovered, List.mem_filter, Bool.not_eq_true', List.contains_eq_mem, decide_eq_false_iff_not] at hy
  obtain ⟨x, hx⟩ := List.exists_mem_of_ne_nil _ inv.ne
  obtain ⟨u, v, huS, hvS, hvR, p, hp, hl⟩ := (conn x (inv.sub x hx) y hy.1).exit hx hy.2
  have : (g.rels.find? (fun r => !S.contains r && !(linking g S r).isEmpty)).isSome = true := by
    refine List.find?_isSome.mpr ⟨v, hvR, ?_⟩
    have hmem : p ∈ linking g S v := by
      refine mem_linking.mpr ⟨hp, ?_⟩
      rcases hl with h | h
      · exact Or.inr ⟨h.2, h.1 ▸ huS⟩
      · exact Or.inl ⟨h.1, h.2 ▸ huS⟩
    have hne : (linking g S v).isEmpty = false := by
      cases hl' : linking g S v with
      | nil => simp [hl'] at hmem
      | cons _ _ => rfl
    simp [hvS, hne]
  exact Option.isSome_iff_exists.mp this

theorem uncovered_step_lt {g : Graph} {S : List Nat} {r : Nat} (hr : r ∈ g.rels) (hrS : r ∉ S) :
    (uncovered g (r :: S)).length < (uncovered g S).length := by
  apply length_filter_lt
  · intro x _ hx
    simp only [Bool.not_eq_true', List.contains_cons, Bool.or_eq_false_iff] at hx
    simpa using hx.2
  · exact ⟨r, hr, by simp [hrS], by simp⟩

theorem greedyFrom_complete {g : Graph} (wf : WellFormed g) (conn : Connected g) :
    ∀ (fuel : Nat) (S : List Nat) (t : Tree), Inv g S t → (uncovered g S).length ≤ fuel →
      ∃ t' S', greedyFrom g fuel S t = some t' ∧ Inv g S' t' ∧ uncovered g S' = [] := by
  intro fuel
  induction fuel with
  | zero =>
    intro S t inv hle
    have hnil : uncovered g S = [] := List.eq_nil_of_length_eq_zero (Nat.le_zero.mp hle)
    exact ⟨t, S, by simp [greedyFrom, hnil], inv, hnil⟩
  | succ fuel ih =>
    intro S t inv hle
    by_cases hnil : uncovered g S = []
    · exact ⟨t, S, by simp [greedyFrom, hnil], inv, hnil⟩
    · obtain ⟨r, hr⟩ := nextRel_some conn inv hnil
      obtain ⟨hrR, hrS, _⟩ := nextRel_spec hr
      have hlt := uncovered_step_lt (g := g) hrR hrS
      obtain ⟨t', S', hg, hinv, hdone⟩ := ih (r :: S) _ (inv_step wf inv hr) (by omega)
      refine ⟨t', S', ?_, hinv, hdone⟩
      have hne : (uncovered g S).isEmpty = false := by
        cases h : uncovered g S with
        | nil => exact absurd h hnil
        | cons _ _ => rfl
      simp [greedyFrom, hne, hr, hg]

theorem inv_done_valid {g : Graph} (wf : WellFormed g) {S : List Nat} {t : Tree}
    (inv : Inv g S t) (hdone : uncovered g S = []) : validReorder g t = true := by
  have hall : ∀ r ∈ g.rels, r ∈ S := by
    intro r hr
    have := (List.filter_eq_nil_iff.mp hdone) r hr
    simpa using this
  refine (validReorder_iff g t).mpr ⟨?_, inv.cf, ?_⟩
  · exact inv.leaves.trans ((List.perm_ext_iff_of_nodup inv.nodup wf.nodup).mpr
      (fun a => ⟨inv.sub a, hall a⟩))
  · have hfil : g.preds.filter (within S) = g.preds := by
      refine List.filter_eq_self.mpr (fun p hp => ?_)
      have := wf.endpoints p hp
      simp [within, hall _ this.1, hall _ this.2.1]
    exact (hfil ▸ inv.preds).map Pred.norm

/-- on a connected graph the greedy order succeeds and its tree passes the checker -/
theorem greedyTree_valid {g : Graph} (wf : WellFormed g) (conn : Connected g) :
    ∃ t, greedyTree g = some t ∧ validReorder g t = true := by
  cases hrels : g.rels with
  | nil => exact absurd hrels wf.nonempty
  | cons r0 rest =>
    have hr0 : r0 ∈ g.rels := by simp [hrels]
    have inv0 : Inv g [r0] (.leaf r0) := by
      refine ⟨?_, by simp, by simp, by simp [Tree.leaves], CrossFree.leaf r0, ?_⟩
      · intro x hx; simp at hx; exact hx ▸ hr0
      · simp only [Tree.preds]
        have : g.preds.filter (within [r0]) = [] := by
          refine List.filter_eq_nil_iff.mpr (fun p hp => ?_)
          have hne := (wf.endpoints p hp).2.2
          simp only [within, Bool.and_eq_true, List.contains_eq_mem, decide_eq_true_eq, List.mem_singleton]
          intro ⟨ha, hb⟩
          exact hne (ha.trans hb.symm)
        rw [this]
    have hfuel : (uncovered g [r0]).length ≤ g.rels.length := by
      simp only [uncovered]; exact List.length_filter_le _ _
    obtain ⟨t', S', hg, hinv, hdone⟩ := greedyFrom_complete wf conn g.rels.length [r0] (.leaf r0) inv0 hfuel
    refine ⟨t', ?_, inv_done_valid wf hinv hdone⟩
    simp only [greedyTree, hrels]
    rw [← hrels]; exact hg

end IQE.Engine.JoinGraph
