/-
  IQE.Lemmas.JoinDecomp — join decomposition (DESIGN §4.5).
  * `nlJoin`: the pure nested-loop join over a Boolean match predicate, and the bridge
    `joinRows_eq_nlJoin`: `Spec.joinRows` IS `nlJoin` whenever the ON expression evaluates without error.
  * outer joins = matched pairs ⊎ each unmatched row exactly once (`left_decomp`, `right_decomp`, `full_decomp`);
  * probe-side batching is invisible (`nlJoin_left_batches`); `Perm`-congruence in both inputs;
  * build-side choice is invisible (`inner_swap`, `right_eq_swapped_left`);
  * any key-respecting partition decomposes the join (`inner_partition`, `semi/anti/left_partition`).
  Core `List.Perm` only.
-/
import IQE.Lemmas.Bag
namespace IQE.Join
open List IQE.Spec IQE.Bag

/-- left rows having at least one match -/
def hasMatch (m : Row → Row → Bool) (rs : Table) (l : Row) : Bool := rs.any (m l)

/-- pure nested-loop join over a match predicate `m l r` (the meaning of `ON` on the pair) -/
def nlJoin (jt : JoinType) (lw rw : Nat) (m : Row → Row → Bool) (ls rs : Table) : Table :=
  match jt with
  | .cross => ls.flatMap fun l => rs.map fun r => l ++ r
  | .inner => ls.flatMap fun l => (rs.filter (m l)).map fun r => l ++ r
  | .left => ls.flatMap fun l =>
      if (rs.filter (m l)).isEmpty then [l ++ nulls rw] else (rs.filter (m l)).map fun r => l ++ r
  | .semi => ls.filter fun l => hasMatch m rs l
  | .anti => ls.filter fun l => !hasMatch m rs l
  | .right => rs.flatMap fun r =>
      if (ls.filter (m · r)).isEmpty then [nulls lw ++ r] else (ls.filter (m · r)).map fun l => l ++ r
  | .full =>
      (ls.flatMap fun l =>
        if (rs.filter (m l)).isEmpty then [l ++ nulls rw] else (rs.filter (m l)).map fun r => l ++ r)
      ++ (rs.filter fun r => (ls.filter (m · r)).isEmpty).map fun r => nulls lw ++ r

theorem filter_isEmpty_eq_not_any {α} (p : α → Bool) (l : List α) : (l.filter p).isEmpty = !l.any p := by
  induction l with
  | nil => rfl
  | cons a l ih => by_cases h : p a <;> simp [h, ih]

/-! ### bridge to `Spec.joinRows` -/

private theorem matchesOf_ok (cx : EvalCtx) (env : Env) (on : Expr) (m : Row → Row → Bool) (l : Row) (rs : Table)
    (h : ∀ r ∈ rs, onTrue cx env on (l ++ r) = .ok (m l r)) :
    matchesOf cx env on l rs = .ok (rs.filter (m l)) := by
  unfold matchesOf
  rw [filterMapM_ok _ (fun r => if m l r then some r else none) rs]
  · congr 1
    induction rs with
    | nil => rfl
    | cons r rs ih =>
      by_cases hm : m l r <;> simp [hm, ih (fun r' hr' => h r' (by simp [hr']))]
  · intro r hr
    simp only [h r hr]
    by_cases hm : m l r <;> simp [hm] <;> rfl

private theorem matchesL_ok (cx : EvalCtx) (env : Env) (on : Expr) (m : Row → Row → Bool) (r : Row) (ls : Table)
    (h : ∀ l ∈ ls, onTrue cx env on (l ++ r) = .ok (m l r)) :
    ls.filterMapM (fun l => do if ← onTrue cx env on (l ++ r) then pure (some l) else pure none)
      = (.ok (ls.filter (m · r)) : Except Err Table) := by
  rw [filterMapM_ok _ (fun l => if m l r then some l else none) ls]
  · congr 1
    induction ls with
    | nil => rfl
    | cons l ls ih =>
      by_cases hm : m l r <;> simp [hm, ih (fun l' hl' => h l' (by simp [hl']))]
  · intro l hl
    simp only [h l hl]
    by_cases hm : m l r <;> simp [hm] <;> rfl

private theorem bind_ok {α β : Type} (a : α) (f : α → Except Err β) : ((Except.ok a : Except Err α) >>= f) = f a := rfl

/-- **`Spec.joinRows` is the pure nested-loop join** whenever ON evaluates to a truth value on every pair. -/
theorem joinRows_eq_nlJoin (cx : EvalCtx) (env : Env) (jt : JoinType) (lw rw : Nat) (on : Expr)
    (m : Row → Row → Bool) (ls rs : Table)
    (h : ∀ l ∈ ls, ∀ r ∈ rs, onTrue cx env on (l ++ r) = .ok (m l r)) :
    joinRows cx env jt lw rw on ls rs = .ok (nlJoin jt lw rw m ls rs) := by
  have hL : ∀ l ∈ ls, matchesOf cx env on l rs = .ok (rs.filter (m l)) :=
    fun l hl => matchesOf_ok cx env on m l rs (h l hl)
  have hR : ∀ r ∈ rs, ls.filterMapM (fun l => do if ← onTrue cx env on (l ++ r) then pure (some l) else pure none)
      = (.ok (ls.filter (m · r)) : Except Err Table) :=
    fun r hr => matchesL_ok cx env on m r ls (fun l hl => h l hl r hr)
  cases jt
  case cross => rfl
  case inner =>
    simp only [joinRows, nlJoin]
    rw [mapM_ok _ (fun l => (rs.filter (m l)).map fun r => l ++ r) ls (fun l hl => by rw [hL l hl]; rfl)]
    simp [bind_ok, flatMap_def, pure, Except.pure]
  case left =>
    simp only [joinRows, nlJoin]
    rw [mapM_ok _ (fun l => if (rs.filter (m l)).isEmpty then [l ++ nulls rw] else (rs.filter (m l)).map fun r => l ++ r)
      ls (fun l hl => by rw [hL l hl]; rfl)]
    simp [bind_ok, flatMap_def, pure, Except.pure]
  case semi =>
    simp only [joinRows, nlJoin]
    rw [filterMapM_ok _ (fun l => if (rs.filter (m l)).isEmpty = true then none else some (id l)) ls
      (fun l hl => by rw [hL l hl]; rfl)]
    rw [filterMap_ite_none (fun l => (rs.filter (m l)).isEmpty) id ls, map_id]
    congr 1
    apply filter_congr; intro l _
    rw [filter_isEmpty_eq_not_any]; simp [hasMatch]
  case anti =>
    simp only [joinRows, nlJoin]
    rw [filterMapM_ok _ (fun l => if (rs.filter (m l)).isEmpty = true then some (id l) else none) ls
      (fun l hl => by rw [hL l hl]; rfl)]
    rw [filterMap_ite_some (fun l => (rs.filter (m l)).isEmpty) id ls, map_id]
    congr 1
    apply filter_congr; intro l _
    rw [filter_isEmpty_eq_not_any]; simp [hasMatch]
  case right =>
    simp only [joinRows, nlJoin]
    rw [mapM_ok _ (fun r => if (ls.filter (m · r)).isEmpty then [nulls lw ++ r] else (ls.filter (m · r)).map fun l => l ++ r)
      rs (fun r hr => by rw [hR r hr]; rfl)]
    simp [bind_ok, flatMap_def, pure, Except.pure]
  case full =>
    simp only [joinRows, nlJoin]
    rw [mapM_ok _ (fun l => if (rs.filter (m l)).isEmpty then [l ++ nulls rw] else (rs.filter (m l)).map fun r => l ++ r)
      ls (fun l hl => by rw [hL l hl]; rfl)]
    rw [bind_ok]
    rw [filterMapM_ok _ (fun r => if (ls.filter (m · r)).isEmpty then some (nulls lw ++ r) else none) rs
      (fun r hr => by rw [hR r hr]; rfl)]
    rw [filterMap_ite_some (fun r => (ls.filter (m · r)).isEmpty) (fun r => nulls lw ++ r) rs]
    simp only [bind_ok, pure, Except.pure, flatMap_def]

/-! ### outer joins = matches ⊎ every unmatched row exactly once -/

/-- the NULL-extended unmatched left rows -/
def leftUnmatched (rw : Nat) (m : Row → Row → Bool) (ls rs : Table) : Table :=
  (ls.filter fun l => !hasMatch m rs l).map fun l => l ++ nulls rw

/-- the NULL-extended unmatched right rows -/
def rightUnmatched (lw : Nat) (m : Row → Row → Bool) (ls rs : Table) : Table :=
  (rs.filter fun r => !ls.any (m · r)).map fun r => nulls lw ++ r

theorem left_decomp (lw rw : Nat) (m : Row → Row → Bool) (ls rs : Table) :
    nlJoin .left lw rw m ls rs ~ nlJoin .inner lw rw m ls rs ++ leftUnmatched rw m ls rs := by
  simp only [nlJoin, leftUnmatched]
  have e : ∀ l : Row, (if (rs.filter (m l)).isEmpty then [l ++ nulls rw] else (rs.filter (m l)).map fun r => l ++ r)
      = ((rs.filter (m l)).map fun r => l ++ r) ++ (if hasMatch m rs l then [] else [l ++ nulls rw]) := by
    intro l
    by_cases he : (rs.filter (m l)).isEmpty
    · have : rs.filter (m l) = [] := by simpa using he
      have hm : hasMatch m rs l = false := by
        simp only [hasMatch]; rw [filter_isEmpty_eq_not_any] at he; simpa using he
      simp [this, hm]
    · have hm : hasMatch m rs l = true := by
        simp only [hasMatch]; rw [filter_isEmpty_eq_not_any] at he; simpa using he
      simp [he, hm]
  simp only [e]
  refine (flatMap_append_body ls _ _).trans ((Perm.refl _).append ?_)
  exact Perm.of_eq (flatMap_ite_nil (hasMatch m rs) (fun l => l ++ nulls rw) ls)

theorem right_decomp (lw rw : Nat) (m : Row → Row → Bool) (ls rs : Table) :
    nlJoin .right lw rw m ls rs ~ nlJoin .inner lw rw m ls rs ++ rightUnmatched lw m ls rs := by
  simp only [nlJoin, rightUnmatched]
  have e : ∀ r : Row, (if (ls.filter (m · r)).isEmpty then [nulls lw ++ r] else (ls.filter (m · r)).map fun l => l ++ r)
      = ((ls.filter (m · r)).map fun l => l ++ r) ++ (if ls.any (m · r) then [] else [nulls lw ++ r]) := by
    intro r
    by_cases he : (ls.filter (m · r)).isEmpty
    · have : ls.filter (m · r) = [] := by simpa using he
      have hm : ls.any (m · r) = false := by
        rw [filter_isEmpty_eq_not_any] at he; simpa using he
      simp [this, hm]
    · have hm : ls.any (m · r) = true := by
        rw [filter_isEmpty_eq_not_any] at he; simpa using he
      simp [he, hm]
  simp only [e]
  refine (flatMap_append_body rs _ _).trans (Perm.append ?_ ?_)
  · -- loops commute
    have e1 : ∀ r : Row, (ls.filter (m · r)).map (fun l => l ++ r) =
        ls.flatMap (fun l => if m l r = true then [l ++ r] else []) :=
      fun r => (flatMap_ite_singleton (m · r) (fun l => l ++ r) ls).symm
    have e2 : ∀ l : Row, (rs.filter (m l)).map (fun r => l ++ r) =
        rs.flatMap (fun r => if m l r = true then [l ++ r] else []) :=
      fun l => (flatMap_ite_singleton (m l) (fun r => l ++ r) rs).symm
    simp only [e1, e2]
    exact flatMap_comm rs ls fun r l => if m l r = true then [l ++ r] else []
  · exact Perm.of_eq (flatMap_ite_nil (fun r => ls.any (m · r)) (fun r => nulls lw ++ r) rs)

theorem full_decomp (lw rw : Nat) (m : Row → Row → Bool) (ls rs : Table) :
    nlJoin .full lw rw m ls rs ~
      nlJoin .inner lw rw m ls rs ++ leftUnmatched rw m ls rs ++ rightUnmatched lw m ls rs := by
  have hl := left_decomp lw rw m ls rs
  simp only [nlJoin] at hl ⊢
  refine Perm.append hl (Perm.of_eq ?_)
  simp only [rightUnmatched]
  congr 1
  apply filter_congr
  intro r _
  rw [filter_isEmpty_eq_not_any]

/-- semi ⊎ anti = the left input: every left row is classified exactly once -/
theorem semi_anti_split (lw rw : Nat) (m : Row → Row → Bool) (ls rs : Table) :
    nlJoin .semi lw rw m ls rs ++ nlJoin .anti lw rw m ls rs ~ ls :=
  filter_split _ ls

/-- the number of output rows of a left join carrying a given left row `l` NULL-extended is its
    multiplicity when unmatched and 0 when matched — "each unmatched row exactly once" -/
theorem leftUnmatched_count (rw : Nat) (m : Row → Row → Bool) (ls rs : Table) (l : Row) :
    ((ls.filter fun l' => !hasMatch m rs l').count l) = if hasMatch m rs l then 0 else ls.count l := by
  induction ls with
  | nil => simp
  | cons x xs ih =>
    by_cases hx : x = l
    · subst hx
      cases h : hasMatch m rs x <;> simp [h, ih]
    · cases h : hasMatch m rs x <;> simp [h, ih, hx, count_cons]

/-! ### batching and congruence -/

/-- a left-driven join type: the output is produced left row by left row -/
def leftDriven : JoinType → Bool
  | .inner | .left | .semi | .anti | .cross => true
  | _ => false

/-- **probe-side batching is invisible** (exactly, not just up to `Perm`) for the left-driven types -/
theorem nlJoin_left_batches (jt : JoinType) (hjt : leftDriven jt = true) (lw rw : Nat) (m : Row → Row → Bool)
    (chunks : List Table) (rs : Table) :
    nlJoin jt lw rw m chunks.flatten rs = (chunks.map fun c => nlJoin jt lw rw m c rs).flatten := by
  cases jt <;> simp only [leftDriven] at hjt <;> try contradiction
  all_goals simp only [nlJoin]
  · exact (flatMap_flatten _ chunks).symm
  · exact (flatMap_flatten _ chunks).symm
  · exact (filter_flatten _ chunks).symm
  · exact (filter_flatten _ chunks).symm
  · exact (flatMap_flatten _ chunks).symm

theorem hasMatch_perm (m : Row → Row → Bool) {r₁ r₂ : Table} (h : r₁ ~ r₂) (l : Row) :
    hasMatch m r₁ l = hasMatch m r₂ l := h.any_eq

theorem nlJoin_perm_left (jt : JoinType) (lw rw : Nat) (m : Row → Row → Bool) {l₁ l₂ : Table} (h : l₁ ~ l₂)
    (rs : Table) : nlJoin jt lw rw m l₁ rs ~ nlJoin jt lw rw m l₂ rs := by
  cases jt
  case inner => exact h.flatMap_right _
  case left => exact h.flatMap_right _
  case cross => exact h.flatMap_right _
  case semi => exact h.filter _
  case anti => exact h.filter _
  case right =>
    simp only [nlJoin]
    apply flatMap_perm_pointwise
    intro r _
    have hf : l₁.filter (m · r) ~ l₂.filter (m · r) := h.filter _
    have he : (l₁.filter (m · r)).isEmpty = (l₂.filter (m · r)).isEmpty := by
      rw [filter_isEmpty_eq_not_any, filter_isEmpty_eq_not_any, h.any_eq]
    rw [he]
    split
    · exact .refl _
    · exact hf.map _
  case full =>
    simp only [nlJoin]
    refine Perm.append (h.flatMap_right _) (Perm.of_eq ?_)
    congr 1
    apply filter_congr
    intro r _
    rw [filter_isEmpty_eq_not_any, filter_isEmpty_eq_not_any, h.any_eq]

theorem nlJoin_perm_right (jt : JoinType) (lw rw : Nat) (m : Row → Row → Bool) (ls : Table) {r₁ r₂ : Table}
    (h : r₁ ~ r₂) : nlJoin jt lw rw m ls r₁ ~ nlJoin jt lw rw m ls r₂ := by
  have body : ∀ l : Row,
      (if (r₁.filter (m l)).isEmpty then [l ++ nulls rw] else (r₁.filter (m l)).map fun r => l ++ r) ~
      (if (r₂.filter (m l)).isEmpty then [l ++ nulls rw] else (r₂.filter (m l)).map fun r => l ++ r) := by
    intro l
    have he : (r₁.filter (m l)).isEmpty = (r₂.filter (m l)).isEmpty := by
      rw [filter_isEmpty_eq_not_any, filter_isEmpty_eq_not_any, h.any_eq]
    rw [he]
    split
    · exact .refl _
    · exact (h.filter _).map _
  cases jt
  case inner => exact flatMap_perm_pointwise fun l _ => (h.filter _).map _
  case cross => exact flatMap_perm_pointwise fun l _ => h.map _
  case left => exact flatMap_perm_pointwise fun l _ => body l
  case semi =>
    simp only [nlJoin]; apply Perm.of_eq; apply filter_congr; intro l _; rw [hasMatch_perm m h]
  case anti =>
    simp only [nlJoin]; apply Perm.of_eq; apply filter_congr; intro l _; rw [hasMatch_perm m h]
  case right => exact h.flatMap_right _
  case full =>
    simp only [nlJoin]
    exact Perm.append (flatMap_perm_pointwise fun l _ => body l) ((h.filter _).map _)

theorem nlJoin_perm (jt : JoinType) (lw rw : Nat) (m : Row → Row → Bool) {l₁ l₂ r₁ r₂ : Table}
    (hl : l₁ ~ l₂) (hr : r₁ ~ r₂) : nlJoin jt lw rw m l₁ r₁ ~ nlJoin jt lw rw m l₂ r₂ :=
  (nlJoin_perm_left jt lw rw m hl r₁).trans (nlJoin_perm_right jt lw rw m l₂ hr)

/-! ### build-side choice -/

/-- swap the column blocks of a joined row whose first block has width `w` -/
def swapCols (w : Nat) (row : Row) : Row := row.drop w ++ row.take w

theorem swapCols_append (a b : Row) : swapCols a.length (a ++ b) = b ++ a := by
  simp [swapCols]

/-- the bag of matched pairs does not depend on which side drives the loop -/
theorem inner_swap (lw rw : Nat) (m : Row → Row → Bool) (ls rs : Table)
    (hr : ∀ r ∈ rs, r.length = rw) :
    nlJoin .inner lw rw m ls rs ~ (nlJoin .inner rw lw (fun r l => m l r) rs ls).map (swapCols rw) := by
  have h1 : nlJoin .inner lw rw m ls rs = (pairs m ls rs).map fun p => p.1 ++ p.2 := by
    simp [nlJoin, pairs, map_flatMap, Function.comp_def]
  have h2 : (nlJoin .inner rw lw (fun r l => m l r) rs ls).map (swapCols rw) =
      ((pairs (fun r l => m l r) rs ls).map fun p => (p.2, p.1)).map fun p => p.1 ++ p.2 := by
    simp only [nlJoin, pairs, map_flatMap, map_map, Function.comp_def]
    apply flatMap_congr'
    intro r hr'
    apply map_congr_left
    intro l _
    rw [← hr r hr', swapCols_append]
  rw [h1, h2]
  exact (pairs_swap m ls rs).map _

/-- RIGHT JOIN is LEFT JOIN with the sides exchanged and the column blocks swapped back -/
theorem right_eq_swapped_left (lw rw : Nat) (m : Row → Row → Bool) (ls rs : Table)
    (hr : ∀ r ∈ rs, r.length = rw) :
    nlJoin .right lw rw m ls rs = (nlJoin .left rw lw (fun r l => m l r) rs ls).map (swapCols rw) := by
  simp only [nlJoin, map_flatMap]
  apply flatMap_congr'
  intro r hr'
  split
  · simp only [map_cons, map_nil]
    rw [← hr r hr', swapCols_append]
  · simp only [map_map, Function.comp_def]
    apply map_congr_left
    intro l _
    rw [← hr r hr', swapCols_append]

/-! ### key-respecting partitions -/

section partition
variable {κ : Type} [DecidableEq κ]

/-- matching rows always fall into the same part -/
def Respects (m : Row → Row → Bool) (pl pr : Row → κ) : Prop := ∀ l r, m l r = true → pl l = pr r

theorem filter_match_part (m : Row → Row → Bool) (pl pr : Row → κ) (h : Respects m pl pr) (l : Row) (rs : Table) :
    (rs.filter fun r => pr r = pl l).filter (m l) = rs.filter (m l) := by
  rw [filter_filter]
  apply filter_congr
  intro r _
  by_cases hm : m l r
  · simp [hm, (h l r hm).symm]
  · simp [hm]

theorem hasMatch_part (m : Row → Row → Bool) (pl pr : Row → κ) (h : Respects m pl pr) (l : Row) (rs : Table) :
    hasMatch m (rs.filter fun r => pr r = pl l) l = hasMatch m rs l := by
  have := filter_match_part m pl pr h l rs
  have e1 := filter_isEmpty_eq_not_any (m l) (rs.filter fun r => pr r = pl l)
  have e2 := filter_isEmpty_eq_not_any (m l) rs
  rw [this] at e1
  simp only [hasMatch]
  cases h1 : (rs.filter fun r => pr r = pl l).any (m l) <;> cases h2 : rs.any (m l) <;> simp_all

/-- **join decomposition**: for the left-driven join types the join is the disjoint union of the
    per-part joins, for any partition function that the match predicate respects. -/
theorem nlJoin_partition (jt : JoinType) (hjt : leftDriven jt = true) (hnc : jt ≠ .cross) (lw rw : Nat)
    (m : Row → Row → Bool) (pl pr : Row → κ) (h : Respects m pl pr) (ks : List κ) (hnd : ks.Nodup)
    (ls rs : Table) (hcov : ∀ l ∈ ls, pl l ∈ ks) :
    ks.flatMap (fun k => nlJoin jt lw rw m (ls.filter fun l => pl l = k) (rs.filter fun r => pr r = k))
      ~ nlJoin jt lw rw m ls rs := by
  -- each per-part join equals the whole-right join restricted to the left part
  have part : ∀ k, nlJoin jt lw rw m (ls.filter fun l => pl l = k) (rs.filter fun r => pr r = k)
      = nlJoin jt lw rw m (ls.filter fun l => pl l = k) rs := by
    intro k
    cases jt <;> simp only [leftDriven] at hjt <;> try contradiction
    · simp only [nlJoin]; apply flatMap_congr'; intro l hl
      have hk : pl l = k := by simpa using (mem_filter.mp hl).2
      rw [← hk, filter_match_part m pl pr h]
    · simp only [nlJoin]; apply flatMap_congr'; intro l hl
      have hk : pl l = k := by simpa using (mem_filter.mp hl).2
      rw [← hk, filter_match_part m pl pr h]
    · simp only [nlJoin]; apply filter_congr; intro l hl
      have hk : pl l = k := by simpa using (mem_filter.mp hl).2
      rw [← hk, hasMatch_part m pl pr h]
    · simp only [nlJoin]; apply filter_congr; intro l hl
      have hk : pl l = k := by simpa using (mem_filter.mp hl).2
      rw [← hk, hasMatch_part m pl pr h]
  simp only [part]
  -- then it is batching of the left side by the partition
  have hp := partition_perm pl ks hnd ls hcov
  have hb := nlJoin_left_batches jt hjt lw rw m (ks.map fun k => ls.filter fun l => pl l = k) rs
  rw [map_map] at hb
  have : ks.flatMap (fun k => nlJoin jt lw rw m (ls.filter fun l => pl l = k) rs) =
      nlJoin jt lw rw m (ks.map fun k => ls.filter fun l => pl l = k).flatten rs := by
    rw [hb, flatMap_def]; rfl
  rw [this]
  apply nlJoin_perm_left
  rw [← flatMap_def]
  exact hp

end partition

/-! ### runtime key filters -/

/-- dropping left (probe) rows that have no match at all does not change an inner or semi join -/
theorem prefilter_sound (jt : JoinType) (hjt : jt = .inner ∨ jt = .semi) (lw rw : Nat) (m : Row → Row → Bool)
    (keep : Row → Bool) (ls rs : Table) (hkeep : ∀ l ∈ ls, hasMatch m rs l = true → keep l = true) :
    nlJoin jt lw rw m (ls.filter keep) rs = nlJoin jt lw rw m ls rs := by
  rcases hjt with rfl | rfl
  · simp only [nlJoin]
    induction ls with
    | nil => rfl
    | cons l ls ih =>
      have ih' := ih (fun l' hl' => hkeep l' (by simp [hl']))
      by_cases hk : keep l
      · simp [hk, ih']
      · have hm : hasMatch m rs l = false := by
          cases hh : hasMatch m rs l
          · rfl
          · exact absurd (hkeep l (by simp) hh) hk
        have : rs.filter (m l) = [] := by
          have := filter_isEmpty_eq_not_any (m l) rs
          simp only [hasMatch] at hm
          rw [hm] at this; simpa using this
        simp [hk, ih', this]
  · simp only [nlJoin, filter_filter]
    apply filter_congr
    intro l hl
    cases hm : hasMatch m rs l
    · simp
    · simp [hkeep l hl hm]

end IQE.Join
