/-
  IQE.Lemmas.OptDriver — the optimizer fix-point driver performs a bounded number of rule applications,
  and the fuelled driver with that much fuel computes the same result.
-/
import IQE.Engine.OptDriver
namespace IQE.Engine.OptDriver

variable {P E : Type}

theorem pass_apps (same : P → P → Bool) (rs : List (Rule P E)) (p : P) (ch : Bool) :
    (pass same rs p ch).2 ≤ rs.length := by
  induction rs generalizing p ch with
  | nil => simp [pass]
  | cons r rs ih =>
    simp only [pass]
    split
    · simp
    · split <;> simp [ih]

theorem iterate_apps (same : P → P → Bool) (rs : List (Rule P E)) (n : Nat) (p : P) :
    (iterate same rs n p).2 ≤ n * rs.length := by
  induction n generalizing p with
  | zero => simp [iterate]
  | succ n ih =>
    simp only [iterate]
    have hp := pass_apps same rs p false
    split
    · rename_i e k heq
      rw [heq] at hp; simp at hp
      simp; rw [Nat.add_mul]; omega
    · rename_i p' ch k heq
      rw [heq] at hp; simp at hp
      split
      · have := ih p'
        simp; rw [Nat.add_mul]; omega
      · simp; rw [Nat.add_mul]; omega

theorem finals_apps (rs : List (Rule P E)) (p : P) : (finals rs p).2 ≤ rs.length := by
  induction rs generalizing p with
  | nil => simp [finals]
  | cons r rs ih =>
    simp only [finals]
    split
    · simp
    · simp [ih]

theorem optimize_apps (same : P → P → Bool) (maxIter : Nat) (rules : List (Rule P E)) (p : P) :
    (optimize same maxIter rules p).apps ≤ bound maxIter rules := by
  unfold optimize bound
  have hi := iterate_apps same (loopRules rules) maxIter p
  split
  · rename_i e k heq
    rw [heq] at hi; simp at hi; simp; omega
  · rename_i p' k heq
    rw [heq] at hi; simp at hi
    have hf := finals_apps (finalRules rules) p'
    simp; omega

theorem passF_eq (same : P → P → Bool) (rs : List (Rule P E)) (p : P) (ch : Bool) (f : Nat)
    (h : (pass same rs p ch).2 ≤ f) :
    passF same rs p ch f = some ((pass same rs p ch).1, f - (pass same rs p ch).2) := by
  induction rs generalizing p ch f with
  | nil => simp [pass, passF]
  | cons r rs ih =>
    cases f with
    | zero =>
      exfalso
      simp only [pass] at h
      split at h <;> simp at h
    | succ f =>
      simp only [pass, passF] at h ⊢
      cases hr : r.apply p with
      | error e => simp
      | ok p' =>
        simp only [hr] at h ⊢
        by_cases hs : same p' p = true
        · simp only [hs, if_true] at h ⊢
          have := ih p ch f (by simpa using h)
          rw [this]; simp
        · simp only [hs] at h ⊢
          have := ih p' true f (by simpa using h)
          simp at this ⊢
          rw [this]

theorem finalsF_eq (rs : List (Rule P E)) (p : P) (f : Nat) (h : (finals rs p).2 ≤ f) :
    finalsF rs p f = some ((finals rs p).1, f - (finals rs p).2) := by
  induction rs generalizing p f with
  | nil => simp [finals, finalsF]
  | cons r rs ih =>
    cases f with
    | zero =>
      exfalso
      simp only [finals] at h
      split at h <;> simp at h
    | succ f =>
      simp only [finals, finalsF] at h ⊢
      cases hr : r.apply p with
      | error e => simp
      | ok p' =>
        simp only [hr] at h ⊢
        have := ih p' f (by simpa using h)
        rw [this]; simp

theorem iterateF_eq (same : P → P → Bool) (rs : List (Rule P E)) (n : Nat) (p : P) (f : Nat)
    (h : (iterate same rs n p).2 ≤ f) :
    iterateF same rs n p f = some ((iterate same rs n p).1, f - (iterate same rs n p).2) := by
  induction n generalizing p f with
  | zero => simp [iterate, iterateF]
  | succ n ih =>
    simp only [iterate, iterateF] at h ⊢
    cases hp : pass same rs p false with
    | mk res k =>
      simp only [hp] at h ⊢
      cases res with
      | error e =>
        simp at h
        have := passF_eq same rs p false f (by rw [hp]; exact h)
        rw [this, hp]
      | ok pc =>
        obtain ⟨p', ch⟩ := pc
        cases ch with
        | true =>
          simp at h
          have hk : k ≤ f := by omega
          have := passF_eq same rs p false f (by rw [hp]; exact hk)
          rw [this, hp]
          simp
          have := ih p' (f - k) (by omega)
          rw [this]; simp; omega
        | false =>
          simp at h
          have := passF_eq same rs p false f (by rw [hp]; exact h)
          rw [this, hp]
          simp

theorem optimizeFuel_eq (same : P → P → Bool) (maxIter : Nat) (rules : List (Rule P E)) (p : P) (f : Nat)
    (h : (optimize same maxIter rules p).apps ≤ f) :
    optimizeFuel same maxIter rules p f =
      some ((optimize same maxIter rules p).out, f - (optimize same maxIter rules p).apps) := by
  unfold optimize optimizeFuel at *
  cases hi : iterate same (loopRules rules) maxIter p with
  | mk res k =>
    simp only [hi] at h ⊢
    cases res with
    | error e =>
      simp at h
      have := iterateF_eq same (loopRules rules) maxIter p f (by rw [hi]; exact h)
      rw [this, hi]
    | ok p' =>
      simp at h
      have hk : k ≤ f := by omega
      have := iterateF_eq same (loopRules rules) maxIter p f (by rw [hi]; exact hk)
      rw [this, hi]
      simp
      have := finalsF_eq (finalRules rules) p' (f - k) (by omega)
      rw [this]; simp; omega

end IQE.Engine.OptDriver
