/- IQE.Lemmas.FnLev — C36: levenshtein_distance is a metric. -/
import IQE.Spec.Fn.Str
namespace IQE.Spec.Fn

theorem lev_nil_left (t : List Char) : lev [] t = t.length := by rw [lev]
theorem lev_nil_right (s : List Char) : lev s [] = s.length := by cases s <;> simp [lev]
theorem lev_cons (a b : Char) (s t : List Char) :
    lev (a :: s) (b :: t) = min (lev s (b :: t) + 1) (min (lev (a :: s) t + 1) (lev s t + if a = b then 0 else 1)) := by
  rw [lev]

theorem lev_self (s : List Char) : lev s s = 0 := by
  induction s with
  | nil => simp [lev_nil_left]
  | cons a s ih => rw [lev_cons]; simp [ih]

theorem lev_comm (s t : List Char) : lev s t = lev t s := by
  induction s generalizing t with
  | nil => rw [lev_nil_left, lev_nil_right]
  | cons a s ih =>
    induction t with
    | nil => rw [lev_nil_left, lev_nil_right]
    | cons b t iht =>
      rw [lev_cons, lev_cons, ih (b :: t), ih t, iht]
      have : (if a = b then 0 else 1) = (if b = a then (0 : Nat) else 1) := by
        by_cases h : a = b <;> simp [h, eq_comm]
      rw [this]
      omega

theorem lev_le_max (s t : List Char) : lev s t ≤ max s.length t.length := by
  induction s generalizing t with
  | nil => rw [lev_nil_left]; simp
  | cons a s ih =>
    cases t with
    | nil => rw [lev_nil_right]; simp
    | cons b t =>
      rw [lev_cons]
      have := ih t
      simp only [List.length_cons]
      split <;> omega

theorem lev_ge_diff (s t : List Char) : s.length - t.length ≤ lev s t ∧ t.length - s.length ≤ lev s t := by
  induction s generalizing t with
  | nil => rw [lev_nil_left]; simp
  | cons a s ih =>
    induction t with
    | nil => rw [lev_nil_right]; simp
    | cons b t iht =>
      rw [lev_cons]
      have h1 := ih (b :: t)
      have h2 := ih t
      simp only [List.length_cons] at *
      split <;> omega

theorem lev_eq_zero (s t : List Char) (h : lev s t = 0) : s = t := by
  induction s generalizing t with
  | nil => rw [lev_nil_left] at h; exact (List.length_eq_zero_iff.mp h).symm
  | cons a s ih =>
    cases t with
    | nil => rw [lev_nil_right] at h; simp at h
    | cons b t =>
      rw [lev_cons] at h
      by_cases hab : a = b
      · subst hab
        simp only [if_true, Nat.add_zero] at h
        have : lev s t = 0 := by omega
        rw [ih t this]
      · simp only [hab, if_false] at h; omega

theorem lev_triangle (s t u : List Char) : lev s u ≤ lev s t + lev t u := by
  induction s generalizing t u with
  | nil =>
    rw [lev_nil_left, lev_nil_left]
    have := (lev_ge_diff t u).2
    omega
  | cons a s ihs =>
    induction t generalizing u with
    | nil =>
      rw [lev_nil_right, lev_nil_left]
      have := lev_le_max (a :: s) u
      have h2 := (lev_ge_diff (a :: s) u)
      -- lev (a::s) u ≤ |a::s| + |u| by deleting everything and inserting u
      have h3 : lev (a :: s) u ≤ (a :: s).length + u.length := by
        have := lev_le_max (a :: s) u; omega
      exact h3
    | cons b t iht =>
      induction u with
      | nil =>
        rw [lev_nil_right, lev_nil_right]
        have := (lev_ge_diff (a :: s) (b :: t)).1
        omega
      | cons c u ihu =>
        have e1 := lev_cons a c s u
        have e2 := lev_cons a b s t
        have e3 := lev_cons b c t u
        have f1 := ihs (b :: t) (c :: u)
        have f2 := ihs t (c :: u)
        have f3 := ihs t u
        have g1 := iht (c :: u)
        have g2 := iht u
        have k1 := ihu
        have ct : (if a = c then (0 : Nat) else 1) ≤ (if a = b then 0 else 1) + (if b = c then 0 else 1) := by
          by_cases hab : a = b <;> by_cases hbc : b = c <;> by_cases hac : a = c <;> simp [hab, hbc, hac] <;> (subst_vars; contradiction)
        generalize (if a = c then (0 : Nat) else 1) = kac at *
        generalize (if a = b then (0 : Nat) else 1) = kab at *
        generalize (if b = c then (0 : Nat) else 1) = kbc at *
        omega

end IQE.Spec.Fn
