/-
  Lemmas for IQE.Engine.PlanRun: a plan accepted by `wf` never raises column-not-found in the run-time model (C31_wf_runs).
-/
import IQE.Engine.PlanRun
namespace IQE.Engine.PlanWf

/-- the computation does not fail with column-not-found, and a successful result satisfies `P` -/
def Good (P : α → Prop) : Except RErr α → Prop
  | .ok a => P a
  | .error e => e ≠ .cnf

theorem good_pure {P : α → Prop} {a : α} (h : P a) : Good P (pure a : Except RErr α) := h

theorem good_bind {P : α → Prop} {Q : β → Prop} {x : Except RErr α} {f : α → Except RErr β}
    (hx : Good P x) (hf : ∀ a, P a → Good Q (f a)) : Good Q (x >>= f) := by
  cases x with
  | error e => exact hx
  | ok a => exact hf a hx

theorem good_mono {P Q : α → Prop} {x : Except RErr α} (hx : Good P x) (h : ∀ a, P a → Q a) : Good Q x := by
  cases x with
  | error e => exact hx
  | ok a => exact h a hx

theorem good_mapME {Q : β → Prop} (f : α → Except RErr β) (l : List α) (h : ∀ a ∈ l, Good Q (f a)) :
    Good (fun bs => ∀ b ∈ bs, Q b) (mapME f l) := by
  induction l with
  | nil => simp [mapME, Good]
  | cons a as ih =>
    simp only [mapME]
    refine good_bind (h a List.mem_cons_self) (fun b hb => ?_)
    refine good_bind (ih (fun x hx => h x (List.mem_cons_of_mem _ hx))) (fun bs hbs => ?_)
    refine good_pure (fun y hy => ?_)
    rcases List.mem_cons.mp hy with rfl | hy
    · exact hb
    · exact hbs y hy

theorem good_filterME {P : α → Prop} (f : α → Except RErr Bool) (l : List α)
    (h : ∀ a ∈ l, Good (fun _ => True) (f a)) (hp : ∀ a ∈ l, P a) :
    Good (fun bs => ∀ b ∈ bs, P b) (filterME f l) := by
  induction l with
  | nil => simp [filterME, Good]
  | cons a as ih =>
    simp only [filterME]
    refine good_bind (h a List.mem_cons_self) (fun keep _ => ?_)
    refine good_bind (ih (fun x hx => h x (List.mem_cons_of_mem _ hx)) (fun x hx => hp x (List.mem_cons_of_mem _ hx))) (fun rest hrest => ?_)
    refine good_pure (fun y hy => ?_)
    cases keep with
    | false => exact hrest y (by simpa using hy)
    | true =>
      rcases List.mem_cons.mp (by simpa using hy) with rfl | hy
      · exact hp _ List.mem_cons_self
      · exact hrest y hy

/-! ### column resolution -/

theorem findIdx_lt {p : α → Bool} {l : List α} {i : Nat} (h : findIdx p l = some i) : i < l.length := by
  induction l generalizing i with
  | nil => simp [findIdx] at h
  | cons x xs ih =>
    simp only [findIdx] at h
    split at h
    · cases h; simp
    · cases hx : findIdx p xs with
      | none => simp [hx] at h
      | some j =>
        simp [hx] at h
        have := ih hx
        simp only [List.length_cons]; omega

theorem resolve_lt {s : Schema} {rel : Option String} {name : String} {i : Nat}
    (h : resolve s rel name = some i) : i < s.length := by
  unfold resolve at h
  simp only at h
  split at h
  · rename_i j hj
    cases h
    cases rel with
    | none => simp at hj
    | some r => exact findIdx_lt hj
  · split at h
    · rename_i j hj; cases h; exact findIdx_lt hj
    · exact findIdx_lt h

def ScopesOk (sc : List Scope) : Prop := ∀ p ∈ sc, p.2.length = p.1.length

theorem scopesOk_cons {s : Schema} {r : Row} {sc : List Scope} (h : r.length = s.length) (hs : ScopesOk sc) :
    ScopesOk ((s, r) :: sc) := by
  intro p hp
  rcases List.mem_cons.mp hp with rfl | hp
  · exact h
  · exact hs p hp

theorem lookup_good {rel : Option String} {name : String} (sc : List Scope)
    (h : (sc.map (·.1)).any (fun s => (resolve s rel name).isSome) = true) (hs : ScopesOk sc) :
    Good (fun _ => True) (lookup rel name sc) := by
  induction sc with
  | nil => simp at h
  | cons p rest ih =>
    obtain ⟨s, r⟩ := p
    simp only [lookup]
    cases hr : resolve s rel name with
    | some i =>
      have hi := resolve_lt hr
      have hlen : r.length = s.length := hs (s, r) List.mem_cons_self
      have : i < r.length := by omega
      simp [List.getElem?_eq_getElem this, Good]
    | none =>
      simp only [List.map_cons, List.any_cons, hr, Option.isSome_none, Bool.false_or] at h
      exact ih h (fun p hp => hs p (List.mem_cons_of_mem _ hp))

/-! ### pure row-shape lemmas -/

theorem nulls_length (n : Nat) : (nulls n).length = n := by simp [nulls]

def joinWidth (jt : JT) (wl wr : Nat) : Nat :=
  match jt with
  | .semi | .anti => wl
  | .mark => wl + 1
  | _ => wl + wr

theorem emitJoin_len (jt : JT) (wl wr : Nat) (pairs : List (Row × List Row)) (un : List Row)
    (hp : ∀ pr ∈ pairs, pr.1.length = wl ∧ ∀ m ∈ pr.2, m.length = wr) (hu : ∀ r ∈ un, r.length = wr) :
    ∀ row ∈ emitJoin jt wl wr pairs un, row.length = joinWidth jt wl wr := by
  intro row hrow
  have inner : ∀ row ∈ pairs.flatMap (fun (pr : Row × List Row) => pr.2.map (pr.1 ++ ·)), row.length = wl + wr := by
    intro row h
    obtain ⟨pr, hpr, hm⟩ := List.mem_flatMap.mp h
    obtain ⟨m, hmm, rfl⟩ := List.mem_map.mp hm
    simp [(hp pr hpr).1, (hp pr hpr).2 m hmm]
  have leftp : ∀ row ∈ pairs.flatMap (fun (pr : Row × List Row) => if pr.2.isEmpty then [pr.1 ++ nulls wr] else pr.2.map (pr.1 ++ ·)), row.length = wl + wr := by
    intro row h
    obtain ⟨pr, hpr, hm⟩ := List.mem_flatMap.mp h
    split at hm
    · simp at hm; subst hm; simp [(hp pr hpr).1, nulls_length]
    · obtain ⟨m, hmm, rfl⟩ := List.mem_map.mp hm
      simp [(hp pr hpr).1, (hp pr hpr).2 m hmm]
  have unm : ∀ row ∈ un.map (nulls wl ++ ·), row.length = wl + wr := by
    intro row h
    obtain ⟨r, hr, rfl⟩ := List.mem_map.mp h
    simp [nulls_length, hu r hr]
  cases jt <;> simp only [emitJoin, joinWidth] at hrow ⊢
  · exact inner row hrow
  · exact leftp row hrow
  · rcases List.mem_append.mp hrow with h | h
    · exact inner row h
    · exact unm row h
  · rcases List.mem_append.mp hrow with h | h
    · exact leftp row h
    · exact unm row h
  · obtain ⟨pr, hpr, rfl⟩ := List.mem_map.mp hrow
    exact (hp pr (List.mem_filter.mp hpr).1).1
  · obtain ⟨pr, hpr, rfl⟩ := List.mem_map.mp hrow
    exact (hp pr (List.mem_filter.mp hpr).1).1
  · exact inner row hrow
  · obtain ⟨pr, hpr, rfl⟩ := List.mem_map.mp hrow
    cases hms : pr.2 with
    | nil => simp [(hp pr hpr).1, nulls_length]
    | cons m _ => simp [(hp pr hpr).1, (hp pr hpr).2 m (by simp [hms])]
  · obtain ⟨pr, hpr, rfl⟩ := List.mem_map.mp hrow
    simp [(hp pr hpr).1]

theorem groupRows_mem (keyed : List (List RVal × Row)) :
    ∀ kg ∈ groupRows keyed, (∃ r, (kg.1, r) ∈ keyed) ∧ ∀ r ∈ kg.2, ∃ k, (k, r) ∈ keyed := by
  induction keyed with
  | nil => intro kg h; simp [groupRows] at h
  | cons kr rest ih =>
    obtain ⟨k, r⟩ := kr
    intro kg h
    simp only [groupRows] at h
    have lift : ∀ kg' : List RVal × List Row, ((∃ r', (kg'.1, r') ∈ rest) ∧ ∀ r' ∈ kg'.2, ∃ k', (k', r') ∈ rest) →
        ((∃ r', (kg'.1, r') ∈ (k, r) :: rest) ∧ ∀ r' ∈ kg'.2, ∃ k', (k', r') ∈ (k, r) :: rest) := by
      intro kg' ⟨⟨r', h1⟩, h2⟩
      exact ⟨⟨r', List.mem_cons_of_mem _ h1⟩, fun x hx => let ⟨k', hk⟩ := h2 x hx; ⟨k', List.mem_cons_of_mem _ hk⟩⟩
    split at h
    · obtain ⟨g, hg, rfl⟩ := List.mem_map.mp h
      have := lift g (ih g hg)
      split
      · refine ⟨this.1, fun x hx => ?_⟩
        rcases List.mem_cons.mp hx with rfl | hx
        · exact ⟨k, List.mem_cons_self⟩
        · exact this.2 x hx
      · exact this
    · rcases List.mem_cons.mp h with rfl | h
      · exact ⟨⟨r, List.mem_cons_self⟩, fun x hx => by simp at hx; subst hx; exact ⟨k, List.mem_cons_self⟩⟩
      · exact lift kg (ih kg h)

theorem withIdx_mem {a : α} {i : Nat} (n : Nat) (l : List α) (h : (a, i) ∈ withIdx n l) : a ∈ l := by
  induction l generalizing n with
  | nil => simp [withIdx] at h
  | cons x xs ih =>
    simp only [withIdx] at h
    rcases List.mem_cons.mp h with h | h
    · cases h; exact List.mem_cons_self
    · exact List.mem_cons_of_mem _ (ih (n + 1) h)

theorem dedupRows_mem {r : Row} (l : List Row) (h : r ∈ dedupRows l) : r ∈ l := by
  induction l with
  | nil => simp [dedupRows] at h
  | cons x xs ih =>
    simp only [dedupRows] at h
    rcases List.mem_cons.mp h with rfl | h
    · exact List.mem_cons_self
    · exact List.mem_cons_of_mem _ (ih (List.mem_filter.mp h).1)

theorem chunk_len (w : Nat) (_hw : 0 < w) : ∀ (fuel : Nat) (xs : List α), xs.length % w = 0 →
    ∀ c ∈ chunk w fuel xs, c.length = w := by
  intro fuel
  induction fuel with
  | zero => intro xs _ c h; simp [chunk] at h
  | succ fuel ih =>
    intro xs hmod c h
    simp only [chunk] at h
    split at h
    · simp at h
    · rename_i hne
      simp only [Bool.or_eq_true, List.isEmpty_iff, beq_iff_eq, not_or] at hne
      have hpos : 0 < xs.length := List.length_pos_iff.mpr hne.1
      have hge : w ≤ xs.length := Nat.le_of_dvd hpos (Nat.dvd_of_mod_eq_zero hmod)
      rcases List.mem_cons.mp h with rfl | h
      · simp [List.length_take, Nat.min_eq_left hge]
      · refine ih (xs.drop w) ?_ c h
        rw [List.length_drop, ← Nat.mod_eq_sub_mod hge]; exact hmod

theorem filterMap_get_length (l : List α) (idx : List Nat) (h : ∀ i ∈ idx, i < l.length) :
    (idx.filterMap (fun i => l[i]?)).length = idx.length := by
  induction idx with
  | nil => rfl
  | cons i is ih =>
    have hi := h i List.mem_cons_self
    simp [List.getElem?_eq_getElem hi, ih (fun j hj => h j (List.mem_cons_of_mem _ hj))]

theorem good_of_ne {x : Except RErr α} (h : x ≠ .error .cnf) : Good (fun _ => True) x := by
  cases x with
  | ok a => trivial
  | error e => intro he; subst he; exact h rfl

theorem joinWidth_out (jt : JT) (onL onR filter : List PExpr) (s : Schema) (l r : Plan)
    (hm : (match jt with | .mark => decide (1 ≤ s.length) | _ => true) = true) :
    (outSchema (.join jt onL onR filter s l r)).length = joinWidth jt (outSchema l).length (outSchema r).length := by
  cases jt <;> simp [outSchema, joinWidth]
  simp at hm
  omega

/-! ### the main invariant -/

section
variable (o : Ops) (sane : o.Sane) (cat : String → Option (List Row))
include sane

mutual
theorem evalE_good (sc : List Scope) (hs : ScopesOk sc) :
    (e : PExpr) → wfE (sc.map (·.1)) e = true → Good (fun _ => True) (evalE o cat sc e)
  | .col rel name, h => by
    simp only [evalE]
    exact lookup_good sc (by simpa [wfE] using h) hs
  | .lit _ _, _ => by simp [evalE, Good]
  | .op kind tag args, h => by
    simp only [evalE]
    refine good_bind (evalEs_good sc hs args (by simpa [wfE] using h)) (fun vs _ => ?_)
    exact good_of_ne (sane.scalar kind tag vs)
  | .alias e _, h => by
    simp only [evalE]
    exact evalE_good sc hs e (by simpa [wfE] using h)
  | .sub kind neg args p, h => by
    simp only [wfE, Bool.and_eq_true] at h
    simp only [evalE]
    refine good_bind (evalEs_good sc hs args h.1) (fun vs _ => ?_)
    refine good_bind (exec_good sc hs p h.2) (fun rows _ => ?_)
    exact good_of_ne (sane.subq kind neg vs rows)
  | .star _, _ => by simp [evalE, Good]
theorem evalEs_good (sc : List Scope) (hs : ScopesOk sc) :
    (es : List PExpr) → wfEs (sc.map (·.1)) es = true → Good (fun vs => vs.length = es.length) (evalEs o cat sc es)
  | [], _ => by simp [evalEs, Good]
  | e :: es, h => by
    simp only [wfEs, Bool.and_eq_true] at h
    simp only [evalEs]
    refine good_bind (evalE_good sc hs e h.1) (fun v _ => ?_)
    refine good_bind (evalEs_good sc hs es h.2) (fun vs hvs => ?_)
    exact good_pure (by simp [hvs])
theorem evalAggE_good (outer : List Scope) (hs : ScopesOk outer) (sch : Schema) (group : List Row)
    (hg : ∀ r ∈ group, r.length = sch.length) :
    (e : PExpr) → wfE (sch :: outer.map (·.1)) e = true → Good (fun _ => True) (evalAggE o cat outer sch group e)
  | .col rel name, h => by
    simp only [evalAggE]
    cases group with
    | nil => simp [Good]
    | cons r _ =>
      exact lookup_good ((sch, r) :: outer) (by simpa [wfE] using h) (scopesOk_cons (hg r List.mem_cons_self) hs)
  | .lit _ _, _ => by simp [evalAggE, Good]
  | .op kind tag args, h => by
    simp only [evalAggE]
    have hargs : wfEs (sch :: outer.map (·.1)) args = true := by simpa [wfE] using h
    split
    · refine good_bind (good_mapME _ group (fun r hr => evalEs_good ((sch, r) :: outer) (scopesOk_cons (hg r hr) hs) args hargs)) (fun vecs _ => ?_)
      exact good_of_ne (sane.agg tag vecs)
    · refine good_bind (evalAggEs_good outer hs sch group hg args hargs) (fun vs _ => ?_)
      exact good_of_ne (sane.scalar kind tag vs)
  | .alias e _, h => by
    simp only [evalAggE]
    exact evalAggE_good outer hs sch group hg e (by simpa [wfE] using h)
  | .sub kind neg args p, h => by
    simp only [wfE, Bool.and_eq_true] at h
    simp only [evalAggE]
    cases group with
    | nil => simp [Good]
    | cons r _ =>
      have hsc := scopesOk_cons (hg r List.mem_cons_self) hs
      refine good_bind (evalEs_good ((sch, r) :: outer) hsc args h.1) (fun vs _ => ?_)
      refine good_bind (exec_good ((sch, r) :: outer) hsc p h.2) (fun rows _ => ?_)
      exact good_of_ne (sane.subq kind neg vs rows)
  | .star _, _ => by simp [evalAggE, Good]
theorem evalAggEs_good (outer : List Scope) (hs : ScopesOk outer) (sch : Schema) (group : List Row)
    (hg : ∀ r ∈ group, r.length = sch.length) :
    (es : List PExpr) → wfEs (sch :: outer.map (·.1)) es = true →
      Good (fun vs => vs.length = es.length) (evalAggEs o cat outer sch group es)
  | [], _ => by simp [evalAggEs, Good]
  | e :: es, h => by
    simp only [wfEs, Bool.and_eq_true] at h
    simp only [evalAggEs]
    refine good_bind (evalAggE_good outer hs sch group hg e h.1) (fun v _ => ?_)
    refine good_bind (evalAggEs_good outer hs sch group hg es h.2) (fun vs hvs => ?_)
    exact good_pure (by simp [hvs])
theorem evalWinEs_good (outer : List Scope) (hs : ScopesOk outer) (sch : Schema) (rows : List Row)
    (hrows : ∀ r ∈ rows, r.length = sch.length) (idx : Nat) (row : Row) (hrow : row.length = sch.length) :
    (es : List PExpr) → wfEs (sch :: outer.map (·.1)) es = true →
      Good (fun vs => vs.length = es.length) (evalWinEs o cat outer sch rows idx row es)
  | [], _ => by simp [evalWinEs, Good]
  | .col rel name :: es, h => by
    simp only [wfEs, Bool.and_eq_true] at h
    simp only [evalWinEs]
    refine good_bind (lookup_good ((sch, row) :: outer) (by simpa [wfE] using h.1) (scopesOk_cons hrow hs)) (fun v _ => ?_)
    refine good_bind (evalWinEs_good outer hs sch rows hrows idx row hrow es h.2) (fun vs hvs => ?_)
    exact good_pure (by simp [hvs])
  | .lit _ _ :: es, h => by
    simp only [wfEs, Bool.and_eq_true] at h
    simp only [evalWinEs]
    refine good_bind (P := fun _ => True) (by simp [Good]) (fun v _ => ?_)
    refine good_bind (evalWinEs_good outer hs sch rows hrows idx row hrow es h.2) (fun vs hvs => ?_)
    exact good_pure (by simp [hvs])
  | .op kind tag args :: es, h => by
    simp only [wfEs, Bool.and_eq_true] at h
    have hargs : wfEs (sch :: outer.map (·.1)) args = true := by simpa [wfE] using h.1
    simp only [evalWinEs]
    refine good_bind (P := fun _ => True) ?_ (fun v _ => ?_)
    · split
      · refine good_bind (good_mapME _ rows (fun r hr => evalEs_good ((sch, r) :: outer) (scopesOk_cons (hrows r hr) hs) args hargs)) (fun vecs _ => ?_)
        exact good_of_ne (sane.win tag idx vecs)
      · refine good_bind (evalEs_good ((sch, row) :: outer) (scopesOk_cons hrow hs) args hargs) (fun vs _ => ?_)
        exact good_of_ne (sane.scalar kind tag vs)
    · refine good_bind (evalWinEs_good outer hs sch rows hrows idx row hrow es h.2) (fun vs hvs => ?_)
      exact good_pure (by simp [hvs])
  | .alias e' _ :: es, h => by
    simp only [wfEs, Bool.and_eq_true] at h
    simp only [evalWinEs]
    refine good_bind (evalE_good ((sch, row) :: outer) (scopesOk_cons hrow hs) e' (by simpa [wfE] using h.1)) (fun v _ => ?_)
    refine good_bind (evalWinEs_good outer hs sch rows hrows idx row hrow es h.2) (fun vs hvs => ?_)
    exact good_pure (by simp [hvs])
  | .sub kind neg args p :: es, h => by
    simp only [wfEs, Bool.and_eq_true] at h
    have h1 := h.1
    simp only [wfE, Bool.and_eq_true] at h1
    have hsc := scopesOk_cons hrow hs
    simp only [evalWinEs]
    refine good_bind (P := fun _ => True) ?_ (fun v _ => ?_)
    · refine good_bind (evalEs_good ((sch, row) :: outer) hsc args h1.1) (fun vs _ => ?_)
      refine good_bind (exec_good ((sch, row) :: outer) hsc p h1.2) (fun srows _ => ?_)
      exact good_of_ne (sane.subq kind neg vs srows)
    · refine good_bind (evalWinEs_good outer hs sch rows hrows idx row hrow es h.2) (fun vs hvs => ?_)
      exact good_pure (by simp [hvs])
  | .star _ :: es, h => by
    simp only [wfEs, Bool.and_eq_true] at h
    simp only [evalWinEs]
    refine good_bind (P := fun _ => True) (by simp [Good]) (fun v _ => ?_)
    refine good_bind (evalWinEs_good outer hs sch rows hrows idx row hrow es h.2) (fun vs hvs => ?_)
    exact good_pure (by simp [hvs])
theorem exec_good (outer : List Scope) (hs : ScopesOk outer) :
    (p : Plan) → wfP (outer.map (·.1)) p = true →
      Good (fun rows => ∀ r ∈ rows, r.length = (outSchema p).length) (exec o cat outer p)
  | .scan table s proj filter, h => by
    simp only [wfP, Bool.and_eq_true] at h
    simp only [exec]
    cases hc : cat table with
    | none => simp [Good]
    | some rows =>
      simp only
      split
      · rename_i hall
        have hlen : ∀ r ∈ rows, r.length = s.length := by
          intro r hr; have := List.all_eq_true.mp hall r hr; simpa using this
        cases proj with
        | none =>
          simp only [outSchema]
          refine good_filterME _ rows (fun r hr => ?_) hlen
          refine good_bind (evalEs_good ((s, r) :: outer) (scopesOk_cons (hlen r hr) hs) filter h.2) (fun _ _ => trivial)
        | some idx =>
          have hidx : ∀ i ∈ idx, i < s.length := by
            intro i hi; have := List.all_eq_true.mp h.1 i hi; simpa using this
          have hps : (projectSchema s idx).length = idx.length := filterMap_get_length s idx hidx
          simp only [outSchema]
          have hprow : ∀ pr ∈ rows.map (fun (r : Row) => idx.filterMap (fun i => r[i]?)), pr.length = (projectSchema s idx).length := by
            intro pr hpr
            obtain ⟨r, hr, rfl⟩ := List.mem_map.mp hpr
            rw [hps]
            exact filterMap_get_length r idx (fun i hi => by rw [hlen r hr]; exact hidx i hi)
          refine good_filterME _ _ (fun r hr => ?_) hprow
          refine good_bind (evalEs_good ((projectSchema s idx, r) :: outer) (scopesOk_cons (hprow r hr) hs) filter h.2) (fun _ _ => trivial)
      · simp [Good]
  | .filter pred i, h => by
    simp only [wfP, Bool.and_eq_true] at h
    simp only [exec, outSchema]
    refine good_bind (exec_good outer hs i h.1) (fun rows hrows => ?_)
    refine good_filterME _ rows (fun r hr => ?_) hrows
    exact good_bind (evalE_good ((outSchema i, r) :: outer) (scopesOk_cons (hrows r hr) hs) pred h.2) (fun _ _ => trivial)
  | .project exprs s i, h => by
    simp only [wfP, Bool.and_eq_true, beq_iff_eq] at h
    simp only [exec, outSchema]
    refine good_bind (exec_good outer hs i h.1) (fun rows hrows => ?_)
    refine good_mapME _ rows (fun r hr => ?_)
    refine good_mono (evalEs_good ((outSchema i, r) :: outer) (scopesOk_cons (hrows r hr) hs) exprs h.2.1) (fun vs hvs => ?_)
    rw [hvs]; exact h.2.2
  | .join jt onL onR filter s l r, h => by
    simp only [wfP, Bool.and_eq_true, beq_iff_eq] at h
    obtain ⟨hl, hr, honL, honR, _, hfil, hmark⟩ := h
    rw [joinWidth_out jt onL onR filter s l r hmark]
    simp only [exec]
    refine good_bind (exec_good outer hs l hl) (fun ls hls => ?_)
    refine good_bind (exec_good outer hs r hr) (fun rs hrs => ?_)
    refine good_bind (P := fun pairs => ∀ pr ∈ pairs, pr.1.length = (outSchema l).length ∧ ∀ m ∈ pr.2, m.length = (outSchema r).length)
      (good_mapME _ ls (fun lr hlr => ?_)) (fun pairs hpairs => ?_)
    · have hscl := scopesOk_cons (hls lr hlr) hs
      refine good_bind (evalEs_good ((outSchema l, lr) :: outer) hscl onL honL) (fun kl _ => ?_)
      refine good_bind (good_filterME _ rs (fun rr hrr => ?_) hrs) (fun ms hms => good_pure ⟨hls lr hlr, hms⟩)
      refine good_bind (evalEs_good ((outSchema r, rr) :: outer) (scopesOk_cons (hrs rr hrr) hs) onR honR) (fun kr _ => ?_)
      refine good_bind (evalEs_good ((outSchema l ++ outSchema r, lr ++ rr) :: outer)
        (scopesOk_cons (by simp [hls lr hlr, hrs rr hrr]) hs) filter hfil) (fun _ _ => trivial)
    · refine good_pure (emitJoin_len jt _ _ pairs _ hpairs (fun x hx => hrs x (List.mem_filter.mp hx).1))
  | .agg group aggs s i, h => by
    simp only [wfP, Bool.and_eq_true, beq_iff_eq] at h
    obtain ⟨hi, hgr, hag, harity⟩ := h
    simp only [exec, outSchema]
    refine good_bind (exec_good outer hs i hi) (fun rows hrows => ?_)
    refine good_bind (P := fun keyed => ∀ kr ∈ keyed, kr.1.length = group.length ∧ kr.2.length = (outSchema i).length)
      (good_mapME _ rows (fun r hr => ?_)) (fun keyed hkeyed => ?_)
    · refine good_bind (evalEs_good ((outSchema i, r) :: outer) (scopesOk_cons (hrows r hr) hs) group hgr) (fun k hk => ?_)
      exact good_pure ⟨hk, hrows r hr⟩
    · have hgroups : ∀ kg ∈ (if group.isEmpty then [([], rows)] else groupRows keyed),
          kg.1.length = group.length ∧ ∀ r ∈ kg.2, r.length = (outSchema i).length := by
        intro kg hkg
        split at hkg
        · rename_i hemp
          simp at hkg; subst hkg
          exact ⟨by simp [List.isEmpty_iff.mp hemp], hrows⟩
        · obtain ⟨⟨r0, hr0⟩, hmem⟩ := groupRows_mem keyed kg hkg
          exact ⟨(hkeyed _ hr0).1, fun r hr => let ⟨k, hk⟩ := hmem r hr; (hkeyed _ hk).2⟩
      refine good_mapME _ _ (fun kg hkg => ?_)
      refine good_bind (evalAggEs_good outer hs (outSchema i) kg.2 (hgroups kg hkg).2 aggs hag) (fun vs hvs => ?_)
      refine good_pure ?_
      simp [(hgroups kg hkg).1, hvs]; omega
  | .window names wexprs s i, h => by
    simp only [wfP, Bool.and_eq_true, beq_iff_eq] at h
    obtain ⟨hi, hw, harity, _⟩ := h
    simp only [exec, outSchema]
    refine good_bind (exec_good outer hs i hi) (fun rows hrows => ?_)
    refine good_mapME _ _ (fun ri hri => ?_)
    obtain ⟨r0, i0⟩ := ri
    have hr : r0 ∈ rows := withIdx_mem 0 rows hri
    refine good_bind (evalWinEs_good outer hs (outSchema i) rows hrows i0 r0 (hrows _ hr) wexprs hw) (fun vs hvs => ?_)
    refine good_pure ?_
    simp [hrows _ hr, hvs]; omega
  | .sort keys _ i, h => by
    simp only [wfP, Bool.and_eq_true] at h
    simp only [exec, outSchema]
    refine good_bind (exec_good outer hs i h.1) (fun rows hrows => ?_)
    refine good_bind (good_mapME _ rows (fun r hr => evalEs_good ((outSchema i, r) :: outer) (scopesOk_cons (hrows r hr) hs) keys h.2)) (fun _ _ => ?_)
    exact good_pure hrows
  | .limit skip fetch i, h => by
    simp only [wfP] at h
    simp only [exec, outSchema]
    refine good_bind (exec_good outer hs i h) (fun rows hrows => ?_)
    refine good_pure (fun r hr => ?_)
    cases fetch with
    | none => exact hrows r (List.mem_of_mem_drop hr)
    | some n => exact hrows r (List.mem_of_mem_drop (List.mem_of_mem_take hr))
  | .distinct i, h => by
    simp only [wfP] at h
    simp only [exec, outSchema]
    refine good_bind (exec_good outer hs i h) (fun rows hrows => ?_)
    exact good_pure (fun r hr => hrows r (dedupRows_mem rows hr))
  | .union all s inputs, h => by
    simp only [wfP] at h
    simp only [exec, outSchema]
    refine good_bind (execAll_good outer hs s.length inputs h) (fun rows hrows => ?_)
    refine good_pure (fun r hr => ?_)
    split at hr
    · exact hrows r hr
    · exact hrows r (dedupRows_mem rows hr)
  | .alias _ _ _ i, h => by
    simp only [wfP] at h
    simp only [exec, outSchema]
    exact exec_good outer hs i h
  | .empty oneRow s, _ => by
    simp only [exec, outSchema]
    cases oneRow <;> simp [Good, nulls_length]
  | .values rows width s, h => by
    simp only [wfP, Bool.and_eq_true, beq_iff_eq, Bool.or_eq_true, decide_eq_true_eq, List.isEmpty_iff] at h
    obtain ⟨hrows, hw, hshape⟩ := h
    simp only [exec, outSchema]
    refine good_bind (evalEs_good outer hs rows hrows) (fun vs hvs => ?_)
    refine good_pure (fun c hc => ?_)
    rcases hshape with ⟨hpos, hmod⟩ | hemp
    · rw [← hw]
      exact chunk_len width hpos vs.length vs (by rw [hvs]; exact hmod) c hc
    · subst hemp
      have : vs = [] := List.eq_nil_of_length_eq_zero (by simpa using hvs)
      subst this
      simp [chunk] at hc
  | .delimJoin jt delim onL onR s l r, h => by
    simp only [wfP, Bool.and_eq_true, beq_iff_eq] at h
    obtain ⟨hl, hr, hdel, honL, honR, _, hwidth⟩ := h
    have hw : s.length = joinWidth jt (outSchema l).length (outSchema r).length := by
      cases jt <;> simp [joinWidth] at hwidth ⊢ <;> omega
    simp only [exec, outSchema]
    rw [hw]
    refine good_bind (exec_good outer hs l hl) (fun ls hls => ?_)
    refine good_bind (exec_good outer hs r hr) (fun rs hrs => ?_)
    refine good_bind (P := fun pairs => ∀ pr ∈ pairs, pr.1.length = (outSchema l).length ∧ ∀ m ∈ pr.2, m.length = (outSchema r).length)
      (good_mapME _ ls (fun lr hlr => ?_)) (fun pairs hpairs => ?_)
    · have hscl := scopesOk_cons (hls lr hlr) hs
      refine good_bind (evalEs_good ((outSchema l, lr) :: outer) hscl delim hdel) (fun _ _ => ?_)
      refine good_bind (evalEs_good ((outSchema l, lr) :: outer) hscl onL honL) (fun kl _ => ?_)
      refine good_bind (good_filterME _ rs (fun rr hrr => ?_) hrs) (fun ms hms => good_pure ⟨hls lr hlr, hms⟩)
      refine good_bind (evalEs_good ((outSchema r, rr) :: outer) (scopesOk_cons (hrs rr hrr) hs) onR honR) (fun kr _ => trivial)
    · refine good_pure (emitJoin_len jt _ _ pairs _ hpairs (fun x hx => hrs x (List.mem_filter.mp hx).1))
  | .delimGet _ _ _, _ => by simp [exec, Good]
  | .vsearch info _ sortKey _ _ s i, h => by
    simp only [wfP, Bool.and_eq_true, beq_iff_eq] at h
    obtain ⟨hi, hk, harity⟩ := h
    simp only [exec, outSchema]
    refine good_bind (exec_good outer hs i hi) (fun rows hrows => ?_)
    refine good_bind (good_mapME _ rows (fun r hr => evalE_good ((outSchema i, r) :: outer) (scopesOk_cons (hrows r hr) hs) sortKey hk)) (fun _ _ => ?_)
    refine good_pure (fun r hr => ?_)
    rw [← harity]
    exact hrows r (List.mem_of_mem_drop (List.mem_of_mem_take hr))
theorem execAll_good (outer : List Scope) (hs : ScopesOk outer) (n : Nat) :
    (ps : List Plan) → wfPs (outer.map (·.1)) n ps = true →
      Good (fun rows => ∀ r ∈ rows, r.length = n) (execAll o cat outer ps)
  | [], _ => by simp [execAll, Good]
  | p :: ps, h => by
    simp only [wfPs, Bool.and_eq_true, beq_iff_eq] at h
    simp only [execAll]
    refine good_bind (exec_good outer hs p h.1) (fun a ha => ?_)
    refine good_bind (execAll_good outer hs n ps h.2.2) (fun b hb => ?_)
    refine good_pure (fun r hr => ?_)
    rcases List.mem_append.mp hr with hr | hr
    · rw [← h.2.1]; exact ha r hr
    · exact hb r hr
end

end

end IQE.Engine.PlanWf
