/-
  Lemmas for IQE.Engine.Lpt (model of `assign_lpt`): comparator laws, argmin, the greedy invariant
  (partition, sums, Graham's inequality), makespan lower bounds. Everything by induction; no enumeration.
-/
import IQE.Engine.Lpt
namespace IQE.Engine.Lpt
open Std IQE.Engine

/-! ### comparator laws -/

instance instTransKeyCmp : TransCmp Split.keyCmp := by unfold Split.keyCmp; infer_instance
instance instTransBytesDesc : TransCmp (fun x y : Split => compare y.bytes x.bytes) :=
  inferInstanceAs (TransCmp (fun a b => (compareOn (·.bytes) : Split → Split → Ordering) b a))
instance instTransLptCmp : TransCmp lptCmp := by unfold lptCmp; infer_instance

theorem isLE_trans_of {α} (cmp : α → α → Ordering) [TransCmp cmp] (a b c : α) :
    (cmp a b).isLE = true → (cmp b c).isLE = true → (cmp a c).isLE = true :=
  fun h1 h2 => TransCmp.isLE_trans h1 h2

theorem isLE_total_of {α} (cmp : α → α → Ordering) [OrientedCmp cmp] (a b : α) :
    ((cmp a b).isLE || (cmp b a).isLE) = true := by
  rw [OrientedCmp.eq_swap (cmp := cmp) (a := b) (b := a)]
  cases cmp a b <;> simp [Ordering.swap, Ordering.isLE]

theorem lptLe_trans (a b c : Split × Nat) : lptLe a b = true → lptLe b c = true → lptLe a c = true :=
  isLE_trans_of lptCmp a.1 b.1 c.1
theorem lptLe_total (a b : Split × Nat) : (lptLe a b || lptLe b a) = true := isLE_total_of lptCmp a.1 b.1
theorem keyLeIdx_trans (a b c : Split × Nat) : keyLeIdx a b = true → keyLeIdx b c = true → keyLeIdx a c = true :=
  isLE_trans_of Split.keyCmp a.1 b.1 c.1
theorem keyLeIdx_total (a b : Split × Nat) : (keyLeIdx a b || keyLeIdx b a) = true := isLE_total_of Split.keyCmp a.1 b.1

theorem order_eq (splits : List Split) : order splits = splits.zipIdx.mergeSort lptLe :=
  IQE.StableSort.sort_eq_mergeSort lptLe_trans lptLe_total _
theorem sortOwned_eq (l : List (Split × Nat)) : sortOwned l = (l.mergeSort keyLeIdx).map (·.2) := by
  unfold sortOwned; rw [IQE.StableSort.sort_eq_mergeSort keyLeIdx_trans keyLeIdx_total]

/-! ### generic list facts -/

theorem modify_map_comm {α β} (g : α → β) (f : α → α) (f' : β → β) (h : ∀ x, g (f x) = f' (g x)) :
    ∀ (l : List α) (i : Nat), (l.modify i f).map g = (l.map g).modify i f'
  | [], _ => by simp
  | x :: xs, 0 => by simp [h]
  | x :: xs, i + 1 => by simp [modify_map_comm g f f' h xs i]

theorem flatten_modify_concat {α} (p : α) :
    ∀ (l : List (List α)) (i : Nat), i < l.length → (l.modify i (· ++ [p])).flatten.Perm (l.flatten ++ [p])
  | [], _, h => by simp at h
  | x :: xs, 0, _ => by
    simp only [List.modify_zero_cons, List.flatten_cons, List.append_assoc]
    exact List.Perm.append_left x List.perm_append_comm
  | x :: xs, i + 1, h => by
    simp only [List.modify_succ_cons, List.flatten_cons, List.append_assoc]
    exact List.Perm.append_left x (flatten_modify_concat p xs i (by simpa using h))

theorem sum_modify_add_nat (b : Nat) :
    ∀ (l : List Nat) (i : Nat), i < l.length → (l.modify i (· + b)).sum = l.sum + b
  | [], _, h => by simp at h
  | x :: xs, 0, _ => by simp; omega
  | x :: xs, i + 1, h => by
    simp only [List.modify_succ_cons, List.sum_cons]
    rw [sum_modify_add_nat b xs i (by simpa using h)]; omega

theorem sum_modify_add_int (b : Int) :
    ∀ (l : List Int) (i : Nat), i < l.length → (l.modify i (· + b)).sum = l.sum + b
  | [], _, h => by simp at h
  | x :: xs, 0, _ => by simp; omega
  | x :: xs, i + 1, h => by
    simp only [List.modify_succ_cons, List.sum_cons]
    rw [sum_modify_add_int b xs i (by simpa using h)]; omega

theorem mem_modify {α} (f : α → α) :
    ∀ (l : List α) (i : Nat) (x : α), x ∈ l.modify i f → x ∈ l ∨ ∃ y, l[i]? = some y ∧ x = f y
  | [], _, x, h => by simp at h
  | a :: as, 0, x, h => by
    simp only [List.modify_zero_cons, List.mem_cons] at h
    rcases h with h | h
    · exact Or.inr ⟨a, by simp, h⟩
    · exact Or.inl (List.mem_cons_of_mem _ h)
  | a :: as, i + 1, x, h => by
    simp only [List.modify_succ_cons, List.mem_cons] at h
    rcases h with h | h
    · exact Or.inl (by simp [h])
    · rcases mem_modify f as i x h with h | ⟨y, hy, hx⟩
      · exact Or.inl (List.mem_cons_of_mem _ h)
      · exact Or.inr ⟨y, by simpa using hy, hx⟩

theorem perm_sum_int {l₁ l₂ : List Int} (h : l₁.Perm l₂) : l₁.sum = l₂.sum := by
  induction h with
  | nil => rfl
  | cons x _ ih => simp [ih]
  | swap x y l => simp only [List.sum_cons]; omega
  | trans _ _ ih1 ih2 => exact ih1.trans ih2

theorem length_mul_le_sum (m : Nat) : ∀ l : List Nat, (∀ x ∈ l, m ≤ x) → l.length * m ≤ l.sum
  | [], _ => by simp
  | x :: xs, h => by
    have h1 := h x (List.mem_cons_self)
    have h2 := length_mul_le_sum m xs (fun y hy => h y (List.mem_cons_of_mem _ hy))
    simp only [List.length_cons, List.sum_cons, Nat.add_mul]
    omega

/-! ### maxLoad / heaviest -/

theorem le_maxLoad : ∀ (l : List Nat) (x : Nat), x ∈ l → x ≤ maxLoad l
  | [], _, h => by simp at h
  | a :: as, x, h => by
    simp only [maxLoad, List.foldr_cons]
    rcases List.mem_cons.1 h with rfl | h
    · exact Nat.le_max_left _ _
    · exact Nat.le_trans (le_maxLoad as x h) (Nat.le_max_right _ _)

theorem maxLoad_cons (a : Nat) (as : List Nat) : maxLoad (a :: as) = max a (maxLoad as) := rfl

theorem sum_le_length_mul_maxLoad : ∀ l : List Nat, l.sum ≤ l.length * maxLoad l
  | [] => by simp [maxLoad]
  | a :: as => by
    have ih := sum_le_length_mul_maxLoad as
    rw [maxLoad_cons, List.sum_cons, List.length_cons, Nat.add_mul]
    have h1 : a ≤ max a (maxLoad as) := Nat.le_max_left _ _
    have h2 : as.length * maxLoad as ≤ as.length * max a (maxLoad as) := Nat.mul_le_mul_left _ (Nat.le_max_right _ _)
    omega

theorem heaviest_spec : ∀ l : List Nat, l ≠ [] → heaviest l < l.length ∧ l[heaviest l]? = some (maxLoad l)
  | [], h => by simp at h
  | x :: xs, _ => by
    unfold heaviest
    split
    · rename_i hle
      refine ⟨by simp, ?_⟩
      simp [maxLoad_cons, Nat.max_eq_left hle]
    · rename_i hlt
      have hne : xs ≠ [] := by
        intro h; subst h; simp [maxLoad] at hlt
      have ⟨h1, h2⟩ := heaviest_spec xs hne
      refine ⟨by simpa using h1, ?_⟩
      simp only [List.getElem?_cons_succ, h2, maxLoad_cons]
      congr 1; omega

/-! ### argmin: lowest index of a minimal entry -/

theorem argminGo_spec (full : List Nat) :
    ∀ (xs : List Nat) (n best bv : Nat), best < n → full[best]? = some bv →
      (∀ k, k < xs.length → full[n + k]? = xs[k]?) →
      ∃ v, argminGo xs n best bv < n + xs.length ∧ full[argminGo xs n best bv]? = some v ∧ v ≤ bv ∧ ∀ x ∈ xs, v ≤ x
  | [], n, best, bv, hb, hv, _ => ⟨bv, by simp [argminGo]; omega, by simpa [argminGo] using hv, Nat.le_refl _, by simp⟩
  | x :: xs, n, best, bv, hb, hv, hxs => by
    have hx : full[n]? = some x := by simpa using hxs 0 (by simp)
    have hrest : ∀ k, k < xs.length → full[n + 1 + k]? = xs[k]? := by
      intro k hk
      have := hxs (k + 1) (by simpa using hk)
      simpa [Nat.add_assoc, Nat.add_comm 1 k] using this
    unfold argminGo
    split
    · rename_i hlt
      obtain ⟨v, h1, h2, h3, h4⟩ := argminGo_spec full xs (n + 1) n x (by omega) hx hrest
      refine ⟨v, by simp only [List.length_cons]; omega, h2, by omega, ?_⟩
      intro y hy
      rcases List.mem_cons.1 hy with rfl | hy
      · exact h3
      · exact h4 y hy
    · rename_i hge
      obtain ⟨v, h1, h2, h3, h4⟩ := argminGo_spec full xs (n + 1) best bv (by omega) hv hrest
      refine ⟨v, by simp only [List.length_cons]; omega, h2, h3, ?_⟩
      intro y hy
      rcases List.mem_cons.1 hy with rfl | hy
      · omega
      · exact h4 y hy

theorem argmin_spec (l : List Nat) (hne : l ≠ []) :
    ∃ v, argmin l < l.length ∧ l[argmin l]? = some v ∧ ∀ x ∈ l, v ≤ x := by
  match l, hne with
  | x :: xs, _ =>
    obtain ⟨v, h1, h2, h3, h4⟩ := argminGo_spec (x :: xs) xs 1 0 x (by omega) (by simp)
      (by intro k _; simp [Nat.add_comm 1 k])
    refine ⟨v, by simp only [argmin, List.length_cons]; omega, h2, ?_⟩
    intro y hy
    rcases List.mem_cons.1 hy with rfl | hy
    · exact h3
    · exact h4 y hy

/-! ### the greedy invariant -/

def sumB (l : List (Split × Nat)) : Nat := (l.map (·.1.bytes)).sum
def sumR (l : List (Split × Nat)) : Int := (l.map (·.1.numRows)).sum

theorem sumB_concat (l : List (Split × Nat)) (p : Split × Nat) : sumB (l ++ [p]) = sumB l + p.1.bytes := by
  simp [sumB]
theorem sumR_concat (l : List (Split × Nat)) (p : Split × Nat) : sumR (l ++ [p]) = sumR l + p.1.numRows := by
  simp [sumR]

structure Inv (N : Nat) (st : State) (placed : List (Split × Nat)) : Prop where
  len : st.perNode.length = N
  perm : st.perNode.flatten.Perm placed
  bytes : st.nodeBytes = st.perNode.map sumB
  rows : st.nodeRows = st.perNode.map sumR
  graham : ∀ l ∈ st.perNode, ∀ p, l.getLast? = some p →
    N * sumB l ≤ (st.perNode.map sumB).sum + (N - 1) * p.1.bytes

theorem inv_init (N : Nat) : Inv N (init N) [] where
  len := by simp [init]
  perm := by simp [init]
  bytes := by simp [init, sumB]
  rows := by simp [init, sumR]
  graham := by
    intro l hl p hp
    simp only [init, List.mem_replicate] at hl
    rw [hl.2] at hp; simp at hp

theorem inv_place (N : Nat) (hN : 0 < N) (st : State) (placed : List (Split × Nat)) (p : Split × Nat)
    (h : Inv N st placed) : Inv N (place st p) (placed ++ [p]) := by
  have hne : st.nodeBytes ≠ [] := by
    intro h0
    have := congrArg List.length h.bytes
    rw [h0, List.length_map, h.len] at this
    simp at this; omega
  obtain ⟨v, hb, hv, hmin⟩ := argmin_spec st.nodeBytes hne
  have hlenB : st.nodeBytes.length = N := by rw [h.bytes, List.length_map, h.len]
  have hbN : argmin st.nodeBytes < st.perNode.length := by rw [h.len, ← hlenB]; exact hb
  refine ⟨?_, ?_, ?_, ?_, ?_⟩
  · simp [place, h.len]
  · exact (flatten_modify_concat p st.perNode _ hbN).trans (List.Perm.append_right _ h.perm)
  · show st.nodeBytes.modify _ _ = (st.perNode.modify _ _).map sumB
    rw [modify_map_comm sumB (· ++ [p]) (· + p.1.bytes) (fun x => sumB_concat x p), ← h.bytes]
  · show st.nodeRows.modify _ _ = (st.perNode.modify _ _).map sumR
    rw [modify_map_comm sumR (· ++ [p]) (· + p.1.numRows) (fun x => sumR_concat x p), ← h.rows]
  · intro l hl q hq
    have htot : ((place st p).perNode.map sumB).sum = (st.perNode.map sumB).sum + p.1.bytes := by
      show ((st.perNode.modify _ _).map sumB).sum = _
      rw [modify_map_comm sumB (· ++ [p]) (· + p.1.bytes) (fun x => sumB_concat x p)]
      exact sum_modify_add_nat _ _ _ (by simpa using hbN)
    rw [htot]
    rcases mem_modify _ _ _ _ hl with hl | ⟨y, hy, rfl⟩
    · have := h.graham l hl q hq
      omega
    · -- the node that just received `p`: it was a least-loaded one
      rw [List.getLast?_concat] at hq
      cases hq
      rw [sumB_concat]
      have hyv : sumB y = v := by
        have h1 : (st.perNode.map sumB)[argmin st.nodeBytes]? = some (sumB y) := by simp [hy]
        rw [← h.bytes, hv] at h1
        exact (Option.some.inj h1).symm
      have hsum : N * v ≤ (st.perNode.map sumB).sum := by
        have := length_mul_le_sum v st.nodeBytes hmin
        rw [hlenB, h.bytes] at this
        exact this
      rw [hyv, Nat.mul_add]
      have : N * p.1.bytes = p.1.bytes + (N - 1) * p.1.bytes := by
        cases N with
        | zero => omega
        | succ k => simp [Nat.succ_mul]; omega
      omega

theorem inv_foldl (N : Nat) (hN : 0 < N) : ∀ (ps : List (Split × Nat)) (st : State) (placed : List (Split × Nat)),
    Inv N st placed → Inv N (ps.foldl place st) (placed ++ ps)
  | [], st, placed, h => by simpa using h
  | p :: ps, st, placed, h => by
    have := inv_foldl N hN ps (place st p) (placed ++ [p]) (inv_place N hN st placed p h)
    simpa using this

theorem inv_greedy (splits : List Split) (nodes : Nat) :
    Inv (max nodes 1) (greedy splits nodes) (order splits) := by
  have := inv_foldl (max nodes 1) (by omega) (order splits) (init (max nodes 1)) [] (inv_init _)
  simpa [greedy] using this

theorem order_perm (splits : List Split) : (order splits).Perm splits.zipIdx := by
  rw [order_eq]; exact List.mergeSort_perm _ _

theorem mem_order {splits : List Split} {p : Split × Nat} (h : p ∈ order splits) : splits[p.2]? = some p.1 := by
  have : p ∈ splits.zipIdx := (order_perm splits).mem_iff.1 h
  exact List.mem_zipIdx_iff_getElem?.1 this

/-! ### finishing: per-node canonical sort -/

theorem sortOwned_perm (l : List (Split × Nat)) : (sortOwned l).Perm (l.map (·.2)) := by
  rw [sortOwned_eq]; exact (List.mergeSort_perm l keyLeIdx).map _

theorem flatten_map_sortOwned : ∀ L : List (List (Split × Nat)),
    (L.map sortOwned).flatten.Perm (L.flatten.map (·.2))
  | [] => by simp
  | l :: L => by
    simp only [List.map_cons, List.flatten_cons, List.map_append]
    exact (sortOwned_perm l).append (flatten_map_sortOwned L)

/-- the indices a node owns, looked up again in the split list, are the pairs it was given -/
theorem sortOwned_lookup (splits : List Split) (l : List (Split × Nat)) (h : ∀ p ∈ l, splits[p.2]? = some p.1) :
    (sortOwned l).map (fun i => splits[i]!) = (l.mergeSort keyLeIdx).map (·.1) := by
  rw [sortOwned_eq, List.map_map]
  apply List.map_congr_left
  intro p hp
  have := h p (List.mem_mergeSort.1 hp)
  simp [this]

/-! ### any other assignment: loads, makespan, lower bounds on it -/

theorem sum_map_zero {α} : ∀ l : List α, (l.map (fun _ => 0)).sum = 0
  | [] => rfl
  | _ :: as => by simp [sum_map_zero as]

theorem sum_range_ite (b x : Nat) : ∀ N, x < N → ((List.range N).map (fun j => if x = j then b else 0)).sum = b
  | 0, h => by omega
  | N + 1, h => by
    rw [List.range_succ, List.map_append, List.sum_append]
    by_cases hx : x = N
    · subst hx
      have : ((List.range x).map (fun j => if x = j then b else 0)) = (List.range x).map (fun _ => 0) := by
        apply List.map_congr_left
        intro j hj
        have := List.mem_range.1 hj
        simp; omega
      rw [this, sum_map_zero]; simp
    · have := sum_range_ite b x N (by omega)
      rw [this]; simp [hx]

theorem sum_map_add (f g : Nat → Nat) : ∀ l : List Nat, (l.map (fun j => f j + g j)).sum = (l.map f).sum + (l.map g).sum
  | [] => rfl
  | a :: as => by simp only [List.map_cons, List.sum_cons, sum_map_add f g as]; omega

theorem loadOf_sum (N : Nat) : ∀ (bytes alt : List Nat), alt.length = bytes.length → (∀ x ∈ alt, x < N) →
    ((List.range N).map (loadOf bytes alt)).sum = bytes.sum
  | [], _, _, _ => by
    have : (fun j => loadOf [] ‹List Nat› j) = fun _ => 0 := by funext j; simp [loadOf]
    simp only [this]; exact sum_map_zero _
  | b :: bs, [], h, _ => by simp at h
  | b :: bs, x :: xs, h, hv => by
    have ih := loadOf_sum N bs xs (by simpa using h) (fun y hy => hv y (List.mem_cons_of_mem _ hy))
    have : (loadOf (b :: bs) (x :: xs)) = fun j => (if x = j then b else 0) + loadOf bs xs j := by
      funext j; simp [loadOf]
    rw [this, sum_map_add, sum_range_ite b x N (hv x List.mem_cons_self), ih, List.sum_cons]

theorem total_le_mul_makespan (N : Nat) (bytes alt : List Nat) (h : alt.length = bytes.length) (hv : ∀ x ∈ alt, x < N) :
    bytes.sum ≤ N * makespan bytes alt N := by
  have := sum_le_length_mul_maxLoad ((List.range N).map (loadOf bytes alt))
  rw [loadOf_sum N bytes alt h hv] at this
  simpa [makespan] using this

theorem item_le_loadOf : ∀ (bytes alt : List Nat) (i b x : Nat), bytes[i]? = some b → alt[i]? = some x → b ≤ loadOf bytes alt x
  | [], _, _, _, _, h, _ => by simp at h
  | _ :: _, [], _, _, _, _, h => by simp at h
  | c :: bs, y :: xs, 0, b, x, hb, hx => by
    simp at hb hx; subst hb hx; simp [loadOf]
  | c :: bs, y :: xs, i + 1, b, x, hb, hx => by
    have := item_le_loadOf bs xs i b x (by simpa using hb) (by simpa using hx)
    simp only [loadOf]; omega

theorem item_le_makespan (N : Nat) (bytes alt : List Nat) (h : alt.length = bytes.length) (hv : ∀ x ∈ alt, x < N)
    (i b : Nat) (hb : bytes[i]? = some b) : b ≤ makespan bytes alt N := by
  have hi : i < alt.length := by
    rw [h]; exact (List.getElem?_eq_some_iff.1 hb).1
  have hx : alt[i]? = some alt[i] := List.getElem?_eq_getElem hi
  have h1 := item_le_loadOf bytes alt i b alt[i] hb hx
  have h2 : loadOf bytes alt alt[i] ≤ makespan bytes alt N := by
    apply le_maxLoad
    exact List.mem_map.2 ⟨alt[i], List.mem_range.2 (hv _ (List.getElem_mem hi)), rfl⟩
  omega

/-! ### tie-break: the chosen node is the LOWEST index among the least loaded -/

theorem argminGo_lowest (full : List Nat) :
    ∀ (xs : List Nat) (n best bv : Nat), best < n → full[best]? = some bv →
      (∀ k, k < xs.length → full[n + k]? = xs[k]?) →
      (∀ j w, j < n → full[j]? = some w → bv ≤ w) → (∀ j w, j < best → full[j]? = some w → bv < w) →
      ∀ j w v, j < argminGo xs n best bv → full[j]? = some w → full[argminGo xs n best bv]? = some v → v < w
  | [], n, best, bv, hb, hv, _, _, hlow => by
    intro j w v hj hw hv'
    simp only [argminGo] at hj hv'
    rw [hv] at hv'; cases hv'
    exact hlow j w hj hw
  | x :: xs, n, best, bv, hb, hv, hxs, hpre, hlow => by
    have hx : full[n]? = some x := by simpa using hxs 0 (by simp)
    have hrest : ∀ k, k < xs.length → full[n + 1 + k]? = xs[k]? := by
      intro k hk
      have := hxs (k + 1) (by simpa using hk)
      simpa [Nat.add_assoc, Nat.add_comm 1 k] using this
    unfold argminGo
    split
    · rename_i hlt
      apply argminGo_lowest full xs (n + 1) n x (by omega) hx hrest
      · intro j w hj hw
        by_cases hjn : j = n
        · subst hjn; rw [hx] at hw; cases hw; exact Nat.le_refl _
        · have := hpre j w (by omega) hw; omega
      · intro j w hj hw
        have := hpre j w hj hw; omega
    · rename_i hge
      apply argminGo_lowest full xs (n + 1) best bv (by omega) hv hrest
      · intro j w hj hw
        by_cases hjn : j = n
        · subst hjn; rw [hx] at hw; cases hw; omega
        · exact hpre j w (by omega) hw
      · exact hlow

theorem argmin_lowest (l : List Nat) (j w v : Nat) (hj : j < argmin l) (hw : l[j]? = some w)
    (hv : l[argmin l]? = some v) : v < w := by
  match l with
  | [] => simp at hw
  | x :: xs =>
    refine argminGo_lowest (x :: xs) xs 1 0 x (by omega) (by simp) (by intro k _; simp [Nat.add_comm 1 k]) ?_ ?_ j w v hj hw hv
    · intro j w hj hw
      have : j = 0 := by omega
      subst this; simp at hw; omega
    · intro j w hj; omega

/-! ### sums over the flattened placement -/

theorem sum_map_sumB : ∀ L : List (List (Split × Nat)), (L.map sumB).sum = sumB L.flatten
  | [] => rfl
  | l :: L => by
    simp only [List.map_cons, List.sum_cons, List.flatten_cons, sum_map_sumB L]
    simp [sumB]

theorem sum_map_sumR : ∀ L : List (List (Split × Nat)), (L.map sumR).sum = sumR L.flatten
  | [] => rfl
  | l :: L => by
    simp only [List.map_cons, List.sum_cons, List.flatten_cons, sum_map_sumR L]
    simp [sumR]

theorem sumB_perm {l₁ l₂ : List (Split × Nat)} (h : l₁.Perm l₂) : sumB l₁ = sumB l₂ := (h.map _).sum_nat
theorem sumR_perm {l₁ l₂ : List (Split × Nat)} (h : l₁.Perm l₂) : sumR l₁ = sumR l₂ := perm_sum_int (h.map _)

theorem sumB_zipIdx (splits : List Split) : sumB splits.zipIdx = (splits.map (·.bytes)).sum := by
  unfold sumB
  rw [show (fun p : Split × Nat => p.1.bytes) = (fun s : Split => s.bytes) ∘ Prod.fst from rfl, ← List.map_map,
    List.zipIdx_map_fst]
theorem sumR_zipIdx (splits : List Split) : sumR splits.zipIdx = (splits.map (·.numRows)).sum := by
  unfold sumR
  rw [show (fun p : Split × Nat => p.1.numRows) = (fun s : Split => s.numRows) ∘ Prod.fst from rfl, ← List.map_map,
    List.zipIdx_map_fst]

end IQE.Engine.Lpt
