/-
  Lemmas for IQE.Engine.SplitEnum (model of `enumerate_parquet`): the cutting loop's invariant
  (contiguous cover, rows, exact bytes), totals, canonical order. By induction on the loop counter / lists.
-/
import IQE.Engine.SplitEnum
import IQE.Lemmas.Lpt
namespace IQE.Engine.SplitEnum
open Std IQE.Engine

/-- contiguous ranges starting at `start`: each piece begins where the previous one ended; ends at `stop` -/
def Contig : Nat → List Piece → Nat → Prop
  | start, [], stop => start = stop
  | start, p :: ps, stop => p.off = start ∧ Contig (start + p.n) ps stop

theorem pieces_pos (b r t : Nat) : 1 ≤ pieces b r t := by
  unfold pieces; split <;> omega

theorem pieces_le_rows (b r t : Nat) (hr : 1 ≤ r) : pieces b r t ≤ r := by
  unfold pieces; split <;> omega

/-- Invariant of `for piece in 0..pieces`: with `k` iterations left (`piece + k = npieces`),
    `off + k·base + (rem − piece) = rows`, `spent·rows ≤ rgBytes·off` where `spent = rgBytes − bl`. -/
theorem cutGo_spec (rgBytes rows npieces base rem : Nat) (hbase : 1 ≤ base) (hrem : rem < npieces) (hrows : 0 < rows) :
    ∀ (k piece off bl : Nat), piece + k = npieces → off + k * base + (rem - piece) = rows →
      bl ≤ rgBytes → (rgBytes - bl) * rows ≤ rgBytes * off →
      let ps := cutGo rgBytes rows npieces base rem k piece off bl
      ps.length = k ∧ (∀ p ∈ ps, p.n = base ∨ p.n = base + 1) ∧ Contig off ps rows ∧
      off + (ps.map (·.n)).sum = rows ∧ (1 ≤ k → (ps.map (·.bytes)).sum = bl)
  | 0, piece, off, bl, hk, hoff, _, _ => by
    simp only [cutGo, List.length_nil, List.map_nil, List.sum_nil, Contig]
    refine ⟨trivial, by simp, ?_, ?_, by omega⟩ <;> omega
  | k + 1, piece, off, bl, hk, hoff, hbl, hsp => by
    have hn : base + (if piece < rem then 1 else 0) ≠ 0 := by omega
    have hsucc : (k + 1) * base = k * base + base := Nat.succ_mul k base
    simp only [cutGo, hn, ↓reduceIte]
    obtain ⟨n, hnn⟩ : ∃ n, base + (if piece < rem then 1 else 0) = n := ⟨_, rfl⟩
    rw [hnn]
    have hn1 : n = base ∨ n = base + 1 := by split at hnn <;> omega
    have hoffn : off + n ≤ rows := by split at hnn <;> omega
    -- the bytes given to this piece never exceed what is left
    generalize hb : (if piece + 1 = npieces then bl else rgBytes * n / rows) = b
    have hble : b ≤ bl ∧ (rgBytes - (bl - b)) * rows ≤ rgBytes * (off + n) := by
      by_cases hlast : piece + 1 = npieces
      · simp only [hlast, ↓reduceIte] at hb
        subst hb
        refine ⟨Nat.le_refl _, ?_⟩
        have : rgBytes - (bl - bl) = rgBytes := by omega
        have hk0 : k = 0 := by omega
        have hend : off + n = rows := by
          subst hk0
          simp only [Nat.zero_mul, Nat.zero_add] at hsucc
          split at hnn <;> omega
        rw [this, hend]
        exact Nat.le_refl _
      · simp only [hlast, ↓reduceIte] at hb
        have h1 : b * rows ≤ rgBytes * n := by rw [← hb]; exact Nat.div_mul_le_self _ _
        have h2 : (rgBytes - bl + b) * rows ≤ rgBytes * (off + n) := by
          rw [Nat.add_mul, Nat.mul_add]; omega
        have h3 : rgBytes * (off + n) ≤ rgBytes * rows := Nat.mul_le_mul_left _ hoffn
        have h4 : rgBytes - bl + b ≤ rgBytes := Nat.le_of_mul_le_mul_right (Nat.le_trans h2 h3) hrows
        refine ⟨by omega, ?_⟩
        have : rgBytes - (bl - b) = rgBytes - bl + b := by omega
        rw [this]; exact h2
    have ih := cutGo_spec rgBytes rows npieces base rem hbase hrem hrows k (piece + 1) (off + n) (bl - b)
      (by omega) (by split at hnn <;> omega) (by omega) hble.2
    obtain ⟨ih1, ih2, ih3, ih4, ih5⟩ := ih
    refine ⟨by simp [ih1], ?_, ⟨rfl, ih3⟩, ?_, ?_⟩
    · intro p hp
      rcases List.mem_cons.1 hp with rfl | hp
      · exact hn1
      · exact ih2 p hp
    · simp only [List.map_cons, List.sum_cons]; omega
    · intro _
      simp only [List.map_cons, List.sum_cons]
      by_cases hk0 : 1 ≤ k
      · rw [ih5 hk0]; omega
      · have hk00 : k = 0 := by omega
        subst hk00
        have hlast : piece + 1 = npieces := by omega
        simp only [hlast, ↓reduceIte] at hb
        have : cutGo rgBytes rows npieces base rem 0 (piece + 1) (off + n) (bl - b) = [] := rfl
        rw [this]; simp [hb]

theorem cut_spec (rows rgBytes target : Nat) (hr : 1 ≤ rows) :
    let ps := cut rows rgBytes target
    ps.length = pieces rgBytes rows target ∧
    (∀ p ∈ ps, p.n = rows / ps.length ∨ p.n = rows / ps.length + 1) ∧ (∀ p ∈ ps, 1 ≤ p.n) ∧
    Contig 0 ps rows ∧ (ps.map (·.n)).sum = rows ∧ (ps.map (·.bytes)).sum = rgBytes := by
  have hp1 := pieces_pos rgBytes rows target
  have hp2 := pieces_le_rows rgBytes rows target hr
  generalize hP : pieces rgBytes rows target = P at *
  have hbase : 1 ≤ rows / P := (Nat.le_div_iff_mul_le (by omega)).2 (by omega)
  have hrem : rows % P < P := Nat.mod_lt _ (by omega)
  have hdm : P * (rows / P) + rows % P = rows := Nat.div_add_mod rows P
  have h := cutGo_spec rgBytes rows P (rows / P) (rows % P) hbase hrem (by omega) P 0 0 rgBytes (by omega)
    (by have := hdm; rw [Nat.mul_comm] at this; omega) (Nat.le_refl _) (by simp)
  simp only [cut, hP]
  obtain ⟨h1, h2, h3, h4, h5⟩ := h
  refine ⟨h1, ?_, ?_, h3, by omega, h5 hp1⟩
  · rw [h1]; exact h2
  · intro p hp; rcases h2 p hp with h | h <;> omega

theorem contig_sum : ∀ (start : Nat) (ps : List Piece) (stop : Nat), Contig start ps stop → start + (ps.map (·.n)).sum = stop
  | start, [], stop, h => by simpa [Contig] using h
  | start, p :: ps, stop, h => by
    have := contig_sum (start + p.n) ps stop h.2
    simp only [List.map_cons, List.sum_cons]; omega

/-! ### sorting facts -/

theorem keyLe_trans (a b c : Split) : a.keyLe b = true → b.keyLe c = true → a.keyLe c = true :=
  Lpt.isLE_trans_of Split.keyCmp a b c
theorem keyLe_total (a b : Split) : (a.keyLe b || b.keyLe a) = true := Lpt.isLE_total_of Split.keyCmp a b

theorem nameLe_trans (a b c : FileMeta) : nameLe a b = true → nameLe b c = true → nameLe a c = true :=
  fun h1 h2 => TransCmp.isLE_trans (cmp := (compare : List UInt8 → List UInt8 → Ordering))
    (a := a.name) (b := b.name) (c := c.name) h1 h2
theorem nameLe_total (a b : FileMeta) : (nameLe a b || nameLe b a) = true :=
  Lpt.isLE_total_of (compare : List UInt8 → List UInt8 → Ordering) a.name b.name

theorem sortSplits_eq (l : List Split) : IQE.StableSort.sort Split.keyLe l = l.mergeSort Split.keyLe :=
  IQE.StableSort.sort_eq_mergeSort keyLe_trans keyLe_total l
theorem orderFiles_eq (l : List FileMeta) : orderFiles l = l.mergeSort nameLe :=
  IQE.StableSort.sort_eq_mergeSort nameLe_trans nameLe_total l

theorem eq_of_nodup_map {α β} (f : α → β) : ∀ (l : List α), (l.map f).Nodup → ∀ a ∈ l, ∀ b ∈ l, f a = f b → a = b
  | [], _, a, ha, _, _, _ => by simp at ha
  | x :: xs, hn, a, ha, b, hb, hab => by
    simp only [List.map_cons, List.nodup_cons, List.mem_map, not_exists, not_and] at hn
    rcases List.mem_cons.1 ha with ha1 | ha1
    · rcases List.mem_cons.1 hb with hb1 | hb1
      · rw [ha1, hb1]
      · subst ha1; exact absurd hab.symm (hn.1 b hb1)
    · rcases List.mem_cons.1 hb with hb1 | hb1
      · subst hb1; exact absurd hab (hn.1 a ha1)
      · exact eq_of_nodup_map f xs hn.2 a ha1 b hb1 hab

theorem name_eq_of_le_le (a b : FileMeta) (h1 : nameLe a b = true) (h2 : nameLe b a = true) : a.name = b.name := by
  have := OrientedCmp.isLE_antisymm (cmp := (compare : List UInt8 → List UInt8 → Ordering)) h1 h2
  exact LawfulEqCmp.eq_of_compare this

/-- files with pairwise distinct names have ONE canonical order, whatever order the caller lists them in -/
theorem orderFiles_perm {files files' : List FileMeta} (hp : files'.Perm files) (hn : (files.map (·.name)).Nodup) :
    orderFiles files' = orderFiles files := by
  rw [orderFiles_eq, orderFiles_eq]
  refine List.Perm.eq_of_pairwise (le := fun a b => nameLe a b = true) ?_
    (List.pairwise_mergeSort nameLe_trans nameLe_total _) (List.pairwise_mergeSort nameLe_trans nameLe_total _)
    ((List.mergeSort_perm _ _).trans (hp.trans (List.mergeSort_perm _ _).symm))
  intro a b ha hb h1 h2
  have ha' : a ∈ files := hp.mem_iff.1 (List.mem_mergeSort.1 ha)
  have hb' : b ∈ files := List.mem_mergeSort.1 hb
  exact eq_of_nodup_map (·.name) files hn a ha' b hb' (name_eq_of_le_le a b h1 h2)

theorem hasDup_iff : ∀ l : List (List UInt8), hasDup l = true ↔ ¬ l.Nodup
  | [] => by simp [hasDup]
  | x :: xs => by
    simp only [hasDup, Bool.or_eq_true, List.contains_iff_mem, List.nodup_cons, hasDup_iff xs]
    constructor
    · rintro (h | h) ⟨h1, h2⟩
      · exact h1 h
      · exact h h2
    · intro h
      by_cases hx : x ∈ xs
      · exact Or.inl hx
      · exact Or.inr (fun h2 => h ⟨hx, h2⟩)

theorem hasDup_perm {l l' : List (List UInt8)} (hp : l'.Perm l) : hasDup l' = hasDup l := by
  have h1 := hasDup_iff l'
  have h2 := hasDup_iff l
  have h3 := hp.nodup_iff
  cases h : hasDup l' <;> cases h' : hasDup l <;> simp_all

/-! ### inventory and totals -/

/-- what the footer of one file contributes: its non-empty row groups -/
def liveRgs (f : FileMeta) : List RgMeta := (f.footer.getD []).filter (fun rg => decide (0 < rg.rows))

def tableBytes (files : List FileMeta) : Nat :=
  (files.map fun f => ((liveRgs f).map fun rg => (max rg.bytes 0).toNat).sum).sum
def tableRows (files : List FileMeta) : Nat :=
  (files.map fun f => ((liveRgs f).map fun rg => rg.rows.toNat).sum).sum

theorem rgsOf_bytes (name : List UInt8) : ∀ (rgs : List RgMeta) (i : Nat),
    (((rgs.zipIdx i).filterMap fun (rg, j) => if rg.rows ≤ 0 then none
      else some ({ file := name, index := j, rows := rg.rows.toNat, bytes := (max rg.bytes 0).toNat } : Rg)).map (·.bytes)).sum
    = ((rgs.filter (fun rg => decide (0 < rg.rows))).map fun rg => (max rg.bytes 0).toNat).sum
  | [], _ => by simp
  | rg :: rgs, i => by
    have ih := rgsOf_bytes name rgs (i + 1)
    by_cases h : rg.rows ≤ 0
    · have h' : ¬ 0 < rg.rows := by omega
      simp only [List.zipIdx_cons, List.filterMap_cons, h, ↓reduceIte, List.filter_cons, h', decide_false, Bool.false_eq_true]
      exact ih
    · have h' : 0 < rg.rows := by omega
      simp only [List.zipIdx_cons, List.filterMap_cons, h, ↓reduceIte, List.filter_cons, h', decide_true, List.map_cons, List.sum_cons]
      rw [ih]

theorem rgsOf_rows (name : List UInt8) : ∀ (rgs : List RgMeta) (i : Nat),
    (((rgs.zipIdx i).filterMap fun (rg, j) => if rg.rows ≤ 0 then none
      else some ({ file := name, index := j, rows := rg.rows.toNat, bytes := (max rg.bytes 0).toNat } : Rg)).map (·.rows)).sum
    = ((rgs.filter (fun rg => decide (0 < rg.rows))).map fun rg => rg.rows.toNat).sum
  | [], _ => by simp
  | rg :: rgs, i => by
    have ih := rgsOf_rows name rgs (i + 1)
    by_cases h : rg.rows ≤ 0
    · have h' : ¬ 0 < rg.rows := by omega
      simp only [List.zipIdx_cons, List.filterMap_cons, h, ↓reduceIte, List.filter_cons, h', decide_false, Bool.false_eq_true]
      exact ih
    · have h' : 0 < rg.rows := by omega
      simp only [List.zipIdx_cons, List.filterMap_cons, h, ↓reduceIte, List.filter_cons, h', decide_true, List.map_cons, List.sum_cons]
      rw [ih]

theorem rgsOf_rows_pos (name : List UInt8) (rgs : List RgMeta) : ∀ rg ∈ rgsOf name rgs, 1 ≤ rg.rows := by
  intro rg h
  simp only [rgsOf, List.mem_filterMap] at h
  obtain ⟨⟨m, i⟩, _, hm⟩ := h
  by_cases h0 : m.rows ≤ 0
  · simp [h0] at hm
  · simp only [h0, ↓reduceIte, Option.some.injEq] at hm
    subst hm; simp; omega

theorem inventory_ok : ∀ (fs : List FileMeta) (inv : List Rg), inventory fs = .ok inv →
    (inv.map (·.bytes)).sum = tableBytes fs ∧ (inv.map (·.rows)).sum = tableRows fs ∧ ∀ rg ∈ inv, 1 ≤ rg.rows
  | [], inv, h => by
    simp only [inventory, Except.ok.injEq] at h; subst h; simp [tableBytes, tableRows]
  | f :: fs, inv, h => by
    unfold inventory at h
    cases hf : f.footer with
    | none => simp [hf] at h
    | some rgs =>
      simp only [hf] at h
      cases hr : inventory fs with
      | error e => simp [hr] at h
      | ok rest =>
        simp only [hr, Except.ok.injEq] at h
        subst h
        obtain ⟨ih1, ih2, ih3⟩ := inventory_ok fs rest hr
        refine ⟨?_, ?_, ?_⟩
        · simp only [List.map_append, List.sum_append, ih1, tableBytes, List.map_cons, List.sum_cons, liveRgs, hf, Option.getD_some]
          congr 1
          exact rgsOf_bytes f.name rgs 0
        · simp only [List.map_append, List.sum_append, ih2, tableRows, List.map_cons, List.sum_cons, liveRgs, hf, Option.getD_some]
          congr 1
          exact rgsOf_rows f.name rgs 0
        · intro rg hrg
          rcases List.mem_append.1 hrg with h | h
          · exact rgsOf_rows_pos f.name rgs rg h
          · exact ih3 rg h

theorem tableBytes_perm {fs fs' : List FileMeta} (h : fs'.Perm fs) : tableBytes fs' = tableBytes fs := (h.map _).sum_nat
theorem tableRows_perm {fs fs' : List FileMeta} (h : fs'.Perm fs) : tableRows fs' = tableRows fs := (h.map _).sum_nat

theorem sum_numRows_pieces (table file : List UInt8) (idx : Nat) : ∀ ps : List Piece,
    ((ps.map fun p => ({ table := table, file := file, rowGroup := idx, rowOffset := p.off, numRows := p.n, bytes := p.bytes } : Split)).map
      (·.numRows)).sum = (((ps.map (·.n)).sum : Nat) : Int)
  | [] => rfl
  | p :: ps => by
    simp only [List.map_cons, List.sum_cons, sum_numRows_pieces table file idx ps, Int.natCast_add]

theorem splits_sums (table : List UInt8) (target : Nat) : ∀ inv : List Rg, (∀ rg ∈ inv, 1 ≤ rg.rows) →
    ((inv.flatMap (splitsOfRg table target)).map (·.bytes)).sum = (inv.map (·.bytes)).sum ∧
    ((inv.flatMap (splitsOfRg table target)).map (·.numRows)).sum = (((inv.map (·.rows)).sum : Nat) : Int)
  | [], _ => by simp
  | rg :: inv, h => by
    obtain ⟨ih1, ih2⟩ := splits_sums table target inv (fun r hr => h r (List.mem_cons_of_mem _ hr))
    obtain ⟨_, _, _, _, hs, hb⟩ := cut_spec rg.rows rg.bytes target (h rg List.mem_cons_self)
    refine ⟨?_, ?_⟩
    · simp only [List.flatMap_cons, List.map_append, List.sum_append, ih1, List.map_cons, List.sum_cons]
      congr 1
      simp only [splitsOfRg, List.map_map]
      exact hb
    · simp only [List.flatMap_cons, List.map_append, List.sum_append, ih2, List.map_cons, List.sum_cons]
      rw [Int.natCast_add]
      congr 1
      simp only [splitsOfRg]
      rw [sum_numRows_pieces, hs]

end IQE.Engine.SplitEnum
