/-
  IQE.Lemmas.Cte — lemmas behind IQE.Props.C28:
  * `Spec.run` of the nodes that carry subqueries, restated with an explicit evaluation context (`subCx`);
  * `runDefs` appends exactly one table per definition (`runDefs_spec`);
  * the substitution lemma `run_subst`: on WITH-free plans, running under a stack `S ++ T` equals running the plan with the
    references to `T` replaced by queries `σ` that evaluate (in every environment) to the tables of `T`, under `S`.
-/
import IQE.Engine.Cte
namespace IQE.Lemmas.Cte
open IQE IQE.Spec IQE.Engine.Cte

section
variable (fo : FloatOps) (fns : String → List Val → Except Err Val) (cat : List Table)

/-- the evaluation context of a node whose expressions may hold subqueries `rs`, standing under the CTE stack `ctes` -/
def subCx (rs : List Runner) (ctes : List Table) : EvalCtx :=
  { fo := fo, fn := fns,
    runSub := fun k e => match rs[k]? with | some f => f ctes e | none => .error (.bad "no such subquery") }

theorem subCx_congr (rs1 rs2 : List Runner) (c1 c2 : List Table)
    (h : rs1.map (fun f => f c1) = rs2.map (fun f => f c2)) : subCx fo fns rs1 c1 = subCx fo fns rs2 c2 := by
  unfold subCx
  congr 1
  funext k e
  have hk := congrArg (fun l => l[k]?) h
  simp only [List.getElem?_map] at hk
  cases h1 : rs1[k]? <;> cases h2 : rs2[k]? <;> simp_all

theorem run_filter (subs : List Query) (p : Expr) (q : Query) (ctes : List Table) (env : Env) :
    run fo fns cat (.filter subs p q) ctes env =
      (do let rows ← run fo fns cat q ctes env
          rows.filterMapM fun r => do
            match ← eval (subCx fo fns (runList fo fns cat subs) ctes) (r :: env) p with
            | .bool true => pure (some r)
            | .bool false | .null => pure none
            | _ => .error (.type "WHERE/HAVING predicate is not boolean")) := by
  simp only [run, subCx]
  rfl

theorem run_project (subs : List Query) (es : List Expr) (q : Query) (ctes : List Table) (env : Env) :
    run fo fns cat (.project subs es q) ctes env =
      (do let rows ← run fo fns cat q ctes env
          rows.mapM fun r => evalList (subCx fo fns (runList fo fns cat subs) ctes) (r :: env) es) := by
  simp only [run, subCx]
  rfl

theorem run_join (jt : JoinType) (lw rw : Nat) (subs : List Query) (on : Expr) (l r : Query) (ctes : List Table) (env : Env) :
    run fo fns cat (.join jt lw rw subs on l r) ctes env =
      (do let ls ← run fo fns cat l ctes env
          let rs ← run fo fns cat r ctes env
          joinRows (subCx fo fns (runList fo fns cat subs) ctes) env jt lw rw on ls rs) := by
  simp only [run, subCx]
  rfl

/-! ### `runDefs` -/

/-- `ts` are the tables of the definitions `defs` evaluated left to right over the stack `S`, in EVERY environment -/
def DefsEval : List Table → List Query → List Table → Prop
  | _, [], [] => True
  | S, d :: ds, t :: ts => (∀ env, run fo fns cat d S env = .ok t) ∧ DefsEval (S ++ [t]) ds ts
  | _, _, _ => False

theorem runDefs_of_DefsEval : ∀ (defs : List Query) (S ts : List Table) (env : Env),
    DefsEval fo fns cat S defs ts → runDefs fo fns cat defs S env = .ok (S ++ ts)
  | [], S, [], _, _ => by simp [runDefs]
  | [], _, _ :: _, _, h => by simp [DefsEval] at h
  | _ :: _, _, [], _, h => by simp [DefsEval] at h
  | d :: ds, S, t :: ts, env, h => by
    obtain ⟨h1, h2⟩ := h
    have := runDefs_of_DefsEval ds (S ++ [t]) ts env h2
    have e : S ++ [t] ++ ts = S ++ t :: ts := by simp
    rw [e] at this
    simp only [runDefs, h1 env]
    exact this

/-- `runDefs` only appends: one table per definition, each the value of its definition over the stack so far -/
theorem runDefs_spec : ∀ (defs : List Query) (S S' : List Table) (env : Env),
    runDefs fo fns cat defs S env = .ok S' →
      ∃ ts, S' = S ++ ts ∧ ts.length = defs.length ∧
        ∀ i (hi : i < defs.length), ∃ t, ts[i]? = some t ∧ run fo fns cat defs[i] (S ++ ts.take i) env = .ok t
  | [], S, S', env, h => by
    simp only [runDefs] at h
    cases h
    exact ⟨[], by simp, rfl, fun i hi => by simp at hi⟩
  | d :: ds, S, S', env, h => by
    simp only [runDefs] at h
    cases hd : run fo fns cat d S env with
    | error e => simp [hd] at h; cases h
    | ok t =>
      simp only [hd] at h
      have h' : runDefs fo fns cat ds (S ++ [t]) env = .ok S' := h
      obtain ⟨ts, hS, hl, hi⟩ := runDefs_spec ds (S ++ [t]) S' env h'
      refine ⟨t :: ts, by simp [hS], by simp [hl], ?_⟩
      intro i hilt
      cases i with
      | zero => exact ⟨t, by simp, by simpa using hd⟩
      | succ j =>
        have hj : j < ds.length := by simpa using hilt
        obtain ⟨u, hu1, hu2⟩ := hi j hj
        refine ⟨u, by simpa using hu1, ?_⟩
        simpa [List.append_assoc] using hu2

/-! ### the substitution lemma -/

section subst
variable (S T : List Table) (σ : List Query)
variable (hlen : σ.length = T.length)
variable (hσ : ∀ (k : Nat) (t : Table), T[k]? = some t → ∃ d, σ[k]? = some d ∧ ∀ env, run fo fns cat d S env = .ok t)

include hlen hσ in
theorem run_subst_ref (i : Nat) : run fo fns cat (.cteRef i) (S ++ T) = run fo fns cat (subst S.length σ (.cteRef i)) S := by
  funext env
  by_cases hi : i < S.length
  · simp [run, subst, hi, List.getElem?_append_left hi]
  · have hge : S.length ≤ i := Nat.le_of_not_lt hi
    simp only [subst, hi, if_false]
    cases hT : T[i - S.length]? with
    | none =>
      have hσn : σ[i - S.length]? = none := by
        rw [List.getElem?_eq_none_iff] at hT ⊢; omega
      have hSn : S[i]? = none := by rw [List.getElem?_eq_none_iff]; omega
      simp [run, hσn, List.getElem?_append_right hge, hT, hSn]
    | some t =>
      obtain ⟨d, hd, hrun⟩ := hσ _ _ hT
      simp [run, hd, List.getElem?_append_right hge, hT, hrun env]

set_option linter.unusedSectionVars false in
include hlen hσ in
mutual
theorem run_subst : ∀ (q : Query), noWith q = true →
    run fo fns cat q (S ++ T) = run fo fns cat (subst S.length σ q) S
  | .scan t, _ => by funext env; simp [run, subst]
  | .cteRef i, _ => run_subst_ref fo fns cat S T σ hlen hσ i
  | .values rows, _ => by funext env; simp [run, subst]
  | .filter subs p q, h => by
    simp only [noWith, Bool.and_eq_true] at h
    funext env
    simp only [subst, run_filter, run_subst q h.2, subCx_congr fo fns _ _ _ _ (runList_subst subs h.1)]
  | .project subs es q, h => by
    simp only [noWith, Bool.and_eq_true] at h
    funext env
    simp only [subst, run_project, run_subst q h.2, subCx_congr fo fns _ _ _ _ (runList_subst subs h.1)]
  | .join jt lw rw subs on l r, h => by
    simp only [noWith, Bool.and_eq_true] at h
    funext env
    simp only [subst, run_join, run_subst l h.1.2, run_subst r h.2, subCx_congr fo fns _ _ _ _ (runList_subst subs h.1.1)]
  | .agg keys aggs q, h => by
    simp only [noWith] at h
    funext env; simp only [subst, run, run_subst q h]
  | .groupingSets keys sets aggs q, h => by
    simp only [noWith] at h
    funext env; simp only [subst, run, run_subst q h]
  | .distinct q, h => by
    simp only [noWith] at h
    funext env; simp only [subst, run, run_subst q h]
  | .sort keys q, h => by
    simp only [noWith] at h
    funext env; simp only [subst, run, run_subst q h]
  | .limit s f q, h => by
    simp only [noWith] at h
    funext env; simp only [subst, run, run_subst q h]
  | .setop op all l r, h => by
    simp only [noWith, Bool.and_eq_true] at h
    funext env; simp only [subst, run, run_subst l h.1, run_subst r h.2]
  | .window calls q, h => by
    simp only [noWith] at h
    funext env; simp only [subst, run, run_subst q h]
  | .withCte _ _, h => by simp [noWith] at h
theorem runList_subst : ∀ (qs : List Query), noWithL qs = true →
    (runList fo fns cat qs).map (fun f => f (S ++ T)) = (runList fo fns cat (substL S.length σ qs)).map (fun f => f S)
  | [], _ => by simp [runList, substL]
  | q :: qs, h => by
    simp only [noWithL, Bool.and_eq_true] at h
    simp only [runList, substL, List.map_cons, run_subst q h.1, runList_subst qs h.2]
end
end subst

/-! ### inlining the definitions of one WITH -/

/-- the queries `σ` evaluate, over `S` and in every environment, to the tables `T` -/
def Good (S T : List Table) (σ : List Query) : Prop :=
  σ.length = T.length ∧
    ∀ (k : Nat) (t : Table), T[k]? = some t → ∃ d, σ[k]? = some d ∧ ∀ env, run fo fns cat d S env = .ok t

theorem Good_nil (S : List Table) : Good fo fns cat S [] [] := ⟨rfl, fun k t h => by simp at h⟩

theorem Good_snoc (S T : List Table) (σ : List Query) (d : Query) (t : Table)
    (h : Good fo fns cat S T σ) (hd : ∀ env, run fo fns cat d S env = .ok t) : Good fo fns cat S (T ++ [t]) (σ ++ [d]) := by
  obtain ⟨hl, hg⟩ := h
  refine ⟨by simp [hl], ?_⟩
  intro k u hk
  by_cases hlt : k < T.length
  · rw [List.getElem?_append_left hlt] at hk
    obtain ⟨d', hd', hr⟩ := hg k u hk
    exact ⟨d', by rw [List.getElem?_append_left (by omega)]; exact hd', hr⟩
  · have hge : T.length ≤ k := Nat.le_of_not_lt hlt
    rw [List.getElem?_append_right hge] at hk
    have hk0 : k - T.length = 0 := by
      cases hkk : k - T.length with
      | zero => rfl
      | succ j => rw [hkk] at hk; simp at hk
    rw [hk0] at hk
    simp at hk
    subst hk
    refine ⟨d, ?_, hd⟩
    rw [List.getElem?_append_right (by omega)]
    have : k - σ.length = 0 := by omega
    simp [this]

theorem inlineDefs_good : ∀ (ds : List Query) (S T1 T2 : List Table) (σ : List Query),
    noWithL ds = true → Good fo fns cat S T1 σ → DefsEval fo fns cat (S ++ T1) ds T2 →
      Good fo fns cat S (T1 ++ T2) (inlineDefs S.length σ ds)
  | [], S, T1, [], σ, _, hg, _ => by simpa [inlineDefs] using hg
  | [], _, _, _ :: _, _, _, _, h => by simp [DefsEval] at h
  | _ :: _, _, _, [], _, _, _, h => by simp [DefsEval] at h
  | d :: ds, S, T1, t :: ts, σ, hn, hg, h => by
    simp only [noWithL, Bool.and_eq_true] at hn
    obtain ⟨h1, h2⟩ := h
    have hd : ∀ env, run fo fns cat (subst S.length σ d) S env = .ok t := by
      intro env
      rw [← run_subst fo fns cat S T1 σ hg.1 hg.2 d hn.1]
      exact h1 env
    have hg' := Good_snoc fo fns cat S T1 σ _ t hg hd
    have h2' : DefsEval fo fns cat (S ++ (T1 ++ [t])) ds ts := by simpa [List.append_assoc] using h2
    have := inlineDefs_good ds S (T1 ++ [t]) ts (σ ++ [subst S.length σ d]) hn.2 hg' h2'
    simpa [inlineDefs, List.append_assoc] using this

/-- materialising the definitions of a WITH and then running the body = running the body with every reference replaced
    by its definition (WITH-free definitions and body; definitions that evaluate in every environment) -/
theorem run_with_inline (S T : List Table) (defs : List Query) (body : Query)
    (hd : noWithL defs = true) (hb : noWith body = true) (hE : DefsEval fo fns cat S defs T) (env : Env) :
    run fo fns cat (.withCte defs body) S env = run fo fns cat (Engine.Cte.inline S.length defs body) S env := by
  have hg := inlineDefs_good fo fns cat defs S [] T [] hd (Good_nil fo fns cat S) (by simpa using hE)
  simp only [List.nil_append] at hg
  have := run_subst fo fns cat S T (inlineDefs S.length [] defs) hg.1 hg.2 body hb
  simp only [run, runDefs_of_DefsEval fo fns cat defs S T env hE, Engine.Cte.inline]
  exact congrFun this env

end

/-! ### name resolution: the binder's global map against lexical scoping -/

def keys (σ : Scope) : List String := σ.map (·.1)

def Agree (σ m : Scope) : Prop := ∀ x b, σ.lookup x = some b → m.lookup x = some b
def Frame (D : List String) (m m2 : Scope) : Prop := ∀ x, x ∉ D → m2.lookup x = m.lookup x
def Disj (σ : Scope) (D : List String) : Prop := ∀ x, x ∈ D → x ∉ keys σ

theorem lookup_cons_scope (x n : String) (b : BQ) (σ : Scope) :
    List.lookup x ((n, b) :: σ) = if x = n then some b else σ.lookup x := by
  by_cases h : x = n
  · subst h; simp [List.lookup]
  · have : (x == n) = false := by simpa using h
    simp [List.lookup, this, h]

theorem mem_keys_of_lookup : ∀ (σ : Scope) (x : String) (b : BQ), σ.lookup x = some b → x ∈ keys σ
  | [], _, _, h => by simp [List.lookup] at h
  | (n, c) :: σ, x, b, h => by
    rw [lookup_cons_scope] at h
    by_cases hx : x = n
    · subst hx; simp [keys]
    · simp only [hx, if_false] at h
      have := mem_keys_of_lookup σ x b h
      simp [keys] at this ⊢
      exact Or.inr this

theorem lookup_of_mem_keys : ∀ (σ : Scope) (x : String), x ∈ keys σ → ∃ b, σ.lookup x = some b
  | [], _, h => by simp [keys] at h
  | (n, c) :: σ, x, h => by
    rw [lookup_cons_scope]
    by_cases hx : x = n
    · exact ⟨c, by simp [hx]⟩
    · simp only [hx, if_false]
      apply lookup_of_mem_keys σ x
      simp [keys] at h ⊢
      rcases h with h | h
      · exact absurd h hx
      · exact h

theorem mem_scopeNames : ∀ (ns : List String) (defs : List NQ) (names : List String) (x : String),
    x ∈ scopeNames names ns defs → x ∈ names ∨ x ∈ defNamesD ns defs
  | [], _, names, x, h => by simp [scopeNames] at h; exact Or.inl h
  | _ :: _, [], names, x, h => by simp [scopeNames] at h; exact Or.inl h
  | n :: ns, d :: ds, names, x, h => by
    simp only [scopeNames] at h
    rcases mem_scopeNames ns ds (n :: names) x h with h | h
    · simp at h
      rcases h with h | h
      · exact Or.inr (by simp [defNamesD, h])
      · exact Or.inl h
    · exact Or.inr (by simp [defNamesD, h])

section bind
variable (dev : Dev)

mutual
theorem bindE_unique : ∀ (nq : NQ) (σ m : Scope), Agree σ m → wellScoped (keys σ) nq = true → Disj σ (defNames nq) →
    (defNames nq).Nodup → (bindE dev nq m).1 = bindL σ nq ∧ Frame (defNames nq) m (bindE dev nq m).2
  | .ref n, σ, m, ha, hw, _, _ => by
    simp only [wellScoped, List.contains_iff_mem] at hw
    obtain ⟨b, hb⟩ := lookup_of_mem_keys σ n (by simpa using hw)
    refine ⟨?_, fun x _ => rfl⟩
    simp [bindE, bindL, bindRef, hb, ha n b hb]
  | .node sk kids, σ, m, ha, hw, hd, hn => by
    simp only [wellScoped] at hw
    simp only [defNames] at hd hn
    obtain ⟨h1, h2⟩ := bindEL_unique kids σ m ha hw hd hn
    exact ⟨by simp [bindE, bindL, h1], by simpa [bindE, defNames] using h2⟩
  | .withN ns defs body, σ, m, ha, hw, hd, hn => by
    simp only [wellScoped, Bool.and_eq_true] at hw
    simp only [defNames] at hd hn
    have hnA := (List.nodup_append.mp hn).1
    have hnB := (List.nodup_append.mp hn).2.1
    have hAB := (List.nodup_append.mp hn).2.2
    have hdA : Disj σ (defNamesD ns defs) := fun x hx => hd x (by simp [hx])
    obtain ⟨ha1, hf1, hk1⟩ := bindEDefs_unique ns defs σ m ha hw.1 hdA hnA
    have hdB : Disj (bindLDefs σ ns defs) (defNames body) := by
      intro x hx hxk
      rw [hk1] at hxk
      rcases mem_scopeNames ns defs (keys σ) x hxk with h | h
      · exact hd x (by simp [hx]) h
      · exact hAB x h x hx rfl
    have hwB : wellScoped (keys (bindLDefs σ ns defs)) body = true := by rw [hk1]; exact hw.2
    obtain ⟨h1, h2⟩ := bindE_unique body (bindLDefs σ ns defs) (bindEDefs dev ns defs m) ha1 hwB hdB hnB
    refine ⟨by simp [bindE, bindL, h1], ?_⟩
    intro x hx
    simp only [defNames, List.mem_append, not_or] at hx
    simp only [bindE]
    split
    · rw [h2 x hx.2, hf1 x hx.1]
    · rfl
theorem bindEL_unique : ∀ (kids : List NQ) (σ m : Scope), Agree σ m → wellScopedL (keys σ) kids = true → Disj σ (defNamesL kids) →
    (defNamesL kids).Nodup → (bindEL dev kids m).1 = bindLL σ kids ∧ Frame (defNamesL kids) m (bindEL dev kids m).2
  | [], σ, m, _, _, _, _ => ⟨by simp [bindEL, bindLL], fun x _ => rfl⟩
  | k :: ks, σ, m, ha, hw, hd, hn => by
    simp only [wellScopedL, Bool.and_eq_true] at hw
    simp only [defNamesL] at hd hn
    have hnA := (List.nodup_append.mp hn).1
    have hnB := (List.nodup_append.mp hn).2.1
    have hdA : Disj σ (defNames k) := fun x hx => hd x (by simp [hx])
    have hdB : Disj σ (defNamesL ks) := fun x hx => hd x (by simp [hx])
    obtain ⟨h1, f1⟩ := bindE_unique k σ m ha hw.1 hdA hnA
    have ha2 : Agree σ (bindE dev k m).2 := by
      intro x b hx
      rw [f1 x (fun hmem => hdA x hmem (mem_keys_of_lookup σ x b hx))]
      exact ha x b hx
    obtain ⟨h2, f2⟩ := bindEL_unique ks σ (bindE dev k m).2 ha2 hw.2 hdB hnB
    refine ⟨by simp [bindEL, bindLL, h1, h2], ?_⟩
    intro x hx
    simp only [defNamesL, List.mem_append, not_or] at hx
    simp only [bindEL]
    rw [f2 x hx.2, f1 x hx.1]
theorem bindEDefs_unique : ∀ (ns : List String) (defs : List NQ) (σ m : Scope), Agree σ m →
    wellScopedD (keys σ) ns defs = true → Disj σ (defNamesD ns defs) → (defNamesD ns defs).Nodup →
      Agree (bindLDefs σ ns defs) (bindEDefs dev ns defs m) ∧ Frame (defNamesD ns defs) m (bindEDefs dev ns defs m) ∧
        keys (bindLDefs σ ns defs) = scopeNames (keys σ) ns defs
  | [], _, σ, m, ha, _, _, _ => by
    refine ⟨by simpa [bindLDefs, bindEDefs] using ha, fun x _ => by simp [bindEDefs], by simp [bindLDefs, scopeNames]⟩
  | _ :: _, [], σ, m, ha, _, _, _ => by
    refine ⟨by simpa [bindLDefs, bindEDefs] using ha, fun x _ => by simp [bindEDefs], by simp [bindLDefs, scopeNames]⟩
  | n :: ns, d :: ds, σ, m, ha, hw, hd, hn => by
    simp only [wellScopedD, Bool.and_eq_true] at hw
    simp only [defNamesD] at hd hn
    have hnA := (List.nodup_append.mp hn).1
    have hnB := (List.nodup_append.mp hn).2.1
    have hAB := (List.nodup_append.mp hn).2.2
    have hnC : (defNamesD ns ds).Nodup := (List.nodup_cons.mp hnB).2
    have hnn : n ∉ defNamesD ns ds := (List.nodup_cons.mp hnB).1
    have hdA : Disj σ (defNames d) := fun x hx => hd x (by simp [hx])
    obtain ⟨h1, f1⟩ := bindE_unique d σ m ha hw.1 hdA hnA
    have ha1 : Agree ((n, bindL σ d) :: σ) ((n, (bindE dev d m).1) :: (bindE dev d m).2) := by
      intro x b hx
      rw [lookup_cons_scope] at hx ⊢
      by_cases hxn : x = n
      · simp only [hxn, if_true] at hx ⊢; rw [h1]; exact hx
      · simp only [hxn, if_false] at hx ⊢
        rw [f1 x (fun hmem => hdA x hmem (mem_keys_of_lookup σ x b hx))]
        exact ha x b hx
    have hd1 : Disj ((n, bindL σ d) :: σ) (defNamesD ns ds) := by
      intro x hx hk
      simp only [keys, List.map_cons, List.mem_cons] at hk
      rcases hk with hk | hk
      · exact hnn (hk ▸ hx)
      · exact hd x (by simp [hx]) hk
    have hw1 : wellScopedD (keys ((n, bindL σ d) :: σ)) ns ds = true := by simpa [keys] using hw.2
    obtain ⟨a2, f2, k2⟩ := bindEDefs_unique ns ds ((n, bindL σ d) :: σ) ((n, (bindE dev d m).1) :: (bindE dev d m).2) ha1 hw1 hd1 hnC
    refine ⟨by simpa [bindLDefs, bindEDefs] using a2, ?_, by simpa [bindLDefs, scopeNames, keys] using k2⟩
    intro x hx
    simp only [defNamesD, List.mem_append, List.mem_cons, not_or] at hx
    simp only [bindEDefs]
    rw [f2 x hx.2.2, lookup_cons_scope]
    simp only [hx.2.1, if_false]
    exact f1 x hx.1
end

mutual
/-- with the scope restored at the end of every WITH the binder is lexical resolution, for every statement -/
theorem bindE_restore (h : dev.scopeNeverRestored = false) : ∀ (nq : NQ) (m : Scope), bindE dev nq m = (bindL m nq, m)
  | .ref n, m => by simp [bindE, bindL]
  | .node sk kids, m => by
    have := bindEL_restore h kids m
    simp [bindE, bindL, this]
  | .withN ns defs body, m => by
    have h1 := bindEDefs_restore h ns defs m
    have h2 := bindE_restore h body (bindLDefs m ns defs)
    simp [bindE, bindL, h, h1, h2]
theorem bindEL_restore (h : dev.scopeNeverRestored = false) : ∀ (kids : List NQ) (m : Scope), bindEL dev kids m = (bindLL m kids, m)
  | [], m => by simp [bindEL, bindLL]
  | k :: ks, m => by
    have h1 := bindE_restore h k m
    have h2 := bindEL_restore h ks m
    simp [bindEL, bindLL, h1, h2]
theorem bindEDefs_restore (h : dev.scopeNeverRestored = false) : ∀ (ns : List String) (defs : List NQ) (m : Scope),
    bindEDefs dev ns defs m = bindLDefs m ns defs
  | [], _, m => by simp [bindEDefs, bindLDefs]
  | _ :: _, [], m => by simp [bindEDefs, bindLDefs]
  | n :: ns, d :: ds, m => by
    have h1 := bindE_restore h d m
    have h2 := bindEDefs_restore h ns ds ((n, bindL m d) :: m)
    simp [bindEDefs, bindLDefs, h1, h2]
end
end bind

/-! ### the name-keyed materialisation cache -/

/-- at most one plan per name -/
def Func (l : List (String × BQ)) : Prop := ∀ n x y, (n, x) ∈ l → (n, y) ∈ l → x = y

theorem mem_cands (all : List (String × BQ)) (n : String) (c : BQ) : c ∈ cands all n ↔ (n, c) ∈ all := by
  simp only [cands, List.mem_map, List.mem_filter]
  constructor
  · rintro ⟨⟨m, c'⟩, ⟨hm, hn⟩, hc⟩
    simp at hn hc
    subst hn hc
    exact hm
  · intro h
    exact ⟨(n, c), ⟨h, by simp⟩, rfl⟩

section cache
variable (tw : List Nat) (all : List (String × BQ)) (pick : String → Nat) (hf : Func all)

set_option linter.unusedSectionVars false in
include hf in
mutual
/-- if every name tags copies of ONE plan, reading the cache instead of the tagged copy changes nothing -/
theorem cacheSub_id : ∀ (b : BQ), (∀ p, p ∈ b.aliases → p ∈ all) → cacheSub tw all pick b = b
  | .alias n x, h => by
    simp only [BQ.aliases, List.mem_cons] at h
    have hx : (n, x) ∈ all := h _ (Or.inl rfl)
    simp only [cacheSub]
    split
    · cases hget : (cands all n)[pick n]? with
      | none => simp [trimTo]
      | some c =>
        have hc : (n, c) ∈ all := (mem_cands all n c).mp (List.mem_of_getElem? hget)
        simp [hf n c x hc hx, trimTo]
    · rw [cacheSub_id x (fun p hp => h p (Or.inr hp))]
  | .node sk kids, h => by
    simp only [BQ.aliases] at h
    simp only [cacheSub, cacheSubL_id kids h]
theorem cacheSubL_id : ∀ (bs : List BQ), (∀ p, p ∈ aliasesL bs → p ∈ all) → cacheSubL tw all pick bs = bs
  | [], _ => by simp [cacheSubL]
  | b :: bs, h => by
    simp only [aliasesL, List.mem_append] at h
    simp only [cacheSubL, cacheSub_id b (fun p hp => h p (Or.inl hp)), cacheSubL_id bs (fun p hp => h p (Or.inr hp))]
end
end cache

/-- everything bound in the scope, and every tagged copy inside it, belongs to the universe `U` -/
def Sound (σ : Scope) (U : List (String × BQ)) : Prop :=
  ∀ n b, (n, b) ∈ σ → (n, b) ∈ U ∧ ∀ p, p ∈ b.aliases → p ∈ U

def Fresh (D : List String) (U : List (String × BQ)) : Prop := ∀ x, x ∈ D → ∀ p, p ∈ U → p.1 ≠ x

theorem mem_of_lookup : ∀ (σ : Scope) (x : String) (b : BQ), σ.lookup x = some b → (x, b) ∈ σ
  | [], _, _, h => by simp [List.lookup] at h
  | (n, c) :: σ, x, b, h => by
    rw [lookup_cons_scope] at h
    by_cases hx : x = n
    · simp only [hx, if_true, Option.some.injEq] at h; subst hx h; simp
    · simp only [hx, if_false] at h
      exact List.mem_cons_of_mem _ (mem_of_lookup σ x b h)

theorem Func_mono {l l' : List (String × BQ)} (h : ∀ p, p ∈ l → p ∈ l') (hf : Func l') : Func l :=
  fun n x y hx hy => hf n x y (h _ hx) (h _ hy)

theorem Sound_mono {σ : Scope} {U U' : List (String × BQ)} (h : ∀ p, p ∈ U → p ∈ U') (hs : Sound σ U) : Sound σ U' :=
  fun n b hb => ⟨h _ (hs n b hb).1, fun p hp => h _ ((hs n b hb).2 p hp)⟩

mutual
theorem bindL_func : ∀ (nq : NQ) (σ : Scope) (U : List (String × BQ)), Sound σ U → Func U → Fresh (defNames nq) U →
    (defNames nq).Nodup →
      Func (U ++ (bindL σ nq).aliases) ∧ ∀ p, p ∈ (bindL σ nq).aliases → p ∈ U ∨ p.1 ∈ defNames nq
  | .ref n, σ, U, hs, hf, _, _ => by
    simp only [bindL, bindRef]
    cases hl : σ.lookup n with
    | none => simp [unbound, BQ.aliases, aliasesL]; exact hf
    | some b =>
      have hm := hs n b (mem_of_lookup σ n b hl)
      have hsub : ∀ p, p ∈ (BQ.alias n b).aliases → p ∈ U := by
        intro p hp
        simp only [BQ.aliases, List.mem_cons] at hp
        rcases hp with hp | hp
        · exact hp ▸ hm.1
        · exact hm.2 p hp
      refine ⟨Func_mono (fun p hp => ?_) hf, fun p hp => Or.inl (hsub p hp)⟩
      rcases List.mem_append.mp hp with hp | hp
      · exact hp
      · exact hsub p hp
  | .node sk kids, σ, U, hs, hf, hfr, hn => by
    simp only [defNames] at hfr hn
    simpa [bindL, BQ.aliases, defNames] using bindLL_func kids σ U hs hf hfr hn
  | .withN ns defs body, σ, U, hs, hf, hfr, hn => by
    simp only [defNames] at hfr hn
    have hnA := (List.nodup_append.mp hn).1
    have hnB := (List.nodup_append.mp hn).2.1
    have hAB := (List.nodup_append.mp hn).2.2
    have hfrA : Fresh (defNamesD ns defs) U := fun x hx => hfr x (by simp [hx])
    obtain ⟨U', hs', hf', hsub, hnew⟩ := bindLDefs_func ns defs σ U hs hf hfrA hnA
    have hfrB : Fresh (defNames body) U' := by
      intro x hx p hp hpx
      rcases hnew p hp with h | h
      · exact hfr x (by simp [hx]) p h hpx
      · exact hAB _ h x hx hpx
    obtain ⟨h1, h2⟩ := bindL_func body (bindLDefs σ ns defs) U' hs' hf' hfrB hnB
    simp only [bindL]
    refine ⟨Func_mono (fun p hp => ?_) h1, fun p hp => ?_⟩
    · rcases List.mem_append.mp hp with hp | hp
      · exact List.mem_append.mpr (Or.inl (hsub p hp))
      · exact List.mem_append.mpr (Or.inr hp)
    · rcases h2 p hp with h | h
      · rcases hnew p h with h | h
        · exact Or.inl h
        · exact Or.inr (by simp [defNames, h])
      · exact Or.inr (by simp [defNames, h])
theorem bindLL_func : ∀ (kids : List NQ) (σ : Scope) (U : List (String × BQ)), Sound σ U → Func U → Fresh (defNamesL kids) U →
    (defNamesL kids).Nodup →
      Func (U ++ aliasesL (bindLL σ kids)) ∧ ∀ p, p ∈ aliasesL (bindLL σ kids) → p ∈ U ∨ p.1 ∈ defNamesL kids
  | [], σ, U, _, hf, _, _ => by simp [bindLL, aliasesL]; exact hf
  | k :: ks, σ, U, hs, hf, hfr, hn => by
    simp only [defNamesL] at hfr hn
    have hnA := (List.nodup_append.mp hn).1
    have hnB := (List.nodup_append.mp hn).2.1
    have hAB := (List.nodup_append.mp hn).2.2
    obtain ⟨f1, n1⟩ := bindL_func k σ U hs hf (fun x hx => hfr x (by simp [hx])) hnA
    have hs2 : Sound σ (U ++ (bindL σ k).aliases) := Sound_mono (fun p hp => List.mem_append.mpr (Or.inl hp)) hs
    have hfr2 : Fresh (defNamesL ks) (U ++ (bindL σ k).aliases) := by
      intro x hx p hp hpx
      rcases List.mem_append.mp hp with hp | hp
      · exact hfr x (by simp [hx]) p hp hpx
      · rcases n1 p hp with h | h
        · exact hfr x (by simp [hx]) p h hpx
        · exact hAB _ h x hx hpx
    obtain ⟨f2, n2⟩ := bindLL_func ks σ (U ++ (bindL σ k).aliases) hs2 f1 hfr2 hnB
    simp only [bindLL, aliasesL, defNamesL]
    refine ⟨by simpa [List.append_assoc] using f2, fun p hp => ?_⟩
    rcases List.mem_append.mp hp with hp | hp
    · rcases n1 p hp with h | h
      · exact Or.inl h
      · exact Or.inr (by simp [h])
    · rcases n2 p hp with h | h
      · rcases List.mem_append.mp h with h | h
        · exact Or.inl h
        · rcases n1 p h with h | h
          · exact Or.inl h
          · exact Or.inr (by simp [h])
      · exact Or.inr (by simp [h])
theorem bindLDefs_func : ∀ (ns : List String) (defs : List NQ) (σ : Scope) (U : List (String × BQ)), Sound σ U → Func U →
    Fresh (defNamesD ns defs) U → (defNamesD ns defs).Nodup →
      ∃ U', Sound (bindLDefs σ ns defs) U' ∧ Func U' ∧ (∀ p, p ∈ U → p ∈ U') ∧ (∀ p, p ∈ U' → p ∈ U ∨ p.1 ∈ defNamesD ns defs)
  | [], _, σ, U, hs, hf, _, _ => ⟨U, by simpa [bindLDefs] using hs, hf, fun _ h => h, fun _ h => Or.inl h⟩
  | _ :: _, [], σ, U, hs, hf, _, _ => ⟨U, by simpa [bindLDefs] using hs, hf, fun _ h => h, fun _ h => Or.inl h⟩
  | n :: ns, d :: ds, σ, U, hs, hf, hfr, hn => by
    simp only [defNamesD] at hfr hn
    have hnA := (List.nodup_append.mp hn).1
    have hnB := (List.nodup_append.mp hn).2.1
    have hAB := (List.nodup_append.mp hn).2.2
    have hnC : (defNamesD ns ds).Nodup := (List.nodup_cons.mp hnB).2
    have hnn : n ∉ defNamesD ns ds := (List.nodup_cons.mp hnB).1
    have hnd : n ∉ defNames d := fun h => hAB _ h n (by simp) rfl
    obtain ⟨f1, n1⟩ := bindL_func d σ U hs hf (fun x hx => hfr x (by simp [hx])) hnA
    let U1 := (U ++ (bindL σ d).aliases) ++ [(n, bindL σ d)]
    have hfU1 : Func U1 := by
      have hfreshn : ∀ y, (n, y) ∈ U ++ (bindL σ d).aliases → False := by
        intro y hy
        rcases List.mem_append.mp hy with hy | hy
        · exact hfr n (by simp) _ hy rfl
        · rcases n1 _ hy with h | h
          · exact hfr n (by simp) _ h rfl
          · exact hnd h
      intro m x y hx hy
      rcases List.mem_append.mp hx with hx | hx <;> rcases List.mem_append.mp hy with hy | hy
      · exact f1 m x y hx hy
      · simp at hy; exact (hfreshn x (hy.1 ▸ hx)).elim
      · simp at hx; exact (hfreshn y (hx.1 ▸ hy)).elim
      · simp at hx hy; rw [hx.2, hy.2]
    have hsU1 : Sound ((n, bindL σ d) :: σ) U1 := by
      intro m b hb
      rcases List.mem_cons.mp hb with hb | hb
      · cases hb
        exact ⟨by simp [U1], fun p hp => by simp [U1, hp]⟩
      · exact Sound_mono (fun p hp => by simp [U1, hp]) hs m b hb
    have hfrU1 : Fresh (defNamesD ns ds) U1 := by
      intro x hx p hp hpx
      rcases List.mem_append.mp hp with hp | hp
      · rcases List.mem_append.mp hp with hp | hp
        · exact hfr x (by simp [hx]) p hp hpx
        · rcases n1 p hp with h | h
          · exact hfr x (by simp [hx]) p h hpx
          · exact hAB _ h x (by simp [hx]) hpx
      · simp at hp; subst hp; simp at hpx; exact hnn (hpx ▸ hx)
    obtain ⟨U', s', f', sub', new'⟩ := bindLDefs_func ns ds ((n, bindL σ d) :: σ) U1 hsU1 hfU1 hfrU1 hnC
    refine ⟨U', by simpa [bindLDefs] using s', f', fun p hp => sub' p (by simp [U1, hp]), fun p hp => ?_⟩
    rcases new' p hp with h | h
    · rcases List.mem_append.mp h with h | h
      · rcases List.mem_append.mp h with h | h
        · exact Or.inl h
        · rcases n1 p h with h | h
          · exact Or.inl h
          · exact Or.inr (by simp [defNamesD, h])
      · simp at h; subst h; exact Or.inr (by simp [defNamesD])
    · exact Or.inr (by simp [defNamesD, h])
end

/-- with unique names every name tags copies of one plan in the lexically bound statement -/
theorem bindL_aliases_func (nq : NQ) (hn : (defNames nq).Nodup) : Func (bindL [] nq).aliases := by
  have := (bindL_func nq [] [] (fun _ _ h => by simp at h) (fun _ _ _ h => by simp at h) (fun _ _ _ h => by simp at h) hn).1
  simpa using this

end IQE.Lemmas.Cte
