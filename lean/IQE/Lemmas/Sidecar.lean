import IQE.Engine.Sidecar
namespace IQE.Engine.Sidecar

theorem updB_same (f : Nat → BPhase) (i : Nat) (v : BPhase) : updB f i v i = v := by simp [updB]
theorem updB_other (f : Nat → BPhase) (i j : Nat) (v : BPhase) (h : j ≠ i) : updB f i v j = f j := by simp [updB, h]
theorem updR_same (f : Nat → RPhase) (i : Nat) (v : RPhase) : updR f i v i = v := by simp [updR]
theorem updR_other (f : Nat → RPhase) (i j : Nat) (v : RPhase) (h : j ≠ i) : updR f i v j = f j := by simp [updR, h]

theorem allComplete_filter (d : Dir) (p : Nat × Bool → Bool) (h : d.allComplete = true) :
    ({ d with rgs := d.rgs.filter p } : Dir).allComplete = true := by
  simp only [Dir.allComplete, List.all_eq_true] at h ⊢
  intro x hx
  exact h x (List.mem_filter.1 hx).1

theorem not_partial_of_allComplete (d : Dir) (k : Nat) (h : d.allComplete = true) : (k, false) ∉ d.rgs := by
  intro hm
  simp only [Dir.allComplete, List.all_eq_true] at h
  have := h _ hm
  simp at this

/-! ### any number of processes: no reader ever maps a partially written file -/

structure InvP (s : State) : Prop where
  finalWhole : ∀ d, s.final = some d → d.allComplete = true
  stagedWhole : ∀ i st, (s.bph i = .removing st ∨ s.bph i = .renaming st) → st.allComplete = true
  noPartial : ∀ j, s.rph j ≠ .sawPartial

theorem invP_step (n : Nat) (proc : Nat → Nat) (s t : State) (inv : InvP s) (h : Step n proc s t) : InvP t := by
  have keepB : ∀ (i : Nat) (v : BPhase), (∀ st, v ≠ .removing st) → (∀ st, v ≠ .renaming st) →
      ∀ i' st, (updB s.bph i v i' = .removing st ∨ updB s.bph i v i' = .renaming st) → st.allComplete = true := by
    intro i v h1 h2 i' st hh
    by_cases e : i' = i
    · subst e; rw [updB_same] at hh; rcases hh with hh | hh
      · exact absurd hh (h1 st)
      · exact absurd hh (h2 st)
    · rw [updB_other _ _ _ _ e] at hh; exact inv.stagedWhole i' st hh
  have keepR : ∀ (j : Nat) (v : RPhase), v ≠ .sawPartial → ∀ j', updR s.rph j v j' ≠ .sawPartial := by
    intro j v hv j'
    by_cases e : j' = j
    · subst e; rw [updR_same]; exact hv
    · rw [updR_other _ _ _ _ e]; exact inv.noPartial j'
  cases h with
  | check1Fresh i h1 h2 => exact ⟨inv.finalWhole, keepB i _ (by simp) (by simp), inv.noPartial⟩
  | check1Stale i h1 h2 => exact ⟨inv.finalWhole, keepB i _ (by simp) (by simp), inv.noPartial⟩
  | acquire i h1 h2 => exact ⟨inv.finalWhole, keepB i _ (by simp) (by simp), inv.noPartial⟩
  | check2Fresh i h1 h2 => exact ⟨inv.finalWhole, keepB i _ (by simp) (by simp), inv.noPartial⟩
  | check2Stale i h1 h2 => exact ⟨inv.finalWhole, keepB i _ (by simp) (by simp), inv.noPartial⟩
  | createRg i st k h1 h2 h3 => exact ⟨inv.finalWhole, keepB i _ (by simp) (by simp), inv.noPartial⟩
  | finishRg i st k h1 => exact ⟨inv.finalWhole, keepB i _ (by simp) (by simp), inv.noPartial⟩
  | writeComplete i st h1 h2 h3 =>
    refine ⟨inv.finalWhole, ?_, inv.noPartial⟩
    intro i' st' hh
    by_cases e : i' = i
    · subst e
      simp only [updB_same] at hh
      rcases hh with hh | hh
      · injection hh with hh; subst hh; exact h3
      · cases hh
    · simp only [updB_other _ _ _ _ e] at hh; exact inv.stagedWhole i' st' hh
  | unlinkRg i st d k h1 h2 =>
    refine ⟨?_, inv.stagedWhole, inv.noPartial⟩
    intro d' hd'
    injection hd' with hd'; subst hd'
    exact allComplete_filter d _ (inv.finalWhole d h2)
  | unlinkComplete i st d h1 h2 =>
    refine ⟨?_, inv.stagedWhole, inv.noPartial⟩
    intro d' hd'
    injection hd' with hd'; subst hd'
    exact inv.finalWhole d h2
  | rmdir i st d h1 h2 h3 h4 => exact ⟨(by intro d' hd'; cases hd'), inv.stagedWhole, inv.noPartial⟩
  | removeEnds i st h1 =>
    refine ⟨inv.finalWhole, ?_, inv.noPartial⟩
    intro i' st' hh
    by_cases e : i' = i
    · subst e
      simp only [updB_same] at hh
      rcases hh with hh | hh
      · cases hh
      · injection hh with hh; subst hh; exact inv.stagedWhole i' st (Or.inl h1)
    · simp only [updB_other _ _ _ _ e] at hh; exact inv.stagedWhole i' st' hh
  | renameOk i st h1 h2 =>
    refine ⟨?_, keepB i _ (by simp) (by simp), inv.noPartial⟩
    intro d' hd'
    injection hd' with hd'; subst hd'
    exact inv.stagedWhole i st (Or.inr h1)
  | renameFails i st d h1 h2 h3 => exact ⟨inv.finalWhole, keepB i _ (by simp) (by simp), inv.noPartial⟩
  | readFresh j h1 h2 => exact ⟨inv.finalWhole, inv.stagedWhole, keepR j _ (by simp)⟩
  | readStale j h1 h2 => exact ⟨inv.finalWhole, inv.stagedWhole, keepR j _ (by simp)⟩
  | openOk j o d k h1 h2 h3 => exact ⟨inv.finalWhole, inv.stagedWhole, keepR j _ (by simp)⟩
  | openPartial j o d k h1 h2 h3 => exact absurd h3 (not_partial_of_allComplete d k (inv.finalWhole d h2))
  | openMissing j o k h1 h2 h3 => exact ⟨inv.finalWhole, inv.stagedWhole, keepR j _ (by simp)⟩

theorem invP_reach (n : Nat) (proc : Nat → Nat) (s0 s : State) (h0 : Init n s0) (h : Reach n proc s0 s) : InvP s := by
  induction h with
  | refl =>
    refine ⟨fun d hd => (h0.final d hd).1, ?_, ?_⟩
    · intro i st hh; rw [h0.builders i] at hh; rcases hh with hh | hh <;> cases hh
    · intro j; rw [h0.readers j]; simp
  | step _ hs ih => exact invP_step n proc _ _ ih hs

/-! ### one process (BUILD_LOCK): a reader that saw a fresh `.complete` opens every row group, whole -/

structure InvI (n : Nat) (proc : Nat → Nat) (s : State) : Prop where
  mutex : ∀ i, critical (s.bph i) = true → s.lock (proc i) = some i
  staged : ∀ i st, (s.bph i = .removing st ∨ s.bph i = .renaming st) → st.complete = some .fresh ∧ st.full n = true ∧ st.allComplete = true
  freshFull : isFresh s.final = true → (∃ d, s.final = some d ∧ d.full n = true ∧ d.allComplete = true) ∧ ∀ i, mutating (s.bph i) = false
  readersFresh : ∀ j o, s.rph j = .reading o → isFresh s.final = true
  noFail : ∀ j, s.rph j ≠ .failed ∧ s.rph j ≠ .sawPartial

theorem has_of_full (n : Nat) (d : Dir) (k : Nat) (hf : d.full n = true) (hk : k < n) : d.has k = true := by
  simp only [Dir.full, List.all_eq_true] at hf
  exact hf k (List.mem_range.2 hk)

theorem critical_of_mutating (p : BPhase) (h : mutating p = true) : critical p = true := by
  cases p <;> simp_all [mutating, critical]

theorem invI_step (n : Nat) (proc : Nat → Nat) (hproc : ∀ i j, proc i = proc j) (s t : State) (inv : InvI n proc s)
    (h : Step n proc s t) : InvI n proc t := by
  -- a builder in a mutating phase excludes a fresh final directory
  have notFresh : ∀ i, mutating (s.bph i) = true → isFresh s.final = false := by
    intro i hm
    cases hf : isFresh s.final with
    | false => rfl
    | true => have := (inv.freshFull hf).2 i; rw [hm] at this; cases this
  -- generic builder-phase update with unchanged final and lock
  have updCase : ∀ (i : Nat) (v : BPhase), (critical v = true → critical (s.bph i) = true) →
      (∀ st, (v = .removing st ∨ v = .renaming st) → st.complete = some .fresh ∧ st.full n = true ∧ st.allComplete = true) →
      (isFresh s.final = true → mutating v = false) →
      InvI n proc { s with bph := updB s.bph i v } := by
    intro i v hc hs hm
    refine ⟨?_, ?_, ?_, inv.readersFresh, inv.noFail⟩
    · intro i' hcr
      by_cases e : i' = i
      · subst e; simp only [updB_same] at hcr; exact inv.mutex i' (hc hcr)
      · simp only [updB_other _ _ _ _ e] at hcr; exact inv.mutex i' hcr
    · intro i' st hh
      by_cases e : i' = i
      · subst e; simp only [updB_same] at hh; exact hs st hh
      · simp only [updB_other _ _ _ _ e] at hh; exact inv.staged i' st hh
    · intro hf
      refine ⟨(inv.freshFull hf).1, ?_⟩
      intro i'
      by_cases e : i' = i
      · subst e; simp only [updB_same]; exact hm hf
      · simp only [updB_other _ _ _ _ e]; exact (inv.freshFull hf).2 i'
  -- releasing the lock: every other critical builder runs in another process — impossible here, so nothing else is critical
  have release : ∀ (i : Nat), critical (s.bph i) = true → ∀ i', i' ≠ i → critical (s.bph i') = false := by
    intro i hci i' hne
    cases hc : critical (s.bph i') with
    | false => rfl
    | true =>
      have h1 := inv.mutex i' hc
      have h2 := inv.mutex i hci
      rw [hproc i' i, h2] at h1
      injection h1 with h1
      exact absurd h1.symm hne
  -- readers keep their phase and the final directory: generic reader update
  have updReader : ∀ (j : Nat) (v : RPhase), (∀ o, v = .reading o → isFresh s.final = true) → v ≠ .failed → v ≠ .sawPartial →
      InvI n proc { s with rph := updR s.rph j v } := by
    intro j v hr h1 h2
    refine ⟨inv.mutex, inv.staged, inv.freshFull, ?_, ?_⟩
    · intro j' o ho
      by_cases e : j' = j
      · subst e; simp only [updR_same] at ho; exact hr o ho
      · simp only [updR_other _ _ _ _ e] at ho; exact inv.readersFresh j' o ho
    · intro j'
      by_cases e : j' = j
      · subst e; simp only [updR_same]; exact ⟨h1, h2⟩
      · simp only [updR_other _ _ _ _ e]; exact inv.noFail j'
  cases h with
  | check1Fresh i h1 h2 => exact updCase i _ (by simp [critical]) (by intro st hh; rcases hh with hh | hh <;> cases hh) (by simp [mutating])
  | check1Stale i h1 h2 => exact updCase i _ (by simp [critical]) (by intro st hh; rcases hh with hh | hh <;> cases hh) (by simp [mutating])
  | acquire i h1 h2 =>
    refine ⟨?_, ?_, ?_, inv.readersFresh, inv.noFail⟩
    · intro i' hcr
      by_cases e : i' = i
      · subst e; simp [updL]
      · simp only [updB_other _ _ _ _ e] at hcr
        have := inv.mutex i' hcr
        rw [hproc i' i, h2] at this; cases this
    · intro i' st hh
      by_cases e : i' = i
      · subst e; simp only [updB_same] at hh; rcases hh with hh | hh <;> cases hh
      · simp only [updB_other _ _ _ _ e] at hh; exact inv.staged i' st hh
    · intro hf
      refine ⟨(inv.freshFull hf).1, ?_⟩
      intro i'
      by_cases e : i' = i
      · subst e; simp [updB_same, mutating]
      · simp only [updB_other _ _ _ _ e]; exact (inv.freshFull hf).2 i'
  | check2Fresh i h1 h2 =>
    have hci : critical (s.bph i) = true := by rw [h1]; rfl
    refine ⟨?_, ?_, ?_, inv.readersFresh, inv.noFail⟩
    · intro i' hcr
      by_cases e : i' = i
      · subst e; simp [updB_same, critical] at hcr
      · simp only [updB_other _ _ _ _ e] at hcr
        rw [release i hci i' e] at hcr; cases hcr
    · intro i' st hh
      by_cases e : i' = i
      · subst e; simp only [updB_same] at hh; rcases hh with hh | hh <;> cases hh
      · simp only [updB_other _ _ _ _ e] at hh; exact inv.staged i' st hh
    · intro hf
      refine ⟨(inv.freshFull hf).1, ?_⟩
      intro i'
      by_cases e : i' = i
      · subst e; simp [updB_same, mutating]
      · simp only [updB_other _ _ _ _ e]; exact (inv.freshFull hf).2 i'
  | check2Stale i h1 h2 =>
    exact updCase i _ (by intro _; rw [h1]; rfl) (by intro st hh; rcases hh with hh | hh <;> cases hh) (by intro hf; rw [h2] at hf; cases hf)
  | createRg i st k h1 h2 h3 =>
    have hn := notFresh i (by rw [h1]; rfl)
    exact updCase i _ (by intro _; rw [h1]; rfl) (by intro st hh; rcases hh with hh | hh <;> cases hh) (by intro hf; rw [hn] at hf; cases hf)
  | finishRg i st k h1 =>
    have hn := notFresh i (by rw [h1]; rfl)
    exact updCase i _ (by intro _; rw [h1]; rfl) (by intro st hh; rcases hh with hh | hh <;> cases hh) (by intro hf; rw [hn] at hf; cases hf)
  | writeComplete i st h1 h2 h3 =>
    have hn := notFresh i (by rw [h1]; rfl)
    refine updCase i _ (by intro _; rw [h1]; rfl) ?_ (by intro hf; rw [hn] at hf; cases hf)
    intro st' hh
    rcases hh with hh | hh
    · injection hh with hh; subst hh; exact ⟨rfl, h2, h3⟩
    · cases hh
  | unlinkRg i st d k h1 h2 =>
    have hn := notFresh i (by rw [h1]; rfl)
    have hn' : isFresh (some { d with rgs := d.rgs.filter fun p => p.1 != k }) = false := by
      rw [h2] at hn; simpa [isFresh] using hn
    refine ⟨inv.mutex, inv.staged, ?_, ?_, inv.noFail⟩
    · intro hf; rw [hn'] at hf; cases hf
    · intro j o ho; have := inv.readersFresh j o ho; rw [hn] at this; cases this
  | unlinkComplete i st d h1 h2 =>
    have hn := notFresh i (by rw [h1]; rfl)
    refine ⟨inv.mutex, inv.staged, ?_, ?_, inv.noFail⟩
    · intro hf; simp [isFresh] at hf
    · intro j o ho; have := inv.readersFresh j o ho; rw [hn] at this; cases this
  | rmdir i st d h1 h2 h3 h4 =>
    have hn := notFresh i (by rw [h1]; rfl)
    refine ⟨inv.mutex, inv.staged, ?_, ?_, inv.noFail⟩
    · intro hf; simp [isFresh] at hf
    · intro j o ho; have := inv.readersFresh j o ho; rw [hn] at this; cases this
  | removeEnds i st h1 =>
    have hn := notFresh i (by rw [h1]; rfl)
    refine updCase i _ (by intro _; rw [h1]; rfl) ?_ (by intro hf; rw [hn] at hf; cases hf)
    intro st' hh
    rcases hh with hh | hh
    · cases hh
    · injection hh with hh; subst hh; exact inv.staged i st (Or.inl h1)
  | renameOk i st h1 h2 =>
    have hci : critical (s.bph i) = true := by rw [h1]; rfl
    obtain ⟨hs1, hs2, hs3⟩ := inv.staged i st (Or.inr h1)
    refine ⟨?_, ?_, ?_, ?_, inv.noFail⟩
    · intro i' hcr
      by_cases e : i' = i
      · subst e; simp [updB_same, critical] at hcr
      · simp only [updB_other _ _ _ _ e] at hcr
        rw [release i hci i' e] at hcr; cases hcr
    · intro i' st' hh
      by_cases e : i' = i
      · subst e; simp only [updB_same] at hh; rcases hh with hh | hh <;> cases hh
      · simp only [updB_other _ _ _ _ e] at hh; exact inv.staged i' st' hh
    · intro _
      refine ⟨⟨st, rfl, hs2, hs3⟩, ?_⟩
      intro i'
      by_cases e : i' = i
      · subst e; simp [updB_same, mutating]
      · simp only [updB_other _ _ _ _ e]
        cases hm : mutating (s.bph i') with
        | false => rfl
        | true => have := release i hci i' e; rw [critical_of_mutating _ hm] at this; cases this
    · intro j o _; simp [isFresh, hs1]
  | renameFails i st d h1 h2 h3 =>
    have hci : critical (s.bph i) = true := by rw [h1]; rfl
    have hn := notFresh i (by rw [h1]; rfl)
    refine ⟨?_, ?_, ?_, inv.readersFresh, inv.noFail⟩
    · intro i' hcr
      by_cases e : i' = i
      · subst e; simp [updB_same, critical] at hcr
      · simp only [updB_other _ _ _ _ e] at hcr
        rw [release i hci i' e] at hcr; cases hcr
    · intro i' st' hh
      by_cases e : i' = i
      · subst e; simp only [updB_same] at hh; rcases hh with hh | hh <;> cases hh
      · simp only [updB_other _ _ _ _ e] at hh; exact inv.staged i' st' hh
    · intro hf; rw [hn] at hf; cases hf
  | readFresh j h1 h2 => exact updReader j _ (by intro o _; exact h2) (by simp) (by simp)
  | readStale j h1 h2 => exact updReader j _ (by intro o ho; cases ho) (by simp) (by simp)
  | openOk j o d k h1 h2 h3 => exact updReader j _ (by intro o' _; exact inv.readersFresh j o h1) (by simp) (by simp)
  | openPartial j o d k h1 h2 h3 =>
    obtain ⟨⟨d', hd', _, hall⟩, _⟩ := inv.freshFull (inv.readersFresh j o h1)
    rw [h2] at hd'; injection hd' with hd'; subst hd'
    exact absurd h3 (not_partial_of_allComplete d k hall)
  | openMissing j o k h1 h2 h3 =>
    obtain ⟨⟨d', hd', hfull, _⟩, _⟩ := inv.freshFull (inv.readersFresh j o h1)
    have := h3 d' hd'
    rw [has_of_full n d' k hfull h2] at this; cases this

theorem invI_reach (n : Nat) (proc : Nat → Nat) (hproc : ∀ i j, proc i = proc j) (s0 s : State) (h0 : Init n s0)
    (h : Reach n proc s0 s) : InvI n proc s := by
  induction h with
  | refl =>
    refine ⟨?_, ?_, ?_, ?_, ?_⟩
    · intro i hc; rw [h0.builders i] at hc; cases hc
    · intro i st hh; rw [h0.builders i] at hh; rcases hh with hh | hh <;> cases hh
    · intro hf
      cases hfin : s0.final with
      | none => rw [hfin] at hf; cases hf
      | some d =>
        rw [hfin] at hf
        have hc : d.complete = some .fresh := by simpa [isFresh] using hf
        exact ⟨⟨d, rfl, (h0.final d hfin).2 hc, (h0.final d hfin).1⟩, fun i => by rw [h0.builders i]; rfl⟩
    · intro j o ho; rw [h0.readers j] at ho; cases ho
    · intro j; rw [h0.readers j]; simp
  | step _ hs ih => exact invI_step n proc hproc _ _ ih hs

theorem chunksFuel_spec {α : Type} (to : Nat) (hto : 0 < to) : ∀ (fuel : Nat) (l : List α), l.length ≤ fuel →
    (chunksFuel to fuel l).flatten = l ∧ ∀ c ∈ chunksFuel to fuel l, c ≠ [] ∧ c.length ≤ to := by
  intro fuel
  induction fuel with
  | zero =>
    intro l hl
    have : l = [] := List.length_eq_zero_iff.1 (Nat.le_zero.1 hl)
    subst this
    exact ⟨rfl, by simp [chunksFuel]⟩
  | succ f ih =>
    intro l hl
    cases l with
    | nil => exact ⟨by simp [chunksFuel], by simp [chunksFuel]⟩
    | cons x xs =>
      have hd : ((x :: xs).drop to).length ≤ f := by simp only [List.length_drop, List.length_cons] at hl ⊢; omega
      obtain ⟨h1, h2⟩ := ih _ hd
      simp only [chunksFuel, List.isEmpty_cons, Bool.false_eq_true, if_false]
      refine ⟨?_, ?_⟩
      · rw [List.flatten_cons, h1, List.take_append_drop]
      · intro c hc
        rcases List.mem_cons.1 hc with rfl | hc
        · refine ⟨?_, List.length_take_le _ _⟩
          cases to with
          | zero => omega
          | succ t => simp
        · exact h2 c hc


end IQE.Engine.Sidecar
