/-
  Lemmas for C04: `Spec.run` sees only the BAG of rows of each table (and of each CTE in scope), for the plan fragment
  `LayoutFrag` (scan, CTE reference, WHERE / projection / joins without subquery expressions, UNION ALL, DISTINCT).
  One direction is proved ("if the run over layout 1 succeeds with t₁, the run over layout 2 succeeds with some t₂ ~ t₁");
  applied twice (Perm is symmetric) it gives both the equality of answers and "no new errors".
  Reuses IQE.Lemmas.{Bag, JoinDecomp, Subquery}.
-/
import IQE.Lemmas.Subquery
namespace IQE.Layout
open List IQE IQE.Spec IQE.Bag IQE.Join IQE.Subq

variable {α β : Type}

/-! ### `mapM` / `filterMapM` in `Except` over permuted inputs -/

theorem mapM_ok_mem {ε : Type} (f : α → Except ε β) : ∀ (l : List α) (o : List β), l.mapM f = .ok o →
    ∀ a ∈ l, ∃ b, f a = .ok b := by
  intro l
  induction l with
  | nil => intro o _ a ha; simp at ha
  | cons x xs ih =>
    intro o h a ha
    rw [List.mapM_cons] at h
    cases hx : f x with
    | error e => rw [hx] at h; cases h
    | ok b =>
      rw [hx] at h
      cases hxs : xs.mapM f with
      | error e => rw [hxs] at h; cases h
      | ok bs =>
        rcases List.mem_cons.mp ha with rfl | ha'
        · exact ⟨b, hx⟩
        · exact ih bs hxs a ha'

theorem filterMapM_ok_mem {ε : Type} (f : α → Except ε (Option β)) : ∀ (l : List α) (o : List β),
    l.filterMapM f = .ok o → ∀ a ∈ l, ∃ b, f a = .ok b := by
  intro l
  induction l with
  | nil => intro o _ a ha; simp at ha
  | cons x xs ih =>
    intro o h a ha
    rw [List.filterMapM_cons] at h
    cases hx : f x with
    | error e => rw [hx] at h; cases h
    | ok b =>
      rw [hx] at h
      cases hxs : xs.filterMapM f with
      | error e => rw [hxs] at h; cases b <;> cases h
      | ok bs =>
        rcases List.mem_cons.mp ha with rfl | ha'
        · exact ⟨b, hx⟩
        · exact ih bs hxs a ha'

/-- the value a successful call returns (any default elsewhere) -/
def valOf {ε : Type} [Inhabited β] (f : α → Except ε β) (a : α) : β :=
  match f a with | .ok b => b | .error _ => default

theorem valOf_spec {ε : Type} [Inhabited β] (f : α → Except ε β) (a : α) (h : ∃ b, f a = .ok b) :
    f a = .ok (valOf f a) := by
  obtain ⟨b, hb⟩ := h
  simp [valOf, hb]

theorem mapM_perm {ε : Type} [Inhabited β] (f : α → Except ε β) {l₁ l₂ : List α} (hp : l₁ ~ l₂) (o₁ : List β)
    (h : l₁.mapM f = .ok o₁) : ∃ o₂, l₂.mapM f = .ok o₂ ∧ o₁ ~ o₂ := by
  have hall := mapM_ok_mem f l₁ o₁ h
  have e₁ := Bag.mapM_ok f (valOf f) l₁ (fun a ha => valOf_spec f a (hall a ha))
  have e₂ := Bag.mapM_ok f (valOf f) l₂ (fun a ha => valOf_spec f a (hall a (hp.mem_iff.mpr ha)))
  rw [e₁] at h
  cases h
  exact ⟨_, e₂, hp.map _⟩

theorem filterMapM_perm {ε : Type} (f : α → Except ε (Option β)) {l₁ l₂ : List α} (hp : l₁ ~ l₂) (o₁ : List β)
    (h : l₁.filterMapM f = .ok o₁) : ∃ o₂, l₂.filterMapM f = .ok o₂ ∧ o₁ ~ o₂ := by
  have hall := filterMapM_ok_mem f l₁ o₁ h
  have e₁ := Bag.filterMapM_ok f (valOf f) l₁ (fun a ha => valOf_spec f a (hall a ha))
  have e₂ := Bag.filterMapM_ok f (valOf f) l₂ (fun a ha => valOf_spec f a (hall a (hp.mem_iff.mpr ha)))
  rw [e₁] at h
  cases h
  exact ⟨_, e₂, hp.filterMap _⟩

/-! ### joins: a successful `joinRows` evaluated ON on every pair -/

theorem matchesOf_ok_pairs (cx : EvalCtx) (env : Env) (on : Expr) (l : Row) (rs t : Table)
    (h : matchesOf cx env on l rs = .ok t) : ∀ r ∈ rs, ∃ b, onTrue cx env on (l ++ r) = .ok b := by
  unfold matchesOf at h
  intro r hr
  obtain ⟨b, hb⟩ := filterMapM_ok_mem _ rs t h r hr
  cases ho : onTrue cx env on (l ++ r) with
  | ok b' => exact ⟨b', rfl⟩
  | error e =>
    simp only [ho] at hb
    cases hb

/-- join types whose `Spec.joinRows` loops over the LEFT rows and evaluates ON against every right row -/
def leftLoop : JoinType → Bool
  | .inner | .left | .semi | .anti => true
  | _ => false

theorem joinRows_ok_pairs (cx : EvalCtx) (env : Env) (jt : JoinType) (hjt : leftLoop jt = true) (lw rw : Nat) (on : Expr)
    (ls rs t : Table) (h : joinRows cx env jt lw rw on ls rs = .ok t) :
    ∀ l ∈ ls, ∀ r ∈ rs, ∃ b, onTrue cx env on (l ++ r) = .ok b := by
  intro l hl
  have key : ∃ t', matchesOf cx env on l rs = .ok t' := by
    cases jt with
    | inner =>
      simp only [joinRows] at h
      cases hm : ls.mapM (fun l => do pure ((← matchesOf cx env on l rs).map fun r => l ++ r)) with
      | error e => rw [hm] at h; cases h
      | ok parts =>
        obtain ⟨b, hb⟩ := mapM_ok_mem _ ls parts hm l hl
        cases hmo : matchesOf cx env on l rs with
        | ok t' => exact ⟨t', rfl⟩
        | error e => simp only [hmo] at hb; cases hb
    | left =>
      simp only [joinRows] at h
      cases hm : ls.mapM (fun l => do
          let ms ← matchesOf cx env on l rs
          pure (if ms.isEmpty then [l ++ nulls rw] else ms.map fun r => l ++ r)) with
      | error e => rw [hm] at h; cases h
      | ok parts =>
        obtain ⟨b, hb⟩ := mapM_ok_mem _ ls parts hm l hl
        cases hmo : matchesOf cx env on l rs with
        | ok t' => exact ⟨t', rfl⟩
        | error e => simp only [hmo] at hb; cases hb
    | semi =>
      simp only [joinRows] at h
      obtain ⟨b, hb⟩ := filterMapM_ok_mem _ ls t h l hl
      cases hmo : matchesOf cx env on l rs with
      | ok t' => exact ⟨t', rfl⟩
      | error e => simp only [hmo] at hb; cases hb
    | anti =>
      simp only [joinRows] at h
      obtain ⟨b, hb⟩ := filterMapM_ok_mem _ ls t h l hl
      cases hmo : matchesOf cx env on l rs with
      | ok t' => exact ⟨t', rfl⟩
      | error e => simp only [hmo] at hb; cases hb
    | right => simp [leftLoop] at hjt
    | full => simp [leftLoop] at hjt
    | cross => simp [leftLoop] at hjt
  obtain ⟨t', ht'⟩ := key
  exact matchesOf_ok_pairs cx env on l rs t' ht'

/-- the ON predicate as a pure function (false where it does not evaluate) -/
def onFn (cx : EvalCtx) (env : Env) (on : Expr) (l r : Row) : Bool :=
  match onTrue cx env on (l ++ r) with | .ok b => b | .error _ => false

theorem joinRows_perm (cx : EvalCtx) (env : Env) (jt : JoinType) (hjt : leftLoop jt = true ∨ jt = .cross) (lw rw : Nat)
    (on : Expr) {l₁ l₂ r₁ r₂ : Table} (hl : l₁ ~ l₂) (hr : r₁ ~ r₂) (t₁ : Table)
    (h : joinRows cx env jt lw rw on l₁ r₁ = .ok t₁) :
    ∃ t₂, joinRows cx env jt lw rw on l₂ r₂ = .ok t₂ ∧ t₁ ~ t₂ := by
  rcases hjt with hjt | hjt
  · have hp := joinRows_ok_pairs cx env jt hjt lw rw on l₁ r₁ t₁ h
    have hm₁ : ∀ l ∈ l₁, ∀ r ∈ r₁, onTrue cx env on (l ++ r) = .ok (onFn cx env on l r) := by
      intro l hl' r hr'
      obtain ⟨b, hb⟩ := hp l hl' r hr'
      simp [onFn, hb]
    have hm₂ : ∀ l ∈ l₂, ∀ r ∈ r₂, onTrue cx env on (l ++ r) = .ok (onFn cx env on l r) :=
      fun l hl' r hr' => hm₁ l (hl.mem_iff.mpr hl') r (hr.mem_iff.mpr hr')
    rw [joinRows_eq_nlJoin cx env jt lw rw on (onFn cx env on) l₁ r₁ hm₁] at h
    cases h
    exact ⟨_, joinRows_eq_nlJoin cx env jt lw rw on (onFn cx env on) l₂ r₂ hm₂, nlJoin_perm jt lw rw _ hl hr⟩
  · subst hjt
    simp only [joinRows] at h ⊢
    cases h
    refine ⟨_, rfl, ?_⟩
    exact Bag.perm_flatMap hl (fun l _ => hr.map _)

/-! ### the fragment -/

/-- plans for which layout invariance is proved here -/
inductive LayoutFrag : Query → Prop
  | scan (t : Nat) : LayoutFrag (.scan t)
  | cteRef (i : Nat) : LayoutFrag (.cteRef i)
  | filter (p : Expr) {q : Query} : LayoutFrag q → LayoutFrag (.filter [] p q)
  | project (es : List Expr) {q : Query} : LayoutFrag q → LayoutFrag (.project [] es q)
  | join (jt : JoinType) (hjt : leftLoop jt = true ∨ jt = .cross) (lw rw : Nat) (on : Expr) {l r : Query} :
      LayoutFrag l → LayoutFrag r → LayoutFrag (.join jt lw rw [] on l r)
  | unionAll {l r : Query} : LayoutFrag l → LayoutFrag r → LayoutFrag (.setop .union true l r)
  | distinct {q : Query} : LayoutFrag q → LayoutFrag (.distinct q)

/-- two catalogs (or CTE stacks) hold the same bag of rows in every position -/
inductive SameBags : List Table → List Table → Prop
  | nil : SameBags [] []
  | cons {x y : Table} {a b : List Table} : x ~ y → SameBags a b → SameBags (x :: a) (y :: b)

theorem SameBags.get {a b : List Table} (h : SameBags a b) (i : Nat) (x : Table) (hx : a[i]? = some x) :
    ∃ y, b[i]? = some y ∧ x ~ y := by
  induction h generalizing i with
  | nil => simp at hx
  | cons hxy _ ih =>
    cases i with
    | zero => simp only [List.getElem?_cons_zero, Option.some.injEq] at hx; subst hx; exact ⟨_, rfl, hxy⟩
    | succ i => simp only [List.getElem?_cons_succ] at hx ⊢; exact ih i hx

theorem SameBags.symm {a b : List Table} (h : SameBags a b) : SameBags b a := by
  induction h with
  | nil => exact .nil
  | cons hxy _ ih => exact .cons hxy.symm ih

theorem nodeCx_nil (fo : FloatOps) (fns : String → List Val → Except Err Val) (c₁ c₂ ct₁ ct₂ : List Table) :
    nodeCx fo fns c₁ [] ct₁ = nodeCx fo fns c₂ [] ct₂ := by
  simp [nodeCx, runList]

theorem run_project (fo : FloatOps) (fns : String → List Val → Except Err Val) (cat : List Table) (subs : List Query)
    (es : List Expr) (q : Query) (ctes : List Table) (env : Env) :
    run fo fns cat (.project subs es q) ctes env =
      (run fo fns cat q ctes env >>= fun rows => rows.mapM fun r => evalList (nodeCx fo fns cat subs ctes) (r :: env) es) := by
  rw [run]
  rfl

theorem run_unionAll (fo : FloatOps) (fns : String → List Val → Except Err Val) (cat : List Table) (l r : Query)
    (ctes : List Table) (env : Env) :
    run fo fns cat (.setop .union true l r) ctes env =
      (run fo fns cat l ctes env >>= fun ls => run fo fns cat r ctes env >>= fun rs => pure (ls ++ rs)) := by
  rw [run]

theorem run_distinct (fo : FloatOps) (fns : String → List Val → Except Err Val) (cat : List Table) (q : Query)
    (ctes : List Table) (env : Env) :
    run fo fns cat (.distinct q) ctes env = (run fo fns cat q ctes env >>= fun rows => pure (dedupRows rows)) := by
  rw [run]

/-- one direction of layout invariance over the fragment -/
theorem run_layout (fo : FloatOps) (fns : String → List Val → Except Err Val) {q : Query} (hq : LayoutFrag q) :
    ∀ (cat₁ cat₂ ctes₁ ctes₂ : List Table) (env : Env), SameBags cat₁ cat₂ → SameBags ctes₁ ctes₂ →
      ∀ t₁, run fo fns cat₁ q ctes₁ env = .ok t₁ → ∃ t₂, run fo fns cat₂ q ctes₂ env = .ok t₂ ∧ t₁ ~ t₂ := by
  induction hq with
  | scan t =>
    intro cat₁ cat₂ ctes₁ ctes₂ env hc _ t₁ h
    rw [run] at h ⊢
    cases hx : cat₁[t]? with
    | none => simp [hx] at h
    | some tb =>
      simp only [hx, Except.ok.injEq] at h
      subst h
      obtain ⟨y, hy, hp⟩ := hc.get t tb hx
      exact ⟨y, by simp [hy], hp⟩
  | cteRef i =>
    intro cat₁ cat₂ ctes₁ ctes₂ env _ hct t₁ h
    rw [run] at h ⊢
    cases hx : ctes₁[i]? with
    | none => simp [hx] at h
    | some tb =>
      simp only [hx, Except.ok.injEq] at h
      subst h
      obtain ⟨y, hy, hp⟩ := hct.get i tb hx
      exact ⟨y, by simp [hy], hp⟩
  | @filter p q _ ih =>
    intro cat₁ cat₂ ctes₁ ctes₂ env hc hct t₁ h
    rw [run_filter] at h ⊢
    cases hr : run fo fns cat₁ q ctes₁ env with
    | error e => rw [hr] at h; cases h
    | ok rows₁ =>
      rw [hr, ok_bind] at h
      obtain ⟨rows₂, hr₂, hp⟩ := ih cat₁ cat₂ ctes₁ ctes₂ env hc hct rows₁ hr
      rw [hr₂, ok_bind, nodeCx_nil fo fns cat₂ cat₁ ctes₂ ctes₁]
      exact filterMapM_perm _ hp t₁ h
  | @project es q _ ih =>
    intro cat₁ cat₂ ctes₁ ctes₂ env hc hct t₁ h
    rw [run_project] at h ⊢
    cases hr : run fo fns cat₁ q ctes₁ env with
    | error e => rw [hr] at h; cases h
    | ok rows₁ =>
      rw [hr, ok_bind] at h
      obtain ⟨rows₂, hr₂, hp⟩ := ih cat₁ cat₂ ctes₁ ctes₂ env hc hct rows₁ hr
      rw [hr₂, ok_bind, nodeCx_nil fo fns cat₂ cat₁ ctes₂ ctes₁]
      exact mapM_perm _ hp t₁ h
  | @join jt hjt lw rw on l r _ _ ihl ihr =>
    intro cat₁ cat₂ ctes₁ ctes₂ env hc hct t₁ h
    rw [run_join] at h ⊢
    cases hl : run fo fns cat₁ l ctes₁ env with
    | error e => rw [hl] at h; cases h
    | ok ls₁ =>
      rw [hl, ok_bind] at h
      cases hr : run fo fns cat₁ r ctes₁ env with
      | error e => rw [hr] at h; cases h
      | ok rs₁ =>
        rw [hr, ok_bind] at h
        obtain ⟨ls₂, hl₂, hpl⟩ := ihl cat₁ cat₂ ctes₁ ctes₂ env hc hct ls₁ hl
        obtain ⟨rs₂, hr₂, hpr⟩ := ihr cat₁ cat₂ ctes₁ ctes₂ env hc hct rs₁ hr
        rw [hl₂, ok_bind, hr₂, ok_bind, nodeCx_nil fo fns cat₂ cat₁ ctes₂ ctes₁]
        exact joinRows_perm _ env jt hjt lw rw on hpl hpr t₁ h
  | @unionAll l r _ _ ihl ihr =>
    intro cat₁ cat₂ ctes₁ ctes₂ env hc hct t₁ h
    rw [run_unionAll] at h ⊢
    cases hl : run fo fns cat₁ l ctes₁ env with
    | error e => rw [hl] at h; cases h
    | ok ls₁ =>
      rw [hl, ok_bind] at h
      cases hr : run fo fns cat₁ r ctes₁ env with
      | error e => rw [hr] at h; cases h
      | ok rs₁ =>
        rw [hr, ok_bind] at h
        obtain ⟨ls₂, hl₂, hpl⟩ := ihl cat₁ cat₂ ctes₁ ctes₂ env hc hct ls₁ hl
        obtain ⟨rs₂, hr₂, hpr⟩ := ihr cat₁ cat₂ ctes₁ ctes₂ env hc hct rs₁ hr
        rw [hl₂, ok_bind, hr₂, ok_bind]
        cases h
        exact ⟨_, rfl, hpl.append hpr⟩
  | @distinct q _ ih =>
    intro cat₁ cat₂ ctes₁ ctes₂ env hc hct t₁ h
    rw [run_distinct] at h ⊢
    cases hr : run fo fns cat₁ q ctes₁ env with
    | error e => rw [hr] at h; cases h
    | ok rows₁ =>
      rw [hr, ok_bind] at h
      obtain ⟨rows₂, hr₂, hp⟩ := ih cat₁ cat₂ ctes₁ ctes₂ env hc hct rows₁ hr
      rw [hr₂, ok_bind]
      cases h
      exact ⟨_, rfl, Bag.dedupRows_perm hp⟩

end IQE.Layout
