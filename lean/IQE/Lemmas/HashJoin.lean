/-
  IQE.Lemmas.HashJoin — the hash-join model (IQE.Engine.HashJoin) with all deviation switches off,
  reduced step by step to closed forms over the build table `B` and the probe rows `P`:
    candidates / kept indices of a probe row   = indices of the build rows matching it,
    the bitmap after probing rows `P`          = `B.map fun b => P.any (matchBP b)`   (the tracker invariant),
    the output                                 = pairs ⊎ unmatched probe rows ⊎ unmatched build rows,
  and from there (JoinDecomp) to the nested-loop join `IQE.Join.nlJoin`.
-/
import IQE.Engine.HashJoin
import IQE.Lemmas.JoinDecomp
namespace IQE.Engine.HashJoin
open List IQE IQE.Spec IQE.Bag IQE.Join

/-! ### list helpers -/

theorem filterMap_congr' {α β} {f g : α → Option β} {l : List α} (h : ∀ a ∈ l, f a = g a) :
    l.filterMap f = l.filterMap g := by
  induction l with
  | nil => rfl
  | cons a l ih =>
    simp only [filterMap_cons]
    rw [h a (by simp), ih fun b hb => h b (by simp [hb])]

theorem zipIdx_filter_fst {α} (f : α → Bool) (l : List α) (n : Nat) :
    ((l.zipIdx n).filter (fun e => f e.1)).map (·.1) = l.filter f := by
  induction l generalizing n with
  | nil => rfl
  | cons a l ih => simp only [zipIdx_cons]; by_cases h : f a <;> simp [h, ih]

theorem getD_of_mem_zipIdx {α} {l : List α} {e : α × Nat} (h : e ∈ l.zipIdx) (d : α) : l.getD e.2 d = e.1 := by
  rw [mem_zipIdx_iff_getElem?] at h
  rw [getD_eq_getElem?_getD, h]; rfl

theorem zip_map_self {α β} (f : α → β) (l : List α) : l.zip (l.map f) = l.map fun a => (a, f a) := by
  induction l with
  | nil => rfl
  | cons a l ih => simp [ih]

theorem isEmpty_map' {α β} (f : α → β) (l : List α) : (l.map f).isEmpty = l.isEmpty := by
  cases l <;> rfl

/-! ### the match predicate in roles -/

/-- key equality of a (build row, probe row) pair -/
def keyMatch (cfg : Cfg) (bl : Bool) (b p : Row) : Bool :=
  match keyOf (buildCols cfg bl) b, keyOf (probeCols cfg bl) p with
  | some kb, some kp => decide (kb = kp)
  | _, _ => false

/-- the whole ON condition of a (build row, probe row) pair -/
def matchBP (cfg : Cfg) (bl : Bool) (b p : Row) : Bool := keyMatch cfg bl b p && residualBP cfg bl b p

theorem matchBP_true (cfg : Cfg) (b p : Row) : matchBP cfg true b p = onPair cfg b p := rfl

theorem matchBP_false (cfg : Cfg) (b p : Row) : matchBP cfg false b p = onPair cfg p b := by
  simp only [matchBP, onPair, keyMatch, keysEq, buildCols, probeCols, residualBP, Bool.false_eq_true, ↓reduceIte]
  generalize keyOf cfg.rkeys b = kb
  generalize keyOf cfg.lkeys p = kp
  cases kb <;> cases kp <;> simp only []
  rename_i a c
  rw [show decide (a = c) = decide (c = a) from decide_eq_decide.mpr eq_comm]

/-! ### one probe row -/

theorem candidates_eq (cfg : Cfg) (bl : Bool) (B : Table) (p : Row) :
    candidates {} cfg bl (buildTable {} (buildCols cfg bl) B) p
      = (B.zipIdx.filter (fun e => keyMatch cfg bl e.1 p)).map (·.2) := by
  simp only [candidates, buildTable, lookup, keyMatch, Bool.false_eq_true, ↓reduceIte]
  cases hk : keyOf (probeCols cfg bl) p false with
  | none => simp
  | some k =>
    simp only [Bool.false_eq_true, ↓reduceIte]
    rw [filterMap_filterMap, map_filter_eq_filterMap]
    apply filterMap_congr'
    intro e _
    cases keyOf (buildCols cfg bl) e.1 false <;> simp

/-- the kept candidates of a probe row are exactly the indices of the build rows matching it -/
theorem kept_eq (jt : JoinType) (cfg : Cfg) (bl : Bool) (B : Table) (p : Row) :
    (probeRow {} jt cfg bl B (buildTable {} (buildCols cfg bl) B) p).kept
      = (B.zipIdx.filter (fun e => matchBP cfg bl e.1 p)).map (·.2) := by
  simp only [probeRow, Bool.false_and, Bool.false_eq_true, ↓reduceIte, candidates_eq, filter_map, filter_filter]
  congr 1
  apply filter_congr
  intro e he
  simp only [Function.comp_def, passes, getD_of_mem_zipIdx he, matchBP, Bool.and_comm]

theorem tracked_eq (jt : JoinType) (cfg : Cfg) (bl : Bool) (B : Table) (tbl : HashTable) (p : Row) :
    (probeRow {} jt cfg bl B tbl p).tracked = (probeRow {} jt cfg bl B tbl p).kept := by
  simp [probeRow]

theorem row_eq (dev : Dev) (jt : JoinType) (cfg : Cfg) (bl : Bool) (B : Table) (tbl : HashTable) (p : Row) :
    (probeRow dev jt cfg bl B tbl p).row = p := rfl

/-- the pairs emitted for a probe row -/
theorem kept_pairs (jt : JoinType) (cfg : Cfg) (bl : Bool) (B : Table) (p : Row) :
    ((probeRow {} jt cfg bl B (buildTable {} (buildCols cfg bl) B) p).kept.map fun i => combine bl (B.getD i []) p)
      = (B.filter (fun b => matchBP cfg bl b p)).map fun b => combine bl b p := by
  rw [kept_eq, map_map, ← zipIdx_filter_fst (fun b => matchBP cfg bl b p) B 0, map_map]
  apply map_congr_left
  intro e he
  simp only [Function.comp_def, getD_of_mem_zipIdx (mem_filter.mp he).1]

theorem kept_isEmpty (jt : JoinType) (cfg : Cfg) (bl : Bool) (B : Table) (p : Row) :
    (probeRow {} jt cfg bl B (buildTable {} (buildCols cfg bl) B) p).kept.isEmpty
      = !B.any (fun b => matchBP cfg bl b p) := by
  rw [kept_eq, ← filter_isEmpty_eq_not_any, ← zipIdx_filter_fst (fun b => matchBP cfg bl b p) B 0]
  rw [isEmpty_map', isEmpty_map']


/-! ### the match bitmap -/

theorem getElem?_markAll (bm : List Bool) (is : List Nat) (j : Nat) :
    (markAll bm is)[j]? = bm[j]?.map (fun x => x || is.contains j) := by
  induction is generalizing bm with
  | nil => simp [markAll]
  | cons i is ih =>
    have e : markAll bm (i :: is) = markAll (bm.set i true) is := rfl
    rw [e, ih, getElem?_set]
    by_cases hij : i = j
    · subst hij
      by_cases hl : i < bm.length
      · simp [hl]
      · have : bm[i]? = none := by simp at hl; simp [hl]
        simp [hl]
    · have : ¬ j = i := fun h => hij h.symm
      cases bm[j]? <;> simp [hij, this]

theorem contains_kept (jt : JoinType) (cfg : Cfg) (bl : Bool) (B : Table) (p : Row) (j : Nat) (b : Row)
    (hb : B[j]? = some b) :
    (probeRow {} jt cfg bl B (buildTable {} (buildCols cfg bl) B) p).kept.contains j = matchBP cfg bl b p := by
  rw [kept_eq, Bool.eq_iff_iff, contains_iff_mem]
  simp only [mem_map, mem_filter, mem_zipIdx_iff_getElem?]
  constructor
  · rintro ⟨e, ⟨he, hm⟩, rfl⟩
    rw [hb] at he
    cases he
    exact hm
  · intro h
    exact ⟨(b, j), ⟨hb, h⟩, rfl⟩

/-- the tracker invariant: bit `i` is set iff build row `i` matches one of the probe rows seen so far -/
def hitsOf (cfg : Cfg) (bl : Bool) (B P : Table) : List Bool := B.map fun b => P.any fun p => matchBP cfg bl b p

theorem hitsOf_nil (cfg : Cfg) (bl : Bool) (B : Table) : hitsOf cfg bl B [] = List.replicate B.length false := by
  simp only [hitsOf, any_nil]
  induction B with
  | nil => rfl
  | cons b B ih => simp [replicate_succ, ih]

theorem markAll_kept (jt : JoinType) (cfg : Cfg) (bl : Bool) (B P : Table) (p : Row) :
    markAll (hitsOf cfg bl B P) (probeRow {} jt cfg bl B (buildTable {} (buildCols cfg bl) B) p).kept
      = hitsOf cfg bl B (P ++ [p]) := by
  apply ext_getElem?
  intro j
  rw [getElem?_markAll]
  simp only [hitsOf, getElem?_map]
  cases hb : B[j]? with
  | none => rfl
  | some b =>
    simp only [Option.map_some, any_append, any_cons, any_nil, Bool.or_false,
      contains_kept jt cfg bl B p j b hb]

theorem markAll_append (bm : List Bool) (a b : List Nat) : markAll bm (a ++ b) = markAll (markAll bm a) b := by
  simp [markAll]

theorem markAll_batch (jt : JoinType) (cfg : Cfg) (bl : Bool) (B P batch : Table) :
    markAll (hitsOf cfg bl B P)
        (batch.flatMap fun p => (probeRow {} jt cfg bl B (buildTable {} (buildCols cfg bl) B) p).kept)
      = hitsOf cfg bl B (P ++ batch) := by
  induction batch generalizing P with
  | nil => simp [markAll]
  | cons p ps ih =>
    rw [flatMap_cons, markAll_append, markAll_kept, ih]
    simp

theorem orBits_hitsOf (cfg : Cfg) (bl : Bool) (B P Q : Table) :
    orBits (hitsOf cfg bl B P) (hitsOf cfg bl B Q) = hitsOf cfg bl B (P ++ Q) := by
  simp [orBits, hitsOf, zipWith_map_left, zipWith_map_right, zipWith_self]


/-! ### closed forms in roles (build table `B`, probe rows `P`) -/

/-- all matching (build, probe) pairs, probe-driven -/
def pairsR (cfg : Cfg) (bl : Bool) (B P : Table) : Table :=
  P.flatMap fun p => (B.filter fun b => matchBP cfg bl b p).map fun b => combine bl b p

/-- the probe rows without a match, NULL-extended on the build side -/
def probeUnm (cfg : Cfg) (bl : Bool) (B P : Table) : Table :=
  (P.filter fun p => !B.any fun b => matchBP cfg bl b p).map (nullProbe cfg bl)

def probeSemi (cfg : Cfg) (bl : Bool) (B P : Table) : Table := P.filter fun p => B.any fun b => matchBP cfg bl b p
def probeAnti (cfg : Cfg) (bl : Bool) (B P : Table) : Table := P.filter fun p => !B.any fun b => matchBP cfg bl b p

/-- the build rows without a match, NULL-extended on the probe side -/
def buildUnm (cfg : Cfg) (bl : Bool) (B P : Table) : Table :=
  (B.filter fun b => !P.any fun p => matchBP cfg bl b p).map (nullBuild cfg bl)

def buildSemi (cfg : Cfg) (bl : Bool) (B P : Table) : Table := B.filter fun b => P.any fun p => matchBP cfg bl b p
def buildAnti (cfg : Cfg) (bl : Bool) (B P : Table) : Table := B.filter fun b => !P.any fun p => matchBP cfg bl b p

/-- what probing the rows `P` emits -/
def batchRef (jt : JoinType) (cfg : Cfg) (bl : Bool) (B P : Table) : Table :=
  match jt with
  | .inner | .cross => pairsR cfg bl B P
  | .left => if bl then pairsR cfg bl B P else pairsR cfg bl B P ++ probeUnm cfg bl B P
  | .right => if bl then pairsR cfg bl B P ++ probeUnm cfg bl B P else pairsR cfg bl B P
  | .full => pairsR cfg bl B P ++ probeUnm cfg bl B P
  | .semi => if bl then [] else probeSemi cfg bl B P
  | .anti => if bl then [] else probeAnti cfg bl B P

/-- what is emitted from the build side at the end -/
def buildRef (jt : JoinType) (cfg : Cfg) (bl : Bool) (B P : Table) : Table :=
  match jt with
  | .left => if bl then buildUnm cfg bl B P else []
  | .right => if bl then [] else buildUnm cfg bl B P
  | .full => buildUnm cfg bl B P
  | .semi => if bl then buildSemi cfg bl B P else []
  | .anti => if bl then buildAnti cfg bl B P else []
  | _ => []

section batch
variable (jt : JoinType) (cfg : Cfg) (bl : Bool) (B : Table)

theorem hits_pairs (batch : Table) :
    ((batch.map (probeRow {} jt cfg bl B (buildTable {} (buildCols cfg bl) B))).flatMap fun h =>
        h.kept.map fun i => combine bl (B.getD i []) h.row) = pairsR cfg bl B batch := by
  rw [flatMap_map]
  apply flatMap_congr'
  intro p _
  exact kept_pairs jt cfg bl B p

theorem hits_unmatched (batch : Table) (f : Row → Row) :
    (((batch.map (probeRow {} jt cfg bl B (buildTable {} (buildCols cfg bl) B))).filter fun h => h.tracked.isEmpty).map
        fun h => f h.row) = (batch.filter fun p => !B.any fun b => matchBP cfg bl b p).map f := by
  rw [filter_map, map_map]
  have : batch.filter ((fun h : Hit => h.tracked.isEmpty) ∘ probeRow {} jt cfg bl B (buildTable {} (buildCols cfg bl) B))
      = batch.filter fun p => !B.any fun b => matchBP cfg bl b p := by
    apply filter_congr
    intro p _
    simp only [Function.comp_def, tracked_eq, kept_isEmpty]
  rw [this]
  rfl

theorem hits_matched (batch : Table) :
    (((batch.map (probeRow {} jt cfg bl B (buildTable {} (buildCols cfg bl) B))).filter fun h => !h.tracked.isEmpty).map
        (·.row)) = batch.filter fun p => B.any fun b => matchBP cfg bl b p := by
  rw [filter_map, map_map]
  have : batch.filter ((fun h : Hit => !h.tracked.isEmpty) ∘ probeRow {} jt cfg bl B (buildTable {} (buildCols cfg bl) B))
      = batch.filter fun p => B.any fun b => matchBP cfg bl b p := by
    apply filter_congr
    intro p _
    simp only [Function.comp_def, tracked_eq, kept_isEmpty, Bool.not_not]
  rw [this]
  exact map_id' _

theorem hits_tracked (batch : Table) :
    ((batch.map (probeRow {} jt cfg bl B (buildTable {} (buildCols cfg bl) B))).flatMap (·.tracked))
      = batch.flatMap fun p => (probeRow {} jt cfg bl B (buildTable {} (buildCols cfg bl) B) p).kept := by
  rw [flatMap_map]
  apply flatMap_congr'
  intro p _
  exact tracked_eq jt cfg bl B _ p

/-- one batch: its output in closed form, and the tracker invariant is maintained -/
theorem probeBatch_eq (Pprev batch : Table) :
    probeBatch {} jt cfg bl B (buildTable {} (buildCols cfg bl) B) (hitsOf cfg bl B Pprev) batch
      = (batchRef jt cfg bl B batch, hitsOf cfg bl B (Pprev ++ batch)) := by
  unfold probeBatch
  simp only [hits_pairs, hits_unmatched, hits_matched, hits_tracked, markAll_batch]
  have hu := hits_unmatched jt cfg bl B batch id
  simp only [id] at hu
  cases jt <;> cases bl <;>
    simp only [batchRef, probeUnm, probeSemi, probeAnti, hu, map_id, Bool.false_eq_true, ↓reduceIte]

/-- one probe partition -/
theorem probePartition_eq (part : List Table) :
    probePartition {} jt cfg bl B (buildTable {} (buildCols cfg bl) B) part
      = ((part.map (batchRef jt cfg bl B)).flatten, hitsOf cfg bl B part.flatten) := by
  unfold probePartition
  rw [← hitsOf_nil cfg bl B]
  have gen : ∀ (out : Table) (Pprev : Table),
      part.foldl (fun acc batch =>
          let r := probeBatch {} jt cfg bl B (buildTable {} (buildCols cfg bl) B) acc.2 batch
          (acc.1 ++ r.1, r.2)) (out, hitsOf cfg bl B Pprev)
        = (out ++ (part.map (batchRef jt cfg bl B)).flatten, hitsOf cfg bl B (Pprev ++ part.flatten)) := by
    induction part with
    | nil => intro out Pprev; simp
    | cons c cs ih =>
      intro out Pprev
      simp only [foldl_cons, probeBatch_eq, ih, map_cons, flatten_cons, append_assoc]
  simpa using gen [] []

/-- all probe partitions: the shared tracker holds the invariant for ALL probe rows -/
theorem probeAll_eq (parts : List (List Table)) :
    probeAll {} jt cfg bl B (buildTable {} (buildCols cfg bl) B) parts
      = ((parts.flatten.map (batchRef jt cfg bl B)).flatten, hitsOf cfg bl B parts.flatten.flatten) := by
  unfold probeAll
  simp only [probePartition_eq]
  rw [← hitsOf_nil cfg bl B]
  have gen : ∀ (out : Table) (Pprev : Table),
      parts.foldl (fun (acc : Table × List Bool) part =>
          (acc.1 ++ (part.map (batchRef jt cfg bl B)).flatten, orBits acc.2 (hitsOf cfg bl B part.flatten)))
          (out, hitsOf cfg bl B Pprev)
        = (out ++ (parts.flatten.map (batchRef jt cfg bl B)).flatten,
            hitsOf cfg bl B (Pprev ++ parts.flatten.flatten)) := by
    induction parts with
    | nil => intro out Pprev; simp
    | cons c cs ih =>
      intro out Pprev
      simp only [foldl_cons, orBits_hitsOf, ih, flatten_cons, map_append, flatten_append, append_assoc]
  simpa using gen [] []

theorem buildEmit_eq (P : Table) : buildEmit jt cfg bl B (hitsOf cfg bl B P) = buildRef jt cfg bl B P := by
  unfold buildEmit hitsOf
  simp only [zip_map_self, filter_map, map_map, Function.comp_def]
  cases jt <;> cases bl <;>
    simp only [buildRef, buildUnm, buildSemi, buildAnti, Bool.false_eq_true, ↓reduceIte, map_id']
end batch


/-! ### batching and partitioning of the probe side are invisible -/

theorem flatten_map_append {α β : Type} (cs : List α) (f g : α → List β) :
    (cs.map fun c => f c ++ g c).flatten ~ (cs.map f).flatten ++ (cs.map g).flatten := by
  simp only [← flatMap_def]
  exact flatMap_append_body cs f g

section batching
variable (jt : JoinType) (cfg : Cfg) (bl : Bool) (B : Table)

theorem pairsR_flatten (cs : List Table) : (cs.map (pairsR cfg bl B)).flatten = pairsR cfg bl B cs.flatten :=
  flatMap_flatten _ cs

theorem probeUnm_flatten (cs : List Table) : (cs.map (probeUnm cfg bl B)).flatten = probeUnm cfg bl B cs.flatten := by
  unfold probeUnm
  rw [← Bag.filter_flatten, ← map_flatten', map_map]
  rfl

theorem probeSemi_flatten (cs : List Table) : (cs.map (probeSemi cfg bl B)).flatten = probeSemi cfg bl B cs.flatten :=
  Bag.filter_flatten _ cs

theorem probeAnti_flatten (cs : List Table) : (cs.map (probeAnti cfg bl B)).flatten = probeAnti cfg bl B cs.flatten :=
  Bag.filter_flatten _ cs

theorem pairsUnm_flatten (cs : List Table) :
    (cs.map fun c => pairsR cfg bl B c ++ probeUnm cfg bl B c).flatten
      ~ pairsR cfg bl B cs.flatten ++ probeUnm cfg bl B cs.flatten := by
  rw [← pairsR_flatten, ← probeUnm_flatten]
  exact flatten_map_append cs _ _

theorem flatten_map_nil {α β} (cs : List α) : (cs.map fun _ => ([] : List β)).flatten = [] := by
  induction cs with
  | nil => rfl
  | cons c cs ih => simp

theorem batchRef_flatten (cs : List Table) :
    (cs.map (batchRef jt cfg bl B)).flatten ~ batchRef jt cfg bl B cs.flatten := by
  cases jt <;> cases bl <;> simp only [batchRef, Bool.false_eq_true, ↓reduceIte]
  all_goals first
    | exact Perm.of_eq (pairsR_flatten cfg _ B cs)
    | exact pairsUnm_flatten cfg _ B cs
    | exact Perm.of_eq (probeSemi_flatten cfg _ B cs)
    | exact Perm.of_eq (probeAnti_flatten cfg _ B cs)
    | exact Perm.of_eq (flatten_map_nil cs)

/-- **the model in closed form**: for every partitioning and batching of the probe side the output is
    what probing all probe rows at once emits, followed by the build-side emission under the final tracker -/
theorem run_perm (parts : List (List Table)) :
    run {} jt cfg bl B parts
      ~ batchRef jt cfg bl B parts.flatten.flatten ++ buildRef jt cfg bl B parts.flatten.flatten := by
  have key : ∀ parts' : List (List Table), parts'.flatten.flatten = parts.flatten.flatten →
      (probeAll {} jt cfg bl B (buildTable {} (buildCols cfg bl) B) parts').1
          ++ buildEmit jt cfg bl B (probeAll {} jt cfg bl B (buildTable {} (buildCols cfg bl) B) parts').2
        ~ batchRef jt cfg bl B parts.flatten.flatten ++ buildRef jt cfg bl B parts.flatten.flatten := by
    intro parts' h
    rw [probeAll_eq, buildEmit_eq, h]
    refine Perm.append ?_ (Perm.refl _)
    rw [← h]
    exact (batchRef_flatten jt cfg bl B parts'.flatten)
  unfold run
  simp only [Bool.false_and, Bool.or_false, Bool.false_eq_true, ↓reduceIte]
  split
  · exact key [parts.flatten] (by simp)
  · exact key parts rfl
end batching


/-! ### from roles to the nested-loop join over (left, right) -/

/-- the matched pairs do not depend on which side drives the loop -/
theorem inner_comm (lw rw : Nat) (m : Row → Row → Bool) (L R : Table) :
    (R.flatMap fun r => (L.filter fun l => m l r).map fun l => l ++ r) ~ nlJoin .inner lw rw m L R := by
  simp only [nlJoin]
  have e1 : ∀ r : Row, (L.filter fun l => m l r).map (fun l => l ++ r) =
      L.flatMap (fun l => if m l r = true then [l ++ r] else []) :=
    fun r => (flatMap_ite_singleton (fun l => m l r) (fun l => l ++ r) L).symm
  have e2 : ∀ l : Row, (R.filter (m l)).map (fun r => l ++ r) =
      R.flatMap (fun r => if m l r = true then [l ++ r] else []) :=
    fun l => (flatMap_ite_singleton (m l) (fun r => l ++ r) R).symm
  simp only [e1, e2]
  exact flatMap_comm R L fun r l => if m l r = true then [l ++ r] else []

/-- CROSS is INNER with an always-true condition -/
theorem cross_eq_inner (lw rw : Nat) (m : Row → Row → Bool) (L R : Table)
    (h : ∀ l ∈ L, ∀ r ∈ R, m l r = true) : nlJoin .cross lw rw m L R = nlJoin .inner lw rw m L R := by
  simp only [nlJoin]
  apply flatMap_congr'
  intro l hl
  rw [filter_eq_self.mpr (h l hl)]

section roles
variable (cfg : Cfg) (L R : Table)

theorem pairsR_false : pairsR cfg false R L = nlJoin .inner cfg.lw cfg.rw (onPair cfg) L R := by
  simp only [pairsR, nlJoin, matchBP_false, combine, Bool.false_eq_true, ↓reduceIte]

theorem pairsR_true : pairsR cfg true L R ~ nlJoin .inner cfg.lw cfg.rw (onPair cfg) L R := by
  simp only [pairsR, matchBP_true, combine, ↓reduceIte]
  exact inner_comm cfg.lw cfg.rw (onPair cfg) L R

theorem probeUnm_false : probeUnm cfg false R L = leftUnmatched cfg.rw (onPair cfg) L R := by
  simp only [probeUnm, leftUnmatched, hasMatch, matchBP_false]
  rfl

theorem probeUnm_true : probeUnm cfg true L R = rightUnmatched cfg.lw (onPair cfg) L R := by
  simp only [probeUnm, rightUnmatched, matchBP_true]
  rfl

theorem buildUnm_false : buildUnm cfg false R L = rightUnmatched cfg.lw (onPair cfg) L R := by
  simp only [buildUnm, rightUnmatched, matchBP_false]
  rfl

theorem buildUnm_true : buildUnm cfg true L R = leftUnmatched cfg.rw (onPair cfg) L R := by
  simp only [buildUnm, leftUnmatched, hasMatch, matchBP_true]
  rfl

theorem probeSemi_false : probeSemi cfg false R L = nlJoin .semi cfg.lw cfg.rw (onPair cfg) L R := by
  simp only [probeSemi, nlJoin, hasMatch, matchBP_false]

theorem probeAnti_false : probeAnti cfg false R L = nlJoin .anti cfg.lw cfg.rw (onPair cfg) L R := by
  simp only [probeAnti, nlJoin, hasMatch, matchBP_false]

theorem buildSemi_true : buildSemi cfg true L R = nlJoin .semi cfg.lw cfg.rw (onPair cfg) L R := by
  simp only [buildSemi, nlJoin, hasMatch, matchBP_true]

theorem buildAnti_true : buildAnti cfg true L R = nlJoin .anti cfg.lw cfg.rw (onPair cfg) L R := by
  simp only [buildAnti, nlJoin, hasMatch, matchBP_true]

/-- build side = right input -/
theorem ref_false (jt : JoinType) (hcross : jt = .cross → ∀ l ∈ L, ∀ r ∈ R, onPair cfg l r = true) :
    batchRef jt cfg false R L ++ buildRef jt cfg false R L ~ nlJoin jt cfg.lw cfg.rw (onPair cfg) L R := by
  cases jt <;> simp only [batchRef, buildRef, Bool.false_eq_true, ↓reduceIte, append_nil, pairsR_false,
    probeUnm_false, buildUnm_false, probeSemi_false, probeAnti_false]
  · exact .refl _
  · exact (left_decomp ..).symm
  · exact (right_decomp ..).symm
  · exact (full_decomp ..).symm
  · exact .refl _
  · exact .refl _
  · rw [cross_eq_inner _ _ _ _ _ (hcross rfl)]

/-- build side = left input -/
theorem ref_true (jt : JoinType) (hcross : jt = .cross → ∀ l ∈ L, ∀ r ∈ R, onPair cfg l r = true) :
    batchRef jt cfg true L R ++ buildRef jt cfg true L R ~ nlJoin jt cfg.lw cfg.rw (onPair cfg) L R := by
  have hp := pairsR_true cfg L R
  cases jt <;> simp only [batchRef, buildRef, ↓reduceIte, append_nil, nil_append,
    probeUnm_true, buildUnm_true, buildSemi_true, buildAnti_true]
  · exact hp
  · exact (hp.append (.refl _)).trans (left_decomp ..).symm
  · exact (hp.append (.refl _)).trans (right_decomp ..).symm
  · refine Perm.trans ?_ (full_decomp ..).symm
    refine ((hp.append (.refl _)).append (.refl _)).trans ?_
    simp only [append_assoc]
    exact (Perm.refl _).append perm_append_comm
  · exact .refl _
  · exact .refl _
  · rw [cross_eq_inner _ _ _ _ _ (hcross rfl)]; exact hp
end roles

/-- **the hash join is the nested-loop join** (as bags), for every join type, probe batching,
    partitioning and build side.  For CROSS the ON condition must be absent (always true). -/
theorem hashJoin_perm_nlJoin (jt : JoinType) (cfg : Cfg) (L R : List (List Table))
    (hcross : jt = .cross → ∀ l ∈ L.flatten.flatten, ∀ r ∈ R.flatten.flatten, onPair cfg l r = true) :
    hashJoin {} jt cfg L R ~ nlJoin jt cfg.lw cfg.rw (onPair cfg) L.flatten.flatten R.flatten.flatten := by
  unfold hashJoin
  split
  · exact (run_perm jt cfg true _ R).trans (ref_true cfg _ _ jt hcross)
  · exact (run_perm jt cfg false _ L).trans (ref_false cfg _ _ jt hcross)


/-! ### a row without any match: its exact contribution -/

/-- what ONE left row that matches no right row contributes to the join -/
def contribL (jt : JoinType) (rw : Nat) (l : Row) : Table :=
  match jt with
  | .left | .full => [l ++ nulls rw]
  | .anti => [l]
  | _ => []

/-- what ONE right row that matches no left row contributes to the join -/
def contribR (jt : JoinType) (lw : Nat) (r : Row) : Table :=
  match jt with
  | .right | .full => [nulls lw ++ r]
  | _ => []

theorem nlJoin_cons_unmatched_left (jt : JoinType) (hjt : jt ≠ .cross) (lw rw : Nat) (m : Row → Row → Bool)
    (l : Row) (L R : Table) (h : ∀ r ∈ R, m l r = false) :
    nlJoin jt lw rw m (l :: L) R = contribL jt rw l ++ nlJoin jt lw rw m L R := by
  have hf : R.filter (m l) = [] := by
    rw [filter_eq_nil_iff]; intro r hr; simp [h r hr]
  have hm : hasMatch m R l = false := by
    simp only [hasMatch]; rw [any_eq_false]; intro r hr; simp [h r hr]
  have hc : ∀ r ∈ R, (l :: L).filter (fun l' => m l' r) = L.filter (fun l' => m l' r) := by
    intro r hr; simp [h r hr]
  cases jt
  case cross => exact absurd rfl hjt
  case inner => simp only [nlJoin, contribL, flatMap_cons, hf, map_nil, nil_append]
  case left => simp only [nlJoin, contribL, flatMap_cons, hf, isEmpty_nil, ↓reduceIte]
  case semi => simp [nlJoin, contribL, hm]
  case anti => simp [nlJoin, contribL, hm]
  case right =>
    simp only [nlJoin, contribL, nil_append]
    apply flatMap_congr'
    intro r hr
    rw [hc r hr]
  case full =>
    simp only [nlJoin, contribL, flatMap_cons, hf, isEmpty_nil, ↓reduceIte, append_assoc]
    congr 3
    apply filter_congr
    intro r hr
    rw [hc r hr]

theorem nlJoin_cons_unmatched_right (jt : JoinType) (hjt : jt ≠ .cross) (lw rw : Nat) (m : Row → Row → Bool)
    (r : Row) (L R : Table) (h : ∀ l ∈ L, m l r = false) :
    nlJoin jt lw rw m L (r :: R) ~ contribR jt lw r ++ nlJoin jt lw rw m L R := by
  have hf : L.filter (fun l => m l r) = [] := by
    rw [filter_eq_nil_iff]; intro l hl; simp [h l hl]
  have hc : ∀ l ∈ L, (r :: R).filter (m l) = R.filter (m l) := by
    intro l hl; simp [h l hl]
  have hm : ∀ l ∈ L, hasMatch m (r :: R) l = hasMatch m R l := by
    intro l hl; simp [hasMatch, h l hl]
  cases jt
  case cross => exact absurd rfl hjt
  case inner =>
    simp only [nlJoin, contribR, nil_append]
    exact Perm.of_eq (flatMap_congr' fun l hl => by rw [hc l hl])
  case left =>
    simp only [nlJoin, contribR, nil_append]
    exact Perm.of_eq (flatMap_congr' fun l hl => by rw [hc l hl])
  case semi =>
    simp only [nlJoin, contribR, nil_append]
    exact Perm.of_eq (filter_congr fun l hl => by rw [hm l hl])
  case anti =>
    simp only [nlJoin, contribR, nil_append]
    exact Perm.of_eq (filter_congr fun l hl => by rw [hm l hl])
  case right =>
    simp only [nlJoin, contribR, flatMap_cons, hf, isEmpty_nil, ↓reduceIte]
    exact .refl _
  case full =>
    simp only [nlJoin, contribR]
    have e1 : (L.flatMap fun l =>
          if ((r :: R).filter (m l)).isEmpty then [l ++ nulls rw] else ((r :: R).filter (m l)).map fun r => l ++ r)
        = L.flatMap fun l =>
          if (R.filter (m l)).isEmpty then [l ++ nulls rw] else (R.filter (m l)).map fun r => l ++ r :=
      flatMap_congr' fun l hl => by rw [hc l hl]
    rw [e1]
    simp only [filter_cons, hf, isEmpty_nil, ↓reduceIte, map_cons]
    exact perm_middle

theorem count_filter_not {α} [BEq α] [LawfulBEq α] (p : α → Bool) (l : List α) (a : α) :
    (l.filter fun x => !p x).count a = if p a then 0 else l.count a := by
  induction l with
  | nil => simp
  | cons x xs ih =>
    by_cases hx : x = a
    · subst hx
      cases h : p x <;> simp [h, ih]
    · cases h : p x <;> simp [h, ih, hx]


/-! ### null keys -/

theorem keysEq_false_of_left_null (cfg : Cfg) (l r : Row) (h : keyOf cfg.lkeys l = none) : keysEq cfg l r = false := by
  simp only [keysEq, h]

theorem keysEq_false_of_right_null (cfg : Cfg) (l r : Row) (h : keyOf cfg.rkeys r = none) : keysEq cfg l r = false := by
  simp only [keysEq, h]
  cases keyOf cfg.lkeys l <;> rfl

theorem onPair_false_of_left_null (cfg : Cfg) (l r : Row) (h : keyOf cfg.lkeys l = none) : onPair cfg l r = false := by
  simp only [onPair, keysEq_false_of_left_null cfg l r h, Bool.false_and]

theorem onPair_false_of_right_null (cfg : Cfg) (l r : Row) (h : keyOf cfg.rkeys r = none) : onPair cfg l r = false := by
  simp only [onPair, keysEq_false_of_right_null cfg l r h, Bool.false_and]

/-- a key is `none` exactly when one of its columns is NULL -/
theorem keyOf_eq_none_iff (cols : List Nat) (row : Row) :
    keyOf cols row = none ↔ ∃ c ∈ cols, row.getD c .null = .null := by
  simp only [keyOf, keyVals, Bool.not_false, Bool.and_true]
  constructor
  · intro h
    split at h
    · rename_i hany
      rw [any_map, any_eq_true] at hany
      obtain ⟨c, hc, hn⟩ := hany
      refine ⟨c, hc, ?_⟩
      simp only [Function.comp_def] at hn
      cases hv : row.getD c .null <;> simp_all [Val.isNull]
    · cases h
  · rintro ⟨c, hc, hn⟩
    have : (cols.map fun c => row.getD c .null).any Val.isNull = true := by
      rw [any_map, any_eq_true]
      exact ⟨c, hc, by show Val.isNull (row.getD c .null) = true; rw [hn]; rfl⟩
    rw [if_pos this]

/-! ### the runtime key filter -/

/-- equal keys are equal, and non-NULL, column by column -/
theorem keysEq_cols (cfg : Cfg) (l r : Row) (h : keysEq cfg l r = true) (i lc rc : Nat)
    (hl : cfg.lkeys[i]? = some lc) (hr : cfg.rkeys[i]? = some rc) :
    l.getD lc .null = r.getD rc .null ∧ (r.getD rc .null).isNull = false := by
  simp only [keysEq, keyOf, keyVals, Bool.not_false, Bool.and_true] at h
  split at h
  · rename_i a b ha hb
    split at ha
    · cases ha
    · split at hb
      · cases hb
      · rename_i hnl hnr
        cases ha; cases hb
        have heq : (cfg.lkeys.map fun c => l.getD c .null) = (cfg.rkeys.map fun c => r.getD c .null) := by
          simpa using h
        have h1 : (cfg.lkeys.map fun c => l.getD c .null)[i]? = some (l.getD lc .null) := by
          rw [getElem?_map, hl]; rfl
        have h2 : (cfg.rkeys.map fun c => r.getD c .null)[i]? = some (r.getD rc .null) := by
          rw [getElem?_map, hr]; rfl
        rw [heq, h2] at h1
        refine ⟨(Option.some.inj h1).symm, ?_⟩
        have hmem : r.getD rc .null ∈ cfg.rkeys.map fun c => r.getD c .null := mem_of_getElem? h2
        cases hv : (r.getD rc .null).isNull
        · rfl
        · exact absurd (any_eq_true.mpr ⟨_, hmem, hv⟩) hnr
  · cases h

theorem rtKeep_true_of_match (cfg : Cfg) (pair : Nat) (L : Table) (l r : Row) (hl : l ∈ L)
    (h : onPair cfg l r = true) : rtKeep cfg true pair L r = true := by
  have hk : keysEq cfg l r = true := by
    simp only [onPair, Bool.and_eq_true] at h; exact h.1
  simp only [rtKeep, buildCols, probeCols, ↓reduceIte]
  split
  · rename_i bc pc hb hp
    obtain ⟨he, hn⟩ := keysEq_cols cfg l r hk pair bc pc hb hp
    simp only [hn, Bool.not_false, Bool.true_and]
    exact any_eq_true.mpr ⟨l, hl, decide_eq_true he⟩
  · rfl

theorem rtKeep_false_of_match (cfg : Cfg) (pair : Nat) (R : Table) (l r : Row) (hr : r ∈ R)
    (h : onPair cfg l r = true) : rtKeep cfg false pair R l = true := by
  have hk : keysEq cfg l r = true := by
    simp only [onPair, Bool.and_eq_true] at h; exact h.1
  simp only [rtKeep, buildCols, probeCols, Bool.false_eq_true, ↓reduceIte]
  split
  · rename_i bc pc hb hp
    obtain ⟨he, hn⟩ := keysEq_cols cfg l r hk pair pc bc hp hb
    rw [← he] at hn
    simp only [hn, Bool.not_false, Bool.true_and]
    exact any_eq_true.mpr ⟨r, hr, decide_eq_true he.symm⟩
  · rfl

theorem runtimeFilter_flatten (cfg : Cfg) (bl : Bool) (pair : Nat) (B : Table) (parts : List (List Table)) :
    (runtimeFilter cfg bl pair B parts).flatten.flatten = parts.flatten.flatten.filter (rtKeep cfg bl pair B) := by
  unfold runtimeFilter
  rw [map_flatten', Bag.filter_flatten]

/-- dropping RIGHT rows that match no left row does not change the joins that neither preserve nor output the right side -/
theorem prefilter_right_sound (jt : JoinType) (hjt : jt = .inner ∨ jt = .semi ∨ jt = .anti) (lw rw : Nat)
    (m : Row → Row → Bool) (keep : Row → Bool) (L R : Table)
    (hkeep : ∀ l ∈ L, ∀ r ∈ R, m l r = true → keep r = true) :
    nlJoin jt lw rw m L (R.filter keep) = nlJoin jt lw rw m L R := by
  have hf : ∀ l ∈ L, (R.filter keep).filter (m l) = R.filter (m l) := by
    intro l hl
    rw [filter_filter]
    apply filter_congr
    intro r hr
    cases hm : m l r
    · rfl
    · simp [hkeep l hl r hr hm]
  have hh : ∀ l ∈ L, hasMatch m (R.filter keep) l = hasMatch m R l := by
    intro l hl
    have e1 := filter_isEmpty_eq_not_any (m l) (R.filter keep)
    have e2 := filter_isEmpty_eq_not_any (m l) R
    rw [hf l hl, e2] at e1
    simp only [hasMatch]
    cases h1 : (R.filter keep).any (m l) <;> cases h2 : R.any (m l) <;> simp_all
  rcases hjt with rfl | rfl | rfl
  · simp only [nlJoin]; exact flatMap_congr' fun l hl => by rw [hf l hl]
  · simp only [nlJoin]; exact filter_congr fun l hl => by rw [hh l hl]
  · simp only [nlJoin]; exact filter_congr fun l hl => by rw [hh l hl]

/-! ### adding one row that matches nothing, at the level of the hash join -/

theorem hashJoin_add_unmatched_left (jt : JoinType) (hjt : jt ≠ .cross) (cfg : Cfg) (L L' R : List (List Table))
    (l : Row) (hL : L'.flatten.flatten ~ l :: L.flatten.flatten)
    (h : ∀ r ∈ R.flatten.flatten, onPair cfg l r = false) :
    hashJoin {} jt cfg L' R ~ contribL jt cfg.rw l ++ hashJoin {} jt cfg L R := by
  have hc : ∀ X Y : Table, jt = .cross → ∀ l ∈ X, ∀ r ∈ Y, onPair cfg l r = true := fun _ _ e => absurd e hjt
  refine (hashJoin_perm_nlJoin jt cfg L' R (hc _ _)).trans ?_
  refine (nlJoin_perm_left jt cfg.lw cfg.rw (onPair cfg) hL _).trans ?_
  rw [nlJoin_cons_unmatched_left jt hjt cfg.lw cfg.rw (onPair cfg) l _ _ h]
  exact (Perm.refl _).append (hashJoin_perm_nlJoin jt cfg L R (hc _ _)).symm

theorem hashJoin_add_unmatched_right (jt : JoinType) (hjt : jt ≠ .cross) (cfg : Cfg) (L R R' : List (List Table))
    (r : Row) (hR : R'.flatten.flatten ~ r :: R.flatten.flatten)
    (h : ∀ l ∈ L.flatten.flatten, onPair cfg l r = false) :
    hashJoin {} jt cfg L R' ~ contribR jt cfg.lw r ++ hashJoin {} jt cfg L R := by
  have hc : ∀ X Y : Table, jt = .cross → ∀ l ∈ X, ∀ r ∈ Y, onPair cfg l r = true := fun _ _ e => absurd e hjt
  refine (hashJoin_perm_nlJoin jt cfg L R' (hc _ _)).trans ?_
  refine (nlJoin_perm_right jt cfg.lw cfg.rw (onPair cfg) _ hR).trans ?_
  refine (nlJoin_cons_unmatched_right jt hjt cfg.lw cfg.rw (onPair cfg) r _ _ h).trans ?_
  exact (Perm.refl _).append (hashJoin_perm_nlJoin jt cfg L R (hc _ _)).symm

/-! ### fixtures for the kernel-evaluated examples of IQE/Props/C22.lean -/
namespace Ex
/-- column 0 is the key on both sides; rows are (key, payload) -/
def cfgK : Cfg := { lkeys := [0], rkeys := [0], lw := 2, rw := 2 }
/-- the same with the residual `left payload = right payload` -/
def cfgT : Cfg :=
  { lkeys := [0], rkeys := [0], lw := 2, rw := 2, residual := fun l r => decide (l.getD 1 .null = r.getD 1 .null) }
/-- left input: two partitions, the first with two batches; a NULL key; a duplicate key -/
def Lx : List (List Table) := [[[[.int 1, .int 5], [.null, .int 6]], [[.int 2, .int 7]]], [[[.int 1, .int 8]]]]
/-- right input: a NULL key, an unmatched key -/
def Rx : List (List Table) := [[[[.int 1, .int 5]], [[.null, .int 3], [.int 3, .int 9]]]]
end Ex

end IQE.Engine.HashJoin
