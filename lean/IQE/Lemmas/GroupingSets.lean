/-
  IQE.Lemmas.GroupingSets — lemmas behind IQE.Props.C27: ROLLUP / CUBE expansion, the GROUPING() bit mask,
  and the equality of `Spec.aggregateSets` with the binder's UNION ALL desugaring.
-/
import IQE.Engine.GroupingSets
namespace IQE.Lemmas.GroupingSets
open IQE IQE.Spec IQE.Engine.GroupingSets

/-! ### ROLLUP -/

theorem mem_rollupSets (n : Nat) (s : List Nat) : s ∈ rollupSets n ↔ ∃ k, k ≤ n ∧ s = List.range k := by
  simp only [rollupSets, List.mem_map, List.mem_reverse, List.mem_range]
  constructor
  · rintro ⟨k, hk, rfl⟩; exact ⟨k, by omega, rfl⟩
  · rintro ⟨k, hk, rfl⟩; exact ⟨k, by omega, rfl⟩

theorem length_rollupSets (n : Nat) : (rollupSets n).length = n + 1 := by simp [rollupSets]

theorem range_injective {a b : Nat} (h : List.range a = List.range b) : a = b := by
  have := congrArg List.length h
  simpa using this

theorem nodup_map_of_inj {α β : Type} (f : α → β) (hf : ∀ a b, f a = f b → a = b) {l : List α} (h : l.Nodup) : (l.map f).Nodup :=
  List.Pairwise.map f (fun a b hab hfab => hab (hf a b hfab)) h

theorem nodup_reverse' {α : Type} {l : List α} (h : l.Nodup) : l.reverse.Nodup := by
  unfold List.Nodup at *
  rw [List.pairwise_reverse]
  exact h.imp (fun hab e => hab e.symm)

theorem nodup_rollupSets (n : Nat) : (rollupSets n).Nodup :=
  nodup_map_of_inj List.range (fun _ _ h => range_injective h) (nodup_reverse' List.nodup_range)

/-! ### CUBE -/

theorem length_cubeSets : ∀ n, (cubeSets n).length = 2 ^ n
  | 0 => rfl
  | n + 1 => by simp [cubeSets, length_cubeSets n, Nat.pow_succ]; omega

theorem range_succ_eq_cons_map (n : Nat) : List.range (n + 1) = 0 :: (List.range n).map (· + 1) := by
  rw [List.range_succ_eq_map]

theorem mem_cubeSets : ∀ (n : Nat) (s : List Nat), s ∈ cubeSets n ↔ s.Sublist (List.range n)
  | 0, s => by simp [cubeSets]
  | n + 1, s => by
    rw [range_succ_eq_cons_map]
    simp only [cubeSets, List.mem_append, List.mem_map]
    constructor
    · rintro (⟨t, ht, rfl⟩ | ⟨t, ht, rfl⟩)
      · exact ((mem_cubeSets n t).mp ht |>.map _).cons_cons 0
      · exact ((mem_cubeSets n t).mp ht |>.map _).cons 0
    · intro h
      cases h with
      | cons _ h' =>
        obtain ⟨t, ht, rfl⟩ := List.sublist_map_iff.mp h'
        exact Or.inr ⟨t, (mem_cubeSets n t).mpr ht, rfl⟩
      | cons_cons _ h' =>
        obtain ⟨t, ht, rfl⟩ := List.sublist_map_iff.mp h'
        exact Or.inl ⟨t, (mem_cubeSets n t).mpr ht, rfl⟩

theorem succ_map_injective : ∀ (a b : List Nat), a.map (· + 1) = b.map (· + 1) → a = b
  | [], [], _ => rfl
  | [], _ :: _, h => by simp at h
  | _ :: _, [], h => by simp at h
  | x :: xs, y :: ys, h => by
    simp only [List.map_cons, List.cons.injEq] at h
    rw [succ_map_injective xs ys h.2]
    have : x = y := by omega
    rw [this]

theorem nodup_cubeSets : ∀ n, (cubeSets n).Nodup
  | 0 => by simp [cubeSets]
  | n + 1 => by
    simp only [cubeSets]
    refine List.nodup_append.mpr ⟨?_, ?_, ?_⟩
    · refine nodup_map_of_inj _ ?_ (nodup_cubeSets n)
      intro a b h
      simp only [List.cons.injEq, true_and] at h
      exact succ_map_injective a b h
    · exact nodup_map_of_inj _ succ_map_injective (nodup_cubeSets n)
    · intro a ha b hb hab
      simp only [List.mem_map] at ha hb
      obtain ⟨t, _, rfl⟩ := ha
      obtain ⟨u, _, rfl⟩ := hb
      cases u with
      | nil => simp at hab
      | cons x xs => simp at hab

/-! ### the GROUPING() mask -/

theorem groupingMask_eq (n : Nat) (set : List Nat) : groupingMask n set = groupingOf (List.range n) set := rfl

def absentBit (set : List Nat) (i : Nat) : Int := if set.contains i then 0 else 1

/-- `v = (v << 1) | bit` from an arbitrary start value -/
def maskFrom (set : List Nat) (acc : Int) (l : List Nat) : Int := l.foldl (fun acc i => acc * 2 + absentBit set i) acc

theorem groupingOf_eq_maskFrom (a set : List Nat) : groupingOf a set = maskFrom set 0 a := rfl

theorem maskFrom_acc (set : List Nat) : ∀ (l : List Nat) (acc : Int), maskFrom set acc l = acc * 2 ^ l.length + maskFrom set 0 l
  | [], acc => by simp [maskFrom]
  | x :: xs, acc => by
    have h1 := maskFrom_acc set xs (acc * 2 + absentBit set x)
    have h2 := maskFrom_acc set xs (0 * 2 + absentBit set x)
    simp only [maskFrom, List.foldl_cons] at h1 h2 ⊢
    rw [h1, h2]
    simp only [List.length_cons, Int.pow_succ]
    rw [Int.add_mul, Int.add_mul, Int.zero_mul, Int.zero_mul, Int.zero_add, Int.mul_assoc, Int.add_assoc, Int.mul_comm 2]

theorem groupingOf_append (a b : List Nat) (set : List Nat) :
    groupingOf (a ++ b) set = groupingOf a set * 2 ^ b.length + groupingOf b set := by
  simp only [groupingOf_eq_maskFrom]
  have : maskFrom set 0 (a ++ b) = maskFrom set (maskFrom set 0 a) b := by simp [maskFrom, List.foldl_append]
  rw [this, maskFrom_acc]

theorem absentBit_range (set : List Nat) (i : Nat) : 0 ≤ absentBit set i ∧ absentBit set i ≤ 1 := by
  unfold absentBit; split <;> omega

theorem maskFrom_bounds (set : List Nat) : ∀ (l : List Nat) (acc : Int) (k : Nat), 0 ≤ acc → acc < 2 ^ k →
    0 ≤ maskFrom set acc l ∧ maskFrom set acc l < 2 ^ (k + l.length)
  | [], acc, k, h0, h1 => by simpa [maskFrom] using ⟨h0, h1⟩
  | x :: xs, acc, k, h0, h1 => by
    have hb := absentBit_range set x
    have h := maskFrom_bounds set xs (acc * 2 + absentBit set x) (k + 1) (by omega) (by rw [Int.pow_succ]; omega)
    simp only [maskFrom, List.foldl_cons, List.length_cons] at h ⊢
    rw [show k + (xs.length + 1) = k + 1 + xs.length by omega]
    exact h

theorem groupingOf_nonneg (a : List Nat) (set : List Nat) : 0 ≤ groupingOf a set :=
  (maskFrom_bounds set a 0 0 (by omega) (by simp)).1

theorem groupingOf_lt (a : List Nat) (set : List Nat) : groupingOf a set < 2 ^ a.length := by
  have := (maskFrom_bounds set a 0 0 (by omega) (by simp)).2
  rw [groupingOf_eq_maskFrom]
  simpa using this

/-- bit `j` (counted from the most significant of `args.length` bits) of GROUPING(args) is 1 iff `args[j]` is absent from the set -/
theorem groupingOf_bit (args set : List Nat) (j : Nat) (hj : j < args.length) :
    (groupingOf args set / 2 ^ (args.length - 1 - j)) % 2 = absentBit set args[j] := by
  have hsplit : args = args.take j ++ (args[j] :: args.drop (j + 1)) := by
    rw [List.getElem_cons_drop hj, List.take_append_drop]
  have hlen : (args.drop (j + 1)).length = args.length - 1 - j := by simp; omega
  have e1 : groupingOf args set =
      (groupingOf (args.take j) set * 2 + absentBit set args[j]) * 2 ^ (args.length - 1 - j) + groupingOf (args.drop (j + 1)) set := by
    have h1 : groupingOf [args[j]] set = absentBit set args[j] := by simp [groupingOf, absentBit]
    have h2 : groupingOf (args[j] :: args.drop (j + 1)) set =
        absentBit set args[j] * 2 ^ (args.length - 1 - j) + groupingOf (args.drop (j + 1)) set := by
      rw [show args[j] :: args.drop (j + 1) = [args[j]] ++ args.drop (j + 1) from rfl, groupingOf_append, hlen, h1]
    have h3 : groupingOf args set = groupingOf (args.take j) set * 2 ^ ((args.length - 1 - j) + 1) +
        groupingOf (args[j] :: args.drop (j + 1)) set := by
      conv => lhs; rw [hsplit]
      rw [groupingOf_append, List.length_cons, hlen]
    rw [h3, h2, Int.pow_succ, Int.add_mul, Int.mul_assoc, Int.mul_comm 2, Int.add_assoc]
  have hlo0 := groupingOf_nonneg (args.drop (j + 1)) set
  have hlo1 := groupingOf_lt (args.drop (j + 1)) set
  rw [hlen] at hlo1
  have hpos : (0 : Int) < 2 ^ (args.length - 1 - j) := Int.pow_pos (by omega)
  rw [e1, Int.add_comm, Int.add_mul_ediv_right _ _ (Int.ne_of_gt hpos), Int.ediv_eq_zero_of_lt hlo0 hlo1, Int.zero_add]
  have hb := absentBit_range set args[j]
  omega

/-! ### generic list / Except plumbing -/

theorem mapM_ok_map {α β : Type} (f : α → Except Err β) (g : α → β) : ∀ (l : List α), (∀ x, x ∈ l → f x = .ok (g x)) → l.mapM f = .ok (l.map g)
  | [], _ => rfl
  | x :: xs, h => by
    have h1 := h x (by simp)
    have h2 := mapM_ok_map f g xs (fun y hy => h y (by simp [hy]))
    simp only [List.mapM_cons, h1, h2, List.map_cons]
    rfl

theorem ok_bind {α β : Type} (x : α) (f : α → Except Err β) : (Except.ok x >>= f) = f x := rfl

theorem mapM_congr_mem {α β : Type} (f g : α → Except Err β) : ∀ (l : List α), (∀ x, x ∈ l → f x = g x) → l.mapM f = l.mapM g
  | [], _ => rfl
  | x :: xs, h => by
    simp only [List.mapM_cons, h x (by simp), mapM_congr_mem f g xs (fun y hy => h y (by simp [hy]))]

theorem mapM_map_arg {α β γ : Type} (f : β → Except Err γ) (g : α → β) : ∀ (l : List α), (l.map g).mapM f = l.mapM (fun x => f (g x))
  | [] => rfl
  | x :: xs => by simp only [List.map_cons, List.mapM_cons, mapM_map_arg f g xs]

theorem mapM_then_map {α β γ : Type} (f : α → Except Err β) (post : β → γ) : ∀ (l : List α),
    (do let t ← l.mapM f; pure (t.map post) : Except Err (List γ)) = l.mapM (fun x => do let y ← f x; pure (post y))
  | [] => rfl
  | x :: xs => by
    have ih := mapM_then_map f post xs
    simp only [List.mapM_cons]
    cases hx : f x with
    | error e => rfl
    | ok y =>
      cases hxs : xs.mapM f with
      | error e =>
        rw [hxs] at ih
        have : xs.mapM (fun x => do let y ← f x; pure (post y)) = .error e := ih.symm
        simp only [this]; rfl
      | ok ys =>
        rw [hxs] at ih
        have : xs.mapM (fun x => do let y ← f x; pure (post y)) = .ok (ys.map post) := ih.symm
        simp only [this]; rfl

theorem any_congr_mem {α : Type} (p q : α → Bool) : ∀ (l : List α), (∀ x, x ∈ l → p x = q x) → l.any p = l.any q
  | [], _ => rfl
  | x :: xs, h => by
    simp only [List.any_cons, h x (by simp), any_congr_mem p q xs (fun y hy => h y (by simp [hy]))]

/-! ### positions of keys in a set -/

theorem posOf_none (set : List Nat) (i : Nat) : posOf set i = none ↔ i ∉ set := by
  induction set with
  | nil => simp [posOf]
  | cons x xs ih =>
    simp only [posOf]
    by_cases h : x = i
    · simp [h]
    · simp only [h, if_false, Option.map_eq_none_iff, ih, List.mem_cons, not_or]
      exact ⟨fun h' => ⟨fun e => h e.symm, h'⟩, fun h' => h'.2⟩

theorem posOf_some (set : List Nat) (i j : Nat) (h : posOf set i = some j) : set[j]? = some i := by
  induction set generalizing j with
  | nil => simp [posOf] at h
  | cons x xs ih =>
    simp only [posOf] at h
    by_cases hx : x = i
    · simp only [hx, if_true, Option.some.injEq] at h; subst h; simp [hx]
    · simp only [hx, if_false, Option.map_eq_some_iff] at h
      obtain ⟨k, hk, rfl⟩ := h
      simpa using ih k hk

theorem posOf_getElem (set : List Nat) (hn : set.Nodup) (j : Nat) (hj : j < set.length) : posOf set set[j] = some j := by
  induction set generalizing j with
  | nil => simp at hj
  | cons x xs ih =>
    have hx := List.nodup_cons.mp hn
    cases j with
    | zero => simp [posOf]
    | succ k =>
      have hk : k < xs.length := by simpa using hj
      have hne : x ≠ xs[k] := fun e => hx.1 (e ▸ List.getElem_mem hk)
      simp [posOf, hne, ih hx.2 k hk]

/-- a set as the binder writes it for ROLLUP / CUBE / a duplicate-free GROUPING SETS entry -/
def GoodSet (n : Nat) (set : List Nat) : Prop := set.Nodup ∧ ∀ i, i ∈ set → i < n

def selKey (set : List Nat) (kv : Row) : Row := set.map fun i => kv.getD i .null
def padAll (n : Nat) (set : List Nat) (kv : Row) : Row := (List.range n).map fun i => if set.contains i then kv.getD i .null else .null

theorem padKey_selKey (n : Nat) (set : List Nat) (kv : Row) : padKey n set (selKey set kv) = padAll n set kv := by
  simp only [padKey, padAll]
  apply List.map_congr_left
  intro i _
  cases h : posOf set i with
  | none =>
    have : i ∉ set := (posOf_none set i).mp h
    simp [this]
  | some j =>
    have hj := posOf_some set i j h
    have hmem : i ∈ set := List.mem_of_getElem? hj
    simp [selKey, hmem, List.getD_eq_getElem?_getD, List.getElem?_map, hj]

theorem padKey_nil (n : Nat) (kv : Row) : padKey n [] kv = nulls n := by
  simp only [padKey, posOf, nulls]
  induction n with
  | zero => rfl
  | succ k ih => rw [List.range_succ, List.map_append, ih]; simp [List.replicate_succ']

theorem padKey_injective (n : Nat) (set : List Nat) (hs : GoodSet n set) (x y : Row)
    (hx : x.length = set.length) (hy : y.length = set.length) (h : padKey n set x = padKey n set y) : x = y := by
  apply List.ext_getElem (by omega)
  intro j hjx hjy
  have hj : j < set.length := by omega
  have hi : set[j] < n := hs.2 _ (List.getElem_mem hj)
  have h1 := congrArg (fun l => l[set[j]]?) h
  simp only [padKey, List.getElem?_map, List.getElem?_range hi, Option.map_some, posOf_getElem set hs.1 j hj] at h1
  simpa [List.getD_eq_getElem?_getD, List.getElem?_eq_getElem hjx, List.getElem?_eq_getElem hjy] using h1

/-! ### `groupBy` under an injective renaming of the keys -/

def gstep (acc : List (Row × Table)) (kr : Row × Row) : List (Row × Table) :=
  if acc.any (fun g => g.1 = kr.1) then acc.map (fun g => if g.1 = kr.1 then (g.1, g.2 ++ [kr.2]) else g)
  else acc ++ [(kr.1, [kr.2])]

theorem groupBy_eq_foldl (keyed : List (Row × Row)) : groupBy keyed = keyed.foldl gstep [] := rfl

section
variable (f : Row → Row) (P : Row → Prop) (hinj : ∀ a b, P a → P b → f a = f b → a = b)

include hinj in
theorem gstep_map (acc : List (Row × Table)) (k r : Row) (hacc : ∀ g, g ∈ acc → P g.1) (hk : P k) :
    gstep (acc.map fun g => (f g.1, g.2)) (f k, r) = (gstep acc (k, r)).map fun g => (f g.1, g.2) := by
  have hiff : ∀ g, g ∈ acc → (f g.1 = f k ↔ g.1 = k) := fun g hg => ⟨hinj _ _ (hacc g hg) hk, fun e => by rw [e]⟩
  have hany : (acc.map fun g => (f g.1, g.2)).any (fun g => g.1 = f k) = acc.any (fun g => g.1 = k) := by
    rw [List.any_map]
    apply any_congr_mem
    intro g hg
    simp [hiff g hg]
  simp only [gstep, hany]
  split
  · simp only [List.map_map]
    apply List.map_congr_left
    intro g hg
    by_cases e : g.1 = k
    · simp [e]
    · have : ¬ f g.1 = f k := fun h' => e ((hiff g hg).mp h')
      simp [e, this]
  · simp

theorem gstep_keys (acc : List (Row × Table)) (k r : Row) (hacc : ∀ g, g ∈ acc → P g.1) (hk : P k) :
    ∀ g, g ∈ gstep acc (k, r) → P g.1 := by
  intro g hg
  simp only [gstep] at hg
  split at hg
  · simp only [List.mem_map] at hg
    obtain ⟨g0, hg0, rfl⟩ := hg
    split <;> exact hacc g0 hg0
  · rcases List.mem_append.mp hg with hg | hg
    · exact hacc g hg
    · simp at hg; subst hg; exact hk

theorem foldl_gstep_keys : ∀ (l : List (Row × Row)) (acc : List (Row × Table)), (∀ g, g ∈ acc → P g.1) → (∀ x, x ∈ l → P x.1) →
    ∀ g, g ∈ l.foldl gstep acc → P g.1
  | [], acc, hacc, _ => by simpa using hacc
  | (k, r) :: xs, acc, hacc, hl => by
    simp only [List.foldl_cons]
    exact foldl_gstep_keys xs _ (gstep_keys P acc k r hacc (hl (k, r) (by simp))) (fun x hx => hl x (by simp [hx]))

include hinj in
theorem foldl_gstep_map : ∀ (l : List (Row × Row)) (acc : List (Row × Table)), (∀ g, g ∈ acc → P g.1) → (∀ x, x ∈ l → P x.1) →
    (l.map fun x => (f x.1, x.2)).foldl gstep (acc.map fun g => (f g.1, g.2)) = (l.foldl gstep acc).map fun g => (f g.1, g.2)
  | [], acc, _, _ => rfl
  | (k, r) :: xs, acc, hacc, hl => by
    have hk : P k := hl (k, r) (by simp)
    simp only [List.map_cons, List.foldl_cons, gstep_map f P hinj acc k r hacc hk]
    exact foldl_gstep_map xs _ (gstep_keys P acc k r hacc hk) (fun x hx => hl x (by simp [hx]))

include hinj in
theorem groupBy_map (l : List (Row × Row)) (hl : ∀ x, x ∈ l → P x.1) :
    groupBy (l.map fun x => (f x.1, x.2)) = (groupBy l).map fun g => (f g.1, g.2) := by
  simpa [groupBy_eq_foldl] using foldl_gstep_map f P hinj l [] (fun _ h => by simp at h) hl

theorem groupBy_keys (l : List (Row × Row)) (hl : ∀ x, x ∈ l → P x.1) : ∀ g, g ∈ groupBy l → P g.1 := by
  rw [groupBy_eq_foldl]
  exact foldl_gstep_keys P l [] (fun _ h => by simp at h) hl
end

/-! ### `Spec.aggregateSets` = UNION ALL of one aggregate per set -/

section desugar
variable (cx : EvalCtx) (env : Env) (keys : List Expr) (aggs : List AggCall) (rows : Table)

/-- the part of `Spec.aggregateSets` that belongs to one grouping set -/
def specPart (set : List Nat) : Except Err Table := do
  let keyed ← rows.mapM fun r => do
    let kv ← evalList cx (r :: env) keys
    pure ((List.range keys.length).map (fun i => if set.contains i then kv.getD i .null else .null), r)
  let groups := if set.isEmpty then [(nulls keys.length, rows)] else groupBy keyed
  groups.mapM fun (k, g) => do pure (k ++ (← aggGroup cx env aggs g) ++ [.int (groupingMask keys.length set)])

theorem aggregateSets_eq (sets : List (List Nat)) :
    aggregateSets cx env keys sets aggs rows = (do let parts ← sets.mapM (specPart cx env keys aggs rows); pure parts.flatten) := rfl

theorem evalList_getD : ∀ (es : List Expr) (vs : Row) (e : Env), evalList cx e es = .ok vs →
    ∀ i, i < es.length → eval cx e (es.getD i (.lit .null)) = .ok (vs.getD i .null)
  | [], _, _, _, i, hi => by simp at hi
  | x :: xs, vs, e, h, i, hi => by
    simp only [evalList] at h
    cases hx : eval cx e x with
    | error err => simp [hx] at h; cases h
    | ok v =>
      cases hxs : evalList cx e xs with
      | error err => simp [hx, hxs] at h; cases h
      | ok vs' =>
        simp only [hx, hxs] at h
        have hv : vs = v :: vs' := by cases h; rfl
        subst hv
        cases i with
        | zero => simpa using hx
        | succ j => simpa using evalList_getD xs vs' e hxs j (by simpa using hi)

theorem evalList_subKeys (kv : Row) (e : Env) (h : evalList cx e keys = .ok kv) : ∀ (set : List Nat), (∀ i, i ∈ set → i < keys.length) →
    evalList cx e (subKeys keys set) = .ok (selKey set kv)
  | [], _ => by simp [subKeys, selKey, evalList]
  | i :: is, hs => by
    have h1 := evalList_getD cx keys kv e h i (hs i (by simp))
    have h2 := evalList_subKeys kv e h is (fun j hj => hs j (by simp [hj]))
    simp only [subKeys, selKey, List.map_cons] at h2 ⊢
    simp only [evalList, h1, h2]
    rfl

/-- the key values of a row (meaningful where the keys evaluate) -/
def kvOf (r : Row) : Row := match evalList cx (r :: env) keys with | .ok kv => kv | .error _ => []

theorem kvOf_spec (r : Row) (h : ∃ kv, evalList cx (r :: env) keys = .ok kv) : evalList cx (r :: env) keys = .ok (kvOf cx env keys r) := by
  obtain ⟨kv, hkv⟩ := h
  simp [kvOf, hkv]

theorem specPart_eq_branch (set : List Nat) (hs : GoodSet keys.length set)
    (hk : ∀ r, r ∈ rows → ∃ kv, evalList cx (r :: env) keys = .ok kv) :
    specPart cx env keys aggs rows set = branch cx env keys aggs rows set := by
  have hkeyed : (rows.mapM fun r => do
      let kv ← evalList cx (r :: env) keys
      pure ((List.range keys.length).map (fun i => if set.contains i then kv.getD i .null else .null), r)) =
      .ok (rows.map fun r => (padAll keys.length set (kvOf cx env keys r), r)) := by
    apply mapM_ok_map
    intro r hr
    rw [kvOf_spec cx env keys r (hk r hr)]
    rfl
  have hkeyed' : (rows.mapM fun r => do pure ((← evalList cx (r :: env) (subKeys keys set)), r)) =
      .ok (rows.map fun r => (selKey set (kvOf cx env keys r), r)) := by
    apply mapM_ok_map
    intro r hr
    rw [evalList_subKeys cx keys _ _ (kvOf_spec cx env keys r (hk r hr)) set hs.2]
    rfl
  simp only [specPart, hkeyed, branch, aggregate]
  cases set with
  | nil =>
    simp only [subKeys, List.map_nil, List.isEmpty_nil, if_true, List.mapM_cons, List.mapM_nil, List.length_nil, List.take_zero,
      List.drop_zero, padKey_nil, groupingMask_eq]
    cases aggGroup cx env aggs rows with
    | error e => rfl
    | ok a => rfl
  | cons i0 is =>
    have hne : (subKeys keys (i0 :: is)).isEmpty = false := by simp [subKeys]
    have hne' : (i0 :: is).isEmpty = false := rfl
    simp only [hne, hne', hkeyed']
    -- the reference groups by the padded key, the branch by its own key
    have hmapk : (rows.map fun r => (padAll keys.length (i0 :: is) (kvOf cx env keys r), r)) =
        (rows.map fun r => (selKey (i0 :: is) (kvOf cx env keys r), r)).map fun x => (padKey keys.length (i0 :: is) x.1, x.2) := by
      simp [List.map_map, Function.comp_def, padKey_selKey]
    have hP : ∀ x, x ∈ (rows.map fun r => (selKey (i0 :: is) (kvOf cx env keys r), r)) → x.1.length = (i0 :: is).length := by
      intro x hx
      simp only [List.mem_map] at hx
      obtain ⟨r, _, rfl⟩ := hx
      simp [selKey]
    have hinj : ∀ a b : Row, a.length = (i0 :: is).length → b.length = (i0 :: is).length →
        padKey keys.length (i0 :: is) a = padKey keys.length (i0 :: is) b → a = b :=
      fun a b ha hb h => padKey_injective keys.length (i0 :: is) hs a b ha hb h
    have hgroups := groupBy_map (padKey keys.length (i0 :: is)) (fun k => k.length = (i0 :: is).length) hinj _ hP
    have hkeysG := groupBy_keys (fun k => k.length = (i0 :: is).length) _ hP
    simp only [if_false, Bool.false_eq_true]
    rw [hmapk, ok_bind, ok_bind, hgroups, mapM_map_arg]
    rw [mapM_then_map]
    apply mapM_congr_mem
    intro g hg
    have hlen := hkeysG g hg
    obtain ⟨k, gr⟩ := g
    simp only at hlen ⊢
    cases aggGroup cx env aggs gr with
    | error e => rfl
    | ok a =>
      show Except.ok _ = Except.ok _
      have hlen' : k.length = is.length + 1 := by simpa using hlen
      simp [groupingMask_eq, List.take_left' hlen', List.drop_left' hlen']

theorem desugar_eq (sets : List (List Nat)) (hs : ∀ set, set ∈ sets → GoodSet keys.length set)
    (hk : ∀ r, r ∈ rows → ∃ kv, evalList cx (r :: env) keys = .ok kv) :
    aggregateSets cx env keys sets aggs rows = desugar cx env keys sets aggs rows := by
  rw [aggregateSets_eq, desugar]
  rw [mapM_congr_mem _ _ sets (fun set hset => specPart_eq_branch cx env keys aggs rows set (hs set hset) hk)]

end desugar

end IQE.Lemmas.GroupingSets
