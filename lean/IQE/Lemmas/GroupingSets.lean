/-
  IQE.Lemmas.GroupingSets — lemmas behind IQE.Props.C27: ROLLUP / CUBE expansion, the GROUPING() bit mask,
  and the equality of `Spec.aggregateSets` with the binder's UNION ALL desugaring.
-/
import IQE.Engine.GroupingSets
namespace IQE.Lemmas.GroupingSets
open IQE IQE.Spec IQE.Engine.GroupingSets

/-! ### ROLLUP -/

theorem mem_rollupSets (n : Nat) (s : List Nat) : s ∈ rollupSets n ↔ ∃ k, k ≤ n ∧ s = List.range k := by
  simp only [rollupSets, List.mem_map, List.mem_reverse, List.mem_range]
  constructor
  · rintro ⟨k, hk, rfl⟩; exact ⟨k, by omega, rfl⟩
  · rintro ⟨k, hk, rfl⟩; exact ⟨k, by omega, rfl⟩

theorem length_rollupSets (n : Nat) : (rollupSets n).length = n + 1 := by simp [rollupSets]

theorem range_injective {a b : Nat} (h : List.range a = List.range b) : a = b := by
  have := congrArg List.length h
  simpa using this

theorem nodup_map_of_inj {α β : Type} (f : α → β) (hf : ∀ a b, f a = f b → a = b) {l : List α} (h : l.Nodup) : (l.map f).Nodup :=
  List.Pairwise.map f (fun a b hab hfab => hab (hf a b hfab)) h

theorem nodup_rollupSets (n : Nat) : (rollupSets n).Nodup :=
  nodup_map_of_inj List.range (fun _ _ h => range_injective h) (List.nodup_reverse.mpr List.nodup_range)

/-! ### CUBE -/

theorem length_cubeSets : ∀ n, (cubeSets n).length = 2 ^ n
  | 0 => rfl
  | n + 1 => by simp [cubeSets, length_cubeSets n, Nat.pow_succ]; omega

theorem range_succ_eq_cons_map (n : Nat) : List.range (n + 1) = 0 :: (List.range n).map (· + 1) := by
  rw [List.range_succ_eq_map]

theorem mem_cubeSets : ∀ (n : Nat) (s : List Nat), s ∈ cubeSets n ↔ s.Sublist (List.range n)
  | 0, s => by simp [cubeSets]
  | n + 1, s => by
    rw [range_succ_eq_cons_map]
    simp only [cubeSets, List.mem_append, List.mem_map]
    constructor
    · rintro (⟨t, ht, rfl⟩ | ⟨t, ht, rfl⟩)
      · exact ((mem_cubeSets n t).mp ht |>.map _).cons_cons 0
      · exact ((mem_cubeSets n t).mp ht |>.map _).cons 0
    · intro h
      cases h with
      | cons _ h' =>
        obtain ⟨t, ht, rfl⟩ := List.sublist_map_iff.mp h'
        exact Or.inr ⟨t, (mem_cubeSets n t).mpr ht, rfl⟩
      | cons_cons _ h' =>
        obtain ⟨t, ht, rfl⟩ := List.sublist_map_iff.mp h'
        exact Or.inl ⟨t, (mem_cubeSets n t).mpr ht, rfl⟩

theorem succ_map_injective : ∀ (a b : List Nat), a.map (· + 1) = b.map (· + 1) → a = b
  | [], [], _ => rfl
  | [], _ :: _, h => by simp at h
  | _ :: _, [], h => by simp at h
  | x :: xs, y :: ys, h => by
    simp only [List.map_cons, List.cons.injEq] at h
    rw [succ_map_injective xs ys h.2]
    have : x = y := by omega
    rw [this]

theorem nodup_cubeSets : ∀ n, (cubeSets n).Nodup
  | 0 => by simp [cubeSets]
  | n + 1 => by
    simp only [cubeSets]
    refine List.nodup_append.mpr ⟨?_, ?_, ?_⟩
    · refine nodup_map_of_inj _ ?_ (nodup_cubeSets n)
      intro a b h
      simp only [List.cons.injEq, true_and] at h
      exact succ_map_injective a b h
    · exact nodup_map_of_inj _ succ_map_injective (nodup_cubeSets n)
    · intro a ha b hb hab
      simp only [List.mem_map] at ha hb
      obtain ⟨t, _, rfl⟩ := ha
      obtain ⟨u, _, rfl⟩ := hb
      cases u with
      | nil => simp at hab
      | cons x xs => simp at hab

/-! ### the GROUPING() mask -/

theorem groupingMask_eq (n : Nat) (set : List Nat) : groupingMask n set = groupingOf (List.range n) set := rfl

def absentBit (set : List Nat) (i : Nat) : Int := if set.contains i then 0 else 1

/-- `v = (v << 1) | bit` from an arbitrary start value -/
def maskFrom (set : List Nat) (acc : Int) (l : List Nat) : Int := l.foldl (fun acc i => acc * 2 + absentBit set i) acc

theorem groupingOf_eq_maskFrom (a set : List Nat) : groupingOf a set = maskFrom set 0 a := rfl

theorem maskFrom_acc (set : List Nat) : ∀ (l : List Nat) (acc : Int), maskFrom set acc l = acc * 2 ^ l.length + maskFrom set 0 l
  | [], acc => by simp [maskFrom]
  | x :: xs, acc => by
    have h1 := maskFrom_acc set xs (acc * 2 + absentBit set x)
    have h2 := maskFrom_acc set xs (0 * 2 + absentBit set x)
    simp only [maskFrom, List.foldl_cons] at h1 h2 ⊢
    rw [h1, h2]
    simp only [List.length_cons, Int.pow_succ]
    rw [Int.add_mul, Int.add_mul, Int.zero_mul, Int.zero_mul, Int.zero_add, Int.mul_assoc, Int.add_assoc, Int.mul_comm 2]

theorem groupingOf_append (a b : List Nat) (set : List Nat) :
    groupingOf (a ++ b) set = groupingOf a set * 2 ^ b.length + groupingOf b set := by
  simp only [groupingOf_eq_maskFrom]
  have : maskFrom set 0 (a ++ b) = maskFrom set (maskFrom set 0 a) b := by simp [maskFrom, List.foldl_append]
  rw [this, maskFrom_acc]

theorem absentBit_range (set : List Nat) (i : Nat) : 0 ≤ absentBit set i ∧ absentBit set i ≤ 1 := by
  unfold absentBit; split <;> omega

theorem maskFrom_bounds (set : List Nat) : ∀ (l : List Nat) (acc : Int) (k : Nat), 0 ≤ acc → acc < 2 ^ k →
    0 ≤ maskFrom set acc l ∧ maskFrom set acc l < 2 ^ (k + l.length)
  | [], acc, k, h0, h1 => by simpa [maskFrom] using ⟨h0, h1⟩
  | x :: xs, acc, k, h0, h1 => by
    have hb := absentBit_range set x
    have h := maskFrom_bounds set xs (acc * 2 + absentBit set x) (k + 1) (by omega) (by rw [Int.pow_succ]; omega)
    simp only [maskFrom, List.foldl_cons, List.length_cons] at h ⊢
    rw [show k + (xs.length + 1) = k + 1 + xs.length by omega]
    exact h

theorem groupingOf_nonneg (a : List Nat) (set : List Nat) : 0 ≤ groupingOf a set :=
  (maskFrom_bounds set a 0 0 (by omega) (by simp)).1

theorem groupingOf_lt (a : List Nat) (set : List Nat) : groupingOf a set < 2 ^ a.length := by
  have := (maskFrom_bounds set a 0 0 (by omega) (by simp)).2
  simpa using this

/-- bit `j` (counted from the most significant of `args.length` bits) of GROUPING(args) is 1 iff `args[j]` is absent from the set -/
theorem groupingOf_bit (args set : List Nat) (j : Nat) (hj : j < args.length) :
    (groupingOf args set / 2 ^ (args.length - 1 - j)) % 2 = absentBit set args[j] := by
  have hsplit : args = args.take j ++ (args[j] :: args.drop (j + 1)) := by
    rw [List.getElem_cons_drop_succ_eq_drop hj, List.take_append_drop]
  have hlen : (args.drop (j + 1)).length = args.length - 1 - j := by simp; omega
  have e1 : groupingOf args set =
      (groupingOf (args.take j) set * 2 + absentBit set args[j]) * 2 ^ (args.length - 1 - j) + groupingOf (args.drop (j + 1)) set := by
    conv => lhs; rw [hsplit]
    rw [groupingOf_append, show args[j] :: args.drop (j + 1) = [args[j]] ++ args.drop (j + 1) from rfl, groupingOf_append, hlen]
    have h1 : groupingOf [args[j]] set = absentBit set args[j] := by simp [groupingOf, absentBit]
    rw [h1]
    simp only [List.length_append, List.length_singleton, hlen]
    rw [Int.add_mul, Int.mul_assoc, ← Int.pow_succ', Int.add_assoc]
    congr 2
    omega
  have hlo0 := groupingOf_nonneg (args.drop (j + 1)) set
  have hlo1 := groupingOf_lt (args.drop (j + 1)) set
  rw [hlen] at hlo1
  have hpos : (0 : Int) < 2 ^ (args.length - 1 - j) := Int.pow_pos (by omega)
  rw [e1, Int.add_comm, Int.add_mul_ediv_right _ _ (Int.ne_of_gt hpos), Int.ediv_eq_zero_of_lt hlo0 hlo1, Int.zero_add]
  have hb := absentBit_range set args[j]
  omega

end IQE.Lemmas.GroupingSets
