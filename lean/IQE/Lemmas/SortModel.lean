/-
  IQE.Lemmas.SortModel — the SortExec / LimitExec / planner models of IQE.Engine.SortLimit compute the
  reference answers: `sort_batch` (indices + take) = stable sort (then `take fetch`); the limit stream
  = `drop skip ∘ take fetch` of the concatenated input; the fused and the unfused plan agree.
-/
import IQE.Lemmas.LimitStream
import IQE.Lemmas.Sorting
import IQE.Lemmas.KeyOrder
namespace IQE.Lemmas.SortModel
open IQE IQE.Spec IQE.Gen.Limit IQE.Engine.SortLimit IQE.Lemmas.LimitStream

/-- `LIMIT fetch` on a list -/
def takeOpt {α : Type} (fetch : Option Nat) (l : List α) : List α :=
  match fetch with
  | some n => l.take n
  | none => l

/-- the row comparator of ORDER BY on key-carrying rows -/
def leKeyed (fo : FloatOps) (flags : List (Bool × Bool)) (a b : Keyed) : Bool := cmpKeys fo flags a.1 b.1 != .gt

theorem sortKeyed_eq (fo : FloatOps) (flags : List (Bool × Bool)) (xs : List Keyed) :
    sortKeyed fo flags xs = xs.mergeSort (leKeyed fo flags) := rfl

theorem map_getD_range {α : Type} (l : List α) (d : α) : (List.range l.length).map (fun i => l.getD i d) = l := by
  apply List.ext_getElem
  · simp
  · intro i h₁ h₂
    simp only [List.getElem_map, List.getElem_range]
    simp at h₁
    simp [List.getD, h₂]

/-- `sort_batch` = evaluate keys, `lexsort_to_indices`, `take`  computes the stable sort truncated to `fetch` -/
theorem sortBatch_eq (fo : FloatOps) (flags : List (Bool × Bool)) (fetch : Option Nat) (batch : List Keyed) :
    sortBatch fo flags fetch batch = takeOpt fetch (batch.mergeSort (leKeyed fo flags)) := by
  unfold sortBatch
  by_cases he : batch.isEmpty = true
  · have : batch = [] := by simpa using he
    subst this
    cases fetch <;> simp [takeOpt]
  · simp only [he, Bool.false_eq_true, if_false]
    have key : ((List.range (batch.map (·.1)).length).mergeSort
          (fun i j => cmpKeys fo flags ((batch.map (·.1)).getD i []) ((batch.map (·.1)).getD j []) != .gt)).map
          (fun i => batch.getD i ([], [])) = batch.mergeSort (leKeyed fo flags) := by
      rw [List.map_mergeSort (s := leKeyed fo flags)]
      · rw [List.length_map, map_getD_range]
      · intro i _ j _
        simp only [leKeyed]
        have h : ∀ k, (batch.map (·.1)).getD k [] = (batch.getD k ([], [])).1 := by
          intro k
          simp only [List.getD, List.getElem?_map]
          cases batch[k]? <;> rfl
        rw [h i, h j]
    unfold lexsortToIndices
    cases fetch with
    | none => simpa [takeOpt] using key
    | some k => simp only [takeOpt, List.map_take]; rw [key]

theorem sortExec_flatten (fo : FloatOps) (flags : List (Bool × Bool)) (fetch : Option Nat) (parts : List (List (List Keyed))) :
    (sortExec fo flags fetch parts).flatten = takeOpt fetch (parts.flatten.flatten.mergeSort (leKeyed fo flags)) := by
  unfold sortExec
  by_cases he : parts.flatten.isEmpty = true
  · have : parts.flatten = [] := by simpa using he
    simp only [he, if_true, this, List.flatten_nil]
    cases fetch <;> simp [takeOpt]
  · simp only [he, Bool.false_eq_true, if_false, List.flatten_cons, List.flatten_nil, List.append_nil]
    exact sortBatch_eq fo flags fetch _

/-! ### the limit stream on concrete rows -/

theorem partsTotal_lengths {α : Type} (parts : List (List (List α))) :
    partsTotal (parts.map (·.map List.length)) = parts.flatten.flatten.length := by
  induction parts with
  | nil => rfl
  | cons p ps ih =>
    have : partsTotal ((p :: ps).map (·.map List.length)) = (p.map List.length).sum + partsTotal (ps.map (·.map List.length)) := by
      simp [partsTotal]
    rw [this, ih]
    simp [List.length_flatten]

/-- The stream loop over ANY cut of `xs` into partitions and batches (`lens` = the batch lengths). -/
theorem stream_spec {α : Type} (skip : Nat) (fetch : Option Nat) (lens : List (List Nat)) (xs : List α)
    (hxs : xs.length = partsTotal lens)
    (hU1 : (skip : Int) ≤ Rs.USIZE_MAX) (hU2 : (xs.length : Int) ≤ Rs.USIZE_MAX) :
    (runParts (initState skip fetch) (layoutParts 0 lens)).2.1.flatMap (rowsOf xs) = takeOpt fetch (xs.drop skip) ∧
    (runParts (initState skip fetch) (layoutParts 0 lens)).2.2 = openedSpec skip fetch 0 lens ∧
    runPartsInRange (initState skip fetch) (layoutParts 0 lens) := by
  have hinv := inv_init skip fetch
  have hsat0 : (initState skip fetch).satisfied = satisfiedAt skip fetch 0 :=
    satisfied_of_inv _ 0 skip fetch hinv rfl rfl
  have h := runParts_spec xs skip fetch lens (initState skip fetch) 0 0
    hinv (Nat.le_refl 0) (Or.inl rfl) rfl rfl hU1 (by rw [← hxs]; simpa using hU2)
  generalize runParts (initState skip fetch) (layoutParts 0 lens) = r at h ⊢
  obtain ⟨⟨c', hi, hc1, hc2⟩, hsk, hfe, _, hrows, hopen, hrange⟩ := h
  refine ⟨?_, ?_, hrange⟩
  · rw [hrows]
    have hfin := hi.fetched_eq
    have hskip : r.1.skip = skip := by simpa [initState] using hsk
    rw [← hxs] at hc1 hc2
    simp only [between, initState, rowsOf]
    rw [hfe, hskip] at hfin
    have hlen : (xs.drop skip).length = xs.length - skip := by simp
    have e1 : ((skip : Int) + 0).toNat = skip := by omega
    cases fetch with
    | none =>
      simp only [initState, Option.map_none, fetchedAt] at hfin
      have hsatf : r.1.satisfied = false := by
        simp [LimitState.satisfied, hfe, initState]
      have hc : c' = xs.length := by
        rcases hc2 with h | h
        · omega
        · rw [hsatf] at h; cases h
      simp only [takeOpt]
      rw [e1]
      apply List.take_of_length_le
      rw [hlen]; omega
    | some n =>
      simp only [initState, Option.map_some, fetchedAt, Int.ofNat_eq_natCast] at hfin
      simp only [takeOpt]
      rw [e1]
      rcases hc2 with h | h
      · -- all input consumed
        have hf : (r.1.fetched - 0).toNat = min n (xs.length - skip) := by omega
        rw [hf, List.take_eq_take_min (i := n), hlen]
      · -- stopped because the limit was satisfied
        have := (satisfied_iff r.1).1 h
        obtain ⟨m, hm1, hm2⟩ := this
        rw [hfe] at hm1
        simp only [initState, Option.map_some, Option.some.injEq, Int.ofNat_eq_natCast] at hm1
        have hf : (r.1.fetched - 0).toNat = n := by omega
        rw [hf]
  · rw [hopen, hsat0]
    cases hs : satisfiedAt skip fetch 0
    · simp
    · cases lens with
      | nil => simp [openedSpec]
      | cons p ps => simp [openedSpec, hs]

theorem limitExec_spec {α : Type} (skip : Nat) (fetch : Option Nat) (parts : List (List (List α)))
    (hU1 : (skip : Int) ≤ Rs.USIZE_MAX) (hU2 : (parts.flatten.flatten.length : Int) ≤ Rs.USIZE_MAX) :
    (limitExec skip fetch parts).1.flatten = takeOpt fetch (parts.flatten.flatten.drop skip) ∧
    (limitExec skip fetch parts).2 = openedSpec skip fetch 0 (parts.map (·.map List.length)) ∧
    runPartsInRange (initState skip fetch) (layoutParts 0 (parts.map (·.map List.length))) := by
  have h := stream_spec skip fetch (parts.map (·.map List.length)) parts.flatten.flatten
    (partsTotal_lengths parts).symm hU1 hU2
  unfold limitExec
  simp only []
  rw [← List.flatMap_def]
  exact h

/-! ### Sort + Limit, fused or not -/

theorem orderLimit_eq (fo : FloatOps) (flags : List (Bool × Bool)) (skip : Nat) (fetch : Option Nat)
    (parts : List (List (List Keyed)))
    (hU1 : (skip : Int) ≤ Rs.USIZE_MAX) (hU2 : (parts.flatten.flatten.length : Int) ≤ Rs.USIZE_MAX) :
    orderLimit fo flags skip fetch parts = takeOpt fetch ((sortKeyed fo flags parts.flatten.flatten).drop skip) := by
  unfold orderLimit planLimitOverSort
  have hunfused : ∀ (s : Nat) (f : Option Nat), ((s : Nat) : Int) ≤ Rs.USIZE_MAX →
      execPhys fo flags parts (.limitOverSort s f) = takeOpt f ((sortKeyed fo flags parts.flatten.flatten).drop s) := by
    intro s f hs
    show (limitExec s f [sortExec fo flags none parts]).1.flatten = _
    have hflat : [sortExec fo flags none parts].flatten.flatten = sortKeyed fo flags parts.flatten.flatten := by
      simp only [List.flatten_cons, List.flatten_nil, List.append_nil]
      rw [sortExec_flatten]; rfl
    have := (limitExec_spec s f [sortExec fo flags none parts] hs (by
      rw [hflat, sortKeyed_eq, List.length_mergeSort]; exact hU2)).1
    rw [this, hflat]
  by_cases h0 : skip = 0
  · subst h0
    cases fetch with
    | none => simpa using hunfused 0 none hU1
    | some k =>
      simp only [beq_self_eq_true, if_true, execPhys]
      rw [sortExec_flatten]
      simp [takeOpt, sortKeyed_eq]
  · have : (skip == 0) = false := by simpa using h0
    simp only [this, Bool.false_eq_true, if_false]
    exact hunfused skip fetch hU1

end IQE.Lemmas.SortModel
