/-
  Generic facts about the Rust-std text models in IQE.Core.Text / TextMore / Utf8
  (shared by the proofs of the byte-level properties).
-/
import IQE.Core.TextMore
import IQE.Core.Utf8
namespace IQE.Text
open IQE

theorem dropWhile_self {α} (p : α → Bool) : ∀ l : List α, (∀ x ∈ l.head?, p x = false) → l.dropWhile p = l
  | [], _ => rfl
  | a :: t, h => by
    have : p a = false := h a (by simp)
    simp [List.dropWhile, this]

theorem dropWhile_append_all {α} (p : α → Bool) : ∀ (a b : List α), a.all p = true → (a ++ b).dropWhile p = b.dropWhile p
  | [], _, _ => rfl
  | x :: t, b, h => by
    simp only [List.all_cons, Bool.and_eq_true] at h
    simp only [List.cons_append, List.dropWhile, h.1]
    exact dropWhile_append_all p t b h.2

/-- `trim` removes white space around a text whose own first and last characters are not white space. -/
theorem trim_edge (pre l suf : List Char) (hp : pre.all isWs = true) (hs : suf.all isWs = true) (hl : edgeOk l = true) :
    trim (pre ++ l ++ suf) = l := by
  simp only [edgeOk, Bool.and_eq_true] at hl
  unfold trim trimStart trimEnd
  rw [List.append_assoc, dropWhile_append_all isWs pre _ hp]
  cases l with
  | nil =>
    have : suf.dropWhile isWs = [] := by
      have := dropWhile_append_all isWs suf [] hs
      simpa using this
    simp [this]
  | cons c t =>
    have h1 : isWs c = false := by simpa using hl.1
    rw [dropWhile_self isWs ((c :: t) ++ suf) (by intro x hx; simp at hx; subst hx; exact h1)]
    rw [List.reverse_append, dropWhile_append_all isWs suf.reverse _ (by simpa using hs)]
    rw [dropWhile_self isWs (c :: t).reverse]
    · simp
    · intro x hx
      have := hl.2
      cases hr : (c :: t).reverse.head? with
      | none => rw [hr] at hx; simp at hx
      | some y =>
        rw [hr] at hx this
        simp at hx this
        subst hx; exact this

theorem trim_self (l : List Char) (hl : edgeOk l = true) : trim l = l := by
  simpa using trim_edge [] l [] rfl rfl hl

/-! ### split -/

theorem splitByte_noSep (sep : UInt8) : ∀ l : List UInt8, (∀ x ∈ l, x ≠ sep) → splitByte sep l = [l]
  | [], _ => rfl
  | c :: cs, h => by
    have hc : (c == sep) = false := by simpa using h c (by simp)
    simp [splitByte, hc, splitByte_noSep sep cs (fun x hx => h x (by simp [hx]))]

theorem splitByte_append (sep : UInt8) : ∀ (a rest : List UInt8), (∀ x ∈ a, x ≠ sep) →
    splitByte sep (a ++ sep :: rest) = a :: splitByte sep rest
  | [], rest, _ => by simp [splitByte]
  | c :: cs, rest, h => by
    have hc : (c == sep) = false := by simpa using h c (by simp)
    simp [splitByte, hc, splitByte_append sep cs rest (fun x hx => h x (by simp [hx]))]

theorem splitOnce_first (sep : Char) : ∀ (k rest : List Char), (∀ x ∈ k, x ≠ sep) →
    splitOnce sep (k ++ sep :: rest) = some (k, rest)
  | [], rest, _ => by simp [splitOnce]
  | c :: cs, rest, h => by
    have hc : (c == sep) = false := by simpa using h c (by simp)
    simp [splitOnce, hc, splitOnce_first sep cs rest (fun x hx => h x (by simp [hx]))]

/-- a token (no white space) followed by a white-space character is emitted, together with what was pending -/
theorem splitWsGo_token : ∀ (tok : List Char) (w : Char) (rest cur : List Char), (∀ x ∈ tok, isWs x = false) → isWs w = true →
    (cur.reverse ++ tok) ≠ [] →
    splitWsGo (tok ++ w :: rest) cur = (cur.reverse ++ tok) :: splitWsGo rest []
  | [], w, rest, cur, _, hw, hne => by
    have : cur.isEmpty = false := by
      cases cur with
      | nil => simp at hne
      | cons _ _ => rfl
    simp [splitWsGo, hw, this]
  | c :: cs, w, rest, cur, h, hw, _ => by
    have hc : isWs c = false := h c (by simp)
    have := splitWsGo_token cs w rest (c :: cur) (fun x hx => h x (by simp [hx])) hw (by simp)
    simp only [List.cons_append, splitWsGo, hc]
    simpa using this

/-- `parse::<uN>` on a text that does not start with `+` -/
theorem parseUnsigned_noplus (bound : Nat) (l : List Char) (h : l.head? ≠ some '+') :
    parseUnsigned bound l =
      if l.isEmpty then none else if l.all isDigit then (if decVal l < bound then some (decVal l) else none) else none := by
  unfold parseUnsigned
  split
  · simp at h
  · rfl

theorem parseUnsigned_digits (bound : Nat) (l : List Char) (hne : l.isEmpty = false) (hd : l.all isDigit = true)
    (hv : decVal l < bound) : parseUnsigned bound l = some (decVal l) := by
  rw [parseUnsigned_noplus]
  · simp [hne, hd, hv]
  · cases l with
    | nil => simp
    | cons c t =>
      simp only [List.all_cons, Bool.and_eq_true] at hd
      intro h
      simp at h
      subst h
      have := hd.1
      revert this; decide

/-! ### ASCII text as bytes -/

theorem toUInt8_toNat_ascii (c : Char) (h : c.toNat < 0x80) : c.toNat.toUInt8.toNat = c.toNat := by
  simp [Nat.toUInt8, UInt8.toNat, UInt8.ofNat]; omega

theorem byteChar_asciiByte (c : Char) (h : c.toNat < 0x80) : Utf8.byteChar (c.toNat.toUInt8) = c := by
  unfold Utf8.byteChar
  rw [toUInt8_toNat_ascii c h]
  exact Char.ofNat_toNat c

theorem asciiBytes_append (a b : List Char) : Utf8.asciiBytes (a ++ b) = Utf8.asciiBytes a ++ Utf8.asciiBytes b := by
  simp [Utf8.asciiBytes]

theorem asciiBytes_all (l : List Char) (h : l.all isAscii = true) : (Utf8.asciiBytes l).all Utf8.isAsciiByte = true := by
  rw [List.all_eq_true] at h ⊢
  intro b hb
  simp only [Utf8.asciiBytes, List.mem_map] at hb
  obtain ⟨c, hc, rfl⟩ := hb
  have := h c hc
  simp only [isAscii, decide_eq_true_eq] at this
  simp [Utf8.isAsciiByte, toUInt8_toNat_ascii c this]; omega

theorem decodeLossy_asciiBytes (l : List Char) (h : l.all isAscii = true) : Utf8.decodeLossy (Utf8.asciiBytes l) = l := by
  rw [Utf8.decodeLossy_ascii _ (asciiBytes_all l h)]
  rw [List.all_eq_true] at h
  induction l with
  | nil => rfl
  | cons c t ih =>
    have hc := h c (by simp)
    simp only [isAscii, decide_eq_true_eq] at hc
    simp only [Utf8.asciiBytes, List.map_cons] at ih ⊢
    rw [byteChar_asciiByte c hc, ih (fun x hx => h x (by simp [hx]))]

/-- the byte of an ASCII character other than `x` is not the byte of `x` -/
theorem asciiBytes_ne (l : List Char) (x : Char) (hx : x.toNat < 0x80) (h : l.all isAscii = true) (hn : ∀ c ∈ l, c ≠ x) :
    ∀ b ∈ Utf8.asciiBytes l, b ≠ x.toNat.toUInt8 := by
  intro b hb
  simp only [Utf8.asciiBytes, List.mem_map] at hb
  obtain ⟨c, hc, rfl⟩ := hb
  have hca := List.all_eq_true.1 h c hc
  simp only [isAscii, decide_eq_true_eq] at hca
  intro heq
  have : c.toNat = x.toNat := by
    have := congrArg UInt8.toNat heq
    rwa [toUInt8_toNat_ascii c hca, toUInt8_toNat_ascii x hx] at this
  exact hn c hc (Char.toNat_inj.1 this)

end IQE.Text
