/- IQE.Lemmas.FnBits — C36 lemmas: bit-level facts behind the base-2^k codecs. -/
import IQE.Spec.Fn.Enc2
namespace IQE.Spec.Fn

theorem bitsOfNat_length (w n : Nat) : (bitsOfNat w n).length = w := by
  induction w with
  | zero => rfl
  | succ w ih => simp [bitsOfNat, ih]

theorem foldl_bits_acc (l : List Bool) (acc : Nat) :
    l.foldl (fun a b => 2 * a + b.toNat) acc = acc * 2 ^ l.length + l.foldl (fun a b => 2 * a + b.toNat) 0 := by
  induction l generalizing acc with
  | nil => simp
  | cons x r ih =>
    simp only [List.foldl_cons, List.length_cons]
    rw [ih (2 * acc + x.toNat), ih (2 * 0 + x.toNat)]
    simp [Nat.pow_succ, Nat.add_mul, Nat.mul_assoc, Nat.mul_comm, Nat.add_assoc]

theorem natOfBits_cons (x : Bool) (a : List Bool) : natOfBits (x :: a) = x.toNat * 2 ^ a.length + natOfBits a := by
  unfold natOfBits
  simp only [List.foldl_cons]
  rw [foldl_bits_acc]; simp

theorem natOfBits_lt (a : List Bool) : natOfBits a < 2 ^ a.length := by
  induction a with
  | nil => simp [natOfBits]
  | cons x r ih =>
    rw [natOfBits_cons]; simp [Nat.pow_succ]
    cases x <;> simp <;> omega

theorem bitsOfNat_mod (w j n : Nat) (h : w ≤ j) : bitsOfNat w (n % 2 ^ j) = bitsOfNat w n := by
  induction w with
  | zero => rfl
  | succ w ih =>
    simp only [bitsOfNat]
    rw [ih (by omega), Nat.testBit_mod_two_pow]
    have : w < j := by omega
    simp [this]

theorem natOfBits_bitsOfNat (w n : Nat) : natOfBits (bitsOfNat w n) = n % 2 ^ w := by
  induction w with
  | zero => simp [bitsOfNat, natOfBits, Nat.mod_one]
  | succ w ih =>
    rw [bitsOfNat, natOfBits_cons, ih, bitsOfNat_length]
    rw [Nat.testBit_eq_decide_div_mod_eq]
    have h1 : n % 2 ^ (w + 1) = n % 2 ^ w + 2 ^ w * (n / 2 ^ w % 2) := by
      rw [Nat.pow_succ, Nat.mod_mul]
    rw [h1]
    by_cases h : n / 2 ^ w % 2 = 1
    · simp [h]; omega
    · have : n / 2 ^ w % 2 = 0 := by omega
      simp [this]

theorem bitsOfNat_natOfBits (g : List Bool) : bitsOfNat g.length (natOfBits g) = g := by
  induction g with
  | nil => rfl
  | cons x r ih =>
    simp only [List.length_cons, bitsOfNat]
    rw [natOfBits_cons]
    have hlt := natOfBits_lt r
    congr 1
    · rw [Nat.testBit_eq_decide_div_mod_eq]
      cases x
      · simp; rw [Nat.div_eq_of_lt hlt]
      · simp
        have : (2 ^ r.length + natOfBits r) / 2 ^ r.length = 1 := by
          rw [Nat.add_div_left _ (Nat.two_pow_pos _)]; rw [Nat.div_eq_of_lt hlt]
        rw [this]
    · rw [← bitsOfNat_mod r.length r.length _ (Nat.le_refl _)]
      have : (x.toNat * 2 ^ r.length + natOfBits r) % 2 ^ r.length = natOfBits r := by
        rw [Nat.mul_comm, Nat.mul_add_mod_self_left, Nat.mod_eq_of_lt hlt]
      rw [this, ih]

/-- groups: every group has k bits and together they are the input followed by fewer than k zeros -/
theorem groupsOf_spec (k : Nat) (hk : 0 < k) : ∀ (f : Nat) (bs : List Bool), bs.length < f →
    (∀ g ∈ groupsOf k f bs, g.length = k) ∧
    ∃ z, z < k ∧ (groupsOf k f bs).flatten = bs ++ List.replicate z false ∧ (bs.length + z) % k = 0 := by
  intro f
  induction f with
  | zero => intro bs h; omega
  | succ f ih =>
    intro bs h
    unfold groupsOf
    by_cases he : bs = []
    · subst he; simp; exact ⟨0, hk, by simp⟩
    · have hne : bs.isEmpty = false := by cases bs <;> simp_all
      simp only [hne, Bool.false_eq_true, if_false]
      by_cases hl : bs.length ≤ k
      · -- last group
        have hd : bs.drop k = [] := List.drop_eq_nil_of_le hl
        have ht : bs.take k = bs := List.take_of_length_le hl
        rw [hd, ht]
        have hg : groupsOf k f [] = [] := by cases f <;> simp [groupsOf]
        rw [hg]
        refine ⟨?_, k - bs.length, ?_, ?_, ?_⟩
        · intro g hg; simp at hg; subst hg; simp; omega
        · have : 0 < bs.length := by cases bs <;> simp_all
          omega
        · simp
        · have : bs.length + (k - bs.length) = k := by omega
          rw [this]; simp
      · have hl' : k < bs.length := by omega
        have hlen : (bs.drop k).length < f := by simp; omega
        obtain ⟨h1, z, hz, h2, h3⟩ := ih (bs.drop k) hlen
        have htk : (bs.take k).length = k := by simp; omega
        refine ⟨?_, z, hz, ?_, ?_⟩
        · intro g hg
          simp only [List.mem_cons] at hg
          rcases hg with hg | hg
          · subst hg; simp [htk]
          · exact h1 g hg
        · simp only [List.flatten_cons, htk, Nat.sub_self, List.replicate_zero, List.append_nil]
          rw [h2, ← List.append_assoc, List.take_append_drop]
        · simp at h3
          have : bs.length + z = (bs.length - k + z) + k := by omega
          rw [this, Nat.add_mod_right]; exact h3

end IQE.Spec.Fn
