/-
  IQE.Lemmas.Acc — every accumulator path of IQE.Engine.Acc tracks the semantic summary of the values it
  has consumed (`IQE.AggHom.summ`), under `update` and under `merge`; hence (`AggHom.Hom.tree`) for every
  chunking and every merge tree the final state is `mk (summ all-values)`, and its `finalize` is
  `AggHom.specVal`, which is `Spec.aggVal` (`AggHom.aggVal_eq_specVal`).
-/
import IQE.Lemmas.AggHom
namespace IQE.Engine.Acc
open IQE IQE.Spec IQE.AggHom List

/-- how a float accumulator moves when it consumes `v` -/
def fstep (fo : FloatOps) (f : F64) (v : Val) : F64 :=
  match asF64 fo v with | some x => fo.add f x | none => f

/-- function/type compatibility (part of `AggHom.Ok`) -/
def FnTy (a : Agg) : Prop :=
  (a.fn = .sum ∨ a.fn = .avg → a.ty = .int ∨ a.ty = .f64) ∧ (a.fn = .min ∨ a.fn = .max → a.ty ≠ .bool)

def Typed (a : Agg) (v : Val) : Prop := v = .null ∨ v.tyOf = some a.ty

/-- the generic step from "state = mk (summary, float cell)" equations to the homomorphism.
    `stp` / `mrg` say how the path moves its float cell; they must be the real float sum where it matters. -/
theorem hom_of_mk {σ : Type} {fo : FloatOps} (E : FloatExact fo) (A : Alg σ) (a : Agg) (mk : Summ → F64 → σ)
    (stp : F64 → Val → F64) (mrg : F64 → F64 → F64)
    (hstp : needsF a → ∀ f v, stp f v = fstep fo f v) (hmrg : needsF a → ∀ f g, mrg f g = fo.add f g)
    (hinit : A.init = mk (summ []) F64.posZero)
    (hupd : FnTy a → ∀ S f v, Typed a v → A.update (mk S f) v = mk (S.step v) (stp f v))
    (hmerge : ∀ S T f g, A.merge (mk S f) (mk T g) = mk (S.comb T) (mrg f g)) :
    Hom A (Ok E a) (fun s xs => ∃ f, (needsF a → FRep E f xs) ∧ s = mk (summ xs) f) := by
  refine ⟨fun _ _ h => h.left, fun _ _ h => h.right, ⟨F64.posZero, fun _ => FRep.nil E, hinit⟩, ?_, ?_⟩
  · rintro s xs v hok ⟨f, hf, rfl⟩
    refine ⟨stp f v, fun hn => ?_, ?_⟩
    · have hF := hok.flt hn
      rw [hstp hn]
      unfold fstep
      cases hx : asF64 fo v with
      | none => exact (hf hn).skip E hx
      | some x => exact (hf hn).snoc E hF x hx
    · rw [summ_snoc]
      exact hupd hok.fnty _ _ _ (hok.ty v (by simp))
  · rintro s t xs ys hok ⟨f, hf, rfl⟩ ⟨g, hg, rfl⟩
    refine ⟨mrg f g, fun hn => ?_, ?_⟩
    · rw [hmrg hn]; exact (hf hn).merge E (hok.flt hn) (hg hn)
    · rw [summ_append xs ys hok.ford]
      exact hmerge _ _ _ _

/-- the end-to-end statement for a path given its `mk` equations -/
theorem run_eq_aggVal {σ : Type} {fo : FloatOps} (E : FloatExact fo) (A : Alg σ) (a : Agg) (mk : Summ → F64 → σ)
    (stp : F64 → Val → F64) (mrg : F64 → F64 → F64)
    (hstp : needsF a → ∀ f v, stp f v = fstep fo f v) (hmrg : needsF a → ∀ f g, mrg f g = fo.add f g)
    (hinit : A.init = mk (summ []) F64.posZero)
    (hupd : FnTy a → ∀ S f v, Typed a v → A.update (mk S f) v = mk (S.step v) (stp f v))
    (hmerge : ∀ S T f g, A.merge (mk S f) (mk T g) = mk (S.comb T) (mrg f g))
    (hfin : FnTy a → ∀ S f, A.finalize (mk S f) = specVal fo a S f)
    (t : MTree (List Val)) (hok : Ok E a t.leaves.flatten) :
    .ok (A.run t) = aggVal fo a.fn false t.leaves.flatten.length t.leaves.flatten := by
  obtain ⟨f, hf, hs⟩ := (hom_of_mk E A a mk stp mrg hstp hmrg hinit hupd hmerge).tree t hok
  rw [aggVal_eq_specVal E a _ f hok hf, Alg.run, hs, hfin hok.fnty]

/-! ### hash path -/

def mkHash (a : Agg) (S : Summ) (f : F64) : HashSt :=
  match a.fn with
  | .countStar => { count := S.rows }
  | .count => { count := S.cnt }
  | .sum => { count := S.cnt, sumI := S.isum, sum := f }
  | .avg => { count := S.cnt, sum := f }
  | .min => { minI := S.imin, minF := S.fmin, minS := S.smin }
  | .max => { maxI := S.imax, maxF := S.fmax, maxS := S.smax }

theorem typed_cases {a : Agg} {v : Val} (h : Typed a v) :
    v = .null ∨ (∃ b, v = .bool b ∧ a.ty = .bool) ∨ (∃ i, v = .int i ∧ a.ty = .int) ∨ (∃ x, v = .f64 x ∧ a.ty = .f64) ∨
      (∃ s, v = .str s ∧ a.ty = .str) ∨ (∃ d, v = .date d ∧ a.ty = .date) := by
  rcases h with h | h
  · exact .inl h
  · cases v <;> simp [Val.tyOf] at h
    · exact .inr (.inl ⟨_, rfl, h.symm⟩)
    · exact .inr (.inr (.inl ⟨_, rfl, h.symm⟩))
    · exact .inr (.inr (.inr (.inl ⟨_, rfl, h.symm⟩)))
    · exact .inr (.inr (.inr (.inr (.inl ⟨_, rfl, h.symm⟩))))
    · exact .inr (.inr (.inr (.inr (.inr ⟨_, rfl, h.symm⟩))))

theorem hash_init (dev : Dev) (fo : FloatOps) (a : Agg) : (hash dev fo a).init = mkHash a (summ []) F64.posZero := by
  cases a with | mk fn d ty => cases fn <;> rfl

theorem hash_update (dev : Dev) (fo : FloatOps) (a : Agg) (hd : a.distinct = false) (hfn : FnTy a)
    (S : Summ) (f : F64) (v : Val) (hv : Typed a v) :
    (hash dev fo a).update (mkHash a S f) v = mkHash a (S.step v) (fstep fo f v) := by
  obtain ⟨fn, d, ty⟩ := a
  simp only at hd; subst hd
  have h1 := hfn.1; have h2 := hfn.2
  simp only at h1 h2
  rcases typed_cases hv with rfl | ⟨b, rfl, hty⟩ | ⟨i, rfl, hty⟩ | ⟨x, rfl, hty⟩ | ⟨s, rfl, hty⟩ | ⟨dd, rfl, hty⟩
  · cases fn <;>
      simp_all [hash, hashUpdate, mkHash, Summ.step, fstep, asF64, ikey, fkey, skey, ival, Val.isNull, Int.natCast_add]
  all_goals
    simp only at hty; subst hty; cases fn <;>
      simp_all [hash, hashUpdate, mkHash, Summ.step, fstep, asF64, ikey, fkey, skey, ival, Val.isNull, Int.natCast_add]

theorem hash_merge (dev : Dev) (fo : FloatOps) (a : Agg) (S T : Summ) (f g : F64) :
    (hash dev fo a).merge (mkHash a S f) (mkHash a T g) = mkHash a (S.comb T) (fo.add f g) := by
  obtain ⟨fn, d, ty⟩ := a
  cases fn <;> simp [hash, hashMerge, mkHash, Summ.comb, Int.natCast_add, optMerge, mergeDistinct]

theorem hash_final (dev : Dev) (fo : FloatOps) (a : Agg) (hd : a.distinct = false) (S : Summ) (f : F64) :
    (hash dev fo a).finalize (mkHash a S f) = specVal fo a S f := by
  obtain ⟨fn, d, ty⟩ := a
  simp only at hd; subst hd
  cases fn <;> cases ty <;> simp [hash, hashFinalize, mkHash, specVal, optVal] <;>
    first
    | (by_cases h : S.cnt = 0 <;> simp [h] <;> omega)
    | (cases S.imin <;> rfl) | (cases S.imax <;> rfl) | (cases S.fmin <;> rfl) | (cases S.fmax <;> rfl)
    | (cases S.smin <;> rfl) | (cases S.smax <;> rfl)

/-! ### vectorized path -/

def mkVec (a : Agg) (S : Summ) (f : F64) : VecSt :=
  match a.fn with
  | .countStar => { count := S.rows, sumF := f }
  | .count => { count := S.cnt, sumF := f }
  | .sum | .avg => { count := S.cnt, sumI := S.isum, sumF := f }
  | .min => { minI := S.imin, minF := S.fmin, minS := S.smin, sumF := f }
  | .max => { maxI := S.imax, maxF := S.fmax, maxS := S.smax, sumF := f }

/-- on the vectorized path the float cell only moves for SUM / AVG -/
def vstep (fo : FloatOps) (a : Agg) (f : F64) (v : Val) : F64 :=
  match a.fn with | .sum | .avg => fstep fo f v | _ => f

theorem vec_init (fo : FloatOps) (a : Agg) : (vectorized fo a).init = mkVec a (summ []) F64.posZero := by
  cases a with | mk fn d ty => cases fn <;> rfl

theorem vec_update (fo : FloatOps) (a : Agg) (hfn : FnTy a) (S : Summ) (f : F64) (v : Val) (hv : Typed a v) :
    (vectorized fo a).update (mkVec a S f) v = mkVec a (S.step v) (vstep fo a f v) := by
  obtain ⟨fn, d, ty⟩ := a
  have h1 := hfn.1; have h2 := hfn.2
  simp only at h1 h2
  rcases typed_cases hv with rfl | ⟨b, rfl, hty⟩ | ⟨i, rfl, hty⟩ | ⟨x, rfl, hty⟩ | ⟨s, rfl, hty⟩ | ⟨dd, rfl, hty⟩
  · cases fn <;>
      simp_all [vectorized, vecUpdate, mkVec, vstep, Summ.step, fstep, asF64, ikey, fkey, skey, ival, Val.isNull, Int.natCast_add]
  all_goals
    simp only at hty; subst hty; cases fn <;>
      simp_all [vectorized, vecUpdate, mkVec, vstep, Summ.step, fstep, asF64, ikey, fkey, skey, ival, Val.isNull, Int.natCast_add]

theorem vec_merge (fo : FloatOps) (a : Agg) (S T : Summ) (f g : F64) :
    (vectorized fo a).merge (mkVec a S f) (mkVec a T g) = mkVec a (S.comb T) (fo.add f g) := by
  obtain ⟨fn, d, ty⟩ := a
  cases fn <;> simp [vectorized, vecMerge, mkVec, Summ.comb, Int.natCast_add, optMerge]

theorem vec_final (fo : FloatOps) (a : Agg) (S : Summ) (f : F64) :
    (vectorized fo a).finalize (mkVec a S f) = specVal fo a S f := by
  obtain ⟨fn, d, ty⟩ := a
  cases fn <;> cases ty <;> simp [vectorized, vecFinalize, mkVec, specVal, optVal] <;>
    first
    | (by_cases h : S.cnt = 0 <;> simp [h] <;> omega)
    | (cases S.imin <;> rfl) | (cases S.imax <;> rfl) | (cases S.fmin <;> rfl) | (cases S.fmax <;> rfl)
    | (cases S.smin <;> rfl) | (cases S.smax <;> rfl)

/-! ### morsel path -/

def mkMorsel (a : Agg) (S : Summ) (f : F64) : MorselSt :=
  match a.fn with
  | .countStar => .count S.rows
  | .count => .count S.cnt
  | .sum => (match a.ty with | .int => .sumInt S.isum (!(S.cnt == 0)) | _ => .sum f (!(S.cnt == 0)))
  | .avg => .avg f S.cnt
  | .min =>
    .min (match a.ty with
      | .int => S.imin.map .int | .date => S.imin.map .date | .f64 => S.fmin.map .f64 | .str => S.smin.map .str
      | .bool => none)
  | .max =>
    .max (match a.ty with
      | .int => S.imax.map .int | .date => S.imax.map .date | .f64 => S.fmax.map .f64 | .str => S.smax.map .str
      | .bool => none)

theorem morsel_init (fo : FloatOps) (a : Agg) : (morsel fo a).init = mkMorsel a (summ []) F64.posZero := by
  cases a with | mk fn d ty => cases fn <;> cases ty <;> rfl

theorem morsel_update (fo : FloatOps) (a : Agg) (hfn : FnTy a) (S : Summ) (f : F64) (v : Val) (hv : Typed a v) :
    (morsel fo a).update (mkMorsel a S f) v = mkMorsel a (S.step v) (fstep fo f v) := by
  obtain ⟨fn, d, ty⟩ := a
  have h1 := hfn.1; have h2 := hfn.2
  simp only at h1 h2
  rcases typed_cases hv with rfl | ⟨b, rfl, hty⟩ | ⟨i, rfl, hty⟩ | ⟨x, rfl, hty⟩ | ⟨s, rfl, hty⟩ | ⟨dd, rfl, hty⟩
  · cases fn <;> cases ty <;>
      simp_all [morsel, morselUpdate, mkMorsel, Summ.step, fstep, asF64, ikey, fkey, skey, ival, Val.isNull, Int.natCast_add]
  all_goals
    simp only at hty; subst hty; cases fn <;>
      simp_all [morsel, morselUpdate, mkMorsel, Summ.step, fstep, asF64, ikey, fkey, skey, ival, Val.isNull,
        Int.natCast_add, optUpd, valLt, imin, imax, fmin, fmax, smin, smax]
  all_goals first
    | (cases S.imin <;> simp [optUpd, imin] <;> split <;> simp_all)
    | (cases S.imax <;> simp [optUpd, imax] <;> split <;> simp_all)
    | (cases S.fmin <;> simp [optUpd, fmin] <;> split <;> simp_all)
    | (cases S.fmax <;> simp [optUpd, fmax] <;> split <;> simp_all)
    | (cases S.smin <;> simp [optUpd, smin] <;> split <;> simp_all)
    | (cases S.smax <;> simp [optUpd, smax] <;> split <;> simp_all [Std.OrientedCmp.gt_iff_lt (cmp := (compare : String → String → Ordering))])

theorem morsel_merge_min {α : Type} (fo : FloatOps) (inj : α → Val) (m : α → α → α)
    (hm : ∀ cur new, m cur new = if valLt (inj new) (inj cur) then new else cur) (A B : Option α) :
    morselMerge fo (.min (A.map inj)) (.min (B.map inj)) = .min ((optMerge m A B).map inj) := by
  cases A <;> cases B <;> simp only [morselMerge, optMerge, Option.map]
  rw [hm]; split <;> rfl

theorem morsel_merge_max {α : Type} (fo : FloatOps) (inj : α → Val) (m : α → α → α)
    (hm : ∀ cur new, m cur new = if valLt (inj cur) (inj new) then new else cur) (A B : Option α) :
    morselMerge fo (.max (A.map inj)) (.max (B.map inj)) = .max ((optMerge m A B).map inj) := by
  cases A <;> cases B <;> simp only [morselMerge, optMerge, Option.map]
  rw [hm]; split <;> rfl

theorem smax_valLt (cur new : String) : smax cur new = if valLt (.str cur) (.str new) then new else cur := by
  simp only [smax, valLt, Std.OrientedCmp.gt_iff_lt (cmp := (compare : String → String → Ordering)), beq_iff_eq]

theorem bool_or_ne_zero (a b : Nat) : (!(a == 0) || !(b == 0)) = !(a + b == 0) := by
  cases a <;> cases b <;> simp

theorem morsel_merge (fo : FloatOps) (a : Agg) (S T : Summ) (f g : F64) :
    (morsel fo a).merge (mkMorsel a S f) (mkMorsel a T g) = mkMorsel a (S.comb T) (fo.add f g) := by
  obtain ⟨fn, d, ty⟩ := a
  cases fn
  · simp [morsel, morselMerge, mkMorsel, Summ.comb, Int.natCast_add]
  · simp [morsel, morselMerge, mkMorsel, Summ.comb, Int.natCast_add]
  · cases ty <;> simp [morsel, morselMerge, mkMorsel, Summ.comb, bool_or_ne_zero]
  · simp [morsel, morselMerge, mkMorsel, Summ.comb, Int.natCast_add]
  · cases ty <;> simp only [morsel, mkMorsel, Summ.comb]
    · rfl
    · exact morsel_merge_min fo .int imin (fun _ _ => by simp [imin, valLt]) _ _
    · exact morsel_merge_min fo .f64 fmin (fun _ _ => rfl) _ _
    · exact morsel_merge_min fo .str smin (fun _ _ => by simp [smin, valLt]) _ _
    · exact morsel_merge_min fo .date imin (fun _ _ => by simp [imin, valLt]) _ _
  · cases ty <;> simp only [morsel, mkMorsel, Summ.comb]
    · rfl
    · exact morsel_merge_max fo .int imax (fun _ _ => by simp [imax, valLt]) _ _
    · exact morsel_merge_max fo .f64 fmax (fun _ _ => rfl) _ _
    · exact morsel_merge_max fo .str smax smax_valLt _ _
    · exact morsel_merge_max fo .date imax (fun _ _ => by simp [imax, valLt]) _ _

theorem morsel_final (fo : FloatOps) (a : Agg) (hfn : FnTy a) (S : Summ) (f : F64) :
    (morsel fo a).finalize (mkMorsel a S f) = specVal fo a S f := by
  obtain ⟨fn, d, ty⟩ := a
  have h1 := hfn.1; have h2 := hfn.2
  simp only at h1 h2
  cases fn <;> cases ty <;> simp_all [morsel, morselFinalize, mkMorsel, specVal, optVal] <;>
    first
    | (by_cases h : S.cnt = 0 <;> simp [h] <;> omega)
    | (cases S.imin <;> rfl) | (cases S.imax <;> rfl) | (cases S.fmin <;> rfl) | (cases S.fmax <;> rfl)
    | (cases S.smin <;> rfl) | (cases S.smax <;> rfl)

/-! ### raw sums -/

/-- what the raw / dense-direct path supports: COUNT, COUNT(*), SUM over BIGINT / DOUBLE, AVG over DOUBLE -/
def RawFn (a : Agg) : Prop :=
  a.fn = .countStar ∨ a.fn = .count ∨ (a.fn = .sum ∧ (a.ty = .int ∨ a.ty = .f64)) ∨ (a.fn = .avg ∧ a.ty = .f64)

def mkRaw (a : Agg) (S : Summ) (f : F64) : RawSt :=
  match a.fn with
  | .countStar => { f := f, i := S.rows }
  | .count => { f := f, i := S.cnt }
  | .sum => { f := f, i := S.isum, seen := !(S.cnt == 0) }
  | .avg => { f := f, i := S.cnt, seen := !(S.cnt == 0) }
  | .min | .max => { f := f }

/-- the float cell of the raw path moves only for SUM / AVG over DOUBLE values -/
def rstep (fo : FloatOps) (a : Agg) (f : F64) (v : Val) : F64 :=
  match a.fn, v with
  | .sum, .f64 x => fo.add f x
  | .avg, .f64 x => fo.add f x
  | _, _ => f

theorem raw_init (dev : Dev) (fo : FloatOps) (a : Agg) : (rawSum dev fo a).init = mkRaw a (summ []) F64.posZero := by
  cases a with | mk fn d ty => cases fn <;> rfl

theorem raw_update (dev : Dev) (fo : FloatOps) (a : Agg) (hr : RawFn a) (S : Summ) (f : F64) (v : Val) (hv : Typed a v) :
    (rawSum dev fo a).update (mkRaw a S f) v = mkRaw a (S.step v) (rstep fo a f v) := by
  obtain ⟨fn, d, ty⟩ := a
  simp only [RawFn] at hr
  rcases typed_cases hv with rfl | ⟨b, rfl, hty⟩ | ⟨i, rfl, hty⟩ | ⟨x, rfl, hty⟩ | ⟨s, rfl, hty⟩ | ⟨dd, rfl, hty⟩
  · cases fn <;>
      simp_all [rawSum, rawUpdate, mkRaw, rstep, Summ.step, ival, Val.isNull, Int.natCast_add]
  all_goals
    simp only at hty; subst hty; cases fn <;>
      simp_all [rawSum, rawUpdate, mkRaw, rstep, Summ.step, ival, Val.isNull, Int.natCast_add]

theorem raw_merge (dev : Dev) (fo : FloatOps) (a : Agg) (S T : Summ) (f g : F64) :
    (rawSum dev fo a).merge (mkRaw a S f) (mkRaw a T g) = mkRaw a (S.comb T) (fo.add f g) := by
  obtain ⟨fn, d, ty⟩ := a
  cases fn <;> simp [rawSum, rawMerge, mkRaw, Summ.comb, Int.natCast_add, bool_or_ne_zero]

/-- with the "seen" bit honoured (switch off) the raw path finalises to the specified value -/
theorem raw_final (dev : Dev) (hdev : dev.rawSumNoSeenBit = false) (fo : FloatOps) (a : Agg) (hr : RawFn a)
    (S : Summ) (f : F64) : (rawSum dev fo a).finalize (mkRaw a S f) = specVal fo a S f := by
  obtain ⟨fn, d, ty⟩ := a
  simp only [RawFn] at hr
  cases fn <;> cases ty <;> simp_all [rawSum, rawFinalize, mkRaw, specVal] <;>
    (by_cases h : S.cnt = 0 <;> simp [h] <;> omega)

theorem rstep_needsF (fo : FloatOps) (a : Agg) (hr : RawFn a) (hn : needsF a) (f : F64) (v : Val) (hv : Typed a v) :
    rstep fo a f v = fstep fo f v := by
  obtain ⟨fn, d, ty⟩ := a
  simp only [RawFn] at hr
  simp only [needsF] at hn
  rcases typed_cases hv with rfl | ⟨b, rfl, hty⟩ | ⟨i, rfl, hty⟩ | ⟨x, rfl, hty⟩ | ⟨s, rfl, hty⟩ | ⟨dd, rfl, hty⟩
  · cases fn <;> simp_all [rstep, fstep, asF64]
  all_goals
    simp only at hty; subst hty; cases fn <;> simp_all [rstep, fstep, asF64]

/-! ### DISTINCT aggregates (hash path only: the other paths are never chosen for them) -/

def dsetOpt (xs : List Val) : Option (List Val) := if cnt xs = 0 then none else some (Bag.dedup (nn xs))

theorem dsetOpt_getD (xs : List Val) : (dsetOpt xs).getD [] = Bag.dedup (nn xs) := by
  unfold dsetOpt
  by_cases h : cnt xs = 0
  · have : nn xs = [] := by simpa [cnt] using h
    simp [h, this, Bag.dedup]
  · simp [h]

theorem hash_distinct_hom (dev : Dev) (fo : FloatOps) (a : Agg) (hd : a.distinct = true)
    (hf : a.fn = .count ∨ a.fn = .sum) :
    Hom (hash dev fo a) (fun _ => True) (fun s xs => s.distinct = dsetOpt xs) := by
  obtain ⟨fn, d, ty⟩ := a
  simp only at hd hf; subst hd
  refine ⟨fun _ _ _ => trivial, fun _ _ _ => trivial, rfl, ?_, ?_⟩
  · intro s xs v _ hs
    have key : (hashUpdate fo ⟨fn, true, ty⟩ s v).distinct = dsetOpt (xs ++ [v]) := by
      cases hv : v.isNull
      · have hn : nn [v] = [v] := by simp [nn, hv]
        have hc : cnt (xs ++ [v]) ≠ 0 := by rw [cnt_snoc]; simp [hv]
        have e : (hashUpdate fo ⟨fn, true, ty⟩ s v).distinct = some (setInsert (s.distinct.getD []) v) := by
          rcases hf with rfl | rfl <;> simp [hashUpdate, hv, hashInsert]
        rw [e, hs, dsetOpt_getD]
        simp only [dsetOpt, hc, if_false, nn_append, hn, Bag.dedup_append_singleton, setInsert, Bag.mem_dedup,
          contains_iff_mem]
      · have hn : nn [v] = [] := by simp [nn, hv]
        have e : (hashUpdate fo ⟨fn, true, ty⟩ s v).distinct = s.distinct := by
          rcases hf with rfl | rfl <;> simp [hashUpdate, hv]
        rw [e, hs]
        simp [dsetOpt, cnt_snoc, hv, nn_append, hn]
    exact key
  · intro t s xs ys _ ht hs
    have e : (hashMerge fo ⟨fn, true, ty⟩ t s).distinct = mergeDistinct t.distinct s.distinct := by
      rcases hf with rfl | rfl <;> simp [hashMerge]
    show (hashMerge fo ⟨fn, true, ty⟩ t s).distinct = _
    rw [e, hs, ht]
    by_cases hy : cnt ys = 0
    · have : nn ys = [] := by simpa [cnt] using hy
      simp [dsetOpt, hy, cnt_append, nn_append, this, mergeDistinct]
    · have hxy : cnt (xs ++ ys) ≠ 0 := by rw [cnt_append]; omega
      have hgd := dsetOpt_getD xs
      simp only [dsetOpt, hy, if_false, hxy, nn_append, mergeDistinct] at hgd ⊢
      rw [← setUnion_dedup, hgd]

theorem sumIntSet_eq (l : List Val) (h : ∀ v ∈ l, ∃ i, v = .int i) : sumIntSet l = isum l := by
  unfold sumIntSet
  have : ∀ (acc : Int), l.foldl sumIntStep acc = acc + isum l := by
    induction l with
    | nil => intro acc; simp [isum]
    | cons v vs ih =>
      intro acc
      obtain ⟨i, rfl⟩ := h v (by simp)
      simp only [foldl_cons, isum, ival, sumIntStep]
      rw [ih (fun w hw => h w (by simp [hw]))]; omega
  simpa using this 0

theorem iwt_dedup_le (l : List Val) : iwt (Bag.dedup l) ≤ iwt l := by
  induction l with
  | nil => simp [Bag.dedup]
  | cons v vs ih =>
    simp only [Bag.dedup, iwt]
    have := iwt_filter_le (fun y => decide (y ≠ v)) (Bag.dedup vs)
    omega

theorem fwt_dedup_le {fo : FloatOps} (E : FloatExact fo) (l : List Val) : fwt E (Bag.dedup l) ≤ fwt E l := by
  induction l with
  | nil => simp [Bag.dedup]
  | cons v vs ih =>
    simp only [Bag.dedup, fwt]
    have := fwt_filter_le E (fun y => decide (y ≠ v)) (Bag.dedup vs)
    omega

theorem FOk.dedup {fo : FloatOps} {E : FloatExact fo} {l : List Val} (h : FOk E l) : FOk E (Bag.dedup l) :=
  ⟨fun x hx => h.exact x ((Bag.mem_dedup l _).mp hx), Nat.le_trans (fwt_dedup_le E l) h.bound⟩

/-- the insertion-order float sum of a set of exact values is THE exact sum -/
theorem sumF64Set_rep {fo : FloatOps} (E : FloatExact fo) (l : List Val) (hok : FOk E l) :
    FRep E (sumF64Set fo l) l := by
  unfold sumF64Set
  have : ∀ (pre : List Val) (acc : F64) (rest : List Val), FOk E (pre ++ rest) → FRep E acc pre →
      FRep E (rest.foldl (sumF64Step fo) acc) (pre ++ rest) := by
    intro pre acc rest
    induction rest generalizing pre acc with
    | nil => intro _ h; simpa using h
    | cons v vs ih =>
      intro hok h
      have hok' : FOk E ((pre ++ [v]) ++ vs) := by simpa using hok
      have := ih (pre ++ [v]) (sumF64Step fo acc v) hok' (by
        unfold sumF64Step
        cases hx : asF64 fo v with
        | none => exact h.skip E hx
        | some x => exact h.snoc E hok'.left x hx)
      simpa using this
  simpa using this [] F64.posZero l (by simpa using hok) (FRep.nil E)

/-! ### helpers for the property file -/

instance {ε α : Type} [DecidableEq ε] [DecidableEq α] : DecidableEq (Except ε α) := fun a b =>
  match a, b with
  | .ok x, .ok y => if h : x = y then isTrue (by rw [h]) else isFalse (fun e => h (Except.ok.inj e))
  | .error x, .error y => if h : x = y then isTrue (by rw [h]) else isFalse (fun e => h (Except.error.inj e))
  | .ok _, .error _ => isFalse (fun e => by cases e)
  | .error _, .ok _ => isFalse (fun e => by cases e)

section helpers
variable {fo : FloatOps} (E : FloatExact fo)

theorem iwt_perm {xs ys : List Val} (h : xs ~ ys) : iwt xs = iwt ys := by
  induction h with
  | nil => rfl
  | cons _ _ ih => simp [iwt, ih]
  | swap a b l => simp [iwt]; omega
  | trans _ _ ih1 ih2 => exact ih1.trans ih2


theorem aggVal_nn (f : AggFn) (hf : f ≠ .countStar) (d : Bool) (n m : Nat) (xs : List Val) :
    aggVal fo f d n xs = aggVal fo f d m (nn xs) := by
  have : (nn xs).filter (fun v => !v.isNull) = xs.filter (fun v => !v.isNull) := by simp [nn]
  cases f <;> simp_all [aggVal]


theorem iwt_all_null (xs : List Val) (hnull : ∀ v ∈ xs, v = .null) : iwt xs = 0 := by
  induction xs with
  | nil => rfl
  | cons v vs ih => rw [hnull v (by simp)]; simp [iwt, ival, ih (fun w hw => hnull w (by simp [hw]))]

theorem fwt_all_null (xs : List Val) (hnull : ∀ v ∈ xs, v = .null) : fwt E xs = 0 := by
  induction xs with
  | nil => rfl
  | cons v vs ih => rw [hnull v (by simp)]; simp [fwt, fterm, ih (fun w hw => hnull w (by simp [hw]))]

/-- `Ok` holds for a column without any non-NULL value -/
theorem ok_all_null (a : Agg) (hfn : FnTy a) (xs : List Val) (hnull : ∀ v ∈ xs, v = .null) : Ok E a xs :=
  ⟨fun v hv => .inl (hnull v hv), hfn, fun _ _ => by rw [iwt_all_null xs hnull, i64Max_eq]; decide,
    fun _ => ⟨fun x hx => (by have := hnull _ hx; cases this), (by rw [fwt_all_null E xs hnull]; exact Nat.zero_le _)⟩,
    fun x hx => (by have := hnull _ hx; cases this)⟩

theorem aggVal_all_null (f : AggFn) (hcs : f ≠ .countStar) (n : Nat) (xs : List Val) (hnull : ∀ v ∈ xs, v = .null) :
    aggVal fo f false n xs = .ok (if f = .count then .int 0 else .null) := by
  have hnn : xs.filter (fun v => !v.isNull) = [] := by
    rw [filter_eq_nil_iff]; intro v hv; rw [hnull v hv]; simp [Val.isNull]
  unfold aggVal
  simp only [hnn, Bool.false_eq_true, if_false]
  cases f <;> simp_all [sumVals, extremum, pure, Except.pure, bind, Except.bind]


/-- with all switches off the group level IS `Spec.groupBy` + one accumulator run per aggregate -/
theorem groupAgg_eq (p : Path) (aggs : List Agg) (keyed : List (Row × Row)) :
    groupAgg {} fo p aggs false keyed =
      .ok ((Spec.groupBy keyed).map fun g =>
        (g.1, (aggs.zip ((List.range aggs.length).map fun j => g.2.map fun (r : Row) => r.getD j .null)).map
          fun ac => aggOne {} fo p ac.1 ac.2)) := by
  simp [groupAgg, Function.comp_def]


/-- a toy float instance: addition of bit patterns (exact below 2^32) -/
def fo0 : FloatOps :=
  { add := fun a b => ⟨a.bits + b.bits⟩, sub := fun a _ => a, mul := fun a _ => a, div := fun a _ => a,
    neg := fun a => a, ofInt := fun _ => F64.posZero, toInt := fun _ => none }

/-- `FloatExact` has an instance: the theorems above are not vacuous -/
def E0 : FloatExact fo0 where
  φ x := x.bits.toNat
  exact x := x.bits.toNat < 2 ^ 32
  B := 2 ^ 32 - 1
  scale := 0
  inj a b _ _ h := by
    have : a.bits.toNat = b.bits.toNat := by omega
    have := UInt64.toNat_inj.mp this
    cases a; cases b; simp_all
  zero := by simp [F64.posZero]
  add a b ha hb h := by
    have : (a.bits + b.bits).toNat = a.bits.toNat + b.bits.toNat := by
      rw [UInt64.toNat_add]; simp only [Int.natAbs_natCast] at h; omega
    simp only [fo0, this, Int.natAbs_natCast] at h ⊢
    constructor
    · omega
    · simp
  ofInt i _ := by simp [fo0, F64.posZero]
  ord a ha := by
    constructor
    · have he : F64.expMax = 9218868437227405312 := by decide
      simp only [F64.isNaN, F64.mag, he, decide_eq_false_iff_not, Nat.not_lt]
      have : a.bits.toNat % 2 ^ 63 ≤ a.bits.toNat := Nat.mod_le _ _
      omega
    · intro e; rw [e] at ha; simp [F64.negZero] at ha


end helpers

end IQE.Engine.Acc
