/- IQE.Lemmas.FnDate0 — C36: the year-of-era formula of civil_from_days, checked on every day of the 400-year era
   (a finite table of 146097 entries, evaluated by the kernel; ≈4 CPU-minutes, built once). -/
namespace IQE.Spec.Fn

/-- exhaustive check of a Boolean predicate over [lo, lo + 2^k) (recursion depth k, no argument duplication) -/
def checkBlock (p : Nat → Bool) : Nat → Nat → Bool
  | 0, lo => p lo
  | k + 1, lo => checkBlock p k lo && checkBlock p k (lo + 2 ^ k)

theorem checkBlock_sound (p : Nat → Bool) : ∀ (k lo : Nat), checkBlock p k lo = true → ∀ x, lo ≤ x → x < lo + 2 ^ k → p x = true := by
  intro k
  induction k with
  | zero => intro lo h x h1 h2; have : x = lo := by simp at h2; omega
            subst this; exact h
  | succ k ih =>
    intro lo h x h1 h2
    simp only [checkBlock, Bool.and_eq_true] at h
    rw [Nat.pow_succ] at h2
    by_cases hx : x < lo + 2 ^ k
    · exact ih lo h.1 x h1 hx
    · exact ih (lo + 2 ^ k) h.2 x (by omega) (by omega)

def yoeN (doe : Nat) : Nat := (doe - doe / 1460 + doe / 36524 - doe / 146096) / 365
def marchN (y : Nat) : Nat := 365 * y + y / 4 - y / 100
/-- day-of-era `doe` lies in year-of-era `yoeN doe` (years run March to February; year 399 ends with the 400-year leap day) -/
def okDoe (doe : Nat) : Bool :=
  Nat.ble 146097 doe ||
  (Nat.ble (yoeN doe) 399 && Nat.ble (marchN (yoeN doe)) doe && Nat.blt doe (marchN (yoeN doe + 1) + (if yoeN doe == 399 then 1 else 0)))

set_option maxRecDepth 1000000 in
theorem okDoe_all : checkBlock okDoe 18 0 = true := by decide +kernel

theorem yoe_spec (doe : Nat) (h : doe < 146097) :
    yoeN doe ≤ 399 ∧ marchN (yoeN doe) ≤ doe ∧ doe < marchN (yoeN doe + 1) + (if yoeN doe = 399 then 1 else 0) := by
  have := checkBlock_sound okDoe 18 0 okDoe_all doe (by omega) (by simp; omega)
  unfold okDoe at this
  have hn : Nat.ble 146097 doe = false := by
    cases hb : Nat.ble 146097 doe
    · rfl
    · have := Nat.le_of_ble_eq_true hb; omega
  simp only [hn, Bool.false_or, Bool.and_eq_true] at this
  obtain ⟨⟨h1, h2⟩, h3⟩ := this
  refine ⟨Nat.le_of_ble_eq_true h1, Nat.le_of_ble_eq_true h2, ?_⟩
  have h3' := Nat.le_of_ble_eq_true h3
  by_cases hy : yoeN doe = 399
  · simp [hy] at h3' ⊢; omega
  · have : (yoeN doe == 399) = false := by simpa using hy
    simp [this, hy] at h3' ⊢; omega

end IQE.Spec.Fn
