/-
  IQE.Lemmas.DistTwoPhase — the two-phase (partial / final) aggregation of the distributed engine is exact.
  PART 1 (value level, one group and one aggregate): every worker ships the partial aggregate(s) of ITS values of the
  group (`partialVals`), the initiator re-aggregates the shipped columns (`finalVal`: COUNT → SUM of counts, SUM → SUM of
  sums, MIN → MIN of mins, MAX → MAX of maxes, AVG carried as (SUM, COUNT) and divided once at the end);
  `two_phase_val`: the result is `Spec.aggVal` over the concatenation of the workers' values.
  PART 2 (table level, GROUP BY): `two_phase_table` over `Spec.aggregate` and `DistPlan.finalStage`.
-/
import IQE.Lemmas.DistAdditive
import IQE.Lemmas.AggHom
namespace IQE.Dist
open List IQE IQE.Spec IQE.AggHom IQE.Engine.DistPlan
open IQE.Engine.Acc (asF64 optMerge optUpd)

/-! ## PART 1 — one group, one aggregate -/

/-- what one worker ships for one aggregate over its values `xs` of the group -/
def partialVals (fo : FloatOps) (a : Engine.Acc.Agg) (xs : List Val) : Except Err (List Val) :=
  match a.fn with
  | .avg => do pure [← aggVal fo .sum false xs.length xs, ← aggVal fo .count false xs.length xs]
  | f => do pure [← aggVal fo f false xs.length xs]

/-- what the initiator computes from the shipped partial rows `ps` (one per worker) -/
def finalVal (fo : FloatOps) (a : Engine.Acc.Agg) (ps : List (List Val)) : Except Err Val :=
  let col (j : Nat) := ps.map (fun p => p.getD j .null)
  match a.fn with
  | .countStar | .count | .sum => aggVal fo .sum false ps.length (col 0)
  | .min => aggVal fo .min false ps.length (col 0)
  | .max => aggVal fo .max false ps.length (col 0)
  | .avg => do
    let s ← aggVal fo .sum false ps.length (col 0)
    let c ← aggVal fo .sum false ps.length (col 1)
    Val.arith fo .div (← castVal fo s .f64) (← castVal fo c .f64)

section value
variable {fo : FloatOps} (E : FloatExact fo)

/-! ### the exact float sum exists (computed right to left) -/

/-- right-to-left float sum of the numeric values -/
def fl (fo : FloatOps) : List Val → F64
  | [] => F64.posZero
  | v :: vs => match asF64 fo v with | some x => fo.add x (fl fo vs) | none => fl fo vs

/-- on exact data `fl` IS the exact sum -/
theorem FRep_fl {xs : List Val} (hok : FOk E xs) : FRep E (fl fo xs) xs := by
  induction xs with
  | nil => exact FRep.nil E
  | cons v vs ih =>
    have hg := ih (FOk.right E (xs := [v]) hok)
    cases hx : asF64 fo v with
    | none =>
      simp only [fl, hx]
      exact ⟨hg.1, by rw [hg.2]; simp [fsum, asF64_none_fterm E v hx]⟩
    | some x =>
      simp only [fl, hx]
      have hv := asF64_exact E hok v (by simp) x hx
      have h1 : FRep E x [v] := ⟨hv.1, by simp [fsum, hv.2]⟩
      exact FRep.merge E (xs := [v]) (ys := vs) hok h1 hg

theorem FRep_exists {xs : List Val} (hok : FOk E xs) : ∃ f, FRep E f xs := ⟨_, FRep_fl E hok⟩

/-! ### `Ok` for the pieces and for the derived aggregates -/

variable {E}

theorem ok_of_mem_flatten {a : Engine.Acc.Agg} : ∀ {xss : List (List Val)}, Ok E a xss.flatten → ∀ xs ∈ xss, Ok E a xs
  | [], _, xs, h => by cases h
  | l :: ls, hok, xs, h => by
    rw [flatten_cons] at hok
    rcases mem_cons.mp h with rfl | h
    · exact hok.left
    · exact ok_of_mem_flatten hok.right xs h

theorem ok_toSum {ty : Ty} {xs : List Val} (h : Ok E ⟨.avg, false, ty⟩ xs) : Ok E ⟨.sum, false, ty⟩ xs :=
  ⟨h.ty, ⟨fun _ => h.fnty.1 (.inr rfl), fun h' => by simp at h'⟩, fun _ hty => h.int (.inr rfl) hty,
   fun _ => h.flt (.inl rfl), h.ford⟩

theorem ok_toCount {fn : AggFn} {ty : Ty} {xs : List Val} (h : Ok E ⟨fn, false, ty⟩ xs) : Ok E ⟨.count, false, ty⟩ xs :=
  ⟨h.ty, ⟨fun h' => by simp at h', fun h' => by simp at h'⟩, fun h' => by simp at h',
   fun h' => by simp [needsF] at h', h.ford⟩

variable (E)

/-- the partial value: the spec's answer on the worker's values -/
def pv (fo : FloatOps) (f' : AggFn) (ty : Ty) (xs : List Val) : Val :=
  specVal fo ⟨f', false, ty⟩ (summ xs) (fl fo xs)

theorem aggVal_pv {f' : AggFn} {ty : Ty} {xs : List Val} (hok : Ok E ⟨f', false, ty⟩ xs) :
    aggVal fo f' false xs.length xs = .ok (pv fo f' ty xs) :=
  aggVal_eq_specVal E ⟨f', false, ty⟩ xs (fl fo xs) hok (fun hn => FRep_fl E (hok.flt hn))

theorem aggVal_n_irrel (f : AggFn) (hf : f ≠ .countStar) (d : Bool) (n m : Nat) (xs : List Val) :
    aggVal fo f d n xs = aggVal fo f d m xs := by
  cases f <;> first | exact absurd rfl hf | rfl

def pvals (fo : FloatOps) (a : Engine.Acc.Agg) (xs : List Val) : List Val :=
  match a.fn with
  | .avg => [pv fo .sum a.ty xs, pv fo .count a.ty xs]
  | f => [pv fo f a.ty xs]

theorem partialVals_ok {fn : AggFn} {ty : Ty} {xs : List Val} (hok : Ok E ⟨fn, false, ty⟩ xs) :
    partialVals fo ⟨fn, false, ty⟩ xs = .ok (pvals fo ⟨fn, false, ty⟩ xs) := by
  cases fn
  case avg => simp only [partialVals, pvals, aggVal_pv E (ok_toSum hok), aggVal_pv E (ok_toCount hok)]; rfl
  all_goals simp only [partialVals, pvals, aggVal_pv E hok]; rfl

/-! ### columns of partial values against the concatenated data -/

theorem cnt_cons (v : Val) (vs : List Val) : cnt (v :: vs) = (if v.isNull then 0 else 1) + cnt vs := by
  cases h : v.isNull <;> simp [cnt, nn, h] <;> omega

theorem isum_of_cnt_zero {xs : List Val} (h : cnt xs = 0) : isum xs = 0 := by
  have : nn xs = [] := by simpa [cnt] using h
  rw [← isum_nn, this]; rfl

theorem fsum_of_cnt_zero {xs : List Val} (h : cnt xs = 0) : fsum E xs = 0 := by
  have : nn xs = [] := by simpa [cnt] using h
  rw [← fsum_nn, this]; rfl

theorem cnt_flatten_zero_iff (xss : List (List Val)) : cnt xss.flatten = 0 ↔ ∀ xs ∈ xss, cnt xs = 0 := by
  induction xss with
  | nil => simp [cnt, nn]
  | cons l ls ih => simp [flatten_cons, cnt_append, ih]

/-- a column of partial values that is NULL exactly on the all-NULL pieces -/
theorem cnt_col_zero_iff (g : List Val → Val) (xss : List (List Val))
    (hg : ∀ xs ∈ xss, (g xs).isNull = true ↔ cnt xs = 0) : cnt (xss.map g) = 0 ↔ cnt xss.flatten = 0 := by
  rw [cnt_flatten_zero_iff]
  induction xss with
  | nil => simp [cnt, nn]
  | cons l ls ih =>
    have ih' := ih (fun xs hxs => hg xs (by simp [hxs]))
    have hl := hg l (by simp)
    simp only [map_cons, cnt_cons, Nat.add_eq_zero_iff, ih', forall_mem_cons]
    cases h : (g l).isNull
    · have : ¬ cnt l = 0 := fun e => by rw [hl.mpr e] at h; cases h
      simp [this]
    · simp [hl.mp h]

theorem pv_sum_int (xs : List Val) :
    pv fo .sum .int xs = if cnt xs = 0 then .null else .int (isum xs) := rfl
theorem pv_sum_f64 (xs : List Val) :
    pv fo .sum .f64 xs = if cnt xs = 0 then .null else .f64 (fl fo xs) := rfl
theorem pv_count (ty : Ty) (xs : List Val) : pv fo .count ty xs = .int (cnt xs) := rfl
theorem pv_countStar (ty : Ty) (xs : List Val) : pv fo .countStar ty xs = .int xs.length := rfl

theorem isum_col_int (xss : List (List Val)) : isum (xss.map (pv fo .sum .int)) = isum xss.flatten := by
  induction xss with
  | nil => rfl
  | cons l ls ih =>
    simp only [map_cons, flatten_cons, isum, isum_append, ih, pv_sum_int]
    by_cases h : cnt l = 0
    · simp [h, ival, isum_of_cnt_zero h]
    · simp [h, ival]

theorem iwt_col_int (xss : List (List Val)) : iwt (xss.map (pv fo .sum .int)) ≤ iwt xss.flatten := by
  induction xss with
  | nil => simp
  | cons l ls ih =>
    simp only [map_cons, flatten_cons, iwt, iwt_append, pv_sum_int]
    have := isum_le_iwt l
    by_cases h : cnt l = 0
    · simp only [h, if_true, ival]; omega
    · simp only [h, if_false, ival]; omega

theorem fsum_col_f64 (xss : List (List Val)) (hr : ∀ xs ∈ xss, FRep E (fl fo xs) xs) :
    fsum E (xss.map (pv fo .sum .f64)) = fsum E xss.flatten := by
  induction xss with
  | nil => rfl
  | cons l ls ih =>
    simp only [map_cons, flatten_cons, fsum, fsum_append, ih (fun xs h => hr xs (by simp [h])), pv_sum_f64]
    by_cases h : cnt l = 0
    · simp [h, fterm, fsum_of_cnt_zero E h]
    · simp [h, fterm, (hr l (by simp)).2]

theorem fwt_col_f64 (xss : List (List Val)) (hr : ∀ xs ∈ xss, FRep E (fl fo xs) xs) :
    fwt E (xss.map (pv fo .sum .f64)) ≤ fwt E xss.flatten := by
  induction xss with
  | nil => simp
  | cons l ls ih =>
    have ih' := ih (fun xs h => hr xs (by simp [h]))
    simp only [map_cons, flatten_cons, fwt, fwt_append, pv_sum_f64]
    have := fsum_le_fwt E l
    by_cases h : cnt l = 0
    · simp only [h, if_true, fterm]; omega
    · simp only [h, if_false, fterm, (hr l (by simp)).2]; omega

theorem isNull_ite_null (c : Prop) [Decidable c] (v : Val) (hv : v.isNull = false) :
    (if c then Val.null else v).isNull = true ↔ c := by
  by_cases h : c
  · simp [h, Val.isNull]
  · simp [h, hv]

include E in
/-- SUM of partial integer SUMs -/
theorem final_sum_int (k : Nat) (xss : List (List Val)) (hb : (iwt xss.flatten : Int) ≤ Val.i64Max) :
    aggVal fo .sum false k (xss.map (pv fo .sum .int)) = .ok (pv fo .sum .int xss.flatten) := by
  have hmem : ∀ v ∈ xss.map (pv fo .sum .int), v = .null ∨ ∃ i, v = .int i := by
    intro v hv
    obtain ⟨xs, _, rfl⟩ := mem_map.mp hv
    rw [pv_sum_int]; by_cases h : cnt xs = 0 <;> simp [h]
  have hok : Ok E ⟨.sum, false, .int⟩ (xss.map (pv fo .sum .int)) :=
    ⟨fun v hv => by rcases hmem v hv with rfl | ⟨i, rfl⟩ <;> simp [Val.tyOf],
     ⟨fun _ => .inl rfl, fun h' => by simp at h'⟩,
     fun _ _ => by have := iwt_col_int (fo := fo) xss; omega,
     fun h' => by simp [needsF] at h',
     fun x hx => by rcases hmem _ hx with h | ⟨i, h⟩ <;> cases h⟩
  rw [aggVal_n_irrel .sum (by simp) false k (xss.map (pv fo .sum .int)).length,
    aggVal_eq_specVal E ⟨.sum, false, .int⟩ _ F64.posZero hok (fun h' => by simp [needsF] at h')]
  have hc := cnt_col_zero_iff (pv fo .sum .int) xss (fun xs _ => by
    rw [pv_sum_int]; exact isNull_ite_null _ _ rfl)
  simp only [specVal, pv, summ, isum_col_int]
  by_cases h : cnt xss.flatten = 0
  · simp [h, hc.mpr h]
  · simp [h, mt hc.mp h]

/-- SUM of partial float SUMs (exact data) -/
theorem final_sum_f64 (k : Nat) (xss : List (List Val)) (hF : FOk E xss.flatten) :
    aggVal fo .sum false k (xss.map (pv fo .sum .f64)) = .ok (pv fo .sum .f64 xss.flatten) := by
  have hFi : ∀ (yss : List (List Val)), FOk E yss.flatten → ∀ xs ∈ yss, FOk E xs := by
    intro yss
    induction yss with
    | nil => intro _ xs h; cases h
    | cons l ls ih =>
      intro hok xs h
      rw [flatten_cons] at hok
      rcases mem_cons.mp h with rfl | h
      · exact hok.left
      · exact ih hok.right xs h
  have hr : ∀ xs ∈ xss, FRep E (fl fo xs) xs := fun xs h => FRep_fl E (hFi xss hF xs h)
  have hmem : ∀ v ∈ xss.map (pv fo .sum .f64), v = .null ∨ ∃ xs ∈ xss, v = .f64 (fl fo xs) := by
    intro v hv
    obtain ⟨xs, hxs, rfl⟩ := mem_map.mp hv
    rw [pv_sum_f64]; by_cases h : cnt xs = 0
    · simp [h]
    · exact .inr ⟨xs, hxs, by simp [h]⟩
  have hex : ∀ x, Val.f64 x ∈ xss.map (pv fo .sum .f64) → E.exact x := by
    intro x hx
    rcases hmem _ hx with h | ⟨xs, hxs, h⟩
    · cases h
    · cases h; exact (hr xs hxs).1
  have hFc : FOk E (xss.map (pv fo .sum .f64)) :=
    ⟨hex, Nat.le_trans (fwt_col_f64 E xss hr) hF.bound⟩
  have hok : Ok E ⟨.sum, false, .f64⟩ (xss.map (pv fo .sum .f64)) :=
    ⟨fun v hv => by rcases hmem v hv with rfl | ⟨xs, _, rfl⟩ <;> simp [Val.tyOf],
     ⟨fun _ => .inr rfl, fun h' => by simp at h'⟩,
     fun _ h' => by simp at h',
     fun _ => hFc,
     fun x hx => E.ord x (hex x hx)⟩
  have hrep : FRep E (fl fo xss.flatten) (xss.map (pv fo .sum .f64)) :=
    ⟨(FRep_fl E hF).1, by rw [(FRep_fl E hF).2, fsum_col_f64 E xss hr]⟩
  rw [aggVal_n_irrel .sum (by simp) false k (xss.map (pv fo .sum .f64)).length,
    aggVal_eq_specVal E ⟨.sum, false, .f64⟩ _ (fl fo xss.flatten) hok (fun _ => hrep)]
  have hc := cnt_col_zero_iff (pv fo .sum .f64) xss (fun xs _ => by
    rw [pv_sum_f64]; exact isNull_ite_null _ _ rfl)
  simp only [specVal, pv, summ]
  by_cases h : cnt xss.flatten = 0
  · simp [h, hc.mpr h]
  · simp [h, mt hc.mp h]

/-- a column of natural-number counts -/
def natCol (ns : List Nat) : List Val := ns.map fun (n : Nat) => Val.int (n : Int)

theorem isum_natCol (ns : List Nat) : isum (natCol ns) = ((ns.sum : Nat) : Int) := by
  induction ns with
  | nil => rfl
  | cons n ns ih =>
    have e : natCol (n :: ns) = Val.int (n : Int) :: natCol ns := rfl
    rw [e]; simp only [isum, ival, sum_cons, ih]; omega

theorem iwt_natCol (ns : List Nat) : iwt (natCol ns) = ns.sum := by
  induction ns with
  | nil => rfl
  | cons n ns ih =>
    have e : natCol (n :: ns) = Val.int (n : Int) :: natCol ns := rfl
    rw [e]; simp only [iwt, ival, sum_cons, ih]; omega

/-- SUM of a column of natural-number counts -/
theorem aggVal_sum_nats (k : Nat) (ns : List Nat) (hne : ns ≠ []) (hb : ((ns.sum : Nat) : Int) ≤ Val.i64Max) :
    aggVal fo .sum false k (natCol ns) = .ok (.int ns.sum) := by
  have hall : ∀ v ∈ natCol ns, ∃ i, v = Val.int i := by
    intro v hv; obtain ⟨n, _, rfl⟩ := mem_map.mp hv; exact ⟨_, rfl⟩
  have hnn : (natCol ns).filter (fun v => !v.isNull) = natCol ns := by
    rw [filter_eq_self]; intro v hv; obtain ⟨i, rfl⟩ := hall v hv; rfl
  have hne' : natCol ns ≠ [] := by simpa [natCol] using hne
  show sumVals fo (if false = true then dedupVals ((natCol ns).filter (fun v => !v.isNull))
        else (natCol ns).filter (fun v => !v.isNull)) = _
  simp only [Bool.false_eq_true, if_false, hnn]
  rw [sumVals_int fo _ hall (by rw [iwt_natCol]; exact hb)]
  simp [hne', isum_natCol]

theorem cnt_flatten (xss : List (List Val)) : cnt xss.flatten = (xss.map cnt).sum := by
  induction xss with
  | nil => rfl
  | cons l ls ih => simp [flatten_cons, cnt_append, ih]

theorem cnt_le_length (xs : List Val) : cnt xs ≤ xs.length := by
  simp only [cnt, nn]; exact length_filter_le _ _

/-- SUM of partial COUNTs -/
theorem final_count (k : Nat) (ty : Ty) (xss : List (List Val)) (hne : xss ≠ [])
    (hrows : (xss.flatten.length : Int) ≤ Val.i64Max) :
    aggVal fo .sum false k (xss.map (pv fo .count ty)) = .ok (pv fo .count ty xss.flatten) := by
  have e : xss.map (pv fo .count ty) = natCol (xss.map cnt) := by
    rw [natCol, map_map]; rfl
  rw [e, aggVal_sum_nats k _ (by simpa using hne) (by
    rw [← cnt_flatten]; have := cnt_le_length xss.flatten; omega), ← cnt_flatten]
  rfl

/-- SUM of partial COUNT(*)s -/
theorem final_countStar (k : Nat) (ty : Ty) (xss : List (List Val)) (hne : xss ≠ [])
    (hrows : (xss.flatten.length : Int) ≤ Val.i64Max) :
    aggVal fo .sum false k (xss.map (pv fo .countStar ty)) = .ok (pv fo .countStar ty xss.flatten) := by
  have e : xss.map (pv fo .countStar ty) = natCol (xss.map length) := by
    rw [natCol, map_map]; rfl
  rw [e, aggVal_sum_nats k _ (by simpa using hne) (by rw [← length_flatten]; exact hrows), ← length_flatten]
  rfl

/-! ### extremum of the partial extrema -/

section extcol
variable {α : Type} (better : α → α → Bool) (key : Val → Option α) (inj : α → Val)

theorem key_optVal (hk : ∀ a, key (inj a) = some a) (hn : key .null = none) (o : Option α) :
    key (optVal inj o) = o := by cases o <;> simp [optVal, hk, hn]

theorem ext_col_mem (hk : ∀ a, key (inj a) = some a) (hn : key .null = none) (xss : List (List Val)) :
    ∀ b ∈ (xss.map fun xs => optVal inj (extBy better (xs.filterMap key))).filterMap key,
      b ∈ xss.flatten.filterMap key := by
  intro b hb
  obtain ⟨v, hv, hkv⟩ := mem_filterMap.mp hb
  obtain ⟨xs, hxs, rfl⟩ := mem_map.mp hv
  rw [key_optVal key inj hk hn] at hkv
  obtain ⟨w, hw, hkw⟩ := mem_filterMap.mp (extBy_mem better _ b hkv)
  exact mem_filterMap.mpr ⟨w, mem_flatten.mpr ⟨xs, hxs, hw⟩, hkw⟩

/-- the extremum of the per-piece extrema is the extremum of the concatenation -/
theorem ext_col (hk : ∀ a, key (inj a) = some a) (hn : key .null = none) (xss : List (List Val))
    (hw : WeakOn better (xss.flatten.filterMap key)) :
    extBy better ((xss.map fun xs => optVal inj (extBy better (xs.filterMap key))).filterMap key)
      = extBy better (xss.flatten.filterMap key) := by
  induction xss with
  | nil => rfl
  | cons l ls ih =>
    rw [flatten_cons, filterMap_append] at hw ⊢
    have hw2 : WeakOn better (ls.flatten.filterMap key) := hw.mono (fun a ha => mem_append_right _ ha)
    rw [extBy_append hw, ← ih hw2, map_cons, filterMap_cons, key_optVal key inj hk hn]
    cases ho : extBy better (l.filterMap key) with
    | none => rfl
    | some a =>
      simp only
      have hw3 : WeakOn better ([a] ++ (ls.map fun xs => optVal inj (extBy better (xs.filterMap key))).filterMap key) :=
        hw.mono (fun c hc => by
          rcases mem_append.mp hc with hc | hc
          · rw [mem_singleton.mp hc]; exact mem_append_left _ (extBy_mem better _ a ho)
          · exact mem_append_right _ (ext_col_mem better key inj hk hn ls c hc))
      have := extBy_append hw3
      rw [singleton_append] at this
      rw [this]; rfl

end extcol

include E in
/-- MIN of partial MINs -/
theorem final_min (k : Nat) (ty : Ty) (xss : List (List Val)) (hnb : ty ≠ .bool) (hford : FOrd xss.flatten) :
    aggVal fo .min false k (xss.map (pv fo .min ty)) = .ok (pv fo .min ty xss.flatten) := by
  have hcolty : ColTy ty (xss.map (pv fo .min ty)) := by
    intro v hv
    obtain ⟨xs, _, rfl⟩ := mem_map.mp hv
    cases ty
    case bool => exact .inl rfl
    case int => simp only [pv, specVal]; cases (summ xs).imin <;> simp [optVal, Val.tyOf]
    case date => simp only [pv, specVal]; cases (summ xs).imin <;> simp [optVal, Val.tyOf]
    case f64 => simp only [pv, specVal]; cases (summ xs).fmin <;> simp [optVal, Val.tyOf]
    case str => simp only [pv, specVal]; cases (summ xs).smin <;> simp [optVal, Val.tyOf]
  have hfordc : FOrd (xss.map (pv fo .min ty)) := by
    intro x hx
    obtain ⟨xs, hxs, hpv⟩ := mem_map.mp hx
    cases ty
    case f64 =>
      simp only [pv, specVal] at hpv
      cases hm : (summ xs).fmin with
      | none => rw [hm] at hpv; cases hpv
      | some y =>
        rw [hm] at hpv; cases hpv
        have := extBy_mem _ _ _ hm
        rw [mem_filterMap_fkey] at this
        exact hford x (mem_flatten.mpr ⟨xs, hxs, this⟩)
    case bool => cases hpv
    case int => simp only [pv, specVal] at hpv; cases hm : (summ xs).imin <;> rw [hm] at hpv <;> cases hpv
    case date => simp only [pv, specVal] at hpv; cases hm : (summ xs).imin <;> rw [hm] at hpv <;> cases hpv
    case str => simp only [pv, specVal] at hpv; cases hm : (summ xs).smin <;> rw [hm] at hpv <;> cases hpv
  have hok : Ok E ⟨.min, false, ty⟩ (xss.map (pv fo .min ty)) :=
    ⟨hcolty, ⟨fun h' => by simp at h', fun _ => hnb⟩, fun h' => by simp at h', fun h' => by simp [needsF] at h', hfordc⟩
  rw [aggVal_n_irrel .min (by simp) false k (xss.map (pv fo .min ty)).length,
    aggVal_eq_specVal E ⟨.min, false, ty⟩ _ F64.posZero hok (fun h' => by simp [needsF] at h')]
  have hordF : ∀ x ∈ xss.flatten.filterMap fkey, F64.ordinary x :=
    fun x hx => hford x ((mem_filterMap_fkey _ x).mp hx)
  cases ty
  case bool => rfl
  case int =>
    simp only [pv, specVal]; congr 2
    exact ext_col (fun a b : Int => decide (a < b)) ikey .int (fun _ => rfl) rfl xss (weakOn_int_lt _)
  case date =>
    simp only [pv, specVal]; congr 2
    exact ext_col (fun a b : Int => decide (a < b)) ikey .date (fun _ => rfl) rfl xss (weakOn_int_lt _)
  case f64 =>
    simp only [pv, specVal]; congr 2
    exact ext_col F64.lt fkey .f64 (fun _ => rfl) rfl xss (F64.weakOn_lt _ hordF)
  case str =>
    simp only [pv, specVal]; congr 2
    exact ext_col (fun a b : String => compare a b == .lt) skey .str (fun _ => rfl) rfl xss (weakOn_cmp_lt compare _)

include E in
/-- MAX of partial MAXes -/
theorem final_max (k : Nat) (ty : Ty) (xss : List (List Val)) (hnb : ty ≠ .bool) (hford : FOrd xss.flatten) :
    aggVal fo .max false k (xss.map (pv fo .max ty)) = .ok (pv fo .max ty xss.flatten) := by
  have hcolty : ColTy ty (xss.map (pv fo .max ty)) := by
    intro v hv
    obtain ⟨xs, _, rfl⟩ := mem_map.mp hv
    cases ty
    case bool => exact .inl rfl
    case int => simp only [pv, specVal]; cases (summ xs).imax <;> simp [optVal, Val.tyOf]
    case date => simp only [pv, specVal]; cases (summ xs).imax <;> simp [optVal, Val.tyOf]
    case f64 => simp only [pv, specVal]; cases (summ xs).fmax <;> simp [optVal, Val.tyOf]
    case str => simp only [pv, specVal]; cases (summ xs).smax <;> simp [optVal, Val.tyOf]
  have hfordc : FOrd (xss.map (pv fo .max ty)) := by
    intro x hx
    obtain ⟨xs, hxs, hpv⟩ := mem_map.mp hx
    cases ty
    case f64 =>
      simp only [pv, specVal] at hpv
      cases hm : (summ xs).fmax with
      | none => rw [hm] at hpv; cases hpv
      | some y =>
        rw [hm] at hpv; cases hpv
        have := extBy_mem _ _ _ hm
        rw [mem_filterMap_fkey] at this
        exact hford x (mem_flatten.mpr ⟨xs, hxs, this⟩)
    case bool => cases hpv
    case int => simp only [pv, specVal] at hpv; cases hm : (summ xs).imax <;> rw [hm] at hpv <;> cases hpv
    case date => simp only [pv, specVal] at hpv; cases hm : (summ xs).imax <;> rw [hm] at hpv <;> cases hpv
    case str => simp only [pv, specVal] at hpv; cases hm : (summ xs).smax <;> rw [hm] at hpv <;> cases hpv
  have hok : Ok E ⟨.max, false, ty⟩ (xss.map (pv fo .max ty)) :=
    ⟨hcolty, ⟨fun h' => by simp at h', fun _ => hnb⟩, fun h' => by simp at h', fun h' => by simp [needsF] at h', hfordc⟩
  rw [aggVal_n_irrel .max (by simp) false k (xss.map (pv fo .max ty)).length,
    aggVal_eq_specVal E ⟨.max, false, ty⟩ _ F64.posZero hok (fun h' => by simp [needsF] at h')]
  have hordF : ∀ x ∈ xss.flatten.filterMap fkey, F64.ordinary x :=
    fun x hx => hford x ((mem_filterMap_fkey _ x).mp hx)
  cases ty
  case bool => rfl
  case int =>
    simp only [pv, specVal]; congr 2
    exact ext_col (fun a b : Int => decide (b < a)) ikey .int (fun _ => rfl) rfl xss (weakOn_int_gt _)
  case date =>
    simp only [pv, specVal]; congr 2
    exact ext_col (fun a b : Int => decide (b < a)) ikey .date (fun _ => rfl) rfl xss (weakOn_int_gt _)
  case f64 =>
    simp only [pv, specVal]; congr 2
    exact ext_col (fun a b => F64.lt b a) fkey .f64 (fun _ => rfl) rfl xss (F64.weakOn_gt _ hordF)
  case str =>
    simp only [pv, specVal]; congr 2
    exact ext_col (fun a b : String => compare a b == .gt) skey .str (fun _ => rfl) rfl xss (weakOn_cmp_gt compare _)

/-- SUM of partial SUMs (integers, or exact floats) -/
theorem final_sum (k : Nat) (ty : Ty) (xss : List (List Val)) (hok : Ok E ⟨.sum, false, ty⟩ xss.flatten) :
    aggVal fo .sum false k (xss.map (pv fo .sum ty)) = .ok (pv fo .sum ty xss.flatten) := by
  rcases hok.fnty.1 (.inl rfl) with hty | hty
  · have hty' : ty = .int := hty
    subst hty'
    exact final_sum_int E _ xss (hok.int (.inl rfl) rfl)
  · have hty' : ty = .f64 := hty
    subst hty'
    exact final_sum_f64 E _ xss (hok.flt (.inr ⟨rfl, rfl⟩))

/-- the AVG of a list from its (SUM, COUNT): `CAST(sum AS DOUBLE) / CAST(count AS DOUBLE)` -/
theorem avg_finish (ty : Ty) (xs : List Val) (hok : Ok E ⟨.avg, false, ty⟩ xs) :
    (do Val.arith fo .div (← castVal fo (pv fo .sum ty xs) .f64) (← castVal fo (pv fo .count ty xs) .f64))
      = .ok (pv fo .avg ty xs) := by
  have hF : FOk E xs := hok.flt (.inl rfl)
  rcases hok.fnty.1 (.inr rfl) with hty | hty
  · have hty' : ty = .int := hty
    subst hty'
    have hfl : fl fo xs = fo.ofInt (isum xs) :=
      (FRep_fl E hF).unique E (FRep.ofInt_isum E hF (colTy_int hok.ty))
    simp only [pv, specVal, summ]
    by_cases h : cnt xs = 0
    · simp only [h, if_true]; rfl
    · simp only [h, if_false, hfl]; rfl
  · have hty' : ty = .f64 := hty
    subst hty'
    simp only [pv, specVal, summ]
    by_cases h : cnt xs = 0
    · simp only [h, if_true]; rfl
    · simp only [h, if_false]; rfl

/-- AVG: SUM of partial SUMs divided (once, as DOUBLEs) by SUM of partial COUNTs -/
theorem final_avg (k : Nat) (ty : Ty) (xss : List (List Val)) (hne : xss ≠ [])
    (hrows : (xss.flatten.length : Int) ≤ Val.i64Max) (hok : Ok E ⟨.avg, false, ty⟩ xss.flatten) :
    (do let s ← aggVal fo .sum false k (xss.map (pv fo .sum ty))
        let c ← aggVal fo .sum false k (xss.map (pv fo .count ty))
        Val.arith fo .div (← castVal fo s .f64) (← castVal fo c .f64)) = .ok (pv fo .avg ty xss.flatten) := by
  rw [final_count k ty xss hne hrows, final_sum E k ty xss (ok_toSum hok)]
  simp only [ok_bind]
  exact avg_finish E ty _ hok

/-- the merge functions of `DistPlan.finalOf`, per shipped column -/
def finalFns : AggFn → List AggFn
  | .countStar | .count | .sum => [.sum]
  | .min => [.min]
  | .max => [.max]
  | .avg => [.sum, .sum]

theorem pvals_length (fn : AggFn) (ty : Ty) (xs : List Val) :
    (pvals fo ⟨fn, false, ty⟩ xs).length = (finalFns fn).length := by cases fn <;> rfl

/-- **merging is a homomorphism**: re-aggregating column `j` of the shipped rows with the `j`-th merge function gives
    column `j` of what ONE worker would ship over the concatenation -/
theorem merge_pvals (fn : AggFn) (ty : Ty) (n : Nat) (xss : List (List Val)) (hne : xss ≠ [])
    (hok : Ok E ⟨fn, false, ty⟩ xss.flatten) (hrows : (xss.flatten.length : Int) ≤ Val.i64Max)
    (j : Nat) (f' : AggFn) (hj : (finalFns fn)[j]? = some f') :
    aggVal fo f' false n (xss.map fun xs => (pvals fo ⟨fn, false, ty⟩ xs).getD j .null)
      = .ok ((pvals fo ⟨fn, false, ty⟩ xss.flatten).getD j .null) := by
  cases fn
  case avg =>
    match j, hj with
    | 0, hj => cases hj; exact final_sum E n ty xss (ok_toSum hok)
    | 1, hj => cases hj; exact final_count n ty xss hne hrows
    | j + 2, hj => simp [finalFns] at hj
  case countStar =>
    match j, hj with
    | 0, hj => cases hj; exact final_countStar n ty xss hne hrows
    | j + 1, hj => simp [finalFns] at hj
  case count =>
    match j, hj with
    | 0, hj => cases hj; exact final_count n ty xss hne hrows
    | j + 1, hj => simp [finalFns] at hj
  case sum =>
    match j, hj with
    | 0, hj => cases hj; exact final_sum E n ty xss hok
    | j + 1, hj => simp [finalFns] at hj
  case min =>
    match j, hj with
    | 0, hj => cases hj; exact final_min E n ty xss (hok.fnty.2 (.inl rfl)) hok.ford
    | j + 1, hj => simp [finalFns] at hj
  case max =>
    match j, hj with
    | 0, hj => cases hj; exact final_max E n ty xss (hok.fnty.2 (.inr rfl)) hok.ford
    | j + 1, hj => simp [finalFns] at hj

/-- **Two-phase aggregation, value level**: shipping per-worker partial aggregates of one group and re-aggregating them
    gives exactly the single-node aggregate over the concatenation of the workers' values. -/
theorem two_phase_val {fo : FloatOps} (E : FloatExact fo) (a : Engine.Acc.Agg) (ha : a.distinct = false)
    (xss : List (List Val)) (hne : xss ≠ []) (hok : Ok E a xss.flatten)
    (hrows : (xss.flatten.length : Int) ≤ Val.i64Max) :
    ∃ ps, xss.mapM (partialVals fo a) = .ok ps ∧
          finalVal fo a ps = aggVal fo a.fn false xss.flatten.length xss.flatten := by
  obtain ⟨fn, d, ty⟩ := a
  have hd : d = false := ha
  subst hd
  refine ⟨xss.map (pvals fo ⟨fn, false, ty⟩), IQE.Bag.mapM_ok _ _ _
    (fun xs hxs => partialVals_ok E (ok_of_mem_flatten hok xs hxs)), ?_⟩
  rw [aggVal_pv E hok]
  have hlen : (xss.map (pvals fo ⟨fn, false, ty⟩)).length = xss.length := length_map _
  cases fn
  case countStar =>
    have hcol : (xss.map (pvals fo ⟨.countStar, false, ty⟩)).map (fun p => p.getD 0 .null) = xss.map (pv fo .countStar ty) := by
      rw [map_map]; rfl
    simp only [finalVal, hcol]; exact final_countStar _ ty xss hne hrows
  case count =>
    have hcol : (xss.map (pvals fo ⟨.count, false, ty⟩)).map (fun p => p.getD 0 .null) = xss.map (pv fo .count ty) := by
      rw [map_map]; rfl
    simp only [finalVal, hcol]; exact final_count _ ty xss hne hrows
  case sum =>
    have hcol : (xss.map (pvals fo ⟨.sum, false, ty⟩)).map (fun p => p.getD 0 .null) = xss.map (pv fo .sum ty) := by
      rw [map_map]; rfl
    simp only [finalVal, hcol]
    rcases hok.fnty.1 (.inl rfl) with hty | hty
    · have hty' : ty = .int := hty
      subst hty'
      exact final_sum_int E _ xss (hok.int (.inl rfl) rfl)
    · have hty' : ty = .f64 := hty
      subst hty'
      exact final_sum_f64 E _ xss (hok.flt (.inr ⟨rfl, rfl⟩))
  case min =>
    have hcol : (xss.map (pvals fo ⟨.min, false, ty⟩)).map (fun p => p.getD 0 .null) = xss.map (pv fo .min ty) := by
      rw [map_map]; rfl
    simp only [finalVal, hcol]; exact final_min E _ ty xss (hok.fnty.2 (.inl rfl)) hok.ford
  case max =>
    have hcol : (xss.map (pvals fo ⟨.max, false, ty⟩)).map (fun p => p.getD 0 .null) = xss.map (pv fo .max ty) := by
      rw [map_map]; rfl
    simp only [finalVal, hcol]; exact final_max E _ ty xss (hok.fnty.2 (.inr rfl)) hok.ford
  case avg =>
    have hcol0 : (xss.map (pvals fo ⟨.avg, false, ty⟩)).map (fun p => p.getD 0 .null) = xss.map (pv fo .sum ty) := by
      rw [map_map]; rfl
    have hcol1 : (xss.map (pvals fo ⟨.avg, false, ty⟩)).map (fun p => p.getD 1 .null) = xss.map (pv fo .count ty) := by
      rw [map_map]; rfl
    simp only [finalVal, hcol0, hcol1]; exact final_avg E _ ty xss hne hrows hok

end value

/-! ### kernel-checked witnesses -/

/-- (i) the average of the per-worker averages is NOT the average: workers `[1]` and `[2,3,4]`; averages `1/1` and
    `9/3`, their mean `(1·3 + 9·1)/(2·1·3)` against `(1+9)/(1+3)`, compared on cross-multiplied integers. -/
theorem avg_of_avgs_ne_avg :
    let s₁ := isum [.int 1]; let c₁ : Int := cnt [.int 1]
    let s₂ := isum [.int 2, .int 3, .int 4]; let c₂ : Int := cnt [.int 2, .int 3, .int 4]
    (s₁ * c₂ + s₂ * c₁) * (c₁ + c₂) ≠ (s₁ + s₂) * (2 * (c₁ * c₂)) := by decide

/-- (ii) with NO shipped row the merged COUNT is NULL, not 0 (a global aggregate needs at least one worker row: the
    coordinator runs an empty shard locally when no shard is active). -/
theorem final_count_no_worker (fo : FloatOps) :
    finalVal fo ⟨.count, false, .int⟩ [] = .ok .null ∧ aggVal fo .count false 0 [] = .ok (.int 0) := ⟨rfl, rfl⟩

/-! ## PART 2 — table level -/

section table
variable {fo : FloatOps} (E : FloatExact fo)

/-! ### `Ok` is monotone under sub-lists -/

theorem iwt_sublist {xs ys : List Val} (h : xs <+ ys) : iwt xs ≤ iwt ys := by
  induction h with
  | slnil => exact Nat.le_refl _
  | cons a _ ih => simp only [iwt]; omega
  | cons_cons a _ ih => simp only [iwt]; omega

theorem fwt_sublist {xs ys : List Val} (h : xs <+ ys) : fwt E xs ≤ fwt E ys := by
  induction h with
  | slnil => exact Nat.le_refl _
  | cons a _ ih => simp only [fwt]; omega
  | cons_cons a _ ih => simp only [fwt]; omega

variable {E}

theorem ok_sublist {a : Engine.Acc.Agg} {xs ys : List Val} (h : Ok E a ys) (hs : xs <+ ys) : Ok E a xs :=
  ⟨fun v hv => h.ty v (hs.subset hv), h.fnty,
   fun h1 h2 => by have := h.int h1 h2; have := iwt_sublist hs; omega,
   fun hn => ⟨fun x hx => (h.flt hn).exact x (hs.subset hx), Nat.le_trans (fwt_sublist E hs) (h.flt hn).bound⟩,
   fun x hx => h.ford x (hs.subset hx)⟩

theorem ok_countStar (ty : Ty) {xs : List Val} (h : ∀ v ∈ xs, v = .null) : Ok E ⟨.countStar, false, ty⟩ xs :=
  ⟨fun v hv => .inl (h v hv), ⟨fun h' => by simp at h', fun h' => by simp at h'⟩, fun h' => by simp at h',
   fun h' => by simp [needsF] at h', fun x hx => by cases h _ hx⟩

variable (E)

/-! ### evaluation of column references -/

theorem evalList_length (cx : EvalCtx) (env : Env) : ∀ (es : List Expr) (vs : List Val),
    evalList cx env es = .ok vs → vs.length = es.length
  | [], vs, h => by simp only [evalList] at h; cases h; rfl
  | e :: es, vs, h => by
    simp only [evalList] at h
    obtain ⟨v, _, h⟩ := bind_ok_inv h
    obtain ⟨ws, hws, h⟩ := bind_ok_inv h
    cases h
    simp [evalList_length cx env es ws hws]

theorem evalList_append_ok (cx : EvalCtx) (env : Env) : ∀ (l₁ l₂ : List Expr) (v₁ v₂ : List Val),
    evalList cx env l₁ = .ok v₁ → evalList cx env l₂ = .ok v₂ → evalList cx env (l₁ ++ l₂) = .ok (v₁ ++ v₂)
  | [], l₂, v₁, v₂, h₁, h₂ => by simp only [evalList] at h₁; cases h₁; simpa using h₂
  | e :: es, l₂, v₁, v₂, h₁, h₂ => by
    simp only [evalList] at h₁
    obtain ⟨v, hv, h₁⟩ := bind_ok_inv h₁
    obtain ⟨ws, hws, h₁⟩ := bind_ok_inv h₁
    cases h₁
    simp only [cons_append, evalList, hv, evalList_append_ok cx env es l₂ ws v₂ hws h₂]
    rfl

theorem eval_col (cx : EvalCtx) (r : Row) (e : Env) (c : Nat) (hc : c < r.length) :
    eval cx (r :: e) (.col c) = .ok (r.getD c .null) := by
  simp [eval, getCol, hc]

theorem evalList_cols (cx : EvalCtx) (r : Row) (e : Env) : ∀ (is : List Nat), (∀ i ∈ is, i < r.length) →
    evalList cx (r :: e) (is.map Expr.col) = .ok (is.map fun i => r.getD i .null)
  | [], _ => by simp [evalList]
  | i :: is, h => by
    simp only [map_cons, evalList, eval_col cx r e i (h i (by simp)),
      evalList_cols cx r e is (fun j hj => h j (by simp [hj]))]
    rfl

theorem range_map_getD_eq_take (r : Row) (n : Nat) (hn : n ≤ r.length) :
    (List.range n).map (fun i => r.getD i .null) = r.take n := by
  apply List.ext_getElem
  · simp [Nat.min_eq_left hn]
  · intro i h1 h2
    simp only [length_map, length_range] at h1
    simp [List.getD, List.getElem?_eq_getElem (Nat.lt_of_lt_of_le h1 hn)]

theorem evalList_colsUpTo (cx : EvalCtx) (r : Row) (e : Env) (n : Nat) (hn : n ≤ r.length) :
    evalList cx (r :: e) (colsUpTo n) = .ok (r.take n) := by
  rw [colsUpTo, evalList_cols cx r e _ (fun i hi => Nat.lt_of_lt_of_le (by simpa using hi) hn),
    range_map_getD_eq_take r n hn]

/-! ### `aggGroup` / `aggregate` in pure form -/

/-- one aggregate call over the rows of a group -/
def aggCallVal (cx : EvalCtx) (env : Env) (rows : Table) (a : AggCall) : Except Err Val := do
  let args ← match a.fn with
    | .countStar => pure []
    | _ => rows.mapM (fun r => eval cx (r :: env) a.arg)
  aggVal cx.fo a.fn a.distinct rows.length args

theorem aggGroup_eq (cx : EvalCtx) (env : Env) (aggs : List AggCall) (rows : Table) :
    aggGroup cx env aggs rows = aggs.mapM (aggCallVal cx env rows) := rfl

theorem aggCall_eq (cx : EvalCtx) (env : Env) (rows : Table) (a : AggCall) (h : Row → Val)
    (H : a.fn ≠ .countStar → ∀ r ∈ rows, eval cx (r :: env) a.arg = .ok (h r)) :
    aggCallVal cx env rows a = aggVal cx.fo a.fn a.distinct (rows.map h).length (rows.map h) := by
  obtain ⟨fn, arg, d⟩ := a
  cases fn
  case countStar => rw [length_map]; rfl
  all_goals
    simp only [aggCallVal]
    rw [IQE.Bag.mapM_ok _ h rows (H (by simp)), length_map]
    rfl

theorem mapM_flatMap_ok {α β γ ε : Type} [Inhabited γ] {f : α → List β} {h : β → Except ε γ} {g : α → List γ}
    {l : List α} (H : ∀ a ∈ l, (f a).mapM h = .ok (g a)) : (l.flatMap f).mapM h = .ok (l.flatMap g) := by
  refine (mapM_ok_iff h _ _).mpr ⟨?_, ?_⟩
  · intro b hb
    obtain ⟨a, ha, hba⟩ := mem_flatMap.mp hb
    exact ((mapM_ok_iff h _ _).mp (H a ha)).1 b hba
  · rw [map_flatMap]
    exact (IQE.Bag.flatMap_congr' (fun a ha => ((mapM_ok_iff h _ _).mp (H a ha)).2)).symm ▸ rfl

def keyedBy (kf : Row → Row) (rows : Table) : List (Row × Row) := rows.map fun r => (kf r, r)

/-- the groups `Spec.aggregate` works on: the whole input for a global aggregate, `groupBy` otherwise -/
def groupsOf (keys : List Expr) (kf : Row → Row) (rows : Table) : List (Row × Table) :=
  if keys.isEmpty then [([], rows)] else groupBy (keyedBy kf rows)

theorem aggregate_ok (cx : EvalCtx) (env : Env) (keys : List Expr) (aggs : List AggCall) (rows : Table)
    (kf : Row → Row) (V : Row × Table → Row)
    (hk : keys ≠ [] → ∀ r ∈ rows, evalList cx (r :: env) keys = .ok (kf r))
    (hg : ∀ kg ∈ groupsOf keys kf rows, aggGroup cx env aggs kg.2 = .ok (V kg)) :
    aggregate cx env keys aggs rows = .ok ((groupsOf keys kf rows).map fun kg => kg.1 ++ V kg) := by
  by_cases hke : keys.isEmpty = true
  · have := hg ([], rows) (by simp [groupsOf, hke])
    simp only [aggregate, hke, if_true, groupsOf, this, map_cons, map_nil, nil_append]
    rfl
  · have hne : keys ≠ [] := fun e => hke (by simp [e])
    simp only [aggregate, hke, if_false, Bool.false_eq_true, groupsOf]
    rw [IQE.Bag.mapM_ok _ (fun r => (kf r, r)) rows (fun r hr => by rw [hk hne r hr]; rfl), ok_bind]
    rw [IQE.Bag.mapM_ok _ (fun kg => kg.1 ++ V kg)]
    · rfl
    · rintro ⟨k, g⟩ hkg
      have := hg (k, g) (by simpa [groupsOf, hke, keyedBy] using hkg)
      simp only [this]
      rfl

/-! ### the shipped row of a group, the merged row, the finished row -/

section rows
variable (cx : EvalCtx) (hfo : cx.fo = fo) (af : AggCall → Row → Val) (ty : AggCall → Ty)

/-- what a worker ships for the group `g` (without the key prefix): the partial values of every aggregate -/
def Vrow (fo : FloatOps) (af : AggCall → Row → Val) (ty : AggCall → Ty) (aggs : List AggCall) (g : Table) : Row :=
  aggs.flatMap fun a => pvals fo ⟨a.fn, false, ty a⟩ (g.map (af a))

/-- the aggregate values of the group `g` -/
def Wrow (fo : FloatOps) (af : AggCall → Row → Val) (ty : AggCall → Ty) (aggs : List AggCall) (g : Table) : Row :=
  aggs.map fun a => pv fo a.fn (ty a) (g.map (af a))

theorem mapM_single {α β ε : Type} {F : α → Except ε β} {x : α} {a : β} (hx : F x = .ok a) :
    [x].mapM F = .ok [a] := by
  rw [List.mapM_cons, List.mapM_nil, hx]; rfl

theorem mapM_pair {α β ε : Type} {F : α → Except ε β} {x y : α} {a b : β} (hx : F x = .ok a) (hy : F y = .ok b) :
    [x, y].mapM F = .ok [a, b] := by
  rw [List.mapM_cons, List.mapM_cons, List.mapM_nil, hx, hy]; rfl

theorem finalFns_length (a : AggCall) : (finalFns a.fn).length = (partialOf a).length := by
  obtain ⟨fn, arg, d⟩ := a; cases fn <;> rfl

include hfo in
/-- a worker's partial aggregates over one of its groups -/
theorem aggGroup_partial (env : Env) (aggs : List AggCall) (g : Table)
    (H1 : ∀ a ∈ aggs, a.fn ≠ .countStar → ∀ r ∈ g, eval cx (r :: env) a.arg = .ok (af a r))
    (H2 : ∀ a ∈ aggs, Ok E ⟨a.fn, false, ty a⟩ (g.map (af a))) :
    aggGroup cx env (partialAggs aggs) g = .ok (Vrow fo af ty aggs g) := by
  subst hfo
  rw [aggGroup_eq, partialAggs]
  apply mapM_flatMap_ok
  intro a ha
  have h1 := H1 a ha
  have h2 := H2 a ha
  obtain ⟨fn, arg, d⟩ := a
  have hcall : ∀ f' : AggFn, (fn = .countStar → f' = .countStar) → Ok E ⟨f', false, ty ⟨fn, arg, d⟩⟩ (g.map (af ⟨fn, arg, d⟩)) →
      aggCallVal cx env g ⟨f', arg, false⟩ = .ok (pv cx.fo f' (ty ⟨fn, arg, d⟩) (g.map (af ⟨fn, arg, d⟩))) := by
    intro f' hf' hok'
    rw [aggCall_eq cx env g ⟨f', arg, false⟩ (af ⟨fn, arg, d⟩) (fun hne => h1 (fun e => hne (hf' e)))]
    exact aggVal_pv E hok'
  cases fn
  case avg =>
    exact mapM_pair (hcall .sum (fun e => by cases e) (ok_toSum h2)) (hcall .count (fun e => by cases e) (ok_toCount h2))
  all_goals exact mapM_single (hcall _ (fun e => by first | rfl | cases e) h2)

include hfo in
/-- the single-node aggregates over a group -/
theorem aggGroup_whole (env : Env) (aggs : List AggCall) (g : Table) (hd : ∀ a ∈ aggs, a.distinct = false)
    (H1 : ∀ a ∈ aggs, a.fn ≠ .countStar → ∀ r ∈ g, eval cx (r :: env) a.arg = .ok (af a r))
    (H2 : ∀ a ∈ aggs, Ok E ⟨a.fn, false, ty a⟩ (g.map (af a))) :
    aggGroup cx env aggs g = .ok (Wrow fo af ty aggs g) := by
  subst hfo
  rw [aggGroup_eq]
  apply IQE.Bag.mapM_ok
  intro a ha
  rw [aggCall_eq cx env g a (af a) (H1 a ha), hd a ha]
  exact aggVal_pv E (H2 a ha)

theorem getD_mid (p m t : List Val) (j : Nat) (hj : j < m.length) (d : Val) :
    (p ++ (m ++ t)).getD (p.length + j) d = m.getD j d := by
  rw [List.getD_eq_getElem?_getD, List.getD_eq_getElem?_getD, List.getElem?_append_right (by omega),
    Nat.add_sub_cancel_left, List.getElem?_append_left hj]

include hfo in
/-- one merge aggregate of the final stage over the shipped rows of one group -/
theorem finalCall_merge (pieces : List Table) (hne : pieces ≠ [])
    (hrows : (pieces.flatten.length : Int) ≤ Val.i64Max) (a : AggCall) (c : Nat) (pre rest : Table → Row)
    (hpre : ∀ g ∈ pieces, (pre g).length = c)
    (hok : Ok E ⟨a.fn, false, ty a⟩ (pieces.flatten.map (af a)))
    (j : Nat) (f' : AggFn) (hj : (finalFns a.fn)[j]? = some f') :
    aggCallVal cx [] (pieces.map fun g => pre g ++ (pvals fo ⟨a.fn, false, ty a⟩ (g.map (af a)) ++ rest g))
        ⟨f', .col (c + j), false⟩
      = .ok ((pvals fo ⟨a.fn, false, ty a⟩ (pieces.flatten.map (af a))).getD j .null) := by
  subst hfo
  have hjlt : j < (finalFns a.fn).length := by
    obtain ⟨h, _⟩ := List.getElem?_eq_some_iff.mp hj; exact h
  rw [aggCall_eq cx [] _ ⟨f', .col (c + j), false⟩ (fun r => r.getD (c + j) .null) (fun _ r hr => by
    obtain ⟨g, hg, rfl⟩ := mem_map.mp hr
    exact eval_col cx _ [] (c + j) (by
      simp only [length_append, hpre g hg, pvals_length]; omega))]
  have hG : (pieces.map fun g => pre g ++ (pvals cx.fo ⟨a.fn, false, ty a⟩ (g.map (af a)) ++ rest g)).map
        (fun r => r.getD (c + j) .null)
      = (pieces.map (fun g => g.map (af a))).map (fun xs => (pvals cx.fo ⟨a.fn, false, ty a⟩ xs).getD j .null) := by
    rw [map_map, map_map]
    apply map_congr_left
    intro g hg
    simp only [Function.comp]
    rw [← hpre g hg]
    exact getD_mid _ _ _ j (by rw [pvals_length]; exact hjlt) _
  rw [hG, map_flatten]
  exact merge_pvals E a.fn (ty a) _ _ (by simpa using hne) (by rw [← map_flatten]; exact hok)
    (by rw [← map_flatten, length_map]; exact hrows) j f' hj

include hfo in
/-- **the merge aggregate of the final stage computes, from the rows shipped for one group, the row ONE worker would
    ship over the whole group** -/
theorem merge_from (pieces : List Table) (hne : pieces ≠ []) (hrows : (pieces.flatten.length : Int) ≤ Val.i64Max) :
    ∀ (aggs' : List AggCall) (c : Nat) (pre : Table → Row), (∀ g ∈ pieces, (pre g).length = c) →
      (∀ a ∈ aggs', Ok E ⟨a.fn, false, ty a⟩ (pieces.flatten.map (af a))) →
      aggGroup cx [] (finalAggsFrom c aggs') (pieces.map fun g => pre g ++ Vrow fo af ty aggs' g)
        = .ok (Vrow fo af ty aggs' pieces.flatten)
  | [], c, pre, _, _ => rfl
  | a :: as, c, pre, hpre, hok => by
    have hV : ∀ g, Vrow fo af ty (a :: as) g = pvals fo ⟨a.fn, false, ty a⟩ (g.map (af a)) ++ Vrow fo af ty as g :=
      fun g => by simp [Vrow]
    simp only [finalAggsFrom, hV]
    rw [aggGroup_eq]
    apply mapM_ok_append
    · have key := fun j f' hj => finalCall_merge E cx hfo af ty pieces hne hrows a c pre (Vrow fo af ty as) hpre
        (hok a (by simp)) j f' hj
      obtain ⟨fn, arg, d⟩ := a
      cases fn
      case avg => exact mapM_pair (key 0 .sum rfl) (key 1 .sum rfl)
      all_goals exact mapM_single (key 0 _ rfl)
    · rw [← aggGroup_eq]
      have ih := merge_from pieces hne hrows as (c + (partialOf a).length)
        (fun g => pre g ++ pvals fo ⟨a.fn, false, ty a⟩ (g.map (af a)))
        (fun g hg => by simp only [length_append, hpre g hg, pvals_length, finalFns_length])
        (fun b hb => hok b (by simp [hb]))
      have e : (fun g => (pre g ++ pvals fo ⟨a.fn, false, ty a⟩ (g.map (af a))) ++ Vrow fo af ty as g)
          = (fun g => pre g ++ (pvals fo ⟨a.fn, false, ty a⟩ (g.map (af a)) ++ Vrow fo af ty as g)) :=
        funext fun g => append_assoc _ _ _
      rw [e] at ih
      exact ih

theorem eval_div_cast (env : Env) (x y : Expr) (vx vy : Val) (hx : eval cx env x = .ok vx)
    (hy : eval cx env y = .ok vy) :
    eval cx env (.bin .div (.cast x .f64) (.cast y .f64))
      = (do Val.arith cx.fo .div (← castVal cx.fo vx .f64) (← castVal cx.fo vy .f64)) := by
  simp only [eval, hx, hy, ok_bind]
  rfl

include hfo in
/-- **the projection of the final stage finishes the merged row**: identity on COUNT / SUM / MIN / MAX, one division
    for AVG -/
theorem finish_from (gw : Table) (e : Env) : ∀ (aggs' : List AggCall) (c : Nat) (pre : Row), pre.length = c →
      (∀ a ∈ aggs', Ok E ⟨a.fn, false, ty a⟩ (gw.map (af a))) →
      evalList cx ((pre ++ Vrow fo af ty aggs' gw) :: e) (finalExprsFrom c aggs') = .ok (Wrow fo af ty aggs' gw)
  | [], c, pre, _, _ => by simp [finalExprsFrom, evalList, Wrow]
  | a :: as, c, pre, hpre, hok => by
    have hV : Vrow fo af ty (a :: as) gw = pvals fo ⟨a.fn, false, ty a⟩ (gw.map (af a)) ++ Vrow fo af ty as gw := by
      simp [Vrow]
    have ih := finish_from gw e as (c + (partialOf a).length) (pre ++ pvals fo ⟨a.fn, false, ty a⟩ (gw.map (af a)))
      (by simp only [length_append, hpre, pvals_length, finalFns_length]) (fun b hb => hok b (by simp [hb]))
    rw [append_assoc] at ih
    have hhead : eval cx ((pre ++ (pvals fo ⟨a.fn, false, ty a⟩ (gw.map (af a)) ++ Vrow fo af ty as gw)) :: e)
        (finalExprOf c a) = .ok (pv fo a.fn (ty a) (gw.map (af a))) := by
      have hcol : ∀ j, j < (finalFns a.fn).length →
          eval cx ((pre ++ (pvals fo ⟨a.fn, false, ty a⟩ (gw.map (af a)) ++ Vrow fo af ty as gw)) :: e) (.col (c + j))
            = .ok ((pvals fo ⟨a.fn, false, ty a⟩ (gw.map (af a))).getD j .null) := by
        intro j hj
        rw [eval_col cx _ e (c + j) (by simp only [length_append, hpre, pvals_length]; omega), ← hpre]
        exact congrArg _ (getD_mid pre _ _ j (by rw [pvals_length]; exact hj) .null)
      have hokA := hok a (by simp)
      obtain ⟨fn, arg, d⟩ := a
      cases fn
      case avg =>
        subst hfo
        rw [show finalExprOf c ⟨.avg, arg, d⟩ = .bin .div (.cast (.col (c + 0)) .f64) (.cast (.col (c + 1)) .f64) from rfl,
          eval_div_cast cx _ _ _ _ _ (hcol 0 (by simp [finalFns])) (hcol 1 (by simp [finalFns]))]
        exact avg_finish E _ _ hokA
      all_goals exact hcol 0 (by simp [finalFns])
    simp only [finalExprsFrom, hV, evalList, hhead, ih, ok_bind]
    rfl

end rows

/-! ### groups of the whole against groups of the shards (pure list facts) -/

section pieces
variable (kf : Row → Row)

/-- the rows with key `k` -/
def kfil (k : Row) (t : Table) : Table := t.filter fun r => decide (kf r = k)

theorem rowsOf_keyedBy (k : Row) (t : Table) : IQE.Bag.rowsOf k (keyedBy kf t) = kfil kf k t := by
  induction t with
  | nil => rfl
  | cons r t ih =>
    simp only [IQE.Bag.rowsOf, keyedBy, kfil, map_cons, filter_cons] at ih ⊢
    by_cases h : kf r = k <;> simp [h, ih]

theorem groupBy_keyedBy (t : Table) :
    groupBy (keyedBy kf t) = (IQE.Bag.dedup (t.map kf)).map fun k => (k, kfil kf k t) := by
  rw [IQE.Bag.groupBy_eq, IQE.Bag.groupSpec]
  have h1 : (keyedBy kf t).map (·.1) = t.map kf := by simp [keyedBy]
  rw [h1]
  simp only [rowsOf_keyedBy]

theorem groupsOf_sublist (keys : List Expr) (t : Table) (kg : Row × Table) (h : kg ∈ groupsOf keys kf t) : kg.2 <+ t := by
  unfold groupsOf at h
  by_cases hke : keys.isEmpty = true
  · simp only [hke, if_true, mem_singleton] at h; subst h; exact Sublist.refl _
  · simp only [hke, if_false, Bool.false_eq_true, groupBy_keyedBy, mem_map] at h
    obtain ⟨k, _, rfl⟩ := h
    exact filter_sublist

theorem filter_eq_of_nodup {α : Type} [DecidableEq α] (k : α) : ∀ (l : List α), l.Nodup →
    l.filter (fun x => decide (x = k)) = if k ∈ l then [k] else []
  | [], _ => rfl
  | x :: l, h => by
    obtain ⟨hx, hl⟩ := nodup_cons.mp h
    have ih := filter_eq_of_nodup k l hl
    by_cases hxk : x = k
    · subst hxk
      simp [ih, hx]
    · have : ¬ k = x := fun e => hxk e.symm
      simp [hxk, ih, this]

/-- the non-empty fragments of group `k`, one per shard holding the key, in shard order -/
def pieces (k : Row) (shards : List Table) : List Table :=
  (shards.filter fun sh => decide (k ∈ sh.map kf)).map (kfil kf k)

theorem kfil_eq_nil {k : Row} {t : Table} (h : k ∉ t.map kf) : kfil kf k t = [] := by
  rw [kfil, filter_eq_nil_iff]
  intro r hr
  simp only [decide_eq_true_eq]
  exact fun e => h (mem_map.mpr ⟨r, hr, e⟩)

theorem pieces_cons_pos {k : Row} {sh : Table} (rest : List Table) (h : k ∈ sh.map kf) :
    pieces kf k (sh :: rest) = kfil kf k sh :: pieces kf k rest := by
  unfold pieces; rw [filter_cons, if_pos (decide_eq_true h), map_cons]

theorem pieces_cons_neg {k : Row} {sh : Table} (rest : List Table) (h : k ∉ sh.map kf) :
    pieces kf k (sh :: rest) = pieces kf k rest := by
  unfold pieces; rw [filter_cons, if_neg (fun e => h (of_decide_eq_true e))]

theorem pieces_flatten (k : Row) (shards : List Table) : (pieces kf k shards).flatten = kfil kf k shards.flatten := by
  induction shards with
  | nil => rfl
  | cons sh rest ih =>
    have e : kfil kf k (sh :: rest).flatten = kfil kf k sh ++ kfil kf k rest.flatten := by
      simp [kfil, flatten_cons, filter_append]
    rw [e, ← ih]
    by_cases h : k ∈ sh.map kf
    · rw [pieces_cons_pos kf rest h, flatten_cons]
    · rw [pieces_cons_neg kf rest h, kfil_eq_nil kf h, nil_append]

theorem pieces_ne_nil (k : Row) (shards : List Table) (h : ∃ sh ∈ shards, k ∈ sh.map kf) : pieces kf k shards ≠ [] := by
  obtain ⟨sh, hsh, hk⟩ := h
  intro e
  have : sh ∈ shards.filter fun sh => decide (k ∈ sh.map kf) := mem_filter.mpr ⟨hsh, by simpa using hk⟩
  simp only [pieces, map_eq_nil_iff] at e
  rw [e] at this
  cases this

theorem pieces_sublist (k : Row) (shards : List Table) : ∀ g ∈ pieces kf k shards, g <+ shards.flatten := by
  intro g hg
  obtain ⟨sh, hsh, rfl⟩ := mem_map.mp hg
  exact (filter_sublist).trans (sublist_flatten_of_mem (mem_filter.mp hsh).1)

variable (V : Table → Row) (nk : Nat)

/-- the partial table of one shard (grouped case) -/
def Pof (sh : Table) : Table := (IQE.Bag.dedup (sh.map kf)).map fun k => k ++ V (kfil kf k sh)

theorem Pof_filter (sh : Table) (hsh : ∀ r ∈ sh, (kf r).length = nk) (k : Row) :
    (Pof kf V sh).filter (fun r => decide (r.take nk = k))
      = if k ∈ sh.map kf then [k ++ V (kfil kf k sh)] else [] := by
  rw [Pof, filter_map]
  have hc : (IQE.Bag.dedup (sh.map kf)).filter ((fun r => decide (r.take nk = k)) ∘ fun k => k ++ V (kfil kf k sh))
      = (IQE.Bag.dedup (sh.map kf)).filter (fun x => decide (x = k)) := by
    apply filter_congr
    intro k' hk'
    obtain ⟨r, hr, rfl⟩ := mem_map.mp ((IQE.Bag.mem_dedup _ _).mp hk')
    simp only [Function.comp, take_left' (hsh r hr)]
  rw [hc, filter_eq_of_nodup k _ (IQE.Bag.nodup_dedup _)]
  by_cases h : k ∈ sh.map kf
  · rw [if_pos ((IQE.Bag.mem_dedup _ _).mpr h), if_pos h]; rfl
  · rw [if_neg (fun h' => h ((IQE.Bag.mem_dedup _ _).mp h')), if_neg h]; rfl

theorem partials_filter (shards : List Table) (HK : ∀ sh ∈ shards, ∀ r ∈ sh, (kf r).length = nk) (k : Row) :
    (shards.flatMap (Pof kf V)).filter (fun r => decide (r.take nk = k))
      = (pieces kf k shards).map fun g => k ++ V g := by
  induction shards with
  | nil => rfl
  | cons sh rest ih =>
    rw [flatMap_cons, filter_append, Pof_filter kf V nk sh (HK sh (by simp)) k,
      ih (fun s hs => HK s (by simp [hs]))]
    by_cases h : k ∈ sh.map kf
    · rw [pieces_cons_pos kf rest h, if_pos h, map_cons, singleton_append]
    · rw [pieces_cons_neg kf rest h, if_neg h, nil_append]

theorem mem_partial_keys (shards : List Table) (HK : ∀ sh ∈ shards, ∀ r ∈ sh, (kf r).length = nk) (k : Row) :
    k ∈ (shards.flatMap (Pof kf V)).map (fun r => r.take nk) ↔ ∃ sh ∈ shards, k ∈ sh.map kf := by
  simp only [mem_map, mem_flatMap, Pof]
  constructor
  · rintro ⟨r, ⟨sh, hsh, k', hk', rfl⟩, rfl⟩
    obtain ⟨r0, hr0, rfl⟩ := mem_map.mp ((IQE.Bag.mem_dedup _ _).mp hk')
    exact ⟨sh, hsh, r0, hr0, (take_left' (HK sh hsh r0 hr0)).symm⟩
  · rintro ⟨sh, hsh, r0, hr0, rfl⟩
    exact ⟨_, ⟨sh, hsh, kf r0, (IQE.Bag.mem_dedup _ _).mpr (mem_map.mpr ⟨r0, hr0, rfl⟩), rfl⟩,
      take_left' (HK sh hsh r0 hr0)⟩

theorem mem_flat_keys (shards : List Table) (k : Row) :
    k ∈ shards.flatten.map kf ↔ ∃ sh ∈ shards, k ∈ sh.map kf := by
  simp only [mem_map, mem_flatten]
  constructor
  · rintro ⟨r, ⟨sh, hsh, hr⟩, rfl⟩; exact ⟨sh, hsh, r, hr, rfl⟩
  · rintro ⟨sh, hsh, r, hr, rfl⟩; exact ⟨r, ⟨sh, hsh, hr⟩, rfl⟩

theorem flatten_map_singleton {α β : Type} (f : α → β) (l : List α) : (l.map fun x => [f x]).flatten = l.map f := by
  induction l with
  | nil => rfl
  | cons x l ih => simp [ih]

end pieces

/-! ### assembling the two phases -/

theorem groupsOf_nil (kf : Row → Row) (t : Table) : groupsOf [] kf t = [([], t)] := rfl

theorem groupsOf_ne {keys : List Expr} (h : keys ≠ []) (kf : Row → Row) (t : Table) :
    groupsOf keys kf t = groupBy (keyedBy kf t) := by
  cases keys with
  | nil => exact absurd rfl h
  | cons e es => rfl

theorem mapM_map_ok {α β γ ε : Type} {F : β → Except ε γ} {f : α → β} {h : α → γ} :
    ∀ {l : List α}, (∀ x ∈ l, F (f x) = .ok (h x)) → (l.map f).mapM F = .ok (l.map h)
  | [], _ => rfl
  | x :: l, H => by
    rw [map_cons, List.mapM_cons, H x (by simp), mapM_map_ok (fun y hy => H y (by simp [hy]))]
    rfl

theorem colsUpTo_ne_nil {n : Nat} (h : n ≠ 0) : colsUpTo n ≠ [] := by
  intro e
  have := congrArg List.length e
  simp [colsUpTo] at this
  exact h this

section core
variable (cx : EvalCtx) (hfo : cx.fo = fo) (env : Env) (keys : List Expr) (aggs : List AggCall)
  (kf : Row → Row) (af : AggCall → Row → Val) (ty : AggCall → Ty) (shards : List Table)

include hfo in
/-- the two-phase theorem over explicit (total) key / argument functions -/
theorem two_phase_core
    (hd : ∀ a ∈ aggs, a.distinct = false)
    (hglobal : keys = [] → shards ≠ [])
    (HK : keys ≠ [] → ∀ r ∈ shards.flatten, evalList cx (r :: env) keys = .ok (kf r))
    (H1 : ∀ a ∈ aggs, a.fn ≠ .countStar → ∀ r ∈ shards.flatten, eval cx (r :: env) a.arg = .ok (af a r))
    (H2 : ∀ a ∈ aggs, Ok E ⟨a.fn, false, ty a⟩ (shards.flatten.map (af a)))
    (hrows : (shards.flatten.length : Int) ≤ Val.i64Max) :
    ∃ (Ps : List Table) (F W' : Table),
      shards.mapM (aggregate cx env keys (partialAggs aggs)) = .ok Ps ∧
      finalStage cx keys.length aggs Ps.flatten = .ok F ∧
      aggregate cx env keys aggs shards.flatten = .ok W' ∧ F.Perm W' := by
  have H1' : ∀ g : Table, g <+ shards.flatten → ∀ a ∈ aggs, a.fn ≠ .countStar →
      ∀ r ∈ g, eval cx (r :: env) a.arg = .ok (af a r) :=
    fun g hs a ha hne r hr => H1 a ha hne r (hs.subset hr)
  have H2' : ∀ g : Table, g <+ shards.flatten → ∀ a ∈ aggs, Ok E ⟨a.fn, false, ty a⟩ (g.map (af a)) :=
    fun g hs a ha => ok_sublist (H2 a ha) (hs.map _)
  have hrows' : ∀ g : Table, g <+ shards.flatten → (g.length : Int) ≤ Val.i64Max :=
    fun g hs => by have := hs.length_le; omega
  -- phase 1: every worker
  have hS : ∀ sh ∈ shards, aggregate cx env keys (partialAggs aggs) sh
      = .ok ((groupsOf keys kf sh).map fun kg => kg.1 ++ Vrow fo af ty aggs kg.2) := by
    intro sh hsh
    have hsub : sh <+ shards.flatten := sublist_flatten_of_mem hsh
    exact aggregate_ok cx env keys (partialAggs aggs) sh kf (fun kg => Vrow fo af ty aggs kg.2)
      (fun hne r hr => HK hne r (hsub.subset hr))
      (fun kg hkg => aggGroup_partial E cx hfo af ty env aggs kg.2
        (H1' _ ((groupsOf_sublist kf keys sh kg hkg).trans hsub))
        (H2' _ ((groupsOf_sublist kf keys sh kg hkg).trans hsub)))
  have hPs := IQE.Bag.mapM_ok _ _ shards hS
  -- the single-node aggregate
  have hWh : aggregate cx env keys aggs shards.flatten
      = .ok ((groupsOf keys kf shards.flatten).map fun kg => kg.1 ++ Wrow fo af ty aggs kg.2) :=
    aggregate_ok cx env keys aggs _ kf (fun kg => Wrow fo af ty aggs kg.2) HK
      (fun kg hkg => aggGroup_whole E cx hfo af ty env aggs kg.2 hd
        (H1' _ (groupsOf_sublist kf keys _ kg hkg)) (H2' _ (groupsOf_sublist kf keys _ kg hkg)))
  by_cases hke : keys = []
  · -- global aggregate: every worker ships exactly one row
    subst hke
    have hpart : (shards.map fun sh => (groupsOf [] kf sh).map fun kg => kg.1 ++ Vrow fo af ty aggs kg.2).flatten
        = shards.map fun g => [] ++ Vrow fo af ty aggs g := by
      simp only [groupsOf_nil, map_cons, map_nil]
      exact flatten_map_singleton _ shards
    have hm : aggregate cx [] (colsUpTo 0) (finalAggsFrom 0 aggs) (shards.map fun g => [] ++ Vrow fo af ty aggs g)
        = .ok [[] ++ Vrow fo af ty aggs shards.flatten] := by
      have := aggregate_ok cx [] (colsUpTo 0) (finalAggsFrom 0 aggs) (shards.map fun g => [] ++ Vrow fo af ty aggs g) id
        (fun _ => Vrow fo af ty aggs shards.flatten) (fun h => absurd rfl h)
        (fun kg hkg => by
          have hkg' : kg = ([], shards.map fun g => [] ++ Vrow fo af ty aggs g) := by
            simpa [groupsOf, colsUpTo] using hkg
          subst hkg'
          exact merge_from E cx hfo af ty shards (hglobal rfl) hrows aggs 0 (fun _ => []) (fun _ _ => rfl) H2)
      rw [this]; rfl
    have hproj : evalList cx [[] ++ Vrow fo af ty aggs shards.flatten] (colsUpTo 0 ++ finalExprsFrom 0 aggs)
        = .ok ([] ++ Wrow fo af ty aggs shards.flatten) :=
      evalList_append_ok cx _ _ _ [] _ (evalList_colsUpTo cx _ [] 0 (Nat.zero_le _))
        (finish_from E cx hfo af ty shards.flatten [] aggs 0 [] rfl H2)
    refine ⟨_, [[] ++ Wrow fo af ty aggs shards.flatten], _, hPs, ?_, hWh, ?_⟩
    · rw [hpart]
      simp only [finalStage, length_nil, hm, ok_bind]
      exact mapM_single hproj
    · rw [groupsOf_nil]; exact Perm.refl _
  · -- GROUP BY
    have hnk : keys.length ≠ 0 := fun e => hke (length_eq_zero_iff.mp e)
    have hcols : colsUpTo keys.length ≠ [] := colsUpTo_ne_nil hnk
    have HKlen : ∀ sh ∈ shards, ∀ r ∈ sh, (kf r).length = keys.length := fun sh hsh r hr =>
      evalList_length cx _ keys _ (HK hke r (mem_flatten.mpr ⟨sh, hsh, hr⟩))
    have hP : ∀ sh, ((groupsOf keys kf sh).map fun kg => kg.1 ++ Vrow fo af ty aggs kg.2)
        = Pof kf (Vrow fo af ty aggs) sh := by
      intro sh; rw [groupsOf_ne hke, groupBy_keyedBy, map_map]; rfl
    have hpart : (shards.map fun sh => (groupsOf keys kf sh).map fun kg => kg.1 ++ Vrow fo af ty aggs kg.2).flatten
        = shards.flatMap (Pof kf (Vrow fo af ty aggs)) := by
      simp only [hP]; exact flatMap_def.symm
    have hkeyP : ∀ k, k ∈ IQE.Bag.dedup ((shards.flatMap (Pof kf (Vrow fo af ty aggs))).map fun r => r.take keys.length)
        → ∃ sh ∈ shards, k ∈ sh.map kf := fun k hk =>
      (mem_partial_keys kf _ keys.length shards HKlen k).mp ((IQE.Bag.mem_dedup _ _).mp hk)
    have hklen : ∀ k, (∃ sh ∈ shards, k ∈ sh.map kf) → k.length = keys.length := by
      rintro k ⟨sh, hsh, hk⟩
      obtain ⟨r, hr, rfl⟩ := mem_map.mp hk
      exact HKlen sh hsh r hr
    have hm : aggregate cx [] (colsUpTo keys.length) (finalAggsFrom keys.length aggs)
          (shards.flatMap (Pof kf (Vrow fo af ty aggs)))
        = .ok ((IQE.Bag.dedup ((shards.flatMap (Pof kf (Vrow fo af ty aggs))).map fun r => r.take keys.length)).map
            fun k => k ++ Vrow fo af ty aggs (kfil kf k shards.flatten)) := by
      have := aggregate_ok cx [] (colsUpTo keys.length) (finalAggsFrom keys.length aggs)
        (shards.flatMap (Pof kf (Vrow fo af ty aggs))) (fun r => r.take keys.length)
        (fun kg => Vrow fo af ty aggs (kfil kf kg.1 shards.flatten))
        (fun _ r hr => by
          obtain ⟨sh, hsh, hr⟩ := mem_flatMap.mp hr
          obtain ⟨k, hk, rfl⟩ := mem_map.mp hr
          have hl := hklen k ⟨sh, hsh, (IQE.Bag.mem_dedup _ _).mp hk⟩
          exact evalList_colsUpTo cx _ [] keys.length (by rw [length_append]; omega))
        (fun kg hkg => by
          rw [groupsOf_ne hcols, groupBy_keyedBy, mem_map] at hkg
          obtain ⟨k, hk, rfl⟩ := hkg
          have hex := hkeyP k hk
          show aggGroup cx [] _ ((shards.flatMap (Pof kf (Vrow fo af ty aggs))).filter
            (fun r => decide (r.take keys.length = k))) = _
          rw [partials_filter kf _ keys.length shards HKlen k, ← pieces_flatten]
          refine merge_from E cx hfo af ty (pieces kf k shards) (pieces_ne_nil kf k shards hex) ?_ aggs keys.length
            (fun _ => k) (fun _ _ => hklen k hex) (fun a ha => ?_)
          · rw [pieces_flatten]; exact hrows' _ filter_sublist
          · rw [pieces_flatten]; exact H2' _ filter_sublist a ha)
      rw [this, groupsOf_ne hcols, groupBy_keyedBy, map_map]
      rfl
    have hprojk : ∀ k, (∃ sh ∈ shards, k ∈ sh.map kf) →
        evalList cx [k ++ Vrow fo af ty aggs (kfil kf k shards.flatten)]
          (colsUpTo keys.length ++ finalExprsFrom keys.length aggs)
        = .ok (k ++ Wrow fo af ty aggs (kfil kf k shards.flatten)) := by
      intro k hex
      have hl := hklen k hex
      have h1 := evalList_colsUpTo cx (k ++ Vrow fo af ty aggs (kfil kf k shards.flatten)) [] keys.length
        (by rw [length_append]; omega)
      rw [take_left' hl] at h1
      exact evalList_append_ok cx _ _ _ _ _ h1
        (finish_from E cx hfo af ty (kfil kf k shards.flatten) [] aggs keys.length k hl (H2' _ filter_sublist))
    refine ⟨_, (IQE.Bag.dedup ((shards.flatMap (Pof kf (Vrow fo af ty aggs))).map fun r => r.take keys.length)).map
      (fun k => k ++ Wrow fo af ty aggs (kfil kf k shards.flatten)), _, hPs, ?_, hWh, ?_⟩
    · rw [hpart]
      simp only [finalStage, hm, ok_bind]
      exact mapM_map_ok (fun k hk => hprojk k (hkeyP k hk))
    · rw [groupsOf_ne hke, groupBy_keyedBy, map_map]
      refine (IQE.Bag.perm_of_nodup_mem_iff (IQE.Bag.nodup_dedup _) (IQE.Bag.nodup_dedup _) (fun k => ?_)).map _
      rw [IQE.Bag.mem_dedup, IQE.Bag.mem_dedup, mem_partial_keys kf _ keys.length shards HKlen k, mem_flat_keys]

end core

/-! ### the theorem over `Spec.aggregate` (key / argument evaluation totalised from the hypotheses) -/

/-- total key function -/
def kfOf (cx : EvalCtx) (env : Env) (keys : List Expr) : Row → Row := tot fun r => evalList cx (r :: env) keys

/-- total argument function (`COUNT(*)` has no argument: NULLs) -/
def afOf (cx : EvalCtx) (env : Env) (a : AggCall) : Row → Val :=
  match a.fn with
  | .countStar => fun _ => .null
  | _ => tot fun r => eval cx (r :: env) a.arg

/-- a type under which the argument column of `a` is well-typed (one exists by hypothesis) -/
noncomputable def tyOf (cx : EvalCtx) (env : Env) (flat : Table) (a : AggCall) : Ty :=
  Classical.epsilon fun t => ∃ vs, flat.mapM (fun r => eval cx (r :: env) a.arg) = .ok vs ∧ Ok E ⟨a.fn, false, t⟩ vs

theorem afOf_eq (cx : EvalCtx) (env : Env) (a : AggCall) (h : a.fn ≠ .countStar) :
    afOf cx env a = tot fun r => eval cx (r :: env) a.arg := by
  obtain ⟨fn, arg, d⟩ := a
  cases fn <;> first | exact absurd rfl h | rfl

/-- **Two-phase aggregation, table level**: per-shard partial aggregation (`partialAggs`) followed by the merge stage
    (`finalStage`) over the concatenated partial rows gives, as a bag of rows, the single-node aggregate over the
    concatenation of the shards — empty shards, all-NULL groups and groups present in only some shards included. -/
theorem two_phase_table {fo : FloatOps} (E : FloatExact fo) (cx : EvalCtx) (hcx : cx.fo = fo) (env : Env)
    (keys : List Expr) (aggs : List AggCall) (shards : List Table) (W : Table)
    (hd : ∀ a ∈ aggs, a.distinct = false)
    (hglobal : keys = [] → shards ≠ [])
    (hW : aggregate cx env keys aggs shards.flatten = .ok W)
    (htyped : ∀ a ∈ aggs, a.fn ≠ .countStar → ∃ (ty : Ty) (vs : List Val),
        shards.flatten.mapM (fun r => eval cx (r :: env) a.arg) = .ok vs ∧ Ok E ⟨a.fn, false, ty⟩ vs)
    (hrows : (shards.flatten.length : Int) ≤ Val.i64Max) :
    ∃ (Ps : List Table) (F : Table),
      shards.mapM (aggregate cx env keys (partialAggs aggs)) = .ok Ps ∧
      finalStage cx keys.length aggs Ps.flatten = .ok F ∧ F.Perm W := by
  have HK : keys ≠ [] → ∀ r ∈ shards.flatten, evalList cx (r :: env) keys = .ok (kfOf cx env keys r) := by
    intro hne r hr
    have hke : keys.isEmpty = false := by
      cases keys with
      | nil => exact absurd rfl hne
      | cons _ _ => rfl
    simp only [aggregate, hke, Bool.false_eq_true, if_false] at hW
    obtain ⟨keyed, hk, _⟩ := bind_ok_inv hW
    obtain ⟨x, hx⟩ := mapM_ok_inv hk r hr
    obtain ⟨v, hv, _⟩ := bind_ok_inv hx
    exact tot_of_ok hv
  have H1 : ∀ a ∈ aggs, a.fn ≠ .countStar → ∀ r ∈ shards.flatten,
      eval cx (r :: env) a.arg = .ok (afOf cx env a r) := by
    intro a ha hne r hr
    obtain ⟨t, vs, hvs, _⟩ := htyped a ha hne
    rw [afOf_eq cx env a hne]
    exact ((mapM_ok_iff _ _ _).mp hvs).1 r hr
  have H2 : ∀ a ∈ aggs, Ok E ⟨a.fn, false, tyOf E cx env shards.flatten a⟩ (shards.flatten.map (afOf cx env a)) := by
    intro a ha
    by_cases hcs : a.fn = .countStar
    · obtain ⟨fn, arg, d⟩ := a
      have hcs' : fn = .countStar := hcs
      subst hcs'
      exact ok_countStar _ (fun v hv => by obtain ⟨r, _, rfl⟩ := mem_map.mp hv; rfl)
    · obtain ⟨vs, hvs, hok⟩ := Classical.epsilon_spec (htyped a ha hcs)
      rw [afOf_eq cx env a hcs, ← ((mapM_ok_iff _ _ _).mp hvs).2]
      exact hok
  obtain ⟨Ps, F, W', h1, h2, h3, h4⟩ := two_phase_core E cx hcx env keys aggs (kfOf cx env keys) (afOf cx env)
    (tyOf E cx env shards.flatten) shards hd hglobal HK H1 H2 hrows
  rw [hW] at h3
  cases h3
  exact ⟨Ps, F, h1, h2, h4⟩

end table

/-! ### non-vacuity: the hypotheses of `two_phase_val` are satisfiable -/

section nonvacuous

/-- a degenerate float arithmetic in which `+0.0` is the only exact value (enough for integer columns) -/
def foZ : FloatOps :=
  ⟨fun a _ => a, fun a _ => a, fun a _ => a, fun a _ => a, fun a => a, fun _ => F64.posZero, fun _ => none⟩

def EZ : FloatExact foZ where
  φ := fun _ => 0
  exact := fun x => x = F64.posZero
  B := 0
  scale := 0
  inj := fun a b ha hb _ => ha.trans hb.symm
  zero := ⟨rfl, rfl⟩
  add := fun a b ha _ _ => ⟨ha, rfl⟩
  ofInt := fun i _ => ⟨rfl, by simp⟩
  ord := fun a ha => by subst ha; decide

/-- AVG over the workers `[1]` and `[2, 3, NULL, 4]` (and an idle worker): the hypotheses hold, so the conclusion does -/
example : ∃ ps, [[.int 1], [], [.int 2, .int 3, .null, .int 4]].mapM (partialVals foZ ⟨.avg, false, .int⟩) = .ok ps ∧
    finalVal foZ ⟨.avg, false, .int⟩ ps
      = aggVal foZ .avg false 5 [.int 1, .int 2, .int 3, .null, .int 4] :=
  two_phase_val EZ ⟨.avg, false, .int⟩ rfl [[.int 1], [], [.int 2, .int 3, .null, .int 4]] (by simp)
    ⟨fun v hv => by simp at hv; rcases hv with rfl | rfl | rfl | rfl | rfl <;> simp [Val.tyOf],
     ⟨fun _ => .inl rfl, fun h => by simp at h⟩,
     fun _ _ => by decide,
     fun _ => ⟨fun x hx => by simp at hx, by decide⟩,
     fun x hx => by simp at hx⟩
    (by decide)

end nonvacuous

end IQE.Dist
