import IQE.Engine.CliOutput
import IQE.Spec.Csv
namespace IQE.Engine.CliOutput
open IQE.Spec.Csv

/-- a character that needs no quoting -/
def plain (c : Char) : Prop := c ≠ ',' ∧ c ≠ '"' ∧ c ≠ '\n' ∧ c ≠ '\r'

theorem plain_of_notSpecial (c : Char) (h : csvSpecial Dev.fixed c = false) : plain c := by
  simp only [csvSpecial, Dev.fixed, Bool.not_false, Bool.true_and, Bool.or_eq_false_iff, beq_eq_false_iff_ne] at h
  exact ⟨h.1.1.1, h.1.1.2, h.1.2, h.2⟩

def startish (m : Mode) : Prop := m = .recStart ∨ m = .fieldStart

/-- one plain character in a start mode or inside a non-escaped field -/
theorem go_plain (c : Char) (hc : plain c) (rest cur : List Char) (fs : List (List Char)) (rs : List (List (List Char)))
    (m : Mode) (hm : startish m ∨ m = .unq) : go (c :: rest) m cur fs rs = go rest .unq (c :: cur) fs rs := by
  obtain ⟨h1, h2, h3, h4⟩ := hc
  have e1 : (c == ',') = false := by simpa using h1
  have e2 : (c == '"') = false := by simpa using h2
  have e3 : (c == '\n') = false := by simpa using h3
  have e4 : (c == '\r') = false := by simpa using h4
  rcases hm with (rfl | rfl) | rfl <;> simp [go, e1, e2, e3, e4]

theorem go_plain_run : ∀ (v : List Char), (∀ c ∈ v, plain c) → ∀ (rest cur : List Char) (fs : List (List Char)) (rs : List (List (List Char))),
    go (v ++ rest) .unq cur fs rs = go rest .unq (v.reverse ++ cur) fs rs
  | [], _, _, _, _, _ => by simp
  | c :: v, h, rest, cur, fs, rs => by
    rw [List.cons_append, go_plain c (h c (by simp)) _ _ _ _ .unq (Or.inr rfl),
        go_plain_run v (fun x hx => h x (by simp [hx]))]
    simp

theorem go_comma (rest cur : List Char) (fs : List (List Char)) (rs : List (List (List Char))) (m : Mode)
    (hm : startish m ∨ m = .unq ∨ m = .quoq) :
    go (',' :: rest) m cur fs rs = go rest .fieldStart [] (cur.reverse :: fs) rs := by
  rcases hm with (rfl | rfl) | rfl | rfl <;> simp [go]

theorem go_lf (rest cur : List Char) (fs : List (List Char)) (rs : List (List (List Char))) (m : Mode)
    (hm : startish m ∨ m = .unq ∨ m = .quoq) :
    go ('\n' :: rest) m cur fs rs = go rest .recStart [] [] ((cur.reverse :: fs).reverse :: rs) := by
  rcases hm with (rfl | rfl) | rfl | rfl <;> simp [go]

/-- an unquoted field followed by a separator leaves the machine in a state where the separator closes it -/
theorem go_unquoted (v : List Char) (hv : ∀ c ∈ v, plain c) (rest : List Char) (fs : List (List Char))
    (rs : List (List (List Char))) (m : Mode) (hm : startish m) :
    ∃ m', (startish m' ∨ m' = .unq ∨ m' = .quoq) ∧ go (v ++ rest) m [] fs rs = go rest m' v.reverse fs rs := by
  cases v with
  | nil => exact ⟨m, Or.inl hm, by simp⟩
  | cons c v' =>
    refine ⟨.unq, Or.inr (Or.inl rfl), ?_⟩
    rw [List.cons_append, go_plain c (hv c (by simp)) _ _ _ _ m (Or.inl hm),
        go_plain_run v' (fun x hx => hv x (by simp [hx]))]
    simp

/-- the body of an escaped field up to and including its closing quote -/
theorem go_quoted_body : ∀ (v rest cur : List Char) (fs : List (List Char)) (rs : List (List (List Char))),
    go (v.flatMap (fun c => if c == '"' then ['"', '"'] else [c]) ++ '"' :: rest) .quo cur fs rs = go rest .quoq (v.reverse ++ cur) fs rs
  | [], rest, cur, fs, rs => by simp [go]
  | c :: v, rest, cur, fs, rs => by
    by_cases hc : c = '"'
    · subst hc
      have := go_quoted_body v rest ('"' :: cur) fs rs
      simp only [List.flatMap_cons, beq_self_eq_true, if_true, List.cons_append, List.nil_append, go]
      simpa using this
    · have e : (c == '"') = false := by simpa using hc
      have := go_quoted_body v rest (c :: cur) fs rs
      simp only [List.flatMap_cons, e, Bool.false_eq_true, if_false, List.cons_append, List.nil_append, go]
      simpa using this

theorem go_quoted (v rest : List Char) (fs : List (List Char)) (rs : List (List (List Char))) (m : Mode) (hm : startish m) :
    go (csvQuote v ++ rest) m [] fs rs = go rest .quoq v.reverse fs rs := by
  have h1 : go ('"' :: (v.flatMap (fun c => if c == '"' then ['"', '"'] else [c]) ++ '"' :: rest)) m [] fs rs =
      go (v.flatMap (fun c => if c == '"' then ['"', '"'] else [c]) ++ '"' :: rest) .quo [] fs rs := by
    rcases hm with rfl | rfl <;> simp [go]
  have e : csvQuote v ++ rest = '"' :: (v.flatMap (fun c => if c == '"' then ['"', '"'] else [c]) ++ '"' :: rest) := by
    simp [csvQuote]
  rw [e, h1, go_quoted_body]; simp

/-- **Field law**: whatever the text, its rendering followed by a separator is read back as exactly that text. -/
theorem go_field (v rest : List Char) (fs : List (List Char)) (rs : List (List (List Char))) (m : Mode) (hm : startish m) :
    ∃ m', (startish m' ∨ m' = .unq ∨ m' = .quoq) ∧ go (csvField Dev.fixed v ++ rest) m [] fs rs = go rest m' v.reverse fs rs := by
  unfold csvField
  cases hq : v.any (csvSpecial Dev.fixed) with
  | true => exact ⟨.quoq, Or.inr (Or.inr rfl), by simp only [if_true]; exact go_quoted v rest fs rs m hm⟩
  | false =>
    simp only [Bool.false_eq_true, if_false]
    apply go_unquoted v _ rest fs rs m hm
    intro c hc
    apply plain_of_notSpecial
    have := List.any_eq_false.1 hq c hc
    simpa using this

/-- **Record law**: a non-empty row followed by LF is read back as that row. -/
theorem go_row : ∀ (row : List (List Char)), row ≠ [] → ∀ (rest : List Char) (fs : List (List Char)) (rs : List (List (List Char)))
    (m : Mode), startish m →
    go (joinWith [','] (row.map (csvField Dev.fixed)) ++ '\n' :: rest) m [] fs rs =
      go rest .recStart [] [] ((row.reverse ++ fs).reverse :: rs)
  | [], h, _, _, _, _, _ => absurd rfl h
  | [v], _, rest, fs, rs, m, hm => by
    obtain ⟨m', hm', e⟩ := go_field v ('\n' :: rest) fs rs m hm
    simp only [List.map_cons, List.map_nil, joinWith]
    rw [e, go_lf _ _ _ _ m' hm']
    simp
  | v :: w :: row, _, rest, fs, rs, m, hm => by
    obtain ⟨m', hm', e⟩ := go_field v (',' :: (joinWith [','] ((w :: row).map (csvField Dev.fixed)) ++ '\n' :: rest)) fs rs m hm
    have ih := go_row (w :: row) (by simp) rest (v :: fs) rs .fieldStart (Or.inr rfl)
    simp only [List.map_cons, joinWith, List.append_assoc, List.cons_append, List.nil_append] at e ih ⊢
    rw [e, go_comma _ _ _ _ m' hm']
    simp only [List.reverse_reverse]
    rw [ih]
    simp

theorem go_rows : ∀ (rows : List (List (List Char))), (∀ r ∈ rows, r ≠ []) → ∀ (rs : List (List (List Char))),
    go (rows.flatMap (fun row => joinWith [','] (row.map (csvField Dev.fixed)) ++ ['\n'])) .recStart [] [] rs =
      some (rs.reverse ++ rows)
  | [], _, rs => by simp [go]
  | row :: rows, h, rs => by
    have hr := go_row row (h row (by simp)) (rows.flatMap (fun row => joinWith [','] (row.map (csvField Dev.fixed)) ++ ['\n'])) [] rs .recStart (Or.inl rfl)
    simp only [List.flatMap_cons, List.append_assoc, List.cons_append, List.nil_append] at hr ⊢
    rw [hr, go_rows rows (fun r hr => h r (by simp [hr]))]
    simp

end IQE.Engine.CliOutput
