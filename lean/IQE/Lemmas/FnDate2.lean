/- IQE.Lemmas.FnDate2 — C36: laws of the date functions derived from the calendar round trip. -/
import IQE.Lemmas.FnDate
namespace IQE.Spec.Fn

theorem civilOfDays_eq (z : Int) : civilOfDays z = (yearOf z, monthOf z, dayOf z) := rfl

theorem daysOfCivil_parts (z : Int) : daysOfCivil (yearOf z) (monthOf z) (dayOf z) = z :=
  days_of_civil_of_days z

/-- `daysOfCivil` is affine in the day of the month -/
theorem daysOfCivil_day (y m d1 d2 : Int) : daysOfCivil y m d2 - daysOfCivil y m d1 = d2 - d1 := by
  unfold daysOfCivil; simp only []; omega

theorem dayOfWeek_range (z : Int) : 1 ≤ dayOfWeek z ∧ dayOfWeek z ≤ 7 := by unfold dayOfWeek; omega
theorem dayOfWeek_period (z : Int) : dayOfWeek (z + 7) = dayOfWeek z := by unfold dayOfWeek; omega
theorem dayOfWeek_succ (z : Int) : dayOfWeek (z + 1) = dayOfWeek z % 7 + 1 := by unfold dayOfWeek; omega
theorem dayOfWeek_epoch : dayOfWeek 0 = 4 := by decide

theorem dateTrunc_week (z : Int) : dayOfWeek (dateTrunc .week z) = 1 ∧ dateTrunc .week z ≤ z ∧ z - dateTrunc .week z ≤ 6 := by
  simp only [dateTrunc]; unfold dayOfWeek; omega

theorem date_add_diff_day (n z : Int) : dateDiff .day z (dateAdd .day n z) = n := by simp only [dateDiff, dateAdd]; omega
theorem date_add_diff_week (n z : Int) : dateDiff .week z (dateAdd .week n z) = n := by
  simp only [dateDiff, dateAdd]
  have : z + 7 * n - z = 7 * n := by omega
  rw [this]; exact Int.mul_tdiv_cancel_left n (by omega)
theorem date_add_zero (u : DUnit) (z : Int) (hv : validCivil (yearOf z) (monthOf z) (dayOf z)) : dateAdd u 0 z = z := by
  have key : addMonths z 0 = z := by
    unfold addMonths
    rw [civilOfDays_eq]
    simp only [Int.add_zero]
    obtain ⟨h1, h2, h3, h4⟩ := hv
    have e1 : (yearOf z * 12 + (monthOf z - 1)) / 12 = yearOf z := by omega
    have e2 : (yearOf z * 12 + (monthOf z - 1)) % 12 + 1 = monthOf z := by omega
    rw [e1, e2]
    have : min (dayOf z) (daysInMonth (yearOf z) (monthOf z)) = dayOf z := by omega
    rw [this]; exact daysOfCivil_parts z
  cases u <;> simp [dateAdd, key]

/-- every day number is a valid civil date: month 1..12, day 1..length of that month -/
theorem civilOfDays_valid (z : Int) : validCivil (yearOf z) (monthOf z) (dayOf z) := by
  have hdoe0 : 0 ≤ (z + 719468) - (z + 719468) / 146097 * 146097 := by omega
  have hdoe1 : (z + 719468) - (z + 719468) / 146097 * 146097 ≤ 146096 := by omega
  obtain ⟨hy0, hy1, hlo, hhi, hleap⟩ := yoe_int _ _ hdoe0 hdoe1 rfl
  unfold validCivil yearOf monthOf dayOf
  simp only [civilOfDays]
  generalize (z + 719468) / 146097 = era at *
  generalize hd : (z + 719468) - era * 146097 = doe at *
  generalize (doe - doe / 1460 + doe / 36524 - doe / 146096) / 365 = yoe at *
  generalize hdy : doe - (365 * yoe + yoe / 4 - yoe / 100) = doy at *
  have hmp : 0 ≤ (5 * doy + 2) / 153 ∧ (5 * doy + 2) / 153 ≤ 11 := by omega
  generalize hmpd : (5 * doy + 2) / 153 = mp at *
  have hmpc : mp = 0 ∨ mp = 1 ∨ mp = 2 ∨ mp = 3 ∨ mp = 4 ∨ mp = 5 ∨ mp = 6 ∨ mp = 7 ∨ mp = 8 ∨ mp = 9 ∨ mp = 10 ∨ mp = 11 := by omega
  unfold daysInMonth isLeap
  rcases hmpc with h | h | h | h | h | h | h | h | h | h | h | h <;> subst h <;> simp <;> (try omega)

theorem lastDayOfMonth_spec (z : Int) :
    z ≤ lastDayOfMonth z ∧ yearOf (lastDayOfMonth z) = yearOf z ∧ monthOf (lastDayOfMonth z) = monthOf z ∧
    dayOf (lastDayOfMonth z) = daysInMonth (yearOf z) (monthOf z) := by
  obtain ⟨h1, h2, h3, h4⟩ := civilOfDays_valid z
  have hdim : 28 ≤ daysInMonth (yearOf z) (monthOf z) := by unfold daysInMonth; repeat' split <;> omega
  have hv : validCivil (yearOf z) (monthOf z) (daysInMonth (yearOf z) (monthOf z)) := ⟨h1, h2, by omega, Int.le_refl _⟩
  have hrt := civil_of_days_of_civil _ _ _ hv
  unfold lastDayOfMonth
  refine ⟨?_, ?_, ?_, ?_⟩
  · have := daysOfCivil_day (yearOf z) (monthOf z) (dayOf z) (daysInMonth (yearOf z) (monthOf z))
    rw [daysOfCivil_parts] at this; omega
  · rw [show yearOf (daysOfCivil (yearOf z) (monthOf z) (daysInMonth (yearOf z) (monthOf z))) = (civilOfDays (daysOfCivil (yearOf z) (monthOf z) (daysInMonth (yearOf z) (monthOf z)))).1 from rfl, hrt]
  · rw [show monthOf (daysOfCivil (yearOf z) (monthOf z) (daysInMonth (yearOf z) (monthOf z))) = (civilOfDays (daysOfCivil (yearOf z) (monthOf z) (daysInMonth (yearOf z) (monthOf z)))).2.1 from rfl, hrt]
  · rw [show dayOf (daysOfCivil (yearOf z) (monthOf z) (daysInMonth (yearOf z) (monthOf z))) = (civilOfDays (daysOfCivil (yearOf z) (monthOf z) (daysInMonth (yearOf z) (monthOf z)))).2.2 from rfl, hrt]

theorem dateTrunc_month (z : Int) :
    dateTrunc .month z ≤ z ∧ dayOf (dateTrunc .month z) = 1 ∧ monthOf (dateTrunc .month z) = monthOf z ∧
    yearOf (dateTrunc .month z) = yearOf z ∧ dateTrunc .month (dateTrunc .month z) = dateTrunc .month z := by
  obtain ⟨h1, h2, h3, h4⟩ := civilOfDays_valid z
  have hv : validCivil (yearOf z) (monthOf z) 1 := ⟨h1, h2, by omega, by omega⟩
  have hrt := civil_of_days_of_civil _ _ _ hv
  have hy : yearOf (daysOfCivil (yearOf z) (monthOf z) 1) = yearOf z := by
    rw [show yearOf (daysOfCivil (yearOf z) (monthOf z) 1) = (civilOfDays (daysOfCivil (yearOf z) (monthOf z) 1)).1 from rfl, hrt]
  have hm : monthOf (daysOfCivil (yearOf z) (monthOf z) 1) = monthOf z := by
    rw [show monthOf (daysOfCivil (yearOf z) (monthOf z) 1) = (civilOfDays (daysOfCivil (yearOf z) (monthOf z) 1)).2.1 from rfl, hrt]
  have hd : dayOf (daysOfCivil (yearOf z) (monthOf z) 1) = 1 := by
    rw [show dayOf (daysOfCivil (yearOf z) (monthOf z) 1) = (civilOfDays (daysOfCivil (yearOf z) (monthOf z) 1)).2.2 from rfl, hrt]
  simp only [dateTrunc]
  refine ⟨?_, hd, hm, hy, by rw [hy, hm]⟩
  have := daysOfCivil_day (yearOf z) (monthOf z) 1 (dayOf z)
  rw [daysOfCivil_parts] at this; omega

end IQE.Spec.Fn
