import IQE.Engine.CacheStamp
namespace IQE.Engine.CacheStamp

theorem versions_append (p : Path) : ∀ (a b : List Op), versions p (a ++ b) = versions p a ++ versions p b := by
  intro a
  induction a with
  | nil => intro b; rfl
  | cons o a ih =>
    intro b
    cases o with
    | write q f =>
      simp only [List.cons_append, versions]
      split
      · rw [ih]; rfl
      · exact ih b
    | query q => simp only [List.cons_append, versions]; exact ih b

/-- Invariant: the file system holds only written versions, and every cache entry was derived from a written version. -/
structure Inv {σ : Type} (stamp : File → σ) (hp : List Op) (s : State σ) : Prop where
  fsOk : ∀ p f, s.fs p = some f → f ∈ versions p hp
  cacheOk : ∀ p st c, s.cache p = some (st, c) → ∃ g, g ∈ versions p hp ∧ stamp g = st ∧ g.content = c

theorem run_eq_truth {σ : Type} [DecidableEq σ] (stamp : File → σ) : ∀ (h hp : List Op) (s : State σ),
    Inv stamp hp s → Separates stamp (hp ++ h) → run stamp s h = truth s.fs h := by
  intro h
  induction h with
  | nil => intro hp s _ _; rfl
  | cons o rest ih =>
    intro hp s inv sep
    have sep' : Separates stamp ((hp ++ [o]) ++ rest) := by simpa [List.append_assoc] using sep
    cases o with
    | write q f =>
      simp only [run, truth, step]
      congr 1
      refine ih (hp ++ [Op.write q f]) _ ⟨?_, ?_⟩ sep'
      · intro p f' hf
        simp only [upd] at hf
        rw [versions_append]
        by_cases hpq : p = q
        · subst hpq
          simp only [if_true] at hf
          injection hf with hf; subst hf
          simp [versions]
        · simp only [hpq, if_false] at hf
          exact List.mem_append_left _ (inv.fsOk p f' hf)
      · intro p st c hc
        obtain ⟨g, hg, h1, h2⟩ := inv.cacheOk p st c hc
        exact ⟨g, by rw [versions_append]; exact List.mem_append_left _ hg, h1, h2⟩
    | query q =>
      have hv : ∀ p, versions p (hp ++ [Op.query q]) = versions p hp := by
        intro p; rw [versions_append]; simp [versions]
      simp only [run, truth]
      cases hfs : s.fs q with
      | none =>
        simp only [step, hfs, Option.map_none]
        congr 1
        exact ih (hp ++ [Op.query q]) s ⟨fun p f hf => by rw [hv]; exact inv.fsOk p f hf,
          fun p st c hc => by rw [hv]; exact inv.cacheOk p st c hc⟩ sep'
      | some f =>
        have hfv : f ∈ versions q hp := inv.fsOk q f hfs
        -- the state after a miss
        have inv_miss : Inv stamp (hp ++ [Op.query q]) { s with cache := upd s.cache q (stamp f, f.content) } := by
          refine ⟨fun p f' hf => by rw [hv]; exact inv.fsOk p f' hf, ?_⟩
          intro p st c hc
          rw [hv]
          simp only [upd] at hc
          by_cases hpq : p = q
          · subst hpq
            simp only [if_true] at hc
            injection hc with hc; injection hc with h1 h2
            exact ⟨f, hfv, h1, h2⟩
          · simp only [hpq, if_false] at hc
            exact inv.cacheOk p st c hc
        cases hcq : s.cache q with
        | none =>
          simp only [step, hfs, hcq, Option.map_some]
          congr 1
          exact ih _ _ inv_miss sep'
        | some e =>
          obtain ⟨st, c⟩ := e
          by_cases hst : st = stamp f
          · simp only [step, hfs, hcq, hst, if_true, Option.map_some]
            obtain ⟨g, hg, h1, h2⟩ := inv.cacheOk q st c hcq
            have hmem : ∀ x, x ∈ versions q hp → x ∈ versions q (hp ++ Op.query q :: rest) := by
              intro x hx; rw [versions_append]; exact List.mem_append_left _ hx
            have hcont : g.content = f.content := sep q g f (hmem g hg) (hmem f hfv) (by rw [h1, hst])
            have : c = f.content := by rw [← h2, hcont]
            subst this
            congr 1
            exact ih (hp ++ [Op.query q]) s ⟨fun p f' hf => by rw [hv]; exact inv.fsOk p f' hf,
              fun p st c hc => by rw [hv]; exact inv.cacheOk p st c hc⟩ sep'
          · simp only [step, hfs, hcq, hst, if_false, Option.map_some]
            congr 1
            exact ih _ _ inv_miss sep'

end IQE.Engine.CacheStamp
