/-
  IQE.Lemmas.AggHom — aggregation is a homomorphism (DESIGN §4.5).
  * `Hom`: a representation invariant `Inv s xs` ("state `s` represents the values `xs`") preserved by
    `update` and `merge`; then for EVERY chunking and EVERY merge tree the combined state represents the
    concatenation of all chunks (`Hom.tree`).  The side condition `Ok` (typing, no overflow, float exactness)
    only has to be monotone under taking parts.
  * the pieces every accumulator is made of, each additive over `++`:
    counting, exact integer sums, first-wins extrema under a strict weak order (`extBy`),
    insertion-ordered duplicate-free sets (`setInsert` = `Spec.dedupVals`), and float sums that are
    exact on the data at hand (`FloatExact`: an explicit hypothesis on the `FloatOps` instance).
  Core only.
-/
import IQE.Lemmas.Bag
import IQE.Engine.Acc
namespace IQE.AggHom
open IQE IQE.Spec IQE.Engine.Acc List

/-! ### the generic theorem -/

structure Hom {σ : Type} (A : Alg σ) (Ok : List Val → Prop) (Inv : σ → List Val → Prop) : Prop where
  ok_left : ∀ xs ys, Ok (xs ++ ys) → Ok xs
  ok_right : ∀ xs ys, Ok (xs ++ ys) → Ok ys
  init : Inv A.init []
  update : ∀ s xs v, Ok (xs ++ [v]) → Inv s xs → Inv (A.update s v) (xs ++ [v])
  merge : ∀ s t xs ys, Ok (xs ++ ys) → Inv s xs → Inv t ys → Inv (A.merge s t) (xs ++ ys)

namespace Hom
variable {σ : Type} {A : Alg σ} {Ok : List Val → Prop} {Inv : σ → List Val → Prop}

theorem foldl_from (h : Hom A Ok Inv) (xs : List Val) : ∀ (s : σ) (pre : List Val),
    Inv s pre → Ok (pre ++ xs) → Inv (xs.foldl A.update s) (pre ++ xs) := by
  induction xs with
  | nil => intro s pre hi _; simpa using hi
  | cons v xs ih =>
    intro s pre hi hok
    have hok' : Ok ((pre ++ [v]) ++ xs) := by simpa using hok
    have := ih (A.update s v) (pre ++ [v]) (h.update s pre v (h.ok_left _ _ hok') hi) hok'
    simpa using this

/-- one chunk, folded sequentially, represents itself -/
theorem fold (h : Hom A Ok Inv) (xs : List Val) (hok : Ok xs) : Inv (A.fold xs) xs := by
  have := h.foldl_from xs A.init [] h.init (by simpa using hok)
  simpa [Alg.fold] using this

/-- **every chunking, every merge tree** -/
theorem tree (h : Hom A Ok Inv) (t : MTree (List Val)) (hok : Ok t.leaves.flatten) :
    Inv (A.evalTree (t.map A.fold)) t.leaves.flatten := by
  induction t with
  | empty => simpa [MTree.map, Alg.evalTree, MTree.leaves] using h.init
  | leaf xs => simpa [MTree.map, Alg.evalTree, MTree.leaves] using h.fold xs (by simpa [MTree.leaves] using hok)
  | node l r ihl ihr =>
    have hok' : Ok (l.leaves.flatten ++ r.leaves.flatten) := by simpa [MTree.leaves] using hok
    have := h.merge _ _ _ _ hok' (ihl (h.ok_left _ _ hok')) (ihr (h.ok_right _ _ hok'))
    simpa [MTree.map, Alg.evalTree, MTree.leaves] using this

end Hom

theorem MTree.leaves_comb {α} (l : List α) : (MTree.comb l).leaves = l := by
  cases l with
  | nil => rfl
  | cons a as =>
    simp only [MTree.comb]
    have : ∀ (t : MTree α), (as.foldl (fun t x => MTree.node t (MTree.leaf x)) t).leaves = t.leaves ++ as := by
      induction as with
      | nil => intro t; simp
      | cons b bs ih => intro t; simp [ih, MTree.leaves]
    simpa [MTree.leaves] using this (MTree.leaf a)

/-! ### counting -/

def nn (xs : List Val) : List Val := xs.filter fun v => !v.isNull

theorem nn_append (xs ys : List Val) : nn (xs ++ ys) = nn xs ++ nn ys := by simp [nn]

def cnt (xs : List Val) : Nat := (nn xs).length
theorem cnt_append (xs ys : List Val) : cnt (xs ++ ys) = cnt xs + cnt ys := by simp [cnt, nn_append]
theorem cnt_snoc (xs : List Val) (v : Val) : cnt (xs ++ [v]) = cnt xs + (if v.isNull then 0 else 1) := by
  rw [cnt_append]; cases h : v.isNull <;> simp [cnt, nn, h]

/-! ### exact integer sums -/

def ival : Val → Int | .int i => i | _ => 0
def isum : List Val → Int
  | [] => 0
  | v :: vs => ival v + isum vs
theorem isum_append (xs ys : List Val) : isum (xs ++ ys) = isum xs + isum ys := by
  induction xs with
  | nil => simp [isum]
  | cons v vs ih => simp [isum, ih]; omega
theorem isum_perm {xs ys : List Val} (h : xs ~ ys) : isum xs = isum ys := by
  induction h with
  | nil => rfl
  | cons _ _ ih => simp [isum, ih]
  | swap a b l => simp [isum]; omega
  | trans _ _ ih1 ih2 => exact ih1.trans ih2

/-- Σ |i|: bounds every partial sum of every sub-multiset -/
def iwt : List Val → Nat
  | [] => 0
  | v :: vs => (ival v).natAbs + iwt vs
theorem iwt_append (xs ys : List Val) : iwt (xs ++ ys) = iwt xs + iwt ys := by
  induction xs with
  | nil => simp [iwt]
  | cons v vs ih => simp [iwt, ih]; omega
theorem isum_le_iwt (xs : List Val) : (isum xs).natAbs ≤ iwt xs := by
  induction xs with
  | nil => simp [isum, iwt]
  | cons v vs ih => simp only [isum, iwt]; omega
theorem iwt_filter_le (p : Val → Bool) (xs : List Val) : iwt (xs.filter p) ≤ iwt xs := by
  induction xs with
  | nil => simp
  | cons v vs ih => by_cases h : p v <;> simp [h, iwt] <;> omega

/-! ### first-wins extrema under a strict weak order -/

section ext
variable {α : Type}

/-- the new value replaces the current one iff it is strictly better -/
def pick (better : α → α → Bool) (cur new : α) : α := if better new cur then new else cur

def extBy (better : α → α → Bool) (xs : List α) : Option α := xs.foldl (optUpd (pick better)) none

/-- `better` behaves like the strict part of a total preorder on the members of `l` -/
structure WeakOn (better : α → α → Bool) (l : List α) : Prop where
  irrefl : ∀ a, a ∈ l → better a a = false
  trans : ∀ a b c, a ∈ l → b ∈ l → c ∈ l → better c b = true → better b a = true → better c a = true
  ntrans : ∀ a b c, a ∈ l → b ∈ l → c ∈ l → better c b = false → better b a = false → better c a = false

theorem WeakOn.mono {better : α → α → Bool} {l l' : List α} (h : WeakOn better l) (hs : ∀ a ∈ l', a ∈ l) :
    WeakOn better l' :=
  ⟨fun a ha => h.irrefl a (hs a ha),
   fun a b c ha hb hc => h.trans a b c (hs a ha) (hs b hb) (hs c hc),
   fun a b c ha hb hc => h.ntrans a b c (hs a ha) (hs b hb) (hs c hc)⟩

theorem pick_assoc {better : α → α → Bool} {l : List α} (h : WeakOn better l) (a b c : α)
    (ha : a ∈ l) (hb : b ∈ l) (hc : c ∈ l) :
    pick better (pick better a b) c = pick better a (pick better b c) := by
  unfold pick
  cases hba : better b a <;> cases hcb : better c b
  · have := h.ntrans a b c ha hb hc hcb hba
    simp [hba, hcb, this]
  · simp [hba, hcb]
  · simp [hba, hcb]
  · have := h.trans a b c ha hb hc hcb hba
    simp [hba, hcb, this]

theorem foldl_optUpd_mem (better : α → α → Bool) (xs : List α) : ∀ (c : Option α) (a : α),
    xs.foldl (optUpd (pick better)) c = some a → (c = some a ∨ a ∈ xs) := by
  induction xs with
  | nil => intro c a h; exact .inl h
  | cons x xs ih =>
    intro c a h
    rcases ih _ a h with h' | h'
    · cases c with
      | none => simp [optUpd] at h'; exact .inr (by simp [h'])
      | some m =>
        simp only [optUpd, pick, Option.some.injEq] at h'
        split at h'
        · exact .inr (by simp [← h'])
        · exact .inl (by rw [h'])
    · exact .inr (by simp [h'])

theorem extBy_mem (better : α → α → Bool) (xs : List α) (a : α) (h : extBy better xs = some a) : a ∈ xs := by
  rcases foldl_optUpd_mem better xs none a h with h' | h'
  · cases h'
  · exact h'

theorem foldl_optUpd_none_iff (better : α → α → Bool) (xs : List α) :
    extBy better xs = none ↔ xs = [] := by
  constructor
  · intro h
    cases xs with
    | nil => rfl
    | cons x xs =>
      exfalso
      simp only [extBy, foldl_cons, optUpd] at h
      have : ∀ (ys : List α) (m : α), ys.foldl (optUpd (pick better)) (some m) ≠ none := by
        intro ys; induction ys with
        | nil => intro m; simp
        | cons y ys ih => intro m; simp only [foldl_cons, optUpd]; exact ih _
      exact this xs x h
  · rintro rfl; rfl

/-- continuing a fold from a current extremum = merging with the extremum of the rest -/
theorem foldl_optUpd_eq {better : α → α → Bool} {l : List α} (h : WeakOn better l) (ys : List α)
    (hys : ∀ y ∈ ys, y ∈ l) : ∀ (c : Option α), (∀ a, c = some a → a ∈ l) →
    ys.foldl (optUpd (pick better)) c = optMerge (pick better) c (extBy better ys) := by
  induction ys with
  | nil => intro c _; cases c <;> rfl
  | cons y ys ih =>
    intro c hc
    have hy : y ∈ l := hys y (by simp)
    have hys' : ∀ z ∈ ys, z ∈ l := fun z hz => hys z (by simp [hz])
    simp only [foldl_cons, extBy]
    rw [ih hys' (optUpd (pick better) c y) (by
          intro a ha
          cases c with
          | none => simp [optUpd] at ha; exact ha ▸ hy
          | some m =>
            simp only [optUpd, pick, Option.some.injEq] at ha
            split at ha
            · exact ha ▸ hy
            · exact ha ▸ hc m rfl)]
    rw [show optUpd (pick better) none y = some y from rfl]
    rw [ih hys' (some y) (by intro a ha; cases ha; exact hy)]
    -- optMerge (optUpd c y) R = optMerge c (optMerge (some y) R)
    cases hR : extBy better ys with
    | none => cases c <;> simp [optMerge, optUpd, extBy] <;> rfl
    | some r =>
      have hr : r ∈ l := hys' r (extBy_mem better ys r hR)
      cases c with
      | none => simp [optMerge, optUpd]
      | some m =>
        simp only [optMerge, optUpd]
        rw [pick_assoc h m y r (hc m rfl) hy hr]

/-- **extrema are additive** -/
theorem extBy_append {better : α → α → Bool} {xs ys : List α} (h : WeakOn better (xs ++ ys)) :
    extBy better (xs ++ ys) = optMerge (pick better) (extBy better xs) (extBy better ys) := by
  simp only [extBy, foldl_append]
  exact foldl_optUpd_eq h ys (fun y hy => by simp [hy]) _
    (fun a ha => by have := extBy_mem better xs a ha; simp [this])

theorem extBy_snoc {better : α → α → Bool} (xs : List α) (v : α) :
    extBy better (xs ++ [v]) = optUpd (pick better) (extBy better xs) v := by
  simp [extBy, foldl_append]

theorem extBy_congr {b₁ b₂ : α → α → Bool} (xs : List α) (h : ∀ a ∈ xs, ∀ b ∈ xs, b₁ a b = b₂ a b) :
    extBy b₁ xs = extBy b₂ xs := by
  -- generalise the start value, which is always a member
  have : ∀ (ys : List α) (c : Option α), (∀ y ∈ ys, y ∈ xs) → (∀ a, c = some a → a ∈ xs) →
      ys.foldl (optUpd (pick b₁)) c = ys.foldl (optUpd (pick b₂)) c := by
    intro ys
    induction ys with
    | nil => intros; rfl
    | cons y ys ih =>
      intro c hys hc
      have hy : y ∈ xs := hys y (by simp)
      simp only [foldl_cons]
      have e : optUpd (pick b₁) c y = optUpd (pick b₂) c y := by
        cases c with
        | none => rfl
        | some m => simp only [optUpd, pick, h y hy m (hc m rfl)]
      rw [e]
      apply ih _ (fun z hz => hys z (by simp [hz]))
      intro a ha
      cases c with
      | none => simp [optUpd] at ha; exact ha ▸ hy
      | some m =>
        simp only [optUpd, pick, Option.some.injEq] at ha
        split at ha
        · exact ha ▸ hy
        · exact ha ▸ hc m rfl
  exact this xs none (fun _ h => h) (by intro a h; cases h)

/-- the extremum does not depend on the order of the values when `better`-ties are equalities -/
theorem extBy_perm {better : α → α → Bool} {xs ys : List α} (hp : xs ~ ys) (h : WeakOn better xs)
    (tie : ∀ a ∈ xs, ∀ b ∈ xs, better a b = false → better b a = false → a = b) :
    extBy better xs = extBy better ys := by
  induction hp with
  | nil => rfl
  | @cons x l₁ l₂ hp ih =>
    have hw : WeakOn better l₁ := h.mono (fun a ha => by simp [ha])
    have ih' := ih hw (fun a ha b hb => tie a (by simp [ha]) b (by simp [hb]))
    have e1 := extBy_append (better := better) (xs := [x]) (ys := l₁) (by simpa using h)
    have h2 : WeakOn better (x :: l₂) := h.mono (fun a ha => by
      rcases mem_cons.mp ha with rfl | ha
      · simp
      · simp [hp.mem_iff.mpr ha])
    have e2 := extBy_append (better := better) (xs := [x]) (ys := l₂) (by simpa using h2)
    simp only [singleton_append] at e1 e2
    rw [e1, e2, ih']
  | swap a b l =>
    have e1 := extBy_append (better := better) (xs := [b, a]) (ys := l) (by simpa using h)
    have h2 : WeakOn better (a :: b :: l) := h.mono (fun c hc => by
      simp only [mem_cons] at hc ⊢; rcases hc with rfl | rfl | hc <;> simp_all)
    have e2 := extBy_append (better := better) (xs := [a, b]) (ys := l) (by simpa using h2)
    simp only [cons_append, nil_append] at e1 e2
    rw [e1, e2]
    congr 1
    simp only [extBy, foldl_cons, foldl_nil, optUpd, pick]
    cases hab : better a b <;> cases hba : better b a <;> simp
    · exact (tie a (by simp) b (by simp) hab hba).symm
    · -- both strictly better than each other: impossible
      have := h.trans a b a (by simp) (by simp) (by simp) hab hba
      rw [h.irrefl a (by simp)] at this; cases this
  | trans hp₁ hp₂ ih₁ ih₂ =>
    rename_i l₁ l₂ l₃
    have h2 : WeakOn better l₂ := h.mono (fun a ha => hp₁.mem_iff.mpr ha)
    exact (ih₁ h tie).trans (ih₂ h2 (fun a ha b hb => tie a (hp₁.mem_iff.mpr ha) b (hp₁.mem_iff.mpr hb)))

end ext

/-! ### insertion-ordered sets = first-occurrence duplicate elimination -/

theorem foldl_setInsert (l : List Val) : ∀ A : List Val,
    l.foldl setInsert A = A ++ (Bag.dedup l).filter (fun y => !A.contains y) := by
  induction l with
  | nil => intro A; simp [Bag.dedup]
  | cons v l ih =>
    intro A
    simp only [foldl_cons, Bag.dedup]
    by_cases hv : A.contains v = true
    · have hvA : v ∈ A := by simpa using hv
      rw [show setInsert A v = A from by simp [setInsert, hvA], ih A]
      congr 1
      simp only [filter_cons, hv, Bool.not_true, Bool.false_eq_true, if_false, filter_filter]
      apply filter_congr
      intro y _
      by_cases hy : y = v
      · subst hy; simp [hvA]
      · simp [hy]
    · have hvA : v ∉ A := by simpa using hv
      rw [show setInsert A v = A ++ [v] from by simp [setInsert, hvA], ih (A ++ [v])]
      simp only [append_assoc, singleton_append, filter_cons, filter_filter]
      simp only [Bool.not_eq_true] at hv
      simp only [hv, Bool.not_false, if_true]
      congr 2
      apply filter_congr
      intro y _
      by_cases hy : y = v
      · subst hy; simp
      · simp [hy, contains_append]

theorem foldl_setInsert_nil (l : List Val) : l.foldl setInsert [] = Bag.dedup l := by
  rw [foldl_setInsert]; simp

theorem dedup_of_nodup {α} [DecidableEq α] (l : List α) (h : l.Nodup) : Bag.dedup l = l := by
  induction l with
  | nil => rfl
  | cons x xs ih =>
    have hx := nodup_cons.mp h
    simp only [Bag.dedup, ih hx.2]
    congr 1
    rw [filter_eq_self]
    intro y hy
    simp only [ne_eq, decide_not, Bool.not_eq_eq_eq_not, Bool.not_true, decide_eq_false_iff_not]
    exact fun e => hx.1 (e ▸ hy)

/-- `setUnion` of two first-occurrence sets is the first-occurrence set of the concatenation -/
theorem setUnion_dedup (xs ys : List Val) :
    setUnion (Bag.dedup xs) (Bag.dedup ys) = Bag.dedup (xs ++ ys) := by
  unfold setUnion
  rw [foldl_setInsert, dedup_of_nodup _ (Bag.nodup_dedup ys)]
  rw [← foldl_setInsert_nil (xs ++ ys), foldl_append, foldl_setInsert_nil, foldl_setInsert]

/-! ### float sums that are exact on the data at hand -/

/-- The explicit hypothesis on the `FloatOps` instance under which float sums are order- and
    association-independent: an exact integer reading `φ` (value in units of `2^-k`, say) of the "exact"
    floats such that `add` is exact as long as the magnitudes stay within the bound `B`.
    IEEE doubles satisfy it for dyadic data (`exact x` = x is an integer multiple of `2^-k`, not `-0.0`,
    `|x|·2^k ≤ 2^53`, `B = 2^53`); it is NOT asked of arbitrary doubles. -/
structure FloatExact (fo : FloatOps) where
  φ : F64 → Int
  exact : F64 → Prop
  B : Nat
  scale : Int
  inj : ∀ a b, exact a → exact b → φ a = φ b → a = b
  zero : exact F64.posZero ∧ φ F64.posZero = 0
  add : ∀ a b, exact a → exact b → (φ a).natAbs + (φ b).natAbs ≤ B →
    exact (fo.add a b) ∧ φ (fo.add a b) = φ a + φ b
  ofInt : ∀ i : Int, (i * scale).natAbs ≤ B → exact (fo.ofInt i) ∧ φ (fo.ofInt i) = i * scale
  /-- exact values are ordinary numbers: not NaN, not `-0.0` (so IEEE `<` and the total order agree on them) -/
  ord : ∀ a, exact a → a.isNaN = false ∧ a ≠ F64.negZero

section float
variable {fo : FloatOps} (E : FloatExact fo)

/-- exact reading of what a value contributes to a float sum -/
def fterm (v : Val) : Int :=
  match v with | .f64 x => E.φ x | .int i => i * E.scale | _ => 0
def fsum : List Val → Int
  | [] => 0
  | v :: vs => fterm E v + fsum vs
def fwt : List Val → Nat
  | [] => 0
  | v :: vs => (fterm E v).natAbs + fwt vs

theorem fsum_append (xs ys : List Val) : fsum E (xs ++ ys) = fsum E xs + fsum E ys := by
  induction xs with
  | nil => simp [fsum]
  | cons v vs ih => simp [fsum, ih]; omega
theorem fwt_append (xs ys : List Val) : fwt E (xs ++ ys) = fwt E xs + fwt E ys := by
  induction xs with
  | nil => simp [fwt]
  | cons v vs ih => simp [fwt, ih]; omega
theorem fsum_le_fwt (xs : List Val) : (fsum E xs).natAbs ≤ fwt E xs := by
  induction xs with
  | nil => simp [fsum, fwt]
  | cons v vs ih => simp only [fsum, fwt]; omega
theorem fwt_filter_le (p : Val → Bool) (xs : List Val) : fwt E (xs.filter p) ≤ fwt E xs := by
  induction xs with
  | nil => simp
  | cons v vs ih => by_cases h : p v <;> simp [h, fwt] <;> omega
theorem fterm_le_fwt (xs : List Val) (v : Val) (h : v ∈ xs) : (fterm E v).natAbs ≤ fwt E xs := by
  induction xs with
  | nil => cases h
  | cons w ws ih =>
    rcases mem_cons.mp h with rfl | h'
    · simp only [fwt]; omega
    · have := ih h'; simp only [fwt]; omega
theorem fsum_perm {xs ys : List Val} (h : xs ~ ys) : fsum E xs = fsum E ys := by
  induction h with
  | nil => rfl
  | cons _ _ ih => simp [fsum, ih]
  | swap a b l => simp [fsum]; omega
  | trans _ _ ih1 ih2 => exact ih1.trans ih2
theorem fwt_perm {xs ys : List Val} (h : xs ~ ys) : fwt E xs = fwt E ys := by
  induction h with
  | nil => rfl
  | cons _ _ ih => simp [fwt, ih]
  | swap a b l => simp [fwt]; omega
  | trans _ _ ih1 ih2 => exact ih1.trans ih2

/-- the data are exact floats (or integers) whose total magnitude stays within the bound -/
structure FOk (xs : List Val) : Prop where
  exact : ∀ x, Val.f64 x ∈ xs → E.exact x
  bound : fwt E xs ≤ E.B

theorem FOk.left {xs ys : List Val} (h : FOk E (xs ++ ys)) : FOk E xs :=
  ⟨fun x hx => h.exact x (by simp [hx]), by have := h.bound; rw [fwt_append] at this; omega⟩
theorem FOk.right {xs ys : List Val} (h : FOk E (xs ++ ys)) : FOk E ys :=
  ⟨fun x hx => h.exact x (by simp [hx]), by have := h.bound; rw [fwt_append] at this; omega⟩
theorem FOk.filter {xs : List Val} (h : FOk E xs) (p : Val → Bool) : FOk E (xs.filter p) :=
  ⟨fun x hx => h.exact x (mem_filter.mp hx).1, Nat.le_trans (fwt_filter_le E p xs) h.bound⟩
theorem FOk.perm {xs ys : List Val} (h : FOk E xs) (hp : xs ~ ys) : FOk E ys :=
  ⟨fun x hx => h.exact x (hp.mem_iff.mpr hx), by rw [← fwt_perm E hp]; exact h.bound⟩

/-- the float `f` is the exact sum of the numeric values of `xs` -/
def FRep (f : F64) (xs : List Val) : Prop := E.exact f ∧ E.φ f = fsum E xs

theorem FRep.nil : FRep E F64.posZero [] := ⟨E.zero.1, by simp [fsum, E.zero.2]⟩

theorem asF64_exact {xs : List Val} (h : FOk E xs) (v : Val) (hv : v ∈ xs) (x : F64)
    (hx : asF64 fo v = some x) : E.exact x ∧ E.φ x = fterm E v := by
  cases v with
  | f64 y => simp [asF64] at hx; subst hx; exact ⟨h.exact y hv, rfl⟩
  | int i =>
    simp [asF64] at hx; subst hx
    have hb : (i * E.scale).natAbs ≤ E.B := by
      have := fterm_le_fwt E xs (.int i) hv
      simp only [fterm] at this
      exact Nat.le_trans this h.bound
    exact E.ofInt i hb
  | null => simp [asF64] at hx
  | bool b => simp [asF64] at hx
  | str s => simp [asF64] at hx
  | date d => simp [asF64] at hx

theorem asF64_none_fterm (v : Val) (h : asF64 fo v = none) : fterm E v = 0 := by
  cases v <;> simp_all [asF64, fterm]

theorem FRep.merge {f g : F64} {xs ys : List Val} (hok : FOk E (xs ++ ys)) (hf : FRep E f xs) (hg : FRep E g ys) :
    FRep E (fo.add f g) (xs ++ ys) := by
  have hb := hok.bound
  rw [fwt_append] at hb
  have h1 := fsum_le_fwt E xs
  have h2 := fsum_le_fwt E ys
  have := E.add f g hf.1 hg.1 (by rw [hf.2, hg.2]; omega)
  exact ⟨this.1, by rw [this.2, hf.2, hg.2, fsum_append]⟩

theorem FRep.snoc {f : F64} {xs : List Val} {v : Val} (hok : FOk E (xs ++ [v])) (hf : FRep E f xs) (x : F64)
    (hx : asF64 fo v = some x) : FRep E (fo.add f x) (xs ++ [v]) := by
  have hv := asF64_exact E hok v (by simp) x hx
  have : FRep E x [v] := ⟨hv.1, by simp [fsum, hv.2]⟩
  exact FRep.merge E hok hf this

theorem FRep.skip {f : F64} {xs : List Val} {v : Val} (hf : FRep E f xs) (hx : asF64 fo v = none) :
    FRep E f (xs ++ [v]) :=
  ⟨hf.1, by rw [hf.2, fsum_append]; simp [fsum, asF64_none_fterm E v hx]⟩

theorem FRep.unique {f g : F64} {xs : List Val} (hf : FRep E f xs) (hg : FRep E g xs) : f = g :=
  E.inj f g hf.1 hg.1 (by rw [hf.2, hg.2])

theorem FRep.perm {f : F64} {xs ys : List Val} (hf : FRep E f xs) (hp : xs ~ ys) : FRep E f ys :=
  ⟨hf.1, by rw [hf.2, fsum_perm E hp]⟩

/-- the exact sum of an integer column, read as a float, is `ofInt` of the integer sum -/
theorem FRep.ofInt_isum {xs : List Val} (hok : FOk E xs) (hint : ∀ v ∈ xs, v = .null ∨ ∃ i, v = .int i) :
    FRep E (fo.ofInt (isum xs)) xs := by
  have e : fsum E xs = isum xs * E.scale := by
    clear hok
    induction xs with
    | nil => simp [fsum, isum]
    | cons v vs ih =>
      have := ih (fun w hw => hint w (by simp [hw]))
      rcases hint v (by simp) with rfl | ⟨i, rfl⟩
      · simp [fsum, isum, fterm, ival, this]
      · simp only [fsum, isum, fterm, ival, this]; rw [Int.add_mul]
  have hb : (isum xs * E.scale).natAbs ≤ E.B := by
    rw [← e]; exact Nat.le_trans (fsum_le_fwt E xs) hok.bound
  have := E.ofInt (isum xs) hb
  exact ⟨this.1, by rw [this.2, e]⟩

end float

/-! ### typed columns -/

/-- every value of the column is NULL or of type `ty` -/
def ColTy (ty : Ty) (xs : List Val) : Prop := ∀ v ∈ xs, v = .null ∨ v.tyOf = some ty

theorem ColTy.left {ty} {xs ys : List Val} (h : ColTy ty (xs ++ ys)) : ColTy ty xs := fun v hv => h v (by simp [hv])
theorem ColTy.right {ty} {xs ys : List Val} (h : ColTy ty (xs ++ ys)) : ColTy ty ys := fun v hv => h v (by simp [hv])

theorem colTy_int {xs : List Val} (h : ColTy .int xs) : ∀ v ∈ xs, v = .null ∨ ∃ i, v = .int i := by
  intro v hv
  rcases h v hv with h' | h'
  · exact .inl h'
  · cases v <;> simp [Val.tyOf] at h'; exact .inr ⟨_, rfl⟩
theorem colTy_f64 {xs : List Val} (h : ColTy .f64 xs) : ∀ v ∈ xs, v = .null ∨ ∃ x, v = .f64 x := by
  intro v hv
  rcases h v hv with h' | h'
  · exact .inl h'
  · cases v <;> simp [Val.tyOf] at h'; exact .inr ⟨_, rfl⟩
theorem colTy_str {xs : List Val} (h : ColTy .str xs) : ∀ v ∈ xs, v = .null ∨ ∃ x, v = .str x := by
  intro v hv
  rcases h v hv with h' | h'
  · exact .inl h'
  · cases v <;> simp [Val.tyOf] at h'; exact .inr ⟨_, rfl⟩
theorem colTy_date {xs : List Val} (h : ColTy .date xs) : ∀ v ∈ xs, v = .null ∨ ∃ x, v = .date x := by
  intro v hv
  rcases h v hv with h' | h'
  · exact .inl h'
  · cases v <;> simp [Val.tyOf] at h'; exact .inr ⟨_, rfl⟩

/-! ### order facts: Int, String (any `TransCmp`), and ordinary floats -/

theorem weakOn_int_lt (l : List Int) : WeakOn (fun a b : Int => decide (a < b)) l :=
  ⟨fun a _ => by simp, fun a b c _ _ _ h1 h2 => by simp at *; omega, fun a b c _ _ _ h1 h2 => by simp at *; omega⟩
theorem weakOn_int_gt (l : List Int) : WeakOn (fun a b : Int => decide (b < a)) l :=
  ⟨fun a _ => by simp, fun a b c _ _ _ h1 h2 => by simp at *; omega, fun a b c _ _ _ h1 h2 => by simp at *; omega⟩

section cmp
open Std
variable {κ : Type} (cmp : κ → κ → Ordering) [TransCmp cmp]

theorem not_lt_iff_isLE_swap (a b : κ) : (cmp a b == .lt) = false ↔ (cmp b a).isLE = true := by
  rw [OrientedCmp.eq_swap (cmp := cmp) (a := b) (b := a)]
  cases cmp a b <;> simp [Ordering.swap, Ordering.isLE]

theorem weakOn_cmp_lt (l : List κ) : WeakOn (fun a b => cmp a b == .lt) l := by
  refine ⟨fun a _ => ?_, fun a b c _ _ _ h1 h2 => ?_, fun a b c _ _ _ h1 h2 => ?_⟩
  · simp [ReflCmp.compare_self]
  · simp only [beq_iff_eq] at *; exact TransCmp.lt_trans h1 h2
  · rw [not_lt_iff_isLE_swap] at *
    exact TransCmp.isLE_trans h2 h1

theorem gt_eq_lt_swap (a b : κ) : (cmp a b == .gt) = (cmp b a == .lt) := by
  rw [OrientedCmp.eq_swap (cmp := cmp) (a := b) (b := a)]
  cases cmp a b <;> simp [Ordering.swap]

theorem weakOn_cmp_gt (l : List κ) : WeakOn (fun a b => cmp a b == .gt) l := by
  have h := weakOn_cmp_lt cmp l
  refine ⟨fun a ha => ?_, fun a b c ha hb hc h1 h2 => ?_, fun a b c ha hb hc h1 h2 => ?_⟩
  · simp [ReflCmp.compare_self]
  · simp only [gt_eq_lt_swap] at *
    exact h.trans c b a hc hb ha h2 h1
  · simp only [gt_eq_lt_swap] at *
    exact h.ntrans c b a hc hb ha h2 h1

/-- for a lawful comparator ties are equalities -/
theorem tie_eq [LawfulEqCmp cmp] (a b : κ) (h1 : (cmp a b == .lt) = false) (h2 : (cmp b a == .lt) = false) : a = b := by
  apply LawfulEqCmp.eq_of_compare (cmp := cmp)
  rw [OrientedCmp.eq_swap (cmp := cmp) (a := b) (b := a)] at h2
  cases h : cmp a b <;> simp_all [Ordering.swap]
end cmp

namespace F64
open IQE.F64

/-- an ordinary number: not NaN and not `-0.0` -/
def ordinary (x : F64) : Prop := x.isNaN = false ∧ x ≠ F64.negZero

theorem toNat_lt (x : F64) : x.bits.toNat < 2 ^ 64 := x.bits.toNat_lt

theorem sign_mag_pos (x : F64) (h : x ≠ F64.negZero) (hs : x.signBit = true) : 1 ≤ x.mag := by
  apply Classical.byContradiction
  intro hm
  apply h
  have h0 : x.mag = 0 := by omega
  have hlt := toNat_lt x
  simp only [F64.signBit, decide_eq_true_eq] at hs
  simp only [F64.mag] at h0
  have : x.bits.toNat = 2 ^ 63 := by omega
  have hb : x.bits = 0x8000000000000000 := by
    apply UInt64.toNat_inj.mp
    rw [this]; rfl
  cases x
  simp only [F64.negZero]
  simp at hb
  rw [hb]

theorem totalKey_inj (a b : F64) (h : a.totalKey = b.totalKey) : a = b := by
  have ha := toNat_lt a
  have hb := toNat_lt b
  simp only [F64.totalKey, F64.signBit, F64.mag] at h
  have : a.bits.toNat = b.bits.toNat := by
    by_cases h1 : a.bits.toNat ≥ 2 ^ 63 <;> by_cases h2 : b.bits.toNat ≥ 2 ^ 63 <;>
      simp only [h1, h2, decide_true, decide_false, if_true, if_false, Bool.false_eq_true] at h <;> omega
  have := UInt64.toNat_inj.mp this
  cases a; cases b; simp_all

theorem lt_eq_totalLt (a b : F64) (ha : ordinary a) (hb : ordinary b) :
    F64.lt a b = decide (a.totalKey < b.totalKey) := by
  have pa := fun hs => sign_mag_pos a ha.2 hs
  have pb := fun hs => sign_mag_pos b hb.2 hs
  simp only [F64.lt, ha.1, hb.1, Bool.not_false, Bool.true_and, F64.ieeeKey, F64.totalKey]
  apply decide_eq_decide.mpr
  by_cases hsa : a.signBit = true <;> by_cases hsb : b.signBit = true
  · have := pa hsa; have := pb hsb; rw [if_pos hsa, if_pos hsb, if_pos hsa, if_pos hsb]; omega
  · have := pa hsa; rw [if_pos hsa, if_neg hsb, if_pos hsa, if_neg hsb]; omega
  · have := pb hsb; rw [if_neg hsa, if_pos hsb, if_neg hsa, if_pos hsb]; omega
  · rw [if_neg hsa, if_neg hsb, if_neg hsa, if_neg hsb]

theorem totalCmp_lt (a b : F64) : (F64.totalCmp a b == .lt) = decide (a.totalKey < b.totalKey) := by
  simp only [F64.totalCmp]
  by_cases h : a.totalKey < b.totalKey
  · simp [Int.compare_eq_lt.mpr h, h]
  · have : compare a.totalKey b.totalKey ≠ .lt := fun e => h (Int.compare_eq_lt.mp e)
    simp [h, this]

theorem totalCmp_gt (a b : F64) : (F64.totalCmp a b == .gt) = decide (b.totalKey < a.totalKey) := by
  simp only [F64.totalCmp]
  by_cases h : b.totalKey < a.totalKey
  · simp [Int.compare_eq_gt.mpr h, h]
  · have : compare a.totalKey b.totalKey ≠ .gt := fun e => h (Int.compare_eq_gt.mp e)
    simp [h, this]

theorem weakOn_lt (l : List F64) (h : ∀ x ∈ l, ordinary x) : WeakOn F64.lt l := by
  refine ⟨fun a ha => ?_, fun a b c ha hb hc h1 h2 => ?_, fun a b c ha hb hc h1 h2 => ?_⟩
  · rw [lt_eq_totalLt a a (h a ha) (h a ha)]; simp
  · rw [lt_eq_totalLt _ _ (h _ hc) (h _ hb)] at h1
    rw [lt_eq_totalLt _ _ (h _ hb) (h _ ha)] at h2
    rw [lt_eq_totalLt _ _ (h _ hc) (h _ ha)]
    simp at *; omega
  · rw [lt_eq_totalLt _ _ (h _ hc) (h _ hb)] at h1
    rw [lt_eq_totalLt _ _ (h _ hb) (h _ ha)] at h2
    rw [lt_eq_totalLt _ _ (h _ hc) (h _ ha)]
    simp at *; omega

theorem weakOn_gt (l : List F64) (h : ∀ x ∈ l, ordinary x) : WeakOn (fun a b => F64.lt b a) l := by
  have w := weakOn_lt l h
  exact ⟨fun a ha => w.irrefl a ha, fun a b c ha hb hc h1 h2 => w.trans c b a hc hb ha h2 h1,
    fun a b c ha hb hc h1 h2 => w.ntrans c b a hc hb ha h2 h1⟩

theorem tie_eq (a b : F64) (ha : ordinary a) (hb : ordinary b) (h1 : F64.lt a b = false) (h2 : F64.lt b a = false) :
    a = b := by
  rw [lt_eq_totalLt _ _ ha hb] at h1
  rw [lt_eq_totalLt _ _ hb ha] at h2
  apply totalKey_inj
  simp at *; omega

end F64

/-! ### the specification side: `Spec.sumVals` / `Spec.extremum` over typed value lists -/

theorem i64Max_eq : Val.i64Max = 9223372036854775807 := by decide
theorem i64Min_eq : Val.i64Min = -9223372036854775808 := by decide

theorem foldlM_add_int (fo : FloatOps) (vs : List Val) (hint : ∀ v ∈ vs, ∃ i, v = .int i) : ∀ acc : Int,
    ((acc.natAbs + iwt vs : Nat) : Int) ≤ Val.i64Max →
    vs.foldlM (fun a x => Val.arith fo .add a x) (.int acc) = .ok (.int (acc + isum vs)) := by
  induction vs with
  | nil => intro acc _; simp [isum, pure, Except.pure]
  | cons v vs ih =>
    intro acc hb
    obtain ⟨i, rfl⟩ := hint v (by simp)
    simp only [iwt, ival] at hb
    have hin : Val.inI64 (acc + i) = true := by
      simp only [Val.inI64, i64Max_eq, i64Min_eq, Bool.and_eq_true, decide_eq_true_eq]
      rw [i64Max_eq] at hb
      omega
    rw [List.foldlM_cons]
    have step : Val.arith fo .add (.int acc) (.int i) = .ok (.int (acc + i)) := by
      simp [Val.arith, Val.arithInt, Val.checkI64, hin]
    rw [step]
    have := ih (fun w hw => hint w (by simp [hw])) (acc + i) (by rw [i64Max_eq] at hb ⊢; omega)
    simp only [isum, ival]
    rw [show acc + (i + isum vs) = acc + i + isum vs by omega]
    exact this

/-- SUM over the non-NULL values of an integer column: exact, no overflow when `Σ|xᵢ| ≤ i64::MAX` -/
theorem sumVals_int (fo : FloatOps) (l : List Val) (hint : ∀ v ∈ l, ∃ i, v = .int i)
    (hb : (iwt l : Int) ≤ Val.i64Max) :
    sumVals fo l = .ok (if l = [] then .null else .int (isum l)) := by
  cases l with
  | nil => rfl
  | cons v vs =>
    obtain ⟨i, rfl⟩ := hint v (by simp)
    simp only [sumVals, reduceCtorEq, if_false, isum, ival]
    exact foldlM_add_int fo vs (fun w hw => hint w (by simp [hw])) i (by simpa [iwt, ival] using hb)

theorem foldlM_add_f64 {fo : FloatOps} (E : FloatExact fo) (vs : List Val)
    (hf : ∀ v ∈ vs, ∃ x, v = .f64 x ∧ E.exact x) : ∀ acc : F64, E.exact acc →
    (E.φ acc).natAbs + fwt E vs ≤ E.B →
    ∃ g, vs.foldlM (fun a x => Val.arith fo .add a x) (.f64 acc) = .ok (.f64 g) ∧ E.exact g ∧
      E.φ g = E.φ acc + fsum E vs := by
  induction vs with
  | nil => intro acc ha _; exact ⟨acc, by simp [pure, Except.pure], ha, by simp [fsum]⟩
  | cons v vs ih =>
    intro acc ha hb
    obtain ⟨x, rfl, hx⟩ := hf v (by simp)
    simp only [fwt, fterm] at hb
    have hadd := E.add acc x ha hx (by omega)
    rw [List.foldlM_cons]
    have step : Val.arith fo .add (.f64 acc) (.f64 x) = .ok (.f64 (fo.add acc x)) := by
      simp [Val.arith, Val.arithF64]
    rw [step]
    obtain ⟨g, hg, hge, hgφ⟩ := ih (fun w hw => hf w (by simp [hw])) (fo.add acc x) hadd.1 (by rw [hadd.2]; omega)
    refine ⟨g, hg, hge, ?_⟩
    rw [hgφ, hadd.2]; simp only [fsum, fterm]; omega

/-- SUM over the non-NULL values of a float column whose data are exact: the result is THE exact sum -/
theorem sumVals_f64 {fo : FloatOps} (E : FloatExact fo) (l : List Val) (hne : l ≠ [])
    (hf : ∀ v ∈ l, ∃ x, v = .f64 x) (hok : FOk E l) :
    ∃ g, sumVals fo l = .ok (.f64 g) ∧ FRep E g l := by
  cases l with
  | nil => exact absurd rfl hne
  | cons v vs =>
    obtain ⟨x, rfl⟩ := hf v (by simp)
    have hx : E.exact x := hok.exact x (by simp)
    have hb := hok.bound
    simp only [fwt, fterm] at hb
    obtain ⟨g, hg, hge, hgφ⟩ := foldlM_add_f64 E vs
      (fun w hw => by obtain ⟨y, rfl⟩ := hf w (by simp [hw]); exact ⟨y, rfl, hok.exact y (by simp [hw])⟩) x hx hb
    exact ⟨g, by simpa [sumVals] using hg, hge, by rw [hgφ]; simp [fsum, fterm]⟩

theorem foldl_optUpd_some {α} (f : α → α → α) (l : List α) : ∀ c : α,
    l.foldl (optUpd f) (some c) = some (l.foldl f c) := by
  induction l with
  | nil => intro c; rfl
  | cons x xs ih => intro c; simp only [foldl_cons, optUpd]; exact ih _

/-- `Spec.extremum` over an injectively embedded key type is the first-wins extremum of the keys -/
theorem extremum_map {κ : Type} (fo : FloatOps) (inj : κ → Val) (cmp : κ → κ → Ordering)
    (h : ∀ a b, Val.cmpNonNull fo (inj a) (inj b) = .ok (cmp a b)) (wantMax : Bool) (l : List κ) :
    extremum fo wantMax (l.map inj) =
      .ok (match extBy (fun a b => if wantMax then cmp a b == .gt else cmp a b == .lt) l with
           | some a => inj a | none => .null) := by
  cases l with
  | nil => rfl
  | cons a l =>
    simp only [map_cons, extremum, extBy, foldl_cons, optUpd, foldl_optUpd_some]
    generalize hb : (fun a b => if wantMax = true then cmp a b == Ordering.gt else cmp a b == Ordering.lt) = better
    have : ∀ c : κ, (l.map inj).foldlM (fun acc x => do
        let o ← Val.cmpNonNull fo x acc
        pure (if (wantMax && o == .gt) || (!wantMax && o == .lt) then x else acc)) (inj c)
        = (.ok (inj (l.foldl (pick better) c)) : Except Err Val) := by
      induction l with
      | nil => intro c; simp [pure, Except.pure]
      | cons b l ih =>
        intro c
        simp only [map_cons, List.foldlM_cons, h b c, foldl_cons]
        have e : (if (wantMax && cmp b c == .gt) || (!wantMax && cmp b c == .lt) then inj b else inj c)
            = inj (pick better c b) := by
          subst hb
          cases wantMax <;> simp [pick] <;> split <;> rfl
        have hbind : ∀ (o : Ordering) (k : Ordering → Except Err Val), ((Except.ok o : Except Err Ordering) >>= k) = k o :=
          fun _ _ => rfl
        rw [hbind]
        simp only [pure, Except.pure, hbind]
        rw [show (Except.ok (if (wantMax && cmp b c == .gt) || (!wantMax && cmp b c == .lt) then inj b else inj c)
            : Except Err Val) = Except.ok (inj (pick better c b)) by rw [e]]
        exact ih _
    exact this a

/-! ### the semantic summary of a column and the value every path must produce from it -/

def ikey : Val → Option Int | .int i => some i | .date d => some d | _ => none
def fkey : Val → Option F64 | .f64 x => some x | _ => none
def skey : Val → Option String | .str s => some s | _ => none

structure Summ where
  rows : Nat
  cnt : Nat
  isum : Int
  imin : Option Int
  imax : Option Int
  fmin : Option F64
  fmax : Option F64
  smin : Option String
  smax : Option String
  dset : List Val

def summ (xs : List Val) : Summ :=
  { rows := xs.length, cnt := cnt xs, isum := isum xs,
    imin := extBy (fun a b : Int => decide (a < b)) (xs.filterMap ikey),
    imax := extBy (fun a b : Int => decide (b < a)) (xs.filterMap ikey),
    fmin := extBy F64.lt (xs.filterMap fkey),
    fmax := extBy (fun a b => F64.lt b a) (xs.filterMap fkey),
    smin := extBy (fun a b : String => compare a b == .lt) (xs.filterMap skey),
    smax := extBy (fun a b : String => compare a b == .gt) (xs.filterMap skey),
    dset := Bag.dedup (nn xs) }

theorem imin_eq : imin = pick (fun a b : Int => decide (a < b)) := by funext a b; simp [imin, pick]
theorem imax_eq : imax = pick (fun a b : Int => decide (b < a)) := by funext a b; simp [imax, pick]
theorem fmin_eq : fmin = pick F64.lt := by funext a b; simp [fmin, pick]
theorem fmax_eq : fmax = pick (fun a b => F64.lt b a) := by funext a b; simp [fmax, pick]
theorem smin_eq : smin = pick (fun a b : String => compare a b == .lt) := by funext a b; simp [smin, pick]
theorem smax_eq : smax = pick (fun a b : String => compare a b == .gt) := by funext a b; simp [smax, pick]

/-- all float values of the column are ordinary numbers -/
def FOrd (xs : List Val) : Prop := ∀ x, Val.f64 x ∈ xs → F64.ordinary x

theorem mem_filterMap_fkey (xs : List Val) (x : F64) : x ∈ xs.filterMap fkey ↔ Val.f64 x ∈ xs := by
  simp only [mem_filterMap]
  constructor
  · rintro ⟨v, hv, h⟩; cases v <;> simp [fkey] at h; subst h; exact hv
  · intro h; exact ⟨_, h, rfl⟩

/-- consuming one more value -/
def Summ.step (S : Summ) (v : Val) : Summ :=
  { rows := S.rows + 1, cnt := S.cnt + (if v.isNull then 0 else 1), isum := S.isum + ival v,
    imin := (match ikey v with | some i => optUpd Engine.Acc.imin S.imin i | none => S.imin),
    imax := (match ikey v with | some i => optUpd Engine.Acc.imax S.imax i | none => S.imax),
    fmin := (match fkey v with | some x => optUpd Engine.Acc.fmin S.fmin x | none => S.fmin),
    fmax := (match fkey v with | some x => optUpd Engine.Acc.fmax S.fmax x | none => S.fmax),
    smin := (match skey v with | some x => optUpd Engine.Acc.smin S.smin x | none => S.smin),
    smax := (match skey v with | some x => optUpd Engine.Acc.smax S.smax x | none => S.smax),
    dset := if v.isNull then S.dset else setInsert S.dset v }

theorem extBy_filterMap_snoc {α} (better : α → α → Bool) (key : Val → Option α) (xs : List Val) (v : Val) :
    extBy better ((xs ++ [v]).filterMap key) =
      (match key v with | some i => optUpd (pick better) (extBy better (xs.filterMap key)) i
                        | none => extBy better (xs.filterMap key)) := by
  rw [filterMap_append]
  cases h : key v with
  | none => simp [h]
  | some i => simp [h, extBy_snoc]

theorem summ_snoc (xs : List Val) (v : Val) : summ (xs ++ [v]) = (summ xs).step v := by
  simp only [summ, Summ.step, length_append, length_cons, length_nil, cnt_snoc, isum_append, isum,
    extBy_filterMap_snoc, imin_eq, imax_eq, fmin_eq, fmax_eq, smin_eq, smax_eq, Int.add_zero, Nat.zero_add]
  have hd : Bag.dedup (nn (xs ++ [v])) = if v.isNull = true then Bag.dedup (nn xs) else setInsert (Bag.dedup (nn xs)) v := by
    rw [nn_append]
    cases hv : v.isNull
    · have : nn [v] = [v] := by simp [nn, hv]
      rw [this, Bag.dedup_append_singleton]
      simp only [Bool.false_eq_true, if_false, setInsert, Bag.mem_dedup, contains_iff_mem]
    · have : nn [v] = [] := by simp [nn, hv]
      simp [this]
  rw [hd]
  congr 1 <;> first | rfl | (cases ikey v <;> rfl) | (cases fkey v <;> rfl) | (cases skey v <;> rfl)

/-- combining the summaries of two parts -/
def Summ.comb (S T : Summ) : Summ :=
  { rows := S.rows + T.rows, cnt := S.cnt + T.cnt, isum := S.isum + T.isum,
    imin := optMerge Engine.Acc.imin S.imin T.imin, imax := optMerge Engine.Acc.imax S.imax T.imax,
    fmin := optMerge Engine.Acc.fmin S.fmin T.fmin, fmax := optMerge Engine.Acc.fmax S.fmax T.fmax,
    smin := optMerge Engine.Acc.smin S.smin T.smin, smax := optMerge Engine.Acc.smax S.smax T.smax,
    dset := setUnion S.dset T.dset }

/-- **the summary is additive** (floats: on ordinary numbers) -/
theorem summ_append (xs ys : List Val) (hf : FOrd (xs ++ ys)) : summ (xs ++ ys) = (summ xs).comb (summ ys) := by
  have hford : ∀ x ∈ (xs.filterMap fkey ++ ys.filterMap fkey), F64.ordinary x := by
    intro x hx
    rw [← filterMap_append, mem_filterMap_fkey] at hx
    exact hf x hx
  simp only [summ, Summ.comb, length_append, cnt_append, isum_append, filterMap_append, nn_append,
    imin_eq, imax_eq, fmin_eq, fmax_eq, smin_eq, smax_eq]
  rw [extBy_append (weakOn_int_lt _), extBy_append (weakOn_int_gt _),
    extBy_append (F64.weakOn_lt _ hford), extBy_append (F64.weakOn_gt _ hford),
    extBy_append (weakOn_cmp_lt compare _), extBy_append (weakOn_cmp_gt compare _), setUnion_dedup]

theorem summ_cnt_zero_iff (xs : List Val) : (summ xs).cnt = 0 ↔ nn xs = [] := by
  simp [summ, cnt]

theorem summ_dset_of_cnt_zero (xs : List Val) (h : (summ xs).cnt = 0) : (summ xs).dset = [] := by
  have := (summ_cnt_zero_iff xs).mp h
  simp [summ, this, Bag.dedup]

/-- does this aggregate's answer depend on the float sum? -/
def needsF (a : Agg) : Prop := a.fn = .avg ∨ (a.fn = .sum ∧ a.ty = .f64)

def optVal {α} (inj : α → Val) : Option α → Val | some a => inj a | none => .null

/-- the answer, as a function of the summary (and of the exact float sum `f` where it matters);
    non-DISTINCT aggregates -/
def specVal (fo : FloatOps) (a : Agg) (S : Summ) (f : F64) : Val :=
  match a.fn with
  | .countStar => .int S.rows
  | .count => .int S.cnt
  | .sum => if S.cnt = 0 then .null else (match a.ty with | .f64 => .f64 f | _ => .int S.isum)
  | .avg => if S.cnt = 0 then .null else .f64 (fo.div f (fo.ofInt S.cnt))
  | .min =>
    (match a.ty with
     | .int => optVal .int S.imin | .date => optVal .date S.imin
     | .f64 => optVal .f64 S.fmin | .str => optVal .str S.smin | .bool => .null)
  | .max =>
    (match a.ty with
     | .int => optVal .int S.imax | .date => optVal .date S.imax
     | .f64 => optVal .f64 S.fmax | .str => optVal .str S.smax | .bool => .null)

/-- side conditions under which the property speaks (typing; no i64 overflow; float data exact; float
    extrema over ordinary numbers — NaN / -0.0 placement is engine-defined) -/
structure Ok {fo : FloatOps} (E : FloatExact fo) (a : Agg) (xs : List Val) : Prop where
  ty : ColTy a.ty xs
  fnty : (a.fn = .sum ∨ a.fn = .avg → a.ty = .int ∨ a.ty = .f64) ∧ (a.fn = .min ∨ a.fn = .max → a.ty ≠ .bool)
  int : (a.fn = .sum ∨ a.fn = .avg) → a.ty = .int → (iwt xs : Int) ≤ Val.i64Max
  flt : needsF a → FOk E xs
  ford : FOrd xs

theorem Ok.left {fo : FloatOps} {E : FloatExact fo} {a : Agg} {xs ys : List Val} (h : Ok E a (xs ++ ys)) : Ok E a xs :=
  ⟨h.ty.left, h.fnty, fun h1 h2 => by have := h.int h1 h2; rw [iwt_append] at this; omega,
   fun hn => (h.flt hn).left, fun x hx => h.ford x (by simp [hx])⟩
theorem Ok.right {fo : FloatOps} {E : FloatExact fo} {a : Agg} {xs ys : List Val} (h : Ok E a (xs ++ ys)) : Ok E a ys :=
  ⟨h.ty.right, h.fnty, fun h1 h2 => by have := h.int h1 h2; rw [iwt_append] at this; omega,
   fun hn => (h.flt hn).right, fun x hx => h.ford x (by simp [hx])⟩

theorem isum_nn (xs : List Val) : isum (nn xs) = isum xs := by
  induction xs with
  | nil => rfl
  | cons v vs ih => cases v <;> simp_all [nn, isum, ival, Val.isNull]
theorem fsum_nn {fo : FloatOps} (E : FloatExact fo) (xs : List Val) : fsum E (nn xs) = fsum E xs := by
  induction xs with
  | nil => rfl
  | cons v vs ih => cases v <;> simp_all [nn, fsum, fterm, Val.isNull]

theorem nn_map_key {α} (key : Val → Option α) (inj : α → Val) (xs : List Val)
    (h : ∀ v ∈ xs, v = .null ∨ ∃ a, v = inj a ∧ key v = some a) (hnull : key .null = none)
    (hinj : ∀ a, (inj a).isNull = false) : nn xs = (xs.filterMap key).map inj := by
  induction xs with
  | nil => rfl
  | cons v vs ih =>
    have ih' := ih (fun w hw => h w (by simp [hw]))
    rcases h v (by simp) with rfl | ⟨a, rfl, ha⟩
    · simp only [nn, filter_cons, Val.isNull, Bool.not_true, Bool.false_eq_true, if_false, filterMap_cons, hnull]
      exact ih'
    · simp only [nn, filter_cons, hinj a, Bool.not_false, if_true, filterMap_cons, ha, map_cons]
      congr 1

theorem nn_all_int {xs : List Val} (h : ColTy .int xs) : ∀ v ∈ nn xs, ∃ i, v = .int i := by
  intro v hv
  have hm := mem_filter.mp hv
  rcases colTy_int h v hm.1 with rfl | hi
  · simp [Val.isNull] at hm
  · exact hi
theorem nn_all_f64 {xs : List Val} (h : ColTy .f64 xs) : ∀ v ∈ nn xs, ∃ i, v = .f64 i := by
  intro v hv
  have hm := mem_filter.mp hv
  rcases colTy_f64 h v hm.1 with rfl | hi
  · simp [Val.isNull] at hm
  · exact hi

theorem int_lt_eq (a b : Int) : (compare a b == .lt) = decide (a < b) := by
  by_cases h : a < b
  · simp [Int.compare_eq_lt.mpr h, h]
  · have : compare a b ≠ .lt := fun e => h (Int.compare_eq_lt.mp e)
    simp [h, this]
theorem int_gt_eq (a b : Int) : (compare a b == .gt) = decide (b < a) := by
  by_cases h : b < a
  · simp [Int.compare_eq_gt.mpr h, h]
  · have : compare a b ≠ .gt := fun e => h (Int.compare_eq_gt.mp e)
    simp [h, this]

/-- MIN / MAX of the spec on a typed column, from the summary -/
theorem extremum_typed (fo : FloatOps) (a : Agg) (xs : List Val) (hty : ColTy a.ty xs) (hnb : a.ty ≠ .bool)
    (hford : FOrd xs) (wantMax : Bool) :
    extremum fo wantMax (nn xs) = .ok (specVal fo { a with fn := if wantMax then .max else .min } (summ xs) F64.posZero) := by
  rcases hta : a.ty with _ | _ | _ | _ | _
  · exact absurd hta hnb
  · -- int
    rw [hta] at hty
    have hn := nn_map_key ikey .int xs (fun v hv => by
      rcases colTy_int hty v hv with rfl | ⟨i, rfl⟩
      · exact .inl rfl
      · exact .inr ⟨i, rfl, rfl⟩) rfl (fun _ => rfl)
    rw [hn, extremum_map fo .int compare (fun _ _ => rfl)]
    cases wantMax <;> simp only [specVal, hta, summ, optVal, Bool.false_eq_true, if_false, if_true, int_lt_eq, int_gt_eq]
      <;> (cases extBy _ _ <;> rfl)
  · -- f64
    rw [hta] at hty
    have hn := nn_map_key fkey .f64 xs (fun v hv => by
      rcases colTy_f64 hty v hv with rfl | ⟨i, rfl⟩
      · exact .inl rfl
      · exact .inr ⟨i, rfl, rfl⟩) rfl (fun _ => rfl)
    rw [hn, extremum_map fo .f64 F64.totalCmp (fun _ _ => rfl)]
    have hord : ∀ x ∈ xs.filterMap fkey, F64.ordinary x := fun x hx => hford x ((mem_filterMap_fkey xs x).mp hx)
    cases wantMax <;> simp only [specVal, hta, summ, optVal, Bool.false_eq_true, if_false, if_true]
    · rw [extBy_congr (b₂ := F64.lt) _ (fun p hp q hq => by
        rw [F64.totalCmp_lt, F64.lt_eq_totalLt p q (hord p hp) (hord q hq)])]
      cases extBy _ _ <;> rfl
    · rw [extBy_congr (b₂ := fun p q => F64.lt q p) _ (fun p hp q hq => by
        rw [F64.totalCmp_gt, F64.lt_eq_totalLt q p (hord q hq) (hord p hp)])]
      cases extBy _ _ <;> rfl
  · -- str
    rw [hta] at hty
    have hn := nn_map_key skey .str xs (fun v hv => by
      rcases colTy_str hty v hv with rfl | ⟨i, rfl⟩
      · exact .inl rfl
      · exact .inr ⟨i, rfl, rfl⟩) rfl (fun _ => rfl)
    rw [hn, extremum_map fo .str compare (fun _ _ => rfl)]
    cases wantMax <;> simp only [specVal, hta, summ, optVal, Bool.false_eq_true, if_false, if_true]
      <;> (cases extBy _ _ <;> rfl)
  · -- date
    rw [hta] at hty
    have hn := nn_map_key ikey .date xs (fun v hv => by
      rcases colTy_date hty v hv with rfl | ⟨i, rfl⟩
      · exact .inl rfl
      · exact .inr ⟨i, rfl, rfl⟩) rfl (fun _ => rfl)
    rw [hn, extremum_map fo .date compare (fun _ _ => rfl)]
    cases wantMax <;> simp only [specVal, hta, summ, optVal, Bool.false_eq_true, if_false, if_true, int_lt_eq, int_gt_eq]
      <;> (cases extBy _ _ <;> rfl)

/-- **`Spec.aggVal` from the summary**: what every engine path has to reproduce -/
theorem aggVal_eq_specVal {fo : FloatOps} (E : FloatExact fo) (a : Agg) (xs : List Val) (f : F64)
    (hok : Ok E a xs) (hf : needsF a → FRep E f xs) :
    aggVal fo a.fn false xs.length xs = .ok (specVal fo a (summ xs) f) := by
  have hnn : aggVal fo a.fn false xs.length xs =
      (match a.fn with
       | .countStar => .ok (.int xs.length)
       | .count => .ok (.int (nn xs).length)
       | .sum => sumVals fo (nn xs)
       | .min => extremum fo false (nn xs)
       | .max => extremum fo true (nn xs)
       | .avg => do
         match ← sumVals fo (nn xs) with
         | .null => pure .null
         | .int s => pure (.f64 (fo.div (fo.ofInt s) (fo.ofInt (nn xs).length)))
         | .f64 s => pure (.f64 (fo.div s (fo.ofInt (nn xs).length)))
         | _ => .error (.type "AVG of non-numeric")) := by
    unfold aggVal nn
    cases a.fn <;> rfl
  rw [hnn]
  have hcnt : (summ xs).cnt = (nn xs).length := rfl
  rcases hfn : a.fn with _ | _ | _ | _ | _ | _
  · simp [specVal, hfn, summ]
  · simp [specVal, hfn, summ, cnt]
  · -- sum
    simp only
    rcases hok.fnty.1 (.inl hfn) with hty | hty
    · have hc : ColTy .int xs := hty ▸ hok.ty
      have hb : (iwt (nn xs) : Int) ≤ Val.i64Max := by
        have := hok.int (.inl hfn) hty
        have := iwt_filter_le (fun v => !v.isNull) xs
        simp only [nn]; omega
      rw [sumVals_int fo (nn xs) (nn_all_int hc) hb]
      simp only [specVal, hfn, hty, hcnt, isum_nn]
      by_cases hnil : nn xs = [] <;> simp [hnil, summ]
    · have hc : ColTy .f64 xs := hty ▸ hok.ty
      have hF := hok.flt (.inr ⟨hfn, hty⟩)
      have hfr := hf (.inr ⟨hfn, hty⟩)
      by_cases hnil : nn xs = []
      · simp [specVal, hfn, hty, hcnt, hnil, sumVals]
      · obtain ⟨g, hg, hgr⟩ := sumVals_f64 E (nn xs) hnil (nn_all_f64 hc) (hF.filter E _)
        have : g = f := hgr.unique E ⟨hfr.1, by rw [hfr.2, fsum_nn]⟩
        rw [hg, this]
        simp [specVal, hfn, hty, hcnt, hnil]
  · -- avg
    simp only
    have hF := hok.flt (.inl hfn)
    have hfr := hf (.inl hfn)
    rcases hok.fnty.1 (.inr hfn) with hty | hty
    · have hc : ColTy .int xs := hty ▸ hok.ty
      have hb : (iwt (nn xs) : Int) ≤ Val.i64Max := by
        have := hok.int (.inr hfn) hty
        have := iwt_filter_le (fun v => !v.isNull) xs
        simp only [nn]; omega
      rw [sumVals_int fo (nn xs) (nn_all_int hc) hb]
      have hfo : f = fo.ofInt (isum xs) := hfr.unique E (FRep.ofInt_isum E hF (colTy_int hc))
      by_cases hnil : nn xs = []
      · simp [specVal, hfn, hcnt, hnil, pure, Except.pure, bind, Except.bind]
      · simp [specVal, hfn, hcnt, hnil, pure, Except.pure, bind, Except.bind, isum_nn, hfo]
    · have hc : ColTy .f64 xs := hty ▸ hok.ty
      by_cases hnil : nn xs = []
      · simp [specVal, hfn, hcnt, hnil, sumVals, pure, Except.pure, bind, Except.bind]
      · obtain ⟨g, hg, hgr⟩ := sumVals_f64 E (nn xs) hnil (nn_all_f64 hc) (hF.filter E _)
        have : g = f := hgr.unique E ⟨hfr.1, by rw [hfr.2, fsum_nn]⟩
        rw [hg, this]
        simp [specVal, hfn, hcnt, hnil, pure, Except.pure, bind, Except.bind]
  · -- min
    have := extremum_typed fo a xs hok.ty (hok.fnty.2 (.inl hfn)) hok.ford false
    simp only [Bool.false_eq_true, if_false] at this
    simp only [this, specVal, hfn]
  · -- max
    have := extremum_typed fo a xs hok.ty (hok.fnty.2 (.inr hfn)) hok.ford true
    simp only [if_true] at this
    simp only [this, specVal, hfn]

end IQE.AggHom
