/- IQE.Lemmas.FnMath — C36 lemmas: integer math and 64-bit bitwise functions. -/
import IQE.Spec.Fn.Math
namespace IQE.Spec.Fn

theorem inI64_iff (x : Int) : inI64 x = true ↔ -9223372036854775808 ≤ x ∧ x ≤ 9223372036854775807 := by
  unfold inI64 i64Min i64Max
  rw [Bool.and_eq_true, decide_eq_true_iff, decide_eq_true_iff]


theorem abs_nonneg (x r : Int) (h : absI x = some r) : 0 ≤ r ∧ (r = x ∨ r = -x) := by
  unfold absI at h; split at h <;> simp at h; subst h; split <;> omega
theorem abs_none (x : Int) : absI x = none ↔ x = i64Min := by
  unfold absI; split <;> simp_all
theorem sign_mul_abs (x r : Int) (h : absI x = some r) : signI x * r = x := by
  unfold absI at h; split at h <;> simp at h; subst h; unfold signI; split <;> split <;> omega

theorem abs_in_range (x r : Int) (hx : inI64 x = true) (h : absI x = some r) : inI64 r = true := by
  rw [inI64_iff] at *
  unfold absI i64Min at h
  by_cases hm : x = -9223372036854775808
  · simp [hm] at h
  · simp [hm] at h; subst h; split <;> omega

theorem mod_spec (n m r : Int) (h : modI n m = some r) :
    n = m * Int.tdiv n m + r ∧ r.natAbs < m.natAbs ∧ (0 ≤ n → 0 ≤ r) ∧ (n ≤ 0 → r ≤ 0) := by
  unfold modI at h
  by_cases hm : m = 0
  · simp [hm] at h
  · simp [hm] at h; subst h
    refine ⟨(Int.mul_tdiv_add_tmod n m).symm, ?_, ?_, ?_⟩
    · rw [Int.natAbs_tmod]; exact Nat.mod_lt _ (by omega)
    · intro hn; exact Int.tmod_nonneg m hn
    · intro hn
      have : (-n).tmod m = -(n.tmod m) := Int.neg_tmod n m
      have h2 := Int.tmod_nonneg m (show 0 ≤ -n by omega)
      omega

theorem toBV_toInt (b : BitVec 64) : toBV b.toInt = b := by simp [toBV]
theorem toInt_toBV (x : Int) (h : inI64 x = true) : (toBV x).toInt = x := by
  rw [inI64_iff] at h
  unfold toBV
  rw [BitVec.toInt_ofInt]
  unfold Int.bmod; simp; omega
theorem not_not (x : Int) (h : inI64 x = true) : bitNot (bitNot x) = x := by
  unfold bitNot
  rw [toBV_toInt, BitVec.not_not]; exact toInt_toBV x h
theorem not_eq_neg (x : Int) (h : inI64 x = true) : bitNot x = -x - 1 := by
  have h1 := toInt_toBV x h
  unfold bitNot
  rw [BitVec.toInt_not]
  rw [inI64_iff] at h
  have : ((toBV x).toNat : Int) = x % 2 ^ 64 := by
    simp [toBV]; omega
  rw [this]
  unfold Int.bmod; simp only []; omega
theorem demorgan_and (x y : Int) : bitNot (bitAnd x y) = bitOr (bitNot x) (bitNot y) := by
  unfold bitNot bitAnd bitOr
  simp only [toBV_toInt]
  congr 1
  ext i; simp
theorem demorgan_or (x y : Int) : bitNot (bitOr x y) = bitAnd (bitNot x) (bitNot y) := by
  unfold bitNot bitAnd bitOr
  simp only [toBV_toInt]
  congr 1
  ext i; simp
theorem xor_self (x : Int) : bitXor x x = 0 := by simp [bitXor]
theorem and_comm' (x y : Int) : bitAnd x y = bitAnd y x := by simp [bitAnd, BitVec.and_comm]
theorem popcountTo_incl_excl (a b : BitVec 64) (n : Nat) :
    popcountTo (a &&& b) n + popcountTo (a ||| b) n = popcountTo a n + popcountTo b n := by
  induction n with
  | zero => rfl
  | succ n ih =>
    simp only [popcountTo, BitVec.getLsbD_and, BitVec.getLsbD_or]
    cases a.getLsbD n <;> cases b.getLsbD n <;> simp <;> omega
theorem bitcount_incl_excl (x y : Int) : bitCount (bitAnd x y) + bitCount (bitOr x y) = bitCount x + bitCount y := by
  unfold bitCount bitAnd bitOr popcount
  simp only [toBV_toInt]
  have := popcountTo_incl_excl (toBV x) (toBV y) 64
  omega
theorem popcountTo_le (a : BitVec 64) (n : Nat) : popcountTo a n ≤ n := by
  induction n with
  | zero => simp [popcountTo]
  | succ n ih => simp only [popcountTo]; cases a.getLsbD n <;> simp <;> omega
theorem popcountTo_not (a : BitVec 64) (n : Nat) (h : n ≤ 64) : popcountTo (~~~a) n = n - popcountTo a n := by
  induction n with
  | zero => simp [popcountTo]
  | succ n ih =>
    have := popcountTo_le a n
    simp only [popcountTo, BitVec.getLsbD_not]
    have hn : n < 64 := by omega
    simp only [hn, decide_true, Bool.true_and]
    rw [ih (by omega)]
    cases a.getLsbD n <;> simp <;> omega
end IQE.Spec.Fn
