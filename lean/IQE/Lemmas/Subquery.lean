/-
  IQE.Lemmas.Subquery — helper lemmas for C23 (subqueries, decorrelated or not).
  * three-valued IN: `Spec.inVals` in closed form (`in3`), the loop of `evaluate_in_subquery` (`scan`) in closed form;
  * `Spec.run` of a filter / join node unfolded once (`run_filter`, `run_join`);
  * the row-by-row EXISTS / IN / NOT IN filters as pure `List.filter`s over a correlation predicate.
  Core only.
-/
import IQE.Engine.Subquery
import IQE.Lemmas.JoinDecomp
namespace IQE.Subq
open List IQE IQE.Spec IQE.Engine.Subquery IQE.Bag IQE.Join

/-! ### comparison facts -/

theorem cmp3_null_right (fo : FloatOps) (x : Val) : Val.cmp3 fo x .null = .ok none := by
  cases x <;> rfl

theorem cmp3_null_left (fo : FloatOps) (v : Val) : Val.cmp3 fo .null v = .ok none := rfl

theorem cmp3_of_isNull_right (fo : FloatOps) (x v : Val) (h : v.isNull = true) : Val.cmp3 fo x v = .ok none := by
  cases v <;> simp [Val.isNull] at h
  exact cmp3_null_right fo x

theorem cmp3_of_isNull_left (fo : FloatOps) (x v : Val) (h : x.isNull = true) : Val.cmp3 fo x v = .ok none := by
  cases x <;> simp [Val.isNull] at h
  rfl

theorem cmp3_none_isNull (fo : FloatOps) (x v : Val) (h : Val.cmp3 fo x v = .ok none) :
    x.isNull = true ∨ v.isNull = true := by
  cases x <;> cases v <;> simp [Val.isNull] <;>
    (simp only [Val.cmp3, Val.cmpNonNull, Except.map] at h; simp at h)

theorem cmp3_some_notNull (fo : FloatOps) (x v : Val) (o : Ordering) (h : Val.cmp3 fo x v = .ok (some o)) :
    x.isNull = false ∧ v.isNull = false := by
  cases x <;> cases v <;> simp [Val.isNull] <;> simp [Val.cmp3] at h

theorem eqTrue_null_right (fo : FloatOps) (x v : Val) (h : v.isNull = true) : eqTrue fo x v = false := by
  simp [eqTrue, cmp3_of_isNull_right fo x v h]

theorem eqTrue_null_left (fo : FloatOps) (x v : Val) (h : x.isNull = true) : eqTrue fo x v = false := by
  simp [eqTrue, cmp3_of_isNull_left fo x v h]

/-- `Spec.compareOp .eq` through `cmp3` -/
theorem compareOp_eq (fo : FloatOps) (x v : Val) :
    compareOp fo .eq x v =
      match Val.cmp3 fo x v with
      | .error e => .error e
      | .ok none => .ok .null
      | .ok (some o) => .ok (.bool (o == .eq)) := by
  unfold compareOp
  cases h : Val.cmp3 fo x v with
  | error e => rfl
  | ok r => cases r <;> rfl

/-! ### three-valued IN in closed form -/

/-- `x IN set` as the SQL standard words it: TRUE if some element equals `x`; else NULL if `x` is NULL and the set is
    not empty, or the set holds a NULL; else FALSE. -/
def in3 (fo : FloatOps) (x : Val) (set : List Val) : Val :=
  if set.any (eqTrue fo x) then .bool true
  else if (x.isNull && !set.isEmpty) || set.any Val.isNull then .null
  else .bool false

/-- every comparison `x = v`, `v ∈ set`, is well-typed -/
def WellTyped (fo : FloatOps) (x : Val) (set : List Val) : Prop := ∀ v ∈ set, comparable fo x v = true

theorem WellTyped.tail {fo : FloatOps} {x v : Val} {vs : List Val} (h : WellTyped fo x (v :: vs)) : WellTyped fo x vs :=
  fun w hw => h w (mem_cons_of_mem _ hw)

/-- same non-NULL type, or one side NULL -/
def sameTyOrNull (x v : Val) : Bool := x.isNull || v.isNull || x.tyOf == v.tyOf

theorem comparable_of_sameTy (fo : FloatOps) (x v : Val) (h : sameTyOrNull x v = true) : comparable fo x v = true := by
  cases x <;> cases v <;> first | rfl | (simp [sameTyOrNull, Val.isNull, Val.tyOf] at h)

theorem wellTyped_of_sameTy (fo : FloatOps) (x : Val) (set : List Val) (h : ∀ v ∈ set, sameTyOrNull x v = true) :
    WellTyped fo x set := fun v hv => comparable_of_sameTy fo x v (h v hv)

/-- a NULL left operand is comparable with everything -/
theorem wellTyped_null (fo : FloatOps) (set : List Val) : WellTyped fo .null set := fun _ _ => rfl

/-- the three truth values from "a match exists" and "a NULL blocks FALSE" -/
def tv (a blk : Bool) : Val := if a then .bool true else if blk then .null else .bool false

theorem in3_eq_tv (fo : FloatOps) (x : Val) (set : List Val) :
    in3 fo x set = tv (set.any (eqTrue fo x)) ((x.isNull && !set.isEmpty) || set.any Val.isNull) := rfl

theorem or3_null_tv (a b : Bool) : Val.or3 .null (tv a b) = .ok (tv a true) := by cases a <;> cases b <;> rfl
theorem or3_true_tv (a b : Bool) : Val.or3 (.bool true) (tv a b) = .ok (.bool true) := by cases a <;> cases b <;> rfl
theorem or3_false_tv (a b : Bool) : Val.or3 (.bool false) (tv a b) = .ok (tv a b) := by cases a <;> cases b <;> rfl

theorem in3_nil (fo : FloatOps) (x : Val) : in3 fo x [] = .bool false := by
  simp [in3]

/-- **`Spec.inVals` is the textbook three-valued IN** on well-typed input. -/
theorem inVals_eq_in3 (fo : FloatOps) (x : Val) (set : List Val) (hty : WellTyped fo x set) :
    inVals fo x set = .ok (in3 fo x set) := by
  induction set with
  | nil => simp [inVals, in3]
  | cons v vs ih =>
    have ih' := ih hty.tail
    have hc := hty v (by simp)
    simp only [inVals, ih', compareOp_eq]
    cases h : Val.cmp3 fo x v with
    | error e => simp [comparable, h] at hc
    | ok r =>
      simp only [bind, Except.bind]
      rw [in3_eq_tv, in3_eq_tv]
      simp only [any_cons, isEmpty_cons, Bool.not_false, Bool.and_true]
      cases r with
      | none =>
        dsimp only
        have he : eqTrue fo x v = false := by simp [eqTrue, h]
        have hblk : (x.isNull || (v.isNull || vs.any Val.isNull)) = true := by
          rcases cmp3_none_isNull fo x v h with hn | hn <;> simp [hn]
        rw [he, hblk, Bool.false_or]
        exact or3_null_tv _ _
      | some o =>
        dsimp only
        obtain ⟨hx, hv⟩ := cmp3_some_notNull fo x v o h
        by_cases ho : o = .eq
        · subst ho
          have he : eqTrue fo x v = true := by simp [eqTrue, h]
          rw [he, Bool.true_or]
          exact or3_true_tv _ _
        · have he : eqTrue fo x v = false := by
            simp only [eqTrue, h]; cases o <;> simp_all
          have hb : (o == Ordering.eq) = false := by cases o <;> simp_all
          rw [he, hb, hx, hv, Bool.false_or, Bool.false_or, Bool.false_or, Bool.false_and, Bool.false_or]
          exact or3_false_tv _ _

/-- `in3` is TRUE exactly when some element equals `x` -/
theorem in3_eq_true_iff (fo : FloatOps) (x : Val) (set : List Val) :
    in3 fo x set = .bool true ↔ set.any (eqTrue fo x) = true := by
  unfold in3
  cases set.any (eqTrue fo x) with
  | true => simp
  | false =>
    simp only [Bool.false_eq_true, if_false]
    split <;> simp

/-- `in3` is FALSE exactly when nothing equals `x` and no NULL blocks the answer -/
theorem in3_eq_false_iff (fo : FloatOps) (x : Val) (set : List Val) :
    in3 fo x set = .bool false ↔
      (set.any (eqTrue fo x) = false ∧ ((x.isNull && !set.isEmpty) || set.any Val.isNull) = false) := by
  unfold in3
  cases set.any (eqTrue fo x) <;> cases ((x.isNull && !set.isEmpty) || set.any Val.isNull) <;> simp

/-! ### the loop of `evaluate_in_subquery` in closed form -/

/-- with all switches off, the loop finds a match iff one exists, and otherwise knows whether it met a NULL -/
theorem scan_spec (fo : FloatOps) (x : Val) (set : List Val) (hn : Bool) (hty : WellTyped fo x set) :
    ∃ h', scan {} fo x set hn = .ok (set.any (eqTrue fo x), h') ∧
      (set.any (eqTrue fo x) = false → h' = (hn || set.any Val.isNull)) := by
  induction set generalizing hn with
  | nil => exact ⟨hn, by simp [scan]⟩
  | cons v vs ih =>
    have hc := hty v (by simp)
    by_cases hv : v.isNull = true
    · obtain ⟨h', h1, h2⟩ := ih (hn || true) hty.tail
      refine ⟨h', ?_, ?_⟩
      · simp only [scan, hv, if_true, any_cons, eqTrue_null_right fo x v hv, Bool.false_or]
        simpa using h1
      · intro hf
        simp only [any_cons, eqTrue_null_right fo x v hv, Bool.false_or] at hf
        rw [h2 hf]; simp [hv]
    · have hv' : v.isNull = false := by simpa using hv
      cases h : Val.cmp3 fo x v with
      | error e => simp [comparable, h] at hc
      | ok r =>
        by_cases hr : r = some .eq
        · subst hr
          refine ⟨hn, ?_, ?_⟩
          · simp [scan, hv', h, eqTrue]
          · intro hf; simp [eqTrue, h] at hf
        · have he : eqTrue fo x v = false := by
            simp only [eqTrue, h]
            split
            · rename_i heq; cases heq; exact absurd rfl hr
            · rfl
          obtain ⟨h', h1, h2⟩ := ih hn hty.tail
          refine ⟨h', ?_, ?_⟩
          · simp only [any_cons, he, Bool.false_or]
            rw [← h1]
            simp only [scan, hv', Bool.false_eq_true, if_false, Bool.false_and, h]
          · intro hf
            simp only [any_cons, he, Bool.false_or] at hf
            rw [h2 hf]; simp [hv']

/-- **`evaluate_in_subquery` with the intended NULL handling computes `in3`, negated for NOT IN.** -/
theorem evalInSubquery_eq_in3 (fo : FloatOps) (x : Val) (set : List Val) (neg : Bool) (hty : WellTyped fo x set) :
    evalInSubquery {} fo x set neg = (if neg then Val.not3 (in3 fo x set) else .ok (in3 fo x set)) := by
  unfold evalInSubquery
  by_cases hx : x.isNull = true
  · have hany : set.any (eqTrue fo x) = false := by
      rw [any_eq_false]; intro v _; simp [eqTrue_null_left fo x v hx]
    simp only [hx, if_true, Bool.false_eq_true, if_false, in3, hany, Bool.true_and]
    cases set with
    | nil => cases neg <;> simp [Val.not3]
    | cons v vs => cases neg <;> simp [Val.not3]
  · have hx' : x.isNull = false := by simpa using hx
    obtain ⟨h', h1, h2⟩ := scan_spec fo x set false hty
    simp only [hx', Bool.false_eq_true, if_false, h1, in3, Bool.false_and, Bool.false_or]
    cases hf : set.any (eqTrue fo x)
    · rw [h2 hf]; simp
    · simp

/-! ### `Spec.run` of filter / join nodes and `Spec.eval` of subquery expressions, unfolded once -/

/-- the evaluation context a filter / project / join node builds for its subqueries `subs` -/
def nodeCx (fo : FloatOps) (fns : String → List Val → Except Err Val) (cat : List Table) (subs : List Query)
    (ctes : List Table) : EvalCtx :=
  { fo := fo, fn := fns,
    runSub := fun k e => match (runList fo fns cat subs)[k]? with
      | some f => f ctes e
      | none => .error (.bad "no such subquery") }

/-- what WHERE does with the value of its predicate on row `r` -/
def whereKeep (r : Row) : Val → Except Err (Option Row)
  | .bool true => .ok (some r)
  | .bool false => .ok none
  | .null => .ok none
  | _ => .error (.type "WHERE/HAVING predicate is not boolean")

theorem run_filter (fo : FloatOps) (fns : String → List Val → Except Err Val) (cat : List Table) (subs : List Query)
    (p : Expr) (q : Query) (ctes : List Table) (env : Env) :
    run fo fns cat (.filter subs p q) ctes env =
      (run fo fns cat q ctes env >>= fun rows =>
        rows.filterMapM fun r => eval (nodeCx fo fns cat subs ctes) (r :: env) p >>= whereKeep r) := by
  rw [run]
  rfl

theorem run_join (fo : FloatOps) (fns : String → List Val → Except Err Val) (cat : List Table) (jt : JoinType)
    (lw rw : Nat) (subs : List Query) (on : Expr) (l r : Query) (ctes : List Table) (env : Env) :
    run fo fns cat (.join jt lw rw subs on l r) ctes env =
      (run fo fns cat l ctes env >>= fun ls => run fo fns cat r ctes env >>= fun rs =>
        joinRows (nodeCx fo fns cat subs ctes) env jt lw rw on ls rs) := by
  rw [run]
  rfl

theorem nodeCx_runSub_zero (fo : FloatOps) (fns : String → List Val → Except Err Val) (cat : List Table)
    (sub : Query) (rest : List Query) (ctes : List Table) (env : Env) :
    (nodeCx fo fns cat (sub :: rest) ctes).runSub 0 env = run fo fns cat sub ctes env := by
  simp [nodeCx, runList]

theorem eval_exists (cx : EvalCtx) (env : Env) (k : Nat) (neg : Bool) :
    eval cx env (.exists_ k neg) = (cx.runSub k env >>= fun t => pure (.bool ((!t.isEmpty) != neg))) := by
  rw [eval]

theorem eval_inSub (cx : EvalCtx) (env : Env) (e : Expr) (k : Nat) (neg : Bool) :
    eval cx env (.inSub e k neg) = (eval cx env e >>= fun x => cx.runSub k env >>= fun t =>
      inVals cx.fo x (t.map yOf) >>= fun r => if neg then Val.not3 r else pure r) := by
  rw [eval]
  rfl

theorem eval_scalarSub (cx : EvalCtx) (env : Env) (k : Nat) :
    eval cx env (.scalarSub k) = (cx.runSub k env >>= evalScalar) := by
  rw [eval]
  cases cx.runSub k env with
  | error e => rfl
  | ok t =>
    cases t with
    | nil => rfl
    | cons r rs => cases rs <;> rfl

theorem ok_bind {α β : Type} (a : α) (f : α → Except Err β) : ((Except.ok a : Except Err α) >>= f) = f a := rfl

/-! ### the row-by-row subquery filters as pure filters -/

/-- `σ_{[NOT] EXISTS (sub)} q` keeps the rows whose subquery result is non-empty (empty for NOT EXISTS) -/
theorem run_filter_exists (fo : FloatOps) (fns : String → List Val → Except Err Val) (cat : List Table)
    (ctes : List Table) (env : Env) (qR sub : Query) (neg : Bool) (R : Table) (T : Row → Table)
    (hR : run fo fns cat qR ctes env = .ok R)
    (hsub : ∀ l ∈ R, run fo fns cat sub ctes (l :: env) = .ok (T l)) :
    run fo fns cat (.filter [sub] (.exists_ 0 neg) qR) ctes env =
      .ok (R.filter fun l => (!(T l).isEmpty) != neg) := by
  rw [run_filter, hR, ok_bind]
  rw [filterMapM_ok _ (fun l => if ((!(T l).isEmpty) != neg) = true then some (id l) else none) R]
  · rw [filterMap_ite_some (fun l => (!(T l).isEmpty) != neg) id R, map_id]
  · intro l hl
    rw [eval_exists, nodeCx_runSub_zero, hsub l hl, ok_bind]
    cases ((!(T l).isEmpty) != neg) <;> rfl

/-- which rows `x [NOT] IN set` keeps -/
def inKeep (fo : FloatOps) (neg : Bool) (x : Val) (set : List Val) : Bool :=
  if neg then !set.any (eqTrue fo x) && !((x.isNull && !set.isEmpty) || set.any Val.isNull)
  else set.any (eqTrue fo x)

theorem in_body (a b neg : Bool) (l : Row) :
    ((if neg then Val.not3 (tv a b) else pure (tv a b)) >>= whereKeep l) =
      .ok (if (if neg then !a && !b else a) = true then some (id l) else none) := by
  cases a <;> cases b <;> cases neg <;> rfl

/-- `σ_{x [NOT] IN (sub)} q` as a pure filter (well-typed comparisons) -/
theorem run_filter_in (fo : FloatOps) (fns : String → List Val → Except Err Val) (cat : List Table)
    (ctes : List Table) (env : Env) (qR sub : Query) (x : Expr) (neg : Bool) (R : Table) (T : Row → Table)
    (xv : Row → Val)
    (hR : run fo fns cat qR ctes env = .ok R)
    (hx : ∀ l ∈ R, eval (nodeCx fo fns cat [sub] ctes) (l :: env) x = .ok (xv l))
    (hsub : ∀ l ∈ R, run fo fns cat sub ctes (l :: env) = .ok (T l))
    (hty : ∀ l ∈ R, WellTyped fo (xv l) ((T l).map yOf)) :
    run fo fns cat (.filter [sub] (.inSub x 0 neg) qR) ctes env =
      .ok (R.filter fun l => inKeep fo neg (xv l) ((T l).map yOf)) := by
  rw [run_filter, hR, ok_bind]
  rw [filterMapM_ok _ (fun l => if inKeep fo neg (xv l) ((T l).map yOf) = true then some (id l) else none) R]
  · rw [filterMap_ite_some (fun l => inKeep fo neg (xv l) ((T l).map yOf)) id R, map_id]
  · intro l hl
    rw [eval_inSub, hx l hl, ok_bind, nodeCx_runSub_zero, hsub l hl, ok_bind]
    show (inVals fo (xv l) ((T l).map yOf) >>= _) >>= _ = _
    rw [inVals_eq_in3 fo _ _ (hty l hl), ok_bind, in3_eq_tv]
    exact in_body _ _ neg l

theorem any_map_filter {α β : Type} (p : α → Bool) (f : α → β) (q : β → Bool) (l : List α) :
    ((l.filter p).map f).any q = l.any (fun a => q (f a) && p a) := by
  induction l with
  | nil => rfl
  | cons a l ih => by_cases h : p a <;> simp [h, ih]

/-- the ON predicate `col i = col lw` of the IN rewrite means "`x = y` is TRUE" on the concatenated row -/
theorem onTrue_inOn (fo : FloatOps) (cx : EvalCtx) (env : Env) (lw i : Nat) (l r : Row) (hl : l.length = lw) (hi : i < lw)
    (hr : r ≠ []) (hfo : cx.fo = fo) (hc : comparable fo (l.getD i .null) (yOf r) = true) :
    onTrue cx env (inOn lw i) (l ++ r) = .ok (inMatch fo (fun l => l.getD i .null) (fun _ _ => true) l r) := by
  have hil : i < l.length := by rw [hl]; exact hi
  have e1 : getCol ((l ++ r) :: env) 0 i = .ok (l.getD i .null) := by
    simp [getCol, List.getElem?_append_left hil, List.getD, hil]
  have e2 : getCol ((l ++ r) :: env) 0 lw = .ok (yOf r) := by
    subst hl
    cases r with
    | nil => exact absurd rfl hr
    | cons y ys => simp [getCol, yOf]
  unfold onTrue inOn
  rw [eval, eval, eval, e1, e2, ok_bind, ok_bind, hfo]
  show (binVal fo .eq (l.getD i .null) (yOf r) >>= _) = _
  have hb : binVal fo .eq (l.getD i .null) (yOf r) = compareOp fo .eq (l.getD i .null) (yOf r) := rfl
  rw [hb, compareOp_eq]
  simp only [inMatch, Bool.and_true, eqTrue]
  cases h : Val.cmp3 fo (l.getD i .null) (yOf r) with
  | error e =>
    have hf : comparable fo (l.getD i .null) (yOf r) = false := by simp only [comparable, h]
    rw [hf] at hc; cases hc
  | ok o =>
    cases o with
    | none => rfl
    | some o => cases o <;> rfl

/-! ### NOT IN against the anti join -/

/-- which rows NOT IN keeps, in terms of the join match predicate and the NULL side condition -/
theorem inKeep_neg_eq (fo : FloatOps) (xv : Row → Val) (m : Row → Row → Bool) (S : Table) (l : Row) :
    inKeep fo true (xv l) ((S.filter (m l)).map yOf) =
      (!S.any (inMatch fo xv m l) && !notInNullBlocked xv m S l) := by
  have e1 : ((S.filter (m l)).map yOf).isEmpty = (S.filter (m l)).isEmpty := by
    cases S.filter (m l) <;> rfl
  unfold inKeep notInNullBlocked
  simp only [if_true]
  rw [any_map_filter, e1, any_map]
  rfl

theorem notInRewrite_plain (fo : FloatOps) (xv : Row → Val) (m : Row → Row → Bool) (lw rw : Nat) (R S : Table) :
    notInRewrite { notInPlainAnti := true } fo xv m R S = nlJoin .anti lw rw (inMatch fo xv m) R S := by
  simp [notInRewrite, nlJoin, hasMatch]

/-- the intended NOT IN rewrite = the anti join minus the rows blocked by the NULL side condition -/
theorem notInRewrite_eq_filter (fo : FloatOps) (xv : Row → Val) (m : Row → Row → Bool) (lw rw : Nat) (R S : Table) :
    notInRewrite {} fo xv m R S =
      (nlJoin .anti lw rw (inMatch fo xv m) R S).filter (fun l => !notInNullBlocked xv m S l) := by
  simp only [notInRewrite, nlJoin, hasMatch, filter_filter, Bool.false_or]
  apply filter_congr; intro l _
  exact Bool.and_comm _ _

/-- `σ_{x NOT IN (sub)} qR`, row by row, is the intended (NULL-aware) rewrite -/
theorem run_not_in (fo : FloatOps) (fns : String → List Val → Except Err Val) (cat : List Table)
    (ctes : List Table) (env : Env) (qR sub : Query) (x : Expr) (R S : Table)
    (xv : Row → Val) (m : Row → Row → Bool)
    (hR : run fo fns cat qR ctes env = .ok R)
    (hx : ∀ l ∈ R, eval (nodeCx fo fns cat [sub] ctes) (l :: env) x = .ok (xv l))
    (hsub : ∀ l ∈ R, run fo fns cat sub ctes (l :: env) = .ok (S.filter (m l)))
    (hty : ∀ l ∈ R, ∀ r ∈ S, comparable fo (xv l) (yOf r) = true) :
    run fo fns cat (inFilter x sub qR true) ctes env = .ok (notInRewrite {} fo xv m R S) := by
  have hwt : ∀ l ∈ R, WellTyped fo (xv l) ((S.filter (m l)).map yOf) := by
    intro l hl v hv
    obtain ⟨r, hr, rfl⟩ := mem_map.mp hv
    exact hty l hl r (mem_filter.mp hr).1
  unfold inFilter
  rw [run_filter_in fo fns cat ctes env qR sub x true R (fun l => S.filter (m l)) xv hR hx hsub hwt]
  congr 1
  simp only [notInRewrite, Bool.false_or]
  apply filter_congr; intro l _
  exact inKeep_neg_eq fo xv m S l

/-- the join the rule builds: Semi for IN, plain Anti for NOT IN -/
theorem run_in_join (fo : FloatOps) (fns : String → List Val → Except Err Val) (cat : List Table)
    (ctes : List Table) (env : Env) (qR qS : Query) (on : Expr) (lw rw : Nat) (R S : Table) (neg : Bool)
    (mm : Row → Row → Bool)
    (hR : run fo fns cat qR ctes env = .ok R)
    (hS : run fo fns cat qS ctes env = .ok S)
    (hon : ∀ l ∈ R, ∀ r ∈ S, onTrue (nodeCx fo fns cat [] ctes) env on (l ++ r) = .ok (mm l r)) :
    run fo fns cat (inJoin lw rw on qR qS neg) ctes env =
      .ok (nlJoin (if neg then .anti else .semi) lw rw mm R S) := by
  unfold inJoin
  rw [run_join, hR, ok_bind, hS, ok_bind]
  exact joinRows_eq_nlJoin _ env _ lw rw on _ R S hon

theorem run_in_join_anti (fo : FloatOps) (fns : String → List Val → Except Err Val) (cat : List Table)
    (ctes : List Table) (env : Env) (qR qS : Query) (on : Expr) (lw rw : Nat) (R S : Table)
    (mm : Row → Row → Bool)
    (hR : run fo fns cat qR ctes env = .ok R)
    (hS : run fo fns cat qS ctes env = .ok S)
    (hon : ∀ l ∈ R, ∀ r ∈ S, onTrue (nodeCx fo fns cat [] ctes) env on (l ++ r) = .ok (mm l r)) :
    run fo fns cat (inJoin lw rw on qR qS true) ctes env = .ok (nlJoin .anti lw rw mm R S) :=
  run_in_join fo fns cat ctes env qR qS on lw rw R S true mm hR hS hon

theorem filter_const_true {α : Type} (l : List α) : l.filter (fun _ => true) = l := by
  induction l with
  | nil => rfl
  | cons a l ih => simp [ih]

theorem ok_inj {α : Type} {a b : α} (h : (Except.ok a : Except Err α) = .ok b) : a = b := by
  cases h; rfl

/-! ### scalar aggregate subquery against the Left join with the grouped aggregate -/

theorem dedupKeys_eq (ks : List Val) : dedupKeys ks = Bag.dedup ks := by
  induction ks with
  | nil => rfl
  | cons k ks ih => simp [dedupKeys, Bag.dedup, ih]

/-- an aggregate over no rows never raises: it is `emptyAgg` -/
theorem aggOf_nil (fo : FloatOps) (f : AggFn) (distinct : Bool) (ev : Row → Val) :
    aggOf fo f distinct ev [] = .ok (emptyAgg fo f distinct) := by
  cases f <;> cases distinct <;> rfl

/-- the aggregate value, NULL standing in for "raised" (only used where it does not raise) -/
def aggD (fo : FloatOps) (f : AggFn) (distinct : Bool) (ev : Row → Val) (rows : Table) : Val :=
  match aggOf fo f distinct ev rows with
  | .ok v => v
  | .error _ => .null

theorem aggOf_eq_aggD {fo : FloatOps} {f : AggFn} {distinct : Bool} {ev : Row → Val} {rows : Table}
    (h : ∃ v, aggOf fo f distinct ev rows = .ok v) : aggOf fo f distinct ev rows = .ok (aggD fo f distinct ev rows) := by
  obtain ⟨v, hv⟩ := h
  simp [aggD, hv]

theorem find_key (ks : List Val) (w : Val → Val) (a : Val) (p : Val → Bool) (hp : ∀ k ∈ ks, p k = decide (k = a)) :
    (ks.map (fun k => (k, w k))).find? (fun q => p q.1) = if a ∈ ks then some (a, w a) else none := by
  induction ks with
  | nil => rfl
  | cons k ks ih =>
    have ih' := ih (fun k' hk' => hp k' (mem_cons_of_mem _ hk'))
    have hk := hp k (by simp)
    by_cases hka : k = a
    · subst hka
      simp [hk]
    · have : p k = false := by rw [hk]; simp [hka]
      simp only [map_cons, find?_cons, this, ih', mem_cons]
      have : (a = k ∨ a ∈ ks) ↔ a ∈ ks := by
        constructor
        · rintro (h | h)
          · exact absurd h.symm hka
          · exact h
        · exact Or.inr
      simp only [this]

/-- the grouped right side in closed form -/
theorem groupedAgg_ok (fo : FloatOps) (f : AggFn) (distinct : Bool) (key ev : Row → Val) (S : Table)
    (hok : ∀ k ∈ S.map key, ∃ v, aggOf fo f distinct ev (S.filter fun r => key r = k) = .ok v) :
    groupedAgg fo f distinct key ev S =
      .ok ((dedupKeys (S.map key)).map fun k => (k, aggD fo f distinct ev (S.filter fun r => key r = k))) := by
  unfold groupedAgg
  apply mapM_ok
  intro k hk
  rw [dedupKeys_eq, Bag.mem_dedup] at hk
  rw [aggOf_eq_aggD (hok k hk)]

/-- SQL equality on the correlation key coincides with identity of non-NULL values (true for keys of one of the types
    bool / int / str / date; see `eqTrue_int`) -/
def KeyEq (fo : FloatOps) (okey key : Row → Val) (R S : Table) : Prop :=
  ∀ l ∈ R, ∀ r ∈ S, eqTrue fo (okey l) (key r) = (decide (key r = okey l) && !(okey l).isNull)

theorem eqTrue_int (fo : FloatOps) (a b : Int) : eqTrue fo (.int a) (.int b) = decide (Val.int b = Val.int a) := by
  simp only [eqTrue, Val.cmp3, Val.cmpNonNull, Except.map]
  by_cases h : a = b
  · subst h; simp [compare, compareOfLessAndEq]
  · have h' : ¬ b = a := fun e => h e.symm
    simp only [Val.int.injEq, h', decide_false]
    simp only [compare, compareOfLessAndEq, h]
    by_cases hlt : a < b <;> simp [hlt]

/-- keys over {NULL, int}: the hypothesis `KeyEq` holds -/
theorem keyEq_of_int (fo : FloatOps) (okey key : Row → Val) (R S : Table)
    (hR : ∀ l ∈ R, okey l = .null ∨ ∃ i, okey l = .int i) (hS : ∀ r ∈ S, key r = .null ∨ ∃ i, key r = .int i) :
    KeyEq fo okey key R S := by
  intro l hl r hr
  rcases hR l hl with h1 | ⟨a, h1⟩ <;> rcases hS r hr with h2 | ⟨b, h2⟩ <;> rw [h1, h2]
  · rfl
  · rfl
  · rfl
  · rw [eqTrue_int]; simp [Val.isNull]

/-- the value the rewritten plan reads for the outer row `l` is the aggregate over `l`'s partner rows -/
theorem leftjoin_row (fo : FloatOps) (f : AggFn) (distinct : Bool) (okey key ev : Row → Val) (R S : Table)
    (hk : KeyEq fo okey key R S)
    (l : Row) (hl : l ∈ R) :
    (match ((dedupKeys (S.map key)).map fun k => (k, aggD fo f distinct ev (S.filter fun r => key r = k))).find?
        (fun p => eqTrue fo (okey l) p.1) with
      | some p => (l, p.2)
      | none => (l, emptyAgg fo f distinct)) =
    (l, aggD fo f distinct ev (S.filter fun r => eqTrue fo (okey l) (key r))) := by
  have hp : ∀ k ∈ dedupKeys (S.map key), eqTrue fo (okey l) k = (decide (k = okey l) && !(okey l).isNull) := by
    intro k hk'
    rw [dedupKeys_eq, Bag.mem_dedup] at hk'
    obtain ⟨r, hr, rfl⟩ := mem_map.mp hk'
    exact hk l hl r hr
  by_cases hn : (okey l).isNull = true
  · -- NULL outer key: no group matches, no partner rows
    have hnone : ((dedupKeys (S.map key)).map fun k => (k, aggD fo f distinct ev (S.filter fun r => key r = k))).find?
        (fun p => eqTrue fo (okey l) p.1) = none := by
      rw [find?_eq_none]; intro p _
      simp [eqTrue_null_left fo (okey l) p.1 hn]
    have hnil : (S.filter fun r => eqTrue fo (okey l) (key r)) = [] := by
      rw [filter_eq_nil_iff]; intro r _; simp [eqTrue_null_left fo (okey l) (key r) hn]
    rw [hnone, hnil]
    simp [aggD, aggOf_nil]
  · have hn' : (okey l).isNull = false := by simpa using hn
    have hp' : ∀ k ∈ dedupKeys (S.map key), eqTrue fo (okey l) k = decide (k = okey l) := by
      intro k hk'; rw [hp k hk', hn']; simp
    rw [find_key (dedupKeys (S.map key)) _ (okey l) (eqTrue fo (okey l)) hp']
    have hfil : (S.filter fun r => eqTrue fo (okey l) (key r)) = S.filter fun r => key r = okey l := by
      apply filter_congr; intro r hr
      rw [hk l hl r hr, hn']; simp
    by_cases hmem : okey l ∈ dedupKeys (S.map key)
    · rw [if_pos hmem, hfil]
    · rw [if_neg hmem]
      have hnil : (S.filter fun r => key r = okey l) = [] := by
        rw [filter_eq_nil_iff]; intro r hr h
        apply hmem
        rw [dedupKeys_eq, Bag.mem_dedup]
        simp only [decide_eq_true_eq] at h
        exact mem_map.mpr ⟨r, hr, h⟩
      rw [hfil, hnil]
      simp [aggD, aggOf_nil]

/-! ### a global aggregate subquery through `Spec.run` -/

/-- the evaluation context `Spec.run` uses inside an aggregate node -/
def aggCx (fo : FloatOps) (fns : String → List Val → Except Err Val) : EvalCtx :=
  { fo := fo, fn := fns, runSub := fun _ _ => .error (.unsupported "subquery inside an aggregate") }

/-- `SELECT f(arg) FROM q` (no GROUP BY) returns exactly one row holding `aggOf` of q's rows -/
theorem run_agg_global (fo : FloatOps) (fns : String → List Val → Except Err Val) (cat : List Table)
    (ctes : List Table) (env : Env) (q : Query) (f : AggFn) (arg : Expr) (distinct : Bool) (rows : Table)
    (ev : Row → Val)
    (hq : run fo fns cat q ctes env = .ok rows)
    (harg : ∀ r ∈ rows, eval (aggCx fo fns) (r :: env) arg = .ok (ev r)) :
    run fo fns cat (.agg [] [⟨f, arg, distinct⟩] q) ctes env =
      (aggOf fo f distinct ev rows >>= fun v => pure [[v]]) := by
  rw [run]
  show (run fo fns cat q ctes env >>= fun rows => aggregate (aggCx fo fns) env [] [⟨f, arg, distinct⟩] rows) = _
  rw [hq, ok_bind]
  have hargs : rows.mapM (fun r => eval (aggCx fo fns) (r :: env) arg) = .ok (rows.map ev) :=
    mapM_ok _ ev rows harg
  unfold aggregate aggGroup aggOf
  simp only [isEmpty_nil, if_true, mapM_cons, mapM_nil]
  cases f <;> simp only [hargs, ok_bind, bind_assoc, pure_bind] <;> try rfl
  all_goals (
    cases aggVal fo _ distinct rows.length (rows.map ev) <;> rfl)

/-! ### correlation predicates: the operator flip of `build_filter_expr` -/

/-- comparing the other way round swaps the ordering (true of every pair of one type; proved here for NULL / int) -/
def Swappable (fo : FloatOps) (a b : Val) : Prop :=
  Val.cmp3 fo b a = (Val.cmp3 fo a b).map (Option.map Ordering.swap)

theorem ordSat_flip (op : BinOp) (o : Ordering) : ordSat (flipOp op) o.swap = ordSat op o := by
  cases op <;> cases o <;> rfl

/-- `inner flip(op) outer` is TRUE iff `outer op inner` is -/
theorem cmpTrue_flip (fo : FloatOps) (op : BinOp) (a b : Val) (h : Swappable fo a b) :
    cmpTrue fo (flipOp op) b a = cmpTrue fo op a b := by
  unfold cmpTrue compareOp
  rw [h]
  cases Val.cmp3 fo a b with
  | error e => rfl
  | ok r =>
    cases r with
    | none => rfl
    | some o =>
      show (match (Except.ok (Val.bool (ordSat (flipOp op) o.swap)) : Except Err Val) with
        | .ok (.bool true) => true | _ => false) = _
      rw [ordSat_flip]
      rfl

theorem int_compare_swap (a b : Int) : compare b a = (compare a b).swap := Std.OrientedCmp.eq_swap

theorem all_congr_mem {α : Type} {f g : α → Bool} {l : List α} (h : ∀ a ∈ l, f a = g a) : l.all f = l.all g := by
  induction l with
  | nil => rfl
  | cons a l ih =>
    simp only [all_cons, h a (by simp), ih (fun b hb => h b (mem_cons_of_mem _ hb))]

theorem swappable_int (fo : FloatOps) (a b : Val) (ha : a = .null ∨ ∃ i, a = .int i) (hb : b = .null ∨ ∃ i, b = .int i) :
    Swappable fo a b := by
  rcases ha with rfl | ⟨i, rfl⟩ <;> rcases hb with rfl | ⟨j, rfl⟩
  · rfl
  · rfl
  · rfl
  · simp [Swappable, Val.cmp3, Val.cmpNonNull, Except.map, int_compare_swap i j]

theorem all_filter_split {α : Type} (p q : α → Bool) (l : List α) :
    ((l.filter p).all q && (l.filter fun a => !p a).all q) = l.all q := by
  induction l with
  | nil => rfl
  | cons a l ih =>
    cases hp : p a <;> cases hq : q a <;> simp [hp, hq, ← ih]

/-- with the flip in place, the Semi/Anti join the rule builds tests exactly the subquery's correlation predicates -/
theorem existsMatch_eq (fo : FloatOps) (ps : List CorrPred) (l r : Row)
    (hsw : ∀ p ∈ ps, Swappable fo (l.getD p.outerCol .null) (r.getD p.innerCol .null)) :
    existsMatch {} fo ps l r = ps.all (fun p => p.holds fo l r) := by
  unfold existsMatch
  have e : (ps.filter fun p => !(p.op == .eq)).all (fun p => p.filterHolds {} fo l r) =
      (ps.filter fun p => !(p.op == .eq)).all (fun p => p.holds fo l r) := by
    apply all_congr_mem
    intro p hp
    exact cmpTrue_flip fo p.op _ _ (hsw p (mem_filter.mp hp).1)
  rw [e]
  exact all_filter_split (fun p => p.op == .eq) (fun p => p.holds fo l r) ps

/-! ### a Left join against a side with at most one partner per row is a lookup -/

theorem filter_eq_find_toList {α : Type} (p : α → Bool) (l : List α) (h : (l.filter p).length ≤ 1) :
    l.filter p = (l.find? p).toList := by
  induction l with
  | nil => rfl
  | cons a l ih =>
    by_cases hp : p a = true
    · simp only [filter_cons_of_pos hp, length_cons] at h
      have hnil : l.filter p = [] := by
        cases hf : l.filter p with
        | nil => rfl
        | cons b bs => rw [hf] at h; simp at h
      simp [hp, hnil]
    · have hp' : p a = false := by simpa using hp
      simp only [hp', Bool.false_eq_true, not_false_eq_true, filter_cons_of_neg] at h
      simp [hp', ih h]

theorem nlJoin_left_lookup (lw rw : Nat) (mm : Row → Row → Bool) (R G : Table)
    (hone : ∀ l ∈ R, (G.filter (mm l)).length ≤ 1) :
    nlJoin .left lw rw mm R G =
      R.map fun l => match G.find? (mm l) with
        | some r => l ++ r
        | none => l ++ nulls rw := by
  simp only [nlJoin]
  induction R with
  | nil => rfl
  | cons l R ih =>
    rw [flatMap_cons, map_cons, ih (fun l' hl' => hone l' (mem_cons_of_mem _ hl'))]
    rw [filter_eq_find_toList (mm l) G (hone l (by simp))]
    cases G.find? (mm l) <;> rfl

/-- in a duplicate-free key list at most one key is identical to a given value -/
theorem filter_eq_length_le_one (ks : List Val) (hnd : ks.Nodup) (a : Val) (p : Val → Bool)
    (hp : ∀ k ∈ ks, p k = true → k = a) : (ks.filter p).length ≤ 1 := by
  induction ks with
  | nil => simp
  | cons k ks ih =>
    have hnd' := nodup_cons.mp hnd
    have ih' := ih hnd'.2 (fun k' hk' => hp k' (mem_cons_of_mem _ hk'))
    by_cases hk : p k = true
    · have hka : k = a := hp k (by simp) hk
      have hnil : ks.filter p = [] := by
        rw [filter_eq_nil_iff]; intro k' hk' hpk'
        have : k' = a := hp k' (mem_cons_of_mem _ hk') hpk'
        exact hnd'.1 (hka ▸ this ▸ hk')
      simp [hk, hnil]
    · have hk' : p k = false := by simpa using hk
      simp [hk', ih']

theorem row_parts (l : Row) (a b : Val) :
    (l ++ [a, b]).take l.length = l ∧ (l ++ [a, b]).getD l.length .null = a ∧
      (l ++ [a, b]).getD (l.length + 1) .null = b := by
  simp [List.getD]

/-- the lookup the model performs is reading the Left join `R ⟕ {[k, w k]}`: `dflt` where the group-key column is NULL
    (no partner), the aggregate column otherwise -/
theorem leftjoin_lookup_rows (fo : FloatOps) (okey : Row → Val) (R : Table) (ks : List Val) (w : Val → Val) (lw : Nat)
    (dflt : Val) (hlw : ∀ l ∈ R, l.length = lw) (hnd : ks.Nodup)
    (hmatch : ∀ l ∈ R, ∀ k ∈ ks, eqTrue fo (okey l) k = true → k = okey l) :
    (R.map fun l => match (ks.map fun k => (k, w k)).find? (fun p => eqTrue fo (okey l) p.1) with
        | some p => (l, p.2)
        | none => (l, dflt)) =
      (nlJoin .left lw 2 (fun l r => eqTrue fo (okey l) (yOf r)) R (ks.map fun k => [k, w k])).map fun row =>
        (row.take lw, if (row.getD lw .null).isNull then dflt else row.getD (lw + 1) .null) := by
  have hone : ∀ l ∈ R, ((ks.map fun k => [k, w k]).filter (fun r => eqTrue fo (okey l) (yOf r))).length ≤ 1 := by
    intro l hl
    rw [filter_map, length_map]
    exact filter_eq_length_le_one ks hnd (okey l) _ (fun k hk' he => hmatch l hl k hk' he)
  rw [nlJoin_left_lookup lw 2 (fun l r => eqTrue fo (okey l) (yOf r)) R (ks.map fun k => [k, w k]) hone, map_map]
  apply map_congr_left
  intro l hl
  have e1 : (ks.map fun k => (k, w k)).find? (fun p => eqTrue fo (okey l) p.1) =
      (ks.find? (eqTrue fo (okey l))).map fun k => (k, w k) := by rw [find?_map]; rfl
  have e2 : (ks.map fun k => [k, w k]).find? (fun r => eqTrue fo (okey l) (yOf r)) =
      (ks.find? (eqTrue fo (okey l))).map fun k => [k, w k] := by rw [find?_map]; rfl
  simp only [Function.comp, e1, e2]
  have hll := hlw l hl
  subst hll
  cases hfk : ks.find? (eqTrue fo (okey l)) with
  | none =>
    obtain ⟨h1, h2, _⟩ := row_parts l .null .null
    show (l, dflt) = ((l ++ [Val.null, Val.null]).take l.length,
      if ((l ++ [Val.null, Val.null]).getD l.length .null).isNull then dflt
      else (l ++ [Val.null, Val.null]).getD (l.length + 1) .null)
    rw [h1, h2]; rfl
  | some k =>
    obtain ⟨h1, h2, h3⟩ := row_parts l k (w k)
    have hkn : k.isNull = false := by
      have he : eqTrue fo (okey l) k = true := find?_some hfk
      cases hkk : k.isNull with
      | false => rfl
      | true => rw [eqTrue_null_right fo (okey l) k hkk] at he; cases he
    show (l, w k) = ((l ++ [k, w k]).take l.length,
      if ((l ++ [k, w k]).getD l.length .null).isNull then dflt else (l ++ [k, w k]).getD (l.length + 1) .null)
    rw [h1, h2, h3, hkn]; rfl

/-- for `dflt = NULL` the CASE is the aggregate column itself (it is NULL wherever the key column is) -/
theorem leftjoin_lookup_rows_null (fo : FloatOps) (okey : Row → Val) (R : Table) (ks : List Val) (w : Val → Val) (lw : Nat)
    (hlw : ∀ l ∈ R, l.length = lw) (hnd : ks.Nodup)
    (hmatch : ∀ l ∈ R, ∀ k ∈ ks, eqTrue fo (okey l) k = true → k = okey l) :
    (R.map fun l => match (ks.map fun k => (k, w k)).find? (fun p => eqTrue fo (okey l) p.1) with
        | some p => (l, p.2)
        | none => (l, Val.null)) =
      (nlJoin .left lw 2 (fun l r => eqTrue fo (okey l) (yOf r)) R (ks.map fun k => [k, w k])).map fun row =>
        (row.take lw, row.getD (lw + 1) .null) := by
  have hone : ∀ l ∈ R, ((ks.map fun k => [k, w k]).filter (fun r => eqTrue fo (okey l) (yOf r))).length ≤ 1 := by
    intro l hl
    rw [filter_map, length_map]
    exact filter_eq_length_le_one ks hnd (okey l) _ (fun k hk' he => hmatch l hl k hk' he)
  rw [nlJoin_left_lookup lw 2 (fun l r => eqTrue fo (okey l) (yOf r)) R (ks.map fun k => [k, w k]) hone, map_map]
  apply map_congr_left
  intro l hl
  have e1 : (ks.map fun k => (k, w k)).find? (fun p => eqTrue fo (okey l) p.1) =
      (ks.find? (eqTrue fo (okey l))).map fun k => (k, w k) := by rw [find?_map]; rfl
  have e2 : (ks.map fun k => [k, w k]).find? (fun r => eqTrue fo (okey l) (yOf r)) =
      (ks.find? (eqTrue fo (okey l))).map fun k => [k, w k] := by rw [find?_map]; rfl
  simp only [Function.comp, e1, e2]
  have hll := hlw l hl
  subst hll
  cases hfk : ks.find? (eqTrue fo (okey l)) with
  | none =>
    obtain ⟨h1, _, h3⟩ := row_parts l .null .null
    show (l, Val.null) = ((l ++ [Val.null, Val.null]).take l.length, (l ++ [Val.null, Val.null]).getD (l.length + 1) .null)
    rw [h1, h3]
  | some k =>
    obtain ⟨h1, _, h3⟩ := row_parts l k (w k)
    show (l, w k) = ((l ++ [k, w k]).take l.length, (l ++ [k, w k]).getD (l.length + 1) .null)
    rw [h1, h3]

/-! ### the grouped aggregate and the Left join through `Spec.run` -/

theorem dedup_map_inj {α β : Type} [DecidableEq α] [DecidableEq β] (f : α → β) (hf : ∀ a b, f a = f b → a = b)
    (l : List α) : Bag.dedup (l.map f) = (Bag.dedup l).map f := by
  induction l with
  | nil => rfl
  | cons x xs ih =>
    simp only [map_cons, Bag.dedup, ih, filter_map]
    congr 2
    apply filter_congr
    intro a _
    simp only [Function.comp, ne_eq, decide_not, Bool.not_eq_eq_eq_not, Bool.not_not]
    by_cases h : a = x
    · simp [h]
    · have : f a ≠ f x := fun e => h (hf a x e)
      simp [h, this]

theorem mapM_map_ok {α β γ : Type} (h : α → β) (f : β → Except Err γ) (g : α → γ) (l : List α)
    (hfg : ∀ a ∈ l, f (h a) = .ok (g a)) : (l.map h).mapM f = .ok (l.map g) := by
  induction l with
  | nil => rfl
  | cons a l ih =>
    rw [map_cons, mapM_cons, hfg a (by simp), ih (fun b hb => hfg b (mem_cons_of_mem _ hb))]
    rfl

/-- one aggregate call over one group, inside an aggregate node -/
theorem aggGroup_single (fo : FloatOps) (fns : String → List Val → Except Err Val) (env : Env) (f : AggFn) (arg : Expr)
    (distinct : Bool) (rows : Table) (ev : Row → Val)
    (harg : ∀ r ∈ rows, eval (aggCx fo fns) (r :: env) arg = .ok (ev r)) :
    aggGroup (aggCx fo fns) env [⟨f, arg, distinct⟩] rows = (aggOf fo f distinct ev rows >>= fun v => pure [v]) := by
  have hargs : rows.mapM (fun r => eval (aggCx fo fns) (r :: env) arg) = .ok (rows.map ev) :=
    mapM_ok _ ev rows harg
  unfold aggGroup aggOf
  simp only [mapM_cons, mapM_nil]
  cases f <;> simp only [hargs, ok_bind, pure_bind] <;> try rfl
  all_goals (
    cases aggVal fo _ distinct rows.length (rows.map ev) <;> rfl)

/-- `SELECT kx, f(arg) FROM qS GROUP BY kx` is the model's `groupedAgg`, one row `[key, aggregate]` per group -/
theorem run_agg_grouped (fo : FloatOps) (fns : String → List Val → Except Err Val) (cat : List Table)
    (ctes : List Table) (env : Env) (qS : Query) (kx : Expr) (f : AggFn) (arg : Expr) (distinct : Bool) (S : Table)
    (key ev : Row → Val)
    (hq : run fo fns cat qS ctes env = .ok S)
    (hkey : ∀ r ∈ S, eval (aggCx fo fns) (r :: env) kx = .ok (key r))
    (harg : ∀ r ∈ S, eval (aggCx fo fns) (r :: env) arg = .ok (ev r))
    (hok : ∀ k ∈ S.map key, ∃ v, aggOf fo f distinct ev (S.filter fun r => key r = k) = .ok v) :
    run fo fns cat (.agg [kx] [⟨f, arg, distinct⟩] qS) ctes env =
      .ok (((dedupKeys (S.map key)).map fun k => (k, aggD fo f distinct ev (S.filter fun r => key r = k))).map
        fun p => [p.1, p.2]) := by
  rw [run]
  show (run fo fns cat qS ctes env >>= fun rows => aggregate (aggCx fo fns) env [kx] [⟨f, arg, distinct⟩] rows) = _
  rw [hq, ok_bind]
  unfold aggregate
  simp only [isEmpty_cons, Bool.false_eq_true, if_false]
  rw [mapM_ok _ (fun r => ([key r], r)) S (fun r hr => by
    rw [evalList, evalList, hkey r hr]; rfl)]
  rw [ok_bind, groupBy_eq]
  unfold groupSpec
  have hk1 : (S.map fun r => ([key r], r)).map (·.1) = (S.map key).map fun k => [k] := by
    rw [map_map, map_map]; rfl
  rw [hk1, dedup_map_inj (fun k : Val => [k]) (fun a b h => by simpa using h), map_map, map_map, ← dedupKeys_eq]
  apply mapM_map_ok
  intro k hk
  rw [dedupKeys_eq, Bag.mem_dedup] at hk
  have hrows : rowsOf [k] (S.map fun r => ([key r], r)) = S.filter fun r => key r = k := by
    unfold rowsOf
    rw [filter_map, map_map]
    have : ((fun p : Row × Row => p.2) ∘ fun r : Row => ([key r], r)) = id := rfl
    rw [this, map_id]
    apply filter_congr; intro r _
    simp [Function.comp]
  simp only [Function.comp, hrows]
  have hsub : ∀ r ∈ S.filter (fun r => key r = k), eval (aggCx fo fns) (r :: env) arg = .ok (ev r) :=
    fun r hr => harg r (mem_filter.mp hr).1
  rw [aggGroup_single fo fns env f arg distinct _ ev hsub, aggOf_eq_aggD (hok k hk)]
  rfl

/-- the Left join node `qR ⟕_{col i = col lw} qG` runs to the pure nested-loop left join on "`x = y` is TRUE" -/
theorem run_left_join (fo : FloatOps) (fns : String → List Val → Except Err Val) (cat : List Table)
    (ctes : List Table) (env : Env) (qR qG : Query) (lw rw i : Nat) (R G : Table)
    (hR : run fo fns cat qR ctes env = .ok R)
    (hG : run fo fns cat qG ctes env = .ok G)
    (hlw : ∀ l ∈ R, l.length = lw) (hi : i < lw) (hG1 : ∀ r ∈ G, r ≠ [])
    (hty : ∀ l ∈ R, ∀ r ∈ G, comparable fo (l.getD i .null) (yOf r) = true) :
    run fo fns cat (.join .left lw rw [] (inOn lw i) qR qG) ctes env =
      .ok (nlJoin .left lw rw (fun l r => eqTrue fo (l.getD i .null) (yOf r)) R G) := by
  rw [run_join, hR, ok_bind, hG, ok_bind]
  apply joinRows_eq_nlJoin
  intro l hl r hr
  rw [onTrue_inOn fo _ env lw i l r (hlw l hl) hi (hG1 r hr) rfl (hty l hl r hr)]
  simp [inMatch]

/-! ### equality predicates over columns -/

theorem eval_bin_eq (cx : EvalCtx) (fo : FloatOps) (env : Env) (e₁ e₂ : Expr) (a b : Val) (hfo : cx.fo = fo)
    (h₁ : eval cx env e₁ = .ok a) (h₂ : eval cx env e₂ = .ok b) :
    eval cx env (.bin .eq e₁ e₂) = compareOp fo .eq a b := by
  rw [eval, h₁, h₂, ok_bind, ok_bind, hfo]
  rfl

theorem onTrue_bin_eq (cx : EvalCtx) (fo : FloatOps) (env : Env) (e₁ e₂ : Expr) (row : Row) (a b : Val) (hfo : cx.fo = fo)
    (h₁ : eval cx (row :: env) e₁ = .ok a) (h₂ : eval cx (row :: env) e₂ = .ok b) (hc : comparable fo a b = true) :
    onTrue cx env (.bin .eq e₁ e₂) row = .ok (eqTrue fo a b) := by
  unfold onTrue
  rw [eval_bin_eq cx fo _ e₁ e₂ a b hfo h₁ h₂, compareOp_eq]
  unfold eqTrue
  cases h : Val.cmp3 fo a b with
  | error e =>
    have hf : comparable fo a b = false := by simp only [comparable, h]
    rw [hf] at hc; cases hc
  | ok o =>
    cases o with
    | none => rfl
    | some o => cases o <;> rfl

theorem where_bin_eq (cx : EvalCtx) (fo : FloatOps) (env : Env) (e₁ e₂ : Expr) (r : Row) (a b : Val) (hfo : cx.fo = fo)
    (h₁ : eval cx env e₁ = .ok a) (h₂ : eval cx env e₂ = .ok b) (hc : comparable fo a b = true) :
    (eval cx env (.bin .eq e₁ e₂) >>= whereKeep r) = .ok (if eqTrue fo a b = true then some r else none) := by
  rw [eval_bin_eq cx fo _ e₁ e₂ a b hfo h₁ h₂, compareOp_eq]
  unfold eqTrue
  cases h : Val.cmp3 fo a b with
  | error e =>
    have hf : comparable fo a b = false := by simp only [comparable, h]
    rw [hf] at hc; cases hc
  | ok o =>
    cases o with
    | none => rfl
    | some o => cases o <;> rfl

theorem getCol_zero (row : Row) (env : Env) (j : Nat) (hj : j < row.length) :
    getCol (row :: env) 0 j = .ok (row.getD j .null) := by
  simp [getCol, List.getD, hj]

theorem getCol_one (row l : Row) (env : Env) (i : Nat) (hi : i < l.length) :
    getCol (row :: l :: env) 1 i = .ok (l.getD i .null) := by
  simp [getCol, List.getD, hi]

theorem getD_append_right' (l r : Row) (j : Nat) : (l ++ r).getD (l.length + j) .null = r.getD j .null := by
  simp [List.getD, List.getElem?_append_right]

theorem getD_append_left' (l r : Row) (i : Nat) (hi : i < l.length) : (l ++ r).getD i .null = l.getD i .null := by
  simp [List.getD, List.getElem?_append_left hi]

/-- `σ_{col j = outer.col i}(qS)` run under the outer row `l` -/
theorem run_corr_filter (fo : FloatOps) (fns : String → List Val → Except Err Val) (cat : List Table)
    (ctes : List Table) (env : Env) (qS : Query) (i j : Nat) (l : Row) (S : Table)
    (hS : run fo fns cat qS ctes (l :: env) = .ok S) (hi : i < l.length) (hj : ∀ r ∈ S, j < r.length)
    (hty : ∀ r ∈ S, comparable fo (r.getD j .null) (l.getD i .null) = true) :
    run fo fns cat (.filter [] (.bin .eq (.col j) (.outer 1 i)) qS) ctes (l :: env) =
      .ok (S.filter fun r => eqTrue fo (r.getD j .null) (l.getD i .null)) := by
  rw [run_filter, hS, ok_bind]
  rw [filterMapM_ok _ (fun r => if eqTrue fo (r.getD j .null) (l.getD i .null) = true then some (id r) else none) S]
  · rw [filterMap_ite_some (fun r => eqTrue fo (r.getD j .null) (l.getD i .null)) id S, map_id]
  · intro r hr
    exact where_bin_eq _ fo _ _ _ r _ _ rfl (by rw [eval]; exact getCol_zero r _ j (hj r hr))
      (by rw [eval]; exact getCol_one r l env i hi) (hty r hr)

theorem any_congr_mem {α : Type} {f g : α → Bool} {l : List α} (h : ∀ a ∈ l, f a = g a) : l.any f = l.any g := by
  induction l with
  | nil => rfl
  | cons a l ih =>
    simp only [any_cons, h a (by simp), ih (fun b hb => h b (mem_cons_of_mem _ hb))]

end IQE.Subq
