/-
  IQE.Lemmas.Bag — the reusable bag (multiset-as-`List.Perm`) algebra of DESIGN §4.5 (namespace `IQE.Bag`):
  filter / map / flatMap / nested-loop product are `Perm`-congruent and distribute over `++`;
  loops commute; partition-by-any-function then concatenate is a permutation; batching (any
  chunking) then concatenating is the identity; `Spec.groupBy` is characterised in closed form
  (first-appearance keys × filtered rows) and therefore respects permutation up to group order.
  Second part (namespace `IQE.Lemmas.Bag`, written by the C01 owner): `Spec.subBag` / `Spec.bagEq`
  characterised by multiplicities and by `List.Perm`.
  Core `List.Perm` only — no Mathlib.
-/
import IQE.Spec.Query
import IQE.Spec.Acceptable
namespace IQE.Bag
open List

variable {α β γ κ : Type}

/-! ### congruence -/

theorem perm_filter (p : α → Bool) {l₁ l₂ : List α} (h : l₁ ~ l₂) : l₁.filter p ~ l₂.filter p := h.filter p
theorem perm_map (f : α → β) {l₁ l₂ : List α} (h : l₁ ~ l₂) : l₁.map f ~ l₂.map f := h.map f
theorem perm_filterMap (f : α → Option β) {l₁ l₂ : List α} (h : l₁ ~ l₂) : l₁.filterMap f ~ l₂.filterMap f :=
  h.filterMap f

/-- `flatMap` with pointwise-permuted bodies -/
theorem flatMap_perm_pointwise {l : List α} {f g : α → List β} (h : ∀ a ∈ l, f a ~ g a) :
    l.flatMap f ~ l.flatMap g := by
  induction l with
  | nil => simp
  | cons a l ih =>
    simp only [flatMap_cons]
    exact (h a (by simp)).append (ih fun b hb => h b (by simp [hb]))

/-- `flatMap` is `Perm`-congruent in both arguments -/
theorem perm_flatMap {l₁ l₂ : List α} {f g : α → List β} (hl : l₁ ~ l₂) (h : ∀ a ∈ l₁, f a ~ g a) :
    l₁.flatMap f ~ l₂.flatMap g :=
  (flatMap_perm_pointwise h).trans (hl.flatMap_right g)

/-! ### distribution over `++` -/

theorem filter_append' (p : α → Bool) (l₁ l₂ : List α) : (l₁ ++ l₂).filter p = l₁.filter p ++ l₂.filter p :=
  filter_append ..
theorem map_append' (f : α → β) (l₁ l₂ : List α) : (l₁ ++ l₂).map f = l₁.map f ++ l₂.map f := map_append ..
theorem flatMap_append' (f : α → List β) (l₁ l₂ : List α) :
    (l₁ ++ l₂).flatMap f = l₁.flatMap f ++ l₂.flatMap f := flatMap_append ..

/-- the body of a `flatMap` distributes over `++` up to permutation -/
theorem flatMap_append_body (l : List α) (f g : α → List β) :
    l.flatMap (fun a => f a ++ g a) ~ l.flatMap f ++ l.flatMap g := by
  induction l with
  | nil => simp
  | cons a l ih =>
    simp only [flatMap_cons]
    have h1 : (f a ++ g a) ++ flatMap (fun a => f a ++ g a) l ~ (f a ++ g a) ++ (flatMap f l ++ flatMap g l) :=
      (Perm.refl _).append ih
    refine h1.trans ?_
    simp only [append_assoc]
    refine (Perm.refl (f a)).append ?_
    rw [← append_assoc, ← append_assoc]
    exact perm_append_comm.append (Perm.refl _)

/-- nested loops commute -/
theorem flatMap_comm (l : List α) (r : List β) (f : α → β → List γ) :
    l.flatMap (fun a => r.flatMap (fun b => f a b)) ~ r.flatMap (fun b => l.flatMap (fun a => f a b)) := by
  induction l with
  | nil => simp
  | cons a l ih =>
    simp only [flatMap_cons]
    refine ((Perm.refl _).append ih).trans ?_
    exact (flatMap_append_body r (fun b => f a b) (fun b => flatMap (fun a => f a b) l)).symm

/-! ### the nested-loop product and its filtered form (the inner join) -/

/-- all pairs `(l, r)` with `m l r`, in nested-loop order -/
def pairs (m : α → β → Bool) (ls : List α) (rs : List β) : List (α × β) :=
  ls.flatMap fun l => (rs.filter (m l)).map fun r => (l, r)

theorem pairs_append_left (m : α → β → Bool) (l₁ l₂ : List α) (rs : List β) :
    pairs m (l₁ ++ l₂) rs = pairs m l₁ rs ++ pairs m l₂ rs := by simp [pairs]

theorem pairs_append_right (m : α → β → Bool) (ls : List α) (r₁ r₂ : List β) :
    pairs m ls (r₁ ++ r₂) ~ pairs m ls r₁ ++ pairs m ls r₂ := by
  unfold pairs
  simp only [filter_append, map_append]
  exact flatMap_append_body ls _ _

theorem pairs_perm_left (m : α → β → Bool) {l₁ l₂ : List α} (h : l₁ ~ l₂) (rs : List β) :
    pairs m l₁ rs ~ pairs m l₂ rs := h.flatMap_right _

theorem pairs_perm_right (m : α → β → Bool) (ls : List α) {r₁ r₂ : List β} (h : r₁ ~ r₂) :
    pairs m ls r₁ ~ pairs m ls r₂ :=
  flatMap_perm_pointwise fun l _ => (h.filter (m l)).map _

theorem pairs_perm (m : α → β → Bool) {l₁ l₂ : List α} {r₁ r₂ : List β} (hl : l₁ ~ l₂) (hr : r₁ ~ r₂) :
    pairs m l₁ r₁ ~ pairs m l₂ r₂ := (pairs_perm_left m hl r₁).trans (pairs_perm_right m l₂ hr)

/-- over any batching of the left input -/
theorem pairs_flatten_left (m : α → β → Bool) (chunks : List (List α)) (rs : List β) :
    pairs m chunks.flatten rs = (chunks.map fun c => pairs m c rs).flatten := by
  induction chunks with
  | nil => simp [pairs]
  | cons c cs ih => simp [pairs_append_left, ih]

theorem map_filter_eq_filterMap (p : β → Bool) (f : β → γ) (l : List β) :
    (l.filter p).map f = l.filterMap (fun b => if p b then some (f b) else none) := by
  induction l with
  | nil => rfl
  | cons b l ih => by_cases h : p b <;> simp [h, ih]

/-- swapping the loops (build on the other side) gives the same bag of pairs -/
theorem pairs_swap (m : α → β → Bool) (ls : List α) (rs : List β) :
    pairs m ls rs ~ (pairs (fun r l => m l r) rs ls).map fun p => (p.2, p.1) := by
  unfold pairs
  have e1 : ∀ l : α, (rs.filter (m l)).map (fun r => (l, r)) =
      rs.flatMap (fun r => if m l r then [(l, r)] else []) := by
    intro l
    induction rs with
    | nil => rfl
    | cons r rs ih => by_cases h : m l r <;> simp [h, ih, flatMap_cons]
  have e2 : ∀ r : β, ((ls.filter (fun l => m l r)).map (fun l => (r, l))).map (fun p : β × α => (p.2, p.1)) =
      ls.flatMap (fun l => if m l r then [(l, r)] else []) := by
    intro r
    induction ls with
    | nil => rfl
    | cons l ls ih => by_cases h : m l r <;> simp_all [flatMap_cons]
  rw [map_flatMap]
  simp only [e1, e2]
  exact flatMap_comm ls rs fun l r => if m l r then [(l, r)] else []

/-! ### partitions and batchings -/

/-- split by a predicate, then concatenate -/
theorem filter_split (p : α → Bool) (l : List α) : l.filter p ++ l.filter (fun x => !p x) ~ l :=
  filter_append_perm p l

/-- **partition by any function, then concatenate, is a permutation**: `ks` is any duplicate-free list
    of buckets that contains the bucket of every element (e.g. `List.range n` for `hash % n`). -/
theorem partition_perm [DecidableEq κ] (key : α → κ) (ks : List κ) (hnd : ks.Nodup) (l : List α)
    (hcov : ∀ a ∈ l, key a ∈ ks) : ks.flatMap (fun k => l.filter fun a => key a = k) ~ l := by
  induction l with
  | nil => simp
  | cons a l ih =>
    have ih' := ih fun b hb => hcov b (by simp [hb])
    have hk : key a ∈ ks := hcov a (by simp)
    have body : ∀ k ∈ ks, (a :: l).filter (fun b => key b = k) =
        (if key a = k then [a] else []) ++ l.filter (fun b => key b = k) := by
      intro k _; by_cases h : key a = k <;> simp [h]
    have e : ks.flatMap (fun k => (a :: l).filter fun b => key b = k) ~
        ks.flatMap (fun k => (if key a = k then [a] else []) ++ l.filter (fun b => key b = k)) :=
      flatMap_perm_pointwise fun k hk => by rw [body k hk]
    refine e.trans ?_
    refine (flatMap_append_body ks _ _).trans ?_
    have one : ks.flatMap (fun k => if key a = k then [a] else []) = [a] := by
      clear e body ih ih' hcov
      induction ks with
      | nil => simp at hk
      | cons k ks ihk =>
        have hnd' := (nodup_cons.mp hnd)
        by_cases h : key a = k
        · have : ∀ k' ∈ ks, (if key a = k' then [a] else []) = ([] : List α) := by
            intro k' hk'; have : k' ≠ k := fun e => hnd'.1 (e ▸ hk'); simp [h, this.symm]
          simp [h, flatMap_cons]
          intro k' hk'; have : k' ≠ k := fun e => hnd'.1 (e ▸ hk'); exact fun e => this (e ▸ rfl)
        · have hk' : key a ∈ ks := by
            rcases mem_cons.mp hk with h' | h'
            · exact absurd h' h
            · exact h'
          simp [h, flatMap_cons, ihk hnd'.2 hk']
    rw [one]
    exact (Perm.refl [a]).append ih'

/-- hash-partitioning into `n > 0` buckets by any function `h` -/
theorem hash_partition_perm (h : α → Nat) (n : Nat) (hn : 0 < n) (l : List α) :
    (List.range n).flatMap (fun i => l.filter fun a => h a % n = i) ~ l :=
  partition_perm (fun a => h a % n) (List.range n) nodup_range l
    (fun a _ => mem_range.mpr (Nat.mod_lt _ hn))

/-- any chunking is invisible to a per-row operator -/
theorem filter_flatten (p : α → Bool) (chunks : List (List α)) :
    (chunks.map (filter p)).flatten = chunks.flatten.filter p := by
  induction chunks with
  | nil => rfl
  | cons c cs ih => simp only [map_cons, flatten_cons, filter_append, ih]

theorem map_flatten' (f : α → β) (chunks : List (List α)) :
    (chunks.map (map f)).flatten = chunks.flatten.map f := by
  induction chunks with
  | nil => rfl
  | cons c cs ih => simp only [map_cons, flatten_cons, map_append, ih]

theorem flatMap_flatten (f : α → List β) (chunks : List (List α)) :
    (chunks.map (flatMap f)).flatten = chunks.flatten.flatMap f := by
  induction chunks with
  | nil => rfl
  | cons c cs ih => simp only [map_cons, flatten_cons, flatMap_append, ih]

/-- processing chunks in any order yields the same bag -/
theorem flatten_perm {c₁ c₂ : List (List α)} (h : c₁ ~ c₂) : c₁.flatten ~ c₂.flatten := h.flatten

/-! ### duplicate elimination keeping first occurrences (the shape of `Spec.dedupRows` / `Spec.dedupVals`) -/

def dedup [DecidableEq α] : List α → List α
  | [] => []
  | x :: xs => x :: (dedup xs).filter (fun y => y ≠ x)

theorem mem_dedup [DecidableEq α] (l : List α) (a : α) : a ∈ dedup l ↔ a ∈ l := by
  induction l with
  | nil => simp [dedup]
  | cons x xs ih =>
    simp only [dedup, mem_cons, mem_filter, ih, decide_eq_true_eq]
    by_cases h : a = x <;> simp [h]

theorem nodup_dedup [DecidableEq α] (l : List α) : (dedup l).Nodup := by
  induction l with
  | nil => simp [dedup]
  | cons x xs ih =>
    simp only [dedup, nodup_cons, mem_filter, decide_eq_true_eq]
    exact ⟨fun h => h.2 rfl, ih.filter _⟩

theorem dedup_filter_comm [DecidableEq α] (p : α → Bool) (l : List α) :
    dedup (l.filter p) = (dedup l).filter p := by
  induction l with
  | nil => simp [dedup]
  | cons x xs ih =>
    by_cases h : p x
    · simp only [filter_cons_of_pos h, dedup, ih, filter_filter]
      congr 1; apply filter_congr; intro y _; simp [Bool.and_comm]
    · simp only [h, Bool.false_eq_true, not_false_eq_true, filter_cons_of_neg, dedup, ih, filter_filter]
      apply filter_congr; intro y hy
      by_cases hyx : y = x
      · subst hyx; simp [h]
      · simp [hyx]

theorem dedup_append_singleton [DecidableEq α] (l : List α) (a : α) :
    dedup (l ++ [a]) = if a ∈ l then dedup l else dedup l ++ [a] := by
  induction l with
  | nil => simp [dedup]
  | cons x xs ih =>
    simp only [cons_append, dedup, ih, mem_cons]
    by_cases hax : a = x
    · subst hax
      by_cases hm : a ∈ xs <;> simp [hm, filter_append]
    · by_cases hm : a ∈ xs
      · simp [hm, hax]
      · simp [hm, hax, filter_append]

/-- two duplicate-free lists with the same members are permutations of each other -/
theorem perm_of_nodup_mem_iff [DecidableEq α] {l₁ l₂ : List α} (h₁ : l₁.Nodup) (h₂ : l₂.Nodup)
    (h : ∀ a, a ∈ l₁ ↔ a ∈ l₂) : l₁ ~ l₂ := by
  rw [perm_iff_count]
  intro a
  rw [h₁.count, h₂.count]
  simp [h a]

theorem dedup_perm [DecidableEq α] {l₁ l₂ : List α} (h : l₁ ~ l₂) : dedup l₁ ~ dedup l₂ :=
  perm_of_nodup_mem_iff (nodup_dedup _) (nodup_dedup _) fun a => by simp [mem_dedup, h.mem_iff]

theorem dedupRows_eq (t : Table) : Spec.dedupRows t = dedup t := by
  induction t with
  | nil => rfl
  | cons x xs ih => simp [Spec.dedupRows, dedup, ih]

theorem dedupVals_eq (t : List Val) : Spec.dedupVals t = dedup t := by
  induction t with
  | nil => rfl
  | cons x xs ih => simp [Spec.dedupVals, dedup, ih]

/-- DISTINCT respects permutation (up to order) -/
theorem dedupRows_perm {t₁ t₂ : Table} (h : t₁ ~ t₂) : Spec.dedupRows t₁ ~ Spec.dedupRows t₂ := by
  simpa [dedupRows_eq] using dedup_perm h

/-! ### `Spec.groupBy` in closed form -/

/-- the rows of group `k`, in input order -/
def rowsOf (k : Row) (keyed : List (Row × Row)) : Table := (keyed.filter fun p => p.1 = k).map (·.2)

/-- closed form of `Spec.groupBy`: first-appearance keys, each with its rows in input order -/
def groupSpec (keyed : List (Row × Row)) : List (Row × Table) :=
  (dedup (keyed.map (·.1))).map fun k => (k, rowsOf k keyed)

private def gstep (acc : List (Row × Table)) (x : Row × Row) : List (Row × Table) :=
  if acc.any (fun g => g.1 = x.1) then acc.map (fun g => if g.1 = x.1 then (g.1, g.2 ++ [x.2]) else g)
  else acc ++ [(x.1, [x.2])]

private theorem groupBy_eq_foldl (keyed : List (Row × Row)) : Spec.groupBy keyed = keyed.foldl gstep [] := by
  unfold Spec.groupBy
  congr 1

private theorem gstep_groupSpec (p : List (Row × Row)) (x : Row × Row) :
    gstep (groupSpec p) x = groupSpec (p ++ [x]) := by
  obtain ⟨k, r⟩ := x
  unfold gstep groupSpec
  simp only [map_append, map_cons, map_nil, dedup_append_singleton, any_map]
  by_cases hk : k ∈ p.map (·.1)
  · have hany : (dedup (p.map (·.1))).any ((fun g : Row × Table => decide (g.1 = k)) ∘ fun k' => (k', rowsOf k' p)) = true := by
      rw [any_eq_true]; exact ⟨k, (mem_dedup _ _).mpr hk, by simp⟩
    rw [if_pos hany, if_pos hk, map_map]
    apply map_congr_left
    intro k' _
    by_cases h : k' = k
    · subst h; simp [rowsOf, filter_append]
    · simp [rowsOf, filter_append, h, Ne.symm h]
  · have hany : ¬ (dedup (p.map (·.1))).any ((fun g : Row × Table => decide (g.1 = k)) ∘ fun k' => (k', rowsOf k' p)) = true := by
      rw [any_eq_true]; rintro ⟨k', hk', h⟩
      simp at h; subst h; exact hk ((mem_dedup _ _).mp hk')
    rw [if_neg hany, if_neg hk, map_append]
    congr 1
    · apply map_congr_left
      intro k' hk'
      have : k' ≠ k := fun e => hk (e ▸ (mem_dedup _ _).mp hk')
      simp [rowsOf, filter_append, Ne.symm this]
    · have : p.filter (fun q => q.1 = k) = [] := by
        rw [filter_eq_nil_iff]; intro q hq h; simp at h
        exact hk (mem_map.mpr ⟨q, hq, h⟩)
      simp [rowsOf, filter_append, this]

/-- **`Spec.groupBy` = first-appearance keys × filtered rows** -/
theorem groupBy_eq (keyed : List (Row × Row)) : Spec.groupBy keyed = groupSpec keyed := by
  rw [groupBy_eq_foldl]
  have : ∀ (s p : List (Row × Row)), s.foldl gstep (groupSpec p) = groupSpec (p ++ s) := by
    intro s
    induction s with
    | nil => simp
    | cons x s ih => intro p; simp only [foldl_cons, gstep_groupSpec, ih]; simp
  simpa [groupSpec, dedup] using this keyed []

theorem groupBy_keys_nodup (keyed : List (Row × Row)) : ((Spec.groupBy keyed).map (·.1)).Nodup := by
  rw [groupBy_eq]; simp only [groupSpec, map_map]
  have : ((fun x : Row × Table => x.1) ∘ fun k => (k, rowsOf k keyed)) = id := rfl
  rw [this, map_id]; exact nodup_dedup _

/-- every key value occurring in the input (NULL components included) forms exactly one group -/
theorem groupBy_mem_iff (keyed : List (Row × Row)) (k : Row) (rows : Table) :
    (k, rows) ∈ Spec.groupBy keyed ↔ (k ∈ keyed.map (·.1) ∧ rows = rowsOf k keyed) := by
  rw [groupBy_eq]; simp only [groupSpec, mem_map, mem_dedup]
  constructor
  · rintro ⟨k', hk', h⟩; cases h; exact ⟨hk', rfl⟩
  · rintro ⟨hk, rfl⟩; exact ⟨k, hk, rfl⟩

/-- groups are never empty -/
theorem groupBy_group_ne_nil (keyed : List (Row × Row)) (k : Row) (rows : Table)
    (h : (k, rows) ∈ Spec.groupBy keyed) : rows ≠ [] := by
  obtain ⟨hk, rfl⟩ := (groupBy_mem_iff _ _ _).mp h
  obtain ⟨q, hq, rfl⟩ := mem_map.mp hk
  intro e
  have : q.2 ∈ rowsOf q.1 keyed := mem_map.mpr ⟨q, mem_filter.mpr ⟨hq, by simp⟩, rfl⟩
  rw [e] at this; simp at this

/-- concatenating the groups gives back the input rows, as a bag -/
theorem groupBy_flatten_perm (keyed : List (Row × Row)) :
    ((Spec.groupBy keyed).map (·.2)).flatten ~ keyed.map (·.2) := by
  rw [groupBy_eq]; simp only [groupSpec, map_map]
  have e : ((dedup (keyed.map (·.1))).map ((fun x : Row × Table => x.2) ∘ fun k => (k, rowsOf k keyed))).flatten =
      ((dedup (keyed.map (·.1))).flatMap fun k => keyed.filter fun p => p.1 = k).map (·.2) := by
    rw [map_flatMap, flatMap_def]; rfl
  rw [e]
  exact (partition_perm (fun p : Row × Row => p.1) _ (nodup_dedup _) keyed
    (fun a ha => (mem_dedup _ _).mpr (mem_map.mpr ⟨a, ha, rfl⟩))).map _

/-- pointwise relation of two lists (core has no `Forall₂`) -/
inductive Forall2 (R : α → β → Prop) : List α → List β → Prop
  | nil : Forall2 R [] []
  | cons {a b l₁ l₂} : R a b → Forall2 R l₁ l₂ → Forall2 R (a :: l₁) (b :: l₂)

/-- Two group lists are the same "up to group order and order inside groups". -/
def GroupsEquiv (g₁ g₂ : List (Row × Table)) : Prop :=
  ∃ g, g₁ ~ g ∧ Forall2 (fun a b : Row × Table => a.1 = b.1 ∧ a.2 ~ b.2) g g₂

/-- **`groupBy` respects permutation up to group order** -/
theorem groupBy_perm {k₁ k₂ : List (Row × Row)} (h : k₁ ~ k₂) :
    GroupsEquiv (Spec.groupBy k₁) (Spec.groupBy k₂) := by
  rw [groupBy_eq, groupBy_eq]
  have hk : dedup (k₁.map (·.1)) ~ dedup (k₂.map (·.1)) := dedup_perm (h.map _)
  refine ⟨(dedup (k₂.map (·.1))).map fun k => (k, rowsOf k k₁), ?_, ?_⟩
  · exact hk.map _
  · unfold groupSpec
    generalize dedup (k₂.map (·.1)) = ks
    induction ks with
    | nil => exact .nil
    | cons k ks ih => exact .cons ⟨rfl, ((h.filter _).map _)⟩ ih

/-- in particular the bag of `(key, |group|)` pairs is invariant -/
theorem groupBy_perm_sizes {k₁ k₂ : List (Row × Row)} (h : k₁ ~ k₂) :
    (Spec.groupBy k₁).map (fun g => (g.1, g.2.length)) ~ (Spec.groupBy k₂).map (fun g => (g.1, g.2.length)) := by
  obtain ⟨g, hp, hf⟩ := groupBy_perm h
  refine (hp.map _).trans ?_
  clear hp
  generalize Spec.groupBy k₂ = g₂ at hf
  induction hf with
  | nil => exact .refl _
  | cons hab _ ih =>
    simp only [map_cons]
    rw [hab.1, hab.2.length_eq]
    exact ih.cons _

/-- grouping commutes with any partition that respects the key: the groups of a part are exactly the
    groups of the whole whose key falls in the part. -/
theorem groupBy_filter_key (keyed : List (Row × Row)) (p : Row → Bool) :
    Spec.groupBy (keyed.filter fun q => p q.1) = (Spec.groupBy keyed).filter fun g => p g.1 := by
  rw [groupBy_eq, groupBy_eq]
  unfold groupSpec
  have e1 : (keyed.filter fun q => p q.1).map (·.1) = (keyed.map (·.1)).filter p := by
    induction keyed with
    | nil => rfl
    | cons q qs ih => by_cases h : p q.1 <;> simp [h, ih]
  rw [e1, dedup_filter_comm, filter_map]
  simp only [Function.comp_def]
  apply map_congr_left
  intro k hk
  have hpk : p k = true := (mem_filter.mp hk).2
  simp only [rowsOf, filter_filter]
  congr 2
  apply filter_congr; intro q _
  by_cases h : q.1 = k
  · simp [h, hpk]
  · simp [h]

/-! ### small list identities used by the join lemmas (kept free of `simp` normal forms) -/

theorem flatMap_congr' {l : List α} {f g : α → List β} (h : ∀ a ∈ l, f a = g a) : l.flatMap f = l.flatMap g := by
  induction l with
  | nil => rfl
  | cons a l ih =>
    simp only [flatMap_cons]
    rw [h a (by simp), ih fun b hb => h b (by simp [hb])]

theorem filterMap_ite_some (c : α → Bool) (f : α → β) (l : List α) :
    l.filterMap (fun a => if c a = true then some (f a) else none) = (l.filter c).map f := by
  induction l with
  | nil => rfl
  | cons a l ih => cases h : c a <;> simp [h, ih]

theorem filterMap_ite_none (c : α → Bool) (f : α → β) (l : List α) :
    l.filterMap (fun a => if c a = true then none else some (f a)) = (l.filter fun a => !c a).map f := by
  induction l with
  | nil => rfl
  | cons a l ih => cases h : c a <;> simp [h, ih]

theorem flatMap_ite_singleton (c : α → Bool) (f : α → β) (l : List α) :
    l.flatMap (fun a => if c a = true then [f a] else []) = (l.filter c).map f := by
  induction l with
  | nil => rfl
  | cons a l ih => cases h : c a <;> simp [h, ih]

theorem flatMap_ite_nil (c : α → Bool) (f : α → β) (l : List α) :
    l.flatMap (fun a => if c a = true then [] else [f a]) = (l.filter fun a => !c a).map f := by
  induction l with
  | nil => rfl
  | cons a l ih => cases h : c a <;> simp [h, ih]

/-! ### `Except` helpers: a monadic map / filterMap whose body never fails is the pure one -/

theorem mapM_ok {ε : Type} (f : α → Except ε β) (g : α → β) (l : List α) (h : ∀ a ∈ l, f a = .ok (g a)) :
    l.mapM f = .ok (l.map g) := by
  induction l with
  | nil => simp [pure, Except.pure]
  | cons a l ih =>
    rw [List.mapM_cons, h a (by simp), ih (fun b hb => h b (by simp [hb]))]
    rfl

theorem filterMapM_ok {ε : Type} (f : α → Except ε (Option β)) (g : α → Option β) (l : List α)
    (h : ∀ a ∈ l, f a = .ok (g a)) : l.filterMapM f = .ok (l.filterMap g) := by
  induction l with
  | nil => simp [pure, Except.pure]
  | cons a l ih =>
    rw [List.filterMapM_cons, h a (by simp), ih (fun b hb => h b (by simp [hb]))]
    cases hg : g a <;> simp [hg] <;> rfl

end IQE.Bag

/-! ## `Spec.subBag` / `Spec.bagEq` by multiplicities and `List.Perm` (C01) -/

namespace IQE.Lemmas.Bag
open IQE IQE.Spec

theorem removeFirst_eq_erase (r : Row) (t : Table) : removeFirst r t = t.erase r := by
  induction t with
  | nil => rfl
  | cons x xs ih =>
    simp only [removeFirst, List.erase_cons]
    by_cases h : x = r
    · subst h; simp
    · have : (x == r) = false := by simpa using h
      simp [h, this, ih]

theorem subBag_iff_count (a b : Table) : subBag a b = true ↔ ∀ x, a.count x ≤ b.count x := by
  induction a generalizing b with
  | nil => simp [subBag]
  | cons y ys ih =>
    simp only [subBag, Bool.and_eq_true, ih, removeFirst_eq_erase, List.contains_iff_mem, List.count_erase, List.count_cons]
    constructor
    · rintro ⟨hm, h⟩ x
      have := h x
      have hp : 0 < b.count y := List.count_pos_iff.mpr hm
      by_cases hx : y = x
      · subst hx; simp at this ⊢; omega
      · have : (y == x) = false := by simpa using hx
        have h2 : (x == y) = false := by simpa using (fun e => hx e.symm)
        simp_all
    · intro h
      have hy := h y
      simp at hy
      have hm : y ∈ b := List.count_pos_iff.mp (by omega)
      refine ⟨hm, fun x => ?_⟩
      have := h x
      by_cases hx : y = x
      · subst hx; simp at this ⊢; omega
      · have h1 : (y == x) = false := by simpa using hx
        have h2 : (x == y) = false := by simpa using (fun e => hx e.symm)
        simp_all

theorem subBag_refl (a : Table) : subBag a a = true := (subBag_iff_count a a).mpr (fun _ => Nat.le_refl _)

theorem bagEq_refl (a : Table) : bagEq a a = true := by simp [bagEq, subBag_refl]

theorem perm_of_bagEq (a b : Table) (h : bagEq a b = true) : a.Perm b := by
  induction a generalizing b with
  | nil =>
    simp [bagEq, subBag] at h
    have : b = [] := List.eq_nil_of_length_eq_zero h.symm
    subst this; exact List.Perm.refl _
  | cons y ys ih =>
    simp only [bagEq, subBag, Bool.and_eq_true, beq_iff_eq, List.length_cons, removeFirst_eq_erase, List.contains_iff_mem] at h
    obtain ⟨hl, hm, hs⟩ := h
    have hlen : (b.erase y).length = ys.length := by rw [List.length_erase_of_mem hm]; omega
    have : ys.Perm (b.erase y) := ih _ (by simp [bagEq, hs, hlen])
    exact (List.Perm.cons y this).trans (List.perm_cons_erase hm).symm

theorem bagEq_of_perm (a b : Table) (h : a.Perm b) : bagEq a b = true := by
  simp only [bagEq, Bool.and_eq_true, beq_iff_eq]
  exact ⟨h.length_eq, (subBag_iff_count a b).mpr (fun x => Nat.le_of_eq (h.count_eq x))⟩

theorem bagEq_iff_perm (a b : Table) : bagEq a b = true ↔ a.Perm b := ⟨perm_of_bagEq a b, bagEq_of_perm a b⟩

theorem subBag_of_sublist (a b : Table) (h : a.Sublist b) : subBag a b = true :=
  (subBag_iff_count a b).mpr (fun _ => h.count_le _)

end IQE.Lemmas.Bag
