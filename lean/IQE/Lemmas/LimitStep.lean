/-
  IQE.Lemmas.LimitStep — one call of the TRANSLATED `LimitState::take_from` in closed form, and its overflow /
  slice side conditions.  (Split from LimitStream because the case analysis takes about a minute to check.)
  Original header: the LimitExec stream loop (IQE.Engine.SortLimit.runParts) around the TRANSLATED
  `LimitState::take_from` / `satisfied` (IQE.Gen.Limit) emits exactly the rows `skip … skip+fetch` of the
  concatenated input, for every cut of the input into partitions and batches; it never overflows `usize`
  nor slices out of bounds; and it opens exactly the partitions that start before the limit is satisfied.
-/
import IQE.Engine.SortLimit
namespace IQE.Lemmas.LimitStream
open IQE IQE.Gen.Limit IQE.Engine.SortLimit

theorem run_ite {α} (c : Prop) [Decidable c] (x y : Id α) : (if c then x else y).run = if c then x.run else y.run := by
  split <;> rfl

/-! ### one call of the generated `take_from`, in closed form -/

/-- rows of the batch that fall into the OFFSET -/
def skOf (st : LimitState) (b : Slice) : Int := if st.skip - st.skipped ≤ b.len then st.skip - st.skipped else b.len

/-- rows of the batch that are emitted -/
def emitOf (st : LimitState) (b : Slice) : Int :=
  let avail := b.len - skOf st b
  match st.fetch with
  | some l => if l - st.fetched ≤ avail then (if l ≥ st.fetched then l - st.fetched else 0) else avail
  | none => avail

theorem cmp_eq_true (a b : Int) : (Rs.Cmp.eq a b = true) = (a = b) := by simp [Rs.Cmp.eq]
theorem cmp_lt_true (a b : Int) : (Rs.Cmp.lt a b = true) = (a < b) := by simp [Rs.Cmp.lt]

theorem take_from_eq (st : LimitState) (b : Slice) (h2 : st.skipped ≤ st.skip) (h3 : 0 ≤ b.len) :
    st.take_from b = ({ st with skipped := st.skipped + skOf st b, fetched := st.fetched + emitOf st b },
      if emitOf st b = 0 then none else some ⟨b.off + skOf st b, emitOf st b⟩) := by
  unfold LimitState.take_from
  have fin : ∀ (a b : LimitState) (x y : Option Slice), a = b → x = y → (a, x) = (b, y) := by intros; simp_all
  have bext : ∀ (x y : Int), b.off = x → b.len = y → b = ⟨x, y⟩ := by intro x y h1 h2; cases b; simp_all
  simp +zetaHave only [skOf, emitOf, Slice.num_rows, Slice.slice, Rs.min, Rs.satSubU, cmp_eq_true, cmp_lt_true]
  simp only [run_ite, Id.run_pure, pure_bind, ge_iff_le]
  rcases Int.lt_or_le st.skipped st.skip with t1 | t1 <;>
  rcases Int.lt_trichotomy (st.skip - st.skipped) b.len with t2 | t2 | t2
  all_goals
    cases hf : st.fetch with
    | none =>
      simp (disch := omega) only [if_pos, if_neg]
      first | done | (apply fin <;> simp <;> omega) |
        (apply fin; (simp; omega); (simp only [Option.some.injEq]; apply bext <;> omega))
    | some l =>
      rcases Int.lt_or_le st.fetched l with t3 | t3 <;>
      rcases Int.lt_trichotomy (l - st.fetched)
        (b.len - (if st.skip - st.skipped ≤ b.len then st.skip - st.skipped else b.len)) with t4 | t4 | t4 <;>
      simp (disch := omega) only [if_pos, if_neg] <;>
      first | done | (apply fin <;> simp <;> omega) |
        (apply fin; (simp; omega); (simp only [Option.some.injEq]; apply bext <;> omega))

/-- the side conditions the translator attached to `take_from` hold whenever the counters are consistent -/
theorem take_from_inRange_of (st : LimitState) (b : Slice) (h1 : 0 ≤ st.skipped) (h2 : st.skipped ≤ st.skip) (h3 : 0 ≤ b.len)
    (h4 : 0 ≤ st.fetched) (hU1 : st.skip ≤ Rs.USIZE_MAX) (hU2 : st.fetched + b.len ≤ Rs.USIZE_MAX) :
    st.take_from_inRange b := by
  unfold LimitState.take_from_inRange
  simp +zetaHave only [Slice.num_rows, Slice.slice, Slice.sliceOk, Rs.min, Rs.satSubU, cmp_eq_true, cmp_lt_true]
  simp only [run_ite, Id.run_pure, pure_bind, ge_iff_le, true_and]
  rcases Int.lt_or_le st.skipped st.skip with t1 | t1 <;>
  rcases Int.lt_trichotomy (st.skip - st.skipped) b.len with t2 | t2 | t2
  all_goals
    cases hf : st.fetch with
    | none =>
      simp (disch := omega) only [if_pos, if_neg]
      first | done | omega | (simp; try omega)
    | some l =>
      rcases Int.lt_or_le st.fetched l with t3 | t3 <;>
      rcases Int.lt_trichotomy (l - st.fetched)
        (b.len - (if st.skip - st.skipped ≤ b.len then st.skip - st.skipped else b.len)) with t4 | t4 | t4 <;>
      simp (disch := omega) only [if_pos, if_neg] <;>
      first | done | omega | (simp; try omega)

end IQE.Lemmas.LimitStream
