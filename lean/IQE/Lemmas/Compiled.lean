/-
  IQE.Lemmas.Compiled — lemmas for C06: the chunk / bit-packing round trip for every length, and the
  correctness of the register compiler (IQE.Engine.Compiled) against a direct denotation and against the interpreter model.
-/
import IQE.Engine.Compiled
import IQE.Lemmas.Filter
import IQE.Lemmas.F64Order
namespace IQE.Engine.Compiled
open IQE IQE.Spec
open IQE.Gen.Compiled (Cmp CHUNK MAX_REGS)

/-! ### bit packing -/

theorem packByte_bit : ∀ (l : List Bool) (k : Nat), k < l.length → (packByte l / 2 ^ k) % 2 = (l.getD k false).toNat := by
  intro l
  induction l with
  | nil => intro k h; simp at h
  | cons b bs ih =>
    intro k h
    cases k with
    | zero => simp only [packByte, Nat.pow_zero, Nat.div_one, List.getD_cons_zero]; cases b <;> simp <;> omega
    | succ k =>
      have hk : k < bs.length := by simpa using h
      have e : (packByte (b :: bs)) / 2 ^ (k + 1) = packByte bs / 2 ^ k := by
        rw [Nat.pow_succ, Nat.mul_comm, ← Nat.div_div_eq_div_mul]
        congr 1
        simp only [packByte]; cases b <;> simp <;> omega
      rw [e, ih k hk]; simp

theorem getBit_pack (bits : List Bool) (i : Nat) (h : i < bits.length) : getBit (pack bits) i = bits.getD i false := by
  unfold getBit pack
  have hj : i / 8 < (bits.length + 7) / 8 := by omega
  have e1 : ((List.range ((bits.length + 7) / 8)).map (fun j => packByte ((bits.drop (8 * j)).take 8))).getD (i / 8) 0
      = packByte ((bits.drop (8 * (i / 8))).take 8) := by
    simp [List.getD_eq_getElem?_getD, List.getElem?_map, List.getElem?_range hj]
  rw [e1]
  have hlen : i % 8 < ((bits.drop (8 * (i / 8))).take 8).length := by
    simp only [List.length_take, List.length_drop]; omega
  rw [packByte_bit _ _ hlen]
  have e2 : ((bits.drop (8 * (i / 8))).take 8).getD (i % 8) false = bits.getD i false := by
    simp only [List.getD_eq_getElem?_getD, List.getElem?_take, List.getElem?_drop]
    have : i % 8 < 8 := Nat.mod_lt _ (by decide)
    have e3 : 8 * (i / 8) + i % 8 = i := Nat.div_add_mod i 8
    simp [this, e3]
  rw [e2]
  cases bits.getD i false <;> rfl

/-- one chunk: what `append_packed_range(0..len, &packed)` appends is exactly the chunk's 0/1 values, for every chunk length -/
theorem unpack_pack (bits : List Bool) : unpack bits.length (pack bits) = bits := by
  apply List.ext_getElem
  · simp [unpack]
  · intro i h1 h2
    simp only [unpack, List.getElem_map, List.getElem_range]
    rw [getBit_pack bits i h2]
    simp [List.getD_eq_getElem?_getD, h2]

/-- the chunk loop: for EVERY batch length (multiples of 1024 or not) the appended bits are the per-row bits, in order -/
theorem pack_chunks (f : Row → Bool) : ∀ (fuel : Nat) (rows : List Row), rows.length < fuel → evalChunks f fuel rows = rows.map f := by
  intro fuel
  induction fuel with
  | zero => intro rows h; omega
  | succ fuel ih =>
    intro rows h
    unfold evalChunks
    by_cases he : rows.isEmpty = true
    · simp only [he, if_true]; cases rows <;> simp_all
    · simp only [he]
      have hne : rows.length ≥ 1 := by cases rows <;> simp_all
      have hc : CHUNK.toNat = 1024 := by decide
      have e : (rows.take CHUNK.toNat).length = ((rows.take CHUNK.toNat).map f).length := by simp
      rw [e, unpack_pack]
      rw [ih (rows.drop CHUNK.toNat) (by simp only [List.length_drop, hc]; omega)]
      rw [← List.map_append, List.take_append_drop]
      simp

/-! ### the compiled subset as typing derivations (what a successful compile establishes) -/

inductive NumOK (sch : List CTy) : PExpr → Prop
  | col {c : Nat} : sch[c]? = some .f64 → NumOK sch (.col c)
  | lit {x : F64} : NumOK sch (.litF64 x)
  | arith {op : BinOp} {a b : PExpr} : isArith op = true → NumOK sch a → NumOK sch b → NumOK sch (.bin op a b)

inductive SideOK (sch : List CTy) : PExpr → CTy → Prop
  | col {c : Nat} {t : CTy} : sch[c]? = some t → t ≠ .other → SideOK sch (.col c) t
  | litF64 {x : F64} : SideOK sch (.litF64 x) .f64
  | litI64 {n : Int} : SideOK sch (.litI64 n) .i64
  | litI32 {n : Int} : SideOK sch (.litI32 n) .i32
  | litDate {n : Int} : SideOK sch (.litDate n) .date32
  | arith {op : BinOp} {a b : PExpr} : NumOK sch (.bin op a b) → SideOK sch (.bin op a b) .f64

inductive CmpOK (sch : List CTy) : PExpr → PExpr → Prop
  | mk {l r : PExpr} {t : CTy} : SideOK sch l t → SideOK sch r t → CmpOK sch l r

inductive BoolOK (sch : List CTy) : PExpr → Prop
  | and {a b : PExpr} : BoolOK sch a → BoolOK sch b → BoolOK sch (.bin .and a b)
  | or {a b : PExpr} : BoolOK sch a → BoolOK sch b → BoolOK sch (.bin .or a b)
  | cmp {op : BinOp} {c : Cmp} {l r : PExpr} : cmpOf op = some c → CmpOK sch l r → BoolOK sch (.bin op l r)
  | not {e : PExpr} : BoolOK sch e → BoolOK sch (.not e)
  | between {e lo hi : PExpr} {neg : Bool} : CmpOK sch e lo → CmpOK sch e hi → BoolOK sch (.between e lo hi neg)

/-! ### register machine: frames -/

theorem run_append (dev : Dev) (fo : FloatOps) (C : List Nat) (r : Row) (a b : List Instr) (rs : RS) :
    run dev fo C r (a ++ b) rs = run dev fo C r b (run dev fo C r a rs) := by
  simp [run, List.foldl_append]

theorem run_nil (dev : Dev) (fo : FloatOps) (C : List Nat) (r : Row) (rs : RS) : run dev fo C r [] rs = rs := rfl
theorem run_single (dev : Dev) (fo : FloatOps) (C : List Nat) (r : Row) (i : Instr) (rs : RS) : run dev fo C r [i] rs = exec dev fo C r rs i := rfl

/-- SSA shape of a program segment, continuation style: it composes by `∘` -/
def SsaSeg (new : List Instr) (nf nm nf' nm' : Nat) : Prop :=
  ∀ rest, ssaFrom rest nf' nm' = true → ssaFrom (new ++ rest) nf nm = true

theorem SsaSeg.nil (nf nm : Nat) : SsaSeg [] nf nm nf nm := fun _ h => h
theorem SsaSeg.append {a b : List Instr} {nf nm nf1 nm1 nf2 nm2 : Nat} (ha : SsaSeg a nf nm nf1 nm1) (hb : SsaSeg b nf1 nm1 nf2 nm2) :
    SsaSeg (a ++ b) nf nm nf2 nm2 := by
  intro rest h
  rw [List.append_assoc]
  exact ha _ (hb _ h)

theorem srcBelow_mono {n n' : Nat} {src : Src} (h : srcBelow n src = true) (hn : n ≤ n') : srcBelow n' src = true := by
  cases src <;> simp_all [srcBelow]; omega

theorem srcF_congr (C : List Nat) (r : Row) {n : Nat} {src : Src} {rs1 rs2 : RS} (h : srcBelow n src = true)
    (hf : ∀ k, k < n → rs2.f k = rs1.f k) : srcF C r rs2 src = srcF C r rs1 src := by
  cases src <;> simp_all [srcF, srcBelow]

/-! ### `col_slot`, `falloc`, `malloc` -/

theorem position_some {c : Nat} : ∀ {l : List Nat} {i : Nat}, position c l = some i → l[i]? = some c := by
  intro l
  induction l with
  | nil => intro i h; simp [position] at h
  | cons x xs ih =>
    intro i h
    simp only [position] at h
    split at h
    · cases h; simp_all
    · simp only [Option.map_eq_some_iff] at h
      obtain ⟨j, hj, rfl⟩ := h
      simpa using ih hj

theorem colSlot_spec {s s' : CState} {c i : Nat} {dt : CTy} (h : colSlot s c dt = some (i, s')) :
    s'.prog = s.prog ∧ s'.nextF = s.nextF ∧ s'.nextM = s.nextM ∧
    (∃ more, s'.cols = s.cols ++ more ∧ ∀ x ∈ more, x = c) ∧ s'.cols[i]? = some c := by
  unfold colSlot at h
  split at h
  · rename_i j hj
    split at h
    · cases h
      exact ⟨rfl, rfl, rfl, ⟨[], by simp, by simp⟩, position_some hj⟩
    · cases h
  · cases h
    exact ⟨rfl, rfl, rfl, ⟨[c], rfl, by simp⟩, by simp⟩

theorem falloc_spec {s s' : CState} {d : Nat} (h : falloc s = some (d, s')) :
    d = s.nextF ∧ s' = { s with nextF := s.nextF + 1 } ∧ ((s.nextF + 1 : Nat) : Int) ≤ MAX_REGS := by
  unfold falloc at h
  split at h
  · cases h
  · cases h
    refine ⟨rfl, rfl, ?_⟩
    have : MAX_REGS = 24 := rfl
    omega

theorem malloc_spec {s s' : CState} {d : Nat} (h : malloc s = some (d, s')) :
    d = s.nextM ∧ s' = { s with nextM := s.nextM + 1 } ∧ ((s.nextM + 1 : Nat) : Int) ≤ MAX_REGS := by
  unfold malloc at h
  split at h
  · cases h
  · cases h
    refine ⟨rfl, rfl, ?_⟩
    have : MAX_REGS = 24 := rfl
    omega

theorem getD_ext {C cols t : List Nat} {i c : Nat} (hC : C = cols ++ t) (h : cols[i]? = some c) : C.getD i 0 = c := by
  subst hC
  have hi : i < cols.length := by
    rcases Nat.lt_or_ge i cols.length with h' | h'
    · exact h'
    · rw [List.getElem?_eq_none h'] at h; cases h
  simp [List.getD_eq_getElem?_getD, List.getElem?_append_left hi, h]

/-! ### compile steps -/

theorem obind_some {α β : Type} {x : Option α} {f : α → Option β} {b : β} : (x >>= f) = some b ↔ ∃ a, x = some a ∧ f a = some b := by
  cases x <;> simp [bind]

theorem opure_some {α : Type} {a b : α} : (pure a : Option α) = some b ↔ a = b := by simp [pure]

/-- what a successful compile step `s → s'` emitting `new` guarantees; `ecols` = the columns of the expression compiled -/
structure Step (s s' : CState) (new : List Instr) (ecols : List Nat) : Prop where
  prog : s'.prog = s.prog ++ new
  cols : ∃ more, s'.cols = s.cols ++ more ∧ ∀ x ∈ more, x ∈ ecols
  mem : ∀ x ∈ ecols, x ∈ s'.cols
  nf : s.nextF ≤ s'.nextF
  nm : s.nextM ≤ s'.nextM
  bf : ((s.nextF : Int) ≤ MAX_REGS) → ((s'.nextF : Int) ≤ MAX_REGS)
  bm : ((s.nextM : Int) ≤ MAX_REGS) → ((s'.nextM : Int) ≤ MAX_REGS)
  ssa : SsaSeg new s.nextF s.nextM s'.nextF s'.nextM
  frameF : ∀ (dev : Dev) (fo : FloatOps) (C : List Nat) (r : Row) (rs : RS) (k : Nat), k < s.nextF → (run dev fo C r new rs).f k = rs.f k
  frameM : ∀ (dev : Dev) (fo : FloatOps) (C : List Nat) (r : Row) (rs : RS) (k : Nat), k < s.nextM → (run dev fo C r new rs).m k = rs.m k

theorem Step.refl (s : CState) : Step s s [] [] :=
  { prog := by simp, cols := ⟨[], by simp, by simp⟩, mem := by simp, nf := Nat.le_refl _, nm := Nat.le_refl _, bf := id, bm := id,
    ssa := SsaSeg.nil _ _, frameF := by intros; rfl, frameM := by intros; rfl }

theorem Step.trans {s s1 s2 : CState} {n1 n2 : List Instr} {c1 c2 : List Nat} (h1 : Step s s1 n1 c1) (h2 : Step s1 s2 n2 c2) :
    Step s s2 (n1 ++ n2) (c1 ++ c2) := by
  obtain ⟨m1, hm1, hs1⟩ := h1.cols
  obtain ⟨m2, hm2, hs2⟩ := h2.cols
  refine { prog := by rw [h2.prog, h1.prog, List.append_assoc], cols := ⟨m1 ++ m2, by rw [hm2, hm1, List.append_assoc], ?_⟩, mem := ?_,
           nf := Nat.le_trans h1.nf h2.nf, nm := Nat.le_trans h1.nm h2.nm, bf := fun h => h2.bf (h1.bf h), bm := fun h => h2.bm (h1.bm h),
           ssa := h1.ssa.append h2.ssa, frameF := ?_, frameM := ?_ }
  · intro x hx
    rcases List.mem_append.mp hx with h | h
    · exact List.mem_append.mpr (Or.inl (hs1 x h))
    · exact List.mem_append.mpr (Or.inr (hs2 x h))
  · intro x hx
    rcases List.mem_append.mp hx with h | h
    · rw [hm2]; exact List.mem_append.mpr (Or.inl (h1.mem x h))
    · exact h2.mem x h
  · intro dev fo C r rs k hk
    rw [run_append, h2.frameF dev fo C r _ k (Nat.lt_of_lt_of_le hk h1.nf), h1.frameF dev fo C r rs k hk]
  · intro dev fo C r rs k hk
    rw [run_append, h2.frameM dev fo C r _ k (Nat.lt_of_lt_of_le hk h1.nm), h1.frameM dev fo C r rs k hk]

/-- relabel the column set of a step (same members) -/
theorem Step.recols {s s' : CState} {new : List Instr} {c c' : List Nat} (h : Step s s' new c) (hsub : ∀ x, x ∈ c ↔ x ∈ c') : Step s s' new c' :=
  { h with cols := by obtain ⟨m, hm, hs⟩ := h.cols; exact ⟨m, hm, fun x hx => (hsub x).mp (hs x hx)⟩,
           mem := fun x hx => h.mem x ((hsub x).mpr hx) }

theorem Step.ofColSlot {s s' : CState} {c i : Nat} {dt : CTy} (h : colSlot s c dt = some (i, s')) : Step s s' [] [c] := by
  obtain ⟨hp, hf, hm, ⟨more, hmore, hall⟩, hget⟩ := colSlot_spec h
  refine { prog := by simp [hp], cols := ⟨more, hmore, fun x hx => by simp [hall x hx]⟩, mem := ?_, nf := by omega, nm := by omega,
           bf := by rw [hf]; exact id, bm := by rw [hm]; exact id, ssa := by rw [hf, hm]; exact SsaSeg.nil _ _,
           frameF := by intros; rfl, frameM := by intros; rfl }
  intro x hx
  simp only [List.mem_singleton] at hx
  subst hx
  exact List.mem_of_getElem? hget

/-- allocate an F register and push an instruction that writes it -/
theorem Step.ofF {s : CState} {i : Instr} (hb : ((s.nextF + 1 : Nat) : Int) ≤ MAX_REGS)
    (hssa : ∀ rest, ssaFrom rest (s.nextF + 1) s.nextM = true → ssaFrom (i :: rest) s.nextF s.nextM = true)
    (hf : ∀ (dev : Dev) (fo : FloatOps) (C : List Nat) (r : Row) (rs : RS) (k : Nat), k < s.nextF → (exec dev fo C r rs i).f k = rs.f k)
    (hm : ∀ (dev : Dev) (fo : FloatOps) (C : List Nat) (r : Row) (rs : RS) (k : Nat), (exec dev fo C r rs i).m k = rs.m k) :
    Step s (push { s with nextF := s.nextF + 1 } i) [i] [] :=
  { prog := rfl, cols := ⟨[], by simp [push], by simp⟩, mem := by simp, nf := by simp [push], nm := by simp [push],
    bf := fun _ => by simpa [push] using hb, bm := by simp [push], ssa := fun rest h => hssa rest h,
    frameF := fun dev fo C r rs k hk => hf dev fo C r rs k hk, frameM := fun dev fo C r rs k _ => hm dev fo C r rs k }

/-- allocate an M register and push an instruction that writes it -/
theorem Step.ofM {s : CState} {i : Instr} (hb : ((s.nextM + 1 : Nat) : Int) ≤ MAX_REGS)
    (hssa : ∀ rest, ssaFrom rest s.nextF (s.nextM + 1) = true → ssaFrom (i :: rest) s.nextF s.nextM = true)
    (hf : ∀ (dev : Dev) (fo : FloatOps) (C : List Nat) (r : Row) (rs : RS) (k : Nat), (exec dev fo C r rs i).f k = rs.f k)
    (hm : ∀ (dev : Dev) (fo : FloatOps) (C : List Nat) (r : Row) (rs : RS) (k : Nat), k < s.nextM → (exec dev fo C r rs i).m k = rs.m k) :
    Step s (push { s with nextM := s.nextM + 1 } i) [i] [] :=
  { prog := rfl, cols := ⟨[], by simp [push], by simp⟩, mem := by simp, nf := by simp [push], nm := by simp [push],
    bf := by simp [push], bm := fun _ => by simpa [push] using hb, ssa := fun rest h => hssa rest h,
    frameF := fun dev fo C r rs k _ => hf dev fo C r rs k, frameM := fun dev fo C r rs k hk => hm dev fo C r rs k hk }

theorem setF_f (rs : RS) (d : Nat) (v : F64) (k : Nat) : (rs.setF d v).f k = if k = d then v else rs.f k := rfl
theorem setF_m (rs : RS) (d : Nat) (v : F64) (k : Nat) : (rs.setF d v).m k = rs.m k := rfl
theorem setM_m (rs : RS) (d : Nat) (v : Bool) (k : Nat) : (rs.setM d v).m k = if k = d then v else rs.m k := rfl
theorem setM_f (rs : RS) (d : Nat) (v : Bool) (k : Nat) : (rs.setM d v).f k = rs.f k := rfl

/-- `num_f64` -/
theorem numF64_spec (sch : List CTy) : ∀ (e : PExpr) (s s' : CState) (dst : Nat), numF64 sch e s = some (dst, s') →
    ∃ new, Step s s' new (colsOf e) ∧ s'.nextM = s.nextM ∧ s.nextF ≤ dst ∧ dst < s'.nextF ∧ NumOK sch e ∧
      ∀ (dev : Dev) (fo : FloatOps) (C : List Nat) (r : Row) (rs : RS), (∃ t, C = s'.cols ++ t) →
        (run dev fo C r new rs).f dst = denoteF fo r e := by
  intro e
  induction e with
  | col c =>
    intro s s' dst h
    simp only [numF64] at h
    split at h
    · rename_i hty
      simp only [obind_some, opure_some] at h
      obtain ⟨⟨slot, s1⟩, h1, ⟨d, s2⟩, h2, h3⟩ := h
      obtain ⟨rfl, rfl, hb⟩ := falloc_spec h2
      simp only [Prod.mk.injEq] at h3
      obtain ⟨rfl, rfl⟩ := h3
      have st1 := Step.ofColSlot h1
      obtain ⟨_, hf1, hm1, _, hget⟩ := colSlot_spec h1
      have st2 : Step s1 (push { s1 with nextF := s1.nextF + 1 } (.loadF64 slot s1.nextF)) [.loadF64 slot s1.nextF] [] :=
        Step.ofF hb (fun rest h => by simp [ssaFrom, h]) (fun dev fo C r rs k hk => by simp [exec, setF_f]; omega) (fun dev fo C r rs k => rfl)
      refine ⟨_, (st1.trans st2).recols (by simp [colsOf]), by simp [push, hm1], by simp [hf1], by simp [push], NumOK.col hty, ?_⟩
      intro dev fo C r rs ⟨t, hC⟩
      simp only [List.nil_append, run_single, exec, setF_f, if_true, denoteF]
      rw [getD_ext (cols := s1.cols) (by simpa [push] using hC) hget]
    · cases h
  | litF64 x =>
    intro s s' dst h
    simp only [numF64, obind_some, opure_some] at h
    obtain ⟨⟨d, s2⟩, h2, h3⟩ := h
    obtain ⟨rfl, rfl, hb⟩ := falloc_spec h2
    simp only [Prod.mk.injEq] at h3
    obtain ⟨rfl, rfl⟩ := h3
    have st2 : Step s (push { s with nextF := s.nextF + 1 } (.litF64 x s.nextF)) [.litF64 x s.nextF] [] :=
      Step.ofF hb (fun rest h => by simp [ssaFrom, h]) (fun dev fo C r rs k hk => by simp [exec, setF_f]; omega) (fun dev fo C r rs k => rfl)
    refine ⟨_, st2.recols (by simp [colsOf]), by simp [push], Nat.le_refl _, by simp [push], NumOK.lit, ?_⟩
    intro dev fo C r rs _
    simp [run_single, exec, setF_f, denoteF]
  | bin op a b iha ihb =>
    intro s s' dst h
    simp only [numF64] at h
    split at h
    · rename_i hop
      simp only [obind_some, opure_some] at h
      obtain ⟨⟨ra, s1⟩, h1, ⟨rb, s2⟩, h2, ⟨d, s3⟩, h3, h4⟩ := h
      obtain ⟨rfl, rfl, hb⟩ := falloc_spec h3
      simp only [Prod.mk.injEq] at h4
      obtain ⟨rfl, rfl⟩ := h4
      obtain ⟨na, sta, hma, hra1, hra2, oka, vala⟩ := iha s s1 ra h1
      obtain ⟨nb, stb, hmb, hrb1, hrb2, okb, valb⟩ := ihb s1 s2 rb h2
      have st3 : Step s2 (push { s2 with nextF := s2.nextF + 1 } (.arith op ra rb s2.nextF)) [.arith op ra rb s2.nextF] [] :=
        Step.ofF hb (fun rest h => by
            have : ra < s2.nextF := Nat.lt_of_lt_of_le hra2 stb.nf
            simp [ssaFrom, h, this, hrb2])
          (fun dev fo C r rs k hk => by simp [exec, setF_f]; omega) (fun dev fo C r rs k => rfl)
      refine ⟨_, ((sta.trans stb).trans st3).recols (by simp [colsOf]), by simp [push, hma, hmb], ?_, by simp [push], NumOK.arith hop oka okb, ?_⟩
      · exact Nat.le_trans sta.nf stb.nf
      · intro dev fo C r rs ⟨t, hC⟩
        simp only [push] at hC
        obtain ⟨m2, hm2, _⟩ := stb.cols
        rw [run_append, run_append, run_single]
        simp only [exec, setF_f, if_true, denoteF]
        rw [stb.frameF dev fo C r _ ra hra2, vala dev fo C r rs ⟨m2 ++ t, by rw [hC, hm2, List.append_assoc]⟩,
          valb dev fo C r _ ⟨t, hC⟩]
    · cases h
  | _ => intro s s' dst h; simp [numF64] at h

/-- `side` -/
theorem side_spec (sch : List CTy) (e : PExpr) (s s' : CState) (src : Src) (ta : CTy) (h : side sch e s = some ((src, ta), s')) :
    ∃ new, Step s s' new (colsOf e) ∧ s'.nextM = s.nextM ∧ SideOK sch e ta ∧ kindOf sch e = some ta ∧ srcBelow s'.nextF src = true ∧
      ∀ (dev : Dev) (fo : FloatOps) (C : List Nat) (r : Row) (rs : RS), (∃ t, C = s'.cols ++ t) →
        (ta = .f64 → srcF C r (run dev fo C r new rs) src = denoteF fo r e) ∧ (ta ≠ .f64 → srcI C r src = denoteI r e) := by
  cases e with
  | col c =>
    simp only [side] at h
    split at h
    all_goals first
      | (rename_i hty
         simp only [obind_some, opure_some] at h
         obtain ⟨⟨slot, s1⟩, h1, h2⟩ := h
         simp only [Prod.mk.injEq] at h2
         obtain ⟨⟨rfl, rfl⟩, rfl⟩ := h2
         obtain ⟨_, _, hm1, _, hget⟩ := colSlot_spec h1
         refine ⟨[], (Step.ofColSlot h1).recols (by simp [colsOf]), hm1, SideOK.col hty (by decide), by simpa [kindOf] using hty, rfl, ?_⟩
         intro dev fo C r rs ⟨t, hC⟩
         have e := getD_ext hC hget
         simp only [srcF, srcI, denoteF, denoteI, e]
         simp)
      | cases h
  | litF64 x =>
    simp only [side, Option.some.injEq, Prod.mk.injEq] at h
    obtain ⟨⟨rfl, rfl⟩, rfl⟩ := h
    exact ⟨[], (Step.refl s).recols (by simp [colsOf]), rfl, SideOK.litF64, rfl, rfl, fun _ _ _ _ _ _ => by simp [srcF, denoteF]⟩
  | litI64 n =>
    simp only [side, Option.some.injEq, Prod.mk.injEq] at h
    obtain ⟨⟨rfl, rfl⟩, rfl⟩ := h
    exact ⟨[], (Step.refl s).recols (by simp [colsOf]), rfl, SideOK.litI64, rfl, rfl, fun _ _ _ _ _ _ => by simp [srcI, denoteI]⟩
  | litI32 n =>
    simp only [side, Option.some.injEq, Prod.mk.injEq] at h
    obtain ⟨⟨rfl, rfl⟩, rfl⟩ := h
    exact ⟨[], (Step.refl s).recols (by simp [colsOf]), rfl, SideOK.litI32, rfl, rfl, fun _ _ _ _ _ _ => by simp [srcI, denoteI]⟩
  | litDate n =>
    simp only [side, Option.some.injEq, Prod.mk.injEq] at h
    obtain ⟨⟨rfl, rfl⟩, rfl⟩ := h
    exact ⟨[], (Step.refl s).recols (by simp [colsOf]), rfl, SideOK.litDate, rfl, rfl, fun _ _ _ _ _ _ => by simp [srcI, denoteI]⟩
  | bin op a b =>
    simp only [side] at h
    split at h
    · simp only [obind_some, opure_some] at h
      obtain ⟨⟨rg, s1⟩, h1, h2⟩ := h
      simp only [Prod.mk.injEq] at h2
      obtain ⟨⟨rfl, rfl⟩, rfl⟩ := h2
      obtain ⟨new, st, hm, _, hlt, ok, val⟩ := numF64_spec sch (.bin op a b) s s1 rg h1
      refine ⟨new, st, hm, SideOK.arith ok, rfl, by simpa [srcBelow] using hlt, ?_⟩
      intro dev fo C r rs hC
      exact ⟨fun _ => by simpa [srcF] using val dev fo C r rs hC, fun hne => absurd rfl hne⟩
    · cases h
  | litOther v => simp [side] at h
  | not e => simp [side] at h
  | between e lo hi neg => simp [side] at h
  | other e => simp [side] at h

theorem Step.pushM {s : CState} {i : Instr} {d : Nat} {s2 : CState} (hm : malloc s = some (d, s2))
    (hssa : ∀ rest, ssaFrom rest s.nextF (s.nextM + 1) = true → ssaFrom (i :: rest) s.nextF s.nextM = true)
    (hf : ∀ (dev : Dev) (fo : FloatOps) (C : List Nat) (r : Row) (rs : RS) (k : Nat), (exec dev fo C r rs i).f k = rs.f k)
    (hmm : ∀ (dev : Dev) (fo : FloatOps) (C : List Nat) (r : Row) (rs : RS) (k : Nat), k < s.nextM → (exec dev fo C r rs i).m k = rs.m k) :
    d = s.nextM ∧ Step s (push s2 i) [i] [] := by
  obtain ⟨rfl, rfl, hb⟩ := malloc_spec hm
  exact ⟨rfl, Step.ofM hb hssa hf hmm⟩

/-- the comparison arm of `boolean` -/
theorem cmpArm_spec (sch : List CTy) (cmp : Cmp) (l r : PExpr) (s s' : CState) (dst : Nat) (h : cmpArm sch cmp l r s = some (dst, s')) :
    ∃ new, Step s s' new (colsOf l ++ colsOf r) ∧ s.nextM ≤ dst ∧ dst < s'.nextM ∧ CmpOK sch l r ∧
      ∀ (dev : Dev) (fo : FloatOps) (C : List Nat) (row : Row) (rs : RS), (∃ t, C = s'.cols ++ t) →
        (run dev fo C row new rs).m dst = denoteCmp dev fo sch row cmp l r := by
  simp only [cmpArm, obind_some] at h
  obtain ⟨⟨⟨a, ta⟩, s1⟩, h1, ⟨⟨b, tb⟩, s2⟩, h2, h3⟩ := h
  simp only at h3
  split at h3
  · cases h3
  · rename_i hne
    have hty : ta = tb := by simpa using hne
    subst hty
    simp only [obind_some] at h3
    obtain ⟨⟨d, s3⟩, hmal, h4⟩ := h3
    obtain ⟨nl, stl, hml, okl, kl, bl, vall⟩ := side_spec sch l s s1 a ta h1
    obtain ⟨nr, str, hmr, okr, kr, br, valr⟩ := side_spec sch r s1 s2 b ta h2
    have hnm2 : s2.nextM = s.nextM := by rw [hmr, hml]
    have bl2 : srcBelow s2.nextF a = true := srcBelow_mono bl str.nf
    have key : ∀ (i : Instr), (∀ rest, ssaFrom rest s2.nextF (s2.nextM + 1) = true → ssaFrom (i :: rest) s2.nextF s2.nextM = true) →
        (∀ (dev : Dev) (fo : FloatOps) (C : List Nat) (r : Row) (rs : RS) (k : Nat), (exec dev fo C r rs i).f k = rs.f k) →
        (∀ (dev : Dev) (fo : FloatOps) (C : List Nat) (r : Row) (rs : RS) (k : Nat), k < s2.nextM → (exec dev fo C r rs i).m k = rs.m k) →
        (dst, s') = (d, push s3 i) →
        (∀ (dev : Dev) (fo : FloatOps) (C : List Nat) (row : Row) (rs : RS), (∃ t, C = s'.cols ++ t) →
          (exec dev fo C row (run dev fo C row nr (run dev fo C row nl rs)) i).m dst = denoteCmp dev fo sch row cmp l r) →
        ∃ new, Step s s' new (colsOf l ++ colsOf r) ∧ s.nextM ≤ dst ∧ dst < s'.nextM ∧ CmpOK sch l r ∧
          ∀ (dev : Dev) (fo : FloatOps) (C : List Nat) (row : Row) (rs : RS), (∃ t, C = s'.cols ++ t) →
            (run dev fo C row new rs).m dst = denoteCmp dev fo sch row cmp l r := by
      intro i hssa hf hm heq hval
      obtain ⟨hd, st3⟩ := Step.pushM hmal hssa hf hm
      simp only [Prod.mk.injEq] at heq
      obtain ⟨rfl, rfl⟩ := heq
      obtain ⟨_, rfl, _⟩ := malloc_spec hmal
      refine ⟨nl ++ nr ++ [i], ((stl.trans str).trans st3).recols (by simp), by omega, by simp [push]; omega, CmpOK.mk okl okr, ?_⟩
      intro dev fo C row rs hC
      rw [run_append, run_append, run_single]
      exact hval dev fo C row rs hC
    have colsEq : ∀ {i : Instr}, (push s3 i).cols = s2.cols := by
      intro i; obtain ⟨_, rfl, _⟩ := malloc_spec hmal; rfl
    have valF : ta = .f64 → ∀ (dev : Dev) (fo : FloatOps) (C : List Nat) (row : Row) (rs : RS), (∃ t, C = s2.cols ++ t) →
        srcF C row (run dev fo C row nr (run dev fo C row nl rs)) a = denoteF fo row l ∧
        srcF C row (run dev fo C row nr (run dev fo C row nl rs)) b = denoteF fo row r := by
      intro hta dev fo C row rs ⟨t, hC⟩
      obtain ⟨m2, hm2, _⟩ := str.cols
      refine ⟨?_, (valr dev fo C row _ ⟨t, hC⟩).1 hta⟩
      rw [srcF_congr C row bl (fun k hk => str.frameF dev fo C row _ k hk)]
      exact (vall dev fo C row rs ⟨m2 ++ t, by rw [hC, hm2, List.append_assoc]⟩).1 hta
    have valI : ta ≠ .f64 → ∀ (dev : Dev) (fo : FloatOps) (C : List Nat) (row : Row) (rs : RS), (∃ t, C = s2.cols ++ t) →
        srcI C row a = denoteI row l ∧ srcI C row b = denoteI row r := by
      intro hta dev fo C row rs ⟨t, hC⟩
      obtain ⟨m2, hm2, _⟩ := str.cols
      exact ⟨(vall dev fo C row rs ⟨m2 ++ t, by rw [hC, hm2, List.append_assoc]⟩).2 hta, (valr dev fo C row rs ⟨t, hC⟩).2 hta⟩
    cases ta with
    | f64 =>
      simp only [opure_some] at h4
      refine key (.cmpF64 a b cmp d) (fun rest h => ?_) (fun _ _ _ _ _ _ => rfl) (fun dev fo C r rs k hk => ?_) h4.symm ?_
      · obtain ⟨rfl, _, _⟩ := malloc_spec hmal; simp [ssaFrom, h, bl2, br]
      · obtain ⟨rfl, _, _⟩ := malloc_spec hmal; simp [exec, setM_m]; omega
      · intro dev fo C row rs hC
        simp only [Prod.mk.injEq] at h4
        obtain ⟨rfl, rfl⟩ := h4
        rw [colsEq] at hC
        obtain ⟨e1, e2⟩ := valF rfl dev fo C row rs hC
        simp [exec, setM_m, denoteCmp, kl, e1, e2]
    | i64 =>
      simp only [opure_some] at h4
      refine key (.cmpI64 a b cmp d) (fun rest h => ?_) (fun _ _ _ _ _ _ => rfl) (fun dev fo C r rs k hk => ?_) h4.symm ?_
      · obtain ⟨rfl, _, _⟩ := malloc_spec hmal; simp [ssaFrom, h, bl2, br]
      · obtain ⟨rfl, _, _⟩ := malloc_spec hmal; simp [exec, setM_m]; omega
      · intro dev fo C row rs hC
        simp only [Prod.mk.injEq] at h4
        obtain ⟨rfl, rfl⟩ := h4
        rw [colsEq] at hC
        obtain ⟨e1, e2⟩ := valI (by decide) dev fo C row rs hC
        simp [exec, setM_m, denoteCmp, kl, e1, e2]
    | i32 =>
      simp only [opure_some] at h4
      refine key (.cmpI32 a b cmp d) (fun rest h => ?_) (fun _ _ _ _ _ _ => rfl) (fun dev fo C r rs k hk => ?_) h4.symm ?_
      · obtain ⟨rfl, _, _⟩ := malloc_spec hmal; simp [ssaFrom, h, bl2, br]
      · obtain ⟨rfl, _, _⟩ := malloc_spec hmal; simp [exec, setM_m]; omega
      · intro dev fo C row rs hC
        simp only [Prod.mk.injEq] at h4
        obtain ⟨rfl, rfl⟩ := h4
        rw [colsEq] at hC
        obtain ⟨e1, e2⟩ := valI (by decide) dev fo C row rs hC
        simp [exec, setM_m, denoteCmp, kl, e1, e2]
    | date32 =>
      simp only [opure_some] at h4
      refine key (.cmpI32 a b cmp d) (fun rest h => ?_) (fun _ _ _ _ _ _ => rfl) (fun dev fo C r rs k hk => ?_) h4.symm ?_
      · obtain ⟨rfl, _, _⟩ := malloc_spec hmal; simp [ssaFrom, h, bl2, br]
      · obtain ⟨rfl, _, _⟩ := malloc_spec hmal; simp [exec, setM_m]; omega
      · intro dev fo C row rs hC
        simp only [Prod.mk.injEq] at h4
        obtain ⟨rfl, rfl⟩ := h4
        rw [colsEq] at hC
        obtain ⟨e1, e2⟩ := valI (by decide) dev fo C row rs hC
        simp [exec, setM_m, denoteCmp, kl, e1, e2]
    | other => cases h4

/-- `boolean` -/
theorem boolean_spec (sch : List CTy) : ∀ (e : PExpr) (s s' : CState) (dst : Nat), boolean sch e s = some (dst, s') →
    ∃ new, Step s s' new (colsOf e) ∧ s.nextM ≤ dst ∧ dst < s'.nextM ∧ BoolOK sch e ∧
      ∀ (dev : Dev) (fo : FloatOps) (C : List Nat) (row : Row) (rs : RS), (∃ t, C = s'.cols ++ t) →
        (run dev fo C row new rs).m dst = denoteB dev fo sch row e := by
  intro e
  induction e with
  | bin op l r ihl ihr =>
    intro s s' dst h
    simp only [boolean] at h
    split at h
    · rename_i hop
      simp only [obind_some, opure_some] at h
      obtain ⟨⟨a, s1⟩, h1, ⟨b, s2⟩, h2, ⟨d, s3⟩, hmal, h4⟩ := h
      obtain ⟨na, sta, ha1, ha2, oka, vala⟩ := ihl s s1 a h1
      obtain ⟨nb, stb, hb1, hb2, okb, valb⟩ := ihr s1 s2 b h2
      have ha3 : a < s2.nextM := Nat.lt_of_lt_of_le ha2 stb.nm
      obtain ⟨hd, rfl, hbnd⟩ := malloc_spec hmal
      simp only [Prod.mk.injEq] at h4
      obtain ⟨rfl, rfl⟩ := h4
      obtain ⟨m2, hm2, _⟩ := stb.cols
      have hval : ∀ (dev : Dev) (fo : FloatOps) (C : List Nat) (row : Row) (rs : RS), (∃ t, C = s2.cols ++ t) →
          (run dev fo C row nb (run dev fo C row na rs)).m a = denoteB dev fo sch row l ∧
          (run dev fo C row nb (run dev fo C row na rs)).m b = denoteB dev fo sch row r := by
        intro dev fo C row rs ⟨t, hC⟩
        refine ⟨?_, valb dev fo C row _ ⟨t, hC⟩⟩
        rw [stb.frameM dev fo C row _ a ha2]
        exact vala dev fo C row rs ⟨m2 ++ t, by rw [hC, hm2, List.append_assoc]⟩
      by_cases hand : op = .and
      · subst hand
        have st3 : Step s2 (push { s2 with nextM := s2.nextM + 1 } (.and a b d)) [.and a b d] [] := by
          subst hd
          exact Step.ofM hbnd (fun rest h => by simp [ssaFrom, h, ha3, hb2]) (fun _ _ _ _ _ _ => rfl)
            (fun dev fo C r rs k hk => by simp [exec, setM_m]; omega)
        refine ⟨na ++ nb ++ [.and a b d], ?_, by subst hd; exact Nat.le_trans sta.nm stb.nm, by subst hd; simp [push], BoolOK.and oka okb, ?_⟩
        · simpa using ((sta.trans stb).trans st3).recols (c' := colsOf (.bin .and l r)) (by simp [colsOf])
        · intro dev fo C row rs hC
          obtain ⟨e1, e2⟩ := hval dev fo C row rs (by simpa [push] using hC)
          rw [run_append, run_append, run_single]
          simp [exec, setM_m, denoteB, e1, e2]
      · have hor : op = .or := by cases op <;> simp_all
        subst hor
        have st3 : Step s2 (push { s2 with nextM := s2.nextM + 1 } (.or a b d)) [.or a b d] [] := by
          subst hd
          exact Step.ofM hbnd (fun rest h => by simp [ssaFrom, h, ha3, hb2]) (fun _ _ _ _ _ _ => rfl)
            (fun dev fo C r rs k hk => by simp [exec, setM_m]; omega)
        refine ⟨na ++ nb ++ [.or a b d], ?_, by subst hd; exact Nat.le_trans sta.nm stb.nm, by subst hd; simp [push], BoolOK.or oka okb, ?_⟩
        · simpa using ((sta.trans stb).trans st3).recols (c' := colsOf (.bin .or l r)) (by simp [colsOf])
        · intro dev fo C row rs hC
          obtain ⟨e1, e2⟩ := hval dev fo C row rs (by simpa [push] using hC)
          rw [run_append, run_append, run_single]
          simp [exec, setM_m, denoteB, e1, e2]
    · rename_i hop
      split at h
      · rename_i cmp hc
        obtain ⟨new, st, h1, h2, ok, val⟩ := cmpArm_spec sch cmp l r s s' dst h
        refine ⟨new, st.recols (by simp [colsOf]), h1, h2, BoolOK.cmp hc ok, ?_⟩
        intro dev fo C row rs hC
        rw [val dev fo C row rs hC]
        have h1 : (op == BinOp.and) = false := by cases op <;> simp_all
        have h2 : (op == BinOp.or) = false := by cases op <;> simp_all
        simp [denoteB, h1, h2, hc]
      · cases h
  | not e ih =>
    intro s s' dst h
    simp only [boolean, obind_some, opure_some] at h
    obtain ⟨⟨a, s1⟩, h1, ⟨d, s3⟩, hmal, h4⟩ := h
    obtain ⟨na, sta, ha1, ha2, oka, vala⟩ := ih s s1 a h1
    obtain ⟨rfl, rfl, hbnd⟩ := malloc_spec hmal
    simp only [Prod.mk.injEq] at h4
    obtain ⟨rfl, rfl⟩ := h4
    have st3 : Step s1 (push { s1 with nextM := s1.nextM + 1 } (.not a s1.nextM)) [.not a s1.nextM] [] :=
      Step.ofM hbnd (fun rest h => by simp [ssaFrom, h, ha2]) (fun _ _ _ _ _ _ => rfl)
        (fun dev fo C r rs k hk => by simp [exec, setM_m]; omega)
    refine ⟨na ++ [.not a s1.nextM], ?_, sta.nm, by simp [push], BoolOK.not oka, ?_⟩
    · simpa using (sta.trans st3).recols (c' := colsOf (.not e)) (by simp [colsOf])
    · intro dev fo C row rs hC
      rw [run_append, run_single]
      simp [exec, setM_m, denoteB, vala dev fo C row rs (by simpa [push] using hC)]
  | between e lo hi neg _ _ _ =>
    intro s s' dst h
    simp only [boolean, obind_some] at h
    obtain ⟨⟨ge, s1⟩, h1, ⟨le, s2⟩, h2, ⟨d, s3⟩, hmal, h4⟩ := h
    obtain ⟨n1, st1, g1, g2, ok1, val1⟩ := cmpArm_spec sch .Ge e lo s s1 ge h1
    obtain ⟨n2, st2, l1, l2, ok2, val2⟩ := cmpArm_spec sch .Le e hi s1 s2 le h2
    have g3 : ge < s2.nextM := Nat.lt_of_lt_of_le g2 st2.nm
    obtain ⟨rfl, rfl, hbnd⟩ := malloc_spec hmal
    obtain ⟨m2, hm2, _⟩ := st2.cols
    have st3 : Step s2 (push { s2 with nextM := s2.nextM + 1 } (.and ge le s2.nextM)) [.and ge le s2.nextM] [] :=
      Step.ofM hbnd (fun rest h => by simp [ssaFrom, h, g3, l2]) (fun _ _ _ _ _ _ => rfl)
        (fun dev fo C r rs k hk => by simp [exec, setM_m]; omega)
    have st123 := (st1.trans st2).trans st3
    have hval : ∀ (dev : Dev) (fo : FloatOps) (C : List Nat) (row : Row) (rs : RS), (∃ t, C = s2.cols ++ t) →
        (run dev fo C row (n1 ++ n2 ++ [.and ge le s2.nextM]) rs).m s2.nextM =
          (denoteCmp dev fo sch row .Ge e lo && denoteCmp dev fo sch row .Le e hi) := by
      intro dev fo C row rs ⟨t, hC⟩
      rw [run_append, run_append, run_single]
      simp only [exec, setM_m, if_true]
      rw [st2.frameM dev fo C row _ ge g2, val1 dev fo C row rs ⟨m2 ++ t, by rw [hC, hm2, List.append_assoc]⟩, val2 dev fo C row _ ⟨t, hC⟩]
    cases neg
    · simp only [Bool.false_eq_true, if_false, opure_some, Prod.mk.injEq] at h4
      obtain ⟨rfl, rfl⟩ := h4
      refine ⟨_, st123.recols (by simp [colsOf]), Nat.le_trans st1.nm st2.nm, by simp [push], BoolOK.between ok1 ok2, ?_⟩
      intro dev fo C row rs hC
      rw [hval dev fo C row rs (by simpa [push] using hC)]
      simp [denoteB]
    · simp only [if_true, obind_some, opure_some] at h4
      obtain ⟨⟨nd, s4⟩, hmal2, h5⟩ := h4
      obtain ⟨rfl, rfl, hbnd2⟩ := malloc_spec hmal2
      simp only [Prod.mk.injEq] at h5
      obtain ⟨rfl, rfl⟩ := h5
      have st4 : Step (push { s2 with nextM := s2.nextM + 1 } (.and ge le s2.nextM))
          (push { (push { s2 with nextM := s2.nextM + 1 } (.and ge le s2.nextM)) with nextM := (push { s2 with nextM := s2.nextM + 1 } (.and ge le s2.nextM)).nextM + 1 }
            (.not s2.nextM (push { s2 with nextM := s2.nextM + 1 } (.and ge le s2.nextM)).nextM))
          [.not s2.nextM (push { s2 with nextM := s2.nextM + 1 } (.and ge le s2.nextM)).nextM] [] :=
        Step.ofM hbnd2 (fun rest h => by simp only [push] at h ⊢; simp [ssaFrom, h]) (fun _ _ _ _ _ _ => rfl)
          (fun dev fo C r rs k hk => by simp [exec, setM_m]; omega)
      refine ⟨_, (st123.trans st4).recols (by simp [colsOf]), ?_, by simp [push], BoolOK.between ok1 ok2, ?_⟩
      · simp only [push]; have := Nat.le_trans st1.nm st2.nm; omega
      · intro dev fo C row rs hC
        rw [run_append, run_single]
        simp only [exec, setM_m, push, if_true]
        rw [hval dev fo C row rs (by simpa [push] using hC)]
        simp [denoteB]
  | _ => intro s s' dst h; simp [boolean] at h

/-! ### the interpreter on the compiled subset: null-strict validity and the raw-value denotation -/

def allValid (r : Row) (cs : List Nat) : Bool := cs.all (fun c => !(r.getD c .null).isNull)

theorem allValid_append (r : Row) (a b : List Nat) : allValid r (a ++ b) = (allValid r a && allValid r b) := by
  simp [allValid, List.all_append]

theorem allValid_nil (r : Row) : allValid r [] = true := rfl

theorem conforms_get : ∀ {sch : List CTy} {r : Row} {c : Nat} {t : CTy}, conforms sch r = true → sch[c]? = some t →
    ∃ v, r[c]? = some v ∧ cellOk t v = true := by
  intro sch
  induction sch with
  | nil => intro r c t _ h; simp at h
  | cons t0 ts ih =>
    intro r c t hc h
    cases r with
    | nil => simp [conforms] at hc
    | cons v vs =>
      simp only [conforms, Bool.and_eq_true] at hc
      cases c with
      | zero => simp at h; subst h; exact ⟨v, by simp, hc.1⟩
      | succ c => simpa using ih hc.2 (by simpa using h)

theorem cmpOf_binOpOf {op : BinOp} {c : Cmp} (h : cmpOf op = some c) : binOpOf c = op := by
  cases op <;> simp [cmpOf] at h <;> subst h <;> rfl

theorem apply_int (c : Cmp) (a b : Int) : Cmp.apply (T := Int) c a b = ordSat (binOpOf c) (compare a b) := by
  rw [ordSat_compare_int]
  cases c <;> simp [Cmp.apply, binOpOf, intSat, Rs.Cmp.eq, Rs.Cmp.lt, Rs.Cmp.le, Rs.ne, Rs.gt, Rs.ge]

/-- the value a side of type `t` denotes -/
def litVal (t : CTy) (fo : FloatOps) (r : Row) (e : PExpr) : Val :=
  match t with
  | .f64 => .f64 (denoteF fo r e)
  | .date32 => .date (denoteI r e)
  | _ => .int (denoteI r e)

open IQE.Engine.Filter (bind_ok pure_ok) in
theorem numOK_eval (dev : Filter.Dev) (fo : FloatOps) (sch : List CTy) (r : Row) (hr : conforms sch r = true) :
    ∀ (e : PExpr), NumOK sch e → Filter.eval dev fo r e.toExpr = .ok (if allValid r (colsOf e) then .f64 (denoteF fo r e) else .null) := by
  intro e h
  induction h with
  | @col c hty =>
    obtain ⟨v, hv, hok⟩ := conforms_get hr hty
    have hg : r.getD c .null = v := by simp [List.getD_eq_getElem?_getD, hv]
    simp only [PExpr.toExpr, Filter.eval, Filter.colAt, hv, colsOf, allValid, List.all_cons, List.all_nil, Bool.and_true, hg, denoteF, rawF]
    cases v <;> simp_all [cellOk, Val.isNull]
  | lit => simp [PExpr.toExpr, Filter.eval, colsOf, allValid_nil, denoteF]
  | @arith op a b hop _ _ iha ihb =>
    simp only [PExpr.toExpr, Filter.eval, iha, ihb, colsOf, allValid_append, denoteF]
    cases allValid r (colsOf a) <;> cases allValid r (colsOf b) <;>
      cases op <;> simp [isArith] at hop <;> simp [bind, Except.bind, Filter.binaryOp, Val.arith, Val.arithF64, arithF]

theorem sideOK_kind {sch : List CTy} {e : PExpr} {t : CTy} (h : SideOK sch e t) : kindOf sch e = some t := by
  cases h <;> simp_all [kindOf]

theorem sideOK_eval (dev : Filter.Dev) (fo : FloatOps) (sch : List CTy) (r : Row) (hr : conforms sch r = true)
    (e : PExpr) (t : CTy) (h : SideOK sch e t) :
    Filter.eval dev fo r e.toExpr = .ok (if allValid r (colsOf e) then litVal t fo r e else .null) := by
  cases h with
  | @col c t hty hne =>
    obtain ⟨v, hv, hok⟩ := conforms_get hr hty
    have hg : r.getD c .null = v := by simp [List.getD_eq_getElem?_getD, hv]
    simp only [PExpr.toExpr, Filter.eval, Filter.colAt, hv, colsOf, allValid, List.all_cons, List.all_nil, Bool.and_true, hg, litVal, denoteF, denoteI, rawF, rawI]
    cases t <;> cases v <;> simp_all [cellOk, Val.isNull]
  | litF64 => simp [PExpr.toExpr, Filter.eval, colsOf, allValid_nil, litVal, denoteF]
  | litI64 => simp [PExpr.toExpr, Filter.eval, colsOf, allValid_nil, litVal, denoteI]
  | litI32 => simp [PExpr.toExpr, Filter.eval, colsOf, allValid_nil, litVal, denoteI]
  | litDate => simp [PExpr.toExpr, Filter.eval, colsOf, allValid_nil, litVal, denoteI]
  | arith hn => simpa [litVal] using numOK_eval dev fo sch r hr _ hn

/-- a comparison of two sides of the same type, as the interpreter's kernel evaluates it -/
theorem cmpK_sides (fo : FloatOps) (sch : List CTy) (r : Row) {l rr : PExpr} {t : CTy} (hl : SideOK sch l t) (hne : t ≠ .other)
    (op : BinOp) (c : Cmp) (hc : cmpOf op = some c) :
    Filter.cmpK fo op (litVal t fo r l) (litVal t fo r rr) = .ok (.bool (denoteCmp Dev.none fo sch r c l rr)) := by
  have hk := sideOK_kind hl
  have hb := cmpOf_binOpOf hc
  cases t with
  | f64 => simp [litVal, Filter.cmpK, Val.cmp3, Val.cmpNonNull, Except.map, denoteCmp, hk, cmpF, Dev.none, hb]
  | i64 => simp [litVal, Filter.cmpK, Val.cmp3, Val.cmpNonNull, Except.map, denoteCmp, hk, apply_int, hb]
  | i32 => simp [litVal, Filter.cmpK, Val.cmp3, Val.cmpNonNull, Except.map, denoteCmp, hk, apply_int, hb]
  | date32 => simp [litVal, Filter.cmpK, Val.cmp3, Val.cmpNonNull, Except.map, denoteCmp, hk, apply_int, hb]
  | other => exact absurd rfl hne

theorem sideOK_ne_other {sch : List CTy} {e : PExpr} {t : CTy} (h : SideOK sch e t) : t ≠ .other := by
  cases h <;> simp_all

theorem cmpK_null_left (fo : FloatOps) (op : BinOp) (b : Val) : Filter.cmpK fo op .null b = .ok .null := by
  simp [Filter.cmpK, Val.cmp3]
theorem cmpK_null_right (fo : FloatOps) (op : BinOp) (a : Val) : Filter.cmpK fo op a .null = .ok .null := by
  cases a <;> simp [Filter.cmpK, Val.cmp3]

/-- one comparison `l op r` of the subset under the interpreter: NULL iff a referenced column is NULL, else the raw comparison -/
theorem cmpOK_eval (fo : FloatOps) (sch : List CTy) (r : Row) (hr : conforms sch r = true) {l rr : PExpr} (h : CmpOK sch l rr)
    (op : BinOp) (c : Cmp) (hc : cmpOf op = some c) (vl vr : Val) {fdev : Filter.Dev}
    (hl : Filter.eval fdev fo r l.toExpr = .ok vl) (hrr : Filter.eval fdev fo r rr.toExpr = .ok vr) :
    Filter.cmpK fo op vl vr = .ok (if allValid r (colsOf l) && allValid r (colsOf rr) then .bool (denoteCmp Dev.none fo sch r c l rr) else .null) := by
  obtain ⟨sl, sr⟩ := h
  rw [sideOK_eval _ fo sch r hr _ _ sl] at hl
  rw [sideOK_eval _ fo sch r hr _ _ sr] at hrr
  cases hl; cases hrr
  cases h1 : allValid r (colsOf l) <;> cases h2 : allValid r (colsOf rr) <;>
    simp [cmpK_null_left, cmpK_null_right, cmpK_sides fo sch r sl (sideOK_ne_other sl) op c hc]

open IQE.Engine.Filter (bind_ok pure_ok) in
/-- C06_null_strict_validity + value: on the compiled subset the interpreter (with its null-strict kernels) yields NULL exactly when
    some referenced column is NULL at the row, and otherwise the boolean the raw-value denotation computes. -/
theorem boolOK_eval (fo : FloatOps) (sch : List CTy) (r : Row) (hr : conforms sch r = true) :
    ∀ (e : PExpr), BoolOK sch e →
      Filter.eval Filter.Dev.strict fo r e.toExpr = .ok (if allValid r (colsOf e) then .bool (denoteB Dev.none fo sch r e) else .null) := by
  intro e h
  induction h with
  | @and a b _ _ iha ihb =>
    simp only [PExpr.toExpr, Filter.eval, iha, ihb, colsOf, allValid_append]
    cases allValid r (colsOf a) <;> cases allValid r (colsOf b) <;>
      simp [bind, Except.bind, Filter.binaryOp, Filter.andK, Filter.Dev.strict, Val.andStrict, denoteB]
  | @or a b _ _ iha ihb =>
    simp only [PExpr.toExpr, Filter.eval, iha, ihb, colsOf, allValid_append]
    cases allValid r (colsOf a) <;> cases allValid r (colsOf b) <;>
      simp [bind, Except.bind, Filter.binaryOp, Filter.orK, Filter.Dev.strict, Val.orStrict, denoteB]
  | @cmp op c l rr hc hcmp =>
    obtain ⟨sl, sr⟩ := hcmp
    have el := sideOK_eval Filter.Dev.strict fo sch r hr _ _ sl
    have er := sideOK_eval Filter.Dev.strict fo sch r hr _ _ sr
    have key := cmpOK_eval fo sch r hr (CmpOK.mk sl sr) op c hc _ _ el er
    have h1 : (op == BinOp.and) = false := by cases op <;> simp_all [cmpOf]
    have h2 : (op == BinOp.or) = false := by cases op <;> simp_all [cmpOf]
    have hb : Filter.binaryOp Filter.Dev.strict fo op = Filter.cmpK fo op := by
      funext a b; cases op <;> simp_all [cmpOf, Filter.binaryOp]
    simp only [PExpr.toExpr, Filter.eval, el, er, colsOf, allValid_append, denoteB, h1, h2, hc]
    simp only [bind, Except.bind, hb]
    simpa using key
  | @not e _ ih =>
    simp only [PExpr.toExpr, Filter.eval, ih, colsOf]
    rcases Bool.eq_false_or_eq_true (allValid r (colsOf e)) with hv | hv <;>
      simp [hv, bind, Except.bind, Filter.unaryOp, Val.not3, denoteB]
  | @between e lo hi neg h1 h2 =>
    obtain ⟨se, slo⟩ := h1
    obtain ⟨se', shi⟩ := h2
    have ht := (sideOK_kind se).symm.trans (sideOK_kind se')
    simp only [Option.some.injEq] at ht
    subst ht
    have ee := sideOK_eval Filter.Dev.strict fo sch r hr _ _ se
    have elo := sideOK_eval Filter.Dev.strict fo sch r hr _ _ slo
    have ehi := sideOK_eval Filter.Dev.strict fo sch r hr _ _ shi
    have k1 := cmpOK_eval fo sch r hr (CmpOK.mk se slo) .ge .Ge rfl _ _ ee elo
    have k2 := cmpOK_eval fo sch r hr (CmpOK.mk se shi) .le .Le rfl _ _ ee ehi
    simp only [PExpr.toExpr, Filter.eval, ee, elo, ehi, colsOf, allValid_append, denoteB]
    simp only [bind, Except.bind]
    rw [k1, k2]
    rcases Bool.eq_false_or_eq_true (allValid r (colsOf e)) with h1 | h1 <;>
      rcases Bool.eq_false_or_eq_true (allValid r (colsOf lo)) with h2 | h2 <;>
      rcases Bool.eq_false_or_eq_true (allValid r (colsOf hi)) with h3 | h3 <;>
      cases neg <;>
      simp [h1, h2, h3, Filter.andK, Filter.Dev.strict, Val.andStrict, Val.not3, pure, Except.pure]

/-! ### assembly -/

theorem all_congr_mem {l1 l2 : List Nat} (p : Nat → Bool) (h : ∀ x, x ∈ l1 ↔ x ∈ l2) : l1.all p = l2.all p := by
  rw [Bool.eq_iff_iff]
  simp only [List.all_eq_true]
  exact ⟨fun hh x hx => hh x ((h x).mpr hx), fun hh x hx => hh x ((h x).mp hx)⟩

/-- what `compile` returns, unpacked -/
theorem compile_spec {sch : List CTy} {e : PExpr} {p : Prog} (hc : compile sch e = some p) :
    BoolOK sch e ∧ (∀ x, x ∈ p.cols ↔ x ∈ colsOf e) ∧ ssaFrom p.prog 0 0 = true ∧ p.out < p.mRegs ∧
    ∀ (dev : Dev) (fo : FloatOps) (r : Row), rowBit dev fo p r = denoteB dev fo sch r e := by
  simp only [compile, obind_some, opure_some] at hc
  obtain ⟨⟨out, c⟩, hb, rfl⟩ := hc
  obtain ⟨new, st, _, hlt, ok, val⟩ := boolean_spec sch e {} c out hb
  obtain ⟨more, hmore, hsub⟩ := st.cols
  have hprog : c.prog = new := by simpa using st.prog
  have hcols : c.cols = more := by simpa using hmore
  refine ⟨ok, ?_, ?_, hlt, ?_⟩
  · intro x
    constructor
    · intro hx; exact hsub x (by simpa [hcols] using hx)
    · intro hx; exact st.mem x hx
  · have h0 : ((0 : Nat) : Int) ≤ MAX_REGS := by decide
    have := st.ssa [] (by simp [ssaFrom, st.bf h0, st.bm h0])
    simpa [hprog] using this
  · intro dev fo r
    simp only [rowBit, hprog]
    exact val dev fo c.cols r RS.init ⟨[], by simp⟩

/-- per row: the interpreter's answer is the compiled program's mask bit under its validity bit -/
theorem compile_row (fo : FloatOps) {sch : List CTy} {e : PExpr} {p : Prog} (hc : compile sch e = some p) (r : Row) (hr : conforms sch r = true) :
    Filter.eval Filter.Dev.strict fo r e.toExpr = .ok (if rowValid p r then .bool (rowBit Dev.none fo p r) else .null) := by
  obtain ⟨ok, hcols, _, _, hbit⟩ := compile_spec hc
  rw [boolOK_eval fo sch r hr e ok, hbit]
  have : rowValid p r = allValid r (colsOf e) := all_congr_mem _ hcols
  rw [this]

theorem zip_map_self {α β γ : Type} (f : α → β) (g : α × β → γ) : ∀ (l : List α), (l.zip (l.map f)).map g = l.map (fun a => g (a, f a)) := by
  intro l; induction l with
  | nil => rfl
  | cons a l ih => simp [ih]

/-- the whole `evaluate`: chunking and packing are invisible, for every batch length -/
theorem evaluate_eq (dev : Dev) (fo : FloatOps) (p : Prog) (rows : List Row) :
    evaluate dev fo p rows = rows.map (fun r => if rowValid p r then .bool (rowBit dev fo p r) else .null) := by
  simp only [evaluate]
  rw [pack_chunks _ _ rows (Nat.lt_succ_self _)]
  exact zip_map_self _ _ rows

/-! ### the current tree: Kleene interpreter + per-batch fallback of `CompiledPredicate::evaluate` (fix e4c7c04) -/

theorem numOK_kernelFree {sch : List CTy} {e : PExpr} (h : NumOK sch e) : Filter.kernelFree e.toExpr = true := by
  induction h with
  | col _ => rfl
  | lit => rfl
  | @arith op a b hop _ _ iha ihb =>
    simp only [PExpr.toExpr, Filter.kernelFree, iha, ihb, Bool.and_true]
    cases op <;> simp [isArith] at hop <;> decide

theorem sideOK_kernelFree {sch : List CTy} {e : PExpr} {t : CTy} (h : SideOK sch e t) : Filter.kernelFree e.toExpr = true := by
  cases h with
  | arith hn => exact numOK_kernelFree hn
  | _ => rfl

theorem numOK_logicE {sch : List CTy} {e : PExpr} (h : NumOK sch e) : logicE e = false := by
  induction h with
  | col _ => rfl
  | lit => rfl
  | @arith op a b hop _ _ iha ihb =>
    simp only [logicE, iha, ihb, Bool.or_false]
    cases op <;> simp [isArith] at hop <;> decide

theorem sideOK_logicE {sch : List CTy} {e : PExpr} {t : CTy} (h : SideOK sch e t) : logicE e = false := by
  cases h with
  | arith hn => exact numOK_logicE hn
  | _ => rfl

/-- a compiled predicate without AND / OR / BETWEEN never reaches the boolean kernels -/
theorem boolOK_kernelFree {sch : List CTy} {e : PExpr} (h : BoolOK sch e) (hl : logicE e = false) : Filter.kernelFree e.toExpr = true := by
  induction h with
  | and _ _ _ _ => simp [logicE] at hl
  | or _ _ _ _ => simp [logicE] at hl
  | @cmp op c l r hc hcmp =>
    obtain ⟨sl, sr⟩ := hcmp
    simp only [PExpr.toExpr, Filter.kernelFree, sideOK_kernelFree sl, sideOK_kernelFree sr, Bool.and_true]
    cases op <;> simp [cmpOf] at hc <;> decide
  | @not e _ ih =>
    simp only [logicE] at hl
    simpa [PExpr.toExpr, Filter.kernelFree] using ih hl
  | between _ _ => simp [logicE] at hl

theorem andK_bool (dev : Filter.Dev) (a b : Bool) : Filter.andK dev (.bool a) (.bool b) = .ok (.bool (a && b)) := by
  unfold Filter.andK; cases dev.strictAndOr <;> cases a <;> cases b <;> rfl
theorem orK_bool (dev : Filter.Dev) (a b : Bool) : Filter.orK dev (.bool a) (.bool b) = .ok (.bool (a || b)) := by
  unfold Filter.orK; cases dev.strictAndOr <;> cases a <;> cases b <;> rfl

/-- on a row where every referenced column is valid, the strict and the Kleene interpreter agree (both give the raw-value boolean) -/
theorem boolOK_eval_valid (fdev : Filter.Dev) (fo : FloatOps) (sch : List CTy) (r : Row) (hr : conforms sch r = true) :
    ∀ (e : PExpr), BoolOK sch e → allValid r (colsOf e) = true →
      Filter.eval fdev fo r e.toExpr = .ok (.bool (denoteB Dev.none fo sch r e)) := by
  intro e h
  induction h with
  | @and a b _ _ iha ihb =>
    intro hv
    simp only [colsOf, allValid_append, Bool.and_eq_true] at hv
    simp only [PExpr.toExpr, Filter.eval, iha hv.1, ihb hv.2]
    simp [bind, Except.bind, Filter.binaryOp, andK_bool, denoteB]
  | @or a b _ _ iha ihb =>
    intro hv
    simp only [colsOf, allValid_append, Bool.and_eq_true] at hv
    simp only [PExpr.toExpr, Filter.eval, iha hv.1, ihb hv.2]
    simp [bind, Except.bind, Filter.binaryOp, orK_bool, denoteB]
  | @cmp op c l rr hc hcmp =>
    intro hv
    have ok : BoolOK sch (.bin op l rr) := BoolOK.cmp hc hcmp
    have hl : logicE (.bin op l rr) = false := by
      obtain ⟨sl, sr⟩ := hcmp
      have h1 : (op == BinOp.and) = false := by cases op <;> simp_all [cmpOf]
      have h2 : (op == BinOp.or) = false := by cases op <;> simp_all [cmpOf]
      simp [logicE, h1, h2, sideOK_logicE sl, sideOK_logicE sr]
    have hk := boolOK_kernelFree ok hl
    rw [Filter.eval_kernelFree fdev fo r _ hk, ← Filter.eval_kernelFree Filter.Dev.strict fo r _ hk, boolOK_eval fo sch r hr _ ok, hv]
    rfl
  | @not e _ ih =>
    intro hv
    simp only [colsOf] at hv
    simp [PExpr.toExpr, Filter.eval, ih hv, bind, Except.bind, Filter.unaryOp, Val.not3, denoteB]
  | @between e lo hi neg h1 h2 =>
    intro hv
    obtain ⟨se, slo⟩ := h1
    obtain ⟨se', shi⟩ := h2
    have ht := (sideOK_kind se).symm.trans (sideOK_kind se')
    simp only [Option.some.injEq] at ht
    subst ht
    simp only [colsOf, allValid_append, Bool.and_eq_true] at hv
    have ee := sideOK_eval fdev fo sch r hr _ _ se
    have elo := sideOK_eval fdev fo sch r hr _ _ slo
    have ehi := sideOK_eval fdev fo sch r hr _ _ shi
    have k1 := cmpOK_eval fo sch r hr (CmpOK.mk se slo) .ge .Ge rfl _ _ ee elo
    have k2 := cmpOK_eval fo sch r hr (CmpOK.mk se shi) .le .Le rfl _ _ ee ehi
    simp only [PExpr.toExpr, Filter.eval, ee, elo, ehi, denoteB]
    simp only [bind, Except.bind]
    rw [k1, k2]
    simp only [hv.1.1, hv.1.2, hv.2.2, Bool.and_self, if_true, andK_bool]
    cases neg <;> simp [Val.not3, pure, Except.pure]

/-! ### `has_logic` of the compiled program = AND / OR / BETWEEN in the predicate -/

theorem hasLogic_append (a b : List Instr) : hasLogic (a ++ b) = (hasLogic a || hasLogic b) := by simp [hasLogic, List.any_append]

theorem numF64_logic (sch : List CTy) : ∀ (e : PExpr) (s s' : CState) (dst : Nat), numF64 sch e s = some (dst, s') →
    hasLogic s'.prog = hasLogic s.prog := by
  intro e
  induction e with
  | col c =>
    intro s s' dst h
    simp only [numF64] at h
    split at h
    · simp only [obind_some, opure_some] at h
      obtain ⟨⟨slot, s1⟩, h1, ⟨d, s2⟩, h2, h3⟩ := h
      obtain ⟨rfl, rfl, _⟩ := falloc_spec h2
      simp only [Prod.mk.injEq] at h3
      obtain ⟨rfl, rfl⟩ := h3
      obtain ⟨hp, _⟩ := colSlot_spec h1
      simp [push, hasLogic_append, hp, hasLogic, Instr.isLogic]
    · cases h
  | litF64 x =>
    intro s s' dst h
    simp only [numF64, obind_some, opure_some] at h
    obtain ⟨⟨d, s2⟩, h2, h3⟩ := h
    obtain ⟨rfl, rfl, _⟩ := falloc_spec h2
    simp only [Prod.mk.injEq] at h3
    obtain ⟨rfl, rfl⟩ := h3
    simp [push, hasLogic_append, hasLogic, Instr.isLogic]
  | bin op a b iha ihb =>
    intro s s' dst h
    simp only [numF64] at h
    split at h
    · simp only [obind_some, opure_some] at h
      obtain ⟨⟨ra, s1⟩, h1, ⟨rb, s2⟩, h2, ⟨d, s3⟩, h3, h4⟩ := h
      obtain ⟨rfl, rfl, _⟩ := falloc_spec h3
      simp only [Prod.mk.injEq] at h4
      obtain ⟨rfl, rfl⟩ := h4
      have e1 := iha s s1 ra h1
      have e2 := ihb s1 s2 rb h2
      simp only [push, hasLogic_append, e2, e1]
      simp [hasLogic, Instr.isLogic]
    · cases h
  | _ => intro s s' dst h; simp [numF64] at h

theorem side_logic (sch : List CTy) (e : PExpr) (s s' : CState) (src : Src) (ta : CTy) (h : side sch e s = some ((src, ta), s')) :
    hasLogic s'.prog = hasLogic s.prog := by
  cases e with
  | col c =>
    simp only [side] at h
    split at h
    all_goals first
      | (simp only [obind_some, opure_some] at h
         obtain ⟨⟨slot, s1⟩, h1, h2⟩ := h
         simp only [Prod.mk.injEq] at h2
         obtain ⟨_, rfl⟩ := h2
         rw [(colSlot_spec h1).1])
      | cases h
  | litF64 x => simp only [side, Option.some.injEq, Prod.mk.injEq] at h; rw [h.2]
  | litI64 n => simp only [side, Option.some.injEq, Prod.mk.injEq] at h; rw [h.2]
  | litI32 n => simp only [side, Option.some.injEq, Prod.mk.injEq] at h; rw [h.2]
  | litDate n => simp only [side, Option.some.injEq, Prod.mk.injEq] at h; rw [h.2]
  | bin op a b =>
    simp only [side] at h
    split at h
    · simp only [obind_some, opure_some] at h
      obtain ⟨⟨rg, s1⟩, h1, h2⟩ := h
      simp only [Prod.mk.injEq] at h2
      obtain ⟨_, rfl⟩ := h2
      exact numF64_logic sch _ s s1 rg h1
    · cases h
  | litOther v => simp [side] at h
  | not e => simp [side] at h
  | between e lo hi neg => simp [side] at h
  | other e => simp [side] at h

theorem cmpArm_logic (sch : List CTy) (cmp : Cmp) (l r : PExpr) (s s' : CState) (dst : Nat) (h : cmpArm sch cmp l r s = some (dst, s')) :
    hasLogic s'.prog = hasLogic s.prog := by
  simp only [cmpArm, obind_some] at h
  obtain ⟨⟨⟨a, ta⟩, s1⟩, h1, ⟨⟨b, tb⟩, s2⟩, h2, h3⟩ := h
  simp only at h3
  split at h3
  · cases h3
  · simp only [obind_some] at h3
    obtain ⟨⟨d, s3⟩, hmal, h4⟩ := h3
    obtain ⟨_, rfl, _⟩ := malloc_spec hmal
    have e1 := side_logic sch l s s1 a ta h1
    have e2 := side_logic sch r s1 s2 b tb h2
    cases ta <;> simp only [opure_some, Prod.mk.injEq] at h4 <;> first
      | (obtain ⟨_, rfl⟩ := h4
         simp only [push, hasLogic_append, e2, e1]
         simp [hasLogic, Instr.isLogic])
      | cases h4

theorem boolean_logic (sch : List CTy) : ∀ (e : PExpr) (s s' : CState) (dst : Nat), boolean sch e s = some (dst, s') →
    hasLogic s'.prog = (hasLogic s.prog || logicE e) := by
  intro e
  induction e with
  | bin op l r ihl ihr =>
    intro s s' dst h
    have hh := h
    simp only [boolean] at h
    split at h
    · rename_i hop
      simp only [obind_some, opure_some] at h
      obtain ⟨⟨a, s1⟩, h1, ⟨b, s2⟩, h2, ⟨d, s3⟩, hmal, h4⟩ := h
      obtain ⟨_, rfl, _⟩ := malloc_spec hmal
      simp only [Prod.mk.injEq] at h4
      obtain ⟨_, rfl⟩ := h4
      simp only [push, hasLogic_append, logicE, hop]
      by_cases hand : (op == BinOp.and) = true <;> simp [hand, hasLogic, Instr.isLogic]
    · rename_i hop
      split at h
      · rename_i cmp hc
        obtain ⟨_, _, _, _, ⟨sl, sr⟩, _⟩ := cmpArm_spec sch cmp l r s s' dst h
        rw [cmpArm_logic sch cmp l r s s' dst h]
        have h1 : (op == BinOp.and) = false := by cases op <;> simp_all
        have h2 : (op == BinOp.or) = false := by cases op <;> simp_all
        simp [logicE, h1, h2, sideOK_logicE sl, sideOK_logicE sr]
      · cases h
  | not e ih =>
    intro s s' dst h
    simp only [boolean, obind_some, opure_some] at h
    obtain ⟨⟨a, s1⟩, h1, ⟨d, s3⟩, hmal, h4⟩ := h
    obtain ⟨_, rfl, _⟩ := malloc_spec hmal
    simp only [Prod.mk.injEq] at h4
    obtain ⟨_, rfl⟩ := h4
    simp only [push, hasLogic_append, ih s s1 a h1, logicE]
    simp [hasLogic, Instr.isLogic]
  | between e lo hi neg _ _ _ =>
    intro s s' dst h
    simp only [boolean, obind_some] at h
    obtain ⟨⟨ge, s1⟩, h1, ⟨le, s2⟩, h2, ⟨d, s3⟩, hmal, h4⟩ := h
    obtain ⟨_, rfl, _⟩ := malloc_spec hmal
    cases neg
    · simp only [Bool.false_eq_true, if_false, opure_some, Prod.mk.injEq] at h4
      obtain ⟨_, rfl⟩ := h4
      simp [push, hasLogic_append, logicE, hasLogic, Instr.isLogic]
    · simp only [if_true, obind_some, opure_some] at h4
      obtain ⟨⟨nd, s4⟩, hmal2, h5⟩ := h4
      obtain ⟨_, rfl, _⟩ := malloc_spec hmal2
      simp only [Prod.mk.injEq] at h5
      obtain ⟨_, rfl⟩ := h5
      simp [push, hasLogic_append, logicE, hasLogic, Instr.isLogic]
  | _ => intro s s' dst h; simp [boolean] at h

theorem compile_logic {sch : List CTy} {e : PExpr} {p : Prog} (hc : compile sch e = some p) : p.hasLogic = logicE e ∧ p.expr = e := by
  simp only [compile, obind_some, opure_some] at hc
  obtain ⟨⟨out, c⟩, hb, rfl⟩ := hc
  exact ⟨by simpa [hasLogic] using boolean_logic sch e {} c out hb, rfl⟩

/-- `CompiledPredicate::evaluate` of the current tree (fused loop + per-batch interpreter fallback) against the interpreter with ANY
    boolean kernels that agree with `fdev`: per row, for the two interpreter variants. -/
theorem row_now (fdev : Filter.Dev) (fo : FloatOps) {sch : List CTy} {e : PExpr} {p : Prog} (hc : compile sch e = some p)
    (r : Row) (hr : conforms sch r = true) (h : p.hasLogic = false ∨ rowValid p r = true) :
    Filter.eval fdev fo r e.toExpr = .ok (if rowValid p r then .bool (rowBit Dev.none fo p r) else .null) := by
  obtain ⟨ok, hcols, _, _, hbit⟩ := compile_spec hc
  have hv : rowValid p r = allValid r (colsOf e) := all_congr_mem _ hcols
  rcases h with h | h
  · have hk := boolOK_kernelFree ok (by rw [← (compile_logic hc).1]; exact h)
    rw [Filter.eval_kernelFree fdev fo r _ hk, ← Filter.eval_kernelFree Filter.Dev.strict fo r _ hk]
    exact compile_row fo hc r hr
  · rw [h, hbit]
    simpa using boolOK_eval_valid fdev fo sch r hr e ok (by rw [← hv]; exact h)

theorem andK_ok (dev : Filter.Dev) {a b : Val} (ha : Filter.isBoolOrNull a = true) (hb : Filter.isBoolOrNull b = true) :
    ∃ v, Filter.andK dev a b = .ok v ∧ Filter.isBoolOrNull v = true := by
  unfold Filter.andK
  cases dev.strictAndOr <;> cases a <;> simp [Filter.isBoolOrNull] at ha <;> cases b <;> simp [Filter.isBoolOrNull] at hb <;>
    (try (rename_i x; cases x)) <;> (try (rename_i x; cases x)) <;> simp [Val.and3, Val.andStrict, Filter.isBoolOrNull]
theorem orK_ok (dev : Filter.Dev) {a b : Val} (ha : Filter.isBoolOrNull a = true) (hb : Filter.isBoolOrNull b = true) :
    ∃ v, Filter.orK dev a b = .ok v ∧ Filter.isBoolOrNull v = true := by
  unfold Filter.orK
  cases dev.strictAndOr <;> cases a <;> simp [Filter.isBoolOrNull] at ha <;> cases b <;> simp [Filter.isBoolOrNull] at hb <;>
    (try (rename_i x; cases x)) <;> (try (rename_i x; cases x)) <;> simp [Val.or3, Val.orStrict, Filter.isBoolOrNull]
theorem not3_ok {a : Val} (ha : Filter.isBoolOrNull a = true) : ∃ v, Val.not3 a = .ok v ∧ Filter.isBoolOrNull v = true := by
  cases a <;> simp [Filter.isBoolOrNull] at ha <;> simp [Val.not3, Filter.isBoolOrNull]

/-- the interpreter never raises on a compiled predicate over a conforming row, whichever boolean kernels it uses -/
theorem boolOK_eval_ok (fdev : Filter.Dev) (fo : FloatOps) (sch : List CTy) (r : Row) (hr : conforms sch r = true) :
    ∀ (e : PExpr), BoolOK sch e → ∃ v, Filter.eval fdev fo r e.toExpr = .ok v ∧ Filter.isBoolOrNull v = true := by
  intro e h
  induction h with
  | @and a b _ _ iha ihb =>
    obtain ⟨va, ha, hba⟩ := iha
    obtain ⟨vb, hb, hbb⟩ := ihb
    obtain ⟨v, hv, hbv⟩ := andK_ok fdev hba hbb
    exact ⟨v, by simp [PExpr.toExpr, Filter.eval, ha, hb, bind, Except.bind, Filter.binaryOp, hv], hbv⟩
  | @or a b _ _ iha ihb =>
    obtain ⟨va, ha, hba⟩ := iha
    obtain ⟨vb, hb, hbb⟩ := ihb
    obtain ⟨v, hv, hbv⟩ := orK_ok fdev hba hbb
    exact ⟨v, by simp [PExpr.toExpr, Filter.eval, ha, hb, bind, Except.bind, Filter.binaryOp, hv], hbv⟩
  | @cmp op c l rr hc hcmp =>
    have ok : BoolOK sch (.bin op l rr) := BoolOK.cmp hc hcmp
    have hl : logicE (.bin op l rr) = false := by
      obtain ⟨sl, sr⟩ := hcmp
      have h1 : (op == BinOp.and) = false := by cases op <;> simp_all [cmpOf]
      have h2 : (op == BinOp.or) = false := by cases op <;> simp_all [cmpOf]
      simp [logicE, h1, h2, sideOK_logicE sl, sideOK_logicE sr]
    have hk := boolOK_kernelFree ok hl
    rw [Filter.eval_kernelFree fdev fo r _ hk, ← Filter.eval_kernelFree Filter.Dev.strict fo r _ hk, boolOK_eval fo sch r hr _ ok]
    refine ⟨_, rfl, ?_⟩
    split <;> rfl
  | @not e _ ih =>
    obtain ⟨va, ha, hba⟩ := ih
    obtain ⟨v, hv, hbv⟩ := not3_ok hba
    exact ⟨v, by simp [PExpr.toExpr, Filter.eval, ha, bind, Except.bind, Filter.unaryOp, hv], hbv⟩
  | @between e lo hi neg h1 h2 =>
    obtain ⟨se, slo⟩ := h1
    obtain ⟨se', shi⟩ := h2
    have ht := (sideOK_kind se).symm.trans (sideOK_kind se')
    simp only [Option.some.injEq] at ht
    subst ht
    have ee := sideOK_eval fdev fo sch r hr _ _ se
    have elo := sideOK_eval fdev fo sch r hr _ _ slo
    have ehi := sideOK_eval fdev fo sch r hr _ _ shi
    have k1 := cmpOK_eval fo sch r hr (CmpOK.mk se slo) .ge .Ge rfl _ _ ee elo
    have k2 := cmpOK_eval fo sch r hr (CmpOK.mk se shi) .le .Le rfl _ _ ee ehi
    have b1 := Filter.cmpK_boolOrNull k1
    have b2 := Filter.cmpK_boolOrNull k2
    obtain ⟨v, hv, hbv⟩ := andK_ok fdev b1 b2
    simp only [PExpr.toExpr, Filter.eval, ee, elo, ehi]
    simp only [bind, Except.bind]
    rw [k1, k2]
    simp only [hv]
    cases neg
    · exact ⟨v, by simp [pure, Except.pure], hbv⟩
    · obtain ⟨w, hw, hbw⟩ := not3_ok hbv
      exact ⟨w, by simp [hw], hbw⟩

theorem mapM_toOption {α : Type} (f : α → Except Err Val) : ∀ (l : List α), (∀ a ∈ l, ∃ v, f a = .ok v) →
    ∃ vs, l.mapM (fun a => (f a).toOption) = some vs ∧ vs.map Except.ok = l.map f := by
  intro l
  induction l with
  | nil => intro _; exact ⟨[], rfl, rfl⟩
  | cons a l ih =>
    intro h
    obtain ⟨v, hv⟩ := h a (List.mem_cons_self ..)
    obtain ⟨vs, hvs, hmap⟩ := ih (fun x hx => h x (List.mem_cons_of_mem _ hx))
    refine ⟨v :: vs, ?_, by simp [hv, hmap]⟩
    rw [List.mapM_cons, hvs, hv]; rfl

end IQE.Engine.Compiled
