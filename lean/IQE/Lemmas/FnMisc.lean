/- IQE.Lemmas.FnMisc — C36: replace / strpos / translate / greatest / least / width_bucket. -/
import IQE.Spec.Fn.Str
import IQE.Spec.Fn.Math
namespace IQE.Spec.Fn

-- replace with an empty pattern
theorem flatMap_cons_length (s rep : List Char) : (s.flatMap (fun c => c :: rep)).length = s.length * (rep.length + 1) := by
  induction s with
  | nil => simp
  | cons c cs ih => simp only [List.flatMap_cons, List.length_append, List.length_cons, ih, Nat.succ_mul]; omega
theorem replace_empty_length (s rep : List Char) : (replaceS s [] rep).length = s.length + (s.length + 1) * rep.length := by
  simp only [replaceS, List.isEmpty_nil, if_true, List.length_append, flatMap_cons_length]
  generalize s.length = n; generalize rep.length = r
  grind
theorem replace_nil (pat rep : List Char) (hp : pat ≠ []) : replaceS [] pat rep = [] := by
  have : pat.isEmpty = false := by cases pat <;> simp_all
  simp [replaceS, this, replaceGo]
/-- a string that does not contain the first character of the pattern is unchanged -/
theorem replaceGo_no_head (p : Char) (ps rep s : List Char) (h : p ∉ s) : replaceGo (p :: ps) rep s 0 = s := by
  induction s with
  | nil => rfl
  | cons c cs ih =>
    have hc : c ≠ p := by intro e; subst e; simp at h
    have hcs : p ∉ cs := by intro e; exact h (by simp [e])
    simp only [replaceGo]
    have : (p :: ps).isPrefixOf (c :: cs) = false := by simp [List.isPrefixOf, hc.symm]
    simp [this, ih hcs]

-- strpos
theorem findAt_bounds (pat s : List Char) (i : Nat) : findAt pat s i = 0 ∨ (i ≤ findAt pat s i ∧ findAt pat s i ≤ i + s.length) := by
  induction s generalizing i with
  | nil => simp only [findAt]; split <;> simp
  | cons c cs ih =>
    simp only [findAt]
    split
    · right; simp
    · rcases ih (i + 1) with h | h
      · left; exact h
      · right; simp only [List.length_cons]; omega
theorem strpos_found (pre pat post : List Char) : 0 < strpos (pre ++ pat ++ post) pat ∧ strpos (pre ++ pat ++ post) pat ≤ pre.length + 1 := by
  unfold strpos
  suffices h : ∀ i, i ≤ findAt pat (pre ++ pat ++ post) i ∧ findAt pat (pre ++ pat ++ post) i ≤ i + pre.length ∧ (0 < i → 0 < findAt pat (pre ++ pat ++ post) i) by
    have := h 1; omega
  induction pre with
  | nil =>
    intro i
    simp only [List.nil_append, List.length_nil, Nat.add_zero]
    cases hp : pat ++ post with
    | nil =>
      have : pat = [] := by cases pat <;> simp_all
      subst this; simp [findAt]
    | cons c cs =>
      have : pat.isPrefixOf (c :: cs) = true := by rw [← hp]; simp
      simp [findAt, this]
  | cons c cs ih =>
    intro i
    simp only [List.cons_append, findAt, List.length_cons]
    split
    · omega
    · have := ih (i + 1); simp only [List.append_assoc] at *; omega
theorem strpos_empty (s : List Char) : strpos s [] = 1 := by
  unfold strpos; cases s <;> simp [findAt]

-- translate
theorem translate_nil_from (s to : List Char) : translateS s [] to = s := by
  simp [translateS, indexOfC]
theorem flatMap_length_le {α β} (f : α → List β) (h : ∀ c, (f c).length ≤ 1) (s : List α) : (s.flatMap f).length ≤ s.length := by
  induction s with
  | nil => simp
  | cons c cs ih => simp only [List.flatMap_cons, List.length_append, List.length_cons]; have := h c; omega
theorem translate_length_le (s frm to : List Char) : (translateS s frm to).length ≤ s.length := by
  unfold translateS
  apply flatMap_length_le
  intro c
  split
  · simp
  · split <;> simp

-- greatest / least
theorem foldl_max_ge (xs : List Int) (x : Int) :
    x ≤ xs.foldl (fun a b => if b > a then b else a) x ∧ (∀ y ∈ xs, y ≤ xs.foldl (fun a b => if b > a then b else a) x) ∧
    (xs.foldl (fun a b => if b > a then b else a) x = x ∨ xs.foldl (fun a b => if b > a then b else a) x ∈ xs) := by
  induction xs generalizing x with
  | nil => simp
  | cons y ys ih =>
    simp only [List.foldl_cons]
    by_cases hy : y > x
    · simp only [hy, if_true]
      obtain ⟨h1, h2, h3⟩ := ih y
      refine ⟨by omega, ?_, ?_⟩
      · intro z hz
        simp only [List.mem_cons] at hz
        rcases hz with hz | hz
        · subst hz; exact h1
        · exact h2 z hz
      · rcases h3 with h3 | h3
        · right; rw [h3]; simp
        · right; simp [h3]
    · simp only [hy, if_false]
      obtain ⟨h1, h2, h3⟩ := ih x
      refine ⟨h1, ?_, ?_⟩
      · intro z hz
        simp only [List.mem_cons] at hz
        rcases hz with hz | hz
        · subst hz; omega
        · exact h2 z hz
      · rcases h3 with h3 | h3
        · left; exact h3
        · right; simp [h3]
theorem foldl_min_le (xs : List Int) (x : Int) :
    xs.foldl (fun a b => if b < a then b else a) x ≤ x ∧ (∀ y ∈ xs, xs.foldl (fun a b => if b < a then b else a) x ≤ y) ∧
    (xs.foldl (fun a b => if b < a then b else a) x = x ∨ xs.foldl (fun a b => if b < a then b else a) x ∈ xs) := by
  induction xs generalizing x with
  | nil => simp
  | cons y ys ih =>
    simp only [List.foldl_cons]
    by_cases hy : y < x
    · simp only [hy, if_true]
      obtain ⟨h1, h2, h3⟩ := ih y
      refine ⟨by omega, ?_, ?_⟩
      · intro z hz
        simp only [List.mem_cons] at hz
        rcases hz with hz | hz
        · subst hz; exact h1
        · exact h2 z hz
      · rcases h3 with h3 | h3
        · right; rw [h3]; simp
        · right; simp [h3]
    · simp only [hy, if_false]
      obtain ⟨h1, h2, h3⟩ := ih x
      refine ⟨h1, ?_, ?_⟩
      · intro z hz
        simp only [List.mem_cons] at hz
        rcases hz with hz | hz
        · subst hz; omega
        · exact h2 z hz
      · rcases h3 with h3 | h3
        · left; exact h3
        · right; simp [h3]

-- width_bucket
theorem widthBucket_range (x lo hi n b : Int) (hlt : lo < hi) (hn : 0 < n) (h : widthBucket x lo hi n = some b) :
    (x < lo → b = 0) ∧ (hi ≤ x → b = n + 1) ∧
    (lo ≤ x → x < hi → 1 ≤ b ∧ b ≤ n ∧ (b - 1) * (hi - lo) ≤ n * (x - lo) ∧ n * (x - lo) < b * (hi - lo)) := by
  unfold widthBucket at h
  have h1 : ¬ n ≤ 0 := by omega
  have h2 : ¬ lo = hi := by omega
  simp only [h1, h2, hlt, if_false, if_true, Option.some.injEq] at h
  refine ⟨?_, ?_, ?_⟩
  · intro hx; simp only [hx, if_true] at h; exact h.symm
  · intro hx
    have hx1 : ¬ x < lo := by omega
    have hx2 : x ≥ hi := hx
    simp only [hx1, hx2, if_false, if_true] at h; exact h.symm
  · intro hx1' hx2'
    have hx1 : ¬ x < lo := by omega
    have hx2 : ¬ x ≥ hi := by omega
    simp only [hx1, hx2, if_false] at h
    subst h
    have hd : 0 < hi - lo := by omega
    have hq0 : 0 ≤ n * (x - lo) / (hi - lo) := Int.ediv_nonneg (Int.mul_nonneg (by omega) (by omega)) (by omega)
    have hq1 := Int.mul_ediv_self_le (x := n * (x - lo)) (k := hi - lo) (by omega)
    have hq2 := Int.lt_mul_ediv_self_add (x := n * (x - lo)) (k := hi - lo) hd
    have hq3 : n * (x - lo) / (hi - lo) < n := by
      apply Int.ediv_lt_of_lt_mul hd
      have : x - lo < hi - lo := by omega
      exact Int.mul_lt_mul_of_pos_left this hn
    generalize n * (x - lo) / (hi - lo) = q at *
    generalize n * (x - lo) = P at *
    generalize hi - lo = D at *
    refine ⟨by omega, by omega, ?_, ?_⟩
    · have : (q + 1 - 1) * D = D * q := by grind
      rw [this]; exact hq1
    · have : (q + 1) * D = D * q + D := by grind
      rw [this]; exact hq2

end IQE.Spec.Fn
