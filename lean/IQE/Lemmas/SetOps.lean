/-
  IQE.Lemmas.SetOps — multiplicity (`List.count`) characterisations of the bag operations of `IQE.Spec.Query`
  and of the semi/anti-join encodings of `IQE.Engine.SetOps`.
-/
import IQE.Engine.SetOps
namespace IQE.Lemmas.SetOps
open IQE IQE.Spec

theorem count_removeFirst (x y : Row) (r : Table) :
    (removeFirst y r).count x = if x = y ∧ y ∈ r then r.count x - 1 else r.count x := by
  fun_induction removeFirst y r <;> grind [List.count_pos_iff, List.count_eq_zero]

theorem count_intersectAll (x : Row) (l r : Table) :
    (intersectAll l r).count x = min (l.count x) (r.count x) := by
  fun_induction intersectAll l r <;> grind [List.count_pos_iff, List.count_eq_zero, count_removeFirst, List.contains_iff_mem]

theorem count_exceptAll (x : Row) (l r : Table) :
    (exceptAll l r).count x = l.count x - r.count x := by
  fun_induction exceptAll l r <;> grind [List.count_pos_iff, List.count_eq_zero, count_removeFirst, List.contains_iff_mem]

theorem mem_dedupRows (x : Row) (l : Table) : x ∈ dedupRows l ↔ x ∈ l := by
  fun_induction dedupRows l <;> grind

theorem count_dedupRows (x : Row) (l : Table) : (dedupRows l).count x = if x ∈ l then 1 else 0 := by
  fun_induction dedupRows l <;> grind [List.count_filter, List.count_eq_zero, mem_dedupRows]

theorem mem_intersectAll (x : Row) (l r : Table) : x ∈ intersectAll l r ↔ x ∈ l ∧ x ∈ r := by
  rw [← List.count_pos_iff, count_intersectAll, ← List.count_pos_iff, ← List.count_pos_iff]; omega

theorem count_filter_pred (x : Row) (p : Row → Bool) (l : Table) :
    (l.filter p).count x = if p x then l.count x else 0 := by
  induction l with
  | nil => simp
  | cons y ys ih => grind [List.filter_cons]

end IQE.Lemmas.SetOps
