/-
  IQE.Lemmas.Filter — lemmas relating the interpreter model (IQE.Engine.Filter) with all deviation
  switches off to the SQL reference semantics (IQE.Spec.eval), and the strict kernels to Kleene logic.
-/
import IQE.Engine.Filter
import IQE.Lemmas.ExprInduct
namespace IQE.Engine.Filter
open IQE IQE.Spec

theorem bind_ok {ε α β : Type} {x : Except ε α} {f : α → Except ε β} {v : β} :
    (x >>= f) = .ok v ↔ ∃ a, x = .ok a ∧ f a = .ok v := by
  cases x <;> simp [bind, Except.bind]

theorem pure_ok {ε α : Type} {a v : α} : (pure a : Except ε α) = .ok v ↔ a = v := by
  simp [pure, Except.pure]

/-! ### kernels with the switches off are the reference kernels -/

theorem cmpK_eq (fo : FloatOps) (op : BinOp) (a b : Val) : cmpK fo op a b = compareOp fo op a b := by
  unfold cmpK compareOp
  cases h : Val.cmp3 fo a b with
  | error e => rfl
  | ok o => cases o <;> rfl

theorem cmpK_boolOrNull {fo : FloatOps} {op : BinOp} {a b v : Val} (h : cmpK fo op a b = .ok v) : isBoolOrNull v = true := by
  unfold cmpK at h
  cases h' : Val.cmp3 fo a b with
  | error e => simp [h'] at h
  | ok o => cases o <;> simp [h'] at h <;> subst h <;> rfl

theorem andK_none (a b : Val) : andK Dev.none a b = Val.and3 a b := rfl
theorem orK_none (a b : Val) : orK Dev.none a b = Val.or3 a b := rfl

theorem binaryOp_none (fo : FloatOps) (op : BinOp) (a b : Val) : binaryOp Dev.none fo op a b = binVal fo op a b := by
  cases op <;> simp only [binaryOp, binVal, cmpK_eq, andK_none, orK_none]
  · cases a <;> cases b <;> simp [likeK]
  · have h : (BinOp.notLike == BinOp.like) = false := by decide
    cases a <;> cases b <;> simp [likeK, h]
  · cases a <;> cases b <;> rfl

theorem unaryOp_eq (fo : FloatOps) (op : UnOp) (a : Val) : unaryOp fo op a = unVal fo op a := by
  cases op <;> rfl

theorem colAt_eq (r : Row) (i : Nat) : colAt r i = getCol [r] 0 i := by
  cases h : r[i]? <;> simp [colAt, getCol, h]

/-! ### Kleene OR: what the left-to-right accumulation of `evaluate_in_list` computes -/

theorem or3_ok_boolOrNull {a b r : Val} (h : Val.or3 a b = .ok r) : isBoolOrNull a = true ∧ isBoolOrNull b = true ∧ isBoolOrNull r = true := by
  cases a <;> cases b <;> simp [Val.or3] at h <;> (try (rename_i x y; cases x <;> cases y <;> simp [Val.or3] at h)) <;>
    (try (rename_i x; cases x <;> simp [Val.or3] at h)) <;> (try subst h) <;> simp [isBoolOrNull]

theorem or3_false_right {a : Val} (h : isBoolOrNull a = true) : Val.or3 a (.bool false) = .ok a := by
  cases a <;> simp [isBoolOrNull] at h <;> (try (rename_i x; cases x)) <;> rfl

theorem or3_assoc_ok {a b c ab r : Val} (h1 : Val.or3 a b = .ok ab) (h2 : Val.or3 ab c = .ok r) :
    ∃ bc, Val.or3 b c = .ok bc ∧ Val.or3 a bc = .ok r := by
  have ⟨ha, hb, _⟩ := or3_ok_boolOrNull h1
  have ⟨_, hc, _⟩ := or3_ok_boolOrNull h2
  cases a <;> simp [isBoolOrNull] at ha <;> cases b <;> simp [isBoolOrNull] at hb <;> cases c <;> simp [isBoolOrNull] at hc <;>
    (try (rename_i x; cases x)) <;> (try (rename_i x; cases x)) <;> (try (rename_i x; cases x)) <;>
    simp [Val.or3] at h1 <;> subst h1 <;> simp [Val.or3] at h2 <;> subst h2 <;> simp [Val.or3]

theorem inAcc_spec (fo : FloatOps) (x : Val) : ∀ (vs : List Val) (acc r : Val), isBoolOrNull acc = true →
    inAcc Dev.none fo x acc vs = .ok r → ∃ s, inVals fo x vs = .ok s ∧ Val.or3 acc s = .ok r := by
  intro vs
  induction vs with
  | nil =>
    intro acc r hacc h
    simp only [inAcc] at h
    cases h
    exact ⟨.bool false, rfl, or3_false_right hacc⟩
  | cons v vs ih =>
    intro acc r hacc h
    simp only [inAcc, bind_ok, orK_none] at h
    obtain ⟨e, he, acc', hacc', hrest⟩ := h
    have hb := (or3_ok_boolOrNull hacc').2.2
    obtain ⟨s', hs', hor⟩ := ih acc' r hb hrest
    obtain ⟨bc, hbc, hfin⟩ := or3_assoc_ok hacc' hor
    refine ⟨bc, ?_, hfin⟩
    simp only [inVals, bind_ok]
    exact ⟨e, by rw [← cmpK_eq]; exact he, s', hs', hbc⟩

theorem inList_spec (fo : FloatOps) (x : Val) (vs : List Val) (neg : Bool) (v : Val)
    (h : inList Dev.none fo x vs neg = .ok v) :
    (do let r ← inVals fo x vs; if neg then Val.not3 r else pure r) = .ok v := by
  cases vs with
  | nil =>
    simp only [inList] at h
    cases h
    cases neg <;> rfl
  | cons w ws =>
    simp only [inList, bind_ok] at h
    obtain ⟨first, hf, r, hr, hfin⟩ := h
    obtain ⟨s, hs, hor⟩ := inAcc_spec fo x ws first r (cmpK_boolOrNull hf) hr
    simp only [bind_ok, inVals]
    exact ⟨r, ⟨first, by rw [← cmpK_eq]; exact hf, s, hs, hor⟩, hfin⟩

/-! ### CASE / COALESCE: eager evaluation + zip gives what the lazy reference gives, when nothing raises -/

theorem evalList_cons_ok {cx : EvalCtx} {env : Env} {e : Expr} {es : List Expr} {ws : List Val}
    (h : Spec.evalList cx env (e :: es) = .ok ws) :
    ∃ v vs, ws = v :: vs ∧ Spec.eval cx env e = .ok v ∧ Spec.evalList cx env es = .ok vs := by
  simp only [Spec.evalList, bind_ok, pure_ok] at h
  obtain ⟨v, hv, vs, hvs, rfl⟩ := h
  exact ⟨v, vs, rfl, hv, hvs⟩

theorem evalCase_of_list (cx : EvalCtx) (env : Env) : ∀ (arms : List Expr) (vs : List Val) (v : Val),
    Spec.evalList cx env arms = .ok vs → caseZip vs = .ok v → Spec.evalCase cx env arms = .ok v
  | [], vs, v, h1, h2 => by
    simp only [Spec.evalList] at h1
    cases h1
    simp only [caseZip] at h2
    simp only [Spec.evalCase]; exact h2
  | [e], vs, v, h1, h2 => by
    obtain ⟨w, ws, rfl, hw, hws⟩ := evalList_cons_ok h1
    simp only [Spec.evalList] at hws
    cases hws
    simp only [caseZip] at h2
    cases h2
    simp only [Spec.evalCase]; exact hw
  | c :: t :: rest, vs, v, h1, h2 => by
    obtain ⟨vc, ws, rfl, hc, hws⟩ := evalList_cons_ok h1
    obtain ⟨vt, vrest, rfl, ht, hrest⟩ := evalList_cons_ok hws
    simp only [caseZip, bind_ok] at h2
    obtain ⟨els, hels, hsel⟩ := h2
    have ih := evalCase_of_list cx env rest vrest els hrest hels
    simp only [Spec.evalCase, bind_ok]
    refine ⟨vc, hc, ?_⟩
    cases vc with
    | bool b => cases b <;> simp at hsel <;> subst hsel <;> simp [ht, ih]
    | null => simp at hsel; subst hsel; simp [ih]
    | _ => simp at hsel

theorem evalCoalesce_of_list (cx : EvalCtx) (env : Env) : ∀ (es : List Expr) (vs : List Val),
    Spec.evalList cx env es = .ok vs → Spec.evalCoalesce cx env es = .ok (coalesceZip vs)
  | [], vs, h => by
    simp only [Spec.evalList] at h
    cases h
    simp [Spec.evalCoalesce, coalesceZip]
  | e :: es, vs, h => by
    obtain ⟨w, ws, rfl, hw, hws⟩ := evalList_cons_ok h
    have ih := evalCoalesce_of_list cx env es ws hws
    simp only [Spec.evalCoalesce, bind_ok]
    refine ⟨w, hw, ?_⟩
    cases w <;> simp [coalesceZip, ih, pure, Except.pure]

theorem nullifZip_spec (fo : FloatOps) (x y v : Val) (h : nullifZip fo x y = .ok v) :
    ∃ w, compareOp fo .eq x y = .ok w ∧ v = (if w = .bool true then .null else x) := by
  unfold nullifZip at h
  rw [cmpK_eq] at h
  cases hc : compareOp fo .eq x y with
  | error e => simp [hc] at h
  | ok w =>
    simp only [hc] at h
    refine ⟨w, rfl, ?_⟩
    cases w with
    | bool b => cases b <;> simp at h <;> subst h <;> simp
    | _ => simp at h; subst h; simp

/-! ### the refinement theorem -/

/-- list part: members refine ⇒ `evalList` refines -/
theorem evalList_refines (cx : EvalCtx) (r : Row) : ∀ (es : List Expr),
    (∀ x ∈ es, ∀ v, eval Dev.none cx.fo r x = .ok v → Spec.eval cx [r] x = .ok v) →
    ∀ vs, evalList Dev.none cx.fo r es = .ok vs → Spec.evalList cx [r] es = .ok vs := by
  intro es
  induction es with
  | nil => intro _ vs h; simp only [evalList] at h; cases h; simp [Spec.evalList]
  | cons e es ih =>
    intro hmem vs h
    simp only [evalList, bind_ok, pure_ok] at h
    obtain ⟨v, hv, ws, hws, rfl⟩ := h
    simp only [Spec.evalList, bind_ok, pure_ok]
    exact ⟨v, hmem e (List.mem_cons_self ..) v hv, ws, ih (fun x hx => hmem x (List.mem_cons_of_mem _ hx)) ws hws, rfl⟩

/-- With every deviation switch off, whenever the interpreter model yields a value the SQL reference semantics yields the same value
    (for every expression tree, row and float-arithmetic instance). Expressions outside the modelled fragment make the model raise. -/
theorem eval_refines (cx : EvalCtx) (r : Row) (e : Expr) :
    ∀ v, eval Dev.none cx.fo r e = .ok v → Spec.eval cx [r] e = .ok v := by
  induction e using Expr.induction with
  | lit w => intro v h; simpa [eval, Spec.eval] using h
  | col i => intro v h; simp only [eval, colAt_eq] at h; simpa [Spec.eval] using h
  | un op e ih =>
    intro v h
    simp only [eval, bind_ok, unaryOp_eq] at h
    obtain ⟨a, ha, hv⟩ := h
    simp only [Spec.eval, bind_ok]
    exact ⟨a, ih a ha, hv⟩
  | bin op a b iha ihb =>
    intro v h
    simp only [eval, bind_ok, binaryOp_none] at h
    obtain ⟨x, hx, y, hy, hv⟩ := h
    simp only [Spec.eval, bind_ok]
    exact ⟨x, iha x hx, y, ihb y hy, hv⟩
  | inList e items neg ihe ihitems =>
    intro v h
    simp only [eval, bind_ok] at h
    obtain ⟨x, hx, vs, hvs, hv⟩ := h
    have hl := evalList_refines cx r items ihitems vs hvs
    have := inList_spec cx.fo x vs neg v hv
    simp only [bind_ok] at this
    obtain ⟨rr, hrr, hfin⟩ := this
    simp only [Spec.eval, bind_ok]
    exact ⟨x, ihe x hx, vs, hl, rr, hrr, hfin⟩
  | between e lo hi neg ihe ihlo ihhi =>
    intro v h
    simp only [eval, bind_ok, andK_none, cmpK_eq] at h
    obtain ⟨x, hx, l, hl, hh, hhh, ge, hge, le, hle, res, hres, hfin⟩ := h
    simp only [Spec.eval, bind_ok]
    exact ⟨x, ihe x hx, l, ihlo l hl, hh, ihhi hh hhh, ge, hge, le, hle, res, hres, hfin⟩
  | case_ arms ih =>
    intro v h
    simp only [eval, bind_ok] at h
    obtain ⟨vs, hvs, hv⟩ := h
    have hl := evalList_refines cx r arms ih vs hvs
    split at hv
    · cases hv
    · simp only [Spec.eval]; exact evalCase_of_list cx [r] arms vs v hl hv
  | coalesce es ih =>
    intro v h
    simp only [eval, bind_ok] at h
    obtain ⟨vs, hvs, hv⟩ := h
    have hl := evalList_refines cx r es ih vs hvs
    split at hv
    · cases hv
    · simp only [pure_ok] at hv; subst hv
      simp only [Spec.eval]; exact evalCoalesce_of_list cx [r] es vs hl
  | nullif a b iha ihb =>
    intro v h
    simp only [eval, bind_ok] at h
    obtain ⟨x, hx, y, hy, hv⟩ := h
    obtain ⟨w, hw, rfl⟩ := nullifZip_spec cx.fo x y v hv
    simp only [Spec.eval, bind_ok]
    refine ⟨x, iha x hx, y, ihb y hy, w, hw, ?_⟩
    cases w with
    | bool b => cases b <;> simp [pure, Except.pure]
    | _ => simp [pure, Except.pure]
  | outer d i => intro v h; simp [eval] at h
  | cast e ty _ => intro v h; simp [eval] at h
  | fn name args _ => intro v h; simp [eval] at h
  | exists_ sub neg => intro v h; simp [eval] at h
  | inSub e sub neg _ => intro v h; simp [eval] at h
  | scalarSub sub => intro v h; simp [eval] at h

/-! ### filter -/

theorem keep_spec (cx : EvalCtx) (e : Expr) : ∀ (rows : List Row) (m : List Val), mask Dev.none cx.fo e rows = .ok m →
    keep rows m = rows.filter (fun r => isTrueRes (Spec.eval cx [r] e)) := by
  intro rows
  induction rows with
  | nil => intro m h; simp only [mask] at h; cases h; rfl
  | cons r rs ih =>
    intro m h
    simp only [mask, bind_ok, pure_ok] at h
    obtain ⟨v, hv, vs, hvs, rfl⟩ := h
    have hs := eval_refines cx r e v hv
    simp only [keep, List.filter_cons, hs, ih vs hvs]
    cases v with
    | bool b => cases b <;> simp [isTrueRes]
    | _ => simp [isTrueRes]

/-! ### strict kernels vs Kleene -/

theorem andK_true_iff (dev : Dev) (a b : Val) : andK dev a b = .ok (.bool true) ↔ a = .bool true ∧ b = .bool true := by
  unfold andK
  cases dev.strictAndOr <;> cases a <;> cases b <;> simp [Val.and3, Val.andStrict] <;>
    (try (rename_i x y; cases x <;> cases y <;> simp [Val.and3])) <;> (try (rename_i x; cases x <;> simp [Val.and3]))

theorem strict_eq_kleene_of_nonnull {a b : Val} (ha : a ≠ .null) (hb : b ≠ .null) :
    Val.andStrict a b = Val.and3 a b ∧ Val.orStrict a b = Val.or3 a b := by
  cases a <;> cases b <;> simp_all [Val.and3, Val.andStrict, Val.or3, Val.orStrict] <;>
    (rename_i x y; cases x <;> cases y <;> simp [Val.and3, Val.or3])

/-- the strict kernels are "less defined": a definite strict answer is the Kleene answer -/
theorem strict_definite_is_kleene {a b : Val} {t : Bool} :
    (Val.andStrict a b = .ok (.bool t) → Val.and3 a b = .ok (.bool t)) ∧ (Val.orStrict a b = .ok (.bool t) → Val.or3 a b = .ok (.bool t)) := by
  cases a <;> cases b <;> simp [Val.and3, Val.andStrict, Val.or3, Val.orStrict] <;>
    (rename_i x y; cases x <;> cases y <;> simp [Val.and3, Val.or3])

theorem evalList_kernelFree (dev : Dev) (fo : FloatOps) (r : Row) : ∀ (es : List Expr),
    (∀ x ∈ es, kernelFree x = true → eval dev fo r x = eval Dev.none fo r x) →
    kernelFreeList es = true → evalList dev fo r es = evalList Dev.none fo r es := by
  intro es
  induction es with
  | nil => intro _ _; rfl
  | cons e es ih =>
    intro hmem hk
    simp only [kernelFreeList, Bool.and_eq_true] at hk
    simp only [evalList, hmem e (List.mem_cons_self ..) hk.1, ih (fun x hx => hmem x (List.mem_cons_of_mem _ hx)) hk.2]

/-- an expression without AND / OR / IN-list / BETWEEN never reaches the boolean kernels: the switch is invisible -/
theorem eval_kernelFree (dev : Dev) (fo : FloatOps) (r : Row) (e : Expr) :
    kernelFree e = true → eval dev fo r e = eval Dev.none fo r e := by
  induction e using Expr.induction with
  | lit w => intro _; rfl
  | col i => intro _; rfl
  | un op e ih => intro h; simp only [kernelFree] at h; simp only [eval, ih h]
  | bin op a b iha ihb =>
    intro h
    simp only [kernelFree, Bool.and_eq_true, bne_iff_ne, ne_eq] at h
    obtain ⟨⟨⟨h1, h2⟩, ha⟩, hb⟩ := h
    simp only [eval, iha ha, ihb hb]
    cases op <;> simp_all [binaryOp]
  | inList e items neg _ _ => intro h; simp [kernelFree] at h
  | between e lo hi neg _ _ _ => intro h; simp [kernelFree] at h
  | case_ arms ih => intro h; simp only [kernelFree] at h; simp only [eval, evalList_kernelFree dev fo r arms ih h]
  | coalesce es ih => intro h; simp only [kernelFree] at h; simp only [eval, evalList_kernelFree dev fo r es ih h]
  | nullif a b iha ihb =>
    intro h
    simp only [kernelFree, Bool.and_eq_true] at h
    simp only [eval, iha h.1, ihb h.2]
  | outer d i => intro _; rfl
  | cast e ty _ => intro _; rfl
  | fn name args _ => intro _; rfl
  | exists_ sub neg => intro _; rfl
  | inSub e sub neg _ => intro _; rfl
  | scalarSub sub => intro _; rfl

/-- WHEN A FILTER CANNOT TELL: on a conjunctive predicate (no OR, no IN-list, no NOT BETWEEN, and AND / BETWEEN only at the top,
    never beneath NOT or any other operator) the row is kept under the null-strict kernels iff it is kept under Kleene logic. -/
theorem conjunctive_true_iff (dev : Dev) (fo : FloatOps) (r : Row) (e : Expr) :
    conjunctive e = true → (eval dev fo r e = .ok (.bool true) ↔ eval Dev.none fo r e = .ok (.bool true)) := by
  induction e using Expr.induction with
  | bin op a b iha ihb =>
    intro h
    cases op
    case and =>
      simp only [conjunctive, Bool.and_eq_true] at h
      simp only [eval, bind_ok, binaryOp, andK_true_iff]
      constructor
      · rintro ⟨x, hx, y, hy, rfl, rfl⟩
        exact ⟨_, (iha h.1).1 hx, _, (ihb h.2).1 hy, rfl, rfl⟩
      · rintro ⟨x, hx, y, hy, rfl, rfl⟩
        exact ⟨_, (iha h.1).2 hx, _, (ihb h.2).2 hy, rfl, rfl⟩
    all_goals (simp only [conjunctive] at h; rw [eval_kernelFree dev fo r _ h])
  | between e lo hi neg _ _ _ =>
    intro h
    cases neg
    · simp only [conjunctive, Bool.and_eq_true] at h
      simp only [eval, eval_kernelFree dev fo r e h.1.1, eval_kernelFree dev fo r lo h.1.2, eval_kernelFree dev fo r hi h.2, bind_ok,
        Bool.false_eq_true, if_false, pure_ok]
      constructor
      · rintro ⟨x, hx, l, hl, hh, hhh, ge, hge, le, hle, res, hres, rfl⟩
        exact ⟨x, hx, l, hl, hh, hhh, ge, hge, le, hle, _, (andK_true_iff _ _ _).2 ((andK_true_iff _ _ _).1 hres), rfl⟩
      · rintro ⟨x, hx, l, hl, hh, hhh, ge, hge, le, hle, res, hres, rfl⟩
        exact ⟨x, hx, l, hl, hh, hhh, ge, hge, le, hle, _, (andK_true_iff _ _ _).2 ((andK_true_iff _ _ _).1 hres), rfl⟩
    · simp [conjunctive, kernelFree] at h
  | lit w => intro _; rfl
  | col i => intro _; rfl
  | un op e _ => intro h; simp only [conjunctive] at h; rw [eval_kernelFree dev fo r _ h]
  | inList e items neg _ _ => intro h; simp [conjunctive, kernelFree] at h
  | case_ arms _ => intro h; simp only [conjunctive] at h; rw [eval_kernelFree dev fo r _ h]
  | coalesce es _ => intro h; simp only [conjunctive] at h; rw [eval_kernelFree dev fo r _ h]
  | nullif a b _ _ => intro h; simp only [conjunctive] at h; rw [eval_kernelFree dev fo r _ h]
  | outer d i => intro _; rfl
  | cast e ty _ => intro _; rfl
  | fn name args _ => intro _; rfl
  | exists_ sub neg => intro _; rfl
  | inSub e sub neg _ => intro _; rfl
  | scalarSub sub => intro _; rfl

end IQE.Engine.Filter
