/-
  Lemmas for C33: sums over the reservation table and preservation of the invariant by every labelled step.
-/
import IQE.Engine.MemPool
namespace IQE.Engine.MemPool

theorem total_append_some (l : List (Option Nat)) (n : Nat) : total (l ++ [some n]) = total l + n := by
  simp [total]

theorem total_set : ∀ (l : List (Option Nat)) (r : Nat) (x y : Option Nat), l[r]? = some x →
    total (l.set r y) + x.getD 0 = total l + y.getD 0 := by
  intro l
  induction l with
  | nil => intro r x y h; simp at h
  | cons a l ih =>
    intro r x y h
    cases r with
    | zero =>
      simp only [List.getElem?_cons_zero, Option.some.injEq] at h
      subst h
      simp only [total, List.set_cons_zero, List.map_cons, List.sum_cons]
      omega
    | succ r =>
      simp only [List.getElem?_cons_succ] at h
      have := ih r x y h
      simp only [total, List.set_cons_succ, List.map_cons, List.sum_cons] at this ⊢
      omega

theorem le_total_of_mem : ∀ (l : List (Option Nat)) (r sz : Nat), l[r]? = some (some sz) → sz ≤ total l := by
  intro l r sz h
  have := total_set l r (some sz) none h
  simp at this
  omega

/-- The invariant of the small-step model. -/
structure Inv (c : Cfg) : Prop where
  /-- the atomic equals the sum of the live reservations, modulo the word size -/
  usedEq : c.used = total c.live % M
  /-- every reservation size is a `usize` -/
  sizes : ∀ sz, some sz ∈ c.live → sz < M
  /-- a thread about to CAS has checked `cur + n` against overflow and against the limit -/
  pcs : ∀ n cur, Pc.cas n cur ∈ c.pcs → cur + n ≤ c.max ∧ cur + n < M

theorem inv_init (max nthreads : Nat) : Inv (init max nthreads) := by
  refine ⟨by simp [init, total], by simp [init], ?_⟩
  intro n cur h
  simp only [init] at h
  have := List.eq_of_mem_replicate h
  cases this

theorem step_max (c c' : Cfg) (l : Label) (h : step c l = some c') : c'.max = c.max := by
  cases l <;> simp only [step] at h <;> (repeat' split at h) <;> simp_all <;> (subst h; rfl)

theorem mem_pcs_set_afterRead {pcs : List Pc} {t max n v n' cur' : Nat}
    (h : Pc.cas n' cur' ∈ pcs.set t (afterRead max n v)) :
    (cur' + n' ≤ max ∧ cur' + n' < M) ∨ Pc.cas n' cur' ∈ pcs := by
  rcases List.mem_or_eq_of_mem_set h with h1 | h1
  · exact Or.inr h1
  · left
    unfold afterRead at h1
    split at h1
    · cases h1; rename_i hc; exact ⟨hc.2, hc.1⟩
    · cases h1

theorem mem_set_some {l : List (Option Nat)} {r : Nat} {y : Option Nat} {sz : Nat}
    (h : some sz ∈ l.set r y) : some sz ∈ l ∨ y = some sz := by
  rcases List.mem_or_eq_of_mem_set h with h1 | h1
  · exact Or.inl h1
  · exact Or.inr h1.symm

theorem step_inv (c c' : Cfg) (l : Label) (hi : Inv c) (h : step c l = some c') : Inv c' := by
  obtain ⟨hu, hs, hp⟩ := hi
  cases l with
  | tryLoad t n v =>
    simp only [step] at h
    split at h
    · cases h
      refine ⟨hu, hs, ?_⟩
      intro n' cur' hm
      rcases mem_pcs_set_afterRead hm with h1 | h1
      · exact h1
      · exact hp _ _ h1
    · cases h
  | cas t ok v =>
    simp only [step] at h
    split at h
    · rename_i n cur hpc
      have hmem : Pc.cas n cur ∈ c.pcs := List.mem_of_getElem? hpc
      have hb := hp _ _ hmem
      split at h
      · split at h
        · rename_i hused
          cases h
          refine ⟨?_, ?_, ?_⟩
          · show cur + n = total (c.live ++ [some n]) % M
            rw [total_append_some]
            have : c.used = total c.live % M := hu
            rw [hused] at this
            have h2 := hb.2
            simp only [M] at *
            omega
          · intro sz hm
            show sz < M
            have hm' : some sz ∈ c.live ++ [some n] := hm
            rcases List.mem_append.1 hm' with h1 | h1
            · exact hs _ h1
            · simp only [List.mem_singleton, Option.some.injEq] at h1
              subst h1; have := hb.2; omega
          · intro n' cur' hm
            rcases List.mem_or_eq_of_mem_set hm with h1 | h1
            · exact hp _ _ h1
            · cases h1
        · cases h
      · split at h
        · cases h
          refine ⟨hu, hs, ?_⟩
          intro n' cur' hm
          rcases mem_pcs_set_afterRead hm with h1 | h1
          · exact h1
          · exact hp _ _ h1
        · cases h
    · cases h
  | allocate t n =>
    simp only [step] at h
    split at h
    · rename_i hc
      cases h
      refine ⟨?_, ?_, hp⟩
      · show wadd c.used n = total (c.live ++ [some n]) % M
        rw [total_append_some]
        have : c.used = total c.live % M := hu
        simp only [wadd, M] at *
        omega
      · intro sz hm
        have hm' : some sz ∈ c.live ++ [some n] := hm
        rcases List.mem_append.1 hm' with h1 | h1
        · exact hs _ h1
        · simp only [List.mem_singleton, Option.some.injEq] at h1
          subst h1; exact hc.2
    · cases h
  | resize t r new =>
    simp only [step] at h
    split at h
    · rename_i sz hl
      split at h
      · rename_i hc
        cases h
        have hts := total_set c.live r (some sz) (some new) hl
        have hsz : sz < M := hs _ (List.mem_of_getElem? hl)
        have hle := le_total_of_mem c.live r sz hl
        simp only [Option.getD_some] at hts
        refine ⟨?_, ?_, hp⟩
        · show (if new > sz then wadd c.used (new - sz) else wsub c.used (sz - new)) = total (c.live.set r (some new)) % M
          have : c.used = total c.live % M := hu
          split
          · simp only [wadd, M] at *; omega
          · simp only [wsub, M] at *; omega
        · intro sz' hm
          rcases mem_set_some hm with h1 | h1
          · exact hs _ h1
          · cases h1; exact hc.2
      · cases h
    · cases h
  | drop t r =>
    simp only [step] at h
    split at h
    · rename_i sz hl
      split at h
      · cases h
        have hts := total_set c.live r (some sz) none hl
        have hsz : sz < M := hs _ (List.mem_of_getElem? hl)
        simp only [Option.getD_some, Option.getD_none] at hts
        refine ⟨?_, ?_, hp⟩
        · show wsub c.used sz = total (c.live.set r none) % M
          have : c.used = total c.live % M := hu
          simp only [wsub, M] at *; omega
        · intro sz' hm
          rcases mem_set_some hm with h1 | h1
          · exact hs _ h1
          · cases h1
      · cases h
    · cases h

theorem reachable_inv {max nthreads : Nat} {c : Cfg} (h : Reachable max nthreads c) : Inv c ∧ c.max = max := by
  induction h with
  | init => exact ⟨inv_init _ _, rfl⟩
  | step _ hs ih =>
    obtain ⟨l, hl⟩ := hs
    exact ⟨step_inv _ _ l ih.1 hl, by rw [step_max _ _ l hl]; exact ih.2⟩

theorem run_reachable {max nthreads : Nat} : ∀ (ls : List Label) (c c' : Cfg),
    Reachable max nthreads c → run c ls = some c' → Reachable max nthreads c' := by
  intro ls
  induction ls with
  | nil => intro c c' hr h; simp only [run, Option.some.injEq] at h; subst h; exact hr
  | cons l ls ih =>
    intro c c' hr h
    simp only [run] at h
    split at h
    · rename_i c1 hc1; exact ih c1 c' (Reachable.step hr ⟨l, hc1⟩) h
    · cases h

end IQE.Engine.MemPool
