/-
  Helper lemmas for C10: Arrow IPC stream framing (`IQE.Engine.Coordinator`).
  How the message reader behaves on an arbitrary PREFIX of a well-formed framed stream.
-/
import IQE.Engine.Coordinator
namespace IQE.Lemmas.Coordinator
open IQE.Engine.Coordinator

theorem rd32_le32 (n : Nat) (h : n < 4294967296) : rd32 (le32 n) = n := by
  simp only [le32, rd32]; omega

theorem le32_length (n : Nat) : (le32 n).length = 4 := rfl

theorem le32_ne_cont (n : Nat) (h : n < 2147483648) : le32 n ≠ CONT := by
  intro hc
  have : rd32 (le32 n) = rd32 CONT := by rw [hc]
  rw [rd32_le32 n (by omega)] at this
  simp [rd32, CONT] at this
  omega

theorem splitN_append (a b : List Byte) : splitN a.length (a ++ b) = some (a, b) := by
  simp [splitN]

theorem splitN_append' (n : Nat) (a b : List Byte) (h : a.length = n) : splitN n (a ++ b) = some (a, b) := by
  subst h; exact splitN_append a b

theorem splitN_short (n : Nat) (p : List Byte) (h : p.length < n) : splitN n p = none := by
  simp [splitN, h]

theorem prefix_split (p a b : List Byte) (h : p <+: a ++ b) (hl : a.length ≤ p.length) :
    ∃ p', p = a ++ p' ∧ p' <+: b := by
  obtain ⟨t, ht⟩ := h
  rcases List.append_eq_append_iff.mp ht with ⟨a', h1, _⟩ | ⟨c', h1, h2⟩
  · have : a'.length = 0 := by
      have := congrArg List.length h1; simp at this; omega
    have ha' : a' = [] := List.length_eq_zero_iff.mp this
    subst ha'
    exact ⟨[], by simpa using h1.symm, List.nil_prefix⟩
  · exact ⟨c', h1, ⟨t, h2.symm⟩⟩

/-- a message whose metadata parses and whose declared `bodyLength` is the body's length -/
def WfMsg (parse : List Byte → Option Hdr) (m : Msg) : Prop :=
  0 < m.md.length ∧ m.md.length < 2147483648 ∧ ∃ h, parse m.md = some h ∧ h.bodyLen = m.body.length

theorem frameMsg_length (m : Msg) : (frameMsg m).length = 8 + m.md.length + m.body.length := by
  simp [frameMsg, CONT, le32]; omega

/-- `readBody` on a prefix of `md ++ body ++ rest` -/
theorem readBody_prefix (parse : List Byte → Option Hdr) (m : Msg) (hw : WfMsg parse m) (rest p : List Byte)
    (hp : p <+: m.md ++ (m.body ++ rest)) :
    (p.length < m.md.length + m.body.length ∧ readBody parse m.md.length p = .err) ∨
    (∃ p' h, p = m.md ++ (m.body ++ p') ∧ p' <+: rest ∧ parse m.md = some h ∧ readBody parse m.md.length p = .msg m h p') := by
  obtain ⟨hpos, hlt, h, hparse, hbl⟩ := hw
  unfold readBody
  rw [if_neg (by omega), if_neg (by omega)]
  by_cases h1 : p.length < m.md.length
  · left; rw [splitN_short _ _ h1]; exact ⟨by omega, rfl⟩
  · obtain ⟨p3, rfl, hp3⟩ := prefix_split p _ _ hp (by omega)
    rw [splitN_append]
    simp only [hparse, hbl]
    by_cases h2 : p3.length < m.body.length
    · left; rw [splitN_short _ _ h2]; refine ⟨by simp; omega, rfl⟩
    · obtain ⟨p4, rfl, hp4⟩ := prefix_split p3 _ _ hp3 (by omega)
      right
      rw [splitN_append]
      exact ⟨p4, h, rfl, hp4, rfl, rfl⟩

/-- the message reader on an arbitrary prefix `p` of `frameMsg m ++ rest` -/
theorem readMsg_prefix (parse : List Byte → Option Hdr) (m : Msg) (hw : WfMsg parse m) (rest p : List Byte)
    (hp : p <+: frameMsg m ++ rest) :
    (p.length < 4 ∧ readMsg parse p = .eof) ∨
    (p.length < (frameMsg m).length ∧ readMsg parse p = .err) ∨
    (∃ p' h, p = frameMsg m ++ p' ∧ p' <+: rest ∧ parse m.md = some h ∧ readMsg parse p = .msg m h p') := by
  have hlen := frameMsg_length m
  have hw' := hw
  obtain ⟨hpos, hlt, _⟩ := hw
  unfold frameMsg at hp
  simp only [List.append_assoc] at hp
  unfold readMsg
  by_cases h1 : p.length < 4
  · left; rw [splitN_short _ _ h1]; exact ⟨h1, rfl⟩
  · right
    obtain ⟨p1, rfl, hp1⟩ := prefix_split p _ _ hp (by simp [CONT]; omega)
    simp only [splitN_append' 4 CONT p1 rfl, ↓reduceIte]
    by_cases h2 : p1.length < 4
    · left; simp only [splitN_short _ _ h2, and_true]; simp [CONT]; omega
    · obtain ⟨p2, rfl, hp2⟩ := prefix_split p1 _ _ hp1 (by simp [le32]; omega)
      simp only [splitN_append' 4 _ p2 (le32_length _)]
      simp only [rd32_le32 m.md.length (by omega)]
      rcases readBody_prefix parse m hw' rest p2 hp2 with ⟨hl, he⟩ | ⟨p', h, rfl, hp', hparse, hr⟩
      · left; exact ⟨by simp [CONT, le32]; omega, he⟩
      · right; exact ⟨p', h, by simp [frameMsg], hp', hparse, hr⟩

/-- the message reader on an arbitrary prefix of `EOS ++ rest` -/
theorem readMsg_prefix_eos (parse : List Byte → Option Hdr) (rest p : List Byte) (hp : p <+: EOS ++ rest) :
    (p.length < 4 ∧ readMsg parse p = .eof) ∨
    (p.length < 8 ∧ readMsg parse p = .err) ∨
    (∃ p', p = EOS ++ p' ∧ p' <+: rest ∧ readMsg parse p = .eos p') := by
  unfold EOS at hp
  simp only [List.append_assoc] at hp
  unfold readMsg
  by_cases h1 : p.length < 4
  · left; rw [splitN_short _ _ h1]; exact ⟨h1, rfl⟩
  · right
    obtain ⟨p1, rfl, hp1⟩ := prefix_split p _ _ hp (by simp [CONT]; omega)
    simp only [splitN_append' 4 CONT p1 rfl, ↓reduceIte]
    by_cases h2 : p1.length < 4
    · left; simp only [splitN_short _ _ h2, and_true]; simp [CONT]; omega
    · obtain ⟨p2, rfl, hp2⟩ := prefix_split p1 _ _ hp1 (by simp [le32]; omega)
      right
      simp only [splitN_append' 4 _ p2 (le32_length _)]
      refine ⟨p2, by simp [EOS], hp2, ?_⟩
      simp [readBody, rd32, le32]


/-- messages that may follow the schema message: well-formed dictionary or record batches -/
def BodyMsgs (parse : List Byte → Option Hdr) (tl : List Msg) : Prop :=
  ∀ m ∈ tl, WfMsg parse m ∧ ∃ h, parse m.md = some h ∧ (h.kind = .dict ∨ ∃ r, h.kind = .batch r)

theorem batchesOf_cons_dict (parse : List Byte → Option Hdr) (m : Msg) (tl : List Msg) (h : Hdr)
    (hp : parse m.md = some h) (hk : h.kind = .dict) : batchesOf parse (m :: tl) = batchesOf parse tl := by
  obtain ⟨bl, k⟩ := h
  simp only at hk; subst hk
  simp [batchesOf, hp]

theorem batchesOf_cons_batch (parse : List Byte → Option Hdr) (m : Msg) (tl : List Msg) (h : Hdr) (r : Nat)
    (hp : parse m.md = some h) (hk : h.kind = .batch r) : batchesOf parse (m :: tl) = m :: batchesOf parse tl := by
  obtain ⟨bl, k⟩ := h
  simp only at hk; subst hk
  simp [batchesOf, hp]

/-- The batch loop on an arbitrary prefix `p` of the framed remainder of a well-formed stream:
    whatever it returns is the batches of a prefix of the messages; when EOF is not taken for
    end-of-stream it returns something only on the complete remainder. -/
theorem decodeLoop_prefix (parse : List Byte → Option Hdr) (dev : Dev) :
    ∀ (tl : List Msg) (p : List Byte) (fuel : Nat) (acc r : List Msg), BodyMsgs parse tl →
      p <+: frameMsgs tl ++ EOS → p.length < fuel → decodeLoop parse dev fuel p acc = some r →
      (∃ k, r = acc ++ batchesOf parse (tl.take k)) ∧
      (dev.eofIsEos = false → p = frameMsgs tl ++ EOS ∧ r = acc ++ batchesOf parse tl) := by
  intro tl
  induction tl with
  | nil =>
    intro p fuel acc r _ hp hf hd
    cases fuel with
    | zero => omega
    | succ f =>
      simp only [frameMsgs, List.nil_append] at hp ⊢
      have hp' : p <+: EOS ++ [] := by simpa using hp
      unfold decodeLoop at hd
      rcases readMsg_prefix_eos parse [] p hp' with ⟨_, he⟩ | ⟨_, he⟩ | ⟨p', rfl, hp'', he⟩
      · rw [he] at hd
        by_cases hb : dev.eofIsEos = true
        · simp [hb] at hd; subst hd
          exact ⟨⟨0, by simp [batchesOf]⟩, by intro h; simp [hb] at h⟩
        · simp [hb] at hd
      · rw [he] at hd; simp at hd
      · have : p' = [] := List.prefix_nil.mp hp''
        subst this
        rw [he] at hd
        simp at hd; subst hd
        exact ⟨⟨0, by simp [batchesOf]⟩, fun _ => ⟨by simp, by simp [batchesOf]⟩⟩
  | cons m tl ih =>
    intro p fuel acc r hb hp hf hd
    cases fuel with
    | zero => omega
    | succ f =>
      have hbm := hb m (by simp)
      obtain ⟨hwm, h, hparse, hkind⟩ := hbm
      have hbtl : BodyMsgs parse tl := fun x hx => hb x (by simp [hx])
      simp only [frameMsgs, List.append_assoc] at hp
      unfold decodeLoop at hd
      rcases readMsg_prefix parse m hwm _ p hp with ⟨_, he⟩ | ⟨_, he⟩ | ⟨p', h', rfl, hp', hparse', he⟩
      · rw [he] at hd
        by_cases hbe : dev.eofIsEos = true
        · simp [hbe] at hd; subst hd
          exact ⟨⟨0, by simp [batchesOf]⟩, by intro hh; simp [hbe] at hh⟩
        · simp [hbe] at hd
      · rw [he] at hd; simp at hd
      · rw [he] at hd
        have hh : h' = h := by rw [hparse] at hparse'; exact (Option.some.inj hparse').symm
        subst hh
        have hlen : p'.length < f := by
          have := frameMsg_length m
          simp at hf; omega
        rcases hkind with hk | ⟨rr, hk⟩
        · simp only [hk] at hd
          obtain ⟨⟨k, hk1⟩, hk2⟩ := ih p' f acc r hbtl hp' hlen hd
          refine ⟨⟨k + 1, ?_⟩, ?_⟩
          · simp only [List.take_succ_cons]
            rw [batchesOf_cons_dict parse m _ h' hparse hk]; exact hk1
          · intro hs
            obtain ⟨e1, e2⟩ := hk2 hs
            refine ⟨by simp [frameMsgs, e1], ?_⟩
            rw [batchesOf_cons_dict parse m _ h' hparse hk]; exact e2
        · simp only [hk] at hd
          obtain ⟨⟨k, hk1⟩, hk2⟩ := ih p' f (acc ++ [m]) r hbtl hp' hlen hd
          refine ⟨⟨k + 1, ?_⟩, ?_⟩
          · simp only [List.take_succ_cons]
            rw [batchesOf_cons_batch parse m _ h' rr hparse hk, hk1]; simp
          · intro hs
            obtain ⟨e1, e2⟩ := hk2 hs
            refine ⟨by simp [frameMsgs, e1], ?_⟩
            rw [batchesOf_cons_batch parse m _ h' rr hparse hk, e2]; simp

/-- the batch loop on the complete framed remainder returns every record batch -/
theorem decodeLoop_full (parse : List Byte → Option Hdr) (dev : Dev) :
    ∀ (tl : List Msg) (fuel : Nat) (acc : List Msg), BodyMsgs parse tl →
      (frameMsgs tl ++ EOS).length < fuel →
      decodeLoop parse dev fuel (frameMsgs tl ++ EOS) acc = some (acc ++ batchesOf parse tl) := by
  intro tl
  induction tl with
  | nil =>
    intro fuel acc _ hf
    cases fuel with
    | zero => omega
    | succ f =>
      simp only [frameMsgs, List.nil_append]
      unfold decodeLoop
      rcases readMsg_prefix_eos parse [] EOS (by simp) with ⟨hl, _⟩ | ⟨hl, _⟩ | ⟨p', hp, hp'', he⟩
      · simp [EOS, CONT, le32] at hl
      · simp [EOS, CONT, le32] at hl
      · have : p' = [] := List.prefix_nil.mp hp''
        subst this
        rw [he]; simp [batchesOf]
  | cons m tl ih =>
    intro fuel acc hb hf
    cases fuel with
    | zero => omega
    | succ f =>
      obtain ⟨hwm, h, hparse, hkind⟩ := hb m (by simp)
      have hbtl : BodyMsgs parse tl := fun x hx => hb x (by simp [hx])
      simp only [frameMsgs, List.append_assoc]
      unfold decodeLoop
      have hlenm := frameMsg_length m
      rcases readMsg_prefix parse m hwm (frameMsgs tl ++ EOS) _ (List.prefix_refl _) with ⟨hl, _⟩ | ⟨hl, _⟩ | ⟨p', h', hp, _, hparse', he⟩
      · simp at hl; omega
      · simp at hl; omega
      · have hp'e : p' = frameMsgs tl ++ EOS := (List.append_cancel_left hp).symm
        subst hp'e
        rw [he]
        have hh : h' = h := by rw [hparse] at hparse'; exact (Option.some.inj hparse').symm
        subst hh
        have hlen : (frameMsgs tl ++ EOS).length < f := by
          simp [frameMsgs] at hf; simp; omega
        rcases hkind with hk | ⟨rr, hk⟩
        · simp only [hk]
          rw [ih f acc hbtl hlen, batchesOf_cons_dict parse m _ h' hparse hk]
        · simp only [hk]
          rw [ih f (acc ++ [m]) hbtl hlen, batchesOf_cons_batch parse m _ h' rr hparse hk]; simp

end IQE.Lemmas.Coordinator
