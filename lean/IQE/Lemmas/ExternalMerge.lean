/-
  IQE.Lemmas.ExternalMerge — the streaming k-way merge (and the multi-pass merge built from it) of sorted runs is sorted and a
  permutation of the rows of the runs, for ANY total preorder, any number of runs, any fan-in; grace hash join and
  hash-partitioned aggregation equal the unpartitioned operators as bags, for ANY hash function.
-/
import IQE.Engine.ExternalMerge
import IQE.Lemmas.Sorting
namespace IQE.Lemmas.ExternalMerge
open IQE IQE.Engine.ExternalMerge IQE.Lemmas.Sorting List

variable {α : Type}

/-- a strict comparison `lt` that is the complement of a total preorder `le` -/
structure StrictOf (le lt : α → α → Bool) : Prop where
  trans : ∀ a b c, le a b → le b c → le a c
  total : ∀ a b, le a b || le b a
  lt_iff : ∀ a b, lt a b = !le b a

def RunsSorted (le : α → α → Bool) (runs : List (List α)) : Prop := ∀ r ∈ runs, r.Pairwise (fun a b => le a b)

theorem extractMin_none {lt : α → α → Bool} : ∀ (runs : List (List α)), extractMin lt runs = none → runs.flatten = []
  | [], _ => rfl
  | [] :: rs, h => by
    simp only [extractMin, Option.map_eq_none_iff] at h
    simpa using extractMin_none rs h
  | (x :: xs) :: rs, h => by
    simp only [extractMin] at h
    split at h
    · cases h
    · split at h <;> cases h

theorem extractMin_some {le lt : α → α → Bool} (hs : StrictOf le lt) :
    ∀ (runs : List (List α)) (m : α) (rs' : List (List α)), extractMin lt runs = some (m, rs') → RunsSorted le runs →
      runs.flatten ~ m :: rs'.flatten ∧ RunsSorted le rs' ∧ (∀ x ∈ rs'.flatten, le m x = true) ∧ totalLen runs = totalLen rs' + 1
  | [], m, rs', h, _ => by simp [extractMin] at h
  | [] :: rs, m, rs', h, hsorted => by
    simp only [extractMin, Option.map_eq_some_iff] at h
    obtain ⟨⟨m0, r0⟩, h0, heq⟩ := h
    simp only [Prod.mk.injEq] at heq
    obtain ⟨rfl, rfl⟩ := heq
    obtain ⟨a, b, c, d⟩ := extractMin_some hs rs m0 r0 h0 (fun r hr => hsorted r (by simp [hr]))
    refine ⟨by simpa using a, ?_, by simpa using c, by simpa [totalLen] using d⟩
    intro r hr
    rcases List.mem_cons.1 hr with rfl | hr
    · exact Pairwise.nil
    · exact b r hr
  | (x :: xs) :: rs, m, rs', h, hsorted => by
    have hx : (x :: xs).Pairwise (fun a b => le a b) := hsorted _ (by simp)
    have hrest : RunsSorted le rs := fun r hr => hsorted r (by simp [hr])
    simp only [extractMin] at h
    split at h
    · -- every later run is exhausted
      rename_i hnone
      cases h
      have hflat := extractMin_none rs hnone
      refine ⟨by simp, ?_, ?_, by simp [totalLen]; omega⟩
      · intro r hr
        rcases List.mem_cons.1 hr with rfl | hr
        · exact hx.tail
        · exact hrest r hr
      · intro y hy
        simp only [flatten_cons, hflat, append_nil] at hy
        exact rel_of_pairwise_cons hx hy
    · rename_i m0 r0 hsome
      obtain ⟨a, b, c, d⟩ := extractMin_some hs rs m0 r0 hsome hrest
      split at h
      · -- a later run has a strictly smaller head
        rename_i hlt
        cases h
        rw [hs.lt_iff] at hlt
        have hmx : le m x = true := by
          have := hs.total m x
          simp only [Bool.not_eq_eq_eq_not, Bool.not_true] at hlt
          simpa [hlt] using this
        refine ⟨?_, ?_, ?_, by simp [totalLen] at d ⊢; omega⟩
        · simp only [flatten_cons]
          exact ((Perm.append_left (x :: xs) a).trans perm_middle)
        · intro r hr
          rcases List.mem_cons.1 hr with rfl | hr
          · exact hx
          · exact b r hr
        · intro y hy
          simp only [flatten_cons, mem_append] at hy
          rcases hy with hy | hy
          · rcases List.mem_cons.1 hy with rfl | hy
            · exact hmx
            · exact hs.trans _ _ _ hmx (rel_of_pairwise_cons hx hy)
          · exact c y hy
      · -- the head of this (earlier) run is minimal
        rename_i hnlt
        cases h
        rw [hs.lt_iff] at hnlt
        have hxm : le x m0 = true := by simpa using hnlt
        refine ⟨by simp, ?_, ?_, by simp [totalLen]; omega⟩
        · intro r hr
          rcases List.mem_cons.1 hr with rfl | hr
          · exact hx.tail
          · exact hrest r hr
        · intro y hy
          simp only [flatten_cons, mem_append] at hy
          rcases hy with hy | hy
          · exact rel_of_pairwise_cons hx hy
          · have : y ∈ m0 :: r0.flatten := a.subset hy
            rcases List.mem_cons.1 this with rfl | hy'
            · exact hxm
            · exact hs.trans _ _ _ hxm (c y hy')

theorem totalLen_eq_length_flatten (runs : List (List α)) : totalLen runs = runs.flatten.length := by
  simp [totalLen, length_flatten]

/-- the streaming k-way merge of sorted runs is sorted and a permutation of their rows -/
theorem kWayMerge_spec {le lt : α → α → Bool} (hs : StrictOf le lt) (fuel : Nat) (runs : List (List α))
    (hsorted : RunsSorted le runs) (hfuel : totalLen runs ≤ fuel) :
    (kWayMerge lt runs fuel).Pairwise (fun a b => le a b) ∧ kWayMerge lt runs fuel ~ runs.flatten := by
  induction fuel generalizing runs with
  | zero =>
    have : runs.flatten = [] := by
      have := totalLen_eq_length_flatten runs
      exact List.eq_nil_of_length_eq_zero (by omega)
    simp [kWayMerge, this]
  | succ fuel ih =>
    simp only [kWayMerge]
    split
    · rename_i hnone
      simp [extractMin_none runs hnone]
    · rename_i m rs hsome
      obtain ⟨a, b, c, d⟩ := extractMin_some hs runs m rs hsome hsorted
      obtain ⟨i1, i2⟩ := ih rs b (by omega)
      refine ⟨?_, ?_⟩
      · rw [pairwise_cons]
        exact ⟨fun y hy => c y (i2.subset hy), i1⟩
      · exact (Perm.cons m i2).trans a.symm

theorem mergeRuns_spec {le lt : α → α → Bool} (hs : StrictOf le lt) (runs : List (List α)) (hsorted : RunsSorted le runs) :
    (mergeRuns lt runs).Pairwise (fun a b => le a b) ∧ mergeRuns lt runs ~ runs.flatten :=
  kWayMerge_spec hs _ runs hsorted (Nat.le_refl _)

theorem chunksOf_flatten (n : Nat) (hn : 0 < n) (fuel : Nat) (l : List (List α)) (hf : l.length ≤ fuel) :
    (chunksOf n l fuel).flatten = l ∧ ∀ c ∈ chunksOf n l fuel, ∀ r ∈ c, r ∈ l := by
  induction fuel generalizing l with
  | zero =>
    have : l = [] := List.eq_nil_of_length_eq_zero (by omega)
    simp [chunksOf, this]
  | succ fuel ih =>
    simp only [chunksOf]
    by_cases he : l.isEmpty = true
    · have : l = [] := by simpa using he
      simp [this]
    · have hne : l ≠ [] := by simpa using he
      simp only [he, Bool.false_eq_true, if_false]
      have hlen : (l.drop n).length ≤ fuel := by
        have : 0 < l.length := List.length_pos_iff.2 hne
        simp only [length_drop]; omega
      obtain ⟨i1, i2⟩ := ih (l.drop n) hlen
      refine ⟨by simp [i1], ?_⟩
      intro c hc r hr
      rcases List.mem_cons.1 hc with rfl | hc
      · exact List.mem_of_mem_take hr
      · exact List.mem_of_mem_drop (i2 c hc r hr)

/-- one pass of `multi_pass_merge` keeps the runs sorted and keeps the bag of rows -/
theorem pass_spec {le lt : α → α → Bool} (hs : StrictOf le lt) (chunks : List (List (List α)))
    (hsorted : ∀ c ∈ chunks, RunsSorted le c) :
    RunsSorted le (chunks.filterMap fun chunk => match chunk with
        | [r] => some r
        | _ => let m := mergeRuns lt chunk; if m.isEmpty then none else some m) ∧
    (chunks.filterMap fun chunk => match chunk with
        | [r] => some r
        | _ => let m := mergeRuns lt chunk; if m.isEmpty then none else some m).flatten ~ chunks.flatten.flatten := by
  induction chunks with
  | nil => exact ⟨fun r hr => by simp at hr, by simp⟩
  | cons c cs ih =>
    obtain ⟨i1, i2⟩ := ih (fun c' hc' => hsorted c' (by simp [hc']))
    have hc := hsorted c (by simp)
    simp only [filterMap_cons]
    split
    · -- the chunk contributes nothing: its merge is empty
      rename_i hnone
      refine ⟨i1, ?_⟩
      have hflat : c.flatten = [] := by
        split at hnone
        · cases hnone
        · split at hnone
          · rename_i hem
            have := (mergeRuns_spec hs c hc).2
            have hnil : mergeRuns lt c = [] := by simpa using hem
            rw [hnil] at this
            exact this.symm.eq_nil
          · cases hnone
      simpa [hflat] using i2
    · rename_i r hsome
      have hr : r.Pairwise (fun a b => le a b) ∧ r ~ c.flatten := by
        split at hsome
        · rename_i r0
          cases hsome
          exact ⟨hc r (by simp), by simp⟩
        · split at hsome
          · cases hsome
          · cases hsome
            exact mergeRuns_spec hs c hc
      refine ⟨?_, ?_⟩
      · intro r' hr'
        rcases List.mem_cons.1 hr' with rfl | hr'
        · exact hr.1
        · exact i1 r' hr'
      · simp only [flatten_cons, flatten_append]
        exact hr.2.append i2

/-- multi-pass merging with ANY fan-in ≥ 1 (and any fuel): sorted, and a permutation of the rows of the runs -/
theorem multiPass_spec {le lt : α → α → Bool} (hs : StrictOf le lt) (fanin : Nat) (hf : 0 < fanin) (fuel : Nat) (runs : List (List α))
    (hsorted : RunsSorted le runs) :
    (multiPass lt fanin runs fuel).Pairwise (fun a b => le a b) ∧ multiPass lt fanin runs fuel ~ runs.flatten := by
  induction fuel generalizing runs with
  | zero => exact mergeRuns_spec hs runs hsorted
  | succ fuel ih =>
    simp only [multiPass]
    split
    · obtain ⟨c1, c2⟩ := chunksOf_flatten fanin hf runs.length runs (Nat.le_refl _)
      have hcs : ∀ c ∈ chunksOf fanin runs runs.length, RunsSorted le c := fun c hc r hr => hsorted r (c2 c hc r hr)
      obtain ⟨p1, p2⟩ := pass_spec hs (chunksOf fanin runs runs.length) hcs
      obtain ⟨i1, i2⟩ := ih _ p1
      refine ⟨i1, i2.trans ?_⟩
      rw [c1] at p2
      exact p2
    · exact mergeRuns_spec hs runs hsorted

theorem mergeAll_spec {le lt : α → α → Bool} (hs : StrictOf le lt) (runs : List (List α)) (hsorted : RunsSorted le runs) :
    (mergeAll lt runs).Pairwise (fun a b => le a b) ∧ mergeAll lt runs ~ runs.flatten := by
  unfold mergeAll
  split
  · simp
  · rename_i r
    exact ⟨hsorted r (by simp), by simp⟩
  · split
    · exact multiPass_spec hs 8 (by omega) _ runs hsorted
    · exact mergeRuns_spec hs runs hsorted

/-! ### grace hash join -/

theorem flatMap_perm_pointwise {β : Type} (l : List α) (f g : α → List β) (h : ∀ a ∈ l, f a ~ g a) : l.flatMap f ~ l.flatMap g := by
  induction l with
  | nil => simp
  | cons a l ih =>
    simp only [flatMap_cons]
    exact (h a (by simp)).append (ih (fun b hb => h b (by simp [hb])))

/-- splitting a list by ANY partitioning function into `P` parts and concatenating the parts is a permutation -/
theorem partition_perm (part : α → Nat) (P : Nat) (l : List α) :
    (List.range P).flatMap (fun p => l.filter (fun x => part x == p)) ~ l.filter (fun x => decide (part x < P)) := by
  induction P with
  | zero => simp
  | succ P ih =>
    rw [List.range_succ, flatMap_append]
    simp only [flatMap_cons, flatMap_nil, append_nil]
    have hsplit := filter_append_perm (fun x => decide (part x < P)) (l.filter (fun x => decide (part x < P + 1)))
    refine Perm.trans ?_ hsplit
    have e1 : (l.filter (fun x => decide (part x < P + 1))).filter (fun x => decide (part x < P)) = l.filter (fun x => decide (part x < P)) := by
      rw [filter_filter]
      apply List.filter_congr
      intro x _
      by_cases h : part x < P
      · have : part x < P + 1 := by omega
        simp [h, this]
      · simp [h]
    have e2 : (l.filter (fun x => decide (part x < P + 1))).filter (fun x => !decide (part x < P)) = l.filter (fun x => part x == P) := by
      rw [filter_filter]
      apply List.filter_congr
      intro x _
      by_cases h : part x = P
      · simp [h]
      · by_cases h2 : part x < P
        · simp [h, h2]
        · have : ¬ part x < P + 1 := by omega
          simp [h, h2, this]
    rw [e1, e2]
    exact ih.append_right _

theorem partition_perm_all (part : α → Nat) (P : Nat) (l : List α) (h : ∀ x ∈ l, part x < P) :
    (List.range P).flatMap (fun p => l.filter (fun x => part x == p)) ~ l := by
  have := partition_perm part P l
  rwa [filter_eq_self.2 (fun x hx => by simpa using h x hx)] at this

/-- Grace hash join: for ANY partitioning functions that send matching rows to the same partition (any hash of the join key),
    joining partition-wise and concatenating is the join, as bags. -/
theorem graceJoin_perm {β : Type} (P : Nat) (pl : α → Nat) (pr : β → Nat) (m : α → β → Bool) (L : List α) (R : List β)
    (hm : ∀ l r, m l r = true → pl l = pr r) (hl : ∀ l ∈ L, pl l < P) :
    graceJoin P pl pr m L R ~ joinOn m L R := by
  unfold graceJoin
  have step : ∀ p ∈ List.range P, joinOn m (L.filter (fun l => pl l == p)) (R.filter (fun r => pr r == p)) ~
      (L.filter (fun l => pl l == p)).flatMap (fun l => (R.filter (m l)).map fun r => (l, r)) := by
    intro p _
    unfold joinOn
    apply flatMap_perm_pointwise
    intro l hl'
    have hp : pl l = p := by simpa using (List.mem_filter.1 hl').2
    have : (R.filter (fun r => pr r == p)).filter (m l) = R.filter (m l) := by
      rw [filter_filter]
      apply List.filter_congr
      intro r _
      by_cases hmr : m l r = true
      · have := hm l r hmr
        have : pr r = p := by omega
        simp [hmr, this]
      · simp [hmr]
    rw [this]
  refine (flatMap_perm_pointwise _ _ _ step).trans ?_
  rw [← List.flatMap_assoc]
  exact Perm.flatMap_right _ (partition_perm_all pl P L hl)

/-! ### hash-partitioned aggregation -/

theorem dedup_filter {κ : Type} [DecidableEq κ] (q : κ → Bool) : ∀ (l : List κ), dedup (l.filter q) = (dedup l).filter q
  | [] => rfl
  | x :: xs => by
    by_cases hx : q x = true
    · simp only [filter_cons, hx, if_true, dedup, dedup_filter q xs]
      rw [filter_filter, filter_filter]
      congr 1
      apply List.filter_congr
      intro y _
      exact Bool.and_comm _ _
    · have hx' : q x = false := by simpa using hx
      simp only [filter_cons, hx', Bool.false_eq_true, if_false, dedup, dedup_filter q xs]
      rw [filter_filter]
      apply List.filter_congr
      intro y _
      by_cases hy : y = x
      · subst hy; simp [hx']
      · simp [hy]

/-- Hash-partitioned GROUP BY: for ANY hash function of the key, aggregating every partition on its own and concatenating
    gives the groups of the unpartitioned aggregation, each computed from exactly its rows in input order, as a bag. -/
theorem partitionedAgg_perm {κ γ : Type} [DecidableEq κ] (P : Nat) (h : κ → Nat) (key : α → κ) (agg : List α → γ) (L : List α)
    (hP : ∀ x ∈ L, h (key x) < P) : partitionedAgg P h key agg L ~ groupAgg key agg L := by
  unfold partitionedAgg groupAgg
  have step : ∀ p, (dedup ((L.filter (fun x => h (key x) == p)).map key)).map
        (fun k => (k, agg ((L.filter (fun x => h (key x) == p)).filter (fun x => key x = k)))) =
      ((dedup (L.map key)).filter (fun k => h k == p)).map (fun k => (k, agg (L.filter (fun x => key x = k)))) := by
    intro p
    have e : (L.filter (fun x => h (key x) == p)).map key = (L.map key).filter (fun k => h k == p) := by
      rw [List.filter_map]; rfl
    rw [e, dedup_filter]
    apply List.map_congr_left
    intro k hk
    have hkp : h k = p := by simpa using (List.mem_filter.1 hk).2
    congr 2
    rw [filter_filter]
    apply List.filter_congr
    intro x _
    by_cases hxk : key x = k
    · subst hxk; simp [hkp]
    · simp [hxk]
  simp only [step]
  rw [← List.map_flatMap]
  apply Perm.map
  apply partition_perm_all (fun k => h k) P
  intro k hk
  have : k ∈ L.map key := by
    have hsub : ∀ (l : List κ) (y : κ), y ∈ dedup l → y ∈ l := by
      intro l
      induction l with
      | nil => intro y hy; simp [dedup] at hy
      | cons a t ih =>
        intro y hy
        simp only [dedup, mem_cons, mem_filter] at hy
        rcases hy with rfl | ⟨hy, _⟩
        · simp
        · exact List.mem_cons_of_mem _ (ih y hy)
    exact hsub _ k hk
  obtain ⟨x, hx, rfl⟩ := List.mem_map.1 this
  exact hP x hx

end IQE.Lemmas.ExternalMerge
