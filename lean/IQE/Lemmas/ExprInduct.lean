/-
  IQE.Lemmas.ExprInduct — an induction principle for the nested inductive `Spec.Expr`
  (constructors carry `List Expr`): the list cases hand over `∀ x ∈ items, P x`.
  Proved once from the auto-generated recursor `Expr.rec` (motive on lists := "P holds for every member").
-/
import IQE.Spec.Expr
namespace IQE.Spec

theorem Expr.induction {P : Expr → Prop}
    (lit : ∀ v, P (.lit v))
    (col : ∀ i, P (.col i))
    (outer : ∀ d i, P (.outer d i))
    (un : ∀ op e, P e → P (.un op e))
    (bin : ∀ op a b, P a → P b → P (.bin op a b))
    (inList : ∀ e items neg, P e → (∀ x ∈ items, P x) → P (.inList e items neg))
    (between : ∀ e lo hi neg, P e → P lo → P hi → P (.between e lo hi neg))
    (case_ : ∀ arms, (∀ x ∈ arms, P x) → P (.case_ arms))
    (coalesce : ∀ es, (∀ x ∈ es, P x) → P (.coalesce es))
    (nullif : ∀ a b, P a → P b → P (.nullif a b))
    (cast : ∀ e ty, P e → P (.cast e ty))
    (fn : ∀ name args, (∀ x ∈ args, P x) → P (.fn name args))
    (exists_ : ∀ sub neg, P (.exists_ sub neg))
    (inSub : ∀ e sub neg, P e → P (.inSub e sub neg))
    (scalarSub : ∀ sub, P (.scalarSub sub))
    (e : Expr) : P e :=
  Expr.rec (motive_1 := P) (motive_2 := fun es => ∀ x ∈ es, P x)
    lit col outer un bin inList between case_ coalesce nullif cast fn exists_ inSub scalarSub
    (by intro x hx; cases hx)
    (by
      intro h t ih iht x hx
      cases hx with
      | head => exact ih
      | tail _ hm => exact iht x hm)
    e

end IQE.Spec
