/-
  IQE.Lemmas.CpuListText — string-level lemmas for C42 (`parse_cpulist`):
  whitespace trimming, `split(',')`, `split_once('-')`, `parse::<usize>` on rendered numbers,
  and `collect` of a comma-joined list of parts.
-/
import IQE.Engine.CpuList
namespace IQE.Text

/-! ### character classes -/

theorem isWs_comma : isWs ',' = false := by decide
theorem isWs_dash : isWs '-' = false := by decide
theorem isWs_plus : isWs '+' = false := by decide
theorem isDigit_comma : isDigit ',' = false := by decide
theorem isDigit_dash : isDigit '-' = false := by decide
theorem isDigit_plus : isDigit '+' = false := by decide

theorem isWs_of_isDigit {c : Char} (h : isDigit c = true) : isWs c = false := by
  have h0 : '0'.toNat = 48 := rfl
  have h9 : '9'.toNat = 57 := rfl
  unfold isDigit at h
  rw [h0, h9] at h
  simp only [Bool.and_eq_true, decide_eq_true_eq] at h
  unfold isWs
  simp only [Bool.or_eq_false_iff, Bool.and_eq_false_iff, decide_eq_false_iff_not, beq_eq_false_iff_ne]
  omega

/-! ### all-whitespace lists -/

/-- Every character is Unicode `White_Space`. -/
def AllWs (w : List Char) : Prop := ∀ c ∈ w, isWs c = true

theorem AllWs.nil : AllWs [] := by intro c h; cases h

theorem AllWs.append {a b : List Char} (ha : AllWs a) (hb : AllWs b) : AllWs (a ++ b) := by
  intro c h
  rcases List.mem_append.1 h with h | h
  · exact ha c h
  · exact hb c h

theorem AllWs.cons {c : Char} {w : List Char} (hc : isWs c = true) (hw : AllWs w) : AllWs (c :: w) := by
  intro d h
  rcases List.mem_cons.1 h with rfl | h
  · exact hc
  · exact hw d h

theorem AllWs.tail {c : Char} {w : List Char} (h : AllWs (c :: w)) : AllWs w :=
  fun d hd => h d (List.mem_cons_of_mem _ hd)

theorem AllWs.reverse {w : List Char} (h : AllWs w) : AllWs w.reverse :=
  fun c hc => h c (List.mem_reverse.1 hc)

theorem AllWs.not_mem {w : List Char} (h : AllWs w) {c : Char} (hc : isWs c = false) : c ∉ w := by
  intro hm
  rw [h c hm] at hc
  cases hc

/-! ### dropWhile / trimStart / trimEnd -/

theorem dropWhile_allWs_append {w : List Char} (h : AllWs w) (x : List Char) :
    (w ++ x).dropWhile isWs = x.dropWhile isWs := by
  induction w with
  | nil => rfl
  | cons c w ih =>
    have hc : isWs c = true := h c List.mem_cons_self
    simp only [List.cons_append, List.dropWhile_cons, hc, if_true]
    exact ih h.tail

theorem dropWhile_allWs {w : List Char} (h : AllWs w) : w.dropWhile isWs = [] := by
  have := dropWhile_allWs_append h []
  simpa using this

theorem dropWhile_append_stop {c : Char} (hc : isWs c = false) (x r : List Char) :
    (x ++ c :: r).dropWhile isWs = x.dropWhile isWs ++ c :: r := by
  induction x with
  | nil => simp [hc]
  | cons d x ih =>
    simp only [List.cons_append, List.dropWhile_cons]
    split
    · exact ih
    · rfl

theorem trimStart_allWs_append {w : List Char} (h : AllWs w) (x : List Char) :
    trimStart (w ++ x) = trimStart x := dropWhile_allWs_append h x

theorem trimStart_allWs {w : List Char} (h : AllWs w) : trimStart w = [] := dropWhile_allWs h

theorem trimEnd_append_allWs {w : List Char} (h : AllWs w) (x : List Char) :
    trimEnd (x ++ w) = trimEnd x := by
  unfold trimEnd
  rw [List.reverse_append, dropWhile_allWs_append h.reverse]

theorem trimEnd_allWs {w : List Char} (h : AllWs w) : trimEnd w = [] := by
  unfold trimEnd
  rw [dropWhile_allWs h.reverse]
  rfl

theorem trimEnd_nil : trimEnd [] = [] := rfl
theorem trimStart_nil : trimStart [] = [] := rfl
theorem trim_nil : trim [] = [] := rfl

theorem trimStart_append_stop {c : Char} (hc : isWs c = false) (x r : List Char) :
    trimStart (x ++ c :: r) = trimStart x ++ c :: r := dropWhile_append_stop hc x r

theorem trimEnd_append_stop {c : Char} (hc : isWs c = false) (x r : List Char) :
    trimEnd (x ++ c :: r) = x ++ c :: trimEnd r := by
  unfold trimEnd
  have : (x ++ c :: r).reverse = r.reverse ++ c :: x.reverse := by simp
  rw [this, dropWhile_append_stop hc]
  simp

theorem trimEnd_fix_iff (m : List Char) : trimEnd m = m ↔ m.reverse.dropWhile isWs = m.reverse := by
  unfold trimEnd
  constructor
  · intro h
    have := congrArg List.reverse h
    simpa using this
  · intro h
    rw [h, List.reverse_reverse]

theorem trimEnd_append_fix {m : List Char} (hm : trimEnd m = m) (hne : m ≠ []) (x : List Char) :
    trimEnd (x ++ m) = x ++ m := by
  have h1 := (trimEnd_fix_iff m).1 hm
  unfold trimEnd
  rw [List.reverse_append, List.dropWhile_append, h1]
  simp [hne]

theorem mem_of_mem_trimStart {c : Char} {l : List Char} (h : c ∈ trimStart l) : c ∈ l :=
  (List.dropWhile_sublist isWs).mem h

theorem mem_of_mem_trimEnd {c : Char} {l : List Char} (h : c ∈ trimEnd l) : c ∈ l := by
  unfold trimEnd at h
  exact List.mem_reverse.1 ((List.dropWhile_sublist isWs).mem (List.mem_reverse.1 h))

theorem mem_of_mem_trim {c : Char} {l : List Char} (h : c ∈ trim l) : c ∈ l :=
  mem_of_mem_trimStart (mem_of_mem_trimEnd h)

/-! ### tight lists and the trim specification -/

/-- Neither the first nor the last character is whitespace (vacuous for `[]`). -/
def Tight (m : List Char) : Prop := trimStart m = m ∧ trimEnd m = m

theorem Tight.nil : Tight [] := ⟨rfl, rfl⟩

theorem Tight.of_no_ws {m : List Char} (h : ∀ c ∈ m, isWs c = false) : Tight m := by
  constructor
  · cases m with
    | nil => rfl
    | cons a r => simp [trimStart, h a List.mem_cons_self]
  · rw [trimEnd_fix_iff]
    cases hr : m.reverse with
    | nil => rfl
    | cons a r =>
      have : a ∈ m := List.mem_reverse.1 (by rw [hr]; exact List.mem_cons_self)
      simp [h a this]

theorem trimStart_append_fix {m : List Char} (hm : trimStart m = m) (hne : m ≠ []) (x : List Char) :
    trimStart (m ++ x) = m ++ x := by
  unfold trimStart at hm ⊢
  rw [List.dropWhile_append, hm]
  simp [hne]

theorem Tight.trim_eq {m : List Char} (hm : Tight m) : trim m = m := by
  unfold trim
  rw [hm.1, hm.2]

/-- A tight non-empty prefix and suffix make the whole tight, whatever is in between. -/
theorem Tight.sandwich {a b : List Char} (ha : Tight a) (hane : a ≠ []) (hb : Tight b) (hbne : b ≠ [])
    (x : List Char) : Tight (a ++ x ++ b) := by
  constructor
  · rw [List.append_assoc]
    exact trimStart_append_fix ha.1 hane _
  · exact trimEnd_append_fix hb.2 hbne _

/-- `trim` removes exactly the surrounding whitespace. -/
theorem trim_spec {w1 m w2 : List Char} (h1 : AllWs w1) (h2 : AllWs w2) (hm : Tight m) :
    trim (w1 ++ m ++ w2) = m := by
  unfold trim
  rw [List.append_assoc, trimStart_allWs_append h1]
  by_cases hne : m = []
  · subst hne
    rw [List.nil_append, trimStart_allWs h2]
    rfl
  · have h : trimStart (m ++ w2) = m ++ w2 := by
      have h0 := hm.1
      unfold trimStart at h0 ⊢
      rw [List.dropWhile_append, h0]
      simp [hne]
    rw [h, trimEnd_append_allWs h2]
    exact hm.2

/-- Every string is whitespace, a tight core, whitespace. -/
theorem exists_decomp (l : List Char) :
    ∃ w1 m w2, l = w1 ++ m ++ w2 ∧ AllWs w1 ∧ AllWs w2 ∧ Tight m := by
  induction l with
  | nil => exact ⟨[], [], [], rfl, AllWs.nil, AllWs.nil, Tight.nil⟩
  | cons c cs ih =>
    obtain ⟨w1, m, w2, rfl, h1, h2, hm⟩ := ih
    by_cases hc : isWs c = true
    · exact ⟨c :: w1, m, w2, by simp, AllWs.cons hc h1, h2, hm⟩
    · have hc' : isWs c = false := by simpa using hc
      by_cases hne : m = []
      · subst hne
        refine ⟨[], [c], w1 ++ w2, by simp, AllWs.nil, h1.append h2, ?_⟩
        exact Tight.of_no_ws (by intro d hd; rw [List.mem_singleton.1 hd]; exact hc')
      · refine ⟨[], c :: (w1 ++ m), w2, by simp, AllWs.nil, h2, ?_, ?_⟩
        · simp [trimStart, hc']
        · exact trimEnd_append_fix hm.2 hne (c :: w1)

theorem trim_tight (l : List Char) : Tight (trim l) := by
  obtain ⟨w1, m, w2, rfl, h1, h2, hm⟩ := exists_decomp l
  rw [trim_spec h1 h2 hm]
  exact hm

/-- `l = w1 ++ trim l ++ w2` with whitespace `w1`, `w2`. -/
theorem exists_trim_decomp (l : List Char) :
    ∃ w1 w2, l = w1 ++ trim l ++ w2 ∧ AllWs w1 ∧ AllWs w2 := by
  obtain ⟨w1, m, w2, rfl, h1, h2, hm⟩ := exists_decomp l
  rw [trim_spec h1 h2 hm]
  exact ⟨w1, w2, rfl, h1, h2⟩

theorem trim_allWs_append {w : List Char} (h : AllWs w) (x : List Char) : trim (w ++ x) = trim x := by
  unfold trim
  rw [trimStart_allWs_append h]

theorem trim_append_allWs {w : List Char} (h : AllWs w) (x : List Char) : trim (x ++ w) = trim x := by
  obtain ⟨w1, m, w2, rfl, h1, h2, hm⟩ := exists_decomp x
  rw [trim_spec h1 h2 hm, List.append_assoc, trim_spec h1 (h2.append h) hm]

theorem trim_allWs {w : List Char} (h : AllWs w) : trim w = [] := by
  have := trim_spec (m := []) h AllWs.nil Tight.nil
  simpa using this

theorem allWs_of_trim_nil {l : List Char} (h : trim l = []) : AllWs l := by
  obtain ⟨w1, w2, hl, h1, h2⟩ := exists_trim_decomp l
  rw [hl, h]
  exact (h1.append AllWs.nil).append h2

theorem trim_trim (l : List Char) : trim (trim l) = trim l := by
  have := trim_spec (m := trim l) AllWs.nil AllWs.nil (trim_tight l)
  simpa using this

theorem trim_trimStart (l : List Char) : trim (trimStart l) = trim l := by
  obtain ⟨w1, m, w2, rfl, h1, h2, hm⟩ := exists_decomp l
  rw [List.append_assoc, trimStart_allWs_append h1, ← List.append_assoc, trim_spec h1 h2 hm]
  by_cases hne : m = []
  · subst hne
    rw [List.nil_append, trimStart_allWs h2]
    rfl
  · have h : trimStart (m ++ w2) = m ++ w2 := by
      have h0 := hm.1
      unfold trimStart at h0 ⊢
      rw [List.dropWhile_append, h0]
      simp [hne]
    rw [h]
    have := trim_spec (w1 := []) AllWs.nil h2 hm
    simpa using this

theorem trim_trimEnd (l : List Char) : trim (trimEnd l) = trim l := by
  obtain ⟨w1, m, w2, rfl, h1, h2, hm⟩ := exists_decomp l
  rw [trimEnd_append_allWs h2, trim_spec h1 h2 hm]
  by_cases hne : m = []
  · subst hne
    rw [List.append_nil, trimEnd_allWs h1]
    rfl
  · rw [trimEnd_append_fix hm.2 hne]
    have := trim_spec (w2 := []) h1 AllWs.nil hm
    simpa using this

/-! ### split(sep) -/

theorem splitOn_ne_nil (sep : Char) (l : List Char) : splitOn sep l ≠ [] := by
  induction l with
  | nil => simp [splitOn]
  | cons c cs ih =>
    unfold splitOn
    split
    · simp
    · split <;> simp

theorem splitOn_of_not_mem {sep : Char} {p : List Char} (h : sep ∉ p) : splitOn sep p = [p] := by
  induction p with
  | nil => rfl
  | cons c p ih =>
    have hc : (c == sep) = false := by
      simp only [beq_eq_false_iff_ne, ne_eq]
      intro e; exact h (by rw [e]; exact List.mem_cons_self)
    have ih' := ih (fun hm => h (List.mem_cons_of_mem _ hm))
    simp [splitOn, hc, ih']

theorem splitOn_append_sep {sep : Char} {p : List Char} (h : sep ∉ p) (r : List Char) :
    splitOn sep (p ++ sep :: r) = p :: splitOn sep r := by
  induction p with
  | nil => simp [splitOn]
  | cons c p ih =>
    have hc : (c == sep) = false := by
      simp only [beq_eq_false_iff_ne, ne_eq]
      intro e; exact h (by rw [e]; exact List.mem_cons_self)
    have ih' := ih (fun hm => h (List.mem_cons_of_mem _ hm))
    simp [splitOn, hc, ih']

/-! ### split_once(sep) -/

theorem splitOnce_append_sep {sep : Char} {x : List Char} (h : sep ∉ x) (y : List Char) :
    splitOnce sep (x ++ sep :: y) = some (x, y) := by
  induction x with
  | nil => simp [splitOnce]
  | cons c x ih =>
    have hc : (c == sep) = false := by
      simp only [beq_eq_false_iff_ne, ne_eq]
      intro e; exact h (by rw [e]; exact List.mem_cons_self)
    have ih' := ih (fun hm => h (List.mem_cons_of_mem _ hm))
    simp [splitOnce, hc, ih']

theorem splitOnce_of_not_mem {sep : Char} {x : List Char} (h : sep ∉ x) : splitOnce sep x = none := by
  induction x with
  | nil => rfl
  | cons c x ih =>
    have hc : (c == sep) = false := by
      simp only [beq_eq_false_iff_ne, ne_eq]
      intro e; exact h (by rw [e]; exact List.mem_cons_self)
    have ih' := ih (fun hm => h (List.mem_cons_of_mem _ hm))
    simp [splitOnce, hc, ih']

theorem splitOnce_some {sep : Char} {l a b : List Char} (h : splitOnce sep l = some (a, b)) :
    l = a ++ sep :: b ∧ sep ∉ a := by
  induction l generalizing a with
  | nil => simp [splitOnce] at h
  | cons c cs ih =>
    unfold splitOnce at h
    split at h
    · rename_i hc
      have hc' : c = sep := by simpa using hc
      simp only [Option.some.injEq, Prod.mk.injEq] at h
      obtain ⟨rfl, rfl⟩ := h
      simp [hc']
    · rename_i hc
      have hc' : c ≠ sep := by simpa using hc
      split at h
      · cases h
      · rename_i a' b' h'
        simp only [Option.some.injEq, Prod.mk.injEq] at h
        obtain ⟨rfl, rfl⟩ := h
        obtain ⟨e, hn⟩ := ih h'
        refine ⟨by rw [e]; rfl, ?_⟩
        intro hm
        rcases List.mem_cons.1 hm with e' | hm
        · exact hc' e'.symm
        · exact hn hm

theorem not_mem_of_splitOnce_none {sep : Char} {l : List Char} (h : splitOnce sep l = none) : sep ∉ l := by
  induction l with
  | nil => simp
  | cons c cs ih =>
    unfold splitOnce at h
    split at h
    · cases h
    · rename_i hc
      have hc' : c ≠ sep := by simpa using hc
      split at h
      · rename_i h'
        intro hm
        rcases List.mem_cons.1 hm with e' | hm
        · exact hc' e'.symm
        · exact ih h' hm
      · cases h

/-! ### parse::<uN>() -/

theorem parseUnsigned_digits {bound : Nat} {ds : List Char} (hne : ds ≠ [])
    (hd : ∀ c ∈ ds, isDigit c = true) (hb : decVal ds < bound) :
    parseUnsigned bound ds = some (decVal ds) := by
  cases ds with
  | nil => exact absurd rfl hne
  | cons d r =>
    have hd0 : d ≠ '+' := by
      intro e
      have := hd d List.mem_cons_self
      rw [e, isDigit_plus] at this
      cases this
    have hall : (d :: r).all isDigit = true := List.all_eq_true.2 hd
    unfold parseUnsigned
    split
    · rename_i rest heq
      exact absurd (List.cons.inj heq).1 hd0
    · simp only [List.isEmpty_cons, Bool.false_eq_true, if_false, hall, if_true, hb]

theorem parseUnsigned_plus_digits {bound : Nat} {ds : List Char} (hne : ds ≠ [])
    (hd : ∀ c ∈ ds, isDigit c = true) (hb : decVal ds < bound) :
    parseUnsigned bound ('+' :: ds) = some (decVal ds) := by
  have hall : ds.all isDigit = true := List.all_eq_true.2 hd
  have hemp : ds.isEmpty = false := by cases ds with
    | nil => exact absurd rfl hne
    | cons _ _ => rfl
  simp only [parseUnsigned, hemp, Bool.false_eq_true, if_false, hall, if_true, hb]

/-- Everything `parse::<uN>()` accepts is an optional `+` followed by ≥ 1 digits below the bound. -/
theorem parseUnsigned_some {bound : Nat} {t : List Char} {n : Nat} (h : parseUnsigned bound t = some n) :
    ∃ ds, (t = ds ∨ t = '+' :: ds) ∧ ds ≠ [] ∧ (∀ c ∈ ds, isDigit c = true) ∧ decVal ds = n ∧ n < bound := by
  unfold parseUnsigned at h
  have key : ∀ ds : List Char,
      (if ds.isEmpty = true then none else if ds.all isDigit = true then
        (if decVal ds < bound then some (decVal ds) else none) else none) = some n →
      ds ≠ [] ∧ (∀ c ∈ ds, isDigit c = true) ∧ decVal ds = n ∧ n < bound := by
    intro ds hds
    split at hds
    · cases hds
    · rename_i he
      split at hds
      · rename_i ha
        split at hds
        · rename_i hb
          simp only [Option.some.injEq] at hds
          refine ⟨?_, List.all_eq_true.1 ha, hds, hds ▸ hb⟩
          intro e; rw [e] at he; exact he rfl
        · cases hds
      · cases hds
  split at h
  · rename_i rest
    exact ⟨rest, Or.inr rfl, key rest h⟩
  · exact ⟨t, Or.inl rfl, key t h⟩

/-! ### rendered numbers -/

/-- `t` is an optional `+` followed by ≥ 1 ASCII digits whose value is `n < bound`
    (leading zeros allowed). -/
def NumShape (bound : Nat) (t : List Char) (n : Nat) : Prop :=
  ∃ ds : List Char, (t = ds ∨ t = '+' :: ds) ∧ ds ≠ [] ∧ (∀ c ∈ ds, isDigit c = true) ∧
    decVal ds = n ∧ n < bound

theorem NumShape.parse {bound : Nat} {t : List Char} {n : Nat} (h : NumShape bound t n) :
    parseUnsigned bound t = some n := by
  obtain ⟨ds, ht, hne, hd, hv, hb⟩ := h
  subst hv
  rcases ht with rfl | rfl
  · exact parseUnsigned_digits hne hd hb
  · exact parseUnsigned_plus_digits hne hd hb

theorem numShape_iff_parse {bound : Nat} {t : List Char} {n : Nat} :
    NumShape bound t n ↔ parseUnsigned bound t = some n :=
  ⟨NumShape.parse, parseUnsigned_some⟩

theorem NumShape.ne_nil {bound : Nat} {t : List Char} {n : Nat} (h : NumShape bound t n) : t ≠ [] := by
  obtain ⟨ds, ht, hne, -⟩ := h
  rcases ht with rfl | rfl
  · exact hne
  · simp

theorem NumShape.chars {bound : Nat} {t : List Char} {n : Nat} (h : NumShape bound t n) :
    ∀ c ∈ t, isDigit c = true ∨ c = '+' := by
  obtain ⟨ds, ht, -, hd, -⟩ := h
  intro c hc
  rcases ht with rfl | rfl
  · exact Or.inl (hd c hc)
  · rcases List.mem_cons.1 hc with rfl | hc
    · exact Or.inr rfl
    · exact Or.inl (hd c hc)

theorem NumShape.no_ws {bound : Nat} {t : List Char} {n : Nat} (h : NumShape bound t n) :
    ∀ c ∈ t, isWs c = false := by
  intro c hc
  rcases h.chars c hc with hd | rfl
  · exact isWs_of_isDigit hd
  · exact isWs_plus

theorem NumShape.tight {bound : Nat} {t : List Char} {n : Nat} (h : NumShape bound t n) : Tight t :=
  Tight.of_no_ws h.no_ws

theorem NumShape.no_comma {bound : Nat} {t : List Char} {n : Nat} (h : NumShape bound t n) : ',' ∉ t := by
  intro hm
  rcases h.chars _ hm with hd | he
  · rw [isDigit_comma] at hd; cases hd
  · exact absurd he (by decide)

theorem NumShape.no_dash {bound : Nat} {t : List Char} {n : Nat} (h : NumShape bound t n) : '-' ∉ t := by
  intro hm
  rcases h.chars _ hm with hd | he
  · rw [isDigit_dash] at hd; cases hd
  · exact absurd he (by decide)

end IQE.Text

namespace IQE.Engine.CpuList
open IQE.Text

/-! ### comma-joined parts -/

/-- Join parts with a single `','` between neighbours (`parts.join(",")`). -/
def commaJoin : List (List Char) → List Char
  | [] => []
  | [p] => p
  | p :: q :: r => p ++ ',' :: commaJoin (q :: r)

/-- Apply `f` to the last element only. -/
def mapLast {α : Type} (f : α → α) : List α → List α
  | [] => []
  | [a] => [f a]
  | a :: b :: r => a :: mapLast f (b :: r)

theorem mapLast_ne_nil {α : Type} (f : α → α) {l : List α} (h : l ≠ []) : mapLast f l ≠ [] := by
  fun_cases mapLast f l <;> simp_all

theorem map_mapLast {α β : Type} (g : α → β) (f : α → α) (h : ∀ a, g (f a) = g a) (l : List α) :
    (mapLast f l).map g = l.map g := by
  fun_induction mapLast f l with
  | case1 => rfl
  | case2 a => simp [h]
  | case3 a b r ih => simp only [List.map_cons] at ih ⊢; rw [ih]

theorem mem_mapLast {α : Type} (f : α → α) (P : α → Prop) (hf : ∀ a, P a → P (f a)) (l : List α)
    (h : ∀ a ∈ l, P a) : ∀ a ∈ mapLast f l, P a := by
  fun_induction mapLast f l with
  | case1 => intro a ha; cases ha
  | case2 a => intro x hx; rw [List.mem_singleton.1 hx]; exact hf a (h a List.mem_cons_self)
  | case3 a b r ih =>
    intro x hx
    rcases List.mem_cons.1 hx with rfl | hx
    · exact h _ List.mem_cons_self
    · exact ih (fun y hy => h y (List.mem_cons_of_mem _ hy)) x hx

theorem splitOn_commaJoin {parts : List (List Char)} (hne : parts ≠ [])
    (hc : ∀ p ∈ parts, ',' ∉ p) : splitOn ',' (commaJoin parts) = parts := by
  fun_induction commaJoin parts with
  | case1 => exact absurd rfl hne
  | case2 p => exact splitOn_of_not_mem (hc p List.mem_cons_self)
  | case3 p q r ih =>
    rw [splitOn_append_sep (hc p List.mem_cons_self),
      ih (by simp) (fun x hx => hc x (List.mem_cons_of_mem _ hx))]

theorem trimStart_commaJoin (p : List Char) (ps : List (List Char)) :
    trimStart (commaJoin (p :: ps)) = commaJoin (trimStart p :: ps) := by
  cases ps with
  | nil => rfl
  | cons q r => simp only [commaJoin]; exact trimStart_append_stop isWs_comma p _

theorem trimEnd_commaJoin (parts : List (List Char)) :
    trimEnd (commaJoin parts) = commaJoin (mapLast trimEnd parts) := by
  fun_induction commaJoin parts with
  | case1 => rfl
  | case2 p => rfl
  | case3 p q r ih =>
    rw [trimEnd_append_stop isWs_comma, ih]
    cases r <;> rfl

/-- The per-part step of the loop body. -/
def partStep (part : List Char) : List Nat :=
  if part.isEmpty then [] else parsePart part

theorem collect_eq (s : List Char) : collect s = ((splitOn ',' (trim s)).map trim).flatMap partStep := by
  unfold collect
  rw [List.flatMap_map]
  rfl

/-- The outer `s.trim()` is invisible after the per-part `trim`. -/
theorem split_trim_commaJoin {parts : List (List Char)} (hne : parts ≠ [])
    (hc : ∀ p ∈ parts, ',' ∉ p) :
    (splitOn ',' (trim (commaJoin parts))).map trim = parts.map trim := by
  cases parts with
  | nil => exact absurd rfl hne
  | cons p ps =>
    unfold trim
    rw [trimStart_commaJoin, trimEnd_commaJoin]
    have hc1 : ∀ x ∈ trimStart p :: ps, ',' ∉ x := by
      intro x hx
      rcases List.mem_cons.1 hx with rfl | hx
      · exact fun hm => hc p List.mem_cons_self (mem_of_mem_trimStart hm)
      · exact hc x (List.mem_cons_of_mem _ hx)
    have hc2 := mem_mapLast trimEnd (fun x => ',' ∉ x) (fun a ha hm => ha (mem_of_mem_trimEnd hm)) _ hc1
    rw [splitOn_commaJoin (mapLast_ne_nil _ (by simp)) hc2]
    have h1 := map_mapLast (fun l => trimEnd (trimStart l)) trimEnd (fun a => trim_trimEnd a) (trimStart p :: ps)
    rw [h1]
    simp only [List.map_cons]
    rw [show trimEnd (trimStart (trimStart p)) = trimEnd (trimStart p) from trim_trimStart p]

/-- `collect` of a comma-joined string is the concatenation of the per-part contributions. -/
theorem collect_commaJoin {parts : List (List Char)} (hne : parts ≠ [])
    (hc : ∀ p ∈ parts, ',' ∉ p) :
    collect (commaJoin parts) = parts.flatMap fun p => partStep (trim p) := by
  rw [collect_eq, split_trim_commaJoin hne hc, List.flatMap_map]

/-! ### the contribution of one rendered part -/

theorem partStep_of_ne_nil {t : List Char} (h : t ≠ []) : partStep t = parsePart t := by
  cases t with
  | nil => exact absurd rfl h
  | cons _ _ => rfl

theorem partStep_single {w1 t w2 : List Char} {n : Nat} (h1 : AllWs w1) (h2 : AllWs w2)
    (ht : NumShape usizeBound t n) : partStep (trim (w1 ++ t ++ w2)) = [n] := by
  rw [trim_spec h1 h2 ht.tight, partStep_of_ne_nil ht.ne_nil]
  have hp : parseUsize t = some n := ht.parse
  simp only [parsePart, splitOnce_of_not_mem ht.no_dash, hp]

theorem partStep_range {w1 ta w2 w3 tb w4 : List Char} {a b : Nat}
    (h1 : AllWs w1) (h2 : AllWs w2) (h3 : AllWs w3) (h4 : AllWs w4)
    (hta : NumShape usizeBound ta a) (htb : NumShape usizeBound tb b) :
    partStep (trim (w1 ++ ta ++ w2 ++ '-' :: (w3 ++ tb ++ w4))) = rangeIncl a b := by
  have hm : Tight (ta ++ (w2 ++ '-' :: w3) ++ tb) :=
    Tight.sandwich hta.tight hta.ne_nil htb.tight htb.ne_nil _
  have e1 : w1 ++ ta ++ w2 ++ '-' :: (w3 ++ tb ++ w4) = w1 ++ (ta ++ (w2 ++ '-' :: w3) ++ tb) ++ w4 := by
    simp [List.append_assoc]
  have e2 : ta ++ (w2 ++ '-' :: w3) ++ tb = (ta ++ w2) ++ '-' :: (w3 ++ tb) := by
    simp [List.append_assoc]
  have hne : ta ++ (w2 ++ '-' :: w3) ++ tb ≠ [] := by
    intro e
    exact hta.ne_nil (List.append_eq_nil_iff.1 (List.append_eq_nil_iff.1 e).1).1
  rw [e1, trim_spec h1 h4 hm, partStep_of_ne_nil hne, e2]
  have hnd : '-' ∉ ta ++ w2 := by
    intro hmem
    rcases List.mem_append.1 hmem with h | h
    · exact hta.no_dash h
    · exact h2.not_mem isWs_dash h
  have hl : trim (ta ++ w2) = ta := by rw [trim_append_allWs h2, hta.tight.trim_eq]
  have hr : trim (w3 ++ tb) = tb := by rw [trim_allWs_append h3, htb.tight.trim_eq]
  have hpa : parseUsize ta = some a := hta.parse
  have hpb : parseUsize tb = some b := htb.parse
  simp only [parsePart, splitOnce_append_sep hnd, hl, hr, hpa, hpb]

theorem partStep_junk {p : List Char} (h : parsePart (trim p) = [] ∨ trim p = []) :
    partStep (trim p) = [] := by
  rcases h with h | h
  · unfold partStep
    split
    · rfl
    · exact h
  · rw [h]; rfl

theorem no_comma_single {w1 t w2 : List Char} {n : Nat} (h1 : AllWs w1) (h2 : AllWs w2)
    (ht : NumShape usizeBound t n) : ',' ∉ w1 ++ t ++ w2 := by
  intro hm
  rcases List.mem_append.1 hm with hm | hm
  · rcases List.mem_append.1 hm with hm | hm
    · exact h1.not_mem isWs_comma hm
    · exact ht.no_comma hm
  · exact h2.not_mem isWs_comma hm

theorem no_comma_range {w1 ta w2 w3 tb w4 : List Char} {a b : Nat}
    (h1 : AllWs w1) (h2 : AllWs w2) (h3 : AllWs w3) (h4 : AllWs w4)
    (hta : NumShape usizeBound ta a) (htb : NumShape usizeBound tb b) :
    ',' ∉ w1 ++ ta ++ w2 ++ '-' :: (w3 ++ tb ++ w4) := by
  intro hm
  rcases List.mem_append.1 hm with hm | hm
  · rcases List.mem_append.1 hm with hm | hm
    · exact no_comma_single h1 AllWs.nil hta (by simpa using hm)
    · exact h2.not_mem isWs_comma hm
  · rcases List.mem_cons.1 hm with hm | hm
    · exact absurd hm (by decide)
    · exact no_comma_single h3 h4 htb hm

/-- What a part can contribute at all: only the two shapes, and then exactly their values. -/
theorem parsePart_shapes (t : List Char) (h : parsePart t ≠ []) :
    (∃ n, parseUsize t = some n ∧ '-' ∉ t ∧ parsePart t = [n]) ∨
    (∃ a b lo hi, splitOnce '-' t = some (a, b) ∧ parseUsize (trim a) = some lo ∧
      parseUsize (trim b) = some hi ∧ parsePart t = rangeIncl lo hi) := by
  unfold parsePart at h ⊢
  split at h
  · rename_i a b hs
    split at h
    · rename_i lo hi hlo hhi
      refine Or.inr ⟨a, b, lo, hi, hs, hlo, hhi, ?_⟩
      rfl
    · exact absurd rfl h
  · rename_i hs
    split at h
    · rename_i n hn
      refine Or.inl ⟨n, hn, not_mem_of_splitOnce_none hs, ?_⟩
      rfl
    · exact absurd rfl h

theorem mem_rangeIncl (a b x : Nat) : x ∈ rangeIncl a b ↔ a ≤ x ∧ x ≤ b := by
  unfold rangeIncl
  rw [List.mem_range'_1]
  omega

theorem flatMap_congr' {α β : Type} {f g : α → List β} (l : List α) (h : ∀ a ∈ l, f a = g a) :
    l.flatMap f = l.flatMap g := by
  induction l with
  | nil => rfl
  | cons a l ih =>
    simp only [List.flatMap_cons]
    rw [h a List.mem_cons_self, ih (fun b hb => h b (List.mem_cons_of_mem _ hb))]

/-- Strictly increasing lists with the same members are equal. -/
theorem strict_sorted_ext : ∀ l1 l2 : List Nat, l1.Pairwise (· < ·) → l2.Pairwise (· < ·) →
    (∀ x, x ∈ l1 ↔ x ∈ l2) → l1 = l2 := by
  intro l1
  induction l1 with
  | nil =>
    intro l2 _ _ h
    cases l2 with
    | nil => rfl
    | cons b l2 => exact absurd ((h b).2 List.mem_cons_self) (by simp)
  | cons a l1 ih =>
    intro l2 h1 h2 h
    cases l2 with
    | nil => exact absurd ((h a).1 List.mem_cons_self) (by simp)
    | cons b l2 =>
      have ha1 : ∀ y ∈ l1, a < y := fun y hy => List.rel_of_pairwise_cons h1 hy
      have hb2 : ∀ y ∈ l2, b < y := fun y hy => List.rel_of_pairwise_cons h2 hy
      have hab : a = b := by
        have h3 := (h a).1 List.mem_cons_self
        have h4 := (h b).2 List.mem_cons_self
        rcases List.mem_cons.1 h3 with e | h3
        · exact e
        · rcases List.mem_cons.1 h4 with e | h4
          · exact e.symm
          · have := hb2 a h3
            have := ha1 b h4
            omega
      subst hab
      congr 1
      apply ih l2 (List.Pairwise.of_cons h1) (List.Pairwise.of_cons h2)
      intro x
      constructor
      · intro hx
        rcases List.mem_cons.1 ((h x).1 (List.mem_cons_of_mem _ hx)) with e | hx2
        · have := ha1 x hx; omega
        · exact hx2
      · intro hx
        rcases List.mem_cons.1 ((h x).2 (List.mem_cons_of_mem _ hx)) with e | hx1
        · have := hb2 x hx; omega
        · exact hx1

/-! ### every string is the comma-join of its comma-free pieces -/

theorem commaJoin_cons_cons (c : Char) (q : List Char) (r : List (List Char)) :
    commaJoin ((c :: q) :: r) = c :: commaJoin (q :: r) := by
  cases r <;> rfl

theorem commaJoin_splitOn (s : List Char) : commaJoin (splitOn ',' s) = s := by
  induction s with
  | nil => rfl
  | cons c cs ih =>
    unfold splitOn
    split
    · rename_i hc
      have hc' : c = ',' := by simpa using hc
      cases hsp : splitOn ',' cs with
      | nil => exact absurd hsp (splitOn_ne_nil _ _)
      | cons q r =>
        rw [hsp] at ih
        simp only [commaJoin, List.nil_append, ih, hc']
    · cases hsp : splitOn ',' cs with
      | nil => exact absurd hsp (splitOn_ne_nil _ _)
      | cons q r =>
        rw [hsp] at ih
        simp only [commaJoin_cons_cons, ih]

theorem not_mem_of_mem_splitOn {sep : Char} {s p : List Char} (h : p ∈ splitOn sep s) : sep ∉ p := by
  induction s generalizing p with
  | nil =>
    simp only [splitOn, List.mem_singleton] at h
    rw [h]; simp
  | cons c cs ih =>
    unfold splitOn at h
    split at h
    · rcases List.mem_cons.1 h with rfl | h
      · simp
      · exact ih h
    · rename_i hc
      have hc' : c ≠ sep := by simpa using hc
      cases hsp : splitOn sep cs with
      | nil => exact absurd hsp (splitOn_ne_nil _ _)
      | cons q r =>
        rw [hsp] at h ih
        rcases List.mem_cons.1 h with rfl | h
        · intro hm
          rcases List.mem_cons.1 hm with e | hm
          · exact hc' e.symm
          · exact ih List.mem_cons_self hm
        · exact ih (List.mem_cons_of_mem _ h)

theorem exists_labelling {α β : Type} (R : α → β → Prop) (l : List α) (h : ∀ a ∈ l, ∃ b, R a b) :
    ∃ ps : List (α × β), ps.map (·.1) = l ∧ ∀ p ∈ ps, R p.1 p.2 := by
  induction l with
  | nil => exact ⟨[], rfl, by intro p hp; cases hp⟩
  | cons a l ih =>
    obtain ⟨b, hb⟩ := h a List.mem_cons_self
    obtain ⟨ps, hps, hR⟩ := ih (fun x hx => h x (List.mem_cons_of_mem _ hx))
    refine ⟨(a, b) :: ps, by simp [hps], ?_⟩
    intro p hp
    rcases List.mem_cons.1 hp with rfl | hp
    · exact hb
    · exact hR p hp

end IQE.Engine.CpuList
