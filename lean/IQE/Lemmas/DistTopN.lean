/-
  IQE.Lemmas.DistTopN — the distributed top-N merge is exact up to ties (property C09, shape TopN).

  Every worker sorts ITS shard and keeps the first `k = OFFSET + LIMIT` rows; the initiator concatenates what the
  workers return, sorts again and applies OFFSET / LIMIT.  For ANY total preorder `le`:
    * `topn_merge_take`    the first `k` rows of the sorted candidate list agree position by position, up to ties, with
                           the first `k` rows of the sort of ALL rows;
    * `topn_merge_window`  hence so does the `OFFSET skip LIMIT fetch` window (`k = skip + fetch`);
    * `topn_merge_nolimit` without a LIMIT the workers send everything and only the order is re-established;
    * `topn_merge_subbag`  the candidates (and the window) are input rows, with multiplicity;
    * `topn_keyed` / `topn_keyed_spec`  the same for ORDER BY on key-carrying rows under the lawful comparator `leKT`
                           and, for well-typed keys, under the reference comparator `Spec.sortKeyed`.
  Core `List` lemmas + IQE.Lemmas.Sorting only.
-/
import IQE.Lemmas.Sorting
import IQE.Lemmas.OrderAux
import IQE.Lemmas.SortModel
namespace IQE.Dist
open List IQE IQE.Spec IQE.Lemmas.Sorting

section generic
variable {α : Type}

/-- what the workers return: the first `k` rows of each sorted shard, concatenated -/
def prefixes (le : α → α → Bool) (k : Nat) (shards : List (List α)) : List α :=
  (shards.map fun s => (mergeSort s le).take k).flatten

/-- what the workers keep back -/
def remainders (le : α → α → Bool) (k : Nat) (shards : List (List α)) : List α :=
  (shards.map fun s => (mergeSort s le).drop k).flatten

theorem prefixes_cons (le : α → α → Bool) (k : Nat) (s : List α) (ss : List (List α)) :
    prefixes le k (s :: ss) = (mergeSort s le).take k ++ prefixes le k ss := by simp [prefixes]
theorem remainders_cons (le : α → α → Bool) (k : Nat) (s : List α) (ss : List (List α)) :
    remainders le k (s :: ss) = (mergeSort s le).drop k ++ remainders le k ss := by simp [remainders]

theorem append4_perm (a b c d : List α) : ((a ++ b) ++ (c ++ d)).Perm ((a ++ c) ++ (b ++ d)) := by
  simp only [append_assoc]
  exact (perm_append_comm_assoc b c d).append_left a

/-- candidates ⊎ kept-back rows = all rows -/
theorem prefixes_remainders_perm (le : α → α → Bool) (k : Nat) : ∀ shards : List (List α),
    (prefixes le k shards ++ remainders le k shards).Perm shards.flatten
  | [] => by simp [prefixes, remainders]
  | s :: ss => by
    rw [prefixes_cons, remainders_cons, flatten_cons]
    refine (append4_perm _ _ _ _).trans ?_
    rw [take_append_drop]
    exact (mergeSort_perm s le).append (prefixes_remainders_perm le k ss)

/-- **the candidates are input rows, with multiplicity** -/
theorem topn_merge_subbag (le : α → α → Bool) (shards : List (List α)) (k : Nat) :
    ∃ rest, ((shards.map fun s => (mergeSort s le).take k).flatten ++ rest).Perm shards.flatten :=
  ⟨remainders le k shards, prefixes_remainders_perm le k shards⟩

/-- fewer than `k` candidates: every shard was shorter than `k`, nothing was kept back -/
theorem remainders_nil_of_short (le : α → α → Bool) (k : Nat) : ∀ shards : List (List α),
    (prefixes le k shards).length < k → remainders le k shards = []
  | [], _ => by simp [remainders]
  | s :: ss, h => by
    rw [prefixes_cons, length_append, length_take] at h
    rw [remainders_cons, remainders_nil_of_short le k ss (by omega), append_nil]
    apply drop_eq_nil_of_le
    omega

variable {le : α → α → Bool}

/-- every row among the first `k` of the sorted candidates is `≤` every row a worker kept back -/
theorem prefix_le_remainder (trans : ∀ a b c, le a b → le b c → le a c) (total : ∀ a b, le a b || le b a)
    (shards : List (List α)) (k : Nat) :
    ∀ a ∈ (mergeSort (prefixes le k shards) le).take k, ∀ b ∈ remainders le k shards, le a b = true := by
  intro a ha b hb
  -- the shard `b` comes from
  obtain ⟨d, hd, hbd⟩ := mem_flatten.1 hb
  obtain ⟨s, hs, rfl⟩ := mem_map.1 hd
  have hsorted := pairwise_mergeSort trans total s
  rw [← take_append_drop k (mergeSort s le), pairwise_append] at hsorted
  have hall : ∀ t ∈ (mergeSort s le).take k, le t b = true := fun t ht => hsorted.2.2 t ht b hbd
  -- that shard returned exactly `k` candidates
  have hlen : ((mergeSort s le).take k).length = k := by
    have : k < (mergeSort s le).length := by
      have := length_pos_of_mem hbd
      rw [length_drop] at this
      omega
    rw [length_take]; omega
  -- they are all among the candidates
  have hsub : (mergeSort s le).take k <+ prefixes le k shards :=
    sublist_flatten_of_mem (mem_map.2 ⟨s, hs, rfl⟩)
  have hcount : k ≤ (mergeSort (prefixes le k shards) le).countP (fun x => le x b) := by
    rw [(mergeSort_perm _ le).countP_eq]
    have h1 : ((mergeSort s le).take k).countP (fun x => le x b) = ((mergeSort s le).take k).length :=
      countP_eq_length.2 (by simpa using hall)
    have h2 := hsub.countP_le (p := fun x => le x b)
    omega
  -- if `a` were not `≤ b`, fewer than `k` candidates would be `≤ b`
  by_cases hab : le a b = true
  · exact hab
  · exfalso
    obtain ⟨j, hj, rfl⟩ := mem_take_iff_getElem.1 ha
    have hjlen : j < (mergeSort (prefixes le k shards) le).length := by omega
    have := countP_le_of_not_le trans total (pairwise_mergeSort trans total (prefixes le k shards)) j hjlen b (by simpa using hab)
    omega

/-- **top-k of the candidates = top-k of everything, up to ties** -/
theorem topn_merge_take (trans : ∀ a b c, le a b → le b c → le a c) (total : ∀ a b, le a b || le b a)
    (shards : List (List α)) (k : Nat) :
    PointwiseTied le
      ((mergeSort ((shards.map fun s => (mergeSort s le).take k).flatten) le).take k)
      ((mergeSort shards.flatten le).take k) := by
  show PointwiseTied le ((mergeSort (prefixes le k shards) le).take k) _
  let M := mergeSort (prefixes le k shards) le
  have hM : M.Pairwise (fun a b => le a b) := pairwise_mergeSort trans total _
  have hsel : ∀ a ∈ M.take k, ∀ b ∈ M.drop k ++ remainders le k shards, le a b = true := by
    intro a ha b hb
    rcases mem_append.1 hb with hb | hb
    · have := hM
      rw [← take_append_drop k M, pairwise_append] at this
      exact this.2.2 a ha b hb
    · exact prefix_le_remainder trans total shards k a ha b hb
  have hp : (M.take k ++ (M.drop k ++ remainders le k shards)).Perm shards.flatten := by
    rw [← append_assoc, take_append_drop]
    exact ((mergeSort_perm _ le).append_right _).trans (prefixes_remainders_perm le k shards)
  have h := sorted_selection_pointwise trans total shards.flatten (M.take k) (M.drop k ++ remainders le k shards) hp hsel
  rw [mergeSort_of_pairwise (hM.take)] at h
  -- `(M.take k).length = min k M.length`; bring the right-hand side to `.take k`
  have hlenM : M.length = (prefixes le k shards).length := (mergeSort_perm _ le).length_eq
  have hX : (mergeSort shards.flatten le).length = (prefixes le k shards).length + (remainders le k shards).length := by
    rw [(mergeSort_perm _ le).length_eq, ← (prefixes_remainders_perm le k shards).length_eq, length_append]
  have : (mergeSort shards.flatten le).take (M.take k).length = (mergeSort shards.flatten le).take k := by
    rw [take_eq_take_iff, length_take, hlenM, hX]
    by_cases hk : k ≤ (prefixes le k shards).length
    · omega
    · have := remainders_nil_of_short le k shards (by omega)
      rw [this, length_nil]
      omega
  rwa [this] at h

/-- **the OFFSET / LIMIT window of the candidates = the window of everything, up to ties** (`k = skip + fetch`) -/
theorem topn_merge_window (trans : ∀ a b c, le a b → le b c → le a c) (total : ∀ a b, le a b || le b a)
    (shards : List (List α)) (skip fetch : Nat) :
    PointwiseTied le
      (((mergeSort ((shards.map fun s => (mergeSort s le).take (skip + fetch)).flatten) le).drop skip).take fetch)
      (((mergeSort shards.flatten le).drop skip).take fetch) := by
  have h := (topn_merge_take trans total shards (skip + fetch)).drop skip
  rw [drop_take, drop_take] at h
  simpa [Nat.add_sub_cancel_left] using h

/-- without a LIMIT the workers send their whole (sorted) shard: only the order is re-established -/
theorem topn_merge_nolimit (trans : ∀ a b c, le a b → le b c → le a c) (total : ∀ a b, le a b || le b a)
    (shards : List (List α)) (skip : Nat) :
    PointwiseTied le
      ((mergeSort ((shards.map fun s => mergeSort s le).flatten) le).drop skip)
      ((mergeSort shards.flatten le).drop skip) := by
  have hp : ((shards.map fun s => mergeSort s le).flatten).Perm shards.flatten := by
    induction shards with
    | nil => simp
    | cons s ss ih => simpa using (mergeSort_perm s le).append ih
  exact (sorted_perm_pointwise trans total
    (((mergeSort_perm _ le).trans hp).trans (mergeSort_perm _ le).symm)
    (pairwise_mergeSort trans total _) (pairwise_mergeSort trans total _)).drop skip

/-- the final window consists of input rows, with multiplicity -/
theorem topn_window_subbag (le : α → α → Bool) (shards : List (List α)) (k skip fetch : Nat) :
    ∃ rest, ((((mergeSort ((shards.map fun s => (mergeSort s le).take k).flatten) le).drop skip).take fetch) ++ rest).Perm
      shards.flatten := by
  let M := mergeSort (prefixes le k shards) le
  -- M = take skip ++ (window ++ tail)
  refine ⟨(M.drop skip).drop fetch ++ M.take skip ++ remainders le k shards, ?_⟩
  show (((M.drop skip).take fetch) ++ ((M.drop skip).drop fetch ++ M.take skip ++ remainders le k shards)).Perm _
  have h1 : (((M.drop skip).take fetch) ++ ((M.drop skip).drop fetch ++ M.take skip)).Perm M := by
    rw [← append_assoc, take_append_drop]
    exact perm_append_comm.trans (by rw [take_append_drop])
  have : (((M.drop skip).take fetch) ++ ((M.drop skip).drop fetch ++ M.take skip ++ remainders le k shards)) =
      (((M.drop skip).take fetch) ++ ((M.drop skip).drop fetch ++ M.take skip)) ++ remainders le k shards := by
    simp only [append_assoc]
  rw [this]
  exact ((h1.trans (mergeSort_perm _ le)).append_right _).trans (prefixes_remainders_perm le k shards)

end generic

/-! ### ORDER BY on key-carrying rows -/

open IQE.Engine.SortLimit IQE.Lemmas.SortModel IQE.Lemmas.OrderAux IQE.Lemmas.KeyOrder

/-- **C09 TopN on keyed rows** under the lawful comparator: the merge-stage window is the single-node window up to ties
    and consists of input rows.  `keep = LIMIT + OFFSET` rows per worker when a LIMIT exists, everything otherwise. -/
theorem topn_keyed (flags : List (Bool × Bool)) (shards : List (List Keyed)) (skip : Nat) (fetch : Option Nat) :
    let keep : Option Nat := fetch.map (· + skip)
    let S := (shards.map fun s => takeOpt keep (s.mergeSort (leKT flags))).flatten
    PointwiseTied (leKT flags) (takeOpt fetch ((S.mergeSort (leKT flags)).drop skip))
                               (takeOpt fetch ((shards.flatten.mergeSort (leKT flags)).drop skip))
    ∧ ∃ rest, (takeOpt fetch ((S.mergeSort (leKT flags)).drop skip) ++ rest).Perm shards.flatten := by
  cases fetch with
  | none =>
    simp only [Option.map_none, takeOpt]
    refine ⟨topn_merge_nolimit (leKT_trans flags) (leKT_total flags) shards skip, ?_⟩
    let S := (shards.map fun s => s.mergeSort (leKT flags)).flatten
    have hp : S.Perm shards.flatten := by
      show ((shards.map fun s => s.mergeSort (leKT flags)).flatten).Perm shards.flatten
      induction shards with
      | nil => simp
      | cons s ss ih => simpa using (mergeSort_perm s (leKT flags)).append ih
    refine ⟨(S.mergeSort (leKT flags)).take skip, ?_⟩
    exact (perm_append_comm.trans (by rw [take_append_drop])).trans ((mergeSort_perm _ _).trans hp)
  | some n =>
    simp only [Option.map_some, takeOpt]
    rw [Nat.add_comm n skip]
    exact ⟨topn_merge_window (leKT_trans flags) (leKT_total flags) shards skip n,
           topn_window_subbag (leKT flags) shards (skip + n) skip n⟩

theorem takeOpt_subset {α : Type} (f : Option Nat) (l : List α) : ∀ x ∈ takeOpt f l, x ∈ l := by
  intro x hx
  cases f with
  | none => exact hx
  | some n => exact mem_of_mem_take hx

/-- **C09 TopN under the reference comparator** (`Spec.sortKeyed`, i.e. `cmpKeys fo flags … != .gt`) for well-typed sort
    keys: what the merge stage returns is the single-node `OFFSET skip LIMIT fetch` window up to ties, made of input rows. -/
theorem topn_keyed_spec (fo : FloatOps) (flags : List (Bool × Bool)) (tys : List Ty) (hlen : flags.length ≤ tys.length)
    (shards : List (List Keyed)) (ht : KeysTyped tys shards.flatten) (skip : Nat) (fetch : Option Nat) :
    let keep : Option Nat := fetch.map (· + skip)
    let S := (shards.map fun s => takeOpt keep (sortKeyed fo flags s)).flatten
    PointwiseTied (leKT flags) (takeOpt fetch ((sortKeyed fo flags S).drop skip))
                               (takeOpt fetch ((sortKeyed fo flags shards.flatten).drop skip))
    ∧ ∃ rest, (takeOpt fetch ((sortKeyed fo flags S).drop skip) ++ rest).Perm shards.flatten := by
  intro keep S
  have hshard : ∀ s ∈ shards, KeysTyped tys s := fun s hs x hx => ht x (mem_flatten.2 ⟨s, hs, hx⟩)
  have hmap : (shards.map fun s => takeOpt keep (sortKeyed fo flags s)) =
      (shards.map fun s => takeOpt keep (s.mergeSort (leKT flags))) :=
    map_congr_left fun s hs => by rw [sortKeyed_eq_T fo flags tys s hlen (hshard s hs)]
  have hS : S = (shards.map fun s => takeOpt keep (s.mergeSort (leKT flags))).flatten := by
    show (shards.map fun s => takeOpt keep (sortKeyed fo flags s)).flatten = _
    rw [hmap]
  have hST : KeysTyped tys S := by
    intro x hx
    rw [hS] at hx
    obtain ⟨d, hd, hxd⟩ := mem_flatten.1 hx
    obtain ⟨s, hs, rfl⟩ := mem_map.1 hd
    exact hshard s hs x (mem_mergeSort.1 (takeOpt_subset keep _ x hxd))
  rw [sortKeyed_eq_T fo flags tys S hlen hST, sortKeyed_eq_T fo flags tys _ hlen ht, hS]
  exact topn_keyed flags shards skip fetch

end IQE.Dist
