/-
  IQE.Lemmas.Gather — lemmas behind IQE.Props.C45 over the model IQE.Engine.Gather:
  the requirement map only grows along the walk (`ReqLe`), every visited scan is covered at the moment it is visited
  and stays covered (`collectP_inv` and companions, by mutual structural recursion over `Plan` / `PExpr`), and the
  engine's first-match name resolution is stable under dropping fields (`findIdx_filter_*`, `resolve_filter`).
  Core only.
-/
import IQE.Engine.Gather
namespace IQE.Lemmas.Gather
open IQE.Engine.PlanWf IQE.Engine.Gather

theorem bind_ok_inv {ε α β : Type} {x : Except ε α} {f : α → Except ε β} {c : β} (h : (x >>= f) = .ok c) :
    ∃ a, x = .ok a ∧ f a = .ok c := by
  cases x with
  | error e => cases h
  | ok a => exact ⟨a, rfl, h⟩

/-! ### the order on column requirements -/

/-- `b` requires at least what `a` requires -/
def colsLe (a b : Cols) : Prop :=
  match b with
  | none => True
  | some lb => match a with
    | none => False
    | some la => ∀ x ∈ la, x ∈ lb

theorem colsLe_refl (a : Cols) : colsLe a a := by
  cases a with
  | none => trivial
  | some l => exact fun _ h => h

theorem colsLe_trans {a b c : Cols} (h1 : colsLe a b) (h2 : colsLe b c) : colsLe a c := by
  cases c with
  | none => trivial
  | some lc =>
    cases b with
    | none => exact absurd h2 id
    | some lb =>
      cases a with
      | none => exact absurd h1 id
      | some la => exact fun x hx => h2 x (h1 x hx)

theorem colsLe_none_left {c : Cols} (h : colsLe none c) : c = none := by
  cases c with
  | none => rfl
  | some l => exact absurd h id

theorem colsLe_covers {a b : Cols} (h : colsLe a b) (x : String) (hx : covers a x = true) : covers b x = true := by
  cases b with
  | none => rfl
  | some lb =>
    cases a with
    | none => exact absurd h id
    | some la =>
      simp only [covers, List.contains_iff_mem] at hx ⊢
      exact h x hx

theorem mem_merge (a b : List String) (x : String) :
    x ∈ a ++ b.filter (fun y => !a.contains y) ↔ x ∈ a ∨ x ∈ b := by
  simp only [List.mem_append, List.mem_filter, Bool.not_eq_true', List.contains_eq_mem, decide_eq_false_iff_not]
  constructor
  · rintro (h | ⟨h, _⟩)
    · exact .inl h
    · exact .inr h
  · rintro (h | h)
    · exact .inl h
    · by_cases ha : x ∈ a
      · exact .inl ha
      · exact .inr ⟨h, ha⟩

theorem colsLe_merge_left (a b : Cols) : colsLe a (mergeCols a b) := by
  cases a <;> cases b <;> simp only [mergeCols, colsLe] <;> try trivial
  exact fun x hx => (mem_merge _ _ x).mpr (.inl hx)

theorem colsLe_merge_right (a b : Cols) : colsLe b (mergeCols a b) := by
  cases a <;> cases b <;> simp only [mergeCols, colsLe] <;> try trivial
  exact fun x hx => (mem_merge _ _ x).mpr (.inr hx)

theorem covers_merge (a b : Cols) (x : String) : covers (mergeCols a b) x = (covers a x || covers b x) := by
  cases a with
  | none => cases b <;> rfl
  | some la =>
    cases b with
    | none => simp [mergeCols, covers]
    | some lb =>
      simp only [mergeCols, covers]
      rw [Bool.eq_iff_iff]
      simp only [List.contains_iff_mem, Bool.or_eq_true]
      exact mem_merge la lb x

/-! ### the requirement map -/

theorem lookup_insertReq_self (t : String) (c : Cols) (r : Req) :
    lookup t (insertReq t c r) = some (match lookup t r with | some old => mergeCols old c | none => c) := by
  induction r with
  | nil => simp [insertReq, lookup]
  | cons e rest ih =>
    obtain ⟨t', c'⟩ := e
    by_cases h : (t' == t) = true
    · simp [insertReq, lookup, h]
    · simp only [insertReq, lookup, h, if_false, Bool.false_eq_true]
      exact ih

theorem lookup_insertReq_ne {t t' : String} (hne : t' ≠ t) (c : Cols) (r : Req) :
    lookup t' (insertReq t c r) = lookup t' r := by
  induction r with
  | nil =>
    have : ¬ (t == t') = true := fun e => hne (beq_iff_eq.mp e).symm
    simp [insertReq, lookup, this]
  | cons e rest ih =>
    obtain ⟨t'', c''⟩ := e
    by_cases h : (t'' == t) = true
    · have e1 : t'' = t := beq_iff_eq.mp h
      have : ¬ (t'' == t') = true := fun e => hne ((beq_iff_eq.mp e).symm.trans e1)
      simp [insertReq, lookup, h, this]
    · simp only [insertReq, h, if_false, Bool.false_eq_true, lookup]
      by_cases h2 : (t'' == t') = true
      · simp [h2]
      · simp only [h2, if_false, Bool.false_eq_true]; exact ih

/-- every entry of `r₁` is still there in `r₂`, at least as wide -/
def ReqLe (r₁ r₂ : Req) : Prop := ∀ t c₀, lookup t r₁ = some c₀ → ∃ c, lookup t r₂ = some c ∧ colsLe c₀ c

theorem ReqLe.refl (r : Req) : ReqLe r r := fun _ c₀ h => ⟨c₀, h, colsLe_refl _⟩

theorem ReqLe.trans {a b c : Req} (h1 : ReqLe a b) (h2 : ReqLe b c) : ReqLe a c := by
  intro t c₀ h
  obtain ⟨c₁, hc₁, l1⟩ := h1 t c₀ h
  obtain ⟨c₂, hc₂, l2⟩ := h2 t c₁ hc₁
  exact ⟨c₂, hc₂, colsLe_trans l1 l2⟩

theorem reqLe_insert (t : String) (c : Cols) (r : Req) : ReqLe r (insertReq t c r) := by
  intro t' c₀ h
  by_cases e : t' = t
  · subst e
    rw [lookup_insertReq_self, h]
    exact ⟨_, rfl, colsLe_merge_left _ _⟩
  · rw [lookup_insertReq_ne e]
    exact ⟨c₀, h, colsLe_refl _⟩

/-! ### coverage of a scan -/

/-- `c` holds every column of the read set `rd` (`none` = all columns) -/
def coversAll (c rd : Cols) : Prop :=
  match rd with
  | none => c = none
  | some l => ∀ x ∈ l, covers c x = true

theorem coversAll_mono {c c' rd : Cols} (h : colsLe c c') (hc : coversAll c rd) : coversAll c' rd := by
  cases rd with
  | none =>
    have hc' : c = none := hc
    subst hc'
    exact colsLe_none_left h
  | some l => exact fun x hx => colsLe_covers h x (hc x hx)

theorem coversAll_scanCols (full : List String) (proj : Option (List Nat)) (filter : List PExpr) :
    coversAll (scanCols full proj filter) (readCols full proj filter) := by
  unfold scanCols
  cases h : readCols full proj filter with
  | none => rfl
  | some set =>
    intro x hx
    have hne : set.isEmpty = false := by
      cases set with
      | nil => cases hx
      | cons _ _ => rfl
    simp only [hne, Bool.false_eq_true, if_false, covers, List.contains_iff_mem]
    exact hx

theorem scanCols_ne_nil (full : List String) (hfull : full ≠ []) (proj : Option (List Nat)) (filter : List PExpr) :
    scanCols full proj filter ≠ some [] := by
  unfold scanCols
  cases readCols full proj filter with
  | none => exact fun h => by cases h
  | some set =>
    cases set with
    | nil =>
      cases full with
      | nil => exact absurd rfl hfull
      | cons c cs => exact fun h => by simp at h
    | cons a as => exact fun h => by simp at h

/-- the scan `s = (table, projection, filter)` is covered by the requirement map `r` -/
def Covered (full : String → Option (List String)) (r : Req) (s : ScanInfo) : Prop :=
  ∀ cs, full s.1 = some cs → ∃ c, lookup s.1 r = some c ∧ coversAll c (readCols cs s.2.1 s.2.2)

theorem Covered.mono {full : String → Option (List String)} {r r' : Req} {s : ScanInfo} (hle : ReqLe r r')
    (h : Covered full r s) : Covered full r' s := by
  intro cs hcs
  obtain ⟨c, hc, hcov⟩ := h cs hcs
  obtain ⟨c', hc', hle'⟩ := hle _ _ hc
  exact ⟨c', hc', coversAll_mono hle' hcov⟩

/-! ### the invariant of the walk -/

/-- `f` only widens the map, and afterwards every scan of `S` is covered -/
def Inv (full : String → Option (List String)) (f : Req → Except String Req) (S : List ScanInfo) : Prop :=
  ∀ r₀ r, f r₀ = .ok r → ReqLe r₀ r ∧ ∀ s ∈ S, Covered full r s

theorem inv_pure (full : String → Option (List String)) : Inv full (fun r => .ok r) [] := by
  intro r₀ r h
  cases h
  exact ⟨ReqLe.refl _, fun s hs => by cases hs⟩

theorem inv_seq {full : String → Option (List String)} {f g : Req → Except String Req} {S T : List ScanInfo}
    (hf : Inv full f S) (hg : Inv full g T) : Inv full (fun r => f r >>= g) (S ++ T) := by
  intro r₀ r h
  obtain ⟨r₁, h1, h2⟩ := bind_ok_inv h
  obtain ⟨l1, c1⟩ := hf r₀ r₁ h1
  obtain ⟨l2, c2⟩ := hg r₁ r h2
  refine ⟨l1.trans l2, fun s hs => ?_⟩
  rcases List.mem_append.mp hs with hs | hs
  · exact (c1 s hs).mono l2
  · exact c2 s hs

section walk
variable (dev : Dev) (full : String → Option (List String))

mutual
theorem collectP_inv : ∀ (p : Plan), Inv full (collectP dev full p) (scansP dev p)
  | .scan t sch proj filter => by
    intro r₀ r h
    simp only [scansP]
    cases hf : full t with
    | none => simp only [collectP, hf] at h; cases h
    | some cs =>
      simp only [collectP, hf] at h
      obtain ⟨l, c⟩ := collectEs_inv filter _ r h
      have hcov : Covered full (insertReq t (scanCols cs proj filter) r₀) (t, proj, filter) := by
        intro cs' hcs'
        have e : cs' = cs := by
          have : some cs' = some cs := hcs'.symm.trans hf
          exact Option.some.inj this
        subst e
        refine ⟨_, lookup_insertReq_self _ _ _, ?_⟩
        refine coversAll_mono ?_ (coversAll_scanCols cs' proj filter)
        cases lookup t r₀ with
        | none => exact colsLe_refl _
        | some old => exact colsLe_merge_right _ _
      refine ⟨(reqLe_insert _ _ _).trans l, fun s hs => ?_⟩
      rcases List.mem_cons.mp hs with rfl | hs
      · exact hcov.mono l
      · exact c s hs
  | .filter pred i => by
    intro r₀ r h
    simp only [collectP, scansP] at h ⊢
    exact inv_seq (collectP_inv i) (collectE_inv pred) r₀ r h
  | .project exprs _ i => by
    intro r₀ r h
    simp only [collectP, scansP] at h ⊢
    exact inv_seq (collectP_inv i) (collectEs_inv exprs) r₀ r h
  | .join _ onL onR filter _ l r' => by
    intro r₀ r h
    simp only [collectP, scansP] at h ⊢
    exact inv_seq (collectP_inv l) (inv_seq (collectP_inv r') (inv_seq (collectEs_inv onL)
      (inv_seq (collectEs_inv onR) (collectEs_inv filter)))) r₀ r h
  | .agg group aggs _ i => by
    intro r₀ r h
    simp only [collectP, scansP] at h ⊢
    exact inv_seq (collectP_inv i) (inv_seq (collectEs_inv group) (collectEs_inv aggs)) r₀ r h
  | .window _ wexprs _ i => by
    intro r₀ r h
    simp only [collectP, scansP] at h ⊢
    exact inv_seq (collectP_inv i) (collectEs_inv wexprs) r₀ r h
  | .sort keys _ i => by
    intro r₀ r h
    simp only [collectP, scansP] at h ⊢
    exact inv_seq (collectP_inv i) (collectEs_inv keys) r₀ r h
  | .limit _ _ i => by
    intro r₀ r h
    simp only [collectP, scansP] at h ⊢
    exact collectP_inv i r₀ r h
  | .distinct i => by
    intro r₀ r h
    simp only [collectP, scansP] at h ⊢
    exact collectP_inv i r₀ r h
  | .union _ _ inputs => by
    intro r₀ r h
    simp only [collectP, scansP] at h ⊢
    exact collectPs_inv inputs r₀ r h
  | .alias _ _ _ i => by
    intro r₀ r h
    simp only [collectP, scansP] at h ⊢
    exact collectP_inv i r₀ r h
  | .empty _ _ => by
    intro r₀ r h
    simp only [collectP, scansP] at h ⊢
    exact inv_pure full r₀ r h
  | .values rows _ _ => by
    intro r₀ r h
    simp only [collectP, scansP] at h ⊢
    exact collectEs_inv rows r₀ r h
  | .delimJoin _ delim onL onR _ l r' => by
    intro r₀ r h
    simp only [collectP, scansP] at h ⊢
    exact inv_seq (collectP_inv l) (inv_seq (collectP_inv r') (inv_seq (collectEs_inv delim)
      (inv_seq (collectEs_inv onL) (collectEs_inv onR)))) r₀ r h
  | .delimGet cols _ _ => by
    intro r₀ r h
    simp only [collectP, scansP] at h ⊢
    exact collectEs_inv cols r₀ r h
  | .vsearch _ filter sortKey _ _ _ i => by
    intro r₀ r h
    simp only [collectP, scansP] at h ⊢
    exact inv_seq (collectP_inv i) (inv_seq (collectEs_inv filter) (collectE_inv sortKey)) r₀ r h
theorem collectPs_inv : ∀ (ps : List Plan), Inv full (collectPs dev full ps) (scansPs dev ps)
  | [] => by
    intro r₀ r h
    simp only [collectPs, scansPs] at h ⊢
    exact inv_pure full r₀ r h
  | p :: ps => by
    intro r₀ r h
    simp only [collectPs, scansPs] at h ⊢
    exact inv_seq (collectP_inv p) (collectPs_inv ps) r₀ r h
theorem collectE_inv : ∀ (e : PExpr), Inv full (collectE dev full e) (scansE dev e)
  | .col _ _ => by
    intro r₀ r h
    simp only [collectE, scansE] at h ⊢
    exact inv_pure full r₀ r h
  | .lit _ _ => by
    intro r₀ r h
    simp only [collectE, scansE] at h ⊢
    exact inv_pure full r₀ r h
  | .op _ _ args => by
    intro r₀ r h
    simp only [collectE, scansE] at h ⊢
    exact collectEs_inv args r₀ r h
  | .alias e _ => by
    intro r₀ r h
    simp only [collectE, scansE] at h ⊢
    exact collectE_inv e r₀ r h
  | .sub _ _ args p => by
    intro r₀ r h
    simp only [collectE, scansE] at h ⊢
    have X : Inv full (fun req => if dev.skipSubqueryPlans = true then pure req else collectP dev full p req)
        (if dev.skipSubqueryPlans = true then [] else scansP dev p) := by
      by_cases hs : dev.skipSubqueryPlans = true
      · simp only [hs, if_true]; exact inv_pure full
      · simp only [hs, if_false, Bool.false_eq_true]; exact collectP_inv p
    exact inv_seq (collectEs_inv args) X r₀ r h
  | .star _ => by
    intro r₀ r h
    simp only [collectE, scansE] at h ⊢
    exact inv_pure full r₀ r h
theorem collectEs_inv : ∀ (es : List PExpr), Inv full (collectEs dev full es) (scansEs dev es)
  | [] => by
    intro r₀ r h
    simp only [collectEs, scansEs] at h ⊢
    exact inv_pure full r₀ r h
  | e :: es => by
    intro r₀ r h
    simp only [collectEs, scansEs] at h ⊢
    exact inv_seq (collectE_inv e) (collectEs_inv es) r₀ r h
end

end walk

/-! ### the walk in the words of `collect_scans`: children first, then the subquery plans of the node's expressions -/

section shape
variable (dev : Dev) (full : String → Option (List String))

theorem collectPs_append (a b : List Plan) (r : Req) :
    collectPs dev full (a ++ b) r = collectPs dev full a r >>= collectPs dev full b := by
  induction a generalizing r with
  | nil => simp only [List.nil_append, collectPs]; rfl
  | cons p ps ih =>
    simp only [List.cons_append, collectPs, bind_assoc]
    congr 1; funext r'; exact ih r'

theorem collectEs_append (a b : List PExpr) (r : Req) :
    collectEs dev full (a ++ b) r = collectEs dev full a r >>= collectEs dev full b := by
  induction a generalizing r with
  | nil => simp only [List.nil_append, collectEs]; rfl
  | cons p ps ih =>
    simp only [List.cons_append, collectEs, bind_assoc]
    congr 1; funext r'; exact ih r'

theorem collectEs_append_fun (a b : List PExpr) :
    collectEs dev full (a ++ b) = fun r => collectEs dev full a r >>= collectEs dev full b :=
  funext fun r => collectEs_append dev full a b r

theorem collectPs_single (p : Plan) (r : Req) : collectPs dev full [p] r = collectP dev full p r := by
  simp only [collectPs]
  cases collectP dev full p r <;> rfl

mutual
/-- with the switch off, the expressions of a node contribute exactly their subquery plans -/
theorem collectE_eq_subPlans (hs : dev.skipSubqueryPlans = false) : ∀ (e : PExpr) (r : Req),
    collectE dev full e r = collectPs dev full (subPlans e) r
  | .col _ _, r => by simp only [collectE, subPlans, collectPs]
  | .lit _ _, r => by simp only [collectE, subPlans, collectPs]
  | .op _ _ args, r => by simp only [collectE, subPlans]; exact collectEs_eq_subPlans hs args r
  | .alias e _, r => by simp only [collectE, subPlans]; exact collectE_eq_subPlans hs e r
  | .sub _ _ args p, r => by
    simp only [collectE, subPlans, hs, Bool.false_eq_true, if_false, collectPs_append, collectEs_eq_subPlans hs args r]
    congr 1; funext r'; exact (collectPs_single dev full p r').symm
  | .star _, r => by simp only [collectE, subPlans, collectPs]
theorem collectEs_eq_subPlans (hs : dev.skipSubqueryPlans = false) : ∀ (es : List PExpr) (r : Req),
    collectEs dev full es r = collectPs dev full (subPlansL es) r
  | [], r => by simp only [collectEs, subPlansL, collectPs]
  | e :: es, r => by
    simp only [collectEs, subPlansL, collectPs_append, collectE_eq_subPlans hs e r]
    congr 1; funext r'; exact collectEs_eq_subPlans hs es r'
end

mutual
/-- with the switch on (today's code), expressions contribute nothing -/
theorem collectE_skip (hs : dev.skipSubqueryPlans = true) : ∀ (e : PExpr) (r : Req), collectE dev full e r = .ok r
  | .col _ _, r => by simp only [collectE]
  | .lit _ _, r => by simp only [collectE]
  | .op _ _ args, r => by simp only [collectE]; exact collectEs_skip hs args r
  | .alias e _, r => by simp only [collectE]; exact collectE_skip hs e r
  | .sub _ _ args p, r => by simp only [collectE, collectEs_skip hs args r, hs, if_true]; rfl
  | .star _, r => by simp only [collectE]
theorem collectEs_skip (hs : dev.skipSubqueryPlans = true) : ∀ (es : List PExpr) (r : Req), collectEs dev full es r = .ok r
  | [], r => by simp only [collectEs]
  | e :: es, r => by simp only [collectEs, collectE_skip hs e r]; exact collectEs_skip hs es r
end

/-- **`collect` is `collect_scans`**: a node that is not a scan visits its `children`, then the subquery plans of
    its own expressions (`nodeExprs`) -/
theorem collectP_eq_children (p : Plan) (hp : ∀ t s pr f, p ≠ .scan t s pr f) (r : Req) :
    collectP dev full p r = collectPs dev full (children p) r >>= collectEs dev full (nodeExprs p) := by
  have ok_bind : ∀ (a : Req) (f : Req → Except String Req), ((Except.ok a : Except String Req) >>= f) = f a :=
    fun _ _ => rfl
  have bind_ok : ∀ (x : Except String Req), (x >>= fun a => (Except.ok a : Except String Req)) = x := by
    intro x; cases x <;> rfl
  cases p
  case scan t s pr f => exact absurd rfl (hp t s pr f)
  all_goals
    simp only [collectP, children, nodeExprs, collectPs, collectEs, collectEs_append_fun, bind_assoc, ok_bind, bind_ok]
  all_goals try rfl

end shape

/-! ### first-match resolution under dropping fields -/

section rebind
variable {α : Type}

theorem findIdx_filter_some (p keep : α → Bool) : ∀ (s : List α) (i : Nat) (f : α),
    findIdx p s = some i → s[i]? = some f → keep f = true →
    ∃ j, findIdx p (s.filter keep) = some j ∧ (s.filter keep)[j]? = some f
  | [], i, f, h, _, _ => by simp [findIdx] at h
  | x :: xs, i, f, h, hf, hk => by
    by_cases hp : p x = true
    · simp only [findIdx, hp, if_true, Option.some.injEq] at h
      subst h
      simp only [List.getElem?_cons_zero, Option.some.injEq] at hf
      subst hf
      exact ⟨0, by simp [hk, findIdx, hp], by simp [hk]⟩
    · simp only [findIdx, hp, if_false, Bool.false_eq_true, Option.map_eq_some_iff] at h
      obtain ⟨i', hi', rfl⟩ := h
      simp only [List.getElem?_cons_succ] at hf
      obtain ⟨j, hj, hjf⟩ := findIdx_filter_some p keep xs i' f hi' hf hk
      by_cases hkx : keep x = true
      · exact ⟨j + 1, by simp [hkx, findIdx, hp, hj], by simp [hkx, hjf]⟩
      · exact ⟨j, by simp [hkx, hj], by simp [hkx, hjf]⟩

theorem findIdx_filter_none (p keep : α → Bool) : ∀ (s : List α), findIdx p s = none → findIdx p (s.filter keep) = none
  | [], _ => rfl
  | x :: xs, h => by
    by_cases hp : p x = true
    · simp [findIdx, hp] at h
    · simp only [findIdx, hp, if_false, Bool.false_eq_true, Option.map_eq_none_iff] at h
      have ih := findIdx_filter_none p keep xs h
      by_cases hkx : keep x = true
      · simp [hkx, findIdx, hp, ih]
      · simp [hkx, ih]

end rebind

/-- `resolve` re-binds to the same field after dropping fields, as long as the field it bound to is kept -/
theorem resolve_filter (s : Schema) (keep : Field → Bool) (rel : Option String) (name : String) (i : Nat) (f : Field)
    (h : resolve s rel name = some i) (hf : s[i]? = some f) (hk : keep f = true) :
    ∃ j, resolve (s.filter keep) rel name = some j ∧ (s.filter keep)[j]? = some f := by
  unfold resolve at h ⊢
  -- stage 1: the qualified name
  have stage23 : ∀ (i : Nat),
      (match findIdx (fun f => f.qname == name) s with
        | some i => some i
        | none => findIdx (fun f => ("." ++ name).toList.isSuffixOf f.qname.toList || f.qname == name) s) = some i →
      s[i]? = some f →
      ∃ j, (match findIdx (fun f => f.qname == name) (s.filter keep) with
        | some i => some i
        | none => findIdx (fun f => ("." ++ name).toList.isSuffixOf f.qname.toList || f.qname == name) (s.filter keep))
          = some j ∧ (s.filter keep)[j]? = some f := by
    intro i h hf
    cases h2 : findIdx (fun f => f.qname == name) s with
    | some i2 =>
      rw [h2] at h
      cases h
      obtain ⟨j, hj, hjf⟩ := findIdx_filter_some _ keep s i f h2 hf hk
      exact ⟨j, by rw [hj], hjf⟩
    | none =>
      rw [h2] at h
      obtain ⟨j, hj, hjf⟩ := findIdx_filter_some _ keep s i f h hf hk
      exact ⟨j, by rw [findIdx_filter_none _ keep s h2]; exact hj, hjf⟩
  cases rel with
  | none => exact stage23 i h hf
  | some r =>
    simp only at h ⊢
    cases h1 : findIdx (fun f => f.qname == r ++ "." ++ name) s with
    | some i1 =>
      rw [h1] at h
      cases h
      obtain ⟨j, hj, hjf⟩ := findIdx_filter_some _ keep s i f h1 hf hk
      exact ⟨j, by rw [hj], hjf⟩
    | none =>
      rw [h1] at h
      rw [findIdx_filter_none _ keep s h1]
      exact stage23 i h hf

/-! ### the plan of finding C45-F1 -/

/-- the catalog of the witness: one table `t(id, a)` -/
def fullF1 (t : String) : Option (List String) := if t = "t" then some ["id", "a"] else none

/-- the plan of the scalar subquery: `SELECT … FROM t WHERE a = …`, a scan of `t` reading every column -/
def innerF1 : Plan := .scan "t" [] none []

/-- `SELECT id FROM t WHERE id < (subquery over t)`: the optimized scan of the outer `t` projects column 0 only -/
def planF1 : Plan :=
  .filter (.op "bin" "<" [.col none "id", .sub "scalar" false [] innerF1]) (.scan "t" [] (some [0]) [])

end IQE.Lemmas.Gather
