/-
  IQE.Lemmas.WindowFrames — ROWS frames: the index range computed by the TRANSLATED `rows_start` / `rows_end` /
  `frame_clip` (IQE.Gen.Window) is the declarative "a PRECEDING … b FOLLOWING" frame of IQE.Spec.Window, for every
  combination of bound kinds, clamped to the partition, possibly empty.
-/
import IQE.Engine.Window
import IQE.Spec.Window
namespace IQE.Lemmas.WindowFrames
open IQE IQE.Spec IQE.Engine.Window

/-- declarative ROWS conditions (positions counted inside the partition) -/
def startP (b : FrameBound) (p q : Nat) : Prop :=
  match b with
  | .unboundedPreceding => True
  | .preceding k => p ≤ q + k
  | .currentRow => p ≤ q
  | .following k => p + k ≤ q
  | .unboundedFollowing => False

def endP (b : FrameBound) (p q : Nat) : Prop :=
  match b with
  | .unboundedPreceding => False
  | .preceding k => q + k ≤ p
  | .currentRow => q ≤ p
  | .following k => q ≤ p + k
  | .unboundedFollowing => True

instance (b : FrameBound) (p q : Nat) : Decidable (startP b p q) := by unfold startP; cases b <;> exact inferInstance
instance (b : FrameBound) (p q : Nat) : Decidable (endP b p q) := by unfold endP; cases b <;> exact inferInstance

theorem clip_mem (s e ps pe q : Int) (hq1 : ps ≤ q) (hq2 : q < pe) :
    ((Gen.Window.frame_clip s e ps pe).1 ≤ q ∧ q < (Gen.Window.frame_clip s e ps pe).2) ↔ (s ≤ q ∧ q < e) := by
  simp only [Gen.Window.frame_clip, Rs.max, Rs.clamp, ge_iff_le, gt_iff_lt]
  (repeat' split) <;> omega

/-- the clipped range is well formed: inside the partition, possibly empty -/
theorem clip_wf (s e ps pe : Int) (h : ps ≤ pe) :
    ps ≤ (Gen.Window.frame_clip s e ps pe).1 ∧ (Gen.Window.frame_clip s e ps pe).1 ≤ (Gen.Window.frame_clip s e ps pe).2 ∧
    ((Gen.Window.frame_clip s e ps pe).1 < (Gen.Window.frame_clip s e ps pe).2 → (Gen.Window.frame_clip s e ps pe).2 ≤ pe) := by
  simp only [Gen.Window.frame_clip, Rs.max, Rs.clamp, ge_iff_le, gt_iff_lt]
  (repeat' split) <;> omega

theorem rows_start_iff (bs : FrameBound) (ps pe i q : Nat) (hi1 : ps ≤ i) (hs : bs ≠ .unboundedFollowing)
    (hq1 : ps ≤ q) (hq2 : q < pe) (hU : (pe : Int) ≤ Rs.USIZE_MAX) :
    Gen.Window.rows_start (toGenBound bs) i ps pe ≤ (q : Int) ↔ startP bs (i - ps) (q - ps) := by
  cases bs <;> simp only [toGenBound, Gen.Window.rows_start, startP, Rs.max, Rs.min, Rs.satSubU, Rs.satAddU, ge_iff_le, ne_eq, not_true_eq_false,
    reduceCtorEq, not_false_eq_true] at * <;> (repeat' split) <;> first | omega | (simp; omega)

theorem rows_end_iff (be : FrameBound) (ps pe i q : Nat) (hi1 : ps ≤ i) (he : be ≠ .unboundedPreceding)
    (hq1 : ps ≤ q) (hq2 : q < pe) (hU : (pe : Int) ≤ Rs.USIZE_MAX) :
    (q : Int) < Gen.Window.rows_end (toGenBound be) i ps pe ↔ endP be (i - ps) (q - ps) := by
  cases be <;> simp only [toGenBound, Gen.Window.rows_end, endP, Rs.max, Rs.min, Rs.satSubU, Rs.satAddU, ge_iff_le, ne_eq, not_true_eq_false,
    reduceCtorEq, not_false_eq_true] at * <;> (repeat' split) <;> first | omega | (simp; omega)

/-- membership in the translated ROWS range = the declarative frame conditions -/
theorem frame_rows_mem (bs be : FrameBound) (ps pe i : Nat) (hi1 : ps ≤ i)
    (hs : bs ≠ .unboundedFollowing) (he : be ≠ .unboundedPreceding) (q : Nat) (hq1 : ps ≤ q) (hq2 : q < pe)
    (hU : (pe : Int) ≤ Rs.USIZE_MAX) :
    let r := Gen.Window.frame_clip (Gen.Window.rows_start (toGenBound bs) i ps pe) (Gen.Window.rows_end (toGenBound be) i ps pe) ps pe
    (r.1 ≤ (q : Int) ∧ (q : Int) < r.2) ↔ (startP bs (i - ps) (q - ps) ∧ endP be (i - ps) (q - ps)) := by
  intro r
  rw [clip_mem _ _ _ _ _ (by omega) (by omega), rows_start_iff bs ps pe i q hi1 hs hq1 hq2 hU, rows_end_iff be ps pe i q hi1 he hq1 hq2 hU]

/-- the reference semantics' ROWS bound tests are these conditions -/
theorem startKeeps_rows (fo : FloatOps) (flags : List (Bool × Bool)) (order : List SortKey) (b : FrameBound) (p q : Nat) (cur x : Win.Info)
    (hb : b ≠ .unboundedFollowing) : Win.startKeeps fo flags order .rows b p cur q x = .ok (decide (startP b p q)) := by
  cases b <;> simp_all [Win.startKeeps, startP] <;> rfl

theorem endKeeps_rows (fo : FloatOps) (flags : List (Bool × Bool)) (order : List SortKey) (b : FrameBound) (p q : Nat) (cur x : Win.Info)
    (hb : b ≠ .unboundedPreceding) : Win.endKeeps fo flags order .rows b p cur q x = .ok (decide (endP b p q)) := by
  cases b <;> simp_all [Win.endKeeps, endP] <;> rfl

theorem filterMapM_ok {α β : Type} (f : α → Except Err (Option β)) (g : α → Option β) (l : List α) (h : ∀ x ∈ l, f x = .ok (g x)) :
    l.filterMapM f = .ok (l.filterMap g) := by
  induction l with
  | nil => rfl
  | cons a l ih =>
    rw [List.filterMapM_cons, h a (by simp), ih (fun x hx => h x (by simp [hx]))]
    cases hg : g a <;> simp [List.filterMap_cons, hg, bind, Except.bind, pure, Except.pure]

/-- rows of `l` whose index (counted from `off`) lies in `[a, b)` -/
theorem filter_zipIdx_interval {α : Type} (l : List α) (off a b : Nat) :
    ((l.zipIdx off).filter (fun x => decide (a ≤ x.2) && decide (x.2 < b))).map (·.1) = (l.drop (a - off)).take (b - max a off) := by
  induction l generalizing off with
  | nil => simp
  | cons x xs ih =>
    simp only [List.zipIdx_cons, List.filter_cons]
    by_cases h1 : a ≤ off
    · by_cases h2 : off < b
      · have e1 : a - off = 0 := by omega
        have : (decide (a ≤ off) && decide (off < b)) = true := by simp [h1, h2]
        simp only [this, if_true, List.map_cons, e1, List.drop_zero]
        rw [ih (off + 1)]
        have e2 : a - (off + 1) = 0 := by omega
        have e3 : b - max a off = (b - max a (off + 1)) + 1 := by omega
        rw [e2, e3, List.drop_zero, List.take_succ_cons]
      · have : (decide (a ≤ off) && decide (off < b)) = false := by simp [h2]
        simp only [this, Bool.false_eq_true, if_false]
        rw [ih (off + 1)]
        have e3 : b - max a off = 0 := by omega
        have e4 : b - max a (off + 1) = 0 := by omega
        simp [e3, e4]
    · have : (decide (a ≤ off) && decide (off < b)) = false := by simp [h1]
      simp only [this, Bool.false_eq_true, if_false]
      rw [ih (off + 1)]
      have e1 : a - off = (a - (off + 1)) + 1 := by omega
      have e2 : max a off = max a (off + 1) := by omega
      rw [e1, e2, List.drop_succ_cons]

theorem filterMap_ite_eq {α β : Type} (l : List α) (c d : α → Bool) (f : α → β) (h : ∀ x ∈ l, c x = d x) :
    l.filterMap (fun x => if c x then some (f x) else none) = (l.filter d).map f := by
  induction l with
  | nil => rfl
  | cons a l ih =>
    have ha := h a (by simp)
    have ih' := ih (fun x hx => h x (by simp [hx]))
    by_cases hc : c a = true
    · have hd : d a = true := by rw [← ha]; exact hc
      simp [List.filterMap_cons, List.filter_cons, hc, hd, ih']
    · have hc' : c a = false := by simpa using hc
      have hd : d a = false := by rw [← ha]; exact hc'
      simp [List.filterMap_cons, List.filter_cons, hc', hd, ih']

/-- partition-relative form of `frame_rows_mem` (`ps = 0`) -/
theorem frame_rows_mem0 (bs be : FrameBound) (n p : Nat)
    (hs : bs ≠ .unboundedFollowing) (he : be ≠ .unboundedPreceding) (q : Nat) (hq : q < n) (hU : (n : Int) ≤ Rs.USIZE_MAX) :
    ((Gen.Window.frame_clip (Gen.Window.rows_start (toGenBound bs) p 0 n) (Gen.Window.rows_end (toGenBound be) p 0 n) 0 n).1 ≤ (q : Int) ∧
     (q : Int) < (Gen.Window.frame_clip (Gen.Window.rows_start (toGenBound bs) p 0 n) (Gen.Window.rows_end (toGenBound be) p 0 n) 0 n).2) ↔
    (startP bs p q ∧ endP be p q) := by
  have := frame_rows_mem bs be 0 n p (Nat.zero_le _) hs he q (Nat.zero_le _) hq hU
  simpa using this

/-- The declarative ROWS frame of the row at position `p` of an ordered partition `ord` is the contiguous slice the
    translated index arithmetic selects (positions relative to the partition: `ps = 0`, `pe = |ord|`). -/
theorem frameOf_rows (fo : FloatOps) (flags : List (Bool × Bool)) (order : List SortKey) (bs be : FrameBound)
    (ord : List Win.Info) (p : Nat) (cur : Win.Info)
    (hs : bs ≠ .unboundedFollowing) (he : be ≠ .unboundedPreceding) (hU : (ord.length : Int) ≤ Rs.USIZE_MAX) :
    Win.frameOf fo flags order { units := .rows, start := bs, stop := be } ord p cur =
      .ok ((ord.drop (Gen.Window.frame_clip (Gen.Window.rows_start (toGenBound bs) p 0 ord.length) (Gen.Window.rows_end (toGenBound be) p 0 ord.length) 0 ord.length).1.toNat).take
        ((Gen.Window.frame_clip (Gen.Window.rows_start (toGenBound bs) p 0 ord.length) (Gen.Window.rows_end (toGenBound be) p 0 ord.length) 0 ord.length).2.toNat -
         (Gen.Window.frame_clip (Gen.Window.rows_start (toGenBound bs) p 0 ord.length) (Gen.Window.rows_end (toGenBound be) p 0 ord.length) 0 ord.length).1.toNat)) := by
  generalize hr : Gen.Window.frame_clip (Gen.Window.rows_start (toGenBound bs) p 0 ord.length) (Gen.Window.rows_end (toGenBound be) p 0 ord.length) 0 ord.length = r
  have hwf := clip_wf (Gen.Window.rows_start (toGenBound bs) p 0 ord.length) (Gen.Window.rows_end (toGenBound be) p 0 ord.length) 0 ord.length (by omega)
  rw [hr] at hwf
  have h1 : (0 : Int) ≤ r.1 := hwf.1
  have h2 : r.1 ≤ r.2 := hwf.2.1
  unfold Win.frameOf
  rw [filterMapM_ok _ (fun x : Win.Info × Nat => if decide (startP bs p x.2) && decide (endP be p x.2) then some x.1 else none)]
  · congr 1
    rw [filterMap_ite_eq ord.zipIdx _ (fun x => decide (r.1.toNat ≤ x.2) && decide (x.2 < r.2.toNat)) (·.1)]
    · rw [filter_zipIdx_interval]
      simp
    · intro x hx
      have hq : x.2 < ord.length := by
        have := List.mem_zipIdx hx
        omega
      have hm := frame_rows_mem0 bs be ord.length p hs he x.2 hq hU
      rw [hr] at hm
      have e : (decide (startP bs p x.2) && decide (endP be p x.2)) = decide (startP bs p x.2 ∧ endP be p x.2) := by simp
      have e' : (decide (r.1.toNat ≤ x.2) && decide (x.2 < r.2.toNat)) = decide (r.1.toNat ≤ x.2 ∧ x.2 < r.2.toNat) := by simp
      rw [e, e']
      apply decide_eq_decide.2
      rw [← hm]
      constructor <;> intro h <;> omega
  · intro x _
    obtain ⟨x1, x2⟩ := x
    simp only
    rw [startKeeps_rows fo flags order bs p x2 cur x1 hs, endKeeps_rows fo flags order be p x2 cur x1 he]
    rfl

end IQE.Lemmas.WindowFrames
