import IQE.Engine.CliOutput
import IQE.Spec.JsonTable
namespace IQE.Engine.CliOutput
open IQE.Spec.JsonTable

/-! ### strings -/

theorem hex_escape (n : Nat) (h : n < 32) : hexVal4 '0' '0' (hexDigit (n / 16)) (hexDigit (n % 16)) = some n := by
  have : ∀ k : Fin 32, hexVal4 '0' '0' (hexDigit (k.val / 16)) (hexDigit (k.val % 16)) = some k.val := by decide
  exact this ⟨n, h⟩

theorem strBody_quote (rest : List Char) : strBody ('"' :: rest) = some ([], rest) := by
  rw [strBody.eq_def]; simp

theorem strBody_esc (e ch : Char) (rest : List Char) (he : (e == 'u') = false) (hl : escLit e = some ch) :
    strBody ('\\' :: e :: rest) = prepend ch (strBody rest) := by
  rw [strBody.eq_def]
  simp [he, hl]

theorem strBody_plain (c : Char) (rest : List Char) (h1 : c ≠ '"') (h2 : c ≠ '\\') (h3 : ¬ c.toNat < 0x20) :
    strBody (c :: rest) = prepend c (strBody rest) := by
  rw [strBody.eq_def]
  simp [h1, h2, h3]

theorem strBody_u00 (n : Nat) (h : n < 32) (rest : List Char) :
    strBody ('\\' :: 'u' :: '0' :: '0' :: hexDigit (n / 16) :: hexDigit (n % 16) :: rest) = prepend (Char.ofNat n) (strBody rest) := by
  have c1 : ¬ (0xD800 ≤ n ∧ n ≤ 0xDBFF) := by omega
  have c2 : ¬ (0xDC00 ≤ n ∧ n ≤ 0xDFFF) := by omega
  rw [strBody.eq_def]
  simp [hex_escape n h, c1, c2]

/-- one escaped character in front of a string body that reads back as `(s, rest)` -/
theorem strBody_escChar (c : Char) (T s rest : List Char) (ih : strBody T = some (s, rest)) :
    strBody (jsonEscChar false c ++ T) = some (c :: s, rest) := by
  unfold jsonEscChar
  by_cases h1 : c = '"'
  · subst h1
    simp only [beq_self_eq_true, if_true, List.cons_append, List.nil_append]
    rw [strBody_esc '"' '"' _ (by decide) (by decide), ih]; rfl
  · have e1 : (c == '"') = false := by simpa using h1
    by_cases h2 : c = '\\'
    · subst h2
      simp only [e1, Bool.false_eq_true, if_false, beq_self_eq_true, if_true, List.cons_append, List.nil_append]
      rw [strBody_esc '\\' '\\' _ (by decide) (by decide), ih]; rfl
    · have e2 : (c == '\\') = false := by simpa using h2
      simp only [e1, e2, Bool.false_eq_true, if_false]
      by_cases h3 : c = '\n'
      · subst h3
        simp only [beq_self_eq_true, if_true, List.cons_append, List.nil_append]
        rw [strBody_esc 'n' '\n' _ (by decide) (by decide), ih]; rfl
      · have e3 : (c == '\n') = false := by simpa using h3
        by_cases h4 : c = '\r'
        · subst h4
          simp only [e3, Bool.false_eq_true, if_false, beq_self_eq_true, if_true, List.cons_append, List.nil_append]
          rw [strBody_esc 'r' '\r' _ (by decide) (by decide), ih]; rfl
        · have e4 : (c == '\r') = false := by simpa using h4
          by_cases h5 : c = '\t'
          · subst h5
            simp only [e3, e4, Bool.false_eq_true, if_false, beq_self_eq_true, if_true, List.cons_append, List.nil_append]
            rw [strBody_esc 't' '\t' _ (by decide) (by decide), ih]; rfl
          · have e5 : (c == '\t') = false := by simpa using h5
            simp only [e3, e4, e5, Bool.false_eq_true, if_false]
            by_cases h6 : c.toNat < 0x20
            · simp only [h6, if_true, List.cons_append, List.nil_append]
              rw [strBody_u00 c.toNat h6, ih, Char.ofNat_toNat]; rfl
            · simp only [h6, if_false, List.cons_append, List.nil_append]
              rw [strBody_plain c _ h1 h2 h6, ih]; rfl

/-- **String law**: the escaped text of ANY string, followed by a closing quote, reads back as that string. -/
theorem strBody_escaped : ∀ (s rest : List Char), strBody (s.flatMap (jsonEscChar false) ++ '"' :: rest) = some (s, rest)
  | [], rest => by simp [strBody_quote]
  | c :: s, rest => by
    simp only [List.flatMap_cons, List.append_assoc]
    exact strBody_escChar c _ s rest (strBody_escaped s rest)

/-! ### white space -/

theorem skipWs_nonws (c : Char) (r : List Char) (h : isWsJ c = false) : skipWs (c :: r) = c :: r := by
  simp [skipWs, h]

theorem skipWs_space (r : List Char) : skipWs (' ' :: r) = skipWs r := by simp [skipWs, isWsJ]
theorem skipWs_lf (r : List Char) : skipWs ('\n' :: r) = skipWs r := by simp [skipWs, isWsJ]

/-! ### numbers -/

/-- what may follow a member value in the text the writer produces -/
def sepHead (rest : List Char) : Prop := ∃ r, rest = ',' :: r ∨ rest = '}' :: r

theorem isDigit_agree (c : Char) : isDigitJ c = isDigitC c := rfl
theorem decVal_agree (l : List Char) : decValJ l = decValC l := rfl

theorem takeDigits_run : ∀ (ds rest : List Char), ds.all isDigitC = true → sepHead rest → takeDigits (ds ++ rest) = (ds, rest)
  | [], rest, _, hs => by
    obtain ⟨r, rfl | rfl⟩ := hs <;> simp [takeDigits, isDigitJ]
  | d :: ds, rest, h, hs => by
    simp only [List.all_cons, Bool.and_eq_true] at h
    have hd : isDigitJ d = true := h.1
    simp [takeDigits, hd, takeDigits_run ds rest h.2 hs]

theorem fracPart_sep (rest : List Char) (hs : sepHead rest) : fracPart rest = some ([], rest) := by
  obtain ⟨r, rfl | rfl⟩ := hs <;> simp [fracPart]

theorem expPart_sep (rest : List Char) (hs : sepHead rest) : expPart rest = some ([], rest) := by
  obtain ⟨r, rfl | rfl⟩ := hs <;> simp [expPart]

theorem unsignedNumber_int (neg : Bool) (ds rest : List Char) (h : digitsOk ds = true) (hs : sepHead rest) :
    unsignedNumber neg (ds ++ rest) = some (.int (if neg then -(Int.ofNat (decValC ds)) else Int.ofNat (decValC ds)), rest) := by
  simp only [digitsOk, Bool.and_eq_true, Bool.not_eq_true'] at h
  obtain ⟨⟨h1, h2⟩, h3⟩ := h
  unfold unsignedNumber
  simp only [takeDigits_run ds rest h2 hs, h1, h3, fracPart_sep rest hs, expPart_sep rest hs, decVal_agree]
  simp

theorem number_int (t rest : List Char) (h : intTextOk t = true) (hs : sepHead rest) :
    number (t ++ rest) = some (.int (intVal t), rest) := by
  cases t with
  | nil => simp [intTextOk] at h
  | cons c r =>
    simp only [intTextOk, intVal] at h ⊢
    by_cases hc : c = '-'
    · subst hc
      simp only [beq_self_eq_true, if_true] at h ⊢
      simp only [List.cons_append, number, beq_self_eq_true, if_true]
      rw [unsignedNumber_int true r rest h hs]; rfl
    · have e : (c == '-') = false := by simpa using hc
      simp only [e, Bool.false_eq_true, if_false] at h ⊢
      simp only [List.cons_append, number, e, Bool.false_eq_true, if_false]
      have := unsignedNumber_int false (c :: r) rest h hs
      simpa using this

/-! ### scalars -/

/-- the JSON value a cell stands for -/
def scalarOf : Cell → Scalar
  | .null => .null
  | .str s => .str s
  | .int t => .int (intVal t)
  | .bool b => .bool b
  | .float _ => .null

theorem digit_head (c : Char) (h : isDigitC c = true) : (c == '"') = false ∧ (c == 't') = false ∧ (c == 'f') = false ∧ (c == 'n') = false ∧ isWsJ c = false := by
  simp only [isDigitC, Bool.and_eq_true, decide_eq_true_eq] at h
  refine ⟨?_, ?_, ?_, ?_, ?_⟩
  · apply beq_eq_false_iff_ne.2; intro e; subst e; revert h; decide
  · apply beq_eq_false_iff_ne.2; intro e; subst e; revert h; decide
  · apply beq_eq_false_iff_ne.2; intro e; subst e; revert h; decide
  · apply beq_eq_false_iff_ne.2; intro e; subst e; revert h; decide
  · simp only [isWsJ, Bool.or_eq_false_iff]
    refine ⟨⟨⟨?_, ?_⟩, ?_⟩, ?_⟩ <;> (apply beq_eq_false_iff_ne.2; intro e; subst e; revert h; decide)

/-- **Value law**: the text of a covered cell followed by `,` or `}` reads back as the value it stands for,
    and that text starts with a character that is not white space. -/
theorem scalar_value (c : Cell) (rest : List Char) (hc : cellOk c = true) (hs : sepHead rest) :
    scalar (jsonValue Dev.fixed c ++ rest) = some (scalarOf c, rest) ∧
    ∃ x xs, jsonValue Dev.fixed c = x :: xs ∧ isWsJ x = false := by
  cases c with
  | null => exact ⟨by simp [jsonValue, scalar, scalarOf], 'n', _, rfl, by decide⟩
  | bool b => cases b
              · exact ⟨by simp [jsonValue, scalar, scalarOf], 'f', _, rfl, by decide⟩
              · exact ⟨by simp [jsonValue, scalar, scalarOf], 't', _, rfl, by decide⟩
  | str s =>
    refine ⟨?_, '"', _, rfl, by decide⟩
    simp only [jsonValue, Dev.fixed, jsonString, List.cons_append, List.append_assoc, List.nil_append, scalar,
      beq_self_eq_true, if_true]
    rw [strBody_escaped]; rfl
  | float t =>
    simp only [cellOk] at hc
    have hv : jsonValue Dev.fixed (.float t) = ['n', 'u', 'l', 'l'] := by simp [jsonValue, Dev.fixed, hc]
    refine ⟨?_, 'n', ['u', 'l', 'l'], hv, by decide⟩
    rw [hv]
    simp [scalar, scalarOf]
  | int t =>
    simp only [cellOk] at hc
    cases t with
    | nil => simp [intTextOk] at hc
    | cons x xs =>
      have hx : (x == '"') = false ∧ (x == 't') = false ∧ (x == 'f') = false ∧ (x == 'n') = false ∧ isWsJ x = false := by
        by_cases hm : x = '-'
        · subst hm; decide
        · have e : (x == '-') = false := by simpa using hm
          simp only [intTextOk, e, Bool.false_eq_true, if_false, digitsOk, Bool.and_eq_true, List.all_cons] at hc
          exact digit_head x hc.1.2.1
      refine ⟨?_, x, xs, rfl, hx.2.2.2.2⟩
      have := number_int (x :: xs) rest hc hs
      simp only [jsonValue, scalarOf, List.cons_append] at this ⊢
      simp only [scalar, hx.1, hx.2.1, hx.2.2.1, hx.2.2.2.1, Bool.false_eq_true, if_false]
      exact this

end IQE.Engine.CliOutput

namespace IQE.Engine.CliOutput
open IQE.Spec.JsonTable

/-! ### members, objects -/

theorem joinWith_cons (sep a : List Char) (rest : List (List Char)) :
    joinWith sep (a :: rest) = a ++ rest.flatMap (fun x => sep ++ x) := by
  induction rest generalizing a with
  | nil => simp [joinWith]
  | cons b rest ih => simp [joinWith, ih b]

/-- **Member law**: `"name": value` followed by `,` or `}` reads back as the pair. -/
theorem member_rendered (n : List Char) (c : Cell) (rest : List Char) (hc : cellOk c = true) (hs : sepHead rest) :
    member (jsonMember Dev.fixed n c ++ rest) = some ((n, scalarOf c), rest) := by
  obtain ⟨hv, x, xs, hx, hws⟩ := scalar_value c rest hc hs
  have e : jsonMember Dev.fixed n c ++ rest =
      '"' :: (n.flatMap (jsonEscChar false) ++ '"' :: (':' :: ' ' :: (jsonValue Dev.fixed c ++ rest))) := by
    simp [jsonMember, jsonName, jsonString, Dev.fixed]
  rw [e]
  simp only [member, strBody_escaped]
  rw [skipWs_nonws ':' _ (by decide)]
  simp only
  rw [skipWs_space, hx, List.cons_append, skipWs_nonws x _ hws, ← List.cons_append, ← hx, hv]

theorem sepHead_comma (r : List Char) : sepHead (',' :: r) := ⟨r, Or.inl rfl⟩
theorem sepHead_brace (r : List Char) : sepHead ('}' :: r) := ⟨r, Or.inr rfl⟩

theorem sepHead_flat (items : List (List Char × Cell)) (rest : List Char) :
    sepHead (items.flatMap (fun it => ',' :: ' ' :: jsonMember Dev.fixed it.1 it.2) ++ '}' :: rest) := by
  cases items with
  | nil => exact sepHead_brace rest
  | cons j js =>
    simp only [List.flatMap_cons, List.append_assoc, List.cons_append, List.nil_append]
    exact sepHead_comma _

theorem jsonMember_head (n : List Char) (c : Cell) :
    jsonMember Dev.fixed n c = '"' :: (n.flatMap (jsonEscChar false) ++ '"' :: ':' :: ' ' :: jsonValue Dev.fixed c) := by
  simp [jsonMember, jsonName, jsonString, Dev.fixed]

/-- members after the first one, up to and including the closing brace -/
theorem membersTail_rendered : ∀ (items : List (List Char × Cell)) (fuel : Nat) (rest : List Char),
    (∀ it ∈ items, cellOk it.2 = true) → items.length < fuel →
    membersTail fuel (items.flatMap (fun it => ',' :: ' ' :: jsonMember Dev.fixed it.1 it.2) ++ '}' :: rest) =
      some (items.map (fun it => (it.1, scalarOf it.2)), rest)
  | [], fuel, rest, _, hf => by
    cases fuel with
    | zero => simp at hf
    | succ f => simp [membersTail, skipWs_nonws '}' rest (by decide)]
  | it :: items, fuel, rest, hok, hf => by
    cases fuel with
    | zero => simp at hf
    | succ f =>
      have ih := membersTail_rendered items f rest (fun x hx => hok x (by simp [hx])) (by simp at hf; omega)
      have hsep := sepHead_flat items rest
      have hm := member_rendered it.1 it.2 _ (hok it (by simp)) hsep
      have ht := jsonMember_head it.1 it.2
      simp only [List.flatMap_cons, List.append_assoc, List.cons_append, List.nil_append, membersTail]
      rw [skipWs_nonws ',' _ (by decide)]
      simp only
      rw [skipWs_space]
      rw [ht, List.cons_append, skipWs_nonws '"' _ (by decide), ← List.cons_append, ← ht, hm]
      simp only
      rw [ih]
      simp

/-- **Object law**: a rendered row followed by anything reads back as its name/value pairs. -/
theorem object_rendered (items : List (List Char × Cell)) (rest : List Char) (hok : ∀ it ∈ items, cellOk it.2 = true) :
    object ('{' :: joinWith [',', ' '] (items.map (fun it => jsonMember Dev.fixed it.1 it.2)) ++ '}' :: rest) =
      some (items.map (fun it => (it.1, scalarOf it.2)), rest) := by
  cases items with
  | nil => simp [joinWith, object, skipWs_nonws '}' rest (by decide)]
  | cons it items =>
    have hsep := sepHead_flat items rest
    have hm := member_rendered it.1 it.2 _ (hok it (by simp)) hsep
    have ht := jsonMember_head it.1 it.2
    have e : '{' :: joinWith [',', ' '] ((it :: items).map (fun it => jsonMember Dev.fixed it.1 it.2)) ++ '}' :: rest =
        '{' :: (jsonMember Dev.fixed it.1 it.2 ++ (items.flatMap (fun it => ',' :: ' ' :: jsonMember Dev.fixed it.1 it.2) ++ '}' :: rest)) := by
      simp [joinWith_cons, List.flatMap_map]
    rw [e]
    rw [ht] at hm ⊢
    simp only [List.cons_append, List.append_assoc] at hm ⊢
    simp only [object, skipWs_nonws '"' _ (by decide : isWsJ '"' = false)]
    split
    · rename_i heq; simp at heq
    rw [hm]
    simp only
    rw [membersTail_rendered items _ rest (fun x hx => hok x (by simp [hx]))]
    · simp
    · have : ∀ l : List (List Char × Cell), l.length ≤ (l.flatMap (fun it => ',' :: ' ' :: jsonMember Dev.fixed it.1 it.2)).length := by
        intro l
        induction l with
        | nil => simp
        | cons j js ih => simp only [List.flatMap_cons, List.length_append, List.length_cons]; omega
      have := this items
      simp only [List.length_append, List.length_cons]
      omega

end IQE.Engine.CliOutput

namespace IQE.Engine.CliOutput
open IQE.Spec.JsonTable

/-! ### rows, the whole text -/

def rowText (items : List (List Char × Cell)) : List Char :=
  '{' :: joinWith [',', ' '] (items.map (fun it => jsonMember Dev.fixed it.1 it.2)) ++ ['}']

def rowVal (items : List (List Char × Cell)) : Row := items.map (fun it => (it.1, scalarOf it.2))

theorem object_rowText (items : List (List Char × Cell)) (rest : List Char) (hok : ∀ it ∈ items, cellOk it.2 = true) :
    object (rowText items ++ rest) = some (rowVal items, rest) := by
  have := object_rendered items rest hok
  simpa [rowText, rowVal] using this

theorem elementsTail_rendered : ∀ (rows : List (List (List Char × Cell))) (fuel : Nat) (tail : List Char),
    (∀ items ∈ rows, ∀ it ∈ items, cellOk it.2 = true) → rows.length < fuel →
    elementsTail fuel (rows.flatMap (fun items => ',' :: '\n' :: ' ' :: ' ' :: rowText items) ++ '\n' :: ']' :: tail) =
      some (rows.map rowVal, tail)
  | [], fuel, tail, _, hf => by
    cases fuel with
    | zero => simp at hf
    | succ f =>
      simp only [List.flatMap_nil, List.nil_append, elementsTail]
      rw [skipWs_lf, skipWs_nonws ']' _ (by decide)]
      simp
  | items :: rows, fuel, tail, hok, hf => by
    cases fuel with
    | zero => simp at hf
    | succ f =>
      have ih := elementsTail_rendered rows f tail (fun x hx => hok x (by simp [hx])) (by simp at hf; omega)
      have ho := object_rowText items (rows.flatMap (fun items => ',' :: '\n' :: ' ' :: ' ' :: rowText items) ++ '\n' :: ']' :: tail)
        (hok items (by simp))
      have hb : ∃ t, rowText items = '{' :: t := ⟨_, rfl⟩
      obtain ⟨t, ht⟩ := hb
      simp only [List.flatMap_cons, List.append_assoc, List.cons_append, elementsTail]
      rw [skipWs_nonws ',' _ (by decide)]
      simp only
      rw [skipWs_lf, skipWs_space, skipWs_space]
      rw [ht, List.cons_append, skipWs_nonws '{' _ (by decide), ← List.cons_append, ← ht, ho]
      simp only
      rw [ih]
      simp

theorem zipWith_eq_map_zip {α β γ} (f : α → β → γ) : ∀ (l : List α) (m : List β),
    List.zipWith f l m = (List.zip l m).map (fun p => f p.1 p.2)
  | [], _ => by simp
  | _ :: _, [] => by simp
  | a :: l, b :: m => by simp [zipWith_eq_map_zip f l m]

theorem jsonRow_eq (names : List (List Char)) (row : List Cell) :
    jsonRow Dev.fixed names row = ' ' :: ' ' :: rowText (List.zip names row) := by
  simp [jsonRow, rowText, zipWith_eq_map_zip]

/-- **Table law**: what `write_json` prints for ANY names and rows of covered cells reads back as those rows. -/
theorem parse_rendered (names : List (List Char)) (rows : List (List Cell)) (hok : ∀ r ∈ rows, ∀ c ∈ r, cellOk c = true) :
    IQE.Spec.JsonTable.parse (renderJson Dev.fixed false names rows) =
      some (rows.map (fun row => rowVal (List.zip names row))) := by
  have hok' : ∀ items ∈ rows.map (fun row => List.zip names row), ∀ it ∈ items, cellOk it.2 = true := by
    intro items hi it hit
    simp only [List.mem_map] at hi
    obtain ⟨row, hr, rfl⟩ := hi
    exact hok row hr it.2 (List.of_mem_zip hit).2
  cases rows with
  | nil =>
    have : renderJson Dev.fixed false names [] = ['[', '\n', '\n', ']', '\n'] := rfl
    rw [this, List.map_nil]; decide
  | cons r0 rs =>
    have e : renderJson Dev.fixed false names (r0 :: rs) =
        '[' :: '\n' :: ' ' :: ' ' :: (rowText (List.zip names r0) ++
          ((rs.map (fun row => List.zip names row)).flatMap (fun items => ',' :: '\n' :: ' ' :: ' ' :: rowText items) ++ '\n' :: ']' :: ['\n'])) := by
      simp [renderJson, joinWith_cons, jsonRow_eq, List.flatMap_map]
    have ho := object_rowText (List.zip names r0)
      ((rs.map (fun row => List.zip names row)).flatMap (fun items => ',' :: '\n' :: ' ' :: ' ' :: rowText items) ++ '\n' :: ']' :: ['\n'])
      (hok' _ (by simp))
    have hb : ∃ t, rowText (List.zip names r0) = '{' :: t := ⟨_, rfl⟩
    obtain ⟨t, ht⟩ := hb
    rw [e]
    unfold IQE.Spec.JsonTable.parse
    rw [skipWs_nonws '[' _ (by decide)]
    simp only
    rw [skipWs_lf, skipWs_space, skipWs_space, ht, List.cons_append, skipWs_nonws '{' _ (by decide)]
    rw [ht, List.cons_append] at ho
    have hlen : (rs.map (fun row => List.zip names row)).length <
        ((rs.map (fun row => List.zip names row)).flatMap (fun items => ',' :: '\n' :: ' ' :: ' ' :: rowText items) ++ '\n' :: ']' :: ['\n']).length + 1 := by
      have : ∀ l : List (List (List Char × Cell)), l.length ≤ (l.flatMap (fun items => ',' :: '\n' :: ' ' :: ' ' :: rowText items)).length := by
        intro l
        induction l with
        | nil => simp
        | cons j js ih => simp only [List.flatMap_cons, List.length_append, List.length_cons]; omega
      have := this (rs.map (fun row => List.zip names row))
      simp only [List.length_append, List.length_cons]
      omega
    have het := elementsTail_rendered (rs.map (fun row => List.zip names row)) _ ['\n']
      (fun items hi => hok' items (by simp only [List.map_cons, List.mem_cons]; exact Or.inr hi)) hlen
    split
    · rename_i heq
      split at heq
      · rename_i h2; simp at h2
      rw [ho] at heq
      simp only at heq
      rw [het] at heq
      simp at heq
    · rename_i rows' r' heq
      split at heq
      · rename_i h2; simp at h2
      rw [ho] at heq
      simp only at heq
      rw [het] at heq
      simp only [Option.map_some, Option.some.injEq, Prod.mk.injEq] at heq
      obtain ⟨h1, h2⟩ := heq
      subst h1 h2
      simp [skipWs, isWsJ]

end IQE.Engine.CliOutput
