import IQE.Engine.CliOutput
import IQE.Spec.JsonTable
namespace IQE.Engine.CliOutput
open IQE.Spec.JsonTable

/-! ### strings -/

theorem hex_escape (n : Nat) (h : n < 32) : hexVal4 '0' '0' (hexDigit (n / 16)) (hexDigit (n % 16)) = some n := by
  have : ∀ k : Fin 32, hexVal4 '0' '0' (hexDigit (k.val / 16)) (hexDigit (k.val % 16)) = some k.val := by decide
  exact this ⟨n, h⟩

theorem strBody_quote (rest : List Char) : strBody ('"' :: rest) = some ([], rest) := by
  rw [strBody.eq_def]; simp

theorem strBody_esc (e ch : Char) (rest : List Char) (he : (e == 'u') = false) (hl : escLit e = some ch) :
    strBody ('\\' :: e :: rest) = prepend ch (strBody rest) := by
  rw [strBody.eq_def]
  simp [he, hl]

theorem strBody_plain (c : Char) (rest : List Char) (h1 : c ≠ '"') (h2 : c ≠ '\\') (h3 : ¬ c.toNat < 0x20) :
    strBody (c :: rest) = prepend c (strBody rest) := by
  rw [strBody.eq_def]
  simp [h1, h2, h3]

theorem strBody_u00 (n : Nat) (h : n < 32) (rest : List Char) :
    strBody ('\\' :: 'u' :: '0' :: '0' :: hexDigit (n / 16) :: hexDigit (n % 16) :: rest) = prepend (Char.ofNat n) (strBody rest) := by
  have c1 : ¬ (0xD800 ≤ n ∧ n ≤ 0xDBFF) := by omega
  have c2 : ¬ (0xDC00 ≤ n ∧ n ≤ 0xDFFF) := by omega
  rw [strBody.eq_def]
  simp [hex_escape n h, c1, c2]

/-- one escaped character in front of a string body that reads back as `(s, rest)` -/
theorem strBody_escChar (c : Char) (T s rest : List Char) (ih : strBody T = some (s, rest)) :
    strBody (jsonEscChar false c ++ T) = some (c :: s, rest) := by
  unfold jsonEscChar
  by_cases h1 : c = '"'
  · subst h1
    simp only [beq_self_eq_true, if_true, List.cons_append, List.nil_append]
    rw [strBody_esc '"' '"' _ (by decide) (by decide), ih]; rfl
  · have e1 : (c == '"') = false := by simpa using h1
    by_cases h2 : c = '\\'
    · subst h2
      simp only [e1, Bool.false_eq_true, if_false, beq_self_eq_true, if_true, List.cons_append, List.nil_append]
      rw [strBody_esc '\\' '\\' _ (by decide) (by decide), ih]; rfl
    · have e2 : (c == '\\') = false := by simpa using h2
      simp only [e1, e2, Bool.false_eq_true, if_false]
      by_cases h3 : c = '\n'
      · subst h3
        simp only [beq_self_eq_true, if_true, List.cons_append, List.nil_append]
        rw [strBody_esc 'n' '\n' _ (by decide) (by decide), ih]; rfl
      · have e3 : (c == '\n') = false := by simpa using h3
        by_cases h4 : c = '\r'
        · subst h4
          simp only [e3, Bool.false_eq_true, if_false, beq_self_eq_true, if_true, List.cons_append, List.nil_append]
          rw [strBody_esc 'r' '\r' _ (by decide) (by decide), ih]; rfl
        · have e4 : (c == '\r') = false := by simpa using h4
          by_cases h5 : c = '\t'
          · subst h5
            simp only [e3, e4, Bool.false_eq_true, if_false, beq_self_eq_true, if_true, List.cons_append, List.nil_append]
            rw [strBody_esc 't' '\t' _ (by decide) (by decide), ih]; rfl
          · have e5 : (c == '\t') = false := by simpa using h5
            simp only [e3, e4, e5, Bool.false_eq_true, if_false]
            by_cases h6 : c.toNat < 0x20
            · simp only [h6, if_true, List.cons_append, List.nil_append]
              rw [strBody_u00 c.toNat h6, ih, Char.ofNat_toNat]; rfl
            · simp only [h6, if_false, List.cons_append, List.nil_append]
              rw [strBody_plain c _ h1 h2 h6, ih]; rfl

/-- **String law**: the escaped text of ANY string, followed by a closing quote, reads back as that string. -/
theorem strBody_escaped : ∀ (s rest : List Char), strBody (s.flatMap (jsonEscChar false) ++ '"' :: rest) = some (s, rest)
  | [], rest => by simp [strBody_quote]
  | c :: s, rest => by
    simp only [List.flatMap_cons, List.append_assoc]
    exact strBody_escChar c _ s rest (strBody_escaped s rest)

/-! ### white space -/

theorem skipWs_nonws (c : Char) (r : List Char) (h : isWsJ c = false) : skipWs (c :: r) = c :: r := by
  simp [skipWs, h]

theorem skipWs_space (r : List Char) : skipWs (' ' :: r) = skipWs r := by simp [skipWs, isWsJ]
theorem skipWs_lf (r : List Char) : skipWs ('\n' :: r) = skipWs r := by simp [skipWs, isWsJ]

/-! ### numbers -/

/-- what may follow a member value in the text the writer produces -/
def sepHead (rest : List Char) : Prop := ∃ r, rest = ',' :: r ∨ rest = '}' :: r

theorem isDigit_agree (c : Char) : isDigitJ c = isDigitC c := rfl
theorem decVal_agree (l : List Char) : decValJ l = decValC l := rfl

theorem takeDigits_run : ∀ (ds rest : List Char), ds.all isDigitC = true → sepHead rest → takeDigits (ds ++ rest) = (ds, rest)
  | [], rest, _, hs => by
    obtain ⟨r, rfl | rfl⟩ := hs <;> simp [takeDigits, isDigitJ]
  | d :: ds, rest, h, hs => by
    simp only [List.all_cons, Bool.and_eq_true] at h
    have hd : isDigitJ d = true := h.1
    simp [takeDigits, hd, takeDigits_run ds rest h.2 hs]

theorem fracPart_sep (rest : List Char) (hs : sepHead rest) : fracPart rest = some ([], rest) := by
  obtain ⟨r, rfl | rfl⟩ := hs <;> simp [fracPart]

theorem expPart_sep (rest : List Char) (hs : sepHead rest) : expPart rest = some ([], rest) := by
  obtain ⟨r, rfl | rfl⟩ := hs <;> simp [expPart]

theorem unsignedNumber_int (neg : Bool) (ds rest : List Char) (h : digitsOk ds = true) (hs : sepHead rest) :
    unsignedNumber neg (ds ++ rest) = some (.int (if neg then -(Int.ofNat (decValC ds)) else Int.ofNat (decValC ds)), rest) := by
  simp only [digitsOk, Bool.and_eq_true, Bool.not_eq_true'] at h
  obtain ⟨⟨h1, h2⟩, h3⟩ := h
  unfold unsignedNumber
  simp only [takeDigits_run ds rest h2 hs, h1, h3, fracPart_sep rest hs, expPart_sep rest hs, decVal_agree]
  simp

theorem number_int (t rest : List Char) (h : intTextOk t = true) (hs : sepHead rest) :
    number (t ++ rest) = some (.int (intVal t), rest) := by
  cases t with
  | nil => simp [intTextOk] at h
  | cons c r =>
    simp only [intTextOk, intVal] at h ⊢
    by_cases hc : c = '-'
    · subst hc
      simp only [beq_self_eq_true, if_true] at h ⊢
      simp only [List.cons_append, number, beq_self_eq_true, if_true]
      rw [unsignedNumber_int true r rest h hs]; rfl
    · have e : (c == '-') = false := by simpa using hc
      simp only [e, Bool.false_eq_true, if_false] at h ⊢
      simp only [List.cons_append, number, e, Bool.false_eq_true, if_false]
      have := unsignedNumber_int false (c :: r) rest h hs
      simpa using this

/-! ### scalars -/

/-- the JSON value a cell stands for -/
def scalarOf : Cell → Scalar
  | .null => .null
  | .str s => .str s
  | .int t => .int (intVal t)
  | .bool b => .bool b
  | .float _ => .null

theorem digit_head (c : Char) (h : isDigitC c = true) : (c == '"') = false ∧ (c == 't') = false ∧ (c == 'f') = false ∧ (c == 'n') = false ∧ isWsJ c = false := by
  simp only [isDigitC, Bool.and_eq_true, decide_eq_true_eq] at h
  refine ⟨?_, ?_, ?_, ?_, ?_⟩
  · apply beq_eq_false_iff_ne.2; intro e; subst e; revert h; decide
  · apply beq_eq_false_iff_ne.2; intro e; subst e; revert h; decide
  · apply beq_eq_false_iff_ne.2; intro e; subst e; revert h; decide
  · apply beq_eq_false_iff_ne.2; intro e; subst e; revert h; decide
  · simp only [isWsJ, Bool.or_eq_false_iff]
    refine ⟨⟨⟨?_, ?_⟩, ?_⟩, ?_⟩ <;> (apply beq_eq_false_iff_ne.2; intro e; subst e; revert h; decide)

/-- **Value law**: the text of a covered cell followed by `,` or `}` reads back as the value it stands for,
    and that text starts with a character that is not white space. -/
theorem scalar_value (c : Cell) (rest : List Char) (hc : cellOk c = true) (hs : sepHead rest) :
    scalar (jsonValue Dev.fixed c ++ rest) = some (scalarOf c, rest) ∧
    ∃ x xs, jsonValue Dev.fixed c = x :: xs ∧ isWsJ x = false := by
  cases c with
  | null => exact ⟨by simp [jsonValue, scalar, scalarOf], 'n', _, rfl, by decide⟩
  | bool b => cases b
              · exact ⟨by simp [jsonValue, scalar, scalarOf], 'f', _, rfl, by decide⟩
              · exact ⟨by simp [jsonValue, scalar, scalarOf], 't', _, rfl, by decide⟩
  | str s =>
    refine ⟨?_, '"', _, rfl, by decide⟩
    simp only [jsonValue, Dev.fixed, jsonString, List.cons_append, List.append_assoc, List.nil_append, scalar,
      beq_self_eq_true, if_true]
    rw [strBody_escaped]; rfl
  | float t =>
    simp only [cellOk] at hc
    have hv : jsonValue Dev.fixed (.float t) = ['n', 'u', 'l', 'l'] := by simp [jsonValue, Dev.fixed, hc]
    refine ⟨?_, 'n', ['u', 'l', 'l'], hv, by decide⟩
    rw [hv]
    simp [scalar, scalarOf]
  | int t =>
    simp only [cellOk] at hc
    cases t with
    | nil => simp [intTextOk] at hc
    | cons x xs =>
      have hx : (x == '"') = false ∧ (x == 't') = false ∧ (x == 'f') = false ∧ (x == 'n') = false ∧ isWsJ x = false := by
        by_cases hm : x = '-'
        · subst hm; decide
        · have e : (x == '-') = false := by simpa using hm
          simp only [intTextOk, e, Bool.false_eq_true, if_false, digitsOk, Bool.and_eq_true, List.all_cons] at hc
          exact digit_head x hc.1.2.1
      refine ⟨?_, x, xs, rfl, hx.2.2.2.2⟩
      have := number_int (x :: xs) rest hc hs
      simp only [jsonValue, scalarOf, List.cons_append] at this ⊢
      simp only [scalar, hx.1, hx.2.1, hx.2.2.1, hx.2.2.2.1, Bool.false_eq_true, if_false]
      exact this

end IQE.Engine.CliOutput

namespace IQE.Engine.CliOutput
open IQE.Spec.JsonTable

/-! ### members, objects -/

theorem joinWith_cons (sep a : List Char) (rest : List (List Char)) :
    joinWith sep (a :: rest) = a ++ rest.flatMap (fun x => sep ++ x) := by
  induction rest generalizing a with
  | nil => simp [joinWith]
  | cons b rest ih => simp [joinWith, ih b]

/-- **Member law**: `"name": value` followed by `,` or `}` reads back as the pair. -/
theorem member_rendered (n : List Char) (c : Cell) (rest : List Char) (hc : cellOk c = true) (hs : sepHead rest) :
    member (jsonMember Dev.fixed n c ++ rest) = some ((n, scalarOf c), rest) := by
  obtain ⟨hv, x, xs, hx, hws⟩ := scalar_value c rest hc hs
  have e : jsonMember Dev.fixed n c ++ rest =
      '"' :: (n.flatMap (jsonEscChar false) ++ '"' :: (':' :: ' ' :: (jsonValue Dev.fixed c ++ rest))) := by
    simp [jsonMember, jsonName, jsonString, Dev.fixed]
  rw [e]
  simp only [member, strBody_escaped]
  rw [skipWs_nonws ':' _ (by decide)]
  simp only
  rw [skipWs_space, hx, List.cons_append, skipWs_nonws x _ hws, ← List.cons_append, ← hx, hv]

theorem sepHead_comma (r : List Char) : sepHead (',' :: r) := ⟨r, Or.inl rfl⟩
theorem sepHead_brace (r : List Char) : sepHead ('}' :: r) := ⟨r, Or.inr rfl⟩

theorem sepHead_flat (items : List (List Char × Cell)) (rest : List Char) :
    sepHead (items.flatMap (fun it => ',' :: ' ' :: jsonMember Dev.fixed it.1 it.2) ++ '}' :: rest) := by
  cases items with
  | nil => exact sepHead_brace rest
  | cons j js =>
    simp only [List.flatMap_cons, List.append_assoc, List.cons_append, List.nil_append]
    exact sepHead_comma _

theorem jsonMember_head (n : List Char) (c : Cell) :
    jsonMember Dev.fixed n c = '"' :: (n.flatMap (jsonEscChar false) ++ '"' :: ':' :: ' ' :: jsonValue Dev.fixed c) := by
  simp [jsonMember, jsonName, jsonString, Dev.fixed]

/-- members after the first one, up to and including the closing brace -/
theorem membersTail_rendered : ∀ (items : List (List Char × Cell)) (fuel : Nat) (rest : List Char),
    (∀ it ∈ items, cellOk it.2 = true) → items.length < fuel →
    membersTail fuel (items.flatMap (fun it => ',' :: ' ' :: jsonMember Dev.fixed it.1 it.2) ++ '}' :: rest) =
      some (items.map (fun it => (it.1, scalarOf it.2)), rest)
  | [], fuel, rest, _, hf => by
    cases fuel with
    | zero => simp at hf
    | succ f => simp [membersTail, skipWs_nonws '}' rest (by decide)]
  | it :: items, fuel, rest, hok, hf => by
    cases fuel with
    | zero => simp at hf
    | succ f =>
      have ih := membersTail_rendered items f rest (fun x hx => hok x (by simp [hx])) (by simp at hf; omega)
      have hsep := sepHead_flat items rest
      have hm := member_rendered it.1 it.2 _ (hok it (by simp)) hsep
      have ht := jsonMember_head it.1 it.2
      simp only [List.flatMap_cons, List.append_assoc, List.cons_append, List.nil_append, membersTail]
      rw [skipWs_nonws ',' _ (by decide)]
      simp only
      rw [skipWs_space]
      rw [ht, List.cons_append, skipWs_nonws '"' _ (by decide), ← List.cons_append, ← ht, hm]
      simp only
      rw [ih]
      simp

/-- **Object law**: a rendered row followed by anything reads back as its name/value pairs. -/
theorem object_rendered (items : List (List Char × Cell)) (rest : List Char) (hok : ∀ it ∈ items, cellOk it.2 = true) :
    object ('{' :: joinWith [',', ' '] (items.map (fun it => jsonMember Dev.fixed it.1 it.2)) ++ '}' :: rest) =
      some (items.map (fun it => (it.1, scalarOf it.2)), rest) := by
  cases items with
  | nil => simp [joinWith, object, skipWs_nonws '}' rest (by decide)]
  | cons it items =>
    have hsep := sepHead_flat items rest
    have hm := member_rendered it.1 it.2 _ (hok it (by simp)) hsep
    have ht := jsonMember_head it.1 it.2
    have e : '{' :: joinWith [',', ' '] ((it :: items).map (fun it => jsonMember Dev.fixed it.1 it.2)) ++ '}' :: rest =
        '{' :: (jsonMember Dev.fixed it.1 it.2 ++ (items.flatMap (fun it => ',' :: ' ' :: jsonMember Dev.fixed it.1 it.2) ++ '}' :: rest)) := by
      simp [joinWith_cons, List.flatMap_map]
    rw [e]
    simp only [object]
    rw [ht, List.cons_append, skipWs_nonws '"' _ (by decide)]
    simp only
    rw [← List.cons_append, ← ht, hm]
    simp only
    rw [membersTail_rendered items _ rest (fun x hx => hok x (by simp [hx]))]
    · simp
    · have : ∀ l : List (List Char × Cell), l.length ≤ (l.flatMap (fun it => ',' :: ' ' :: jsonMember Dev.fixed it.1 it.2)).length := by
        intro l
        induction l with
        | nil => simp
        | cons j js ih => simp only [List.flatMap_cons, List.length_append, List.length_cons]; omega
      have := this items
      simp only [List.length_append, List.length_cons]
      omega

end IQE.Engine.CliOutput
