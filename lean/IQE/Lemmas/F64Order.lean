/-
  IQE.Lemmas.F64Order — comparison facts shared by C02 / C05 / C06:
  * `ordSat op (compare x y)` on integers is the usual comparison;
  * Rust's IEEE operators on f64 (`F64.lt/le/eq`) agree with the total order (`total_cmp`, what Arrow's kernels use)
    exactly on pairs that contain no NaN and are not two zeros — and disagree on NaN and on -0.0 vs +0.0 (witnesses).
-/
import IQE.Spec.Expr
namespace IQE
open IQE.Spec

theorem ordSat_lt_of (op : BinOp) : ordSat op .lt = (match op with | .ne | .lt | .le => true | _ => false) := by
  cases op <;> decide
theorem ordSat_eq_of (op : BinOp) : ordSat op .eq = (match op with | .eq | .le | .ge => true | _ => false) := by
  cases op <;> decide
theorem ordSat_gt_of (op : BinOp) : ordSat op .gt = (match op with | .ne | .gt | .ge => true | _ => false) := by
  cases op <;> decide

/-- the integer comparison an operator denotes -/
def intSat (op : BinOp) (x y : Int) : Bool :=
  match op with
  | .eq => decide (x = y) | .ne => decide (x ≠ y) | .lt => decide (x < y) | .le => decide (x ≤ y)
  | .gt => decide (x > y) | .ge => decide (x ≥ y) | _ => false

theorem ordSat_compare_int (op : BinOp) (x y : Int) : ordSat op (compare x y) = intSat op x y := by
  rcases Int.lt_trichotomy x y with h | h | h
  · rw [Int.compare_eq_lt.mpr h, ordSat_lt_of]
    cases op <;> simp [intSat] <;> omega
  · subst h
    have : compare x x = Ordering.eq := Int.compare_eq_eq.mpr rfl
    rw [this, ordSat_eq_of]
    cases op <;> simp [intSat]
  · rw [Int.compare_eq_gt.mpr h, ordSat_gt_of]
    cases op <;> simp [intSat] <;> omega

namespace F64

theorem totalCmp_sat (op : BinOp) (a b : F64) : ordSat op (totalCmp a b) = intSat op a.totalKey b.totalKey := by
  unfold totalCmp; exact ordSat_compare_int op _ _

/-- Rust's IEEE comparison an operator denotes (`==`, `!=`, `<`, `<=`, `>`, `>=` on f64) -/
def ieeeSat (op : BinOp) (a b : F64) : Bool :=
  match op with
  | .eq => F64.eq a b | .ne => F64.ne a b | .lt => F64.lt a b | .le => F64.le a b | .gt => F64.gt a b | .ge => F64.ge a b
  | _ => false

theorem mag_lt (x : F64) : x.mag < 2 ^ 63 := by unfold mag; omega

/-- ordinary values: no NaN on either side, and not two zeros (the only pair of distinct non-NaN bit patterns IEEE equates) -/
def Plain (a b : F64) : Prop := a.isNaN = false ∧ b.isNaN = false ∧ ¬ (a.isZero = true ∧ b.isZero = true)

theorem keys_order {a b : F64} (h : Plain a b) :
    (a.ieeeKey < b.ieeeKey ↔ a.totalKey < b.totalKey) ∧ (a.ieeeKey = b.ieeeKey ↔ a.totalKey = b.totalKey) := by
  obtain ⟨_, _, hz⟩ := h
  simp only [isZero, beq_iff_eq] at hz
  have := mag_lt a; have := mag_lt b
  unfold ieeeKey totalKey
  cases a.signBit <;> cases b.signBit <;> simp <;> omega

/-- On plain pairs IEEE comparison = total-order comparison, for all six operators. -/
theorem ieeeSat_eq_total {a b : F64} (h : Plain a b) (op : BinOp) : ieeeSat op a b = ordSat op (totalCmp a b) := by
  rw [totalCmp_sat]
  have hk := keys_order h
  have hk' := keys_order (a := b) (b := a) ⟨h.2.1, h.1, fun hh => h.2.2 ⟨hh.2, hh.1⟩⟩
  obtain ⟨ha, hb, _⟩ := h
  cases op <;> simp [ieeeSat, intSat, F64.eq, F64.ne, F64.lt, F64.le, F64.gt, F64.ge, ha, hb] <;> omega

/-- … and they genuinely differ outside: NaN compares greater than everything in the total order, unordered in IEEE;
    -0.0 < +0.0 in the total order, equal in IEEE. -/
theorem ieee_total_differ_nan : ieeeSat .gt nan ⟨0x3FE0000000000000⟩ = false ∧ ordSat .gt (totalCmp nan ⟨0x3FE0000000000000⟩) = true := by decide
theorem ieee_total_differ_zero : ieeeSat .eq negZero posZero = true ∧ ordSat .eq (totalCmp negZero posZero) = false := by decide

end F64
end IQE
