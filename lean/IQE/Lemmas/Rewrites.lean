/-
  IQE.Lemmas.Rewrites — the relational rewrites used by the optimizer rules (property C03), in two layers:

  * *denotations*: what `Spec.run` computes for a Filter / Project / Join node when its expressions evaluate without
    error on every row (`run_filter_ok`, `run_project_ok`, `run_join_ok`) — the bridge between plans and bag algebra;
  * *pure bag algebra* over `List.filter`, `List.map` and the nested-loop join `IQE.Join.nlJoin`.
-/
import IQE.Lemmas.JoinDecomp
namespace IQE.Rewrites
open IQE IQE.Spec IQE.Bag IQE.Join

/-- evaluation context of a plan node that holds no subqueries (`subs = []`) -/
def cx0 (fo : FloatOps) (fns : String → List Val → Except Err Val) : EvalCtx :=
  { fo := fo, fn := fns, runSub := fun _ _ => .error (.bad "no such subquery") }

/-- a SQL truth value -/
def IsTV (v : Val) : Prop := v = .null ∨ ∃ b, v = .bool b

/-- WHERE keeps a row iff its predicate is TRUE -/
def isTrue (v : Val) : Bool := match v with | .bool true => true | _ => false

theorem filterMap_keep (c : Row → Bool) (l : Table) :
    l.filterMap (fun r => if c r = true then some r else none) = l.filter c := by
  induction l with
  | nil => rfl
  | cons a l ih => cases h : c a <;> simp [h, ih]

section
variable (fo : FloatOps) (fns : String → List Val → Except Err Val) (cat : List Table)

/-- denotation of Filter -/
theorem run_filter_ok {q : Query} {ctes : List Table} {env : Env} {rows : Table} (P : Expr) (tv : Row → Val)
    (hq : run fo fns cat q ctes env = .ok rows)
    (hP : ∀ r ∈ rows, eval (cx0 fo fns) (r :: env) P = .ok (tv r)) (hb : ∀ r ∈ rows, IsTV (tv r)) :
    run fo fns cat (.filter [] P q) ctes env = .ok (rows.filter (fun r => isTrue (tv r))) := by
  rw [run]
  simp only [runList, hq]
  show (List.filterMapM _ rows) = _
  rw [filterMapM_ok _ (fun r => if isTrue (tv r) = true then some r else none) rows]
  · rw [filterMap_keep]
  · intro r hr
    have h := hP r hr
    simp only [cx0] at h
    simp only [List.getElem?_nil, h]
    rcases hb r hr with h0 | ⟨b, hb'⟩
    · rw [h0]; rfl
    · rw [hb']; cases b <;> rfl

/-- denotation of Project -/
theorem run_project_ok {q : Query} {ctes : List Table} {env : Env} {rows : Table} (es : List Expr) (f : Row → Row)
    (hq : run fo fns cat q ctes env = .ok rows)
    (hes : ∀ r ∈ rows, evalList (cx0 fo fns) (r :: env) es = .ok (f r)) :
    run fo fns cat (.project [] es q) ctes env = .ok (rows.map f) := by
  rw [run]
  simp only [runList, hq]
  show (List.mapM _ rows) = _
  rw [mapM_ok _ f rows]
  intro r hr
  have h := hes r hr
  simp only [cx0] at h
  simp only [List.getElem?_nil, h]

/-- denotation of Join (through `joinRows_eq_nlJoin`) -/
theorem run_join_ok {l r : Query} {ctes : List Table} {env : Env} {ls rs : Table} (jt : JoinType) (lw rw : Nat) (on : Expr)
    (m : Row → Row → Bool)
    (hl : run fo fns cat l ctes env = .ok ls) (hr : run fo fns cat r ctes env = .ok rs)
    (hon : ∀ a ∈ ls, ∀ b ∈ rs, onTrue (cx0 fo fns) env on (a ++ b) = .ok (m a b)) :
    run fo fns cat (.join jt lw rw [] on l r) ctes env = .ok (nlJoin jt lw rw m ls rs) := by
  rw [run]
  simp only [runList, hl, hr]
  exact joinRows_eq_nlJoin _ env jt lw rw on m ls rs (by
    intro a ha b hb
    have h := hon a ha b hb
    simpa [cx0] using h)
end

/-! ### pure bag algebra -/

/-- conjunct splitting: σ_{p ∧ q} = σ_p ∘ σ_q -/
theorem filter_and (p q : Row → Bool) (t : Table) : t.filter (fun r => p r && q r) = (t.filter q).filter p := by
  rw [List.filter_filter]

/-- filter through project: σ_k ∘ π_f = π_f ∘ σ_{k ∘ f} -/
theorem filter_map_comm (k : Row → Bool) (f : Row → Row) (t : Table) : (t.map f).filter k = (t.filter (k ∘ f)).map f := by
  rw [List.filter_map]

/-- filter through an inner join into the side it reads -/
theorem filter_inner_left (lw rw : Nat) (m : Row → Row → Bool) (k : Row → Bool) (kL : Row → Bool) (ls rs : Table)
    (h : ∀ a ∈ ls, ∀ b ∈ rs, k (a ++ b) = kL a) :
    (nlJoin .inner lw rw m ls rs).filter k = nlJoin .inner lw rw m (ls.filter kL) rs := by
  simp only [nlJoin]
  induction ls with
  | nil => rfl
  | cons a ls ih =>
    have ih' := ih (fun a' ha' => h a' (List.mem_cons_of_mem _ ha'))
    simp only [List.flatMap_cons, List.filter_append, ih']
    have hrow : ((rs.filter (m a)).map (fun b => a ++ b)).filter k = if kL a then (rs.filter (m a)).map (fun b => a ++ b) else [] := by
      by_cases hk : kL a = true
      · simp only [hk, if_true]
        apply List.filter_eq_self.mpr
        intro row hrow
        obtain ⟨b, hb, rfl⟩ := List.mem_map.mp hrow
        rw [h a List.mem_cons_self b (List.mem_filter.mp hb).1, hk]
      · simp only [hk, if_false]
        apply List.filter_eq_nil_iff.mpr
        intro row hrow
        obtain ⟨b, hb, rfl⟩ := List.mem_map.mp hrow
        rw [h a List.mem_cons_self b (List.mem_filter.mp hb).1]; exact hk
    rw [hrow]
    by_cases hk : kL a = true
    · simp [hk, List.filter_cons]
    · simp [hk, List.filter_cons]

theorem filter_inner_right (lw rw : Nat) (m : Row → Row → Bool) (k : Row → Bool) (kR : Row → Bool) (ls rs : Table)
    (h : ∀ a ∈ ls, ∀ b ∈ rs, k (a ++ b) = kR b) :
    (nlJoin .inner lw rw m ls rs).filter k = nlJoin .inner lw rw m ls (rs.filter kR) := by
  simp only [nlJoin]
  induction ls with
  | nil => rfl
  | cons a ls ih =>
    have ih' := ih (fun a' ha' => h a' (List.mem_cons_of_mem _ ha'))
    simp only [List.flatMap_cons, List.filter_append, ih']
    congr 1
    rw [List.filter_map, List.filter_filter, List.filter_filter]
    congr 1
    apply List.filter_congr
    intro b hb
    simp only [Function.comp, h a List.mem_cons_self b hb, Bool.and_comm]

/-- filter into the PRESERVED (left) side of a left outer join: the predicate must read left columns only, also on
    the NULL-extended rows -/
theorem filter_left_preserved (lw rw : Nat) (m : Row → Row → Bool) (k : Row → Bool) (kL : Row → Bool) (ls rs : Table)
    (h : ∀ a ∈ ls, ∀ b, k (a ++ b) = kL a) :
    (nlJoin .left lw rw m ls rs).filter k = nlJoin .left lw rw m (ls.filter kL) rs := by
  simp only [nlJoin]
  induction ls with
  | nil => rfl
  | cons a ls ih =>
    have ih' := ih (fun a' ha' => h a' (List.mem_cons_of_mem _ ha'))
    simp only [List.flatMap_cons, List.filter_append, ih']
    have hall : ∀ row ∈ (if (rs.filter (m a)).isEmpty then [a ++ nulls rw] else (rs.filter (m a)).map (fun b => a ++ b)), k row = kL a := by
      intro row hrow
      split at hrow
      · simp at hrow; subst hrow; exact h a List.mem_cons_self _
      · obtain ⟨b, _, rfl⟩ := List.mem_map.mp hrow; exact h a List.mem_cons_self _
    by_cases hk : kL a = true
    · rw [List.filter_eq_self.mpr (fun row hrow => by rw [hall row hrow, hk])]
      simp [hk, List.filter_cons]
    · rw [List.filter_eq_nil_iff.mpr (fun row hrow => by rw [hall row hrow]; exact hk)]
      simp [hk, List.filter_cons]

/-- semi / anti join below an inner join: the semi condition reads the left input only -/
theorem semi_below_inner (lw rw : Nat) (m : Row → Row → Bool) (ms : Row → Row → Bool) (msL : Row → Row → Bool) (ls rs ss : Table)
    (h : ∀ a ∈ ls, ∀ b ∈ rs, ∀ s, ms (a ++ b) s = msL a s) (w w' : Nat) :
    nlJoin .semi (lw + rw) w ms (nlJoin .inner lw rw m ls rs) ss = nlJoin .inner lw rw m (nlJoin .semi lw w' msL ls ss) rs := by
  simp only [nlJoin]
  have := filter_inner_left lw rw m (fun row => hasMatch ms ss row) (fun a => hasMatch msL ss a) ls rs (by
    intro a ha b hb
    simp only [hasMatch]
    congr 1; funext s; exact h a ha b hb s)
  simpa [nlJoin] using this

theorem anti_below_inner (lw rw : Nat) (m : Row → Row → Bool) (ms : Row → Row → Bool) (msL : Row → Row → Bool) (ls rs ss : Table)
    (h : ∀ a ∈ ls, ∀ b ∈ rs, ∀ s, ms (a ++ b) s = msL a s) (w w' : Nat) :
    nlJoin .anti (lw + rw) w ms (nlJoin .inner lw rw m ls rs) ss = nlJoin .inner lw rw m (nlJoin .anti lw w' msL ls ss) rs := by
  simp only [nlJoin]
  have := filter_inner_left lw rw m (fun row => !hasMatch ms ss row) (fun a => !hasMatch msL ss a) ls rs (by
    intro a ha b hb
    simp only [hasMatch]
    congr 2; funext s; exact h a ha b hb s)
  simpa [nlJoin] using this

theorem filter_flatMap_ite {α β : Type} (p : α → Bool) (g : α → List β) (l : List α) :
    (l.filter p).flatMap g = l.flatMap (fun x => if p x then g x else []) := by
  induction l with
  | nil => rfl
  | cons a l ih => cases h : p a <;> simp [h, ih]

theorem filter_flatMap' {α β : Type} (q : β → Bool) (f : α → List β) (l : List α) :
    (l.flatMap f).filter q = l.flatMap (fun x => (f x).filter q) := by
  induction l with
  | nil => rfl
  | cons a l ih => simp [List.flatMap_cons, List.filter_append, ih]

/-- inner-join associativity with predicate re-attachment: a predicate between A and B (`p1`), between B and C (`p2`)
    and between A and C (`p3`) may sit on whichever join is the first to have both of its relations in scope.
    `m2` is the ON of the upper join of `(A ⋈ B) ⋈ C`, `m1` the ON of the upper join of `A ⋈ (B ⋈ C)`.
    Same rows, in the same order. -/
theorem inner_reassoc (wa wb wc : Nat) (p1 p2 p3 : Row → Row → Bool) (m2 m1 : Row → Row → Bool) (as bs cs : Table)
    (h2 : ∀ a ∈ as, ∀ b ∈ bs, ∀ c ∈ cs, m2 (a ++ b) c = (p2 b c && p3 a c))
    (h1 : ∀ a ∈ as, ∀ b ∈ bs, ∀ c ∈ cs, m1 a (b ++ c) = (p1 a b && p3 a c)) :
    nlJoin .inner (wa + wb) wc m2 (nlJoin .inner wa wb p1 as bs) cs
      = nlJoin .inner wa (wb + wc) m1 as (nlJoin .inner wb wc p2 bs cs) := by
  simp only [nlJoin]
  rw [List.flatMap_assoc]
  apply flatMap_congr'
  intro a ha
  -- left: rows of a
  rw [List.flatMap_map, filter_flatMap_ite]
  -- right: rows of a
  rw [filter_flatMap', List.map_flatMap]
  apply flatMap_congr'
  intro b hb
  rw [List.filter_map, List.filter_filter, List.map_map]
  by_cases hp : p1 a b = true
  · simp only [hp, if_true]
    have hf : cs.filter (m2 (a ++ b)) = cs.filter (fun c => (m1 a ∘ fun c => b ++ c) c && p2 b c) := by
      apply List.filter_congr
      intro c hc
      simp only [Function.comp, h2 a ha b hb c hc, h1 a ha b hb c hc, hp, Bool.true_and, Bool.and_comm]
    rw [hf]
    apply List.map_congr_left
    intro c _
    simp [List.append_assoc]
  · simp only [hp, if_false]
    have hf : cs.filter (fun c => (m1 a ∘ fun c => b ++ c) c && p2 b c) = [] := by
      apply List.filter_eq_nil_iff.mpr
      intro c hc
      simp only [Function.comp, h1 a ha b hb c hc]
      simp at hp
      simp [hp]
    rw [hf]; rfl

/-! ### grouping by a unique key -/

theorem dedup_of_nodup {α : Type} [DecidableEq α] (l : List α) (h : l.Nodup) : dedup l = l := by
  induction l with
  | nil => rfl
  | cons x xs ih =>
    have hx := List.nodup_cons.mp h
    simp only [dedup, ih hx.2]
    congr 1
    apply List.filter_eq_self.mpr
    intro y hy
    simp only [decide_eq_true_eq]
    intro hyx; exact hx.1 (hyx ▸ hy)

/-- when the grouping keys are pairwise distinct every group is a single row, in input order -/
theorem groupBy_unique (keyed : List (Row × Row)) (h : (keyed.map (·.1)).Nodup) :
    Spec.groupBy keyed = keyed.map (fun p => (p.1, [p.2])) := by
  rw [groupBy_eq, groupSpec, dedup_of_nodup _ h, List.map_map]
  apply List.map_congr_left
  intro p hp
  simp only [Function.comp, rowsOf]
  congr 1
  -- exactly one element of `keyed` has key `p.1`
  have : ∀ (keyed : List (Row × Row)), (keyed.map (·.1)).Nodup → p ∈ keyed → keyed.filter (fun q => q.1 = p.1) = [p] := by
    intro keyed h hp
    induction keyed with
    | nil => cases hp
    | cons q rest ih =>
      simp only [List.map_cons, List.nodup_cons] at h
      rcases List.mem_cons.mp hp with rfl | hp'
      · have hrest : rest.filter (fun q => decide (q.1 = p.1)) = [] := by
          apply List.filter_eq_nil_iff.mpr
          intro q hq hqk
          simp only [decide_eq_true_eq] at hqk
          exact h.1 (hqk ▸ List.mem_map_of_mem hq)
        simp [List.filter_cons, hrest]
      · have hne : ¬ q.1 = p.1 := fun hqp => h.1 (hqp ▸ List.mem_map_of_mem hp')
        simp [List.filter_cons, hne, ih h.2 hp']
  rw [this keyed h hp]; rfl

/-! ### packed keys -/

/-- `a*K + b` determines `a` and `b` when `0 ≤ b < K` -/
theorem pack_injective (K a b a' b' : Int) (hb : 0 ≤ b ∧ b < K) (hb' : 0 ≤ b' ∧ b' < K)
    (h : a * K + b = a' * K + b') : a = a' ∧ b = b' := by
  have hK : 0 < K := by omega
  have e1 : (a * K + b) % K = b := by
    rw [Int.add_comm, Int.add_mul_emod_self_right]; exact Int.emod_eq_of_lt hb.1 hb.2
  have e2 : (a' * K + b') % K = b' := by
    rw [Int.add_comm, Int.add_mul_emod_self_right]; exact Int.emod_eq_of_lt hb'.1 hb'.2
  have hbb : b = b' := by rw [← e1, ← e2, h]
  refine ⟨?_, hbb⟩
  have : a * K = a' * K := by omega
  exact Int.eq_of_mul_eq_mul_right (by omega) this

/-- the packed value stays inside `[0, max1*K + max2]` -/
theorem pack_in_range (K a b max1 max2 : Int) (hK : 0 ≤ K) (ha : 0 ≤ a ∧ a ≤ max1) (hb : 0 ≤ b ∧ b ≤ max2) :
    0 ≤ a * K + b ∧ a * K + b ≤ max1 * K + max2 := by
  have h1 : 0 ≤ a * K := Int.mul_nonneg ha.1 hK
  have h2 : a * K ≤ max1 * K := Int.mul_le_mul_of_nonneg_right ha.2 hK
  omega

/-! ### OR factoring in three-valued logic -/

theorem or_and_distrib (c r1 r2 : Val) (hc : IsTV c) (h1 : IsTV r1) (h2 : IsTV r2) :
    (do Val.or3 (← Val.and3 c r1) (← Val.and3 c r2)) = (do Val.and3 c (← Val.or3 r1 r2)) := by
  rcases hc with rfl | ⟨bc, rfl⟩ <;> rcases h1 with rfl | ⟨b1, rfl⟩ <;> rcases h2 with rfl | ⟨b2, rfl⟩ <;>
    first | rfl | (cases bc <;> rfl) | (cases b1 <;> rfl) | (cases b2 <;> rfl) | (cases bc <;> cases b1 <;> rfl)
          | (cases bc <;> cases b2 <;> rfl) | (cases b1 <;> cases b2 <;> rfl) | (cases bc <;> cases b1 <;> cases b2 <;> rfl)

theorem or_and_absorb (a b : Val) (ha : IsTV a) (hb : IsTV b) :
    (do Val.or3 (← Val.and3 a b) a) = .ok a := by
  rcases ha with rfl | ⟨x, rfl⟩ <;> rcases hb with rfl | ⟨y, rfl⟩ <;>
    first | rfl | (cases x <;> rfl) | (cases y <;> rfl) | (cases x <;> cases y <;> rfl)

end IQE.Rewrites
