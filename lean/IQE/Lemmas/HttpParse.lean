import IQE.Engine.HttpParse
import IQE.Lemmas.TextLemmas
namespace IQE.Engine.HttpParse
open IQE.Text IQE

/-! ### position4 and the slices -/

theorem position4_cons (a : UInt8) (t : List UInt8) :
    position4 (a :: t) = if startsTerm (a :: t) then some 0 else (position4 t).map (· + 1) := rfl

/-- the index found leaves room for the four terminator bytes: `raw[split + 4..]` is always in range -/
theorem position4_le : ∀ (raw : List UInt8) (s : Nat), position4 raw = some s → s + 4 ≤ raw.length
  | [], s, h => by simp [position4] at h
  | a :: t, s, h => by
    rw [position4_cons] at h
    split at h
    · rename_i hs
      injection h with h; subst h
      match t, hs with
      | b :: c :: d :: _, _ => simp
    · cases hp : position4 t with
      | none => rw [hp] at h; simp at h
      | some s' =>
        rw [hp] at h; simp at h; subst h
        have := position4_le t s' hp
        simp; omega

theorem startsTerm_append_of_true (l r : List UInt8) (h : startsTerm l = true) : startsTerm (l ++ r) = true := by
  match l, h with
  | a :: b :: c :: d :: _, h => simpa [startsTerm] using h

theorem startsTerm_append_of_len (l r : List UInt8) (h : 4 ≤ l.length) : startsTerm (l ++ r) = startsTerm l := by
  match l, h with
  | a :: b :: c :: d :: _, _ => simp [startsTerm]

/-- a prefix of a byte string without terminator has no terminator -/
theorem position4_prefix_none : ∀ (x y : List UInt8), position4 (x ++ y) = none → position4 x = none
  | [], _, _ => rfl
  | a :: t, y, h => by
    rw [List.cons_append, position4_cons] at h
    split at h
    · simp at h
    · rename_i hs
      have ht : position4 (t ++ y) = none := by
        cases hp : position4 (t ++ y) with
        | none => rfl
        | some _ => rw [hp] at h; simp at h
      have hs' : startsTerm (a :: t) = false := by
        cases hst : startsTerm (a :: t) with
        | false => rfl
        | true => exact absurd (startsTerm_append_of_true (a :: t) y hst) (by simpa using hs)
      rw [position4_cons, hs', position4_prefix_none t y ht]; rfl

/-- no terminator inside `h` nor across its end: the first terminator of `h ++ CRLFCRLF ++ rest` is at `h.length` -/
theorem position4_append : ∀ (h rest : List UInt8), position4 (h ++ [CR, LF, CR]) = none →
    position4 (h ++ CR :: LF :: CR :: LF :: rest) = some h.length
  | [], rest, _ => by simp [position4, startsTerm]
  | a :: t, rest, hn => by
    rw [List.cons_append, position4_cons] at hn
    split at hn
    · simp at hn
    · rename_i hs
      have ht : position4 (t ++ [CR, LF, CR]) = none := by
        cases hp : position4 (t ++ [CR, LF, CR]) with
        | none => rfl
        | some _ => rw [hp] at hn; simp at hn
      have e : a :: t ++ CR :: LF :: CR :: LF :: rest = (a :: (t ++ [CR, LF, CR])) ++ LF :: rest := by simp
      have hs2 : startsTerm (a :: t ++ CR :: LF :: CR :: LF :: rest) = false := by
        rw [e, startsTerm_append_of_len _ _ (by simp)]
        simpa using hs
      rw [List.cons_append] at hs2
      rw [List.cons_append, position4_cons, hs2, position4_append t rest ht]
      simp

/-- a run of bytes without CR is skipped -/
theorem position4_skip : ∀ (line rest : List UInt8), (∀ b ∈ line, b ≠ CR) →
    position4 (line ++ rest) = (position4 rest).map (· + line.length)
  | [], rest, _ => by simp
  | a :: t, rest, h => by
    have ha : a ≠ CR := h a (by simp)
    have hs : startsTerm (a :: (t ++ rest)) = false := by
      match hm : t ++ rest with
      | b :: c :: d :: _ => simp [startsTerm, ha]
      | [] => rfl
      | [_] => rfl
      | [_, _] => rfl
    rw [List.cons_append, position4_cons, hs, position4_skip t rest (fun b hb => h b (by simp [hb]))]
    cases position4 rest <;> simp; omega

/-- `CRLF` followed by a non-empty line that does not start with CR is no terminator -/
theorem position4_crlf_line (x : UInt8) (rest : List UInt8) (hx : x ≠ CR) (hx' : x ≠ LF) :
    position4 (CR :: LF :: x :: rest) = (position4 (x :: rest)).map (· + 2) := by
  have h1 : startsTerm (CR :: LF :: x :: rest) = false := by
    cases rest with
    | nil => rfl
    | cons d _ => simp [startsTerm, hx]
  have h2 : startsTerm (LF :: x :: rest) = false := by
    match rest with
    | [] => rfl
    | [_] => rfl
    | _ :: _ :: _ => simp [startsTerm, LF, CR]
  rw [position4_cons, h1, position4_cons, h2]
  cases position4 (x :: rest) <;> simp

/-- splitting at the first terminator -/
theorem parse_split (dev : Dev) (head body : List UInt8) (hn : position4 (head ++ [CR, LF, CR]) = none) :
    parse dev (head ++ (crlf ++ crlf ++ body)) = finish dev head body := by
  have hp := position4_append head body hn
  have e : head ++ (crlf ++ crlf ++ body) = head ++ CR :: LF :: CR :: LF :: body := by simp [crlf]
  unfold parse
  rw [e, hp]
  simp only [sliceTo, sliceFrom, List.length_append, List.length_cons]
  have h1 : head.length ≤ head.length + (body.length + 1 + 1 + 1 + 1) := by omega
  have h2 : head.length + 4 ≤ head.length + (body.length + 1 + 1 + 1 + 1) := by omega
  simp only [h1, h2, if_true]
  have t1 : List.take head.length (head ++ CR :: LF :: CR :: LF :: body) = head := by simp
  have t2 : List.drop (head.length + 4) (head ++ CR :: LF :: CR :: LF :: body) = body := by
    rw [← List.drop_drop]; simp
  rw [t1, t2]

/-! ### checkLengths -/

theorem checkLengths_none (n : Nat) : ∀ hs : List (List Char × List Char),
    checkLengths n hs = none ↔ ∀ kv ∈ hs, kv.1 = contentLength → ∃ m, parseUsize kv.2 = some m ∧ m ≤ n
  | [] => by simp [checkLengths]
  | (k, v) :: rest => by
    have ih := checkLengths_none n rest
    unfold checkLengths
    by_cases hk : k = contentLength
    · simp only [hk, beq_self_eq_true, if_true]
      cases hv : parseUsize v with
      | none =>
        simp only [reduceCtorEq, false_iff]
        intro h
        obtain ⟨m, hm, _⟩ := h (contentLength, v) (by simp) rfl
        simp [hv] at hm
      | some m =>
        simp only
        by_cases hlt : n < m
        · simp only [hlt, if_true, reduceCtorEq, false_iff]
          intro h
          obtain ⟨m', hm', hle⟩ := h (contentLength, v) (by simp) rfl
          rw [hv] at hm'; injection hm' with hm'; omega
        · simp only [hlt, if_false, ih]
          constructor
          · intro h kv hkv
            rcases List.mem_cons.1 hkv with rfl | hkv
            · intro _; exact ⟨m, hv, by omega⟩
            · exact h kv hkv
          · intro h kv hkv; exact h kv (List.mem_cons_of_mem _ hkv)
    · have : (k == contentLength) = false := by simpa using hk
      simp only [this, Bool.false_eq_true, if_false, ih]
      constructor
      · intro h kv hkv
        rcases List.mem_cons.1 hkv with rfl | hkv
        · intro hc; exact absurd hc hk
        · exact h kv hkv
      · intro h kv hkv; exact h kv (List.mem_cons_of_mem _ hkv)

/-! ### the lines of a rendered head -/

def headerLine (kv : List Char × List Char) : List Char := kv.1 ++ ':' :: ' ' :: kv.2

/-- lines of `first ++ Σ (CRLF ++ line kv)` as `split(b'\n')` sees them: all but the last keep their CR -/
def linesOf (first : List Char) : List (List Char × List Char) → List (List Char)
  | [] => [first]
  | kv :: rest => (first ++ ['\r']) :: linesOf (headerLine kv) rest

theorem lineText_ascii (l : List Char) (h : lineText l = true) : l.all isAscii = true := by
  rw [lineText, List.all_eq_true] at h
  rw [List.all_eq_true]
  intro c hc
  have := h c hc
  simp only [Bool.and_eq_true] at this
  exact this.1.1

theorem lineText_noLF (l : List Char) (h : lineText l = true) : ∀ c ∈ l, c ≠ '\n' := by
  rw [lineText, List.all_eq_true] at h
  intro c hc
  have := h c hc
  simp only [Bool.and_eq_true, bne_iff_ne] at this
  exact this.2

theorem lineText_noCR (l : List Char) (h : lineText l = true) : ∀ c ∈ l, c ≠ '\r' := by
  rw [lineText, List.all_eq_true] at h
  intro c hc
  have := h c hc
  simp only [Bool.and_eq_true, bne_iff_ne] at this
  exact this.1.2

theorem lineText_append (a b : List Char) : lineText (a ++ b) = (lineText a && lineText b) := by
  simp [lineText]

theorem lineText_headerLine (kv : List Char × List Char) (h : headerOk kv = true) : lineText (headerLine kv) = true := by
  simp only [headerOk, Bool.and_eq_true] at h
  have : lineText [':', ' '] = true := by decide
  have e : headerLine kv = kv.1 ++ ([':', ' '] ++ kv.2) := by simp [headerLine]
  rw [e, lineText_append, lineText_append, h.1.1.1.1.1, this, h.1.2]; rfl

theorem LF_eq : LF = '\n'.toNat.toUInt8 := by decide
theorem CR_eq : CR = '\r'.toNat.toUInt8 := by decide

theorem splitByte_rendered : ∀ (hs : List (List Char × List Char)) (first : List Char), lineText first = true →
    hs.all headerOk = true →
    splitByte LF (Utf8.asciiBytes first ++ hs.flatMap (fun kv => crlf ++ Utf8.asciiBytes (headerLine kv))) =
      (linesOf first hs).map Utf8.asciiBytes
  | [], first, hf, _ => by
    simp only [List.flatMap_nil, List.append_nil, linesOf, List.map_cons, List.map_nil]
    apply splitByte_noSep
    rw [LF_eq]
    exact asciiBytes_ne first '\n' (by decide) (lineText_ascii first hf) (lineText_noLF first hf)
  | kv :: rest, first, hf, hh => by
    simp only [List.all_cons, Bool.and_eq_true] at hh
    have ih := splitByte_rendered rest (headerLine kv) (lineText_headerLine kv hh.1) hh.2
    have hf' : lineText (first ++ ['\r']) = true → False := by
      intro h; rw [lineText_append] at h; simp [lineText] at h
    have e : Utf8.asciiBytes first ++ (kv :: rest).flatMap (fun kv => crlf ++ Utf8.asciiBytes (headerLine kv)) =
        Utf8.asciiBytes (first ++ ['\r']) ++ LF :: (Utf8.asciiBytes (headerLine kv) ++ rest.flatMap (fun kv => crlf ++ Utf8.asciiBytes (headerLine kv))) := by
      simp [crlf, asciiBytes_append, Utf8.asciiBytes, CR_eq]
    rw [e, splitByte_append, ih]
    · simp [linesOf]
    · rw [LF_eq]
      apply asciiBytes_ne (first ++ ['\r']) '\n' (by decide)
      · rw [List.all_append, lineText_ascii first hf]; decide
      · intro c hc
        rcases List.mem_append.1 hc with h | h
        · exact lineText_noLF first hf c h
        · simp at h; subst h; decide

/-! ### status line and header lines -/

def statusLine (st reason : List Char) : List Char := ['H', 'T', 'T', 'P', '/', '1', '.', '1', ' '] ++ st ++ ' ' :: reason

theorem digit_not_ws (c : Char) (h : isDigit c = true) : isWs c = false := by
  simp only [isDigit, Bool.and_eq_true, decide_eq_true_eq] at h
  have h1 : '0'.toNat = 48 := by decide
  have h2 : '9'.toNat = 57 := by decide
  rw [h1, h2] at h
  simp only [isWs, Bool.or_eq_false_iff, Bool.and_eq_false_iff, decide_eq_false_iff_not, beq_eq_false_iff_ne]
  omega

theorem digit_ascii (c : Char) (h : isDigit c = true) : isAscii c = true := by
  simp only [isDigit, Bool.and_eq_true, decide_eq_true_eq] at h
  have h2 : '9'.toNat = 57 := by decide
  rw [h2] at h
  simp [isAscii]; omega

theorem parseStatus_rendered (st reason suf : List Char) (hs : statusOk st = true) (hr : lineText reason = true)
    (hsuf : suf = [] ∨ suf = ['\r']) :
    parseStatus (Utf8.asciiBytes (statusLine st reason ++ suf)) = some (decVal st) := by
  simp only [statusOk, Bool.and_eq_true, Bool.not_eq_true', decide_eq_true_eq] at hs
  obtain ⟨⟨hne, hd⟩, hv⟩ := hs
  have hdig := List.all_eq_true.1 hd
  have hasc : (statusLine st reason ++ suf).all isAscii = true := by
    simp only [statusLine, List.all_append, List.all_cons, Bool.and_eq_true]
    refine ⟨⟨⟨by decide, ?_⟩, by decide, lineText_ascii reason hr⟩, ?_⟩
    · rw [List.all_eq_true]; intro c hc; exact digit_ascii c (hdig c hc)
    · rcases hsuf with rfl | rfl <;> decide
  unfold parseStatus
  rw [decodeLossy_asciiBytes _ hasc]
  have e : statusLine st reason ++ suf = ['H', 'T', 'T', 'P', '/', '1', '.', '1'] ++ ' ' :: (st ++ ' ' :: (reason ++ suf)) := by
    simp [statusLine]
  have hst : st ≠ [] := by intro h; subst h; simp at hne
  rw [e, splitWhitespace, splitWsGo_token _ ' ' _ [] (by decide) (by decide) (by simp),
      splitWsGo_token st ' ' _ [] (fun x hx => digit_not_ws x (hdig x hx)) (by decide) (by simpa using hst)]
  simp only [List.reverse_nil, List.nil_append, List.getElem?_cons_succ, List.getElem?_cons_zero]
  unfold parseU16
  exact parseUnsigned_digits _ st hne hd hv

theorem parseHeader_rendered (kv : List Char × List Char) (suf : List Char) (h : headerOk kv = true)
    (hsuf : suf = [] ∨ suf = ['\r']) :
    parseHeader (Utf8.asciiBytes (headerLine kv ++ suf)) = some (asciiLower kv.1, kv.2) := by
  have hl := lineText_headerLine kv h
  simp only [headerOk, Bool.and_eq_true] at h
  obtain ⟨⟨⟨⟨⟨h1, _⟩, h3⟩, h4⟩, _⟩, h6⟩ := h
  have hasc : (headerLine kv ++ suf).all isAscii = true := by
    rw [List.all_append, lineText_ascii _ hl]
    rcases hsuf with rfl | rfl <;> decide
  unfold parseHeader
  rw [decodeLossy_asciiBytes _ hasc]
  have e : headerLine kv ++ suf = kv.1 ++ ':' :: (' ' :: kv.2 ++ suf) := by simp [headerLine]
  have hcolon : ∀ x ∈ kv.1, x ≠ ':' := by
    intro x hx
    have := List.all_eq_true.1 h3 x hx
    simpa using this
  rw [e, splitOnce_first ':' kv.1 _ hcolon]
  simp only
  rw [trim_self kv.1 h4]
  have : trim (' ' :: kv.2 ++ suf) = kv.2 := by
    have := trim_edge [' '] kv.2 suf (by decide) (by rcases hsuf with rfl | rfl <;> decide) h6
    simpa using this
  rw [this]

/-- status line and headers recovered from the lines of a rendered head -/
theorem lines_rendered : ∀ (hs : List (List Char × List Char)) (first : List Char), hs.all headerOk = true →
    ((linesOf first hs).map Utf8.asciiBytes).head? =
        some (Utf8.asciiBytes (first ++ (if hs.isEmpty then [] else ['\r']))) ∧
    ∀ kv0, first = headerLine kv0 → headerOk kv0 = true →
      ((linesOf first hs).map Utf8.asciiBytes).filterMap parseHeader = lowerHeaders (kv0 :: hs)
  | [], first, _ => by
    refine ⟨by simp [linesOf], ?_⟩
    intro kv0 hf h0
    subst hf
    have := parseHeader_rendered kv0 [] h0 (Or.inl rfl)
    simp only [List.append_nil] at this
    simp [linesOf, lowerHeaders, this]
  | kv :: rest, first, hh => by
    simp only [List.all_cons, Bool.and_eq_true] at hh
    refine ⟨by simp [linesOf], ?_⟩
    intro kv0 hf h0
    subst hf
    have h1 := parseHeader_rendered kv0 ['\r'] h0 (Or.inr rfl)
    have ih := (lines_rendered rest (headerLine kv) hh.2).2 kv rfl hh.1
    simp only [linesOf, List.map_cons, List.filterMap_cons, h1, ih, lowerHeaders, List.map_cons]

theorem drop1_lines (hs : List (List Char × List Char)) (first : List Char) (hh : hs.all headerOk = true) :
    (((linesOf first hs).map Utf8.asciiBytes).drop 1).filterMap parseHeader = lowerHeaders hs := by
  cases hs with
  | nil => simp [linesOf, lowerHeaders]
  | cons kv rest =>
    simp only [List.all_cons, Bool.and_eq_true] at hh
    have := (lines_rendered rest (headerLine kv) hh.2).2 kv rfl hh.1
    simpa [linesOf] using this

/-- what `finish` computes on a rendered head -/
theorem finish_rendered (dev : Dev) (st reason : List Char) (hs : List (List Char × List Char)) (body : List UInt8)
    (h1 : statusOk st = true) (h2 : lineText reason = true) (h3 : hs.all headerOk = true) :
    finish dev (renderHead st reason hs) body =
      if dev.ignoreContentLength then .ok ⟨decVal st, lowerHeaders hs, body⟩
      else match checkLengths body.length (lowerHeaders hs) with
        | some e => .error e
        | none => .ok ⟨decVal st, lowerHeaders hs, body⟩ := by
  have hfirst : lineText (statusLine st reason) = true := by
    simp only [statusOk, Bool.and_eq_true] at h1
    have hd : lineText st = true := by
      rw [lineText, List.all_eq_true]
      intro c hc
      have hdg := List.all_eq_true.1 h1.1.2 c hc
      have ha := digit_ascii c hdg
      simp only [isDigit, Bool.and_eq_true, decide_eq_true_eq] at hdg
      have e1 : '0'.toNat = 48 := by decide
      rw [e1] at hdg
      have n1 : c ≠ '\r' := by intro h; subst h; revert hdg; decide
      have n2 : c ≠ '\n' := by intro h; subst h; revert hdg; decide
      simp [ha, n1, n2]
    have e : statusLine st reason = ['H', 'T', 'T', 'P', '/', '1', '.', '1', ' '] ++ (st ++ ([' '] ++ reason)) := by simp [statusLine]
    rw [e, lineText_append, lineText_append, lineText_append, hd, h2]; decide
  have hsplit := splitByte_rendered hs (statusLine st reason) hfirst h3
  have hrh : renderHead st reason hs = Utf8.asciiBytes (statusLine st reason) ++ hs.flatMap (fun kv => crlf ++ Utf8.asciiBytes (headerLine kv)) := by
    simp [renderHead, statusLine, headerLine]
  unfold finish
  simp only
  rw [hrh, hsplit, (lines_rendered hs (statusLine st reason) h3).1]
  simp only
  rw [parseStatus_rendered st reason _ h1 h2 (by cases hs <;> simp)]
  simp only
  rw [drop1_lines hs _ h3]
  rfl

/-- a rendered head contains no terminator, not even across its end -/
theorem renderHead_noTerm (st reason : List Char) (hs : List (List Char × List Char))
    (h1 : statusOk st = true) (h2 : lineText reason = true) (h3 : hs.all headerOk = true) :
    position4 (renderHead st reason hs ++ [CR, LF, CR]) = none := by
  have noCR : ∀ l : List Char, lineText l = true → ∀ b ∈ Utf8.asciiBytes l, b ≠ CR := by
    intro l hl
    rw [CR_eq]
    exact asciiBytes_ne l '\r' (by decide) (lineText_ascii l hl) (lineText_noCR l hl)
  have noLF : ∀ l : List Char, lineText l = true → ∀ b ∈ Utf8.asciiBytes l, b ≠ LF := by
    intro l hl
    rw [LF_eq]
    exact asciiBytes_ne l '\n' (by decide) (lineText_ascii l hl) (lineText_noLF l hl)
  have tail : ∀ hs : List (List Char × List Char), hs.all headerOk = true →
      position4 (hs.flatMap (fun kv => crlf ++ Utf8.asciiBytes (headerLine kv)) ++ [CR, LF, CR]) = none := by
    intro hs
    induction hs with
    | nil => intro _; decide
    | cons kv rest ih =>
      intro hh
      simp only [List.all_cons, Bool.and_eq_true] at hh
      have hl := lineText_headerLine kv hh.1
      have hne : Utf8.asciiBytes (headerLine kv) ≠ [] := by
        simp only [headerOk, Bool.and_eq_true, Bool.not_eq_true'] at hh
        have : kv.1 ≠ [] := by intro h; simp [h] at hh
        cases hk : kv.1 with
        | nil => exact absurd hk this
        | cons c t => simp [headerLine, hk, Utf8.asciiBytes]
      cases hb : Utf8.asciiBytes (headerLine kv) with
      | nil => exact absurd hb hne
      | cons x xs =>
        have hx1 : x ≠ CR := noCR _ hl x (by rw [hb]; simp)
        have hx2 : x ≠ LF := noLF _ hl x (by rw [hb]; simp)
        have hskip := position4_skip (x :: xs) (rest.flatMap (fun kv => crlf ++ Utf8.asciiBytes (headerLine kv)) ++ [CR, LF, CR])
          (by intro b hb'; exact noCR _ hl b (by rw [hb]; exact hb'))
        rw [ih hh.2] at hskip
        simp only [List.flatMap_cons, hb, List.append_assoc]
        have e : crlf ++ (x :: xs ++ (rest.flatMap (fun kv => crlf ++ Utf8.asciiBytes (headerLine kv)) ++ [CR, LF, CR])) =
            CR :: LF :: x :: (xs ++ (rest.flatMap (fun kv => crlf ++ Utf8.asciiBytes (headerLine kv)) ++ [CR, LF, CR])) := by
          simp [crlf]
        rw [e, position4_crlf_line x _ hx1 hx2]
        simp only [List.cons_append, List.append_assoc] at hskip
        rw [hskip]; rfl
  have hfirst : ∀ b ∈ Utf8.asciiBytes (statusLine st reason), b ≠ CR := by
    apply noCR
    simp only [statusOk, Bool.and_eq_true] at h1
    have hd : lineText st = true := by
      rw [lineText, List.all_eq_true]
      intro c hc
      have hdg := List.all_eq_true.1 h1.1.2 c hc
      have ha := digit_ascii c hdg
      simp only [isDigit, Bool.and_eq_true, decide_eq_true_eq] at hdg
      have e1 : '0'.toNat = 48 := by decide
      rw [e1] at hdg
      have n1 : c ≠ '\r' := by intro h; subst h; revert hdg; decide
      have n2 : c ≠ '\n' := by intro h; subst h; revert hdg; decide
      simp [ha, n1, n2]
    have e : statusLine st reason = ['H', 'T', 'T', 'P', '/', '1', '.', '1', ' '] ++ (st ++ ([' '] ++ reason)) := by simp [statusLine]
    rw [e, lineText_append, lineText_append, lineText_append, hd, h2]; decide
  have hrh : renderHead st reason hs = Utf8.asciiBytes (statusLine st reason) ++ hs.flatMap (fun kv => crlf ++ Utf8.asciiBytes (headerLine kv)) := by
    simp [renderHead, statusLine, headerLine]
  rw [hrh, List.append_assoc, position4_skip _ _ hfirst, tail hs h3]; rfl

end IQE.Engine.HttpParse
