import IQE.Engine.StatsFold
namespace IQE.Engine.StatsFold

/-! helper lemmas for C18 (fold invariants, generalised over the start accumulator) -/

theorem nulls_append (a b : List (Option Int)) : nulls (a ++ b) = nulls a + nulls b := by
  simp [nulls, List.filter_append]

theorem nulls_le_length (vs : List (Option Int)) : nulls vs ≤ vs.length := by
  simp only [nulls]; exact List.length_filter_le _ _

/-- a value list whose NULL count equals its length holds no non-NULL value -/
theorem all_none_of_nulls_eq_length : ∀ (vs : List (Option Int)), nulls vs = vs.length → ∀ v, some v ∉ vs := by
  intro vs
  induction vs with
  | nil => intro _ v; simp
  | cons x xs ih =>
    intro h v hv
    cases x with
    | none =>
      have h' : nulls xs = xs.length := by simpa [nulls] using h
      rcases List.mem_cons.1 hv with h0 | h1
      · cases h0
      · exact ih h' v h1
    | some y =>
      have h1 : nulls (some y :: xs) = nulls xs := by simp [nulls]
      have := nulls_le_length xs
      simp only [List.length_cons] at h
      omega

theorem step_nullCount (dev : Dev) (a : Acc) (c : Chunk) :
    (step dev a c).nullCount = addNulls a.nullCount c.nullCount := by
  unfold step; cases c.eff dev with
  | none => rfl
  | some p => rfl

/-- null counts: the fold's `nullCount` is `some n` only if the start was `some n0`, every chunk reported,
    and then `n` is `n0` plus the reported counts. -/
theorem fold_nullCount_some (dev : Dev) : ∀ (cs : List Chunk) (a : Acc) (n : Nat),
    (cs.foldl (step dev) a).nullCount = some n →
    ∃ n0, a.nullCount = some n0 ∧ (∀ c ∈ cs, c.nullCount.isSome) ∧
      n = n0 + (cs.map (fun c => c.nullCount.getD 0)).sum := by
  intro cs
  induction cs with
  | nil => intro a n h; exact ⟨n, by simpa using h, by simp, by simp⟩
  | cons c cs ih =>
    intro a n h
    simp only [List.foldl_cons] at h
    obtain ⟨n1, h1, hall, hn⟩ := ih _ _ h
    rw [step_nullCount] at h1
    unfold addNulls at h1
    split at h1
    · rename_i k t hk ht
      refine ⟨t, ht, ?_, ?_⟩
      · intro c' hc'
        rcases List.mem_cons.1 hc' with rfl | h2
        · simp [hk]
        · exact hall c' h2
      · simp only [Option.some.injEq] at h1
        simp [hk, hn, ← h1]; omega
    · cases h1

theorem fold_nullCount_all (dev : Dev) : ∀ (cs : List Chunk) (a : Acc) (n0 : Nat),
    a.nullCount = some n0 → (∀ c ∈ cs, c.nullCount.isSome) →
    (cs.foldl (step dev) a).nullCount = some (n0 + (cs.map (fun c => c.nullCount.getD 0)).sum) := by
  intro cs
  induction cs with
  | nil => intro a n0 h _; simpa using h
  | cons c cs ih =>
    intro a n0 h hall
    simp only [List.foldl_cons]
    have hc := hall c List.mem_cons_self
    obtain ⟨k, hk⟩ := Option.isSome_iff_exists.1 hc
    have h1 : (step dev a c).nullCount = some (n0 + k) := by
      rw [step_nullCount, h, hk]; rfl
    rw [ih _ _ h1 (fun c' hc' => hall c' (List.mem_cons_of_mem _ hc'))]
    simp [hk]; omega

theorem sum_reported_eq_nulls : ∀ (cs : List Chunk),
    (∀ c ∈ cs, ∀ k, c.nullCount = some k → k = nulls c.values) → (∀ c ∈ cs, c.nullCount.isSome) →
    (cs.map (fun c => c.nullCount.getD 0)).sum = nulls (cs.flatMap (·.values)) := by
  intro cs
  induction cs with
  | nil => intro _ _; simp [nulls]
  | cons c cs ih =>
    intro hs hall
    obtain ⟨k, hk⟩ := Option.isSome_iff_exists.1 (hall c List.mem_cons_self)
    have := hs c List.mem_cons_self k hk
    simp only [List.map_cons, List.sum_cons, List.flatMap_cons, nulls_append]
    rw [ih (fun c' hc' => hs c' (List.mem_cons_of_mem _ hc')) (fun c' hc' => hall c' (List.mem_cons_of_mem _ hc'))]
    simp [hk, this]

/-! min / max -/

theorem optMin_le_left (a : Option Int) (x : Int) : optMin a x ≤ x := by
  unfold optMin; split
  · exact Int.le_refl _
  · split <;> omega

theorem optMin_le_acc (m x : Int) : optMin (some m) x ≤ m := by
  unfold optMin; simp only; split <;> omega

theorem optMax_ge_left (a : Option Int) (x : Int) : x ≤ optMax a x := by
  unfold optMax; split
  · exact Int.le_refl _
  · split <;> omega

theorem optMax_ge_acc (m x : Int) : m ≤ optMax (some m) x := by
  unfold optMax; simp only; split <;> omega

theorem step_min_mono (dev : Dev) (a : Acc) (c : Chunk) (m0 : Int) (h : a.min = some m0) :
    ∃ m, (step dev a c).min = some m ∧ m ≤ m0 := by
  unfold step
  cases hmm : c.eff dev with
  | none => exact ⟨m0, by simpa using h, Int.le_refl _⟩
  | some p =>
    obtain ⟨lo, hi⟩ := p
    refine ⟨optMin a.min lo, rfl, ?_⟩
    rw [h]; exact optMin_le_acc _ _

theorem step_max_mono (dev : Dev) (a : Acc) (c : Chunk) (m0 : Int) (h : a.max = some m0) :
    ∃ m, (step dev a c).max = some m ∧ m0 ≤ m := by
  unfold step
  cases hmm : c.eff dev with
  | none => exact ⟨m0, by simpa using h, Int.le_refl _⟩
  | some p =>
    obtain ⟨lo, hi⟩ := p
    refine ⟨optMax a.max hi, rfl, ?_⟩
    rw [h]; exact optMax_ge_acc _ _

theorem fold_min_mono (dev : Dev) : ∀ (cs : List Chunk) (a : Acc) (m0 : Int), a.min = some m0 →
    ∃ m, (cs.foldl (step dev) a).min = some m ∧ m ≤ m0 := by
  intro cs
  induction cs with
  | nil => intro a m0 h; exact ⟨m0, by simpa using h, Int.le_refl _⟩
  | cons c cs ih =>
    intro a m0 h
    obtain ⟨m1, h1, hle⟩ := step_min_mono dev a c m0 h
    obtain ⟨m, hm, hle2⟩ := ih _ m1 h1
    exact ⟨m, by simpa using hm, Int.le_trans hle2 hle⟩

theorem fold_max_mono (dev : Dev) : ∀ (cs : List Chunk) (a : Acc) (m0 : Int), a.max = some m0 →
    ∃ m, (cs.foldl (step dev) a).max = some m ∧ m0 ≤ m := by
  intro cs
  induction cs with
  | nil => intro a m0 h; exact ⟨m0, by simpa using h, Int.le_refl _⟩
  | cons c cs ih =>
    intro a m0 h
    obtain ⟨m1, h1, hle⟩ := step_max_mono dev a c m0 h
    obtain ⟨m, hm, hle2⟩ := ih _ m1 h1
    exact ⟨m, by simpa using hm, Int.le_trans hle hle2⟩

theorem step_void_mono (dev : Dev) (a : Acc) (c : Chunk) (h : (step dev a c).void = false) : a.void = false := by
  unfold step at h
  cases hmm : c.eff dev with
  | none => rw [hmm] at h; simp only [Bool.or_eq_false_iff] at h; exact h.1
  | some p => rw [hmm] at h; exact h

theorem fold_void_mono (dev : Dev) : ∀ (cs : List Chunk) (a : Acc), (cs.foldl (step dev) a).void = false → a.void = false := by
  intro cs
  induction cs with
  | nil => intro a h; exact h
  | cons c cs ih => intro a h; exact step_void_mono dev a c (ih _ h)

/-- Main invariant of the intended algorithm: if the fold ends un-voided, every chunk either reported
    (lo,hi) and the folded [min,max] contains [lo,hi], or is provably all-NULL. -/
theorem fold_covers (dev : Dev) (hdev : dev.statslessKeepsMinMax = false) : ∀ (cs : List Chunk) (a : Acc),
    (cs.foldl (step dev) a).void = false →
    ∀ c ∈ cs, (∀ lo hi, c.eff dev = some (lo, hi) →
        ∃ m M, (cs.foldl (step dev) a).min = some m ∧ (cs.foldl (step dev) a).max = some M ∧ m ≤ lo ∧ hi ≤ M)
      ∧ (c.eff dev = none → c.allNull = true) := by
  intro cs
  induction cs with
  | nil => intro a _ c hc; cases hc
  | cons c0 cs ih =>
    intro a hv c hc
    simp only [List.foldl_cons] at hv ⊢
    rcases List.mem_cons.1 hc with rfl | hin
    · have hv1 : (step dev a c).void = false := fold_void_mono dev cs _ hv
      constructor
      · intro lo hi hmm
        have hmin : (step dev a c).min = some (optMin a.min lo) := by unfold step; rw [hmm]
        have hmax : (step dev a c).max = some (optMax a.max hi) := by unfold step; rw [hmm]
        obtain ⟨m, hm, hle⟩ := fold_min_mono dev cs _ _ hmin
        obtain ⟨M, hM, hge⟩ := fold_max_mono dev cs _ _ hmax
        exact ⟨m, M, hm, hM, Int.le_trans hle (optMin_le_left _ _), Int.le_trans (optMax_ge_left _ _) hge⟩
      · intro hmm
        unfold step at hv1
        rw [hmm] at hv1
        simp only [hdev, Bool.not_false, Bool.true_and, Bool.or_eq_false_iff, Bool.not_eq_false'] at hv1
        exact hv1.2
    · exact ih _ hv c hin

/-- what `finishCol` publishes -/
theorem finishCol_fields (dev : Dev) (total : Nat) (a : Acc) (s : ColStats) (h : finishCol dev total a = .ok s) :
    s.min = (if a.void then none else a.min) ∧ s.max = (if a.void then none else a.max) ∧ s.nullCount = a.nullCount := by
  unfold finishCol at h
  simp only at h
  split at h
  · cases h
  · injection h with h; subst h; exact ⟨rfl, rfl, rfl⟩

theorem ndvOf_no_panic (dev : Dev) (hdev : dev.ndvRangeOverflow = false) (nn : Nat) (b : Bool) (mn mx : Option Int) :
    ndvOf dev nn b mn mx ≠ .panic := by
  unfold ndvOf
  simp only [hdev, Bool.false_and]
  repeat' split
  all_goals simp_all

theorem finishCol_no_panic (dev : Dev) (hdev : dev.ndvRangeOverflow = false) (total : Nat) (a : Acc) :
    finishCol dev total a ≠ .panic := by
  unfold finishCol
  simp only
  split
  · rename_i h; exact absurd h (ndvOf_no_panic dev hdev _ _ _ _)
  · simp

theorem collect_mem : ∀ (l : List (String × Outcome ColStats)) (l' : List (String × ColStats)),
    collect l = .ok l' → ∀ n s, (n, s) ∈ l' → (n, Outcome.ok s) ∈ l := by
  intro l
  induction l with
  | nil => intro l' h n s hm; simp [collect] at h; subst h; cases hm
  | cons x xs ih =>
    intro l' h n s hm
    obtain ⟨n0, o⟩ := x
    cases o with
    | panic => simp [collect] at h
    | ok s0 =>
      simp only [collect] at h
      cases hc : collect xs with
      | panic => rw [hc] at h; cases h
      | ok l1 =>
        rw [hc] at h
        injection h with h; subst h
        rcases List.mem_cons.1 hm with h0 | h1
        · injection h0 with ha hb; subst ha; subst hb; exact List.mem_cons_self
        · exact List.mem_cons_of_mem _ (ih l1 hc n s h1)

theorem collect_no_panic : ∀ (l : List (String × Outcome ColStats)), (∀ p ∈ l, p.2 ≠ .panic) → collect l ≠ .panic := by
  intro l
  induction l with
  | nil => intro _; simp [collect]
  | cons x xs ih =>
    intro h
    obtain ⟨n0, o⟩ := x
    cases o with
    | panic => exact absurd rfl (h (n0, .panic) List.mem_cons_self)
    | ok s0 =>
      simp only [collect]
      have := ih (fun p hp => h p (List.mem_cons_of_mem _ hp))
      cases hc : collect xs with
      | panic => exact absurd hc this
      | ok l1 => simp

/-- `eff` depends on the switches only through `unsignedAsSigned` -/
theorem eff_eq (dev : Dev) (h : dev.unsignedAsSigned = false) (c : Chunk) : c.eff dev = c.eff {} := by
  unfold Chunk.eff; simp [h]

end IQE.Engine.StatsFold
