/-
  IQE.Lemmas.Schema — type soundness of the reference plan interpreter `Spec.run` w.r.t. `Spec.schemaOf` (C30):
  every row of a successful run conforms to the static schema, and a typed plan never ends in a static error.
-/
import IQE.Lemmas.Typing
import IQE.Spec.Schema
namespace IQE.Spec
open IQE

/-! ### monadic list combinators preserve `Safe` -/

theorem Safe.mapM {α β : Type} {Q : β → Prop} (f : α → Except Err β) :
    ∀ xs : List α, (∀ x ∈ xs, Safe Q (f x)) → Safe (fun ys => ∀ y ∈ ys, Q y) (xs.mapM f)
  | [], _ => by
    rw [List.mapM_nil]; intro y hy; cases hy
  | x :: xs, h => by
    rw [List.mapM_cons]
    refine Safe.bind (h x (by simp)) (fun y hy => ?_)
    refine Safe.bind (Safe.mapM f xs (fun z hz => h z (by simp [hz]))) (fun ys hys => ?_)
    intro z hz
    rcases List.mem_cons.1 hz with rfl | hz
    · exact hy
    · exact hys z hz

theorem Safe.filterMapM {α β : Type} {Q : β → Prop} (f : α → Except Err (Option β)) :
    ∀ xs : List α, (∀ x ∈ xs, Safe (fun o => ∀ y, o = some y → Q y) (f x)) →
      Safe (fun ys => ∀ y ∈ ys, Q y) (xs.filterMapM f)
  | [], _ => by
    rw [List.filterMapM_nil]; intro y hy; cases hy
  | x :: xs, h => by
    rw [List.filterMapM_cons]
    refine Safe.bind (h x (by simp)) (fun o ho => ?_)
    have ih := Safe.filterMapM f xs (fun z hz => h z (by simp [hz]))
    cases o with
    | none => exact ih
    | some b =>
      refine Safe.bind ih (fun ys hys => ?_)
      intro z hz
      rcases List.mem_cons.1 hz with rfl | hz
      · exact ho _ rfl
      · exact hys z hz

theorem Safe.foldlM {α β : Type} {I : β → Prop} (f : β → α → Except Err β) :
    ∀ (xs : List α) (init : β), I init → (∀ acc x, I acc → x ∈ xs → Safe I (f acc x)) → Safe I (xs.foldlM f init)
  | [], init, hi, _ => by rw [List.foldlM_nil]; exact hi
  | x :: xs, init, hi, h => by
    rw [List.foldlM_cons]
    refine Safe.bind (h init x hi (by simp)) (fun acc hacc => ?_)
    exact Safe.foldlM f xs acc hacc (fun a y ha hy => h a y ha (by simp [hy]))

/-! ### rows, tables -/

def TableOk (ts : List Ty) (t : Table) : Prop := ∀ r ∈ t, rowHasTys r ts = true

def TablesOk : List Table → List (List Ty) → Prop
  | [], [] => True
  | t :: ts, s :: ss => TableOk s t ∧ TablesOk ts ss
  | _, _ => False

theorem TablesOk_get : ∀ (tbs : List Table) (tys : List (List Ty)) (i : Nat) (ts : List Ty), TablesOk tbs tys →
    tys[i]? = some ts → ∃ tb, tbs[i]? = some tb ∧ TableOk ts tb
  | [], [], i, ts, _, h => by simp at h
  | [], _ :: _, _, _, h, _ => by simp [TablesOk] at h
  | _ :: _, [], _, _, h, _ => by simp [TablesOk] at h
  | t :: tbs, s :: tys, 0, ts, h, hi => by
    simp at hi; subst hi; exact ⟨t, by simp, h.1⟩
  | t :: tbs, s :: tys, i + 1, ts, h, hi => by
    simp at hi; simpa using TablesOk_get tbs tys i ts h.2 hi

theorem TablesOk_snoc : ∀ (tbs : List Table) (tys : List (List Ty)) (t : Table) (s : List Ty), TablesOk tbs tys → TableOk s t →
    TablesOk (tbs ++ [t]) (tys ++ [s])
  | [], [], t, s, _, h => by simp [TablesOk, h]
  | [], _ :: _, _, _, h, _ => by simp [TablesOk] at h
  | _ :: _, [], _, _, h, _ => by simp [TablesOk] at h
  | a :: tbs, b :: tys, t, s, h, ht => by
    simp only [List.cons_append, TablesOk]
    exact ⟨h.1, TablesOk_snoc tbs tys t s h.2 ht⟩

theorem rowHasTys_append : ∀ (a : Row) (ts : List Ty) (b : Row) (us : List Ty), rowHasTys a ts = true → rowHasTys b us = true →
    rowHasTys (a ++ b) (ts ++ us) = true
  | [], [], b, us, _, hb => by simpa using hb
  | [], _ :: _, _, _, h, _ => by simp [rowHasTys] at h
  | _ :: _, [], _, _, h, _ => by simp [rowHasTys] at h
  | v :: a, t :: ts, b, us, h, hb => by
    simp [rowHasTys] at h ⊢
    exact ⟨h.1, rowHasTys_append a ts b us h.2 hb⟩

theorem rowHasTys_nulls : ∀ (ts : List Ty), rowHasTys (nulls ts.length) ts = true
  | [] => by simp [nulls, rowHasTys]
  | t :: ts => by
    have := rowHasTys_nulls ts
    simp [nulls, List.replicate_succ, rowHasTys, valHasTy] at this ⊢
    exact this

theorem rowHasTys_length : ∀ (r : Row) (ts : List Ty), rowHasTys r ts = true → r.length = ts.length
  | [], [], _ => rfl
  | [], _ :: _, h => by simp [rowHasTys] at h
  | _ :: _, [], h => by simp [rowHasTys] at h
  | v :: r, t :: ts, h => by
    simp [rowHasTys] at h; simp [rowHasTys_length r ts h.2]

theorem rowHasTys_of_definite : ∀ (vs : List Val) (σs : List STy) (ts : List Ty), valsHaveTys vs σs = true → definite σs = some ts →
    rowHasTys vs ts = true
  | [], [], ts, _, hd => by simp [definite] at hd; subst hd; rfl
  | [], _ :: _, _, h, _ => by simp [valsHaveTys] at h
  | _ :: _, [], _, h, _ => by simp [valsHaveTys] at h
  | v :: vs, none :: σs, ts, _, hd => by simp [definite] at hd
  | v :: vs, some τ :: σs, ts, h, hd => by
    simp only [definite] at hd
    split at hd
    · rename_i ts' hts'
      cases hd
      simp [valsHaveTys] at h
      simp [rowHasTys, h.1, rowHasTys_of_definite vs σs ts' h.2 hts']
    · cases hd

theorem valsHaveTys_join_left : ∀ (vs : List Val) (σs ρs τs : List STy), valsHaveTys vs σs = true → joinRowTys σs ρs = some τs →
    valsHaveTys vs τs = true
  | [], [], [], τs, _, hj => by simp [joinRowTys] at hj; subst hj; rfl
  | [], [], _ :: _, _, _, hj => by simp [joinRowTys] at hj
  | [], _ :: _, _, _, h, _ => by simp [valsHaveTys] at h
  | _ :: _, [], _, _, h, _ => by simp [valsHaveTys] at h
  | _ :: _, _ :: _, [], _, _, hj => by simp [joinRowTys] at hj
  | v :: vs, σ :: σs, ρ :: ρs, τs, h, hj => by
    simp only [joinRowTys] at hj
    split at hj
    · rename_i τ τs' h1 h2
      cases hj
      simp [valsHaveTys] at h ⊢
      exact ⟨valHasTy_join_left h.1 h1, valsHaveTys_join_left vs σs ρs τs' h.2 h2⟩
    · cases hj

theorem valsHaveTys_join_right : ∀ (vs : List Val) (σs ρs τs : List STy), valsHaveTys vs ρs = true → joinRowTys σs ρs = some τs →
    valsHaveTys vs τs = true
  | [], [], [], τs, _, hj => by simp [joinRowTys] at hj; subst hj; rfl
  | [], _ :: _, [], _, _, hj => by simp [joinRowTys] at hj
  | [], _, _ :: _, _, h, _ => by simp [valsHaveTys] at h
  | _ :: _, _, [], _, h, _ => by simp [valsHaveTys] at h
  | _ :: _, [], _ :: _, _, _, hj => by simp [joinRowTys] at hj
  | v :: vs, σ :: σs, ρ :: ρs, τs, h, hj => by
    simp only [joinRowTys] at hj
    split at hj
    · rename_i τ τs' h1 h2
      cases hj
      simp [valsHaveTys] at h ⊢
      exact ⟨valHasTy_join_right h.1 h1, valsHaveTys_join_right vs σs ρs τs' h.2 h2⟩
    · cases hj

/-! ### bag helpers only select / reorder rows -/

theorem mem_removeFirst {r x : Row} : ∀ {t : Table}, x ∈ removeFirst r t → x ∈ t
  | [], h => by simp [removeFirst] at h
  | y :: ys, h => by
    simp only [removeFirst] at h
    split at h
    · exact List.mem_cons_of_mem _ h
    · rcases List.mem_cons.1 h with rfl | h
      · simp
      · exact List.mem_cons_of_mem _ (mem_removeFirst h)

theorem mem_dedupRows {x : Row} : ∀ {t : Table}, x ∈ dedupRows t → x ∈ t
  | [], h => by simp [dedupRows] at h
  | y :: ys, h => by
    simp only [dedupRows] at h
    rcases List.mem_cons.1 h with rfl | h
    · simp
    · exact List.mem_cons_of_mem _ (mem_dedupRows (List.mem_filter.1 h).1)

theorem mem_intersectAll {x : Row} : ∀ {l r : Table}, x ∈ intersectAll l r → x ∈ l
  | [], _, h => by simp [intersectAll] at h
  | y :: ys, r, h => by
    simp only [intersectAll] at h
    split at h
    · rcases List.mem_cons.1 h with rfl | h
      · simp
      · exact List.mem_cons_of_mem _ (mem_intersectAll h)
    · exact List.mem_cons_of_mem _ (mem_intersectAll h)

theorem mem_exceptAll {x : Row} : ∀ {l r : Table}, x ∈ exceptAll l r → x ∈ l
  | [], _, h => by simp [exceptAll] at h
  | y :: ys, r, h => by
    simp only [exceptAll] at h
    split at h
    · exact List.mem_cons_of_mem _ (mem_exceptAll h)
    · rcases List.mem_cons.1 h with rfl | h
      · simp
      · exact List.mem_cons_of_mem _ (mem_exceptAll h)

theorem mem_dedupVals {x : Val} : ∀ {l : List Val}, x ∈ dedupVals l → x ∈ l
  | [], h => by simp [dedupVals] at h
  | y :: ys, h => by
    simp only [dedupVals] at h
    rcases List.mem_cons.1 h with rfl | h
    · simp
    · exact List.mem_cons_of_mem _ (mem_dedupVals (List.mem_filter.1 h).1)

/-! ### contexts -/

def FnsOk (fns : String → List Val → Except Err Val) (fnTy : String → List STy → Option STy) : Prop :=
  ∀ name vs σs σ, fnTy name σs = some σ → valsHaveTys vs σs = true → Good σ (fns name vs)

/-- the context of nodes whose expressions cannot contain subqueries (aggregate, sort, VALUES) -/
theorem ctxOk_nosub (fo : FloatOps) (fns : String → List Val → Except Err Val) (fnTy) (hf : FnsOk fns fnTy)
    (rs : Nat → Env → Except Err Table) (tys : List (List Ty)) :
    CtxOk { fo := fo, runSub := rs, fn := fns } { env := tys, subs := [], fnTy := fnTy } :=
  ⟨fun k ts env' h _ => by simp at h, fun name vs σs σ h hv => hf name vs σs σ h hv⟩

theorem envHasTys_cons {r : Row} {ts : List Ty} {env : Env} {outer : List (List Ty)} (hr : rowHasTys r ts = true)
    (he : envHasTys env outer = true) : envHasTys (r :: env) (ts :: outer) = true := by
  simp [envHasTys, hr, he]

/-- a boolean-typed predicate evaluates to TRUE / FALSE / NULL or a dynamic error -/
theorem pred_safe (cx : EvalCtx) (Γ : TyCtx) (env : Env) (hc : CtxOk cx Γ) (he : envHasTys env Γ.env = true) (p : Expr)
    (hb : isBoolOut Γ p = true) : Safe (fun v => v = .null ∨ ∃ b, v = .bool b) (eval cx env p) := by
  unfold isBoolOut at hb
  split at hb
  · rename_i σ hσ
    exact Safe.mono (eval_good cx Γ env hc he p σ hσ) (fun v hv => bool_of_isBoolTy hv hb)
  · cases hb

/-! ### VALUES -/

theorem values_safe (cx : EvalCtx) (Γ : TyCtx) (env : Env) (hc : CtxOk cx Γ) (he : envHasTys env Γ.env = true) :
    ∀ (rows : List (List Expr)) (τs : List STy), valuesTys Γ rows = some τs →
      Safe (fun t => ∀ r ∈ t, valsHaveTys r τs = true) (rows.mapM (fun es => evalList cx env es))
  | [], τs, h => by simp [valuesTys] at h
  | [r], τs, h => by
    simp only [valuesTys] at h
    rw [List.mapM_cons, List.mapM_nil]
    refine Safe.bind (evalList_good cx Γ env hc he r τs h) (fun vs hvs => ?_)
    intro x hx
    simp at hx
    subst hx; exact hvs
  | r :: r' :: rs, τs, h => by
    simp only [valuesTys] at h
    split at h
    · rename_i σs ρs hσ hρ
      rw [List.mapM_cons]
      refine Safe.bind (evalList_good cx Γ env hc he r σs hσ) (fun vs hvs => ?_)
      refine Safe.bind (values_safe cx Γ env hc he (r' :: rs) ρs hρ) (fun t ht => ?_)
      intro x hx
      rcases List.mem_cons.1 hx with rfl | hx
      · exact valsHaveTys_join_left _ _ _ _ hvs h
      · exact valsHaveTys_join_right _ _ _ _ (ht x hx) h
    · cases h

/-! ### joins -/

section join
variable (cx : EvalCtx) (Γ : TyCtx) (env : Env) (hc : CtxOk cx Γ) (on : Expr) (hb : isBoolOut Γ on = true)
include hc hb

theorem onTrue_safe (row : Row) (he : envHasTys (row :: env) Γ.env = true) : Safe (fun _ => True) (onTrue cx env on row) := by
  unfold onTrue
  refine Safe.bind (pred_safe cx Γ (row :: env) hc he on hb) (fun v hv => ?_)
  rcases hv with rfl | ⟨b, rfl⟩
  · trivial
  · cases b <;> trivial

end join

/-! ### aggregates -/

theorem cmpNonNull_ok (fo : FloatOps) {a b : Val} {τ : Ty} (ha : a.tyOf = some τ) (hb : b.tyOf = some τ) :
    ∃ o, Val.cmpNonNull fo a b = .ok o := by
  cases τ <;> cases a <;> cases b <;> simp_all [Val.tyOf, Val.cmpNonNull]

theorem checkI64_int (i : Int) : Safe (fun r => r.tyOf = some Ty.int) (Val.checkI64 i) := by
  unfold Val.checkI64; split <;> simp [Safe, Val.tyOf, Err.isStatic]

theorem sumVals_safe (fo : FloatOps) (τ : Ty) (hτ : τ = .int ∨ τ = .f64) :
    ∀ (vs : List Val), (∀ v ∈ vs, v.tyOf = some τ) → Safe (fun r => r = .null ∨ r.tyOf = some τ) (sumVals fo vs)
  | [], _ => Or.inl rfl
  | v :: vs, h => by
    unfold sumVals
    refine Safe.mono (Safe.foldlM (I := fun acc => acc.tyOf = some τ) _ vs v (h v (by simp)) ?_) (fun r hr => Or.inr hr)
    intro acc x hacc hx
    have hx' := h x (by simp [hx])
    rcases hτ with rfl | rfl
    · cases acc <;> cases x <;> simp_all [Val.tyOf]
      simp only [Val.arith, Val.arithInt]
      exact checkI64_int _
    · cases acc <;> cases x <;> simp_all [Val.tyOf]
      simp [Val.arith, Val.arithF64, Safe, Val.tyOf]

theorem extremum_safe (fo : FloatOps) (wantMax : Bool) (τ : Ty) :
    ∀ (vs : List Val), (∀ v ∈ vs, v.tyOf = some τ) → Safe (fun r => r = .null ∨ r.tyOf = some τ) (extremum fo wantMax vs)
  | [], _ => Or.inl rfl
  | v :: vs, h => by
    unfold extremum
    refine Safe.mono (Safe.foldlM (I := fun acc => acc.tyOf = some τ) _ vs v (h v (by simp)) ?_) (fun r hr => Or.inr hr)
    intro acc x hacc hx
    have hx' := h x (by simp [hx])
    obtain ⟨o, ho⟩ := cmpNonNull_ok fo hx' hacc
    simp only [ho, bind, Except.bind, pure, Except.pure, Safe]
    split <;> assumption

theorem nn_typed {args : List Val} {τ : Ty} (h : ∀ v ∈ args, valHasTy v (some τ) = true) (distinct : Bool) :
    ∀ v ∈ (if distinct then dedupVals (args.filter (fun v => !v.isNull)) else args.filter (fun v => !v.isNull)), v.tyOf = some τ := by
  intro v hv
  have hm : v ∈ args.filter (fun v => !v.isNull) := by
    cases distinct with
    | true => exact mem_dedupVals (by simpa using hv)
    | false => simpa using hv
  obtain ⟨hin, hnn⟩ := List.mem_filter.1 hm
  rcases (valHasTy_iff v _).1 (h v hin) with rfl | h'
  · simp [Val.isNull] at hnn
  · exact h'

theorem aggVal_count (fo : FloatOps) (distinct : Bool) (n : Nat) (args : List Val) :
    Good (some .int) (aggVal fo .count distinct n args) := by
  simp [aggVal, Good, Safe, valHasTy, Val.tyOf]

theorem aggVal_countStar (fo : FloatOps) (distinct : Bool) (n : Nat) (args : List Val) :
    Good (some .int) (aggVal fo .countStar distinct n args) := by
  simp [aggVal, Good, Safe, valHasTy, Val.tyOf]

theorem good_of_null_or_ty {x : Except Err Val} {τ : Ty} (h : Safe (fun r => r = .null ∨ r.tyOf = some τ) x) : Good (some τ) x :=
  Safe.mono h (fun r hr => (valHasTy_iff r _).2 hr)

theorem aggVal_sum (fo : FloatOps) (distinct : Bool) (n : Nat) (args : List Val) (τ : Ty) (hτ : τ = .int ∨ τ = .f64)
    (h : ∀ v ∈ args, valHasTy v (some τ) = true) : Good (some τ) (aggVal fo .sum distinct n args) := by
  simp only [aggVal]
  exact good_of_null_or_ty (sumVals_safe fo τ hτ _ (nn_typed h distinct))

theorem aggVal_min (fo : FloatOps) (distinct : Bool) (n : Nat) (args : List Val) (τ : Ty)
    (h : ∀ v ∈ args, valHasTy v (some τ) = true) : Good (some τ) (aggVal fo .min distinct n args) := by
  simp only [aggVal]
  exact good_of_null_or_ty (extremum_safe fo false τ _ (nn_typed h distinct))

theorem aggVal_max (fo : FloatOps) (distinct : Bool) (n : Nat) (args : List Val) (τ : Ty)
    (h : ∀ v ∈ args, valHasTy v (some τ) = true) : Good (some τ) (aggVal fo .max distinct n args) := by
  simp only [aggVal]
  exact good_of_null_or_ty (extremum_safe fo true τ _ (nn_typed h distinct))

theorem aggVal_avg (fo : FloatOps) (distinct : Bool) (n : Nat) (args : List Val) (τ : Ty) (hτ : τ = .int ∨ τ = .f64)
    (h : ∀ v ∈ args, valHasTy v (some τ) = true) : Good (some .f64) (aggVal fo .avg distinct n args) := by
  simp only [aggVal]
  refine Safe.bind (sumVals_safe fo τ hτ _ (nn_typed h distinct)) (fun r hr => ?_)
  rcases hr with rfl | hr
  · simp [Safe, pure, Except.pure, valHasTy]
  · rcases hτ with rfl | rfl <;> cases r <;> simp_all [Val.tyOf, Safe, pure, Except.pure, valHasTy]

section agg
variable (cx : EvalCtx) (Γ : TyCtx) (env : Env) (hc : CtxOk cx Γ)
include hc

/-- the argument column of one aggregate call over a group -/
theorem aggArgs_safe (rows : Table) (hrows : ∀ r ∈ rows, envHasTys (r :: env) Γ.env = true) (e : Expr) (σ : STy)
    (hσ : typeOf Γ e = some σ) :
    Safe (fun args => ∀ v ∈ args, valHasTy v σ = true) (rows.mapM (fun r => eval cx (r :: env) e)) :=
  Safe.mapM _ rows (fun r hr => eval_good cx Γ (r :: env) hc (hrows r hr) e σ hσ)

theorem aggCall_safe (rows : Table) (hrows : ∀ r ∈ rows, envHasTys (r :: env) Γ.env = true) (a : AggCall) (τ : Ty)
    (h : aggTy Γ a = some τ) :
    Good (some τ) (do
      let args ← match a.fn with
        | .countStar => pure []
        | _ => rows.mapM (fun r => eval cx (r :: env) a.arg)
      aggVal cx.fo a.fn a.distinct rows.length args) := by
  unfold aggTy at h
  cases hfn : a.fn <;> simp only [hfn] at h ⊢
  · cases h; exact Safe.bind (Q := fun _ => True) trivial (fun args _ => aggVal_countStar _ _ _ _)
  · split at h
    · rename_i σ hσ
      cases h
      exact Safe.bind (aggArgs_safe cx Γ env hc rows hrows a.arg σ hσ) (fun args _ => aggVal_count _ _ _ _)
    · cases h
  · split at h
    · rename_i hσ; cases h
      exact Safe.bind (aggArgs_safe cx Γ env hc rows hrows a.arg _ hσ) (fun args ha => aggVal_sum _ _ _ _ _ (Or.inl rfl) ha)
    · rename_i hσ; cases h
      exact Safe.bind (aggArgs_safe cx Γ env hc rows hrows a.arg _ hσ) (fun args ha => aggVal_sum _ _ _ _ _ (Or.inr rfl) ha)
    · cases h
  · split at h
    · rename_i hσ; cases h
      exact Safe.bind (aggArgs_safe cx Γ env hc rows hrows a.arg _ hσ) (fun args ha => aggVal_avg _ _ _ _ _ (Or.inl rfl) ha)
    · rename_i hσ; cases h
      exact Safe.bind (aggArgs_safe cx Γ env hc rows hrows a.arg _ hσ) (fun args ha => aggVal_avg _ _ _ _ _ (Or.inr rfl) ha)
    · cases h
  · split at h
    · rename_i τ' hσ; cases h
      exact Safe.bind (aggArgs_safe cx Γ env hc rows hrows a.arg _ hσ) (fun args ha => aggVal_min _ _ _ _ _ ha)
    · cases h
  · split at h
    · rename_i τ' hσ; cases h
      exact Safe.bind (aggArgs_safe cx Γ env hc rows hrows a.arg _ hσ) (fun args ha => aggVal_max _ _ _ _ _ ha)
    · cases h

theorem aggGroup_safe (rows : Table) (hrows : ∀ r ∈ rows, envHasTys (r :: env) Γ.env = true) :
    ∀ (aggs : List AggCall) (ats : List Ty), aggTys Γ aggs = some ats →
      Safe (fun row => rowHasTys row ats = true) (aggGroup cx env aggs rows)
  | [], ats, h => by
    simp only [aggTys] at h; cases h
    unfold aggGroup; rw [List.mapM_nil]; rfl
  | a :: as, ats, h => by
    simp only [aggTys] at h
    split at h
    · rename_i τ ts hτ hts
      cases h
      have ih := aggGroup_safe rows hrows as ts hts
      unfold aggGroup at ih ⊢
      rw [List.mapM_cons]
      refine Safe.bind (aggCall_safe cx Γ env hc rows hrows a τ hτ) (fun v hv => ?_)
      refine Safe.bind ih (fun vs hvs => ?_)
      show rowHasTys (v :: vs) (τ :: ts) = true
      simp [rowHasTys, hv, hvs]
    · cases h

end agg

/-! ### GROUP BY keeps keys with their rows -/

theorem groupBy_fold_inv (K R : Row → Prop) :
    ∀ (keyed : List (Row × Row)) (acc : List (Row × Table)),
      (∀ g ∈ acc, K g.1 ∧ ∀ r ∈ g.2, R r) → (∀ x ∈ keyed, K x.1 ∧ R x.2) →
      ∀ g ∈ keyed.foldl (fun acc (x : Row × Row) =>
          if acc.any (fun g => g.1 = x.1) then acc.map (fun g => if g.1 = x.1 then (g.1, g.2 ++ [x.2]) else g)
          else acc ++ [(x.1, [x.2])]) acc, K g.1 ∧ ∀ r ∈ g.2, R r
  | [], acc, hacc, _ => by simpa using hacc
  | x :: xs, acc, hacc, hk => by
    rw [List.foldl_cons]
    refine groupBy_fold_inv K R xs _ ?_ (fun y hy => hk y (by simp [hy]))
    have hx := hk x (by simp)
    split
    · intro g hg
      obtain ⟨g0, hg0, rfl⟩ := List.mem_map.1 hg
      have h0 := hacc g0 hg0
      split
      · refine ⟨h0.1, ?_⟩
        intro r hr
        rcases List.mem_append.1 hr with hr | hr
        · exact h0.2 r hr
        · simp at hr; subst hr; exact hx.2
      · exact h0
    · intro g hg
      rcases List.mem_append.1 hg with hg | hg
      · exact hacc g hg
      · simp at hg; subst hg
        exact ⟨hx.1, by intro r hr; simp at hr; subst hr; exact hx.2⟩

theorem groupBy_inv (K R : Row → Prop) (keyed : List (Row × Row)) (h : ∀ x ∈ keyed, K x.1 ∧ R x.2) :
    ∀ g ∈ groupBy keyed, K g.1 ∧ ∀ r ∈ g.2, R r := by
  unfold groupBy
  exact groupBy_fold_inv K R keyed [] (by simp) h

section aggregate
variable (cx : EvalCtx) (Γ : TyCtx) (env : Env) (hc : CtxOk cx Γ)
include hc

theorem aggregate_safe (keys : List Expr) (aggs : List AggCall) (rows : Table) (ts : List Ty) (outer : List (List Ty))
    (hΓ : Γ.env = ts :: outer) (he : envHasTys env outer = true) (hrows : TableOk ts rows)
    (σs : List STy) (ks ats : List Ty) (hk : typeOfList Γ keys = some σs) (hd : definite σs = some ks) (ha : aggTys Γ aggs = some ats) :
    Safe (TableOk (ks ++ ats)) (aggregate cx env keys aggs rows) := by
  have hconf : ∀ (g : Table), (∀ r ∈ g, rowHasTys r ts = true) → ∀ r ∈ g, envHasTys (r :: env) Γ.env = true := by
    intro g hg r hr; rw [hΓ]; exact envHasTys_cons (hg r hr) he
  unfold aggregate
  split
  · rename_i hempty
    -- no keys: one row of aggregates
    have hk0 : ks = [] := by
      cases keys with
      | nil => simp [typeOfList] at hk; subst hk; simp [definite] at hd; exact hd
      | cons _ _ => simp at hempty
    subst hk0
    refine Safe.bind (aggGroup_safe cx Γ env hc rows (hconf rows hrows) aggs ats ha) (fun row hrow => ?_)
    intro r hr
    simp [pure, Except.pure] at hr
    subst hr; simpa using hrow
  · refine Safe.bind (Q := fun keyed => ∀ x ∈ keyed, rowHasTys x.1 ks = true ∧ rowHasTys x.2 ts = true) ?_ (fun keyed hkeyed => ?_)
    · refine Safe.mapM _ rows (fun r hr => ?_)
      refine Safe.bind (evalList_good cx Γ (r :: env) hc (hconf rows hrows r hr) keys σs hk) (fun kv hkv => ?_)
      exact ⟨rowHasTys_of_definite kv σs ks hkv hd, hrows r hr⟩
    · have hg := groupBy_inv (fun k => rowHasTys k ks = true) (fun r => rowHasTys r ts = true) keyed hkeyed
      refine Safe.mapM _ (groupBy keyed) (fun g hgm => ?_)
      obtain ⟨hgk, hgr⟩ := hg g hgm
      refine Safe.bind (aggGroup_safe cx Γ env hc g.2 (hconf g.2 hgr) aggs ats ha) (fun row hrow => ?_)
      exact rowHasTys_append _ _ _ _ hgk hrow

end aggregate

/-! ### joins -/

section joinRows
variable (cx : EvalCtx) (Γ : TyCtx) (env : Env) (hc : CtxOk cx Γ) (on : Expr) (hb : isBoolOut Γ on = true)
  (lts rts : List Ty) (outer : List (List Ty)) (hΓ : Γ.env = (lts ++ rts) :: outer) (he : envHasTys env outer = true)
include hc hb hΓ he

theorem pair_env (l r : Row) (hl : rowHasTys l lts = true) (hr : rowHasTys r rts = true) :
    envHasTys ((l ++ r) :: env) Γ.env = true := by
  rw [hΓ]; exact envHasTys_cons (rowHasTys_append _ _ _ _ hl hr) he

theorem matchesOf_safe (l : Row) (hl : rowHasTys l lts = true) (rs : Table) (hrs : TableOk rts rs) :
    Safe (TableOk rts) (matchesOf cx env on l rs) := by
  unfold matchesOf
  refine Safe.filterMapM _ rs (fun r hr => ?_)
  refine Safe.bind (onTrue_safe cx Γ env hc on hb (l ++ r) (pair_env cx Γ env hc on hb lts rts outer hΓ he l r hl (hrs r hr))) (fun b _ => ?_)
  cases b
  · intro y hy; simp [pure, Except.pure] at hy
  · intro y hy; simp [pure, Except.pure] at hy; subst hy; exact hrs r hr

theorem matchesOfRev_safe (r : Row) (hr : rowHasTys r rts = true) (ls : Table) (hls : TableOk lts ls) :
    Safe (TableOk lts) (ls.filterMapM (fun l => do if ← onTrue cx env on (l ++ r) then pure (some l) else pure none)) := by
  refine Safe.filterMapM _ ls (fun l hl => ?_)
  refine Safe.bind (onTrue_safe cx Γ env hc on hb (l ++ r) (pair_env cx Γ env hc on hb lts rts outer hΓ he l r (hls l hl) hr)) (fun b _ => ?_)
  cases b
  · intro y hy; simp [pure, Except.pure] at hy
  · intro y hy; simp [pure, Except.pure] at hy; subst hy; exact hls l hl

end joinRows

theorem flatten_ok {ts : List Ty} {parts : List Table} (h : ∀ p ∈ parts, TableOk ts p) : TableOk ts parts.flatten := by
  intro r hr
  obtain ⟨p, hp, hrp⟩ := List.mem_flatten.1 hr
  exact h p hp r hrp

theorem joinRows_safe (cx : EvalCtx) (Γ : TyCtx) (env : Env) (hc : CtxOk cx Γ) (on : Expr) (jt : JoinType)
    (hb : jt = .cross ∨ isBoolOut Γ on = true)
    (lts rts : List Ty) (outer : List (List Ty)) (hΓ : Γ.env = (lts ++ rts) :: outer) (he : envHasTys env outer = true)
    (ls rs : Table) (hls : TableOk lts ls) (hrs : TableOk rts rs) :
    Safe (TableOk (match jt with | .semi | .anti => lts | _ => lts ++ rts))
      (joinRows cx env jt lts.length rts.length on ls rs) := by
  have hpair : ∀ l ∈ ls, ∀ r ∈ rs, rowHasTys (l ++ r) (lts ++ rts) = true :=
    fun l hl r hr => rowHasTys_append _ _ _ _ (hls l hl) (hrs r hr)
  cases jt with
  | cross =>
    simp only [joinRows]
    intro x hx
    obtain ⟨l, hl, hx⟩ := List.mem_flatMap.1 hx
    obtain ⟨r, hr, rfl⟩ := List.mem_map.1 hx
    exact hpair l hl r hr
  | inner =>
    have hb' : isBoolOut Γ on = true := by rcases hb with h | h; cases h; exact h
    simp only [joinRows]
    refine Safe.bind (Safe.mapM (Q := TableOk (lts ++ rts)) _ ls (fun l hl => ?_)) (fun parts hp => flatten_ok hp)
    refine Safe.bind (matchesOf_safe cx Γ env hc on hb' lts rts outer hΓ he l (hls l hl) rs hrs) (fun ms hms => ?_)
    intro x hx
    obtain ⟨r, hr, rfl⟩ := List.mem_map.1 hx
    exact rowHasTys_append _ _ _ _ (hls l hl) (hms r hr)
  | left =>
    have hb' : isBoolOut Γ on = true := by rcases hb with h | h; cases h; exact h
    simp only [joinRows]
    refine Safe.bind (Safe.mapM (Q := TableOk (lts ++ rts)) _ ls (fun l hl => ?_)) (fun parts hp => flatten_ok hp)
    refine Safe.bind (matchesOf_safe cx Γ env hc on hb' lts rts outer hΓ he l (hls l hl) rs hrs) (fun ms hms => ?_)
    intro x hx
    split at hx
    · simp at hx; subst hx
      exact rowHasTys_append _ _ _ _ (hls l hl) (rowHasTys_nulls rts)
    · obtain ⟨r, hr, rfl⟩ := List.mem_map.1 hx
      exact rowHasTys_append _ _ _ _ (hls l hl) (hms r hr)
  | semi =>
    have hb' : isBoolOut Γ on = true := by rcases hb with h | h; cases h; exact h
    simp only [joinRows]
    refine Safe.filterMapM _ ls (fun l hl => ?_)
    refine Safe.bind (matchesOf_safe cx Γ env hc on hb' lts rts outer hΓ he l (hls l hl) rs hrs) (fun ms _ => ?_)
    intro y hy
    split at hy
    · cases hy
    · simp at hy; subst hy; exact hls l hl
  | anti =>
    have hb' : isBoolOut Γ on = true := by rcases hb with h | h; cases h; exact h
    simp only [joinRows]
    refine Safe.filterMapM _ ls (fun l hl => ?_)
    refine Safe.bind (matchesOf_safe cx Γ env hc on hb' lts rts outer hΓ he l (hls l hl) rs hrs) (fun ms _ => ?_)
    intro y hy
    split at hy
    · simp at hy; subst hy; exact hls l hl
    · cases hy
  | right =>
    have hb' : isBoolOut Γ on = true := by rcases hb with h | h; cases h; exact h
    simp only [joinRows]
    refine Safe.bind (Safe.mapM (Q := TableOk (lts ++ rts)) _ rs (fun r hr => ?_)) (fun parts hp => flatten_ok hp)
    refine Safe.bind (matchesOfRev_safe cx Γ env hc on hb' lts rts outer hΓ he r (hrs r hr) ls hls) (fun ms hms => ?_)
    intro x hx
    split at hx
    · simp at hx; subst hx
      exact rowHasTys_append _ _ _ _ (rowHasTys_nulls lts) (hrs r hr)
    · obtain ⟨l, hl, rfl⟩ := List.mem_map.1 hx
      exact rowHasTys_append _ _ _ _ (hms l hl) (hrs r hr)
  | full =>
    have hb' : isBoolOut Γ on = true := by rcases hb with h | h; cases h; exact h
    simp only [joinRows]
    refine Safe.bind (Safe.mapM (Q := TableOk (lts ++ rts)) _ ls (fun l hl => ?_)) (fun parts hp => ?_)
    · refine Safe.bind (matchesOf_safe cx Γ env hc on hb' lts rts outer hΓ he l (hls l hl) rs hrs) (fun ms hms => ?_)
      intro x hx
      split at hx
      · simp at hx; subst hx
        exact rowHasTys_append _ _ _ _ (hls l hl) (rowHasTys_nulls rts)
      · obtain ⟨r, hr, rfl⟩ := List.mem_map.1 hx
        exact rowHasTys_append _ _ _ _ (hls l hl) (hms r hr)
    · refine Safe.bind (Safe.filterMapM (Q := fun x => rowHasTys x (lts ++ rts) = true) _ rs (fun r hr => ?_)) (fun un hun => ?_)
      · refine Safe.bind (matchesOfRev_safe cx Γ env hc on hb' lts rts outer hΓ he r (hrs r hr) ls hls) (fun ms _ => ?_)
        intro y hy
        split at hy
        · simp at hy; subst hy
          exact rowHasTys_append _ _ _ _ (rowHasTys_nulls lts) (hrs r hr)
        · cases hy
      · intro x hx
        rcases List.mem_append.1 hx with hx | hx
        · exact flatten_ok hp x hx
        · exact hun x hx

/-! ### the plan interpreter -/

section main
variable (sc : SchCtx) (fo : FloatOps) (fns : String → List Val → Except Err Val) (cat : List Table)
  (hcat : TablesOk cat sc.cat) (hf : FnsOk fns sc.fnTy)

/-- what `runList_sound` provides about a node's subqueries -/
def SubsOk (subs : List Query) (ctes : List Table) (tys : List (List Ty)) (ss : List (List Ty)) : Prop :=
  ∀ (k : Nat) (ts : List Ty), ss[k]? = some ts → ∃ f : Runner, (runList fo fns cat subs)[k]? = some f ∧
    ∀ env', envHasTys env' tys = true → Safe (TableOk ts) (f ctes env')

include hf in
theorem ctxOk_subs (subs : List Query) (ctes : List Table) (tys : List (List Ty)) (ss : List (List Ty))
    (hsub : SubsOk fo fns cat subs ctes tys ss) :
    CtxOk { fo := fo, fn := fns,
            runSub := fun k e => match (runList fo fns cat subs)[k]? with
              | some f => f ctes e
              | none => .error (.bad "no such subquery") }
          { env := tys, subs := ss, fnTy := sc.fnTy } := by
  refine ⟨fun k ts env' h he => ?_, fun name vs σs σ h hv => hf name vs σs σ h hv⟩
  obtain ⟨f, hfk, hsafe⟩ := hsub k ts h
  simp only [hfk]
  exact hsafe env' he

include hcat hf

mutual
theorem run_sound : ∀ (q : Query) (ctes : List Table) (cteTys : List (List Ty)) (env : Env) (outer : List (List Ty)) (ts : List Ty),
    schemaOf sc q cteTys outer = some ts → TablesOk ctes cteTys → envHasTys env outer = true →
    Safe (TableOk ts) (run fo fns cat q ctes env)
  | .scan t, ctes, cteTys, env, outer, ts, h, _, _ => by
    simp only [schemaOf] at h
    obtain ⟨tb, htb, hok⟩ := TablesOk_get cat sc.cat t ts hcat h
    rw [run]; simp only [htb]; exact hok
  | .cteRef i, ctes, cteTys, env, outer, ts, h, hct, _ => by
    simp only [schemaOf] at h
    obtain ⟨tb, htb, hok⟩ := TablesOk_get ctes cteTys i ts hct h
    rw [run]; simp only [htb]; exact hok
  | .values rows, ctes, cteTys, env, outer, ts, h, _, he => by
    simp only [schemaOf] at h
    split at h
    · rename_i σs hσs
      rw [run]
      refine Safe.mono (values_safe _ _ env (ctxOk_nosub fo fns sc.fnTy hf _ outer) he rows σs hσs) (fun t ht => ?_)
      intro r hr
      exact rowHasTys_of_definite r σs ts (ht r hr) h
    · cases h
  | .filter subs p q, ctes, cteTys, env, outer, ts, h, hct, he => by
    simp only [schemaOf] at h
    split at h
    · rename_i ts' hq
      split at h
      · rename_i ss hss
        split at h
        · rename_i hb
          cases h
          have hsub : SubsOk fo fns cat subs ctes (ts :: outer) ss := runList_sound subs ctes cteTys (ts :: outer) ss hss hct
          have hc := ctxOk_subs sc fo fns cat hf subs ctes (ts :: outer) ss hsub
          rw [run]
          dsimp only
          refine Safe.bind (run_sound q ctes cteTys env outer ts hq hct he) (fun rows hrows => ?_)
          refine Safe.filterMapM _ rows (fun r hr => ?_)
          refine Safe.bind (pred_safe _ _ (r :: env) hc (envHasTys_cons (hrows r hr) he) p hb) (fun v hv => ?_)
          rcases hv with rfl | ⟨b, rfl⟩
          · intro y hy; cases hy
          · cases b
            · intro y hy; cases hy
            · intro y hy; cases hy; exact hrows r hr
        · cases h
      · cases h
    · cases h
  | .project subs es q, ctes, cteTys, env, outer, ts, h, hct, he => by
    simp only [schemaOf] at h
    split at h
    · rename_i ts' hq
      split at h
      · rename_i ss hss
        split at h
        · rename_i σs hσs
          have hsub : SubsOk fo fns cat subs ctes (ts' :: outer) ss := runList_sound subs ctes cteTys (ts' :: outer) ss hss hct
          have hc := ctxOk_subs sc fo fns cat hf subs ctes (ts' :: outer) ss hsub
          rw [run]
          dsimp only
          refine Safe.bind (run_sound q ctes cteTys env outer ts' hq hct he) (fun rows hrows => ?_)
          refine Safe.mapM _ rows (fun r hr => ?_)
          exact Safe.mono (evalList_good _ _ (r :: env) hc (envHasTys_cons (hrows r hr) he) es σs hσs)
            (fun vs hvs => rowHasTys_of_definite vs σs ts hvs h)
        · cases h
      · cases h
    · cases h
  | .join jt lw rw subs on l r, ctes, cteTys, env, outer, ts, h, hct, he => by
    simp only [schemaOf] at h
    split at h
    · rename_i lts rts hl hr
      split at h
      · rename_i ss hss
        split at h
        · rename_i hcond
          simp only [Bool.and_eq_true, beq_iff_eq, Bool.or_eq_true] at hcond
          obtain ⟨⟨hlw, hrw⟩, hb⟩ := hcond
          subst hlw; subst hrw
          have hsub : SubsOk fo fns cat subs ctes ((lts ++ rts) :: outer) ss :=
            runList_sound subs ctes cteTys ((lts ++ rts) :: outer) ss hss hct
          have hc := ctxOk_subs sc fo fns cat hf subs ctes ((lts ++ rts) :: outer) ss hsub
          rw [run]
          dsimp only
          refine Safe.bind (run_sound l ctes cteTys env outer lts hl hct he) (fun ls hls => ?_)
          refine Safe.bind (run_sound r ctes cteTys env outer rts hr hct he) (fun rs hrs => ?_)
          have := joinRows_safe _ _ env hc on jt hb lts rts outer rfl he ls rs hls hrs
          cases jt <;> (simp only [Option.some.injEq] at h; subst h; exact this)
        · cases h
      · cases h
    · cases h
  | .agg keys aggs q, ctes, cteTys, env, outer, ts, h, hct, he => by
    simp only [schemaOf] at h
    split at h
    · rename_i ts' hq
      split at h
      · rename_i σs hσs
        split at h
        · rename_i ks ats hks hats
          cases h
          rw [run]
          dsimp only
          refine Safe.bind (run_sound q ctes cteTys env outer ts' hq hct he) (fun rows hrows => ?_)
          exact aggregate_safe _ _ env (ctxOk_nosub fo fns sc.fnTy hf _ (ts' :: outer)) keys aggs rows ts' outer rfl he hrows σs ks ats hσs hks hats
        · cases h
      · cases h
    · cases h
  | .groupingSets _ _ _ _, _, _, _, _, _, h, _, _ => by simp [schemaOf] at h
  | .distinct q, ctes, cteTys, env, outer, ts, h, hct, he => by
    simp only [schemaOf] at h
    rw [run]
    refine Safe.bind (run_sound q ctes cteTys env outer ts h hct he) (fun rows hrows => ?_)
    intro r hr
    exact hrows r (mem_dedupRows hr)
  | .sort keys q, ctes, cteTys, env, outer, ts, h, hct, he => by
    simp only [schemaOf] at h
    split at h
    · rename_i ts' hq
      split at h
      · rename_i σs hσs
        cases h
        rw [run]
        dsimp only
        refine Safe.bind (run_sound q ctes cteTys env outer ts hq hct he) (fun rows hrows => ?_)
        refine Safe.bind (Q := fun keyed => ∀ x ∈ keyed, rowHasTys x.2 ts = true) ?_ (fun keyed hkeyed => ?_)
        · refine Safe.mapM _ rows (fun r hr => ?_)
          refine Safe.bind (evalList_good _ _ (r :: env) (ctxOk_nosub fo fns sc.fnTy hf _ (ts :: outer))
            (envHasTys_cons (hrows r hr) he) _ σs hσs) (fun kv _ => ?_)
          exact hrows r hr
        · intro r hr
          obtain ⟨x, hx, rfl⟩ := List.mem_map.1 hr
          exact hkeyed x (List.mem_mergeSort.1 hx)
      · cases h
    · cases h
  | .limit skip fetch q, ctes, cteTys, env, outer, ts, h, hct, he => by
    simp only [schemaOf] at h
    rw [run]
    refine Safe.bind (run_sound q ctes cteTys env outer ts h hct he) (fun rows hrows => ?_)
    intro r hr
    cases fetch with
    | none => exact hrows r (List.mem_of_mem_drop hr)
    | some n => exact hrows r (List.mem_of_mem_drop (List.mem_of_mem_take hr))
  | .setop op all l r, ctes, cteTys, env, outer, ts, h, hct, he => by
    simp only [schemaOf] at h
    split at h
    · rename_i lts rts hl hr
      split at h
      · rename_i heq
        cases h; subst heq
        rw [run]
        refine Safe.bind (run_sound l ctes cteTys env outer ts hl hct he) (fun ls hls => ?_)
        refine Safe.bind (run_sound r ctes cteTys env outer ts hr hct he) (fun rs hrs => ?_)
        intro x hx
        cases op <;> cases all <;> simp only [pure, Except.pure] at hx
        · rcases List.mem_append.1 (mem_dedupRows hx) with h | h
          · exact hls x h
          · exact hrs x h
        · rcases List.mem_append.1 hx with h | h
          · exact hls x h
          · exact hrs x h
        · exact hls x (mem_intersectAll (mem_dedupRows hx))
        · exact hls x (mem_intersectAll hx)
        · exact hls x (mem_dedupRows (List.mem_filter.1 hx).1)
        · exact hls x (mem_exceptAll hx)
      · cases h
    · cases h
  | .window _ _, _, _, _, _, _, h, _, _ => by simp [schemaOf] at h
  | .withCte defs body, ctes, cteTys, env, outer, ts, h, hct, he => by
    simp only [schemaOf] at h
    split at h
    · rename_i cteTys' hdefs
      rw [run]
      refine Safe.bind (runDefs_sound defs ctes cteTys env outer cteTys' hdefs hct he) (fun ctes' hct' => ?_)
      exact run_sound body ctes' cteTys' env outer ts h hct' he
    · cases h

theorem runList_sound : ∀ (qs : List Query) (ctes : List Table) (cteTys : List (List Ty)) (tys : List (List Ty)) (tss : List (List Ty)),
    schemaOfList sc qs cteTys tys = some tss → TablesOk ctes cteTys → SubsOk fo fns cat qs ctes tys tss
  | [], ctes, cteTys, tys, tss, h, _ => by
    simp only [schemaOfList] at h; cases h
    intro k ts hk; simp at hk
  | q :: qs, ctes, cteTys, tys, tss, h, hct => by
    simp only [schemaOfList] at h
    split at h
    · rename_i ts0 tss0 hq hqs
      cases h
      intro k ts hk
      cases k with
      | zero =>
        simp at hk; subst hk
        refine ⟨run fo fns cat q, by rw [runList]; simp, fun env' he' => ?_⟩
        exact run_sound q ctes cteTys env' tys ts0 hq hct he'
      | succ k =>
        simp at hk
        obtain ⟨f, hfk, hs⟩ := runList_sound qs ctes cteTys tys tss0 hqs hct k ts hk
        exact ⟨f, by rw [runList]; simpa using hfk, hs⟩
    · cases h

theorem runDefs_sound : ∀ (ds : List Query) (ctes : List Table) (cteTys : List (List Ty)) (env : Env) (outer : List (List Ty))
    (cteTys' : List (List Ty)), schemaDefs sc ds cteTys outer = some cteTys' → TablesOk ctes cteTys → envHasTys env outer = true →
    Safe (fun c' => TablesOk c' cteTys') (runDefs fo fns cat ds ctes env)
  | [], ctes, cteTys, env, outer, cteTys', h, hct, _ => by
    simp only [schemaDefs] at h; cases h
    rw [runDefs]; exact hct
  | d :: ds, ctes, cteTys, env, outer, cteTys', h, hct, he => by
    simp only [schemaDefs] at h
    split at h
    · rename_i ts hd
      rw [runDefs]
      refine Safe.bind (run_sound d ctes cteTys env outer ts hd hct he) (fun t ht => ?_)
      exact runDefs_sound ds (ctes ++ [t]) (cteTys ++ [ts]) env outer cteTys' h (TablesOk_snoc _ _ _ _ hct ht) he
    · cases h
end

end main

end IQE.Spec
