/- IQE.Lemmas.FnCodec — C36: decode ∘ encode = id for every base-2^k codec with a consistent alphabet. -/
import IQE.Lemmas.FnBits
namespace IQE.Spec.Fn

theorem bytesToBits_cons (x : UInt8) (xs : List UInt8) : bytesToBits (x :: xs) = bitsOfNat 8 x.toNat ++ bytesToBits xs := by
  simp [bytesToBits]
theorem bytesToBits_length (b : List UInt8) : (bytesToBits b).length = 8 * b.length := by
  induction b with
  | nil => rfl
  | cons x xs ih => rw [bytesToBits_cons]; simp [bitsOfNat_length, ih]; omega

theorem wholeGroups_bytes (zs : List Bool) (hz : zs.length < 8) : ∀ (b : List UInt8) (f : Nat), b.length < f →
    wholeGroups 8 f (bytesToBits b ++ zs) = (b.map (fun x => bitsOfNat 8 x.toNat), zs) := by
  intro b
  induction b with
  | nil =>
    intro f _
    cases f with
    | zero => simp [wholeGroups, bytesToBits]
    | succ f => simp [wholeGroups, bytesToBits, hz]
  | cons x xs ih =>
    intro f hf
    cases f with
    | zero => simp at hf
    | succ f =>
      have hlen : ¬ (bytesToBits (x :: xs) ++ zs).length < 8 := by
        rw [List.length_append, bytesToBits_length]; simp; omega
      unfold wholeGroups
      simp only [hlen, if_false]
      rw [bytesToBits_cons, List.append_assoc]
      have h8 : (bitsOfNat 8 x.toNat).length = 8 := bitsOfNat_length 8 _
      rw [List.drop_left' h8, List.take_left' h8]
      rw [ih f (by simpa using hf)]
      simp

theorem takeWhile_append_stop {α} (p : α → Bool) (a b : List α) (ha : ∀ x ∈ a, p x = true) (hb : ∀ x, b.head? = some x → p x = false) :
    (a ++ b).takeWhile p = a ∧ (a ++ b).dropWhile p = b := by
  induction a with
  | nil =>
    cases b with
    | nil => simp
    | cons y ys => have := hb y rfl; simp [this]
  | cons x xs ih =>
    have hx := ha x (by simp)
    have := ih (fun y hy => ha y (by simp [hy]))
    simp [hx, this]

theorem optAll_map {α β γ} (f : α → Option β) (h : γ → α) (g : γ → β) (l : List γ) (hh : ∀ a ∈ l, f (h a) = some (g a)) :
    optAll f (l.map h) = some (l.map g) := by
  induction l with
  | nil => rfl
  | cons a r ih =>
    simp only [List.map_cons, optAll, hh a (by simp), ih (fun x hx => hh x (by simp [hx]))]

theorem flatMap_bits (k : Nat) (G : List (List Bool)) (hG : ∀ g ∈ G, g.length = k) :
    (G.map natOfBits).flatMap (bitsOfNat k) = G.flatten := by
  induction G with
  | nil => rfl
  | cons g r ih =>
    simp only [List.map_cons, List.flatMap_cons, List.flatten_cons]
    rw [ih (fun x hx => hG x (by simp [hx]))]
    have := bitsOfNat_natOfBits g
    rw [hG g (by simp)] at this
    rw [this]

structure Codec.Ok (c : Codec) : Prop where
  kpos : 0 < c.k
  k8 : c.k ≤ 8
  dec_enc : ∀ n, n < 2 ^ c.k → c.dec (c.enc n) = some n
  enc_ne : ∀ n, n < 2 ^ c.k → c.enc n ≠ '='

theorem Codec.decode_encode (c : Codec) (ok : c.Ok) (b : List UInt8) : c.decode (c.encode b) = some b := by
  obtain ⟨hk, hk8, hde, hne⟩ := ok
  have hbits : (bytesToBits b).length < (bytesToBits b).length + 1 := by omega
  obtain ⟨hG, z, hz, hflat, _⟩ := groupsOf_spec c.k hk _ (bytesToBits b) hbits
  generalize hGdef : groupsOf c.k ((bytesToBits b).length + 1) (bytesToBits b) = G at hG hflat
  have hlt : ∀ g ∈ G, natOfBits g < 2 ^ c.k := by
    intro g hg; have := natOfBits_lt g; rw [hG g hg] at this; exact this
  unfold Codec.encode Codec.decode
  simp only [hGdef]
  generalize hcs : G.map (fun g => c.enc (natOfBits g)) = cs
  generalize hp : (c.block - cs.length % c.block) % c.block = p
  have hcs_ne : ∀ x ∈ cs, (decide (x ≠ '=')) = true := by
    intro x hx; subst hcs
    simp only [List.mem_map] at hx
    obtain ⟨g, hg, rfl⟩ := hx
    simpa using hne _ (hlt g hg)
  have hpad : ∀ x, (List.replicate p '=').head? = some x → (decide (x ≠ '=')) = false := by
    intro x hx
    cases p with
    | zero => simp at hx
    | succ p => simp [List.replicate] at hx; subst hx; simp
  obtain ⟨ht, hd⟩ := takeWhile_append_stop (fun x => decide (x ≠ '=')) cs (List.replicate p '=') hcs_ne hpad
  simp only [ht, hd]
  have hc1 : ((List.replicate p '=').all (fun x => x == '=') && (List.replicate p '=').length == (c.block - cs.length % c.block) % c.block) = true := by
    simp [hp]
  simp only [hc1, if_true]
  have hopt : optAll c.dec cs = some (G.map natOfBits) := by
    subst hcs
    exact optAll_map c.dec _ natOfBits G (fun g hg => hde _ (hlt g hg))
  simp only [hopt]
  have hall : (G.map natOfBits).all (fun x => decide (x < 2 ^ c.k)) = true := by
    simp only [List.all_map, List.all_eq_true]; intro g hg; simpa using hlt g hg
  simp only [hall, if_true]
  have hfm := flatMap_bits c.k G hG
  rw [hfm, hflat]
  have hz8 : (List.replicate z false).length < 8 := by simp; omega
  rw [wholeGroups_bytes _ hz8 b _ (by simp [bytesToBits_length]; omega)]
  simp only [List.length_replicate, hz, decide_true, Bool.true_and]
  have hf : (List.replicate z false).all (fun x => x == false) = true := by simp
  simp only [hf, if_true]
  congr 1
  rw [List.map_map]
  conv => rhs; rw [← List.map_id b]
  apply List.map_congr_left
  intro x _
  simp only [Function.comp, natOfBits_bitsOfNat, id]
  have := x.toNat_lt
  rw [Nat.mod_eq_of_lt (by omega)]
  simp

theorem base64_ok : base64.Ok := ⟨by decide, by decide, by decide, by decide⟩
theorem base64url_ok : base64url.Ok := ⟨by decide, by decide, by decide, by decide⟩
theorem base32_ok : base32.Ok := ⟨by decide, by decide, by decide, by decide⟩

end IQE.Spec.Fn
