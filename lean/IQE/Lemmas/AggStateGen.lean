/-
  IQE.Lemmas.AggStateGen — glue between the TRANSLATED arms of `morsel_agg::AccumulatorState::{merge, finalize}`
  (`IQE.Gen.AggState`, regenerated from /repo on every check run) and the hand model `IQE.Engine.Acc.morsel`
  that the C21 property theorems are stated over.

  * `Embed cmp` — how the translated `ScalarValue` (restricted to the scalar variants the model knows) is read as a
    model `Val`, and what is assumed about the untranslated comparator `compare_scalar_values` (a parameter `cmp`
    of the generated MIN / MAX arms): "less" / "greater" agree with the model's strict order `valLt`.
  * `stOf` — the translated `AccumulatorState` read as the model's `MorselSt` (`none` for the variants the model
    does not cover: BoolAnd / BoolOr / First / Variance).
  * `genMerge` / `genFinalize` — the dispatch of `merge` / `finalize` over the six modelled variants, composed by
    hand from the generated per-arm definitions; the ORDER of the arms in the source (which the per-arm items do
    not see) is pinned by `Gen.AggState.merge_arms` / `finalize_arms` (theorem `C21Gen_dispatch_order`).
  No Mathlib.
-/
import IQE.Gen.AggState
import IQE.Engine.Acc
namespace IQE.AggStateGen
open IQE IQE.Engine.Acc IQE.Gen.AggState

/-- Reading of translated scalars as model values + the assumption on `compare_scalar_values`. -/
structure Embed (cmp : ScalarValue → ScalarValue → Ordering) where
  ι : ScalarValue → Val
  null : ι .Null = .null
  int64 : ∀ i, ι (.Int64 i) = .int i
  float64 : ∀ x, ι (.Float64 x) = .f64 x
  /-- `compare_scalar_values(x, y) == Ordering::Less` is the model's strict order -/
  lt : ∀ x y, (cmp x y == Ordering.lt) = valLt (ι x) (ι y)
  /-- `compare_scalar_values(x, y) == Ordering::Greater` is the converse strict order -/
  gt : ∀ x y, (cmp x y == Ordering.gt) = valLt (ι y) (ι x)

/-- translated accumulator state → model state -/
def stOf (ι : ScalarValue → Val) : AccumulatorState → Option MorselSt
  | .Count c => some (.count c)
  | .Sum s seen => some (.sum s seen)
  | .SumInt s seen => some (.sumInt s seen)
  | .Avg s c => some (.avg s c)
  | .Min v => some (.min (v.map ι))
  | .Max v => some (.max (v.map ι))
  | _ => none

/-- `AccumulatorState::merge` on the modelled variants, composed from the generated arms in source order
    (every other pair of states: the arms this file does not use, or the final `_ => {}` — state unchanged
    for mismatched variants). -/
def genMerge (fo : FloatOps) (cmp : ScalarValue → ScalarValue → Ordering) (t s : AccumulatorState) : AccumulatorState :=
  match t, s with
  | .Count a, .Count b => merge_count a b
  | .Sum a sa, .Sum b sb => merge_sum a sa b sb fo.add
  | .SumInt a sa, .SumInt b sb => merge_sum_int a sa b sb
  | .Avg s1 c1, .Avg s2 c2 => merge_avg s1 c1 s2 c2 fo.add
  | .Min a, .Min b => merge_min a b cmp
  | .Max a, .Max b => merge_max a b cmp
  | t, _ => t

/-- `AccumulatorState::finalize` on the modelled variants, composed from the generated arms -/
def genFinalize (fo : FloatOps) : AccumulatorState → Option ScalarValue
  | .Count c => some (finalize_count c)
  | .Sum s seen => some (finalize_sum s seen)
  | .SumInt s seen => some (finalize_sum_int s seen)
  | .Avg s c => some (finalize_avg s c fo.ofInt fo.div)
  | .Min v => some (finalize_min v)
  | .Max v => some (finalize_max v)
  | _ => none

/-- a concrete embedding, for non-vacuity: strings are read byte-wise (Latin-1), Int32 / Timestamp as integers -/
def ι₀ : ScalarValue → Val
  | .Null => .null
  | .Boolean b => .bool b
  | .Int32 i => .int i
  | .Int64 i => .int i
  | .Float64 x => .f64 x
  | .Utf8 s => .str (String.ofList (s.utf8.map (fun b => Char.ofNat b.toNat)))
  | .Date32 d => .date d
  | .Timestamp t => .int t

/-- the comparator induced by the model order through `ι₀` -/
def cmp₀ (x y : ScalarValue) : Ordering :=
  if valLt (ι₀ x) (ι₀ y) then .lt else if valLt (ι₀ y) (ι₀ x) then .gt else .eq

theorem valLt_asymm (x y : Val) (h : valLt x y = true) : valLt y x = false := by
  cases x <;> cases y <;> simp only [valLt, Bool.false_eq_true] at h ⊢
  case bool.bool a b => cases a <;> cases b <;> simp_all
  case int.int a b => simp only [decide_eq_true_eq, decide_eq_false_iff_not] at h ⊢; omega
  case date.date a b => simp only [decide_eq_true_eq, decide_eq_false_iff_not] at h ⊢; omega
  case f64.f64 a b =>
    simp only [F64.lt, Bool.and_eq_true, Bool.not_eq_true', decide_eq_true_eq] at h
    obtain ⟨⟨ha, hb⟩, h⟩ := h
    simp only [F64.lt, ha, hb, Bool.not_false, Bool.true_and, decide_eq_false_iff_not]; omega
  case str.str a b =>
    simp only [beq_iff_eq] at h
    have h2 := (Std.OrientedCmp.gt_iff_lt (cmp := (compare : String → String → Ordering)) (a := b) (b := a)).2 h
    simp [h2]

/-- the hypotheses of `Embed` are satisfiable: `ι₀` with the comparator it induces -/
def embed₀ : Embed cmp₀ where
  ι := ι₀
  null := rfl
  int64 := fun _ => rfl
  float64 := fun _ => rfl
  lt := fun x y => by
    unfold cmp₀
    cases h : valLt (ι₀ x) (ι₀ y) <;> cases h2 : valLt (ι₀ y) (ι₀ x) <;> simp
  gt := fun x y => by
    unfold cmp₀
    cases h : valLt (ι₀ x) (ι₀ y) <;> cases h2 : valLt (ι₀ y) (ι₀ x) <;> simp
    exact absurd (valLt_asymm _ _ h) (by simp [h2])

end IQE.AggStateGen
