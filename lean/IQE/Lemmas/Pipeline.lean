/-
  IQE.Lemmas.Pipeline — the per-node steps of C01_pipeline_refines_spec: for every operator of the pipeline fragment,
  "model input ~ reference input, both succeed  ⟹  model output ~ reference output", assembled from the per-operator
  refinement lemmas (Filter: `eval_refines` / `keep_spec`; HashJoin: `hashJoin_perm_nlJoin`; Acc: `C21_hash_hom`'s
  `run_eq_aggVal`; Bag: `groupBy` closed form, `dedup`; SortModel / OrderAux: `sortExec_flatten`, `orderLimit_eq`, ties).
-/
import IQE.Engine.Pipeline
import IQE.Lemmas.Layout
import IQE.Lemmas.HashJoin
import IQE.Lemmas.Acc
import IQE.Lemmas.Filter
import IQE.Lemmas.DistTwoPhase
import IQE.Lemmas.OrderAux
import IQE.Props.C21
namespace IQE.Lemmas.Pipeline
open List IQE IQE.Spec IQE.Engine IQE.Engine.Pipeline
open IQE.Dist (tot tot_of_ok mapM_ok_iff)

/-! ### nested `mapM` -/

theorem mapM2_ok {α β : Type} [Inhabited β] (f : α → Except Err β) (ls : List (List α)) (out : List (List β))
    (h : ls.mapM (fun l => l.mapM f) = .ok out) :
    (∀ a ∈ ls.flatten, f a = .ok (tot f a)) ∧ out = ls.map (fun l => l.map (tot f)) := by
  obtain ⟨h1, h2⟩ := (mapM_ok_iff (fun l : List α => l.mapM f) ls out).mp h
  have key : ∀ l ∈ ls, (∀ a ∈ l, f a = .ok (tot f a)) ∧ tot (fun l : List α => l.mapM f) l = l.map (tot f) :=
    fun l hl => (mapM_ok_iff f l _).mp (h1 l hl)
  refine ⟨?_, ?_⟩
  · intro a ha
    obtain ⟨l, hl, hal⟩ := mem_flatten.mp ha
    exact (key l hl).1 a hal
  · rw [h2]
    exact map_congr_left fun l hl => (key l hl).2

theorem mapRows_ok {β : Type} [Inhabited β] (f : Row → Except Err β) (lay : List (List Table)) (out : List (List (List β)))
    (h : mapRows f lay = .ok out) :
    (∀ r ∈ lay.flatten.flatten, f r = .ok (tot f r)) ∧ out.flatten.flatten = lay.flatten.flatten.map (tot f) := by
  unfold mapRows at h
  obtain ⟨h1, h2⟩ := mapM2_ok (fun b : Table => b.mapM f) lay out h
  have key : ∀ b ∈ lay.flatten, (∀ a ∈ b, f a = .ok (tot f a)) ∧ tot (fun b : Table => b.mapM f) b = b.map (tot f) :=
    fun b hb => (mapM_ok_iff f b _).mp (h1 b hb)
  refine ⟨?_, ?_⟩
  · intro r hr
    obtain ⟨b, hb, hrb⟩ := mem_flatten.mp hr
    exact (key b hb).1 r hrb
  · rw [h2, IQE.Bag.map_flatten']
    have : lay.flatten.map (tot fun b : Table => b.mapM f) = lay.flatten.map (fun b => b.map (tot f)) :=
      map_congr_left fun b hb => (key b hb).2
    rw [this, IQE.Bag.map_flatten']

/-! ### scan -/

theorem scan_node (fo : FloatOps) (fns : String → List Val → Except Err Val) (cfg : ExecCfg) (cat : List (List Table))
    (t : Nat) (out ref : Table)
    (hm : runBag fo fns cfg cat (.scan t) = .ok out)
    (hs : run fo fns (cat.map List.flatten) (.scan t) [] [] = .ok ref) : out ~ ref := by
  rw [Spec.run] at hs
  rw [runBag] at hm
  rw [getElem?_map] at hs
  cases hx : cat[t]? with
  | none => simp [hx] at hm
  | some bs =>
    simp only [hx, Option.map_some, Except.ok.injEq] at hm hs
    subst hm hs
    exact cfg.layout_perm _

/-! ### filter -/

theorem filter_keeps_eq (cx : EvalCtx) (e : Expr) (rows out : List Row)
    (h : Filter.filter Filter.Dev.none cx.fo e rows = .ok out) :
    out = rows.filter (fun r => Filter.isTrueRes (Spec.eval cx [r] e)) := by
  simp only [Filter.filter, Filter.bind_ok] at h
  obtain ⟨m, hm, hk⟩ := h
  split at hk
  · simp only [Filter.pure_ok] at hk
    rw [← hk]; exact Filter.keep_spec cx e rows m hm
  · cases hk

theorem filter_node (cx : EvalCtx) (p : Expr) (lay : List (List Table)) (S ref : Table) (outs : List Table)
    (hp : lay.flatten.flatten ~ S)
    (hm : lay.flatten.mapM (Filter.filter Filter.Dev.none cx.fo p) = .ok outs)
    (hs : S.filterMapM (fun r => Spec.eval cx [r] p >>= IQE.Subq.whereKeep r) = .ok ref) : outs.flatten ~ ref := by
  let φ : Row → Bool := fun r => Filter.isTrueRes (Spec.eval cx [r] p)
  obtain ⟨h1, h2⟩ := (mapM_ok_iff _ lay.flatten outs).mp hm
  have e1 : outs = lay.flatten.map (filter φ) := by
    rw [h2]
    exact map_congr_left fun b hb => filter_keeps_eq cx p b _ (h1 b hb)
  have hall := IQE.Layout.filterMapM_ok_mem _ S ref hs
  have e2 : ref = S.filter φ := by
    have hg : ∀ r ∈ S, (Spec.eval cx [r] p >>= IQE.Subq.whereKeep r) = .ok (if φ r = true then some (id r) else none) := by
      intro r hr
      obtain ⟨b, hb⟩ := hall r hr
      cases hv : Spec.eval cx [r] p with
      | error e => rw [hv] at hb; cases hb
      | ok v =>
        rw [hv] at hb
        cases v with
        | bool bb => cases bb <;> simp [φ, hv, Filter.isTrueRes, IQE.Subq.whereKeep, bind, Except.bind]
        | null => simp [φ, hv, Filter.isTrueRes, IQE.Subq.whereKeep, bind, Except.bind]
        | _ => simp [IQE.Subq.whereKeep, bind, Except.bind] at hb
    rw [IQE.Bag.filterMapM_ok _ _ S hg, IQE.Bag.filterMap_ite_some] at hs
    cases hs
    simp
  rw [e1, e2, IQE.Bag.filter_flatten]
  exact hp.filter φ

/-! ### project -/

theorem project_node (cx : EvalCtx) (es : List Expr) (lay : List (List Table)) (S ref : Table) (outs : List (List Table))
    (hp : lay.flatten.flatten ~ S)
    (hm : mapRows (fun r => Filter.evalList Filter.Dev.none cx.fo r es) lay = .ok outs)
    (hs : S.mapM (fun r => Spec.evalList cx [r] es) = .ok ref) : outs.flatten.flatten ~ ref := by
  obtain ⟨h1, h2⟩ := mapRows_ok _ lay outs hm
  obtain ⟨_, h4⟩ := (mapM_ok_iff _ S ref).mp hs
  have hr : ∀ r ∈ S, tot (fun r => Spec.evalList cx [r] es) r = tot (fun r => Filter.evalList Filter.Dev.none cx.fo r es) r := by
    intro r hr
    have hm' := h1 r (hp.mem_iff.mpr hr)
    have := Filter.evalList_refines cx r es (fun x _ v hv => Filter.eval_refines cx r x v hv) _ hm'
    simp [tot, this]
  rw [h2, h4, map_congr_left hr]
  exact hp.map _

/-! ### join: the split of ON into hash keys and residual is sound -/

open IQE.Engine.HashJoin (keyOf keyVals keysEq onPair) in
/-- SQL equality of two key vectors, on the key column lists -/
def keysEqL (lk rk : List Nat) (l r : Row) : Bool :=
  match keyOf lk l, keyOf rk r with
  | some a, some b => decide (a = b)
  | _, _ => false

theorem keysEq_eq (c : HashJoin.Cfg) (l r : Row) : HashJoin.keysEq c l r = keysEqL c.lkeys c.rkeys l r := rfl

theorem keysEqL_nil (l r : Row) : keysEqL [] [] l r = true := by
  simp [keysEqL, HashJoin.keyOf, HashJoin.keyVals]

/-- one more key pair: both values non-NULL and structurally equal -/
def keyPairEq (x y : Val) : Bool := !x.isNull && !y.isNull && decide (x = y)

theorem keysEqL_cons (i j : Nat) (lk rk : List Nat) (l r : Row) :
    keysEqL (i :: lk) (j :: rk) l r = (keyPairEq (l.getD i .null) (r.getD j .null) && keysEqL lk rk l r) := by
  simp only [keysEqL, HashJoin.keyOf, HashJoin.keyVals, map_cons, any_cons, Bool.not_false, Bool.and_true, keyPairEq]
  cases hx : (l.getD i .null).isNull <;> cases hy : (r.getD j .null).isNull <;>
    cases ha : (lk.map fun c => l.getD c .null).any Val.isNull <;>
    cases hb : (rk.map fun c => r.getD c .null).any Val.isNull <;>
    simp [hx, hy, ha, hb]

open Std in
theorem cmpNonNull_eq_iff (fo : FloatOps) (x y : Val) (hx : notF64 x = true) (hy : notF64 y = true) (o : Ordering)
    (h : Val.cmpNonNull fo x y = .ok o) : o = .eq ↔ x = y := by
  cases x <;> cases y <;> simp [Val.cmpNonNull, notF64] at h hx hy <;> subst h
  · rename_i a b
    cases a <;> cases b <;> decide
  · rename_i a b
    simp only [Val.int.injEq]
    exact ⟨fun h => LawfulEqOrd.eq_of_compare h, fun h => h ▸ ReflCmp.compare_self⟩
  · rename_i a b
    simp only [Val.str.injEq]
    exact ⟨fun h => LawfulEqOrd.eq_of_compare h, fun h => h ▸ ReflCmp.compare_self⟩
  · rename_i a b
    simp only [Val.date.injEq]
    exact ⟨fun h => LawfulEqOrd.eq_of_compare h, fun h => h ▸ ReflCmp.compare_self⟩

theorem cmpK_eq_true_iff (fo : FloatOps) (x y v : Val) (hx : notF64 x = true) (hy : notF64 y = true)
    (h : Filter.cmpK fo .eq x y = .ok v) : v = .bool true ↔ keyPairEq x y = true := by
  unfold Filter.cmpK Val.cmp3 at h
  by_cases hxn : x = .null
  · subst hxn; simp at h; subst h; simp [keyPairEq, Val.isNull]
  by_cases hyn : y = .null
  · subst hyn
    cases x <;> simp at h hxn <;> subst h <;> simp [keyPairEq, Val.isNull]
  have hx' : x.isNull = false := by cases x <;> simp_all [Val.isNull]
  have hy' : y.isNull = false := by cases y <;> simp_all [Val.isNull]
  have h' : (match (Val.cmpNonNull fo x y).map some with
      | .error e => Except.error e
      | .ok none => Except.ok Val.null
      | .ok (some o) => Except.ok (Val.bool (ordSat .eq o))) = .ok v := by
    cases x <;> cases y <;> first | exact absurd rfl hxn | exact absurd rfl hyn | exact h
  cases hc : Val.cmpNonNull fo x y with
  | error e => simp [hc, Except.map] at h'
  | ok o =>
    simp only [hc, Except.map] at h'
    cases h'
    have := cmpNonNull_eq_iff fo x y hx hy o hc
    simp only [keyPairEq, hx', hy', Bool.not_false, Bool.true_and, decide_eq_true_eq, ← this]
    cases o <;> simp [ordSat]

theorem isTrueRes_ok (v : Val) : Filter.isTrueRes (.ok v) = true ↔ v = .bool true := by
  cases v with
  | bool b => cases b <;> simp [Filter.isTrueRes]
  | _ => simp [Filter.isTrueRes]

theorem eqKey_sound (fo : FloatOps) (lw : Nat) (e : Expr) (ij : Nat × Nat) (hk : eqKey lw e = some ij) (l r : Row)
    (hl : l.length = lw) (hx : notF64 (l.getD ij.1 .null) = true) (hy : notF64 (r.getD ij.2 .null) = true) (v : Val)
    (hv : Filter.eval Filter.Dev.none fo (l ++ r) e = .ok v) :
    v = .bool true ↔ keyPairEq (l.getD ij.1 .null) (r.getD ij.2 .null) = true := by
  unfold eqKey at hk
  split at hk
  · rename_i i j
    split at hk
    · rename_i hij
      cases hk
      simp only at hx hy ⊢
      have h1 : (l ++ r)[i]? = l[i]? := getElem?_append_left (by omega)
      have h2 : (l ++ r)[j]? = r[j - lw]? := by rw [getElem?_append_right (by omega), hl]
      simp only [Filter.eval, Filter.colAt, h1, h2, Filter.binaryOp] at hv
      cases hli : l[i]? with
      | none => simp [hli, bind, Except.bind] at hv
      | some x =>
        cases hrj : r[j - lw]? with
        | none => simp [hli, hrj, bind, Except.bind] at hv
        | some y =>
          have ex : l.getD i .null = x := by simp [List.getD, hli]
          have ey : r.getD (j - lw) .null = y := by simp [List.getD, hrj]
          simp only [hli, hrj, bind, Except.bind] at hv
          rw [ex] at hx ⊢; rw [ey] at hy ⊢
          exact cmpK_eq_true_iff fo x y v hx hy hv
    · cases hk
  · cases hk

theorem splitOn_sound (fo : FloatOps) (lw : Nat) (l r : Row) (hl : l.length = lw) (e : Expr) :
    ∀ (v : Val), Filter.eval Filter.Dev.none fo (l ++ r) e = .ok v →
    (∀ i ∈ (splitOn lw e).1, notF64 (l.getD i .null) = true) →
    (∀ j ∈ (splitOn lw e).2.1, notF64 (r.getD j .null) = true) →
    (v = .bool true ↔
      (keysEqL (splitOn lw e).1 (splitOn lw e).2.1 l r && residualOf fo (splitOn lw e).2.2 l r) = true) := by
  fun_induction splitOn lw e with
  | case1 a rest ij hk s ih =>
    intro v hv hxs hys
    simp only [Filter.eval, Filter.bind_ok, Filter.binaryOp] at hv
    obtain ⟨x, hx, y, hy, hand⟩ := hv
    have hxk := eqKey_sound fo lw a ij hk l r hl (hxs _ (List.mem_cons_self ..)) (hys _ (List.mem_cons_self ..)) x hx
    have hyk := ih y hy (fun i hi => hxs i (List.mem_cons_of_mem _ hi)) (fun j hj => hys j (List.mem_cons_of_mem _ hj))
    have hv' : v = .bool true ↔ x = .bool true ∧ y = .bool true := by
      constructor
      · intro h; subst h; exact (Filter.andK_true_iff _ x y).mp hand
      · intro h
        have := (Filter.andK_true_iff Filter.Dev.none x y).mpr h
        rw [this] at hand; cases hand; rfl
    simp only [keysEqL_cons, hv', hxk, hyk, Bool.and_eq_true, s]
    exact and_assoc.symm
  | case2 a rest hk =>
    intro v hv _ _
    simp only [keysEqL_nil, residualOf, hv, Bool.true_and, isTrueRes_ok]
  | case3 e hne ij hk =>
    intro v hv hxs hys
    have := eqKey_sound fo lw e ij hk l r hl (hxs _ (List.mem_cons_self ..)) (hys _ (List.mem_cons_self ..)) v hv
    simp only [keysEqL_cons, keysEqL_nil, residualOf, Bool.and_true, this]
  | case4 e hne hk =>
    intro v hv _ _
    simp only [keysEqL_nil, residualOf, hv, Bool.true_and, isTrueRes_ok]

/-! ### join node -/

theorem joinCfg_other (fo : FloatOps) (cfg : ExecCfg) (jt : JoinType) (hne : jt ≠ .cross) (lw rw : Nat) (on : Expr) :
    joinCfg fo cfg jt lw rw on =
      { lkeys := (splitOn lw on).1, rkeys := (splitOn lw on).2.1, residual := residualOf fo (splitOn lw on).2.2,
        lw := lw, rw := rw, buildLeft := cfg.buildLeft } := by
  cases jt <;> first | rfl | exact absurd rfl hne

theorem joinGuard_other (fo : FloatOps) (jt : JoinType) (hne : jt ≠ .cross) (lw : Nat) (on : Expr) (jc : HashJoin.Cfg)
    (L R : Table) :
    joinGuard fo jt lw on jc L R =
      (if !(L.all fun l => l.length == lw) then .error (.bad "join: left row arity differs from the declared width")
       else if !(keysHashable jc.lkeys L && keysHashable jc.rkeys R) then .error (.unsupported "join: DOUBLE equi-key")
       else if !(L.all fun l => R.all fun r => onOk fo on l r) then .error (.type "join condition is not boolean")
       else .ok ()) := by
  cases jt <;> first | rfl | exact absurd rfl hne

theorem keysHashable_mem (cols : List Nat) (t : Table) (h : keysHashable cols t = true) (row : Row) (hr : row ∈ t) :
    ∀ i ∈ cols, notF64 (row.getD i .null) = true := by
  intro i hi
  simp only [keysHashable, all_eq_true, HashJoin.keyVals] at h
  exact h row hr _ (mem_map.mpr ⟨i, hi, rfl⟩)

theorem join_node (cx : EvalCtx) (cfg : ExecCfg) (jt : JoinType) (lw rw : Nat) (on : Expr) (ML MR SL SR ref : Table)
    (hL : ML ~ SL) (hR : MR ~ SR)
    (hg : joinGuard cx.fo jt lw on (joinCfg cx.fo cfg jt lw rw on) ML MR = .ok ())
    (hs : joinRows cx [] jt lw rw on SL SR = .ok ref) :
    HashJoin.hashJoin {} jt (joinCfg cx.fo cfg jt lw rw on) (cfg.layout ML) (cfg.layout MR) ~ ref := by
  have hlw : (joinCfg cx.fo cfg jt lw rw on).lw = lw := by cases jt <;> rfl
  have hrw : (joinCfg cx.fo cfg jt lw rw on).rw = rw := by cases jt <;> rfl
  have hLL : (cfg.layout ML).flatten.flatten ~ SL := (cfg.layout_perm ML).trans hL
  have hRR : (cfg.layout MR).flatten.flatten ~ SR := (cfg.layout_perm MR).trans hR
  by_cases hc : jt = .cross
  · subst hc
    have h1 := HashJoin.hashJoin_perm_nlJoin .cross (joinCfg cx.fo cfg .cross lw rw on) (cfg.layout ML) (cfg.layout MR)
      (fun _ l _ r _ => by simp [joinCfg, HashJoin.onPair, HashJoin.keysEq, HashJoin.keyOf, HashJoin.keyVals])
    simp only [joinRows, Except.ok.injEq] at hs
    subst hs
    rw [hlw, hrw] at h1
    exact h1.trans (IQE.Join.nlJoin_perm .cross lw rw _ hLL hRR)
  · rw [joinGuard_other cx.fo jt hc] at hg
    have hjc := joinCfg_other cx.fo cfg jt hc lw rw on
    generalize joinCfg cx.fo cfg jt lw rw on = jc at *
    by_cases g1 : (ML.all fun l => l.length == lw) = true
    case neg => simp [g1] at hg
    by_cases g2 : (keysHashable jc.lkeys ML && keysHashable jc.rkeys MR) = true
    case neg => simp [g1, g2] at hg
    by_cases g3 : (ML.all fun l => MR.all fun r => onOk cx.fo on l r) = true
    case neg => simp [g1, g2, g3] at hg
    simp only [Bool.and_eq_true] at g2
    have hon : ∀ l ∈ SL, ∀ r ∈ SR, onTrue cx [] on (l ++ r) = .ok (HashJoin.onPair jc l r) := by
      intro l hl r hr
      have hl' := hL.mem_iff.mpr hl
      have hr' := hR.mem_iff.mpr hr
      have hlen : l.length = lw := by
        have := (all_eq_true.mp g1) l hl'
        simpa using this
      have hok : onOk cx.fo on l r = true := all_eq_true.mp (all_eq_true.mp g3 l hl') r hr'
      unfold onOk at hok
      cases hv : Filter.eval Filter.Dev.none cx.fo (l ++ r) on with
      | error e => simp [hv] at hok
      | ok v =>
        simp only [hv] at hok
        have hsv := Filter.eval_refines cx (l ++ r) on v hv
        have hsound := splitOn_sound cx.fo lw l r hlen on v hv
          (by have := keysHashable_mem _ _ g2.1 l hl'; rw [hjc] at this; exact this)
          (by have := keysHashable_mem _ _ g2.2 r hr'; rw [hjc] at this; exact this)
        have hpair : HashJoin.onPair jc l r =
            (keysEqL (splitOn lw on).1 (splitOn lw on).2.1 l r && residualOf cx.fo (splitOn lw on).2.2 l r) := by
          rw [hjc]; rfl
        rw [← hpair] at hsound
        simp only [onTrue, hsv]
        cases v with
        | bool b =>
          cases b
          · have : HashJoin.onPair jc l r = false := by
              cases h : HashJoin.onPair jc l r
              · rfl
              · exact absurd (hsound.mpr h) (by simp)
            simp [this, bind, Except.bind, pure, Except.pure]
          · have : HashJoin.onPair jc l r = true := hsound.mp rfl
            simp [this, bind, Except.bind, pure, Except.pure]
        | null =>
          have : HashJoin.onPair jc l r = false := by
            cases h : HashJoin.onPair jc l r
            · rfl
            · exact absurd (hsound.mpr h) (by simp)
          simp [this, bind, Except.bind, pure, Except.pure]
        | _ => simp [Filter.isBoolOrNull] at hok
    have h1 := HashJoin.hashJoin_perm_nlJoin jt jc (cfg.layout ML) (cfg.layout MR) (fun h => absurd h hc)
    rw [IQE.Join.joinRows_eq_nlJoin cx [] jt lw rw on (HashJoin.onPair jc) SL SR hon] at hs
    cases hs
    rw [hlw, hrw] at h1
    exact h1.trans (IQE.Join.nlJoin_perm jt lw rw _ hLL hRR)

/-! ### aggregation node -/

theorem absSum_eq_iwt (xs : List Val) : absSum xs = AggHom.iwt xs := by
  induction xs with
  | nil => rfl
  | cons v vs ih => cases v <;> simp [absSum, absVal, AggHom.iwt, AggHom.ival, ih]

theorem mem_zip_range {α : Type} (l : List α) (j : Nat) (a : α) (h : (j, a) ∈ (range l.length).zip l) :
    l[j]? = some a := by
  obtain ⟨i, hi, he⟩ := List.getElem_of_mem h
  simp only [List.getElem_zip, List.getElem_range, Prod.mk.injEq] at he
  obtain ⟨rfl, rfl⟩ := he
  simp

section agg
open IQE.AggHom IQE.Dist
variable {fo : FloatOps} (E : FloatExact fo)

theorem colOk_Ok (a : AggCall) (hs : aggSupported a = true) (col : List Val) (h : colOk a col = true) :
    Ok E ⟨a.fn, false, .int⟩ col := by
  obtain ⟨fn, arg, d⟩ := a
  simp only [aggSupported, colOk, Bool.and_eq_true, all_eq_true] at hs h
  obtain ⟨hall, hsum⟩ := h
  have hty : ColTy .int col := fun v hv => by
    have := hall v hv
    cases v <;> simp_all [isIntOrNull, Val.tyOf]
  have hnf : ∀ x, Val.f64 x ∉ col := fun x hx => by
    have := hall _ hx
    simp [isIntOrNull] at this
  refine ⟨hty, ⟨fun _ => .inl rfl, fun _ => by simp⟩, ?_, ?_, fun x hx => absurd hx (hnf x)⟩
  · intro hf _
    rw [← absSum_eq_iwt]
    cases fn <;> simp at hf hs hsum
    exact hsum
  · intro hn
    exfalso
    unfold needsF at hn
    cases fn <;> simp at hn hs

/-- the values the model computes for one group: every aggregate over its own column, any chunking / merge tree -/
theorem agg_vals_eq (cfg : ExecCfg) (aggs : List AggCall) (X : Table) (af : AggCall → Row → Val) :
    ((range aggs.length).zip aggs).map (fun ja =>
        (Acc.hash {} fo ⟨ja.2.fn, false, .int⟩).run
          (cfg.aggTree ((X.map fun r => aggs.map fun a => af a r).map fun (r : Row) => r.getD ja.1 .null)))
      = aggs.map fun a => (Acc.hash {} fo ⟨a.fn, false, .int⟩).run (cfg.aggTree (X.map (af a))) := by
  have h1 : ((range aggs.length).zip aggs).map (fun ja =>
        (Acc.hash {} fo ⟨ja.2.fn, false, .int⟩).run
          (cfg.aggTree ((X.map fun r => aggs.map fun a => af a r).map fun (r : Row) => r.getD ja.1 .null)))
      = ((range aggs.length).zip aggs).map (fun ja =>
        (fun a => (Acc.hash {} fo ⟨a.fn, false, .int⟩).run (cfg.aggTree (X.map (af a)))) ja.2) := by
    apply map_congr_left
    rintro ⟨j, a⟩ hja
    have hj := mem_zip_range aggs j a hja
    have : ((X.map fun r => aggs.map fun a => af a r).map fun (r : Row) => r.getD j .null) = X.map (af a) := by
      rw [map_map]
      apply map_congr_left
      intro r _
      simp [List.getD, hj]
    simp only [this]
  rw [h1]
  have key : ∀ g : AggCall → Val, ((range aggs.length).zip aggs).map (fun ja => g ja.2) = aggs.map g := by
    intro g
    rw [show (fun ja : Nat × AggCall => g ja.2) = g ∘ Prod.snd from rfl, ← map_map, List.map_snd_zip (by simp)]
  exact key (fun a => (Acc.hash {} fo ⟨a.fn, false, .int⟩).run (cfg.aggTree (X.map (af a))))

/-- one group's aggregate values, as the reference semantics computes them from ITS rows of the group -/
theorem group_vals (cx : EvalCtx) (E : FloatExact cx.fo) (cfg : ExecCfg) (aggs : List AggCall)
    (hsup : ∀ a ∈ aggs, aggSupported a = true) (af : AggCall → Row → Val) (M G X : Table)
    (hev : ∀ a ∈ aggs, a.fn ≠ .countStar → ∀ r ∈ G, eval cx (r :: []) a.arg = .ok (af a r))
    (hok : ∀ a ∈ aggs, Ok E ⟨a.fn, false, .int⟩ (M.map (af a)))
    (hXM : X <+ M) (hXG : X ~ G) :
    aggGroup cx [] aggs G =
      .ok (aggs.map fun a => (Acc.hash {} cx.fo ⟨a.fn, false, .int⟩).run (cfg.aggTree (X.map (af a)))) := by
  rw [aggGroup_eq]
  apply IQE.Bag.mapM_ok
  intro a ha
  have hd : a.distinct = false := by
    have := hsup a ha
    simp only [aggSupported, Bool.and_eq_true, Bool.not_eq_true'] at this
    exact this.1
  rw [aggCall_eq cx [] G a (af a) (hev a ha), hd]
  have hokX : Ok E ⟨a.fn, false, .int⟩ (X.map (af a)) := ok_sublist (hok a ha) (hXM.map _)
  have hperm : X.map (af a) ~ G.map (af a) := hXG.map _
  have h1 := IQE.Props.C21.C21_hash_hom E {} ⟨a.fn, false, .int⟩ rfl (cfg.aggTree (X.map (af a)))
    (by rw [cfg.aggTree_leaves]; exact hokX)
  rw [cfg.aggTree_leaves] at h1
  rw [h1]
  exact (IQE.Props.C21.C21_order_irrelevant E ⟨a.fn, false, .int⟩ hperm hokX).symm

end agg

end IQE.Lemmas.Pipeline
