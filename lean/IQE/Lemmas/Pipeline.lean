/-
  IQE.Lemmas.Pipeline — the per-node steps of C01_pipeline_refines_spec: for every operator of the pipeline fragment,
  "model input ~ reference input, both succeed  ⟹  model output ~ reference output", assembled from the per-operator
  refinement lemmas (Filter: `eval_refines` / `keep_spec`; HashJoin: `hashJoin_perm_nlJoin`; Acc: `C21_hash_hom`'s
  `run_eq_aggVal`; Bag: `groupBy` closed form, `dedup`; SortModel / OrderAux: `sortExec_flatten`, `orderLimit_eq`, ties).
-/
import IQE.Engine.Pipeline
import IQE.Lemmas.Layout
import IQE.Lemmas.HashJoin
import IQE.Lemmas.Acc
import IQE.Lemmas.Filter
import IQE.Lemmas.DistTwoPhase
import IQE.Lemmas.OrderAux
import IQE.Props.C21
import IQE.Props.C25
namespace IQE.Lemmas.Pipeline
open List IQE IQE.Spec IQE.Engine IQE.Engine.Pipeline
open IQE.Dist (tot tot_of_ok mapM_ok_iff)

/-! ### nested `mapM` -/

theorem mapM2_ok {α β : Type} [Inhabited β] (f : α → Except Err β) (ls : List (List α)) (out : List (List β))
    (h : ls.mapM (fun l => l.mapM f) = .ok out) :
    (∀ a ∈ ls.flatten, f a = .ok (tot f a)) ∧ out = ls.map (fun l => l.map (tot f)) := by
  obtain ⟨h1, h2⟩ := (mapM_ok_iff (fun l : List α => l.mapM f) ls out).mp h
  have key : ∀ l ∈ ls, (∀ a ∈ l, f a = .ok (tot f a)) ∧ tot (fun l : List α => l.mapM f) l = l.map (tot f) :=
    fun l hl => (mapM_ok_iff f l _).mp (h1 l hl)
  refine ⟨?_, ?_⟩
  · intro a ha
    obtain ⟨l, hl, hal⟩ := mem_flatten.mp ha
    exact (key l hl).1 a hal
  · rw [h2]
    exact map_congr_left fun l hl => (key l hl).2

theorem mapRows_ok {β : Type} [Inhabited β] (f : Row → Except Err β) (lay : List (List Table)) (out : List (List (List β)))
    (h : mapRows f lay = .ok out) :
    (∀ r ∈ lay.flatten.flatten, f r = .ok (tot f r)) ∧ out.flatten.flatten = lay.flatten.flatten.map (tot f) := by
  unfold mapRows at h
  obtain ⟨h1, h2⟩ := mapM2_ok (fun b : Table => b.mapM f) lay out h
  have key : ∀ b ∈ lay.flatten, (∀ a ∈ b, f a = .ok (tot f a)) ∧ tot (fun b : Table => b.mapM f) b = b.map (tot f) :=
    fun b hb => (mapM_ok_iff f b _).mp (h1 b hb)
  refine ⟨?_, ?_⟩
  · intro r hr
    obtain ⟨b, hb, hrb⟩ := mem_flatten.mp hr
    exact (key b hb).1 r hrb
  · rw [h2, IQE.Bag.map_flatten']
    have : lay.flatten.map (tot fun b : Table => b.mapM f) = lay.flatten.map (fun b => b.map (tot f)) :=
      map_congr_left fun b hb => (key b hb).2
    rw [this, IQE.Bag.map_flatten']

/-! ### scan -/

theorem scan_node (fo : FloatOps) (fns : String → List Val → Except Err Val) (cfg : ExecCfg) (cat : List (List Table))
    (t : Nat) (out ref : Table)
    (hm : runBag fo fns cfg cat (.scan t) = .ok out)
    (hs : run fo fns (cat.map List.flatten) (.scan t) [] [] = .ok ref) : out ~ ref := by
  rw [Spec.run] at hs
  rw [runBag] at hm
  rw [getElem?_map] at hs
  cases hx : cat[t]? with
  | none => simp [hx] at hm
  | some bs =>
    simp only [hx, Option.map_some, Except.ok.injEq] at hm hs
    subst hm hs
    exact cfg.layout_perm _

/-! ### filter -/

theorem filter_keeps_eq (cx : EvalCtx) (e : Expr) (rows out : List Row)
    (h : Filter.filter Filter.Dev.none cx.fo e rows = .ok out) :
    out = rows.filter (fun r => Filter.isTrueRes (Spec.eval cx [r] e)) := by
  simp only [Filter.filter, Filter.bind_ok] at h
  obtain ⟨m, hm, hk⟩ := h
  split at hk
  · simp only [Filter.pure_ok] at hk
    rw [← hk]; exact Filter.keep_spec cx e rows m hm
  · cases hk

theorem filter_node (cx : EvalCtx) (p : Expr) (lay : List (List Table)) (S ref : Table) (outs : List Table)
    (hp : lay.flatten.flatten ~ S)
    (hm : lay.flatten.mapM (Filter.filter Filter.Dev.none cx.fo p) = .ok outs)
    (hs : S.filterMapM (fun r => Spec.eval cx [r] p >>= IQE.Subq.whereKeep r) = .ok ref) : outs.flatten ~ ref := by
  let φ : Row → Bool := fun r => Filter.isTrueRes (Spec.eval cx [r] p)
  obtain ⟨h1, h2⟩ := (mapM_ok_iff _ lay.flatten outs).mp hm
  have e1 : outs = lay.flatten.map (filter φ) := by
    rw [h2]
    exact map_congr_left fun b hb => filter_keeps_eq cx p b _ (h1 b hb)
  have hall := IQE.Layout.filterMapM_ok_mem _ S ref hs
  have e2 : ref = S.filter φ := by
    have hg : ∀ r ∈ S, (Spec.eval cx [r] p >>= IQE.Subq.whereKeep r) = .ok (if φ r = true then some (id r) else none) := by
      intro r hr
      obtain ⟨b, hb⟩ := hall r hr
      cases hv : Spec.eval cx [r] p with
      | error e => rw [hv] at hb; cases hb
      | ok v =>
        rw [hv] at hb
        cases v with
        | bool bb => cases bb <;> simp [φ, hv, Filter.isTrueRes, IQE.Subq.whereKeep, bind, Except.bind]
        | null => simp [φ, hv, Filter.isTrueRes, IQE.Subq.whereKeep, bind, Except.bind]
        | _ => simp [IQE.Subq.whereKeep, bind, Except.bind] at hb
    rw [IQE.Bag.filterMapM_ok _ _ S hg, IQE.Bag.filterMap_ite_some] at hs
    cases hs
    simp
  rw [e1, e2, IQE.Bag.filter_flatten]
  exact hp.filter φ

/-! ### project -/

theorem project_node (cx : EvalCtx) (es : List Expr) (lay : List (List Table)) (S ref : Table) (outs : List (List Table))
    (hp : lay.flatten.flatten ~ S)
    (hm : mapRows (fun r => Filter.evalList Filter.Dev.none cx.fo r es) lay = .ok outs)
    (hs : S.mapM (fun r => Spec.evalList cx [r] es) = .ok ref) : outs.flatten.flatten ~ ref := by
  obtain ⟨h1, h2⟩ := mapRows_ok _ lay outs hm
  obtain ⟨_, h4⟩ := (mapM_ok_iff _ S ref).mp hs
  have hr : ∀ r ∈ S, tot (fun r => Spec.evalList cx [r] es) r = tot (fun r => Filter.evalList Filter.Dev.none cx.fo r es) r := by
    intro r hr
    have hm' := h1 r (hp.mem_iff.mpr hr)
    have := Filter.evalList_refines cx r es (fun x _ v hv => Filter.eval_refines cx r x v hv) _ hm'
    simp [tot, this]
  rw [h2, h4, map_congr_left hr]
  exact hp.map _

/-! ### join: the split of ON into hash keys and residual is sound -/

open IQE.Engine.HashJoin (keyOf keyVals keysEq onPair) in
/-- SQL equality of two key vectors, on the key column lists -/
def keysEqL (lk rk : List Nat) (l r : Row) : Bool :=
  match keyOf lk l, keyOf rk r with
  | some a, some b => decide (a = b)
  | _, _ => false

theorem keysEq_eq (c : HashJoin.Cfg) (l r : Row) : HashJoin.keysEq c l r = keysEqL c.lkeys c.rkeys l r := rfl

theorem keysEqL_nil (l r : Row) : keysEqL [] [] l r = true := by
  simp [keysEqL, HashJoin.keyOf, HashJoin.keyVals]

/-- one more key pair: both values non-NULL and structurally equal -/
def keyPairEq (x y : Val) : Bool := !x.isNull && !y.isNull && decide (x = y)

theorem keysEqL_cons (i j : Nat) (lk rk : List Nat) (l r : Row) :
    keysEqL (i :: lk) (j :: rk) l r = (keyPairEq (l.getD i .null) (r.getD j .null) && keysEqL lk rk l r) := by
  simp only [keysEqL, HashJoin.keyOf, HashJoin.keyVals, map_cons, any_cons, Bool.not_false, Bool.and_true, keyPairEq]
  cases hx : (l.getD i .null).isNull <;> cases hy : (r.getD j .null).isNull <;>
    cases ha : (lk.map fun c => l.getD c .null).any Val.isNull <;>
    cases hb : (rk.map fun c => r.getD c .null).any Val.isNull <;>
    simp [hx, hy, ha, hb]

open Std in
theorem cmpNonNull_eq_iff (fo : FloatOps) (x y : Val) (hx : notF64 x = true) (hy : notF64 y = true) (o : Ordering)
    (h : Val.cmpNonNull fo x y = .ok o) : o = .eq ↔ x = y := by
  cases x <;> cases y <;> simp [Val.cmpNonNull, notF64] at h hx hy <;> subst h
  · rename_i a b
    cases a <;> cases b <;> decide
  · rename_i a b
    simp only [Val.int.injEq]
    exact ⟨fun h => LawfulEqOrd.eq_of_compare h, fun h => h ▸ ReflCmp.compare_self⟩
  · rename_i a b
    simp only [Val.str.injEq]
    exact ⟨fun h => LawfulEqOrd.eq_of_compare h, fun h => h ▸ ReflCmp.compare_self⟩
  · rename_i a b
    simp only [Val.date.injEq]
    exact ⟨fun h => LawfulEqOrd.eq_of_compare h, fun h => h ▸ ReflCmp.compare_self⟩

theorem cmpK_eq_true_iff (fo : FloatOps) (x y v : Val) (hx : notF64 x = true) (hy : notF64 y = true)
    (h : Filter.cmpK fo .eq x y = .ok v) : v = .bool true ↔ keyPairEq x y = true := by
  unfold Filter.cmpK Val.cmp3 at h
  by_cases hxn : x = .null
  · subst hxn; simp at h; subst h; simp [keyPairEq, Val.isNull]
  by_cases hyn : y = .null
  · subst hyn
    cases x <;> simp at h hxn <;> subst h <;> simp [keyPairEq, Val.isNull]
  have hx' : x.isNull = false := by cases x <;> simp_all [Val.isNull]
  have hy' : y.isNull = false := by cases y <;> simp_all [Val.isNull]
  have h' : (match (Val.cmpNonNull fo x y).map some with
      | .error e => Except.error e
      | .ok none => Except.ok Val.null
      | .ok (some o) => Except.ok (Val.bool (ordSat .eq o))) = .ok v := by
    cases x <;> cases y <;> first | exact absurd rfl hxn | exact absurd rfl hyn | exact h
  cases hc : Val.cmpNonNull fo x y with
  | error e => simp [hc, Except.map] at h'
  | ok o =>
    simp only [hc, Except.map] at h'
    cases h'
    have := cmpNonNull_eq_iff fo x y hx hy o hc
    simp only [keyPairEq, hx', hy', Bool.not_false, Bool.true_and, decide_eq_true_eq, ← this]
    cases o <;> simp [ordSat]

theorem isTrueRes_ok (v : Val) : Filter.isTrueRes (.ok v) = true ↔ v = .bool true := by
  cases v with
  | bool b => cases b <;> simp [Filter.isTrueRes]
  | _ => simp [Filter.isTrueRes]

theorem eqKey_sound (fo : FloatOps) (lw : Nat) (e : Expr) (ij : Nat × Nat) (hk : eqKey lw e = some ij) (l r : Row)
    (hl : l.length = lw) (hx : notF64 (l.getD ij.1 .null) = true) (hy : notF64 (r.getD ij.2 .null) = true) (v : Val)
    (hv : Filter.eval Filter.Dev.none fo (l ++ r) e = .ok v) :
    v = .bool true ↔ keyPairEq (l.getD ij.1 .null) (r.getD ij.2 .null) = true := by
  unfold eqKey at hk
  split at hk
  · rename_i i j
    split at hk
    · rename_i hij
      cases hk
      simp only at hx hy ⊢
      have h1 : (l ++ r)[i]? = l[i]? := getElem?_append_left (by omega)
      have h2 : (l ++ r)[j]? = r[j - lw]? := by rw [getElem?_append_right (by omega), hl]
      simp only [Filter.eval, Filter.colAt, h1, h2, Filter.binaryOp] at hv
      cases hli : l[i]? with
      | none => simp [hli, bind, Except.bind] at hv
      | some x =>
        cases hrj : r[j - lw]? with
        | none => simp [hli, hrj, bind, Except.bind] at hv
        | some y =>
          have ex : l.getD i .null = x := by simp [List.getD, hli]
          have ey : r.getD (j - lw) .null = y := by simp [List.getD, hrj]
          simp only [hli, hrj, bind, Except.bind] at hv
          rw [ex] at hx ⊢; rw [ey] at hy ⊢
          exact cmpK_eq_true_iff fo x y v hx hy hv
    · cases hk
  · cases hk

theorem splitOn_sound (fo : FloatOps) (lw : Nat) (l r : Row) (hl : l.length = lw) (e : Expr) :
    ∀ (v : Val), Filter.eval Filter.Dev.none fo (l ++ r) e = .ok v →
    (∀ i ∈ (splitOn lw e).1, notF64 (l.getD i .null) = true) →
    (∀ j ∈ (splitOn lw e).2.1, notF64 (r.getD j .null) = true) →
    (v = .bool true ↔
      (keysEqL (splitOn lw e).1 (splitOn lw e).2.1 l r && residualOf fo (splitOn lw e).2.2 l r) = true) := by
  fun_induction splitOn lw e with
  | case1 a rest ij hk s ih =>
    intro v hv hxs hys
    simp only [Filter.eval, Filter.bind_ok, Filter.binaryOp] at hv
    obtain ⟨x, hx, y, hy, hand⟩ := hv
    have hxk := eqKey_sound fo lw a ij hk l r hl (hxs _ (List.mem_cons_self ..)) (hys _ (List.mem_cons_self ..)) x hx
    have hyk := ih y hy (fun i hi => hxs i (List.mem_cons_of_mem _ hi)) (fun j hj => hys j (List.mem_cons_of_mem _ hj))
    have hv' : v = .bool true ↔ x = .bool true ∧ y = .bool true := by
      constructor
      · intro h; subst h; exact (Filter.andK_true_iff _ x y).mp hand
      · intro h
        have := (Filter.andK_true_iff Filter.Dev.none x y).mpr h
        rw [this] at hand; cases hand; rfl
    simp only [keysEqL_cons, hv', hxk, hyk, Bool.and_eq_true, s]
    exact and_assoc.symm
  | case2 a rest hk =>
    intro v hv _ _
    simp only [keysEqL_nil, residualOf, hv, Bool.true_and, isTrueRes_ok]
  | case3 e hne ij hk =>
    intro v hv hxs hys
    have := eqKey_sound fo lw e ij hk l r hl (hxs _ (List.mem_cons_self ..)) (hys _ (List.mem_cons_self ..)) v hv
    simp only [keysEqL_cons, keysEqL_nil, residualOf, Bool.and_true, this]
  | case4 e hne hk =>
    intro v hv _ _
    simp only [keysEqL_nil, residualOf, hv, Bool.true_and, isTrueRes_ok]

/-! ### join node -/

theorem joinCfg_other (fo : FloatOps) (cfg : ExecCfg) (jt : JoinType) (hne : jt ≠ .cross) (lw rw : Nat) (on : Expr) :
    joinCfg fo cfg jt lw rw on =
      { lkeys := (splitOn lw on).1, rkeys := (splitOn lw on).2.1, residual := residualOf fo (splitOn lw on).2.2,
        lw := lw, rw := rw, buildLeft := cfg.buildLeft } := by
  cases jt <;> first | rfl | exact absurd rfl hne

theorem joinGuard_other (fo : FloatOps) (jt : JoinType) (hne : jt ≠ .cross) (lw : Nat) (on : Expr) (jc : HashJoin.Cfg)
    (L R : Table) :
    joinGuard fo jt lw on jc L R =
      (if !(L.all fun l => l.length == lw) then .error (.bad "join: left row arity differs from the declared width")
       else if !(keysHashable jc.lkeys L && keysHashable jc.rkeys R) then .error (.unsupported "join: DOUBLE equi-key")
       else if !(L.all fun l => R.all fun r => onOk fo on l r) then .error (.type "join condition is not boolean")
       else .ok ()) := by
  cases jt <;> first | rfl | exact absurd rfl hne

theorem keysHashable_mem (cols : List Nat) (t : Table) (h : keysHashable cols t = true) (row : Row) (hr : row ∈ t) :
    ∀ i ∈ cols, notF64 (row.getD i .null) = true := by
  intro i hi
  simp only [keysHashable, all_eq_true, HashJoin.keyVals] at h
  exact h row hr _ (mem_map.mpr ⟨i, hi, rfl⟩)

theorem join_node (cx : EvalCtx) (cfg : ExecCfg) (jt : JoinType) (lw rw : Nat) (on : Expr) (ML MR SL SR ref : Table)
    (hL : ML ~ SL) (hR : MR ~ SR)
    (hg : joinGuard cx.fo jt lw on (joinCfg cx.fo cfg jt lw rw on) ML MR = .ok ())
    (hs : joinRows cx [] jt lw rw on SL SR = .ok ref) :
    HashJoin.hashJoin {} jt (joinCfg cx.fo cfg jt lw rw on) (cfg.layout ML) (cfg.layout MR) ~ ref := by
  have hlw : (joinCfg cx.fo cfg jt lw rw on).lw = lw := by cases jt <;> rfl
  have hrw : (joinCfg cx.fo cfg jt lw rw on).rw = rw := by cases jt <;> rfl
  have hLL : (cfg.layout ML).flatten.flatten ~ SL := (cfg.layout_perm ML).trans hL
  have hRR : (cfg.layout MR).flatten.flatten ~ SR := (cfg.layout_perm MR).trans hR
  by_cases hc : jt = .cross
  · subst hc
    have h1 := HashJoin.hashJoin_perm_nlJoin .cross (joinCfg cx.fo cfg .cross lw rw on) (cfg.layout ML) (cfg.layout MR)
      (fun _ l _ r _ => by simp [joinCfg, HashJoin.onPair, HashJoin.keysEq, HashJoin.keyOf, HashJoin.keyVals])
    simp only [joinRows, Except.ok.injEq] at hs
    subst hs
    rw [hlw, hrw] at h1
    exact h1.trans (IQE.Join.nlJoin_perm .cross lw rw _ hLL hRR)
  · rw [joinGuard_other cx.fo jt hc] at hg
    have hjc := joinCfg_other cx.fo cfg jt hc lw rw on
    generalize joinCfg cx.fo cfg jt lw rw on = jc at *
    by_cases g1 : (ML.all fun l => l.length == lw) = true
    case neg => simp [g1] at hg
    by_cases g2 : (keysHashable jc.lkeys ML && keysHashable jc.rkeys MR) = true
    case neg => simp [g1, g2] at hg
    by_cases g3 : (ML.all fun l => MR.all fun r => onOk cx.fo on l r) = true
    case neg => simp [g1, g2, g3] at hg
    simp only [Bool.and_eq_true] at g2
    have hon : ∀ l ∈ SL, ∀ r ∈ SR, onTrue cx [] on (l ++ r) = .ok (HashJoin.onPair jc l r) := by
      intro l hl r hr
      have hl' := hL.mem_iff.mpr hl
      have hr' := hR.mem_iff.mpr hr
      have hlen : l.length = lw := by
        have := (all_eq_true.mp g1) l hl'
        simpa using this
      have hok : onOk cx.fo on l r = true := all_eq_true.mp (all_eq_true.mp g3 l hl') r hr'
      unfold onOk at hok
      cases hv : Filter.eval Filter.Dev.none cx.fo (l ++ r) on with
      | error e => simp [hv] at hok
      | ok v =>
        simp only [hv] at hok
        have hsv := Filter.eval_refines cx (l ++ r) on v hv
        have hsound := splitOn_sound cx.fo lw l r hlen on v hv
          (by have := keysHashable_mem _ _ g2.1 l hl'; rw [hjc] at this; exact this)
          (by have := keysHashable_mem _ _ g2.2 r hr'; rw [hjc] at this; exact this)
        have hpair : HashJoin.onPair jc l r =
            (keysEqL (splitOn lw on).1 (splitOn lw on).2.1 l r && residualOf cx.fo (splitOn lw on).2.2 l r) := by
          rw [hjc]; rfl
        rw [← hpair] at hsound
        simp only [onTrue, hsv]
        cases v with
        | bool b =>
          cases b
          · have : HashJoin.onPair jc l r = false := by
              cases h : HashJoin.onPair jc l r
              · rfl
              · exact absurd (hsound.mpr h) (by simp)
            simp [this, bind, Except.bind, pure, Except.pure]
          · have : HashJoin.onPair jc l r = true := hsound.mp rfl
            simp [this, bind, Except.bind, pure, Except.pure]
        | null =>
          have : HashJoin.onPair jc l r = false := by
            cases h : HashJoin.onPair jc l r
            · rfl
            · exact absurd (hsound.mpr h) (by simp)
          simp [this, bind, Except.bind, pure, Except.pure]
        | _ => simp [Filter.isBoolOrNull] at hok
    have h1 := HashJoin.hashJoin_perm_nlJoin jt jc (cfg.layout ML) (cfg.layout MR) (fun h => absurd h hc)
    rw [IQE.Join.joinRows_eq_nlJoin cx [] jt lw rw on (HashJoin.onPair jc) SL SR hon] at hs
    cases hs
    rw [hlw, hrw] at h1
    exact h1.trans (IQE.Join.nlJoin_perm jt lw rw _ hLL hRR)

/-! ### aggregation node -/

theorem absSum_eq_iwt (xs : List Val) : absSum xs = AggHom.iwt xs := by
  induction xs with
  | nil => rfl
  | cons v vs ih => cases v <;> simp [absSum, absVal, AggHom.iwt, AggHom.ival, ih]

theorem mem_zip_range {α : Type} (l : List α) (j : Nat) (a : α) (h : (j, a) ∈ (range l.length).zip l) :
    l[j]? = some a := by
  obtain ⟨i, hi, he⟩ := List.getElem_of_mem h
  simp only [List.getElem_zip, List.getElem_range, Prod.mk.injEq] at he
  obtain ⟨rfl, rfl⟩ := he
  simp

section agg
open IQE.AggHom IQE.Dist
variable {fo : FloatOps} (E : FloatExact fo)

theorem colOk_Ok (a : AggCall) (hs : aggSupported a = true) (col : List Val) (h : colOk a col = true) :
    Ok E ⟨a.fn, false, .int⟩ col := by
  obtain ⟨fn, arg, d⟩ := a
  simp only [aggSupported, colOk, Bool.and_eq_true, all_eq_true] at hs h
  obtain ⟨hall, hsum⟩ := h
  have hty : ColTy .int col := fun v hv => by
    have := hall v hv
    cases v <;> simp_all [isIntOrNull, Val.tyOf]
  have hnf : ∀ x, Val.f64 x ∉ col := fun x hx => by
    have := hall _ hx
    simp [isIntOrNull] at this
  refine ⟨hty, ⟨fun _ => .inl rfl, fun _ => by simp⟩, ?_, ?_, fun x hx => absurd hx (hnf x)⟩
  · intro hf _
    rw [← absSum_eq_iwt]
    cases fn <;> simp at hf hs hsum
    exact hsum
  · intro hn
    exfalso
    unfold needsF at hn
    cases fn <;> simp at hn hs

/-- the values the model computes for one group: every aggregate over its own column, any chunking / merge tree -/
theorem agg_vals_eq (cfg : ExecCfg) (aggs : List AggCall) (X : Table) (af : AggCall → Row → Val) :
    ((range aggs.length).zip aggs).map (fun ja =>
        (Acc.hash {} fo ⟨ja.2.fn, false, .int⟩).run
          (cfg.aggTree ((X.map fun r => aggs.map fun a => af a r).map fun (r : Row) => r.getD ja.1 .null)))
      = aggs.map fun a => (Acc.hash {} fo ⟨a.fn, false, .int⟩).run (cfg.aggTree (X.map (af a))) := by
  have h1 : ((range aggs.length).zip aggs).map (fun ja =>
        (Acc.hash {} fo ⟨ja.2.fn, false, .int⟩).run
          (cfg.aggTree ((X.map fun r => aggs.map fun a => af a r).map fun (r : Row) => r.getD ja.1 .null)))
      = ((range aggs.length).zip aggs).map (fun ja =>
        (fun a => (Acc.hash {} fo ⟨a.fn, false, .int⟩).run (cfg.aggTree (X.map (af a)))) ja.2) := by
    apply map_congr_left
    rintro ⟨j, a⟩ hja
    have hj := mem_zip_range aggs j a hja
    have : ((X.map fun r => aggs.map fun a => af a r).map fun (r : Row) => r.getD j .null) = X.map (af a) := by
      rw [map_map]
      apply map_congr_left
      intro r _
      simp [List.getD, hj]
    simp only [this]
  rw [h1]
  have key : ∀ g : AggCall → Val, ((range aggs.length).zip aggs).map (fun ja => g ja.2) = aggs.map g := by
    intro g
    rw [show (fun ja : Nat × AggCall => g ja.2) = g ∘ Prod.snd from rfl, ← map_map, List.map_snd_zip (by simp)]
  exact key (fun a => (Acc.hash {} fo ⟨a.fn, false, .int⟩).run (cfg.aggTree (X.map (af a))))

/-- one group's aggregate values, as the reference semantics computes them from ITS rows of the group -/
theorem group_vals (cx : EvalCtx) (E : FloatExact cx.fo) (cfg : ExecCfg) (aggs : List AggCall)
    (hsup : ∀ a ∈ aggs, aggSupported a = true) (af : AggCall → Row → Val) (M G X : Table)
    (hev : ∀ a ∈ aggs, a.fn ≠ .countStar → ∀ r ∈ G, eval cx (r :: []) a.arg = .ok (af a r))
    (hok : ∀ a ∈ aggs, Ok E ⟨a.fn, false, .int⟩ (M.map (af a)))
    (hXM : X <+ M) (hXG : X ~ G) :
    aggGroup cx [] aggs G =
      .ok (aggs.map fun a => (Acc.hash {} cx.fo ⟨a.fn, false, .int⟩).run (cfg.aggTree (X.map (af a)))) := by
  rw [aggGroup_eq]
  apply IQE.Bag.mapM_ok
  intro a ha
  have hd : a.distinct = false := by
    have := hsup a ha
    simp only [aggSupported, Bool.and_eq_true, Bool.not_eq_true'] at this
    exact this.1
  rw [aggCall_eq cx [] G a (af a) (hev a ha), hd]
  have hokX : Ok E ⟨a.fn, false, .int⟩ (X.map (af a)) := ok_sublist (hok a ha) (hXM.map _)
  have hperm : X.map (af a) ~ G.map (af a) := hXG.map _
  have h1 := IQE.Props.C21.C21_hash_hom E {} ⟨a.fn, false, .int⟩ rfl (cfg.aggTree (X.map (af a)))
    (by rw [cfg.aggTree_leaves]; exact hokX)
  rw [cfg.aggTree_leaves] at h1
  rw [h1]
  exact (IQE.Props.C21.C21_order_irrelevant E ⟨a.fn, false, .int⟩ hperm hokX).symm

end agg

theorem not_not_true {b : Bool} (h : ¬ ((!b) = true)) : b = true := by cases b <;> simp_all

section aggnode
open IQE.AggHom IQE.Dist

theorem zip_range_of_mem {α : Type} (l : List α) (a : α) (ha : a ∈ l) : ∃ j, (j, a) ∈ (range l.length).zip l := by
  obtain ⟨j, hj, rfl⟩ := List.getElem_of_mem ha
  refine ⟨j, List.mem_iff_getElem.mpr ⟨j, by simp [hj], ?_⟩⟩
  simp [List.getElem_zip, List.getElem_range]

theorem col_eq (aggs : List AggCall) (X : Table) (kf : Row → Row) (af : AggCall → Row → Val) (j : Nat) (a : AggCall)
    (hj : aggs[j]? = some a) :
    ((X.map fun r => (kf r, aggs.map fun a => af a r)).map fun kr => kr.2.getD j .null) = X.map (af a) := by
  rw [map_map]
  apply map_congr_left
  intro r _
  simp [List.getD, hj]

theorem rowsOf_map (kf : Row → Row) (g : Row → Row) (k : Row) (M : Table) :
    IQE.Bag.rowsOf k (M.map fun r => (kf r, g r)) = (kfil kf k M).map g := by
  induction M with
  | nil => rfl
  | cons r t ih =>
    simp only [IQE.Bag.rowsOf, kfil, map_cons, filter_cons] at ih ⊢
    by_cases h : kf r = k <;> simp [h, ih]

/-- the model's rows of the group with key `k` -/
def Mg (keys : List Expr) (kf : Row → Row) (M : Table) (k : Row) : Table := if keys.isEmpty then M else kfil kf k M

/-- the aggregate values over the rows `X` -/
def Vof (fo : FloatOps) (cfg : ExecCfg) (aggs : List AggCall) (af : AggCall → Row → Val) (X : Table) : Row :=
  aggs.map fun a => (Acc.hash {} fo ⟨a.fn, false, .int⟩).run (cfg.aggTree (X.map (af a)))

theorem agg_node (cx : EvalCtx) (E : FloatExact cx.fo) (cfg : ExecCfg) (keys : List Expr) (aggs : List AggCall)
    (lay : List (List Table)) (S ref : Table) (keyed : List (List (List (Row × Row))))
    (hp : lay.flatten.flatten ~ S)
    (hm : mapRows (keyedRow cx.fo keys aggs) lay = .ok keyed)
    (hg : aggGuard aggs keyed.flatten.flatten = .ok ())
    (hs : aggregate cx [] keys aggs S = .ok ref) :
    (groupAggT cx.fo cfg aggs keys.isEmpty keyed.flatten.flatten).map (fun kv => kv.1 ++ kv.2) ~ ref := by
  obtain ⟨h1, h2⟩ := mapRows_ok _ lay keyed hm
  generalize lay.flatten.flatten = M at *
  obtain ⟨kf, hkfd⟩ : ∃ kf, kf = kfOf cx [] keys := ⟨_, rfl⟩
  obtain ⟨af, hafd⟩ : ∃ af, af = afOf cx [] := ⟨_, rfl⟩
  have hrow : ∀ r ∈ M, tot (keyedRow cx.fo keys aggs) r = (kf r, aggs.map fun a => af a r) ∧
      evalList cx [r] keys = .ok (kf r) ∧ (∀ a ∈ aggs, a.fn ≠ .countStar → eval cx [r] a.arg = .ok (af a r)) := by
    intro r hr
    have h := h1 r hr
    generalize tot (keyedRow cx.fo keys aggs) r = kr at h
    simp only [keyedRow, Filter.bind_ok, Filter.pure_ok] at h
    obtain ⟨k, hk, args, hargs, rfl⟩ := h
    have hk' := Filter.evalList_refines cx r keys (fun x _ v hv => Filter.eval_refines cx r x v hv) k hk
    obtain ⟨ha1, ha2⟩ := (mapM_ok_iff _ aggs args).mp hargs
    have hkf : kf r = k := by simp [hkfd, kfOf, tot, hk']
    have haf : ∀ a ∈ aggs, tot (argOf cx.fo r) a = af a r ∧ (a.fn ≠ .countStar → eval cx [r] a.arg = .ok (af a r)) := by
      intro a ha
      have h := ha1 a ha
      by_cases hcs : a.fn = .countStar
      · refine ⟨?_, fun h => absurd hcs h⟩
        obtain ⟨fn, arg, d⟩ := a
        simp only at hcs
        subst hcs
        simp [tot, argOf, hafd, afOf]
      · have he : argOf cx.fo r a = Filter.eval Filter.Dev.none cx.fo r a.arg := by
          unfold argOf
          split
          · rename_i h'; exact absurd h' hcs
          · rfl
        rw [he] at h
        have hv := Filter.eval_refines cx r a.arg _ h
        have : af a r = tot (argOf cx.fo r) a := by
          rw [hafd, afOf_eq cx [] a hcs]
          simp [tot, hv]
        exact ⟨this.symm, fun _ => this ▸ hv⟩
    refine ⟨?_, hkf ▸ hk', fun a ha => (haf a ha).2⟩
    rw [hkf, ha2]
    congr 1
    exact map_congr_left fun a ha => (haf a ha).1
  have hkeyed : keyed.flatten.flatten = M.map fun r => (kf r, aggs.map fun a => af a r) := by
    rw [h2]; exact map_congr_left fun r hr => (hrow r hr).1
  rw [hkeyed] at hg ⊢
  unfold aggGuard at hg
  split at hg
  · cases hg
  rename_i g1
  split at hg
  · cases hg
  rename_i g2
  replace g1 := not_not_true g1
  replace g2 := not_not_true g2
  have hsup : ∀ a ∈ aggs, aggSupported a = true := all_eq_true.mp g1
  have hok : ∀ a ∈ aggs, Ok E ⟨a.fn, false, .int⟩ (M.map (af a)) := by
    intro a ha
    obtain ⟨j, hmem⟩ := zip_range_of_mem aggs a ha
    have hcol := all_eq_true.mp g2 (j, a) hmem
    simp only [col_eq aggs M kf af j a (mem_zip_range aggs j a hmem)] at hcol
    exact colOk_Ok E a (hsup a ha) _ hcol
  have hMgsub : ∀ k, Mg keys kf M k <+ M := by
    intro k; unfold Mg; split
    · exact Sublist.refl _
    · exact filter_sublist
  have hgr : ∀ kg ∈ groupsOf keys kf S, aggGroup cx [] aggs kg.2 = .ok (Vof cx.fo cfg aggs af (Mg keys kf M kg.1)) := by
    intro kg hkg
    have hsub := groupsOf_sublist kf keys S kg hkg
    refine group_vals cx E cfg aggs hsup af M kg.2 (Mg keys kf M kg.1) ?_ hok (hMgsub _) ?_
    · intro a ha hcs r hr
      exact (hrow r (hp.mem_iff.mpr (hsub.subset hr))).2.2 a ha hcs
    · unfold groupsOf at hkg
      unfold Mg
      split at hkg
      · rename_i hk
        simp only [mem_singleton] at hkg
        subst hkg
        rw [if_pos hk]
        exact hp
      · rename_i hk
        rw [groupBy_keyedBy] at hkg
        obtain ⟨k, _, rfl⟩ := mem_map.mp hkg
        rw [if_neg hk]
        exact hp.filter _
  have hspec := aggregate_ok cx [] keys aggs S kf (fun kg => Vof cx.fo cfg aggs af (Mg keys kf M kg.1))
    (fun _ r hr => (hrow r (hp.mem_iff.mpr hr)).2.1) hgr
  rw [hspec] at hs
  cases hs
  by_cases hke : keys.isEmpty = true
  · have e1 : groupAggT cx.fo cfg aggs keys.isEmpty (M.map fun r => (kf r, aggs.map fun a => af a r))
        = [([], Vof cx.fo cfg aggs af M)] := by
      simp only [groupAggT, hke, if_true, map_cons, map_nil]
      have : (M.map fun r => (kf r, aggs.map fun a => af a r)).map (fun x => x.2) = M.map fun r => aggs.map fun a => af a r := by
        rw [map_map]; rfl
      rw [this, agg_vals_eq cfg aggs M af]
      rfl
    rw [e1]
    simp only [groupsOf, hke, if_true, map_cons, map_nil, Mg]
    exact Perm.refl _
  · have hke' : keys.isEmpty = false := by simpa using hke
    have e1 : groupAggT cx.fo cfg aggs keys.isEmpty (M.map fun r => (kf r, aggs.map fun a => af a r))
        = (IQE.Bag.dedup (M.map kf)).map fun k => (k, Vof cx.fo cfg aggs af (kfil kf k M)) := by
      simp only [groupAggT, hke', Bool.false_eq_true, if_false]
      rw [IQE.Bag.groupBy_eq, IQE.Bag.groupSpec, map_map, map_map]
      have : (fun x : Row × Row => x.1) ∘ (fun r => (kf r, aggs.map fun a => af a r)) = kf := rfl
      rw [this]
      apply map_congr_left
      intro k _
      simp only [Function.comp_def, rowsOf_map kf (fun r => aggs.map fun a => af a r) k M]
      rw [agg_vals_eq cfg aggs (kfil kf k M) af]
      rfl
    rw [e1]
    simp only [groupsOf, hke', Bool.false_eq_true, if_false, groupBy_keyedBy, map_map, Function.comp_def, Mg]
    exact (IQE.Bag.dedup_perm (hp.map kf)).map _

end aggnode

/-! ### distinct, union all -/

theorem distinct_node (fo : FloatOps) (M S : Table) (g : List (Row × Row)) (hp : M ~ S)
    (hm : Acc.groupAgg {} fo .hash [] false (M.map fun r => (r, [])) = .ok g) :
    g.map (·.1) ~ dedupRows S := by
  rw [Acc.groupAgg_eq] at hm
  cases hm
  rw [map_map, IQE.Bag.groupBy_eq, IQE.Bag.groupSpec, map_map, map_map, IQE.Bag.dedupRows_eq]
  have : (fun x : Row × Row => x.1) ∘ (fun r : Row => (r, ([] : Row))) = id := rfl
  rw [this, map_id]
  have e : ∀ (F : Row → Row) (l : List Row), (∀ k, F k = k) → l.map F = l :=
    fun F l h => by rw [show F = id from funext h, map_id]
  exact (Perm.of_eq (e _ _ (fun k => rfl))).trans (IQE.Bag.dedup_perm hp)

/-! ### `Spec.run` equations used below -/

theorem run_agg (fo : FloatOps) (fns : String → List Val → Except Err Val) (cat : List Table) (keys : List Expr)
    (aggs : List AggCall) (q : Query) (ctes : List Table) (env : Env) :
    Spec.run fo fns cat (.agg keys aggs q) ctes env =
      (Spec.run fo fns cat q ctes env >>= fun rows => aggregate (IQE.Subq.aggCx fo fns) env keys aggs rows) := by
  rw [Spec.run]
  rfl

theorem run_values (fo : FloatOps) (fns : String → List Val → Except Err Val) (cat : List Table) (rows : List (List Expr))
    (ctes : List Table) (env : Env) :
    Spec.run fo fns cat (.values rows) ctes env =
      rows.mapM (fun es => evalList { fo := fo, runSub := fun _ _ => .error (.bad "subquery in VALUES"), fn := fns } env es) := by
  rw [Spec.run]

/-! ### the induction over the unordered fragment -/

/-- **model output ~ reference output** for every plan of the unordered fragment, every configuration, every catalog layout -/
theorem runBag_refines {fo : FloatOps} (E : AggHom.FloatExact fo) (fns : String → List Val → Except Err Val) (cfg : ExecCfg)
    (cat : List (List Table)) (q : Query) :
    bagFrag q = true → ∀ out ref, runBag fo fns cfg cat q = .ok out →
      Spec.run fo fns (cat.map List.flatten) q [] [] = .ok ref → out ~ ref := by
  fun_induction bagFrag q with
  | case1 t =>
    intro _ out ref hm hs
    exact scan_node fo fns cfg cat t out ref hm hs
  | case2 rows =>
    intro _ out ref hm hs
    rw [run_values] at hs
    rw [runBag] at hm
    simp only [Values.lower, Bool.false_eq_true, if_false] at hm
    rw [hm] at hs
    cases hs
    exact Perm.refl _
  | case3 p q ih =>
    intro hq out ref hm hs
    rw [runBag] at hm
    simp only [Filter.bind_ok, Filter.pure_ok] at hm
    obtain ⟨t, ht, outs, houts, rfl⟩ := hm
    rw [IQE.Subq.run_filter] at hs
    obtain ⟨S, hS, hs⟩ := Filter.bind_ok.mp hs
    exact filter_node (IQE.Subq.nodeCx fo fns _ [] []) p (cfg.layout t) S ref outs
      ((cfg.layout_perm t).trans (ih hq t S ht hS)) houts hs
  | case4 es q ih =>
    intro hq out ref hm hs
    rw [runBag] at hm
    simp only [Filter.bind_ok, Filter.pure_ok] at hm
    obtain ⟨t, ht, outs, houts, rfl⟩ := hm
    rw [IQE.Layout.run_project] at hs
    obtain ⟨S, hS, hs⟩ := Filter.bind_ok.mp hs
    exact project_node (IQE.Subq.nodeCx fo fns _ [] []) es (cfg.layout t) S ref outs
      ((cfg.layout_perm t).trans (ih hq t S ht hS)) houts hs
  | case5 jt lw rw on l r ihl ihr =>
    intro hq out ref hm hs
    simp only [Bool.and_eq_true] at hq
    rw [runBag] at hm
    simp only [Filter.bind_ok, Filter.pure_ok] at hm
    obtain ⟨L, hL, R, hR, u, hg, rfl⟩ := hm
    rw [IQE.Subq.run_join] at hs
    obtain ⟨SL, hSL, hs⟩ := Filter.bind_ok.mp hs
    obtain ⟨SR, hSR, hs⟩ := Filter.bind_ok.mp hs
    exact join_node (IQE.Subq.nodeCx fo fns _ [] []) cfg jt lw rw on L R SL SR ref
      (ihl hq.1 L SL hL hSL) (ihr hq.2 R SR hR hSR) hg hs
  | case6 keys aggs q ih =>
    intro hq out ref hm hs
    simp only [Bool.and_eq_true] at hq
    rw [runBag] at hm
    simp only [Filter.bind_ok, Filter.pure_ok] at hm
    obtain ⟨t, ht, keyed, hkeyed, u, hg, rfl⟩ := hm
    rw [run_agg] at hs
    obtain ⟨S, hS, hs⟩ := Filter.bind_ok.mp hs
    exact agg_node (IQE.Subq.aggCx fo fns) E cfg keys aggs (cfg.layout t) S ref keyed
      ((cfg.layout_perm t).trans (ih hq.2 t S ht hS)) hkeyed hg hs
  | case7 q ih =>
    intro hq out ref hm hs
    rw [runBag] at hm
    simp only [Filter.bind_ok, Filter.pure_ok] at hm
    obtain ⟨t, ht, g, hg, rfl⟩ := hm
    rw [IQE.Layout.run_distinct] at hs
    obtain ⟨S, hS, hs⟩ := Filter.bind_ok.mp hs
    cases hs
    exact distinct_node fo _ S g ((cfg.layout_perm t).trans (ih hq t S ht hS)) hg
  | case8 l r ihl ihr =>
    intro hq out ref hm hs
    simp only [Bool.and_eq_true] at hq
    rw [runBag] at hm
    simp only [Filter.bind_ok, Filter.pure_ok] at hm
    obtain ⟨L, hL, R, hR, rfl⟩ := hm
    rw [IQE.Layout.run_unionAll] at hs
    obtain ⟨SL, hSL, hs⟩ := Filter.bind_ok.mp hs
    obtain ⟨SR, hSR, hs⟩ := Filter.bind_ok.mp hs
    cases hs
    rw [flatten_append, flatten_append]
    exact ((cfg.layout_perm L).trans (ihl hq.1 L SL hL hSL)).append ((cfg.layout_perm R).trans (ihr hq.2 R SR hR hSR))
  | case9 q _ _ _ _ _ _ _ _ =>
    intro hq
    cases hq

/-! ### the ordered top level -/

section ordered
open IQE.Lemmas.SortModel IQE.Lemmas.OrderAux IQE.Lemmas.KeyOrder IQE.Lemmas.Sorting IQE.Engine.SortLimit

/-- the expression context of ORDER BY in `Spec.run` / `Spec.acceptable` -/
abbrev sortCx (fo : FloatOps) (fns : String → List Val → Except Err Val) : EvalCtx :=
  { fo := fo, fn := fns, runSub := fun _ _ => .error (.unsupported "subquery inside ORDER BY") }

/-- the sort-key vector of a row, as a pure function -/
def kvOf (cx : EvalCtx) (keys : List SortKey) : Row → List Val := tot fun r => evalList cx [r] (keys.map (·.e))

def keyedOf (cx : EvalCtx) (keys : List SortKey) (t : Table) : List Keyed := t.map fun r => (kvOf cx keys r, r)

theorem keyedOf_snd (cx : EvalCtx) (keys : List SortKey) (t : Table) : (keyedOf cx keys t).map (·.2) = t := by
  simp [keyedOf, Function.comp_def]

theorem keyedOf_mem (cx : EvalCtx) (keys : List SortKey) (t : Table) (x : Keyed) (hx : x ∈ keyedOf cx keys t) :
    x.2 ∈ t ∧ x.1 = kvOf cx keys x.2 := by
  obtain ⟨r, hr, rfl⟩ := mem_map.mp hx
  exact ⟨hr, rfl⟩

/-- the model's key evaluation over the batches is the pure keyed table -/
theorem sort_keyed (cx : EvalCtx) (keys : List SortKey) (lay : List (List Table)) (parts : List (List (List Keyed)))
    (hm : mapRows (Engine.Pipeline.sortKeyed cx.fo keys) lay = .ok parts) :
    parts.flatten.flatten = keyedOf cx keys lay.flatten.flatten ∧
    ∀ r ∈ lay.flatten.flatten, evalList cx [r] (keys.map (·.e)) = .ok (kvOf cx keys r) := by
  obtain ⟨h1, h2⟩ := mapRows_ok _ lay parts hm
  have key : ∀ r ∈ lay.flatten.flatten, tot (Engine.Pipeline.sortKeyed cx.fo keys) r = (kvOf cx keys r, r) ∧
      evalList cx [r] (keys.map (·.e)) = .ok (kvOf cx keys r) := by
    intro r hr
    have h := h1 r hr
    generalize tot (Engine.Pipeline.sortKeyed cx.fo keys) r = kr at h
    simp only [Engine.Pipeline.sortKeyed, Filter.bind_ok, Filter.pure_ok] at h
    obtain ⟨kv, hkv, rfl⟩ := h
    have hs := Filter.evalList_refines cx r _ (fun x _ v hv => Filter.eval_refines cx r x v hv) kv hkv
    have : kvOf cx keys r = kv := by simp [kvOf, tot, hs]
    rw [this]
    exact ⟨rfl, hs⟩
  refine ⟨?_, fun r hr => (key r hr).2⟩
  rw [h2, keyedOf]
  exact map_congr_left fun r hr => (key r hr).1

/-- the reference ORDER BY in pure form -/
theorem spec_sort_ok (fo : FloatOps) (fns : String → List Val → Except Err Val) (cat : List Table) (keys : List SortKey)
    (q : Query) (full : Table) (h : Spec.run fo fns cat (.sort keys q) [] [] = .ok full) :
    ∃ S, Spec.run fo fns cat q [] [] = .ok S ∧
      full = (Spec.sortKeyed fo (flagsOf keys) (keyedOf (sortCx fo fns) keys S)).map (·.2) ∧
      ∀ r ∈ S, evalList (sortCx fo fns) [r] (keys.map (·.e)) = .ok (kvOf (sortCx fo fns) keys r) := by
  rw [IQE.Dist.run_sort] at h
  obtain ⟨S, hS, h⟩ := Filter.bind_ok.mp h
  obtain ⟨keyed, hk, h⟩ := Filter.bind_ok.mp h
  obtain ⟨h1, h2⟩ := (mapM_ok_iff _ S keyed).mp hk
  have key : ∀ r ∈ S, tot (fun r => do
        pure ((← evalList (sortCx fo fns) (r :: []) (keys.map (·.e))), r) : Row → Except Err Keyed) r
        = (kvOf (sortCx fo fns) keys r, r) ∧
      evalList (sortCx fo fns) [r] (keys.map (·.e)) = .ok (kvOf (sortCx fo fns) keys r) := by
    intro r hr
    have h := h1 r hr
    generalize tot (fun r => do
        pure ((← evalList (sortCx fo fns) (r :: []) (keys.map (·.e))), r) : Row → Except Err Keyed) r = kr at h
    simp only [Filter.bind_ok, Filter.pure_ok] at h
    obtain ⟨kv, hkv, rfl⟩ := h
    have : kvOf (sortCx fo fns) keys r = kv := by simp [kvOf, tot, hkv]
    rw [this]
    exact ⟨rfl, hkv⟩
  refine ⟨S, hS, ?_, fun r hr => (key r hr).2⟩
  simp only [Filter.pure_ok] at h
  rw [← h, h2, keyedOf]
  congr 2
  exact map_congr_left fun r hr => (key r hr).1

theorem typedB_Typed : ∀ (tys : List Ty) (kv : List Val), typedB tys kv = true → Typed tys kv
  | [], [], _ => trivial
  | t :: ts, v :: vs, h => by
    simp only [typedB, Bool.and_eq_true, Bool.or_eq_true, beq_iff_eq] at h
    refine ⟨?_, typedB_Typed ts vs h.2⟩
    rcases h.1 with h1 | h1
    · left; cases v <;> simp_all [Val.isNull]
    · right; exact h1
  | [], _ :: _, h => by simp [typedB] at h
  | _ :: _, [], h => by simp [typedB] at h

theorem sortGuard_typed (n : Nat) (keyed : List Keyed) (h : sortGuard n keyed = .ok ()) :
    ∃ tys : List Ty, tys.length = n ∧ KeysTyped tys keyed := by
  unfold sortGuard at h
  split at h
  · rename_i hall
    exact ⟨keyTys n (keyed.map (·.1)), by simp [keyTys], fun x hx => typedB_Typed _ _ (all_eq_true.mp hall x hx)⟩
  · cases h

theorem usizeGuard_ok (skip len : Nat) (h : usizeGuard skip len = .ok ()) :
    (skip : Int) ≤ Rs.USIZE_MAX ∧ (len : Int) ≤ Rs.USIZE_MAX := by
  unfold usizeGuard at h
  split at h
  · rename_i hc
    simpa using hc
  · cases h

theorem sortedBy_of_pairwise (fo : FloatOps) (flags : List (Bool × Bool)) :
    ∀ (l : List (List Val)), l.Pairwise (fun a b => cmpKeys fo flags a b ≠ .gt) → sortedBy fo flags l = true
  | [], _ => rfl
  | [_], _ => rfl
  | a :: b :: rest, h => by
    rw [pairwise_cons] at h
    simp only [sortedBy, Bool.and_eq_true, bne_iff_ne, ne_eq]
    exact ⟨h.1 b (by simp), sortedBy_of_pairwise fo flags (b :: rest) h.2⟩

theorem takeOpt_map {α β : Type} (f : α → β) (fetch : Option Nat) (l : List α) :
    (takeOpt fetch l).map f = takeOpt fetch (l.map f) := by
  cases fetch <;> simp [takeOpt]

theorem takeOpt_drop_sublist {α : Type} (fetch : Option Nat) (skip : Nat) (l : List α) : takeOpt fetch (l.drop skip) <+ l := by
  cases fetch with
  | none => exact drop_sublist _ _
  | some n => exact (take_sublist _ _).trans (drop_sublist _ _)

theorem subBag_of_sublist_perm (a b c : Table) (h1 : a <+ b) (h2 : b ~ c) : subBag a c = true :=
  (IQE.Lemmas.Bag.subBag_iff_count a c).mpr fun x => (h2.count_eq x) ▸ h1.count_le x

/-- what the model's keyed table and the reference keyed table have in common -/
theorem keyed_perm (cx : EvalCtx) (keys : List SortKey) {M S : Table} (h : M ~ S) : keyedOf cx keys M ~ keyedOf cx keys S :=
  h.map _

/-- **ORDER BY at the top**: the model's output is a permutation of the reference answer, its key vectors evaluate, and they
    are sorted under the ORDER BY comparator — what `Spec.acceptable` checks -/
theorem sort_top (fo : FloatOps) (fns : String → List Val → Except Err Val) (cfg : ExecCfg) (keys : List SortKey)
    (M S out full : Table) (hMS : M ~ S) (hm : sortTop fo cfg keys M = .ok out)
    (hfull : full = (Spec.sortKeyed fo (flagsOf keys) (keyedOf (sortCx fo fns) keys S)).map (·.2))
    (hSk : ∀ r ∈ S, evalList (sortCx fo fns) [r] (keys.map (·.e)) = .ok (kvOf (sortCx fo fns) keys r)) :
    out ~ full ∧ ∃ ko, keysOf (sortCx fo fns) [] keys out = .ok ko ∧ sortedBy fo (flagsOf keys) ko = true := by
  unfold sortTop at hm
  simp only [Filter.bind_ok, Filter.pure_ok] at hm
  obtain ⟨parts, hparts, u, hguard, rfl⟩ := hm
  obtain ⟨hk1, _⟩ := sort_keyed (sortCx fo fns) keys (cfg.layout M) parts hparts
  have hM' : (cfg.layout M).flatten.flatten ~ S := (cfg.layout_perm M).trans hMS
  generalize (cfg.layout M).flatten.flatten = M' at *
  obtain ⟨tys, htl, hty⟩ := sortGuard_typed _ _ hguard
  have hlen : (flagsOf keys).length ≤ tys.length := by simp [flagsOf, htl]
  obtain ⟨hpw, _, hsorted⟩ := IQE.Props.C25.C25_order fo (flagsOf keys) tys parts hlen hty
  rw [hsorted, hk1] at hpw ⊢
  have hperm : (Spec.sortKeyed fo (flagsOf keys) (keyedOf (sortCx fo fns) keys M')).map (·.2) ~ S :=
    ((IQE.Dist.sortKeyed_perm fo _ _).map _).trans (by rw [keyedOf_snd]; exact hM')
  have hperm2 : full ~ S := by
    rw [hfull]
    refine ((IQE.Dist.sortKeyed_perm fo _ _).map _).trans ?_
    rw [keyedOf_snd]
  refine ⟨hperm.trans hperm2.symm,
    ((Spec.sortKeyed fo (flagsOf keys) (keyedOf (sortCx fo fns) keys M')).map (·.2)).map (kvOf (sortCx fo fns) keys), ?_, ?_⟩
  · unfold keysOf
    exact IQE.Bag.mapM_ok _ (kvOf (sortCx fo fns) keys) _ (fun r hr => hSk r (hperm.mem_iff.mp hr))
  · rw [map_map]
    have : (Spec.sortKeyed fo (flagsOf keys) (keyedOf (sortCx fo fns) keys M')).map (kvOf (sortCx fo fns) keys ∘ fun x => x.2)
        = (Spec.sortKeyed fo (flagsOf keys) (keyedOf (sortCx fo fns) keys M')).map (·.1) :=
      map_congr_left fun x hx =>
        ((keyedOf_mem _ keys M' x ((IQE.Dist.sortKeyed_perm fo _ _).mem_iff.mp hx)).2).symm
    rw [this]
    exact sortedBy_of_pairwise fo _ _ (pairwise_map.mpr hpw)

theorem tied_cmpKeys_eq (fo : FloatOps) (flags : List (Bool × Bool)) (tys : List Ty) (hlen : flags.length ≤ tys.length)
    (a b : Keyed) (ha : Typed tys a.1) (hb : Typed tys b.1) (h : Tied (leKT flags) a b) : cmpKeys fo flags a.1 b.1 = .eq := by
  rw [cmpKeys_eq_T fo flags tys a.1 b.1 hlen ha hb]
  obtain ⟨h1, h2⟩ := h
  simp only [leKT, leT, bne_iff_ne, ne_eq] at h1 h2
  have hsw : cmpKeysT flags b.1 a.1 = (cmpKeysT flags a.1 b.1).swap := Std.OrientedCmp.eq_swap
  cases hc : cmpKeysT flags a.1 b.1 with
  | eq => rfl
  | lt => rw [hc] at hsw; simp [hsw] at h2
  | gt => exact absurd hc h1

/-- **LIMIT / OFFSET over ORDER BY at the top** (fused top-k or `LimitExec` over `SortExec`): the window has the reference
    window's key vector at every position and consists of rows of the sorted input — what `Spec.acceptable` checks -/
theorem sort_limit_top (fo : FloatOps) (fns : String → List Val → Except Err Val) (cfg : ExecCfg) (skip : Nat)
    (fetch : Option Nat) (keys : List SortKey) (M S out full : Table) (hMS : M ~ S)
    (hm : sortLimitTop fo cfg skip fetch keys M = .ok out)
    (hfull : full = (Spec.sortKeyed fo (flagsOf keys) (keyedOf (sortCx fo fns) keys S)).map (·.2))
    (hSk : ∀ r ∈ S, evalList (sortCx fo fns) [r] (keys.map (·.e)) = .ok (kvOf (sortCx fo fns) keys r)) :
    ∃ ko ke, keysOf (sortCx fo fns) [] keys out = .ok ko ∧
      keysOf (sortCx fo fns) [] keys (takeOpt fetch (full.drop skip)) = .ok ke ∧
      keysPointwiseEq fo (flagsOf keys) ko ke = true ∧ subBag out full = true := by
  unfold sortLimitTop at hm
  simp only [Filter.bind_ok, Filter.pure_ok] at hm
  obtain ⟨parts, hparts, u, hguard, u', husize, rfl⟩ := hm
  obtain ⟨hk1, _⟩ := sort_keyed (sortCx fo fns) keys (cfg.layout M) parts hparts
  have hM' : (cfg.layout M).flatten.flatten ~ S := (cfg.layout_perm M).trans hMS
  generalize (cfg.layout M).flatten.flatten = M' at *
  obtain ⟨tys, htl, hty⟩ := sortGuard_typed _ _ hguard
  obtain ⟨hU1, hU2⟩ := usizeGuard_ok _ _ husize
  have hlen : (flagsOf keys).length ≤ tys.length := by simp [flagsOf, htl]
  -- whichever physical plan: the window of the sorted keyed table
  have hwin : execPhys fo (flagsOf keys) parts
      (if cfg.fuseTopK then planLimitOverSort skip fetch else .limitOverSort skip fetch)
      = takeOpt fetch ((Spec.sortKeyed fo (flagsOf keys) parts.flatten.flatten).drop skip) := by
    have hunfused : execPhys fo (flagsOf keys) parts (.limitOverSort skip fetch)
        = takeOpt fetch ((Spec.sortKeyed fo (flagsOf keys) parts.flatten.flatten).drop skip) := by
      show (limitExec skip fetch [sortExec fo (flagsOf keys) none parts]).1.flatten = _
      have hflat : [sortExec fo (flagsOf keys) none parts].flatten.flatten
          = Spec.sortKeyed fo (flagsOf keys) parts.flatten.flatten := by
        simp only [List.flatten_cons, List.flatten_nil, List.append_nil]
        rw [sortExec_flatten]; rfl
      have := (limitExec_spec skip fetch [sortExec fo (flagsOf keys) none parts] hU1 (by
        rw [hflat, sortKeyed_eq, List.length_mergeSort]; exact hU2)).1
      rw [this, hflat]
    cases cfg.fuseTopK
    · simp only [Bool.false_eq_true, if_false]; exact hunfused
    · simp only [if_true]; exact orderLimit_eq fo (flagsOf keys) skip fetch parts hU1 hU2
  rw [hwin, hk1]
  rw [hk1] at hty
  generalize hKM : keyedOf (sortCx fo fns) keys M' = KM at *
  have hKMS : KM ~ keyedOf (sortCx fo fns) keys S := hKM ▸ keyed_perm _ keys hM'
  generalize hKS : keyedOf (sortCx fo fns) keys S = KS at *
  have htyS : KeysTyped tys KS := fun x hx => hty x (hKMS.mem_iff.mpr hx)
  -- both sorts under the lawful comparator
  have esM := sortKeyed_eq_T fo (flagsOf keys) tys KM hlen hty
  have esS := sortKeyed_eq_T fo (flagsOf keys) tys KS hlen htyS
  have hsortedM : (KM.mergeSort (leKT (flagsOf keys))).Pairwise (fun a b => leKT (flagsOf keys) a b) :=
    List.pairwise_mergeSort (leKT_trans _) (leKT_total _) KM
  obtain ⟨hpt, _⟩ := IQE.Props.C25.C25_ties_any_order (flagsOf keys) KS (KM.mergeSort (leKT (flagsOf keys)))
    ((List.mergeSort_perm KM _).trans hKMS) hsortedM skip fetch
  rw [esM]
  generalize hWM : takeOpt fetch ((KM.mergeSort (leKT (flagsOf keys))).drop skip) = WM at *
  have hfullw : takeOpt fetch (full.drop skip) = (takeOpt fetch ((KS.mergeSort (leKT (flagsOf keys))).drop skip)).map (·.2) := by
    rw [hfull, esS, takeOpt_map, map_drop]
  generalize hWS : takeOpt fetch ((KS.mergeSort (leKT (flagsOf keys))).drop skip) = WS at *
  have hWMsub : WM <+ KM.mergeSort (leKT (flagsOf keys)) := hWM ▸ takeOpt_drop_sublist fetch skip _
  have hWSsub : WS <+ KS.mergeSort (leKT (flagsOf keys)) := hWS ▸ takeOpt_drop_sublist fetch skip _
  have hWMmem : ∀ x ∈ WM, x ∈ KM := fun x hx => (List.mergeSort_perm KM _).mem_iff.mp (hWMsub.subset hx)
  have hWSmem : ∀ x ∈ WS, x ∈ KS := fun x hx => (List.mergeSort_perm KS _).mem_iff.mp (hWSsub.subset hx)
  have hKMform : ∀ x ∈ KM, x.2 ∈ S ∧ x.1 = kvOf (sortCx fo fns) keys x.2 := by
    intro x hx
    have := keyedOf_mem (sortCx fo fns) keys M' x (hKM ▸ hx)
    exact ⟨hM'.mem_iff.mp this.1, this.2⟩
  have hKSform : ∀ x ∈ KS, x.2 ∈ S ∧ x.1 = kvOf (sortCx fo fns) keys x.2 := by
    intro x hx
    exact keyedOf_mem (sortCx fo fns) keys S x (hKS ▸ hx)
  have hkeys : ∀ (W : List Keyed), (∀ x ∈ W, x.2 ∈ S ∧ x.1 = kvOf (sortCx fo fns) keys x.2) →
      keysOf (sortCx fo fns) [] keys (W.map (·.2)) = .ok (W.map (·.1)) := by
    intro W hW
    unfold keysOf
    rw [IQE.Bag.mapM_ok _ (kvOf (sortCx fo fns) keys) _ (fun r hr => by
      obtain ⟨x, hx, rfl⟩ := mem_map.mp hr
      exact hSk _ (hW x hx).1), map_map]
    congr 1
    exact map_congr_left fun x hx => ((hW x hx).2).symm
  refine ⟨WM.map (·.1), WS.map (·.1), hkeys WM (fun x hx => hKMform x (hWMmem x hx)), ?_, ?_, ?_⟩
  · rw [hfullw]; exact hkeys WS (fun x hx => hKSform x (hWSmem x hx))
  · rw [keysPointwiseEq_iff]
    refine ⟨by simpa using hpt.1, ?_⟩
    intro i h1 h2
    simp only [length_map] at h1 h2
    simp only [getElem_map]
    exact tied_cmpKeys_eq fo (flagsOf keys) tys hlen _ _ (hty _ (hWMmem _ (getElem_mem h1)))
      (htyS _ (hWSmem _ (getElem_mem h2))) (hpt.2 i h1 h2)
  · refine subBag_of_sublist_perm _ ((KM.mergeSort (leKT (flagsOf keys))).map (·.2)) _ (hWMsub.map _) ?_
    have e1 : (KM.mergeSort (leKT (flagsOf keys))).map (·.2) ~ S := by
      refine ((List.mergeSort_perm KM _).map _).trans ?_
      rw [← hKM, keyedOf_snd]; exact hM'
    have e2 : full ~ S := by
      rw [hfull]
      refine ((IQE.Dist.sortKeyed_perm fo _ _).map _).trans ?_
      rw [← hKS, keyedOf_snd]
    exact e1.trans e2.symm

/-- the number of rows `OFFSET skip LIMIT fetch` returns from `len` rows -/
def limitLen (fetch : Option Nat) (len skip : Nat) : Nat :=
  match fetch with
  | some n => min n (len - skip)
  | none => len - skip

/-- **LIMIT / OFFSET over an unordered input at the top** -/
theorem limit_top (cfg : ExecCfg) (skip : Nat) (fetch : Option Nat) (M S out : Table) (hMS : M ~ S)
    (hm : limitTop cfg skip fetch M = .ok out) :
    out.length = limitLen fetch S.length skip ∧ subBag out S = true := by
  unfold limitTop at hm
  simp only [Filter.bind_ok, Filter.pure_ok] at hm
  obtain ⟨u, husize, rfl⟩ := hm
  obtain ⟨hU1, hU2⟩ := usizeGuard_ok _ _ husize
  rw [(limitExec_spec skip fetch (cfg.layout M) hU1 hU2).1]
  have hM' : (cfg.layout M).flatten.flatten ~ S := (cfg.layout_perm M).trans hMS
  refine ⟨?_, subBag_of_sublist_perm _ _ _ (takeOpt_drop_sublist fetch skip _) hM'⟩
  cases fetch <;> simp [takeOpt, limitLen, hM'.length_eq]

end ordered

end IQE.Lemmas.Pipeline
