/-
  IQE.Lemmas.DistAdditive — a shard-safe plan (`IQE.Engine.DistPlan.shardSafe T q`) is a bag homomorphism in its
  sharded table `T`, over the reference semantics `Spec.run`:
    run (cat[T := A ++ B]) q  ~  run (cat[T := A]) q ++ run (cat[T := B]) q        (`shard_additive`)
  plus: plans that never scan `T` do not see the shard (`run_congr_noScan`), the converse on success
  (`shard_additive_conv`), the empty shard (`shard_empty`), the n-ary version (`shard_additive_n`) and kernel-checked
  counter-examples for the sides `shardSafe` refuses (`unsafe_*`).
-/
import IQE.Engine.DistPlan
import IQE.Lemmas.Cte
import IQE.Lemmas.JoinDecomp
namespace IQE.Dist
open List IQE IQE.Spec IQE.Engine.DistPlan IQE.Lemmas.Cte

/-! ## general `Except` lemmas: totalisation of a monadic map / filterMap -/

section general
variable {α β ε : Type}

/-- totalisation of a partial function: its value where it succeeds, `default` elsewhere -/
def tot [Inhabited β] (f : α → Except ε β) (a : α) : β :=
  match f a with | .ok b => b | .error _ => default

theorem tot_of_ok [Inhabited β] {f : α → Except ε β} {a : α} {b : β} (h : f a = .ok b) : f a = .ok (tot f a) := by
  simp [tot, h]

theorem bind_ok_inv {γ : Type} {x : Except ε α} {f : α → Except ε γ} {c : γ} (h : (x >>= f) = .ok c) :
    ∃ a, x = .ok a ∧ f a = .ok c := by
  cases x with
  | error e => cases h
  | ok a => exact ⟨a, rfl, h⟩

theorem ok_bind {γ : Type} (a : α) (f : α → Except ε γ) : ((Except.ok a : Except ε α) >>= f) = f a := rfl

/-- a monadic map succeeds iff its body succeeds on every element; the result is the pure map of the totalisation -/
theorem mapM_ok_iff [Inhabited β] (f : α → Except ε β) : ∀ (l : List α) (r : List β),
    l.mapM f = .ok r ↔ (∀ a ∈ l, f a = .ok (tot f a)) ∧ r = l.map (tot f)
  | [], r => by
    simp only [List.mapM_nil, pure, Except.pure, Except.ok.injEq, not_mem_nil, false_imp_iff, implies_true,
      true_and, map_nil]
    exact eq_comm
  | a :: l, r => by
    rw [List.mapM_cons]
    constructor
    · intro h
      obtain ⟨b, hb, h⟩ := bind_ok_inv h
      obtain ⟨bs, hbs, h⟩ := bind_ok_inv h
      cases h
      obtain ⟨h1, h2⟩ := (mapM_ok_iff f l bs).mp hbs
      have hb' : tot f a = b := by simp [tot, hb]
      refine ⟨?_, by simp [hb', h2]⟩
      intro x hx
      rcases List.mem_cons.mp hx with rfl | hx
      · exact tot_of_ok hb
      · exact h1 x hx
    · rintro ⟨h1, rfl⟩
      rw [h1 a (by simp), (mapM_ok_iff f l _).mpr ⟨fun x hx => h1 x (by simp [hx]), rfl⟩]
      rfl

/-- same for `filterMapM` -/
theorem filterMapM_ok_iff (f : α → Except ε (Option β)) : ∀ (l : List α) (r : List β),
    l.filterMapM f = .ok r ↔ (∀ a ∈ l, f a = .ok (tot f a)) ∧ r = l.filterMap (tot f)
  | [], r => by
    simp only [List.filterMapM_nil, pure, Except.pure, Except.ok.injEq, not_mem_nil, false_imp_iff, implies_true,
      true_and, filterMap_nil]
    exact eq_comm
  | a :: l, r => by
    have ih := filterMapM_ok_iff f l
    rw [List.filterMapM_cons]
    cases hfa : f a with
    | error e =>
      refine ⟨fun h => (by cases h), fun h => ?_⟩
      have := h.1 a (by simp); rw [hfa] at this; cases this
    | ok b =>
      have hb' : tot f a = b := by simp [tot, hfa]
      have hall : (∀ y ∈ a :: l, f y = .ok (tot f y)) ↔ ∀ y ∈ l, f y = .ok (tot f y) := by
        simp only [forall_mem_cons]
        exact ⟨fun h => h.2, fun h => ⟨tot_of_ok hfa, h⟩⟩
      rw [hall, filterMap_cons, hb']
      cases hl : l.filterMapM f with
      | error e =>
        have hn : ¬ (∀ y ∈ l, f y = .ok (tot f y)) := fun h1 => by
          have := (ih _).mpr ⟨h1, rfl⟩; rw [hl] at this; cases this
        cases b with
        | none => exact ⟨fun h => (by cases h), fun h => absurd h.1 hn⟩
        | some x => exact ⟨fun h => (by cases h), fun h => absurd h.1 hn⟩
      | ok bs =>
        obtain ⟨h1, h2⟩ := (ih bs).mp hl
        subst h2
        cases b with
        | none =>
          constructor
          · intro h; cases h; exact ⟨h1, rfl⟩
          · rintro ⟨_, rfl⟩; rfl
        | some x =>
          constructor
          · intro h; cases h; exact ⟨h1, rfl⟩
          · rintro ⟨_, rfl⟩; rfl

theorem mapM_ok_inv {f : α → Except ε β} {l : List α} {r : List β} (h : l.mapM f = .ok r) :
    ∀ a ∈ l, ∃ b, f a = .ok b := by
  induction l generalizing r with
  | nil => intro a ha; cases ha
  | cons x l ih =>
    rw [List.mapM_cons] at h
    obtain ⟨b, hb, h⟩ := bind_ok_inv h
    obtain ⟨bs, hbs, _⟩ := bind_ok_inv h
    intro a ha
    rcases List.mem_cons.mp ha with rfl | ha
    · exact ⟨b, hb⟩
    · exact ih hbs a ha

theorem filterMapM_ok_inv {f : α → Except ε (Option β)} {l : List α} {r : List β} (h : l.filterMapM f = .ok r) :
    ∀ a ∈ l, ∃ b, f a = .ok b := fun a ha => ⟨_, ((filterMapM_ok_iff f l r).mp h).1 a ha⟩

/-- `mapM` over a concatenation -/
theorem mapM_ok_append [Inhabited β] {f : α → Except ε β} {l₁ l₂ : List α} {r₁ r₂ : List β}
    (h₁ : l₁.mapM f = .ok r₁) (h₂ : l₂.mapM f = .ok r₂) : (l₁ ++ l₂).mapM f = .ok (r₁ ++ r₂) := by
  obtain ⟨a1, rfl⟩ := (mapM_ok_iff f l₁ r₁).mp h₁
  obtain ⟨a2, rfl⟩ := (mapM_ok_iff f l₂ r₂).mp h₂
  refine (mapM_ok_iff f _ _).mpr ⟨?_, by simp⟩
  intro a ha
  rcases List.mem_append.mp ha with ha | ha
  · exact a1 a ha
  · exact a2 a ha

/-- `mapM` respects permutations of its input (success and, up to permutation, the result) -/
theorem mapM_ok_perm [Inhabited β] {f : α → Except ε β} {l l' : List α} {r' : List β} (hp : l ~ l')
    (h : l'.mapM f = .ok r') : ∃ r, l.mapM f = .ok r ∧ r ~ r' := by
  obtain ⟨a1, rfl⟩ := (mapM_ok_iff f l' r').mp h
  exact ⟨l.map (tot f), (mapM_ok_iff f _ _).mpr ⟨fun a ha => a1 a (hp.mem_iff.mp ha), rfl⟩, hp.map _⟩

theorem filterMapM_ok_append {f : α → Except ε (Option β)} {l₁ l₂ : List α} {r₁ r₂ : List β}
    (h₁ : l₁.filterMapM f = .ok r₁) (h₂ : l₂.filterMapM f = .ok r₂) : (l₁ ++ l₂).filterMapM f = .ok (r₁ ++ r₂) := by
  obtain ⟨a1, rfl⟩ := (filterMapM_ok_iff f l₁ r₁).mp h₁
  obtain ⟨a2, rfl⟩ := (filterMapM_ok_iff f l₂ r₂).mp h₂
  refine (filterMapM_ok_iff f _ _).mpr ⟨?_, by simp⟩
  intro a ha
  rcases List.mem_append.mp ha with ha | ha
  · exact a1 a ha
  · exact a2 a ha

theorem filterMapM_ok_perm {f : α → Except ε (Option β)} {l l' : List α} {r' : List β} (hp : l ~ l')
    (h : l'.filterMapM f = .ok r') : ∃ r, l.filterMapM f = .ok r ∧ r ~ r' := by
  obtain ⟨a1, rfl⟩ := (filterMapM_ok_iff f l' r').mp h
  exact ⟨l.filterMap (tot f), (filterMapM_ok_iff f _ _).mpr ⟨fun a ha => a1 a (hp.mem_iff.mp ha), rfl⟩, hp.filterMap _⟩

/-- additivity of a monadic map up to permutation of the input -/
theorem mapM_additive [Inhabited β] {f : α → Except ε β} {la lb lab : List α} {ra rb : List β} (hp : lab ~ la ++ lb)
    (ha : la.mapM f = .ok ra) (hb : lb.mapM f = .ok rb) : ∃ r, lab.mapM f = .ok r ∧ r ~ ra ++ rb :=
  mapM_ok_perm hp (mapM_ok_append ha hb)

theorem filterMapM_additive {f : α → Except ε (Option β)} {la lb lab : List α} {ra rb : List β} (hp : lab ~ la ++ lb)
    (ha : la.filterMapM f = .ok ra) (hb : lb.filterMapM f = .ok rb) : ∃ r, lab.filterMapM f = .ok r ∧ r ~ ra ++ rb :=
  filterMapM_ok_perm hp (filterMapM_ok_append ha hb)

/-- success of a monadic map is inherited by every list whose members all belong to the original -/
theorem mapM_ok_of_subset [Inhabited β] {f : α → Except ε β} {l l' : List α} {r : List β} (hs : ∀ a ∈ l', a ∈ l)
    (h : l.mapM f = .ok r) : l'.mapM f = .ok (l'.map (tot f)) :=
  (mapM_ok_iff f _ _).mpr ⟨fun a ha => ((mapM_ok_iff f l r).mp h).1 a (hs a ha), rfl⟩

theorem filterMapM_ok_of_subset {f : α → Except ε (Option β)} {l l' : List α} {r : List β} (hs : ∀ a ∈ l', a ∈ l)
    (h : l.filterMapM f = .ok r) : l'.filterMapM f = .ok (l'.filterMap (tot f)) :=
  (filterMapM_ok_iff f _ _).mpr ⟨fun a ha => ((filterMapM_ok_iff f l r).mp h).1 a (hs a ha), rfl⟩

end general

/-! ## 1. a plan that never scans `T` does not see the shard -/

section noscan
variable (fo : FloatOps) (fns : String → List Val → Except Err Val) (cat : List Table) (T : Nat) (A B : Table)

theorem noScan_iff (q : Query) : noScan T q = true ↔ scanCount T q = 0 := by simp [noScan]
theorem noScanL_iff (qs : List Query) : noScanL T qs = true ↔ scanCountL T qs = 0 := by simp [noScanL]

mutual
/-- a query that never scans `T` evaluates identically whatever table stands at position `T` of the catalog -/
theorem run_congr_noScan : ∀ (q : Query), noScan T q = true →
    run fo fns (cat.set T A) q = run fo fns (cat.set T B) q
  | .scan t, h => by
    have ht : T ≠ t := by
      intro e; subst e; simp [noScan, scanCount] at h
    funext ctes env
    simp only [run, List.getElem?_set_ne ht]
  | .cteRef i, _ => by funext ctes env; simp only [run]
  | .values rows, _ => by funext ctes env; simp only [run]
  | .filter subs p q, h => by
    simp only [noScan_iff, scanCount, Nat.add_eq_zero_iff] at h
    funext ctes env
    simp only [run, run_congr_noScan q ((noScan_iff T q).mpr h.2), runList_congr_noScan subs ((noScanL_iff T subs).mpr h.1)]
  | .project subs es q, h => by
    simp only [noScan_iff, scanCount, Nat.add_eq_zero_iff] at h
    funext ctes env
    simp only [run, run_congr_noScan q ((noScan_iff T q).mpr h.2), runList_congr_noScan subs ((noScanL_iff T subs).mpr h.1)]
  | .join jt lw rw subs on l r, h => by
    simp only [noScan_iff, scanCount, Nat.add_eq_zero_iff] at h
    funext ctes env
    simp only [run, run_congr_noScan l ((noScan_iff T l).mpr h.1.2), run_congr_noScan r ((noScan_iff T r).mpr h.2),
      runList_congr_noScan subs ((noScanL_iff T subs).mpr h.1.1)]
  | .agg keys aggs q, h => by
    simp only [noScan_iff, scanCount] at h
    funext ctes env; simp only [run, run_congr_noScan q ((noScan_iff T q).mpr h)]
  | .groupingSets keys sets aggs q, h => by
    simp only [noScan_iff, scanCount] at h
    funext ctes env; simp only [run, run_congr_noScan q ((noScan_iff T q).mpr h)]
  | .distinct q, h => by
    simp only [noScan_iff, scanCount] at h
    funext ctes env; simp only [run, run_congr_noScan q ((noScan_iff T q).mpr h)]
  | .sort keys q, h => by
    simp only [noScan_iff, scanCount] at h
    funext ctes env; simp only [run, run_congr_noScan q ((noScan_iff T q).mpr h)]
  | .limit s f q, h => by
    simp only [noScan_iff, scanCount] at h
    funext ctes env; simp only [run, run_congr_noScan q ((noScan_iff T q).mpr h)]
  | .setop op all l r, h => by
    simp only [noScan_iff, scanCount, Nat.add_eq_zero_iff] at h
    funext ctes env
    simp only [run, run_congr_noScan l ((noScan_iff T l).mpr h.1), run_congr_noScan r ((noScan_iff T r).mpr h.2)]
  | .window calls q, h => by
    simp only [noScan_iff, scanCount] at h
    funext ctes env; simp only [run, run_congr_noScan q ((noScan_iff T q).mpr h)]
  | .withCte defs body, h => by
    simp only [noScan_iff, scanCount, Nat.add_eq_zero_iff] at h
    funext ctes env
    simp only [run, run_congr_noScan body ((noScan_iff T body).mpr h.2),
      runDefs_congr_noScan defs ((noScanL_iff T defs).mpr h.1)]
/-- companion of `run_congr_noScan` for the runners of a node's subqueries -/
theorem runList_congr_noScan : ∀ (qs : List Query), noScanL T qs = true →
    runList fo fns (cat.set T A) qs = runList fo fns (cat.set T B) qs
  | [], _ => by simp only [runList]
  | q :: qs, h => by
    simp only [noScanL_iff, scanCountL, Nat.add_eq_zero_iff] at h
    simp only [runList, run_congr_noScan q ((noScan_iff T q).mpr h.1), runList_congr_noScan qs ((noScanL_iff T qs).mpr h.2)]
/-- companion of `run_congr_noScan` for the CTE definitions of a `WITH` -/
theorem runDefs_congr_noScan : ∀ (ds : List Query), noScanL T ds = true →
    runDefs fo fns (cat.set T A) ds = runDefs fo fns (cat.set T B) ds
  | [], _ => by funext ctes env; simp only [runDefs]
  | d :: ds, h => by
    simp only [noScanL_iff, scanCountL, Nat.add_eq_zero_iff] at h
    funext ctes env
    simp only [runDefs, run_congr_noScan d ((noScan_iff T d).mpr h.1), runDefs_congr_noScan ds ((noScanL_iff T ds).mpr h.2)]
end

end noscan

/-! ## joins: `Spec.joinRows` through the pure `IQE.Join.nlJoin` -/

section joins
open IQE.Join
variable (cx : EvalCtx) (env : Env) (on : Expr)

/-- the truth value of ON on a pair of rows (`false` where its evaluation fails) -/
def mOf (l r : Row) : Bool := match onTrue cx env on (l ++ r) with | .ok b => b | .error _ => false

/-- ON evaluates (to a truth value) on every pair of the two inputs -/
def AllOk (ls rs : Table) : Prop := ∀ l ∈ ls, ∀ r ∈ rs, ∃ b, onTrue cx env on (l ++ r) = .ok b

/-- what `joinRows` needs in order to succeed: nothing for CROSS, ON defined on every pair otherwise -/
def JOk (jt : JoinType) (ls rs : Table) : Prop := jt = .cross ∨ AllOk cx env on ls rs

variable {cx env on}

theorem AllOk.onTrue_eq {ls rs : Table} (h : AllOk cx env on ls rs) :
    ∀ l ∈ ls, ∀ r ∈ rs, onTrue cx env on (l ++ r) = .ok (mOf cx env on l r) := by
  intro l hl r hr
  obtain ⟨b, hb⟩ := h l hl r hr
  simp [mOf, hb]

theorem AllOk.mono {ls rs ls' rs' : Table} (h : AllOk cx env on ls rs) (hl : ∀ l ∈ ls', l ∈ ls) (hr : ∀ r ∈ rs', r ∈ rs) :
    AllOk cx env on ls' rs' := fun l hl' r hr' => h l (hl l hl') r (hr r hr')

theorem AllOk.append_left {la lb rs : Table} (ha : AllOk cx env on la rs) (hb : AllOk cx env on lb rs) :
    AllOk cx env on (la ++ lb) rs := by
  intro l hl r hr
  rcases List.mem_append.mp hl with hl | hl
  · exact ha l hl r hr
  · exact hb l hl r hr

theorem AllOk.append_right {ls ra rb : Table} (ha : AllOk cx env on ls ra) (hb : AllOk cx env on ls rb) :
    AllOk cx env on ls (ra ++ rb) := by
  intro l hl r hr
  rcases List.mem_append.mp hr with hr | hr
  · exact ha l hl r hr
  · exact hb l hl r hr

theorem JOk.mono {jt : JoinType} {ls rs ls' rs' : Table} (h : JOk cx env on jt ls rs) (hl : ∀ l ∈ ls', l ∈ ls)
    (hr : ∀ r ∈ rs', r ∈ rs) : JOk cx env on jt ls' rs' := h.imp id (fun h => h.mono hl hr)

theorem JOk.append_left {jt : JoinType} {la lb rs : Table} (ha : JOk cx env on jt la rs) (hb : JOk cx env on jt lb rs) :
    JOk cx env on jt (la ++ lb) rs := by
  rcases ha with ha | ha
  · exact .inl ha
  · rcases hb with hb | hb
    · exact .inl hb
    · exact .inr (ha.append_left hb)

theorem JOk.append_right {jt : JoinType} {ls ra rb : Table} (ha : JOk cx env on jt ls ra) (hb : JOk cx env on jt ls rb) :
    JOk cx env on jt ls (ra ++ rb) := by
  rcases ha with ha | ha
  · exact .inl ha
  · rcases hb with hb | hb
    · exact .inl hb
    · exact .inr (ha.append_right hb)

theorem matchesOf_ok_inv {l : Row} {rs ms : Table} (h : matchesOf cx env on l rs = .ok ms) :
    ∀ r ∈ rs, ∃ b, onTrue cx env on (l ++ r) = .ok b := by
  intro r hr
  unfold matchesOf at h
  obtain ⟨x, hx⟩ := filterMapM_ok_inv h r hr
  obtain ⟨b, hb, _⟩ := bind_ok_inv hx
  exact ⟨b, hb⟩

theorem matchesL_ok_inv {r : Row} {ls ms : Table}
    (h : ls.filterMapM (fun l => do if ← onTrue cx env on (l ++ r) then pure (some l) else pure none) = (.ok ms : Except Err Table)) :
    ∀ l ∈ ls, ∃ b, onTrue cx env on (l ++ r) = .ok b := by
  intro l hl
  obtain ⟨x, hx⟩ := filterMapM_ok_inv h l hl
  obtain ⟨b, hb, _⟩ := bind_ok_inv hx
  exact ⟨b, hb⟩

/-- every join type but CROSS evaluates ON on every pair of its two inputs -/
theorem joinRows_allOk {jt : JoinType} {lw rw : Nat} {ls rs t : Table} (hjt : jt ≠ .cross)
    (h : joinRows cx env jt lw rw on ls rs = .ok t) : AllOk cx env on ls rs := by
  intro l hl r hr
  cases jt
  case cross => exact absurd rfl hjt
  case inner =>
    simp only [joinRows] at h
    obtain ⟨parts, hp, _⟩ := bind_ok_inv h
    obtain ⟨x, hx⟩ := mapM_ok_inv hp l hl
    obtain ⟨ms, hms, _⟩ := bind_ok_inv hx
    exact matchesOf_ok_inv hms r hr
  case left =>
    simp only [joinRows] at h
    obtain ⟨parts, hp, _⟩ := bind_ok_inv h
    obtain ⟨x, hx⟩ := mapM_ok_inv hp l hl
    obtain ⟨ms, hms, _⟩ := bind_ok_inv hx
    exact matchesOf_ok_inv hms r hr
  case full =>
    simp only [joinRows] at h
    obtain ⟨parts, hp, _⟩ := bind_ok_inv h
    obtain ⟨x, hx⟩ := mapM_ok_inv hp l hl
    obtain ⟨ms, hms, _⟩ := bind_ok_inv hx
    exact matchesOf_ok_inv hms r hr
  case semi =>
    simp only [joinRows] at h
    obtain ⟨x, hx⟩ := filterMapM_ok_inv h l hl
    obtain ⟨ms, hms, _⟩ := bind_ok_inv hx
    exact matchesOf_ok_inv hms r hr
  case anti =>
    simp only [joinRows] at h
    obtain ⟨x, hx⟩ := filterMapM_ok_inv h l hl
    obtain ⟨ms, hms, _⟩ := bind_ok_inv hx
    exact matchesOf_ok_inv hms r hr
  case right =>
    simp only [joinRows] at h
    obtain ⟨parts, hp, _⟩ := bind_ok_inv h
    obtain ⟨x, hx⟩ := mapM_ok_inv hp r hr
    obtain ⟨ms, hms, _⟩ := bind_ok_inv hx
    exact matchesL_ok_inv hms l hl

/-- **`joinRows` succeeds iff ON is defined where it is evaluated, and then it is the pure nested-loop join** over the
    totalised match predicate `mOf` -/
theorem joinRows_ok_iff (jt : JoinType) (lw rw : Nat) (ls rs t : Table) :
    joinRows cx env jt lw rw on ls rs = .ok t ↔ JOk cx env on jt ls rs ∧ t = nlJoin jt lw rw (mOf cx env on) ls rs := by
  constructor
  · intro h
    by_cases hjt : jt = .cross
    · subst hjt
      refine ⟨.inl rfl, ?_⟩
      simp only [joinRows] at h
      cases h; rfl
    · have hall := joinRows_allOk hjt h
      rw [joinRows_eq_nlJoin cx env jt lw rw on (mOf cx env on) ls rs hall.onTrue_eq] at h
      cases h
      exact ⟨.inr hall, rfl⟩
  · rintro ⟨h | h, rfl⟩
    · subst h; rfl
    · exact joinRows_eq_nlJoin cx env jt lw rw on (mOf cx env on) ls rs h.onTrue_eq

/-- the join types whose output is additive in the RIGHT input -/
def rightAdd : JoinType → Bool
  | .inner | .cross | .right => true
  | _ => false

theorem nlJoin_append_left (jt : JoinType) (hjt : leftDriven jt = true) (lw rw : Nat) (m : Row → Row → Bool)
    (la lb rs : Table) : nlJoin jt lw rw m (la ++ lb) rs = nlJoin jt lw rw m la rs ++ nlJoin jt lw rw m lb rs := by
  cases jt <;> simp only [leftDriven] at hjt <;> try contradiction
  all_goals simp only [nlJoin, flatMap_append, filter_append]

theorem nlJoin_append_right (jt : JoinType) (hjt : rightAdd jt = true) (lw rw : Nat) (m : Row → Row → Bool)
    (ls ra rb : Table) : nlJoin jt lw rw m ls (ra ++ rb) ~ nlJoin jt lw rw m ls ra ++ nlJoin jt lw rw m ls rb := by
  cases jt <;> simp only [rightAdd] at hjt <;> try contradiction
  · simp only [nlJoin, filter_append, map_append]
    exact IQE.Bag.flatMap_append_body ls _ _
  · simp only [nlJoin, flatMap_append]
    exact Perm.refl _
  · simp only [nlJoin, map_append]
    exact IQE.Bag.flatMap_append_body ls _ _

theorem nlJoin_nil_left (jt : JoinType) (hjt : leftDriven jt = true) (lw rw : Nat) (m : Row → Row → Bool) (rs : Table) :
    nlJoin jt lw rw m [] rs = [] := by
  cases jt <;> simp only [leftDriven] at hjt <;> try contradiction
  all_goals simp [nlJoin]

theorem nlJoin_nil_right (jt : JoinType) (hjt : rightAdd jt = true) (lw rw : Nat) (m : Row → Row → Bool) (ls : Table) :
    nlJoin jt lw rw m ls [] = [] := by
  cases jt <;> simp only [rightAdd] at hjt <;> try contradiction
  all_goals simp [nlJoin]

variable {jt : JoinType} {lw rw : Nat}

/-- `joinRows` is additive (up to permutation) in its LEFT input for inner / cross / left / semi / anti -/
theorem joinRows_additive_left (hjt : leftDriven jt = true) {la lb lab rs ra rb : Table} (hp : lab ~ la ++ lb)
    (ha : joinRows cx env jt lw rw on la rs = .ok ra) (hb : joinRows cx env jt lw rw on lb rs = .ok rb) :
    ∃ r, joinRows cx env jt lw rw on lab rs = .ok r ∧ r ~ ra ++ rb := by
  obtain ⟨oa, rfl⟩ := (joinRows_ok_iff jt lw rw la rs ra).mp ha
  obtain ⟨ob, rfl⟩ := (joinRows_ok_iff jt lw rw lb rs rb).mp hb
  refine ⟨_, (joinRows_ok_iff jt lw rw lab rs _).mpr ⟨?_, rfl⟩, ?_⟩
  · exact (oa.append_left ob).mono (fun l hl => hp.mem_iff.mp hl) (fun r hr => hr)
  · rw [← nlJoin_append_left jt hjt]
    exact nlJoin_perm_left jt lw rw _ hp rs

/-- `joinRows` is additive (up to permutation) in its RIGHT input for inner / cross / right -/
theorem joinRows_additive_right (hjt : rightAdd jt = true) {ls ra rb rab oa ob : Table} (hp : rab ~ ra ++ rb)
    (ha : joinRows cx env jt lw rw on ls ra = .ok oa) (hb : joinRows cx env jt lw rw on ls rb = .ok ob) :
    ∃ r, joinRows cx env jt lw rw on ls rab = .ok r ∧ r ~ oa ++ ob := by
  obtain ⟨ka, rfl⟩ := (joinRows_ok_iff jt lw rw ls ra oa).mp ha
  obtain ⟨kb, rfl⟩ := (joinRows_ok_iff jt lw rw ls rb ob).mp hb
  refine ⟨_, (joinRows_ok_iff jt lw rw ls rab _).mpr ⟨?_, rfl⟩, ?_⟩
  · exact (ka.append_right kb).mono (fun l hl => hl) (fun r hr => hp.mem_iff.mp hr)
  · exact (nlJoin_perm_right jt lw rw _ ls hp).trans (nlJoin_append_right jt hjt lw rw _ ls ra rb)

/-- success of `joinRows` is inherited by sub-inputs (every join type) -/
theorem joinRows_ok_mono {ls rs ls' rs' t : Table} (hl : ∀ l ∈ ls', l ∈ ls) (hr : ∀ r ∈ rs', r ∈ rs)
    (h : joinRows cx env jt lw rw on ls rs = .ok t) : ∃ t', joinRows cx env jt lw rw on ls' rs' = .ok t' :=
  ⟨_, (joinRows_ok_iff jt lw rw ls' rs' _).mpr ⟨((joinRows_ok_iff jt lw rw ls rs t).mp h).1.mono hl hr, rfl⟩⟩

theorem joinRows_nil_left (hjt : leftDriven jt = true) {rs t : Table} (h : joinRows cx env jt lw rw on [] rs = .ok t) :
    t = [] := by
  rw [((joinRows_ok_iff jt lw rw [] rs t).mp h).2, nlJoin_nil_left jt hjt]

theorem joinRows_nil_right (hjt : rightAdd jt = true) {ls t : Table} (h : joinRows cx env jt lw rw on ls [] = .ok t) :
    t = [] := by
  rw [((joinRows_ok_iff jt lw rw ls [] t).mp h).2, nlJoin_nil_right jt hjt]

end joins

/-! ## 2. the homomorphism theorem -/

section main
open IQE.Join
variable (fo : FloatOps) (fns : String → List Val → Except Err Val)

theorem run_sort (cat : List Table) (keys : List SortKey) (q : Query) (ctes : List Table) (env : Env) :
    run fo fns cat (.sort keys q) ctes env =
      (do let rows ← run fo fns cat q ctes env
          let keyed ← rows.mapM fun r => do
            pure ((← evalList { fo := fo, fn := fns, runSub := fun _ _ => .error (.unsupported "subquery inside ORDER BY") }
              (r :: env) (keys.map (·.e))), r)
          pure ((sortKeyed fo (keys.map fun k => (k.desc, k.nullsFirst)) keyed).map (·.2))) := by
  simp only [run]

theorem sortKeyed_perm (flags : List (Bool × Bool)) (xs : List (List Val × Row)) : sortKeyed fo flags xs ~ xs :=
  List.mergeSort_perm _ _

/-- the shapes of a shard-safe join: subqueries never scan `T`, and `T` is on an additive side -/
theorem shardSafe_join {T : Nat} {jt : JoinType} {lw rw : Nat} {subs : List Query} {on : Expr} {l r : Query}
    (h : shardSafe T (.join jt lw rw subs on l r) = true) :
    noScanL T subs = true ∧
      ((shardSafe T l = true ∧ noScan T r = true ∧ leftDriven jt = true) ∨
       (noScan T l = true ∧ shardSafe T r = true ∧ rightAdd jt = true)) := by
  simp only [shardSafe, Bool.and_eq_true] at h
  refine ⟨h.1, ?_⟩
  have h2 := h.2
  cases jt <;> simp only [Bool.or_eq_true, Bool.and_eq_true] at h2 <;> simp [leftDriven, rightAdd] <;> simp_all

theorem scan_set (cat : List Table) (T : Nat) (X : Table) (ctes : List Table) (env : Env) :
    run fo fns (cat.set T X) (.scan T) ctes env = if T < cat.length then .ok X else .error (.bad "no such table") := by
  simp only [run, List.getElem?_set]
  by_cases h : T < cat.length <;> simp [h]

/-- **Shard additivity**: on a shard-safe plan, the result over `A ++ B` is, as a bag, the union of the results over
    `A` and over `B` (whenever both shard runs succeed, the whole run succeeds too). -/
theorem shard_additive (fo : FloatOps) (fns : String → List Val → Except Err Val) (cat : List Table) (T : Nat)
    (A B : Table) :
    ∀ (q : Query), shardSafe T q = true → ∀ (ctes : List Table) (env : Env) (ra rb : Table),
      run fo fns (cat.set T A) q ctes env = .ok ra → run fo fns (cat.set T B) q ctes env = .ok rb →
      ∃ r, run fo fns (cat.set T (A ++ B)) q ctes env = .ok r ∧ r.Perm (ra ++ rb)
  | .scan t, h, ctes, env, ra, rb, hA, hB => by
    have ht : t = T := by simpa [shardSafe] using h
    subst ht
    rw [scan_set] at hA hB ⊢
    by_cases hlt : t < cat.length
    · simp only [hlt, if_true] at hA hB ⊢
      cases hA; cases hB
      exact ⟨A ++ B, rfl, Perm.refl _⟩
    · simp only [hlt, if_false] at hA
      cases hA
  | .filter subs p q, h, ctes, env, ra, rb, hA, hB => by
    simp only [shardSafe, Bool.and_eq_true] at h
    rw [run_filter] at hA hB ⊢
    rw [runList_congr_noScan fo fns cat T A (A ++ B) subs h.1] at hA
    rw [runList_congr_noScan fo fns cat T B (A ++ B) subs h.1] at hB
    obtain ⟨rowsA, hqA, hfA⟩ := bind_ok_inv hA
    obtain ⟨rowsB, hqB, hfB⟩ := bind_ok_inv hB
    obtain ⟨rowsAB, hqAB, hp⟩ := shard_additive fo fns cat T A B q h.2 ctes env rowsA rowsB hqA hqB
    rw [hqAB]
    exact filterMapM_additive hp hfA hfB
  | .project subs es q, h, ctes, env, ra, rb, hA, hB => by
    simp only [shardSafe, Bool.and_eq_true] at h
    rw [run_project] at hA hB ⊢
    rw [runList_congr_noScan fo fns cat T A (A ++ B) subs h.1] at hA
    rw [runList_congr_noScan fo fns cat T B (A ++ B) subs h.1] at hB
    obtain ⟨rowsA, hqA, hfA⟩ := bind_ok_inv hA
    obtain ⟨rowsB, hqB, hfB⟩ := bind_ok_inv hB
    obtain ⟨rowsAB, hqAB, hp⟩ := shard_additive fo fns cat T A B q h.2 ctes env rowsA rowsB hqA hqB
    rw [hqAB]
    exact mapM_additive hp hfA hfB
  | .sort keys q, h, ctes, env, ra, rb, hA, hB => by
    simp only [shardSafe] at h
    rw [run_sort] at hA hB ⊢
    obtain ⟨rowsA, hqA, hA⟩ := bind_ok_inv hA
    obtain ⟨rowsB, hqB, hB⟩ := bind_ok_inv hB
    obtain ⟨keyedA, hkA, hA⟩ := bind_ok_inv hA
    obtain ⟨keyedB, hkB, hB⟩ := bind_ok_inv hB
    cases hA; cases hB
    obtain ⟨rowsAB, hqAB, hp⟩ := shard_additive fo fns cat T A B q h ctes env rowsA rowsB hqA hqB
    obtain ⟨keyedAB, hkAB, hpk⟩ := mapM_additive hp hkA hkB
    rw [hqAB]
    refine ⟨(sortKeyed fo (keys.map fun k => (k.desc, k.nullsFirst)) keyedAB).map (·.2), ?_, ?_⟩
    · rw [ok_bind, hkAB, ok_bind]; rfl
    · refine ((sortKeyed_perm fo _ keyedAB).map _).trans ?_
      refine (hpk.map _).trans ?_
      rw [map_append]
      exact ((sortKeyed_perm fo _ keyedA).map _).symm.append ((sortKeyed_perm fo _ keyedB).map _).symm
  | .join jt lw rw subs on l r, h, ctes, env, ra, rb, hA, hB => by
    obtain ⟨hs, hside⟩ := shardSafe_join h
    rw [run_join] at hA hB ⊢
    rw [runList_congr_noScan fo fns cat T A (A ++ B) subs hs] at hA
    rw [runList_congr_noScan fo fns cat T B (A ++ B) subs hs] at hB
    obtain ⟨lsA, hlA, hA⟩ := bind_ok_inv hA
    obtain ⟨lsB, hlB, hB⟩ := bind_ok_inv hB
    obtain ⟨rsA, hrA, hjA⟩ := bind_ok_inv hA
    obtain ⟨rsB, hrB, hjB⟩ := bind_ok_inv hB
    rcases hside with ⟨hl, hr, hjt⟩ | ⟨hl, hr, hjt⟩
    · -- the sharded table is in the left input; the right input is the same in the three catalogs
      rw [run_congr_noScan fo fns cat T A (A ++ B) r hr] at hrA
      rw [run_congr_noScan fo fns cat T B (A ++ B) r hr, hrA] at hrB
      cases hrB
      obtain ⟨lsAB, hlAB, hp⟩ := shard_additive fo fns cat T A B l hl ctes env lsA lsB hlA hlB
      rw [hlAB, hrA]
      exact joinRows_additive_left hjt hp hjA hjB
    · -- the sharded table is in the right input; the left input is the same in the three catalogs
      rw [run_congr_noScan fo fns cat T A (A ++ B) l hl] at hlA
      rw [run_congr_noScan fo fns cat T B (A ++ B) l hl, hlA] at hlB
      cases hlB
      obtain ⟨rsAB, hrAB, hp⟩ := shard_additive fo fns cat T A B r hr ctes env rsA rsB hrA hrB
      rw [hlA, hrAB]
      exact joinRows_additive_right hjt hp hjA hjB
  | .cteRef _, h, _, _, _, _, _, _ => by simp [shardSafe] at h
  | .values _, h, _, _, _, _, _, _ => by simp [shardSafe] at h
  | .agg _ _ _, h, _, _, _, _, _, _ => by simp [shardSafe] at h
  | .groupingSets _ _ _ _, h, _, _, _, _, _, _ => by simp [shardSafe] at h
  | .distinct _, h, _, _, _, _, _, _ => by simp [shardSafe] at h
  | .limit _ _ _, h, _, _, _, _, _, _ => by simp [shardSafe] at h
  | .setop _ _ _ _, h, _, _, _, _, _, _ => by simp [shardSafe] at h
  | .window _ _, h, _, _, _, _, _, _ => by simp [shardSafe] at h
  | .withCte _ _, h, _, _, _, _, _, _ => by simp [shardSafe] at h

end main

/-! ## 3. converse on success, 4. the empty shard, 5. n shards -/

section more
open IQE.Join

/-- **Converse on success**: if a shard-safe plan succeeds over `A ++ B` it succeeds over `A` and over `B`. -/
theorem shard_additive_conv (fo : FloatOps) (fns : String → List Val → Except Err Val) (cat : List Table) (T : Nat)
    (A B : Table) :
    ∀ (q : Query), shardSafe T q = true → ∀ (ctes : List Table) (env : Env) (r : Table),
      run fo fns (cat.set T (A ++ B)) q ctes env = .ok r →
      ∃ ra rb, run fo fns (cat.set T A) q ctes env = .ok ra ∧ run fo fns (cat.set T B) q ctes env = .ok rb
  | .scan t, h, ctes, env, r, hAB => by
    have ht : t = T := by simpa [shardSafe] using h
    subst ht
    rw [scan_set] at hAB
    simp only [scan_set]
    by_cases hlt : t < cat.length
    · simp only [hlt, if_true]
      exact ⟨A, B, rfl, rfl⟩
    · simp only [hlt, if_false] at hAB
      cases hAB
  | .filter subs p q, h, ctes, env, r, hAB => by
    simp only [shardSafe, Bool.and_eq_true] at h
    rw [run_filter] at hAB
    obtain ⟨rowsAB, hqAB, hf⟩ := bind_ok_inv hAB
    obtain ⟨rowsA, rowsB, hqA, hqB⟩ := shard_additive_conv fo fns cat T A B q h.2 ctes env rowsAB hqAB
    obtain ⟨rows', hq', hp⟩ := shard_additive fo fns cat T A B q h.2 ctes env rowsA rowsB hqA hqB
    rw [hqAB] at hq'; cases hq'
    have memA : ∀ a ∈ rowsA, a ∈ rowsAB := fun a ha => hp.mem_iff.mpr (mem_append_left _ ha)
    have memB : ∀ a ∈ rowsB, a ∈ rowsAB := fun a ha => hp.mem_iff.mpr (mem_append_right _ ha)
    have hA' : ∃ ra, run fo fns (cat.set T A) (.filter subs p q) ctes env = .ok ra := by
      rw [run_filter, runList_congr_noScan fo fns cat T A (A ++ B) subs h.1, hqA, ok_bind]
      exact ⟨_, filterMapM_ok_of_subset memA hf⟩
    have hB' : ∃ rb, run fo fns (cat.set T B) (.filter subs p q) ctes env = .ok rb := by
      rw [run_filter, runList_congr_noScan fo fns cat T B (A ++ B) subs h.1, hqB, ok_bind]
      exact ⟨_, filterMapM_ok_of_subset memB hf⟩
    obtain ⟨ra, hra⟩ := hA'
    obtain ⟨rb, hrb⟩ := hB'
    exact ⟨ra, rb, hra, hrb⟩
  | .project subs es q, h, ctes, env, r, hAB => by
    simp only [shardSafe, Bool.and_eq_true] at h
    rw [run_project] at hAB
    obtain ⟨rowsAB, hqAB, hf⟩ := bind_ok_inv hAB
    obtain ⟨rowsA, rowsB, hqA, hqB⟩ := shard_additive_conv fo fns cat T A B q h.2 ctes env rowsAB hqAB
    obtain ⟨rows', hq', hp⟩ := shard_additive fo fns cat T A B q h.2 ctes env rowsA rowsB hqA hqB
    rw [hqAB] at hq'; cases hq'
    have memA : ∀ a ∈ rowsA, a ∈ rowsAB := fun a ha => hp.mem_iff.mpr (mem_append_left _ ha)
    have memB : ∀ a ∈ rowsB, a ∈ rowsAB := fun a ha => hp.mem_iff.mpr (mem_append_right _ ha)
    have hA' : ∃ ra, run fo fns (cat.set T A) (.project subs es q) ctes env = .ok ra := by
      rw [run_project, runList_congr_noScan fo fns cat T A (A ++ B) subs h.1, hqA, ok_bind]
      exact ⟨_, mapM_ok_of_subset memA hf⟩
    have hB' : ∃ rb, run fo fns (cat.set T B) (.project subs es q) ctes env = .ok rb := by
      rw [run_project, runList_congr_noScan fo fns cat T B (A ++ B) subs h.1, hqB, ok_bind]
      exact ⟨_, mapM_ok_of_subset memB hf⟩
    obtain ⟨ra, hra⟩ := hA'
    obtain ⟨rb, hrb⟩ := hB'
    exact ⟨ra, rb, hra, hrb⟩
  | .sort keys q, h, ctes, env, r, hAB => by
    simp only [shardSafe] at h
    rw [run_sort] at hAB
    obtain ⟨rowsAB, hqAB, hAB⟩ := bind_ok_inv hAB
    obtain ⟨keyedAB, hk, _⟩ := bind_ok_inv hAB
    obtain ⟨rowsA, rowsB, hqA, hqB⟩ := shard_additive_conv fo fns cat T A B q h ctes env rowsAB hqAB
    obtain ⟨rows', hq', hp⟩ := shard_additive fo fns cat T A B q h ctes env rowsA rowsB hqA hqB
    rw [hqAB] at hq'; cases hq'
    have memA : ∀ a ∈ rowsA, a ∈ rowsAB := fun a ha => hp.mem_iff.mpr (mem_append_left _ ha)
    have memB : ∀ a ∈ rowsB, a ∈ rowsAB := fun a ha => hp.mem_iff.mpr (mem_append_right _ ha)
    have hA' : ∃ ra, run fo fns (cat.set T A) (.sort keys q) ctes env = .ok ra := by
      rw [run_sort, hqA, ok_bind, mapM_ok_of_subset memA hk, ok_bind]; exact ⟨_, rfl⟩
    have hB' : ∃ rb, run fo fns (cat.set T B) (.sort keys q) ctes env = .ok rb := by
      rw [run_sort, hqB, ok_bind, mapM_ok_of_subset memB hk, ok_bind]; exact ⟨_, rfl⟩
    obtain ⟨ra, hra⟩ := hA'
    obtain ⟨rb, hrb⟩ := hB'
    exact ⟨ra, rb, hra, hrb⟩
  | .join jt lw rw subs on l r, h, ctes, env, res, hAB => by
    obtain ⟨hs, hside⟩ := shardSafe_join h
    rw [run_join] at hAB
    obtain ⟨lsAB, hlAB, hAB⟩ := bind_ok_inv hAB
    obtain ⟨rsAB, hrAB, hj⟩ := bind_ok_inv hAB
    rcases hside with ⟨hl, hr, hjt⟩ | ⟨hl, hr, hjt⟩
    · obtain ⟨lsA, lsB, hlA, hlB⟩ := shard_additive_conv fo fns cat T A B l hl ctes env lsAB hlAB
      obtain ⟨ls', hl', hp⟩ := shard_additive fo fns cat T A B l hl ctes env lsA lsB hlA hlB
      rw [hlAB] at hl'; cases hl'
      obtain ⟨ta, hta⟩ := joinRows_ok_mono (ls' := lsA) (rs' := rsAB)
        (fun a ha => hp.mem_iff.mpr (mem_append_left _ ha)) (fun _ hb => hb) hj
      obtain ⟨tb, htb⟩ := joinRows_ok_mono (ls' := lsB) (rs' := rsAB)
        (fun a ha => hp.mem_iff.mpr (mem_append_right _ ha)) (fun _ hb => hb) hj
      refine ⟨ta, tb, ?_, ?_⟩
      · rw [run_join, runList_congr_noScan fo fns cat T A (A ++ B) subs hs, hlA,
          run_congr_noScan fo fns cat T A (A ++ B) r hr, hrAB]
        exact hta
      · rw [run_join, runList_congr_noScan fo fns cat T B (A ++ B) subs hs, hlB,
          run_congr_noScan fo fns cat T B (A ++ B) r hr, hrAB]
        exact htb
    · obtain ⟨rsA, rsB, hrA, hrB⟩ := shard_additive_conv fo fns cat T A B r hr ctes env rsAB hrAB
      obtain ⟨rs', hr', hp⟩ := shard_additive fo fns cat T A B r hr ctes env rsA rsB hrA hrB
      rw [hrAB] at hr'; cases hr'
      obtain ⟨ta, hta⟩ := joinRows_ok_mono (ls' := lsAB) (rs' := rsA)
        (fun _ hb => hb) (fun a ha => hp.mem_iff.mpr (mem_append_left _ ha)) hj
      obtain ⟨tb, htb⟩ := joinRows_ok_mono (ls' := lsAB) (rs' := rsB)
        (fun _ hb => hb) (fun a ha => hp.mem_iff.mpr (mem_append_right _ ha)) hj
      refine ⟨ta, tb, ?_, ?_⟩
      · rw [run_join, runList_congr_noScan fo fns cat T A (A ++ B) subs hs, hrA,
          run_congr_noScan fo fns cat T A (A ++ B) l hl, hlAB]
        exact hta
      · rw [run_join, runList_congr_noScan fo fns cat T B (A ++ B) subs hs, hrB,
          run_congr_noScan fo fns cat T B (A ++ B) l hl, hlAB]
        exact htb
  | .cteRef _, h, _, _, _, _ => by simp [shardSafe] at h
  | .values _, h, _, _, _, _ => by simp [shardSafe] at h
  | .agg _ _ _, h, _, _, _, _ => by simp [shardSafe] at h
  | .groupingSets _ _ _ _, h, _, _, _, _ => by simp [shardSafe] at h
  | .distinct _, h, _, _, _, _ => by simp [shardSafe] at h
  | .limit _ _ _, h, _, _, _, _ => by simp [shardSafe] at h
  | .setop _ _ _ _, h, _, _, _, _ => by simp [shardSafe] at h
  | .window _ _, h, _, _, _, _ => by simp [shardSafe] at h
  | .withCte _ _, h, _, _, _, _ => by simp [shardSafe] at h

/-- **An empty shard contributes no row.** -/
theorem shard_empty (fo : FloatOps) (fns : String → List Val → Except Err Val) (cat : List Table) (T : Nat) :
    ∀ (q : Query), shardSafe T q = true → ∀ (ctes : List Table) (env : Env) (r : Table),
      run fo fns (cat.set T []) q ctes env = .ok r → r = []
  | .scan t, h, ctes, env, r, hr => by
    have ht : t = T := by simpa [shardSafe] using h
    subst ht
    rw [scan_set] at hr
    by_cases hlt : t < cat.length
    · simp only [hlt, if_true] at hr
      cases hr; rfl
    · simp only [hlt, if_false] at hr
      cases hr
  | .filter subs p q, h, ctes, env, r, hr => by
    simp only [shardSafe, Bool.and_eq_true] at h
    rw [run_filter] at hr
    obtain ⟨rows, hq, hf⟩ := bind_ok_inv hr
    have := shard_empty fo fns cat T q h.2 ctes env rows hq
    subst this
    rw [List.filterMapM_nil] at hf
    cases hf; rfl
  | .project subs es q, h, ctes, env, r, hr => by
    simp only [shardSafe, Bool.and_eq_true] at h
    rw [run_project] at hr
    obtain ⟨rows, hq, hf⟩ := bind_ok_inv hr
    have := shard_empty fo fns cat T q h.2 ctes env rows hq
    subst this
    rw [List.mapM_nil] at hf
    cases hf; rfl
  | .sort keys q, h, ctes, env, r, hr => by
    simp only [shardSafe] at h
    rw [run_sort] at hr
    obtain ⟨rows, hq, hr⟩ := bind_ok_inv hr
    have := shard_empty fo fns cat T q h ctes env rows hq
    subst this
    rw [List.mapM_nil] at hr
    obtain ⟨keyed, hk, hr⟩ := bind_ok_inv hr
    cases hk; cases hr
    rw [(sortKeyed_perm fo _ []).eq_nil]; rfl
  | .join jt lw rw subs on l r, h, ctes, env, res, hr => by
    obtain ⟨hs, hside⟩ := shardSafe_join h
    rw [run_join] at hr
    obtain ⟨ls, hls, hr⟩ := bind_ok_inv hr
    obtain ⟨rs, hrs, hj⟩ := bind_ok_inv hr
    rcases hside with ⟨hl, _, hjt⟩ | ⟨_, hr, hjt⟩
    · have := shard_empty fo fns cat T l hl ctes env ls hls
      subst this
      exact joinRows_nil_left hjt hj
    · have := shard_empty fo fns cat T r hr ctes env rs hrs
      subst this
      exact joinRows_nil_right hjt hj
  | .cteRef _, h, _, _, _, _ => by simp [shardSafe] at h
  | .values _, h, _, _, _, _ => by simp [shardSafe] at h
  | .agg _ _ _, h, _, _, _, _ => by simp [shardSafe] at h
  | .groupingSets _ _ _ _, h, _, _, _, _ => by simp [shardSafe] at h
  | .distinct _, h, _, _, _, _ => by simp [shardSafe] at h
  | .limit _ _ _, h, _, _, _, _ => by simp [shardSafe] at h
  | .setop _ _ _ _, h, _, _, _, _ => by simp [shardSafe] at h
  | .window _ _, h, _, _, _, _ => by simp [shardSafe] at h
  | .withCte _ _, h, _, _, _, _ => by simp [shardSafe] at h

/-- **n shards**: the run over the concatenation of a non-empty list of shards is, as a bag, the concatenation of the
    per-shard results.  (Core has no `List.Forall₂`; the pointwise relation is `IQE.Bag.Forall2`.) -/
theorem shard_additive_n (fo : FloatOps) (fns : String → List Val → Except Err Val) (cat : List Table) (T : Nat)
    (q : Query) (hq : shardSafe T q = true) (ctes : List Table) (env : Env) :
    ∀ (shards outs : List Table), shards ≠ [] →
      IQE.Bag.Forall2 (fun s o => run fo fns (cat.set T s) q ctes env = .ok o) shards outs →
      ∃ r, run fo fns (cat.set T shards.flatten) q ctes env = .ok r ∧ r.Perm outs.flatten
  | [], _, hne, _ => absurd rfl hne
  | [s], outs, _, h => by
    cases h with
    | cons h1 h2 =>
      cases h2
      simp only [flatten_cons, flatten_nil, append_nil]
      exact ⟨_, h1, Perm.refl _⟩
  | s :: s' :: rest, outs, _, h => by
    cases h with
    | cons h1 h2 =>
      obtain ⟨r', hr', hp'⟩ := shard_additive_n fo fns cat T q hq ctes env (s' :: rest) _ (by simp) h2
      obtain ⟨r, hr, hp⟩ := shard_additive fo fns cat T s (s' :: rest).flatten q hq ctes env _ _ h1 hr'
      refine ⟨r, ?_, ?_⟩
      · rw [flatten_cons]; exact hr
      · rw [flatten_cons]; exact hp.trans ((Perm.refl _).append hp')

end more

/-! ## 6. kernel-checked counter-examples: the sides `shardSafe` refuses are not additive -/

section counterexamples

/-- a dummy float arithmetic (the counter-examples only use integers) -/
def fo0 : FloatOps := ⟨fun a _ => a, fun a _ => a, fun a _ => a, fun a _ => a, fun a => a, fun _ => ⟨0⟩, fun _ => none⟩
def fns0 : String → List Val → Except Err Val := fun _ _ => .error .divZero

/-- `L ⋈ R ON L.c0 = R.c0`, `L` = table 0 (one column), `R` = table 1 (one column, the SHARDED one) -/
def jq (jt : JoinType) : Query := .join jt 1 1 [] (.bin .eq (.col 0) (.col 1)) (.scan 0) (.scan 1)

def L : Table := [[.int 1]]
def R₁ : Table := [[.int 1]]
def R₂ : Table := [[.int 2]]

theorem ok_of_toOption {x : Except Err Table} {t : Table} (h : x.toOption = some t) : x = .ok t := by
  cases x with
  | error e => cases h
  | ok a => cases h; rfl

/-- LEFT JOIN with the NULL-supplying (right) side sharded: the left row `1` matches in shard `R₁`, and is NULL-extended
    in shard `R₂` — the concatenation has a row the true result has not.  (`shardSafe` refuses this plan.) -/
theorem unsafe_null_supplying_side :
    shardSafe 1 (jq .left) = false ∧
    ∃ r ra rb, run fo0 fns0 ([L, []].set 1 (R₁ ++ R₂)) (jq .left) [] [] = .ok r ∧
      run fo0 fns0 ([L, []].set 1 R₁) (jq .left) [] [] = .ok ra ∧
      run fo0 fns0 ([L, []].set 1 R₂) (jq .left) [] [] = .ok rb ∧
      r = [[.int 1, .int 1]] ∧ ra ++ rb = [[.int 1, .int 1], [.int 1, .null]] ∧ ¬ r.Perm (ra ++ rb) :=
  ⟨by decide, [[.int 1, .int 1]], [[.int 1, .int 1]], [[.int 1, .null]],
    ok_of_toOption (by decide), ok_of_toOption (by decide), ok_of_toOption (by decide), rfl, rfl,
    fun h => absurd h.length_eq (by decide)⟩

/-- SEMI JOIN with the build (right) side sharded: a probe row matched in both shards is emitted twice. -/
theorem unsafe_semi_build_side :
    shardSafe 1 (jq .semi) = false ∧
    ∃ r ra rb, run fo0 fns0 ([L, []].set 1 (R₁ ++ R₁)) (jq .semi) [] [] = .ok r ∧
      run fo0 fns0 ([L, []].set 1 R₁) (jq .semi) [] [] = .ok ra ∧
      run fo0 fns0 ([L, []].set 1 R₁) (jq .semi) [] [] = .ok rb ∧
      r = [[.int 1]] ∧ ra ++ rb = [[.int 1], [.int 1]] ∧ ¬ r.Perm (ra ++ rb) :=
  ⟨by decide, [[.int 1]], [[.int 1]], [[.int 1]],
    ok_of_toOption (by decide), ok_of_toOption (by decide), ok_of_toOption (by decide), rfl, rfl,
    fun h => absurd h.length_eq (by decide)⟩

/-- ANTI JOIN with the build (right) side sharded: a probe row unmatched in shard `R₂` is emitted although it has a
    match (in shard `R₁`). -/
theorem unsafe_anti_build_side :
    shardSafe 1 (jq .anti) = false ∧
    ∃ r ra rb, run fo0 fns0 ([L, []].set 1 (R₁ ++ R₂)) (jq .anti) [] [] = .ok r ∧
      run fo0 fns0 ([L, []].set 1 R₁) (jq .anti) [] [] = .ok ra ∧
      run fo0 fns0 ([L, []].set 1 R₂) (jq .anti) [] [] = .ok rb ∧
      r = [] ∧ ra ++ rb = [[.int 1]] ∧ ¬ r.Perm (ra ++ rb) :=
  ⟨by decide, [], [], [[.int 1]],
    ok_of_toOption (by decide), ok_of_toOption (by decide), ok_of_toOption (by decide), rfl, rfl,
    fun h => absurd h.length_eq (by decide)⟩

end counterexamples

end IQE.Dist
