/-
  Lemmas for IQE.Engine.Shard: reading the pieces of a contiguous cover of a row group gives back the row group;
  a shard scan over valid splits returns exactly its splits' qualifying rows; any partition of the split indices over
  nodes reassembles the table (as a multiset), with filter, projection and sound row-group pruning.
-/
import IQE.Engine.Shard
import IQE.Lemmas.SplitEnum
namespace IQE.Engine.Shard
open IQE.Engine IQE.Engine.SplitEnum

variable {α β : Type}

/-- the rows a split denotes, after filter and projection -/
def ideal (rgs : List (List α)) (φ : α → Bool) (π : α → β) (s : RSplit) : List β :=
  ((((rgs[s.rg]?.getD []).drop s.off).take s.n).filter φ).map π

/-- a split the reader accepts -/
def Valid (rgs : List (List α)) (s : RSplit) : Prop := ∃ rows, rgs[s.rg]? = some rows ∧ s.off + s.n ≤ rows.length

/-- row-group pruning is SOUND: a pruned row group holds no qualifying row (this is property C05) -/
def PruneSound (rgs : List (List α)) (keep : Nat → Bool) (φ : α → Bool) : Prop :=
  ∀ i rows, rgs[i]? = some rows → keep i = false → ∀ r ∈ rows, φ r = false

/-- the splits of a table whose row group `i` is cut into the pieces `cuts i` -/
def covering (rgs : List (List α)) (cuts : Nat → List Piece) : List RSplit :=
  (List.range rgs.length).flatMap fun i => (cuts i).map fun p => { rg := i, off := p.off, n := p.n }

theorem contig_bounds : ∀ (start : Nat) (ps : List Piece) (stop : Nat), Contig start ps stop →
    ∀ p ∈ ps, start ≤ p.off ∧ p.off + p.n ≤ stop
  | _, [], _, _, p, hp => by simp at hp
  | start, q :: ps, stop, h, p, hp => by
    have hsum := contig_sum _ _ _ h.2
    rcases List.mem_cons.1 hp with rfl | hp
    · have := h.1; omega
    · have := contig_bounds _ ps stop h.2 p hp; omega

theorem contig_read (rows : List α) : ∀ (start : Nat) (ps : List Piece) (stop : Nat), Contig start ps stop →
    ps.flatMap (fun p => (rows.drop p.off).take p.n) = (rows.drop start).take (stop - start)
  | start, [], stop, h => by
    have : start = stop := h
    subst this; simp
  | start, p :: ps, stop, h => by
    have hoff : p.off = start := h.1
    have ih := contig_read rows (start + p.n) ps stop h.2
    have hsum := contig_sum _ _ _ h.2
    have hle : start + p.n ≤ stop := by omega
    simp only [List.flatMap_cons, ih, hoff]
    have e : stop - start = p.n + (stop - (start + p.n)) := by omega
    rw [e, List.take_add, List.drop_drop]

theorem contig_read_all (rows : List α) (ps : List Piece) (h : Contig 0 ps rows.length) :
    ps.flatMap (fun p => (rows.drop p.off).take p.n) = rows := by
  rw [contig_read rows 0 ps rows.length h]; simp

theorem readSplitWith_valid (rgs : List (List α)) (keep : Nat → Bool) (φ : α → Bool) (π : α → β)
    (hk : PruneSound rgs keep φ) (s : RSplit) (hv : Valid rgs s) :
    readSplitWith rgs keep φ π s = .ok (ideal rgs φ π s) := by
  obtain ⟨rows, hr, hb⟩ := hv
  have hnot : ¬ (s.off + s.n > rows.length) := by omega
  unfold readSplitWith readSplit ideal
  simp only [hr, hnot, ↓reduceIte, Option.getD_some]
  cases hkeep : keep s.rg with
  | true => simp
  | false =>
    have hall := hk s.rg rows hr hkeep
    have : ((rows.drop s.off).take s.n).filter φ = [] := by
      apply List.filter_eq_nil_iff.2
      intro r hrm
      have : r ∈ rows := List.mem_of_mem_drop (List.mem_of_mem_take hrm)
      simp [hall r this]
    simp [this]

theorem scanShard_valid (rgs : List (List α)) (keep : Nat → Bool) (φ : α → Bool) (π : α → β)
    (hk : PruneSound rgs keep φ) : ∀ L : List RSplit, (∀ s ∈ L, Valid rgs s) →
    scanShard rgs keep φ π L = .ok (L.flatMap (ideal rgs φ π))
  | [], _ => rfl
  | s :: L, h => by
    simp only [scanShard, readSplitWith_valid rgs keep φ π hk s (h s List.mem_cons_self),
      scanShard_valid rgs keep φ π hk L (fun t ht => h t (List.mem_cons_of_mem _ ht)), List.flatMap_cons]

theorem covering_valid (rgs : List (List α)) (cuts : Nat → List Piece)
    (hc : ∀ i rows, rgs[i]? = some rows → Contig 0 (cuts i) rows.length) : ∀ s ∈ covering rgs cuts, Valid rgs s := by
  intro s hs
  simp only [covering, List.mem_flatMap, List.mem_range, List.mem_map] at hs
  obtain ⟨i, hi, p, hp, rfl⟩ := hs
  have hr : rgs[i]? = some rgs[i] := List.getElem?_eq_getElem hi
  exact ⟨rgs[i], hr, (contig_bounds 0 _ _ (hc i _ hr) p hp).2⟩

/-- reading every split of the covering, in order, yields the table's qualifying rows in order -/
theorem covering_ideal (φ : α → Bool) (π : α → β) (cuts : Nat → List Piece) :
    ∀ (pre rgs : List (List α)), (∀ i rows, (pre ++ rgs)[i]? = some rows → Contig 0 (cuts i) rows.length) →
      ((List.range' pre.length rgs.length).flatMap fun i =>
        ((cuts i).map fun p => ({ rg := i, off := p.off, n := p.n } : RSplit)).flatMap (ideal (pre ++ rgs) φ π))
      = (rgs.flatten.filter φ).map π
  | pre, [], _ => by simp
  | pre, rows :: rgs, hc => by
    have hget : (pre ++ rows :: rgs)[pre.length]? = some rows := by simp
    have hcont := hc pre.length rows hget
    have ih := covering_ideal φ π cuts (pre ++ [rows]) rgs (by simpa using hc)
    simp only [List.length_append, List.length_cons, List.length_nil, Nat.zero_add, List.append_assoc,
      List.cons_append, List.nil_append] at ih
    rw [List.length_cons, List.range'_succ, List.flatMap_cons, ih, List.flatten_cons, List.filter_append, List.map_append]
    congr 1
    rw [List.flatMap_map]
    have : (fun p : Piece => ideal (pre ++ rows :: rgs) φ π ({ rg := pre.length, off := p.off, n := p.n } : RSplit))
        = fun p => (((rows.drop p.off).take p.n).filter φ).map π := by
      funext p; simp [ideal, hget]
    rw [this]
    have h2 := contig_read_all rows (cuts pre.length) hcont
    have h3 : (cuts pre.length).flatMap (fun p => (((rows.drop p.off).take p.n).filter φ).map π)
        = (((cuts pre.length).flatMap (fun p => (rows.drop p.off).take p.n)).filter φ).map π := by
      rw [List.filter_flatMap, List.map_flatMap]
    rw [h3, h2]

theorem covering_flatMap_ideal (rgs : List (List α)) (φ : α → Bool) (π : α → β) (cuts : Nat → List Piece)
    (hc : ∀ i rows, rgs[i]? = some rows → Contig 0 (cuts i) rows.length) :
    (covering rgs cuts).flatMap (ideal rgs φ π) = (rgs.flatten.filter φ).map π := by
  have := covering_ideal φ π cuts [] rgs (by simpa using hc)
  simp only [List.length_nil, List.nil_append] at this
  rw [← this, covering, List.flatMap_assoc, List.range_eq_range']

theorem range_map_getElem! [Inhabited α] (S : List α) : (List.range S.length).map (fun i => S[i]!) = S := by
  apply List.ext_getElem
  · simp
  · intro i h1 h2
    simp only [List.getElem_map, List.getElem_range]
    exact getElem!_pos S i h2

end IQE.Engine.Shard
