/- IQE.Lemmas.FnUrl — C36: url_decode ∘ url_encode at byte level. -/
import IQE.Spec.Fn.Enc2
namespace IQE.Spec.Fn
open IQE

theorem hexValU_hexUp : ∀ n : Fin 16, hexValU (hexUp n.val) = some n.val := by decide
set_option maxRecDepth 100000 in
theorem alnum_facts : ∀ n : Fin 256, isAlnum n.val = true →
    Char.ofNat n.val ≠ '%' ∧ Utf8.encodeChar (Char.ofNat n.val) = [UInt8.ofNat n.val] := by decide +kernel

theorem urlDecodeBytes_encodeByte (b : UInt8) (rest : List Char) :
    urlDecodeBytes (urlEncodeByte b ++ rest) = (urlDecodeBytes rest).map (b :: ·) := by
  have hb := b.toNat_lt
  unfold urlEncodeByte
  split
  · rename_i hs
    obtain ⟨h1, h3⟩ := alnum_facts ⟨b.toNat, hb⟩ hs
    simp only [List.singleton_append] at *
    rw [urlDecodeBytes.eq_def]
    split
    · rename_i heq; simp at heq
    · rename_i heq; simp at heq; exact absurd heq.1 h1
    · rename_i heq; simp at heq; exact absurd heq.1 h1
    · rename_i c r _ _ heq
      simp at heq; obtain ⟨hc, hr⟩ := heq; subst hc hr
      simp only [h3]
      cases urlDecodeBytes rest <;> simp
  · have h1 := hexValU_hexUp ⟨b.toNat / 16, by omega⟩
    have h2 := hexValU_hexUp ⟨b.toNat % 16, by omega⟩
    simp only [List.cons_append, List.nil_append, urlDecodeBytes, h1, h2]
    have : b.toNat / 16 * 16 + b.toNat % 16 = b.toNat := by omega
    cases urlDecodeBytes rest <;> simp [this]

theorem urlDecodeBytes_flatMap (bs : List UInt8) : urlDecodeBytes (bs.flatMap urlEncodeByte) = some bs := by
  induction bs with
  | nil => rfl
  | cons b r ih => simp only [List.flatMap_cons]; rw [urlDecodeBytes_encodeByte, ih]; rfl

/-- byte-level round trip for ALL strings -/
theorem urlDecodeBytes_urlEncode (s : List Char) : urlDecodeBytes (urlEncode s) = some (Utf8.encode s) :=
  urlDecodeBytes_flatMap _

end IQE.Spec.Fn
