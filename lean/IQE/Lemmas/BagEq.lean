/-
  IQE.Lemmas.BagEq — `Spec.subBag` / `Spec.bagEq` (the executable bag comparison used by `Spec.acceptable`)
  characterised by multiplicities and by `List.Perm`.
-/
import IQE.Spec.Acceptable
namespace IQE.Lemmas.BagEq
open IQE IQE.Spec

theorem removeFirst_eq_erase (r : Row) (t : Table) : removeFirst r t = t.erase r := by
  induction t with
  | nil => rfl
  | cons x xs ih =>
    simp only [removeFirst, List.erase_cons]
    by_cases h : x = r
    · subst h; simp
    · have : (x == r) = false := by simpa using h
      simp [h, this, ih]

theorem subBag_iff_count (a b : Table) : subBag a b = true ↔ ∀ x, a.count x ≤ b.count x := by
  induction a generalizing b with
  | nil => simp [subBag]
  | cons y ys ih =>
    simp only [subBag, Bool.and_eq_true, ih, removeFirst_eq_erase, List.contains_iff_mem, List.count_erase, List.count_cons]
    constructor
    · rintro ⟨hm, h⟩ x
      have := h x
      have hp : 0 < b.count y := List.count_pos_iff.mpr hm
      by_cases hx : y = x
      · subst hx; simp at this ⊢; omega
      · have : (y == x) = false := by simpa using hx
        have h2 : (x == y) = false := by simpa using (fun e => hx e.symm)
        simp_all
    · intro h
      have hy := h y
      simp at hy
      have hm : y ∈ b := List.count_pos_iff.mp (by omega)
      refine ⟨hm, fun x => ?_⟩
      have := h x
      by_cases hx : y = x
      · subst hx; simp at this ⊢; omega
      · have h1 : (y == x) = false := by simpa using hx
        have h2 : (x == y) = false := by simpa using (fun e => hx e.symm)
        simp_all

theorem subBag_refl (a : Table) : subBag a a = true := (subBag_iff_count a a).mpr (fun _ => Nat.le_refl _)

theorem bagEq_refl (a : Table) : bagEq a a = true := by simp [bagEq, subBag_refl]

theorem perm_of_bagEq (a b : Table) (h : bagEq a b = true) : a.Perm b := by
  induction a generalizing b with
  | nil =>
    simp [bagEq, subBag] at h
    have : b = [] := List.eq_nil_of_length_eq_zero h.symm
    subst this; exact List.Perm.refl _
  | cons y ys ih =>
    simp only [bagEq, subBag, Bool.and_eq_true, beq_iff_eq, List.length_cons, removeFirst_eq_erase, List.contains_iff_mem] at h
    obtain ⟨hl, hm, hs⟩ := h
    have hlen : (b.erase y).length = ys.length := by rw [List.length_erase_of_mem hm]; omega
    have : ys.Perm (b.erase y) := ih _ (by simp [bagEq, hs, hlen])
    exact (List.Perm.cons y this).trans (List.perm_cons_erase hm).symm

theorem bagEq_of_perm (a b : Table) (h : a.Perm b) : bagEq a b = true := by
  simp only [bagEq, Bool.and_eq_true, beq_iff_eq]
  exact ⟨h.length_eq, (subBag_iff_count a b).mpr (fun x => Nat.le_of_eq (h.count_eq x))⟩

theorem bagEq_iff_perm (a b : Table) : bagEq a b = true ↔ a.Perm b := ⟨perm_of_bagEq a b, bagEq_of_perm a b⟩

theorem subBag_of_sublist (a b : Table) (h : a.Sublist b) : subBag a b = true :=
  (subBag_iff_count a b).mpr (fun _ => h.count_le _)

end IQE.Lemmas.BagEq
