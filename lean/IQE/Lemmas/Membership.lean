/-
  Lemmas for C15 about the sorted association list (`BTreeMap`) and the stable sort of `members()`.
-/
import IQE.Engine.Membership
set_option linter.unusedSectionVars false
namespace IQE.Engine.Membership

variable {α : Type} [DecidableEq α]

/-- What is assumed of the environment: `lt` is a strict total order on addresses (Rust `String: Ord`), and the
    advertised address is recognised as self (`is_self_address(a, a)` returns at rule 1). Nothing else is assumed
    of `isSelf`. -/
structure Env.Wf (env : Env α) : Prop where
  irrefl : ∀ a, env.lt a a = false
  trans : ∀ a b c, env.lt a b = true → env.lt b c = true → env.lt a c = true
  tri : ∀ a b, env.lt a b = true ∨ a = b ∨ env.lt b a = true
  selfIsSelf : env.isSelf env.selfAddr = true

/-- The state invariant: the map is strictly sorted by key (so duplicate-free) and no key is this node. -/
structure Inv (env : Env α) (s : State α) : Prop where
  sorted : (keys s.peers).Pairwise (fun a b => env.lt a b = true)
  notSelf : ∀ k ∈ keys s.peers, env.isSelf k = false

theorem Env.Wf.asymm {env : Env α} (w : env.Wf) {a b : α} (h : env.lt a b = true) : env.lt b a = false := by
  cases hba : env.lt b a with
  | false => rfl
  | true => have := w.trans a b a h hba; rw [w.irrefl] at this; cases this

/-! ### insert -/

theorem mem_keys_insert (lt : α → α → Bool) (k : α) (v : PeerRec) (x : α) :
    ∀ m : List (α × PeerRec), x ∈ keys (insert lt k v m) ↔ x = k ∨ x ∈ keys m := by
  intro m
  induction m with
  | nil => simp [insert, keys]
  | cons p rest ih =>
    obtain ⟨k', v'⟩ := p
    unfold insert
    split
    · simp [keys]
    · split
      · rename_i h; subst h; simp [keys]
      · have ih' := ih
        simp only [keys, List.map_cons, List.mem_cons] at ih' ⊢
        rw [ih']
        constructor
        · rintro (h | h | h) <;> simp [h]
        · rintro (h | h | h) <;> simp [h]

theorem insert_sorted {env : Env α} (w : env.Wf) (k : α) (v : PeerRec) :
    ∀ m : List (α × PeerRec), (keys m).Pairwise (fun a b => env.lt a b = true) →
      (keys (insert env.lt k v m)).Pairwise (fun a b => env.lt a b = true) := by
  intro m
  induction m with
  | nil => intro _; simp [insert, keys]
  | cons p rest ih =>
    obtain ⟨k', v'⟩ := p
    intro hs
    have hs' : (k' :: keys rest).Pairwise (fun a b => env.lt a b = true) := by simpa [keys] using hs
    rw [List.pairwise_cons] at hs'
    obtain ⟨hk', hrest⟩ := hs'
    unfold insert
    split
    · rename_i hlt
      show (k :: k' :: keys rest).Pairwise _
      rw [List.pairwise_cons]
      refine ⟨?_, by rw [List.pairwise_cons]; exact ⟨hk', hrest⟩⟩
      intro y hy
      rcases List.mem_cons.1 hy with h | h
      · subst h; exact hlt
      · exact w.trans _ _ _ hlt (hk' y h)
    · split
      · rename_i _ heq
        subst heq
        show (k :: keys rest).Pairwise _
        rw [List.pairwise_cons]; exact ⟨hk', hrest⟩
      · rename_i hnlt hne
        show (k' :: keys (insert env.lt k v rest)).Pairwise _
        rw [List.pairwise_cons]
        refine ⟨?_, ih hrest⟩
        intro y hy
        rcases (mem_keys_insert env.lt k v y rest).1 hy with h | h
        · subst h
          rcases w.tri k' y with h1 | h1 | h1
          · exact h1
          · exact absurd h1.symm hne
          · exact absurd h1 hnlt
        · exact hk' y h

theorem mem_keys_foldl_insert (lt : α → α → Bool) (x : α) :
    ∀ (l : List α) (m : List (α × PeerRec)),
      x ∈ keys (l.foldl (fun m a => insert lt a PeerRec.new m) m) ↔ x ∈ l ∨ x ∈ keys m := by
  intro l
  induction l with
  | nil => intro m; simp
  | cons a l ih =>
    intro m
    simp only [List.foldl_cons, List.mem_cons]
    rw [ih, mem_keys_insert]
    constructor
    · rintro (h | h | h) <;> simp [h]
    · rintro ((h | h) | h) <;> simp [h]

theorem foldl_insert_sorted {env : Env α} (w : env.Wf) :
    ∀ (l : List α) (m : List (α × PeerRec)), (keys m).Pairwise (fun a b => env.lt a b = true) →
      (keys (l.foldl (fun m a => insert env.lt a PeerRec.new m) m)).Pairwise (fun a b => env.lt a b = true) := by
  intro l
  induction l with
  | nil => intro m h; simpa using h
  | cons a l ih => intro m h; simp only [List.foldl_cons]; exact ih _ (insert_sorted w a _ m h)

/-! ### modify / lookup / filter -/

theorem keys_modify (k : α) (f : PeerRec → PeerRec) : ∀ m : List (α × PeerRec), keys (modify k f m) = keys m := by
  intro m
  induction m with
  | nil => rfl
  | cons p rest ih =>
    obtain ⟨k', v'⟩ := p
    unfold modify
    split
    · simp [keys]
    · have ih' := ih
      simp only [keys, List.map_cons] at ih' ⊢
      rw [ih']

theorem keys_filter (q : α → Bool) (m : List (α × PeerRec)) :
    keys (m.filter (fun p => q p.1)) = (keys m).filter q := by
  induction m with
  | nil => rfl
  | cons p rest ih =>
    simp only [keys, List.map_cons, List.filter_cons] at ih ⊢
    split <;> simp [ih]

theorem lookup_none_modify (k : α) (f : PeerRec → PeerRec) :
    ∀ m : List (α × PeerRec), lookup k m = none → modify k f m = m := by
  intro m
  induction m with
  | nil => intro _; rfl
  | cons p rest ih =>
    obtain ⟨k', v'⟩ := p
    unfold lookup modify
    split
    · intro h; cases h
    · intro h; rw [ih h]

/-! ### the stable sort of `members()` -/

theorem sortIns_perm (lt : α → α → Bool) (x : Member α) : ∀ l, (sortIns lt x l).Perm (x :: l) := by
  intro l
  induction l with
  | nil => exact List.Perm.refl _
  | cons y r ih =>
    unfold sortIns
    split
    · exact ((List.Perm.cons y ih).trans (List.Perm.swap x y r))
    · exact List.Perm.refl _

theorem sortByAddress_perm (lt : α → α → Bool) : ∀ l : List (Member α), (sortByAddress lt l).Perm l := by
  intro l
  induction l with
  | nil => exact List.Perm.refl _
  | cons x r ih =>
    show (sortIns lt x (sortByAddress lt r)).Perm (x :: r)
    exact (sortIns_perm lt x _).trans (List.Perm.cons x ih)

theorem sortIns_sorted {env : Env α} (w : env.Wf) (x : Member α) :
    ∀ l : List (Member α), l.Pairwise (fun a b => env.lt b.address a.address = false) →
      (sortIns env.lt x l).Pairwise (fun a b => env.lt b.address a.address = false) := by
  intro l
  induction l with
  | nil => intro _; simp [sortIns]
  | cons y r ih =>
    intro h
    rw [List.pairwise_cons] at h
    obtain ⟨hy, hr⟩ := h
    unfold sortIns
    split
    · rename_i hlt
      rw [List.pairwise_cons]
      refine ⟨?_, ih hr⟩
      intro z hz
      rcases List.mem_cons.1 ((sortIns_perm env.lt x r).mem_iff.1 hz) with h | h
      · subst h; exact w.asymm hlt
      · exact hy z h
    · rename_i hnlt
      have hnlt' : env.lt y.address x.address = false := by simpa using hnlt
      rw [List.pairwise_cons]
      refine ⟨?_, by rw [List.pairwise_cons]; exact ⟨hy, hr⟩⟩
      intro z hz
      rcases List.mem_cons.1 hz with h | h
      · subst h; exact hnlt'
      · -- z after y, ¬ z < y, ¬ y < x ⇒ ¬ z < x
        have hzy := hy z h
        cases hzx : env.lt z.address x.address with
        | false => rfl
        | true =>
          rcases w.tri y.address z.address with h1 | h1 | h1
          · have := w.trans _ _ _ h1 hzx; rw [hnlt'] at this; cases this
          · rw [h1, hzx] at hnlt'; cases hnlt'
          · rw [hzy] at h1; cases h1

theorem sortByAddress_sorted {env : Env α} (w : env.Wf) :
    ∀ l : List (Member α), (sortByAddress env.lt l).Pairwise (fun a b => env.lt b.address a.address = false) := by
  intro l
  induction l with
  | nil => simp [sortByAddress]
  | cons x r ih => exact sortIns_sorted w x _ ih

/-- Non-strictly sorted + pairwise different ⇒ strictly sorted. -/
theorem strict_of_sorted_nodup {env : Env α} (w : env.Wf) :
    ∀ l : List α, l.Pairwise (fun a b => env.lt b a = false) → l.Nodup → l.Pairwise (fun a b => env.lt a b = true) := by
  intro l
  induction l with
  | nil => intro _ _; exact List.Pairwise.nil
  | cons x r ih =>
    intro hs hn
    rw [List.pairwise_cons] at hs
    rw [List.nodup_cons] at hn
    rw [List.pairwise_cons]
    refine ⟨?_, ih hs.2 hn.2⟩
    intro y hy
    rcases w.tri x y with h | h | h
    · exact h
    · subst h; exact absurd hy hn.1
    · rw [hs.1 y hy] at h; cases h

theorem nodup_of_sorted {env : Env α} (w : env.Wf) (l : List α) (h : l.Pairwise (fun a b => env.lt a b = true)) :
    l.Nodup := by
  refine List.Pairwise.imp ?_ h
  intro a b hab heq
  subst heq
  rw [w.irrefl] at hab; cases hab

end IQE.Engine.Membership
