import IQE.Engine.Iceberg
namespace IQE.Engine.Iceberg

/-! sortDedup: membership, strict sortedness, canonicity -/

theorem mem_insertSorted (x a : Nat) : ∀ l, a ∈ insertSorted x l ↔ a = x ∨ a ∈ l := by
  intro l
  induction l with
  | nil => simp [insertSorted]
  | cons y ys ih =>
    simp only [insertSorted]
    split
    · simp
    · split
      · rename_i h; subst h; simp
      · simp only [List.mem_cons, ih]
        constructor
        · rintro (h | h | h) <;> simp [h]
        · rintro (h | h | h) <;> simp [h]

theorem mem_sortDedup (a : Nat) : ∀ l, a ∈ sortDedup l ↔ a ∈ l := by
  intro l
  induction l with
  | nil => simp [sortDedup]
  | cons x xs ih => simp [sortDedup, mem_insertSorted, ih]

theorem insertSorted_sorted (x : Nat) : ∀ l, l.Pairwise (· < ·) → (insertSorted x l).Pairwise (· < ·) := by
  intro l
  induction l with
  | nil => intro _; simp [insertSorted]
  | cons y ys ih =>
    intro hp
    simp only [insertSorted]
    split
    · rename_i hxy
      refine List.Pairwise.cons ?_ hp
      intro a ha
      rcases List.mem_cons.1 ha with rfl | h
      · exact hxy
      · exact Nat.lt_trans hxy (List.rel_of_pairwise_cons hp h)
    · split
      · exact hp
      · rename_i h1 h2
        refine List.Pairwise.cons ?_ (ih (List.Pairwise.of_cons hp))
        intro a ha
        rcases (mem_insertSorted x a ys).1 ha with rfl | h
        · omega
        · exact List.rel_of_pairwise_cons hp h

theorem sortDedup_sorted : ∀ l, (sortDedup l).Pairwise (· < ·) := by
  intro l
  induction l with
  | nil => simp [sortDedup]
  | cons x xs ih => exact insertSorted_sorted x _ ih

/-- two strictly increasing lists with the same members are equal -/
theorem sorted_ext : ∀ (l₁ l₂ : List Nat), l₁.Pairwise (· < ·) → l₂.Pairwise (· < ·) → (∀ a, a ∈ l₁ ↔ a ∈ l₂) → l₁ = l₂ := by
  intro l₁
  induction l₁ with
  | nil =>
    intro l₂ _ _ h
    cases l₂ with
    | nil => rfl
    | cons y ys => exact absurd ((h y).2 List.mem_cons_self) (by simp)
  | cons x xs ih =>
    intro l₂ h1 h2 h
    cases l₂ with
    | nil => exact absurd ((h x).1 List.mem_cons_self) (by simp)
    | cons y ys =>
      have hx : x ∈ y :: ys := (h x).1 List.mem_cons_self
      have hy : y ∈ x :: xs := (h y).2 List.mem_cons_self
      have hxy : x = y := by
        rcases List.mem_cons.1 hx with e | hx'
        · exact e
        · rcases List.mem_cons.1 hy with e | hy'
          · exact e.symm
          · have a1 := List.rel_of_pairwise_cons h2 hx'
            have a2 := List.rel_of_pairwise_cons h1 hy'
            omega
      subst hxy
      congr 1
      apply ih ys (List.Pairwise.of_cons h1) (List.Pairwise.of_cons h2)
      intro a
      constructor
      · intro ha
        have := (h a).1 (List.mem_cons_of_mem _ ha)
        rcases List.mem_cons.1 this with e | h'
        · subst e; exact absurd (List.rel_of_pairwise_cons h1 ha) (Nat.lt_irrefl _)
        · exact h'
      · intro ha
        have := (h a).2 (List.mem_cons_of_mem _ ha)
        rcases List.mem_cons.1 this with e | h'
        · subst e; exact absurd (List.rel_of_pairwise_cons h2 ha) (Nat.lt_irrefl _)
        · exact h'

theorem sortDedup_congr (l₁ l₂ : List Nat) (h : ∀ a, a ∈ l₁ ↔ a ∈ l₂) : sortDedup l₁ = sortDedup l₂ :=
  sorted_ext _ _ (sortDedup_sorted l₁) (sortDedup_sorted l₂) (fun a => by rw [mem_sortDedup, mem_sortDedup]; exact h a)

/-! entries -/

/-- an entry the reader accepts or skips -/
def Acceptable (e : Entry) : Prop := e.status = 2 ∨ (e.content = 0 ∧ e.parquet = true ∧ e.uri ≠ .remote)

def liveFiles (es : List Entry) : List Nat := (es.filter isLive).map (·.file)

theorem isLive_iff (e : Entry) : isLive e = true ↔ e.status ≠ 2 := by simp [isLive]

theorem collect_ok : ∀ es : List Entry, (∀ e ∈ es, Acceptable e) → collectEntries es = .ok (liveFiles es) := by
  intro es
  induction es with
  | nil => intro _; rfl
  | cons e es ih =>
    intro h
    have ih' := ih (fun e' he' => h e' (List.mem_cons_of_mem _ he'))
    rcases h e List.mem_cons_self with hd | ⟨hc, hp, hu⟩
    · have : entryFile e = .ok none := by simp [entryFile, hd]
      simp only [collectEntries, this, ih', liveFiles, List.filter_cons, isLive, hd]
      simp
    · by_cases hd : e.status = 2
      · have : entryFile e = .ok none := by simp [entryFile, hd]
        simp only [collectEntries, this, ih', liveFiles, List.filter_cons, isLive, hd]
        simp
      · have : entryFile e = .ok (some e.file) := by simp [entryFile, hd, hc, hp, hu]
        simp only [collectEntries, this, ih', liveFiles, List.filter_cons, isLive]
        simp [hd]

theorem collect_err : ∀ es : List Entry, (∃ e ∈ es, ¬ Acceptable e) → ∃ x, collectEntries es = .error x := by
  intro es
  induction es with
  | nil => rintro ⟨e, he, _⟩; cases he
  | cons e es ih =>
    rintro ⟨b, hb, hbad⟩
    simp only [collectEntries]
    cases hef : entryFile e with
    | error x => exact ⟨x, rfl⟩
    | ok o =>
      have hacc : Acceptable e := by
        unfold entryFile at hef
        by_cases hd : e.status = 2
        · exact Or.inl hd
        · right
          simp only [hd, if_false] at hef
          by_cases hc : e.content = 0
          · by_cases hp : e.parquet = true
            · by_cases hu : e.uri = .remote
              · simp [hc, hp, hu] at hef
              · exact ⟨hc, hp, hu⟩
            · simp [hc, hp] at hef
          · simp [hc] at hef
      have hb' : b ∈ es := by
        rcases List.mem_cons.1 hb with rfl | h
        · exact absurd hacc hbad
        · exact h
      obtain ⟨x, hx⟩ := ih ⟨b, hb', hbad⟩
      cases o with
      | none => exact ⟨x, hx⟩
      | some f => exact ⟨x, by simp [hx]⟩

/-! the encoding invariant -/

structure EncInv (uri : Nat → UriForm) (ms : List Manifest) (L : List Nat) : Prop where
  acc : ∀ e ∈ ms.flatten, Acceptable e
  mem : ∀ x, x ∈ liveFiles ms.flatten ↔ x ∈ L

theorem liveFiles_append (a b : List Entry) : liveFiles (a ++ b) = liveFiles a ++ liveFiles b := by
  simp [liveFiles, List.filter_append]

theorem mem_liveFiles (x : Nat) (es : List Entry) : x ∈ liveFiles es ↔ ∃ e ∈ es, isLive e = true ∧ e.file = x := by
  simp [liveFiles, List.mem_map, List.mem_filter, and_assoc]

theorem rewriteFor_acc (fs : List Nat) (m : Manifest) (h : ∀ e ∈ m, Acceptable e) : ∀ e ∈ rewriteFor fs m, Acceptable e := by
  intro e he
  simp only [rewriteFor, List.mem_map, List.mem_filter] at he
  obtain ⟨e0, ⟨h0, hl⟩, rfl⟩ := he
  have hnd : e0.status ≠ 2 := (isLive_iff e0).1 hl
  rcases h e0 h0 with hd | hacc
  · exact absurd hd hnd
  · split
    · exact Or.inl rfl
    · exact Or.inr hacc

theorem rewriteFor_live (fs : List Nat) (m : Manifest) (x : Nat) :
    x ∈ liveFiles (rewriteFor fs m) ↔ x ∈ liveFiles m ∧ fs.contains x = false := by
  simp only [mem_liveFiles, rewriteFor, List.mem_map, List.mem_filter]
  constructor
  · rintro ⟨e, ⟨e0, ⟨h0, hl0⟩, rfl⟩, hl, hf⟩
    by_cases hc : fs.contains e0.file = true
    · rw [if_pos hc] at hl
      simp [isLive] at hl
    · rw [if_neg hc] at hf
      simp only at hf
      subst hf
      exact ⟨⟨e0, h0, hl0, rfl⟩, by simpa using hc⟩
  · rintro ⟨⟨e0, h0, hl0, rfl⟩, hc⟩
    have hn : ¬ (fs.contains e0.file = true) := by rw [hc]; simp
    refine ⟨{ e0 with status := 0 }, ⟨e0, ⟨h0, hl0⟩, by rw [if_neg hn]⟩, by simp [isLive], rfl⟩

theorem unchanged_live (fs : List Nat) (m : Manifest) (h : m.any (fun e => isLive e && fs.contains e.file) = false) (x : Nat) :
    x ∈ liveFiles m ↔ x ∈ liveFiles m ∧ fs.contains x = false := by
  constructor
  · intro hx
    refine ⟨hx, ?_⟩
    obtain ⟨e, he, hl, rfl⟩ := (mem_liveFiles _ _).1 hx
    have := List.any_eq_false.1 h e he
    simp only [hl, Bool.true_and] at this
    simpa using this
  · exact fun h => h.1

theorem encStep_inv (uri : Nat → UriForm) (huri : ∀ f, uri f ≠ .remote) (ms : List Manifest) (L : List Nat) (op : HOp)
    (inv : EncInv uri ms L) : EncInv uri (encStep uri ms op) (liveStep L op) := by
  cases op with
  | append fs =>
    refine ⟨?_, ?_⟩
    · intro e he
      simp only [encStep, List.flatten_cons, List.mem_append, List.mem_map] at he
      rcases he with ⟨f, _, rfl⟩ | he
      · exact Or.inr ⟨rfl, rfl, huri f⟩
      · exact inv.acc e he
    · intro x
      simp only [encStep, liveStep, List.flatten_cons, liveFiles_append, List.mem_append]
      rw [inv.mem x]
      have : x ∈ liveFiles (fs.map fun f => ({ status := 1, file := f, uri := uri f } : Entry)) ↔ x ∈ fs := by
        rw [mem_liveFiles]
        constructor
        · rintro ⟨e, he, _, rfl⟩
          obtain ⟨a, ha, rfl⟩ := List.mem_map.1 he
          exact ha
        · intro hx
          exact ⟨_, List.mem_map.2 ⟨x, hx, rfl⟩, by simp [isLive], rfl⟩
      rw [this]; exact Or.comm
  | remove fs =>
    have key : ∀ (l : List Manifest), (∀ e ∈ l.flatten, Acceptable e) →
        (∀ e ∈ (l.map fun m => if m.any (fun e => isLive e && fs.contains e.file) then rewriteFor fs m else m).flatten, Acceptable e) ∧
        (∀ x, x ∈ liveFiles (l.map fun m => if m.any (fun e => isLive e && fs.contains e.file) then rewriteFor fs m else m).flatten ↔
              x ∈ liveFiles l.flatten ∧ fs.contains x = false) := by
      intro l
      induction l with
      | nil => intro _; exact ⟨by simp, by simp [liveFiles]⟩
      | cons m l ih =>
        intro hacc
        have hm : ∀ e ∈ m, Acceptable e := fun e he => hacc e (by simp [he])
        have hl : ∀ e ∈ l.flatten, Acceptable e := fun e he => hacc e (by simp only [List.flatten_cons, List.mem_append]; exact Or.inr he)
        obtain ⟨ih1, ih2⟩ := ih hl
        refine ⟨?_, ?_⟩
        · intro e he
          simp only [List.map_cons, List.flatten_cons, List.mem_append] at he
          rcases he with he | he
          · split at he
            · exact rewriteFor_acc fs m hm e he
            · exact hm e he
          · exact ih1 e he
        · intro x
          simp only [List.map_cons, List.flatten_cons, liveFiles_append, List.mem_append]
          rw [ih2 x]
          have : x ∈ liveFiles (if m.any (fun e => isLive e && fs.contains e.file) = true then rewriteFor fs m else m) ↔
              x ∈ liveFiles m ∧ fs.contains x = false := by
            split
            · exact rewriteFor_live fs m x
            · rename_i h; exact unchanged_live fs m (by simpa using h) x
          rw [this]
          constructor
          · rintro (⟨a, b⟩ | ⟨a, b⟩)
            · exact ⟨Or.inl a, b⟩
            · exact ⟨Or.inr a, b⟩
          · rintro ⟨a | a, b⟩
            · exact Or.inl ⟨a, b⟩
            · exact Or.inr ⟨a, b⟩
    obtain ⟨k1, k2⟩ := key ms inv.acc
    refine ⟨k1, ?_⟩
    intro x
    simp only [encStep, liveStep]
    rw [k2 x, inv.mem x, List.mem_filter]
    simp
  | rewriteManifests =>
    refine ⟨?_, ?_⟩
    · intro e he
      simp only [encStep, List.flatten_cons, List.flatten_nil, List.append_nil, List.mem_map, List.mem_filter] at he
      obtain ⟨e0, ⟨h0, hl⟩, rfl⟩ := he
      rcases inv.acc e0 h0 with hd | hacc
      · exact absurd hd ((isLive_iff e0).1 hl)
      · exact Or.inr hacc
    · intro x
      simp only [encStep, liveStep, List.flatten_cons, List.flatten_nil, List.append_nil]
      rw [← inv.mem x]
      simp only [mem_liveFiles, List.mem_map, List.mem_filter]
      constructor
      · rintro ⟨e, ⟨e0, ⟨h0, hl0⟩, rfl⟩, _, hf⟩
        exact ⟨e0, h0, hl0, hf⟩
      · rintro ⟨e0, h0, hl0, hf⟩
        exact ⟨{ e0 with status := 0 }, ⟨e0, ⟨h0, hl0⟩, rfl⟩, by simp [isLive], hf⟩
  | metadataOnly => exact inv

theorem enc_inv (uri : Nat → UriForm) (huri : ∀ f, uri f ≠ .remote) : ∀ (h : List HOp) (ms : List Manifest) (L : List Nat),
    EncInv uri ms L → EncInv uri (h.foldl (encStep uri) ms) (h.foldl liveStep L) := by
  intro h
  induction h with
  | nil => intro ms L inv; exact inv
  | cons op rest ih => intro ms L inv; exact ih _ _ (encStep_inv uri huri ms L op inv)

/-! metadata choice -/

def metaLe (a b : MetaFile) : Prop := a.lastUpdatedMs < b.lastUpdatedMs ∨ (a.lastUpdatedMs = b.lastUpdatedMs ∧ a.name ≤ b.name)

theorem pickLatest_spec : ∀ (l : List MetaFile) (best : Option MetaFile) (m : MetaFile), pickLatest best l = some m →
    (m ∈ l ∨ best = some m) ∧ (∀ b, best = some b → metaLe b m) ∧ (∀ x ∈ l, metaLe x m) := by
  intro l
  induction l with
  | nil =>
    intro best m h
    simp only [pickLatest] at h
    subst h
    exact ⟨Or.inr rfl, fun b hb => by injection hb with hb; subst hb; exact Or.inr ⟨rfl, Nat.le_refl _⟩, by simp⟩
  | cons x xs ih =>
    intro best m h
    cases best with
    | none =>
      simp only [pickLatest] at h
      obtain ⟨h1, h2, h3⟩ := ih (some x) m h
      refine ⟨?_, by simp, ?_⟩
      · rcases h1 with h1 | h1
        · exact Or.inl (List.mem_cons_of_mem _ h1)
        · injection h1 with h1; subst h1; exact Or.inl List.mem_cons_self
      · intro y hy
        rcases List.mem_cons.1 hy with rfl | hy
        · exact h2 _ rfl
        · exact h3 y hy
    | some b =>
      simp only [pickLatest] at h
      split at h
      · rename_i hc
        obtain ⟨h1, h2, h3⟩ := ih (some x) m h
        have hxm := h2 x rfl
        have hbx : metaLe b x := by
          simp only [Bool.or_eq_true, decide_eq_true_eq, Bool.and_eq_true, beq_iff_eq] at hc
          rcases hc with hc | ⟨hc1, hc2⟩
          · exact Or.inl hc
          · exact Or.inr ⟨hc1.symm, Nat.le_of_lt hc2⟩
        refine ⟨?_, ?_, ?_⟩
        · rcases h1 with h1 | h1
          · exact Or.inl (List.mem_cons_of_mem _ h1)
          · injection h1 with h1; subst h1; exact Or.inl List.mem_cons_self
        · intro b' hb'; injection hb' with hb'; subst hb'
          unfold metaLe at *; omega
        · intro y hy
          rcases List.mem_cons.1 hy with rfl | hy
          · exact hxm
          · exact h3 y hy
      · rename_i hc
        obtain ⟨h1, h2, h3⟩ := ih (some b) m h
        have hbm := h2 b rfl
        have hxb : metaLe x b := by
          simp only [Bool.or_eq_true, decide_eq_true_eq, Bool.and_eq_true, beq_iff_eq, not_or, not_and] at hc
          unfold metaLe; omega
        refine ⟨?_, ?_, ?_⟩
        · rcases h1 with h1 | h1
          · exact Or.inl (List.mem_cons_of_mem _ h1)
          · exact Or.inr h1
        · intro b' hb'; injection hb' with hb'; subst hb'; exact hbm
        · intro y hy
          rcases List.mem_cons.1 hy with rfl | hy
          · unfold metaLe at *; omega
          · exact h3 y hy

end IQE.Engine.Iceberg
