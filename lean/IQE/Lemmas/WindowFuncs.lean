/-
  IQE.Lemmas.WindowFuncs — list-level facts behind the per-function kernels of IQE.Engine.Window:
  prefix sums (COUNT / SUM / AVG over a frame slice), offset navigation (LAG / LEAD), frame navigation
  (FIRST_VALUE / LAST_VALUE / NTH_VALUE), the scatter back to input order, ROW_NUMBER.
-/
import IQE.Engine.Window
import IQE.Spec.Window
namespace IQE.Lemmas.WindowFuncs
open IQE IQE.Spec IQE.Engine.Window

/-! ### prefix sums -/

/-- running values after each row -/
def scan {α β : Type} (add : α → β → α) (v : α) : List β → List α
  | [] => []
  | r :: rs => add v r :: scan add (add v r) rs

theorem foldl_prefix_step {α : Type} (zero : α) (add : α → SRow → α) (rows : List SRow) (acc : List α) (v : α)
    (hv : acc.getLastD zero = v) :
    rows.foldl (fun acc r => acc ++ [add (acc.getLastD zero) r]) acc = acc ++ scan add v rows := by
  induction rows generalizing acc v with
  | nil => simp [scan]
  | cons r rs ih =>
    simp only [List.foldl_cons, scan]
    rw [hv, ih (acc ++ [add v r]) (add v r) (by simp)]
    simp

theorem prefixes_eq {α : Type} (zero : α) (add : α → SRow → α) (rows : List SRow) :
    prefixes zero add rows = zero :: scan add zero rows := by
  unfold prefixes
  rw [foldl_prefix_step zero add rows [zero] zero rfl]
  rfl

theorem scan_getD {α : Type} (add : α → SRow → α) (v d : α) (rows : List SRow) (i : Nat) (hi : i < rows.length) :
    (scan add v rows).getD i d = (rows.take (i + 1)).foldl add v := by
  induction rows generalizing v i with
  | nil => simp at hi
  | cons r rs ih =>
    cases i with
    | zero => simp [scan]
    | succ j =>
      simp only [scan, List.getD_cons_succ, List.take_succ_cons, List.foldl_cons]
      exact ih (add v r) j (by simpa using hi)

/-- `prefix[i]` is the fold over the first `i` sorted rows -/
theorem prefixes_getD {α : Type} (zero d : α) (add : α → SRow → α) (rows : List SRow) (i : Nat) (hi : i ≤ rows.length) :
    (prefixes zero add rows).getD i d = (rows.take i).foldl add zero := by
  rw [prefixes_eq]
  cases i with
  | zero => simp
  | succ j => simp only [List.getD_cons_succ]; exact scan_getD add zero d rows j (by omega)

theorem foldl_add_eq_sum (f : SRow → Int) (z : Int) (l : List SRow) :
    l.foldl (fun acc r => acc + f r) z = z + (l.map f).sum := by
  induction l generalizing z with
  | nil => simp
  | cons r rs ih => simp only [List.foldl_cons, List.map_cons, List.sum_cons]; rw [ih]; omega

/-- O(1) frame aggregate by prefix sums = the sum over the frame slice, for every (possibly empty) range -/
theorem prefix_diff_eq_slice_sum (f : SRow → Int) (rows : List SRow) (s e : Nat) (hse : s ≤ e) (he : e ≤ rows.length) :
    (prefixes 0 (fun acc r => acc + f r) rows).getD e 0 - (prefixes 0 (fun acc r => acc + f r) rows).getD s 0 =
      (((rows.drop s).take (e - s)).map f).sum := by
  rw [prefixes_getD 0 0 _ rows e he, prefixes_getD 0 0 _ rows s (by omega), foldl_add_eq_sum, foldl_add_eq_sum]
  have hsplit : rows.take e = rows.take s ++ (rows.drop s).take (e - s) := by
    have := List.take_append_drop s (rows.take e)
    rw [List.take_take, Nat.min_eq_left hse, List.drop_take] at this
    exact this.symm
  rw [hsplit, List.map_append, List.sum_append]
  omega

/-- COUNT over a slice: the prefix-count increment is the reference aggregate's non-NULL count -/
theorem count_slice (star : Bool) (slice : List SRow) :
    ((slice.map (fun r => (if star || !(arg0 r).isNull then 1 else 0 : Int))).sum) =
      (if star then (slice.length : Int) else (((slice.map arg0).filter (fun v => !v.isNull)).length : Int)) := by
  induction slice with
  | nil => cases star <;> simp
  | cons r rs ih =>
    cases star
    · simp only [Bool.false_or, List.map_cons, List.sum_cons, Bool.false_eq_true, if_false] at ih ⊢
      rw [ih]
      by_cases h : (arg0 r).isNull = true
      · simp [List.filter_cons, h]
      · have h' : (arg0 r).isNull = false := by simpa using h
        simp [List.filter_cons, h']; omega
    · simp only [Bool.true_or, if_true, List.map_cons, List.sum_cons, List.length_cons] at ih ⊢
      rw [ih]; omega

/-- integer SUM: the reference fold (with its i64 range check) returns, when it succeeds, the plain sum -/
theorem sumVals_ints (fo : FloatOps) (i : Int) (is : List Int) (v : Val)
    (h : is.foldlM (fun acc x => Val.arith fo .add acc (.int x)) (Val.int i) = .ok v) : v = .int (i + is.sum) := by
  induction is generalizing i with
  | nil => simp [List.foldlM, pure, Except.pure] at h; simp [← h]
  | cons x xs ih =>
    simp only [List.foldlM_cons, Val.arith, Val.arithInt, Val.checkI64, bind, Except.bind] at h
    split at h
    · cases h
    · rename_i w hw
      split at hw
      · cases hw
        have := ih (i + x) h
        rw [this, List.sum_cons]; congr 1; omega
      · cases hw

/-! ### LAG / LEAD -/

/-- the engine's source index inside the partition `[ps, pe)` = the reference's `ord[p ± off]?` on the partition slice -/
theorem lead_index (sorted : List SRow) (ps pe i off : Nat) (hps : ps ≤ i) (hi : i < pe) (hpe : pe ≤ sorted.length) :
    (if i + off < pe then some (sorted.getD (i + off) default) else none) =
      ((sorted.drop ps).take (pe - ps))[i - ps + off]? := by
  by_cases h : i + off < pe
  · simp only [h, if_true]
    rw [List.getElem?_take_of_lt (by omega), List.getElem?_drop]
    have e : ps + (i - ps + off) = i + off := by omega
    rw [e, List.getD_eq_getElem?_getD, List.getElem?_eq_getElem (by omega)]
    simp
  · simp only [h, if_false]
    symm
    apply List.getElem?_eq_none
    simp; omega

theorem lag_index (sorted : List SRow) (ps pe i off : Nat) (hps : ps ≤ i) (hi : i < pe) (hpe : pe ≤ sorted.length) :
    (if off ≤ i ∧ ps ≤ i - off then some (sorted.getD (i - off) default) else none) =
      (if off ≤ i - ps then ((sorted.drop ps).take (pe - ps))[i - ps - off]? else none) := by
  by_cases h : off ≤ i - ps
  · have h' : off ≤ i ∧ ps ≤ i - off := by omega
    simp only [h, h', and_self, if_true]
    rw [List.getElem?_take_of_lt (by omega), List.getElem?_drop]
    have e : ps + (i - ps - off) = i - off := by omega
    rw [e, List.getD_eq_getElem?_getD, List.getElem?_eq_getElem (by omega)]
    simp
  · have h' : ¬ (off ≤ i ∧ ps ≤ i - off) := by omega
    simp only [h, h', if_false]

/-! ### FIRST_VALUE / LAST_VALUE / NTH_VALUE over a frame slice `[s, e)` -/

theorem first_of_slice (sorted : List SRow) (s e : Nat) (hse : s < e) (he : e ≤ sorted.length) :
    ((sorted.drop s).take (e - s)).head? = some (sorted.getD s default) := by
  rw [List.head?_take, if_neg (by omega), List.head?_drop, List.getD_eq_getElem?_getD, List.getElem?_eq_getElem (by omega)]
  simp

theorem last_of_slice (sorted : List SRow) (s e : Nat) (hse : s < e) (he : e ≤ sorted.length) :
    ((sorted.drop s).take (e - s)).getLast? = some (sorted.getD (e - 1) default) := by
  rw [List.getLast?_eq_getElem?]
  have hl : ((sorted.drop s).take (e - s)).length = e - s := by simp; omega
  rw [hl, List.getElem?_take_of_lt (by omega), List.getElem?_drop]
  have e1 : s + (e - s - 1) = e - 1 := by omega
  rw [e1, List.getD_eq_getElem?_getD, List.getElem?_eq_getElem (by omega)]
  simp

theorem nth_of_slice (sorted : List SRow) (s e k : Nat) (hk : 0 < k) (he : e ≤ sorted.length) :
    ((sorted.drop s).take (e - s))[k - 1]? = (if s + (k - 1) < e then some (sorted.getD (s + (k - 1)) default) else none) := by
  by_cases h : s + (k - 1) < e
  · simp only [h, if_true]
    rw [List.getElem?_take_of_lt (by omega), List.getElem?_drop, List.getD_eq_getElem?_getD, List.getElem?_eq_getElem (by omega)]
    simp
  · simp only [h, if_false]
    apply List.getElem?_eq_none
    simp; omega

theorem empty_slice (sorted : List SRow) (s e : Nat) (h : e ≤ s) : (sorted.drop s).take (e - s) = [] := by
  have : e - s = 0 := by omega
  simp [this]

/-! ### scatter -/

/-- `out[indices[i]] = vals[i]`: the value computed at sorted position `i` lands on the original row `indices[i]` -/
theorem scatter_getD (indices : List Nat) (vals : List Val) (n : Nat) (hnd : indices.Nodup) (i : Nat) (hi : i < indices.length)
    (hlt : indices[i] < n) :
    ((List.range n).map (fun orig => vals.getD (indices.idxOf orig) .null)).getD indices[i] .null = vals.getD i .null := by
  rw [List.getD_eq_getElem?_getD, List.getElem?_map, List.getElem?_range hlt]
  simp only [Option.map_some, Option.getD_some]
  congr 1
  exact hnd.idxOf_getElem i hi

/-- the window node leaves every input column unchanged, in input order, and appends one column per call -/
theorem appendCols_spec (rows : Table) (cols : List (List Val)) (i : Nat) (hi : i < rows.length) :
    (Win.appendCols rows cols).length = rows.length ∧
    ((Win.appendCols rows cols).getD i []).take (rows.getD i []).length = rows.getD i [] ∧
    ((Win.appendCols rows cols).getD i []).drop (rows.getD i []).length = cols.map (fun col => col.getD i .null) := by
  unfold Win.appendCols
  have hrow : (List.map (fun (x : Row × Nat) => x.1 ++ List.map (fun col => col.getD x.2 Val.null) cols) rows.zipIdx).getD i [] =
      rows.getD i [] ++ cols.map (fun col => col.getD i .null) := by
    simp [List.getD_eq_getElem?_getD, List.getElem?_eq_getElem hi]
  refine ⟨by simp, ?_, ?_⟩
  · show ((List.map (fun (x : Row × Nat) => x.1 ++ List.map (fun col => col.getD x.2 Val.null) cols) rows.zipIdx).getD i []).take _ = _
    rw [hrow]; simp
  · show ((List.map (fun (x : Row × Nat) => x.1 ++ List.map (fun col => col.getD x.2 Val.null) cols) rows.zipIdx).getD i []).drop _ = _
    rw [hrow]; simp

/-! ### ROW_NUMBER -/

/-- over a partition of `m` rows the numbers assigned along the window order are exactly 1 … m -/
theorem row_numbers (ps m : Nat) : (List.range' ps m).map (fun i => i - ps + 1) = List.range' 1 m := by
  apply List.ext_getElem
  · simp
  · intro j h₁ h₂
    simp only [List.getElem_map, List.getElem_range']
    omega

end IQE.Lemmas.WindowFuncs
